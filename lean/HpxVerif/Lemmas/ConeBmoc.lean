import HpxVerif.Lemmas.Tightness2
import HpxVerif.Lemmas.EConeEq3

/-!
# C05 / C06 on the BMOC RETURNED by `cone_coverage_approx` (part 1: geometry of ancestors and descendants)

`CellExtent.InCellEq d h q` ("`q` is a position of the strictly equatorial cell `(d, h)`") is related between a cell and
its ancestors `h / 4^n`, which is what the compaction `to_bmoc_packing` and `to_lower_depth` need:

* `child_offsets`, `child_dist`, `anc_dist`: the centre of a cell of depth `d + n` is within `1/2^d − 1/2^(d+n)`
  (1-norm, projection plane) of the centre of its ancestor of depth `d`: the diamond of a cell lies in the diamond of
  every ancestor;
* `pcy_le_one`, `anc_band_le`: an ancestor of a strictly equatorial cell has its centre in the CLOSED band (`|y| ≤ 1`);
* **`inCellEq_ancestor`**: a position of a strictly equatorial cell is a position of every STRICTLY equatorial ancestor.
  (The hypothesis cannot be dropped: the south child of a cell centred on the transition latitude is strictly
  equatorial, its parent is not.)
* **`inCellEq_descend`**: a position of a strictly equatorial cell of depth `d` is a position of a descendant `x` of
  depth `d + n ≤ 29`, and of all the cells in between;
* `band_edge_not_in_cone`: a cell whose centre is ON the transition latitude (`|y| = 1`) has its `center` outside every
  cone with `|lat| + r < tl`.
-/

namespace Hpx.ConeBmoc
open Hpx Hpx.Hash Hpx.C2V Hpx.C2VReal Hpx.Proj Hpx.Cover Hpx.CellReal Hpx.EnvelopeReal Hpx.TopoLift Hpx.CellExtent
open Hpx.Bmoc Real

/-- abscissa / ordinate of the centre of cell `h` of depth `d` in the projection plane -/
noncomputable def pcx (d h : ℕ) : ℝ := cellCx d (partsOf d h).d0h (partsOf d h).i (partsOf d h).j
noncomputable def pcy (d h : ℕ) : ℝ := cellCy d (partsOf d h).d0h (partsOf d h).i (partsOf d h).j

theorem inCellEq_def (d h : ℕ) (q : ℝ × ℝ) : InCellEq d h q ↔ (d ≤ 29 ∧ h < 12 * 4 ^ d ∧ |pcy d h| < 1 ∧
    ∃ (x' y' : ℝ) (m : ℤ), InDiamond (pcx d h) (pcy d h) (1 / 2 ^ d) x' y' ∧ q = (x' * (π / 4) + 2 * π * m, latOf y')) :=
  Iff.rfl

/-! ## one level -/

theorem child_offsets (d h k : ℕ) (hd : d ≤ 31) (hk : k < 4) :
    pcx (d + 1) (4 * h + k) = pcx d h + (((k % 2 : ℕ) : ℝ) - ((k / 2 : ℕ) : ℝ)) / 2 ^ (d + 1) ∧
    pcy (d + 1) (4 * h + k) = pcy d h + (((k % 2 : ℕ) : ℝ) + ((k / 2 : ℕ) : ℝ) - 1) / 2 ^ (d + 1) := by
  unfold pcx pcy
  rw [partsOf_child d h k hd hk]
  exact child_center d _ _ _ (k % 2) (k / 2)

theorem child_dist (d h k : ℕ) (hd : d ≤ 31) (hk : k < 4) :
    |pcx (d + 1) (4 * h + k) - pcx d h| + |pcy (d + 1) (4 * h + k) - pcy d h| ≤ 1 / 2 ^ (d + 1) := by
  obtain ⟨ex, ey⟩ := child_offsets d h k hd hk
  rw [ex, ey, add_sub_cancel_left, add_sub_cancel_left]
  have hp : (0 : ℝ) < 2 ^ (d + 1) := by positivity
  rw [abs_div, abs_div, abs_of_pos hp, ← add_div]
  apply div_le_div_of_nonneg_right _ hp.le
  interval_cases k <;> norm_num

/-- the east child `4h + 1` has the ordinate of its parent -/
theorem east_child_pcy (d h : ℕ) (hd : d ≤ 31) : pcy (d + 1) (4 * h + 1) = pcy d h := by
  obtain ⟨_, ey⟩ := child_offsets d h 1 hd (by omega)
  rw [ey]
  norm_num

/-! ## `n` levels -/

theorem div_pow_succ (x n : ℕ) : x / 4 / 4 ^ n = x / 4 ^ (n + 1) := by
  rw [Nat.div_div_eq_div_mul, Nat.pow_succ, Nat.mul_comm]

/-- the centre of a cell of depth `d + n` is within `1/2^d − 1/2^(d+n)` of the centre of its ancestor of depth `d` -/
theorem anc_dist (d : ℕ) : ∀ (n x : ℕ), d + n ≤ 32 →
    |pcx (d + n) x - pcx d (x / 4 ^ n)| + |pcy (d + n) x - pcy d (x / 4 ^ n)| ≤ 1 / 2 ^ d - 1 / 2 ^ (d + n) := by
  intro n
  induction n with
  | zero => intro x _; simp
  | succ n ih =>
    intro x hdn
    have h1 := child_dist (d + n) (x / 4) (x % 4) (by omega) (Nat.mod_lt _ (by decide))
    rw [show 4 * (x / 4) + x % 4 = x by omega] at h1
    have h2 := ih (x / 4) (by omega)
    rw [div_pow_succ] at h2
    have hx := abs_sub_le (pcx (d + n + 1) x) (pcx (d + n) (x / 4)) (pcx d (x / 4 ^ (n + 1)))
    have hy := abs_sub_le (pcy (d + n + 1) x) (pcy (d + n) (x / 4)) (pcy d (x / 4 ^ (n + 1)))
    have e : (1 : ℝ) / 2 ^ (d + n) = 2 * (1 / 2 ^ (d + n + 1)) := by
      rw [pow_succ]; field_simp
    rw [show d + (n + 1) = d + n + 1 by omega]
    linarith

/-- the ordinate of a cell centre is a multiple of `1/2^d` -/
theorem pcy_le_one (d h : ℕ) (hlt : |pcy d h| < 1 + 1 / 2 ^ d) : |pcy d h| ≤ 1 := by
  unfold pcy at hlt ⊢
  obtain ⟨_, k2⟩ := centerXY_real d (partsOf d h).d0h (partsOf d h).i (partsOf d h).j
  have hp : (0 : ℝ) < 2 ^ d := by positivity
  set Z : ℤ := (Layer.centerXY d ⟨(partsOf d h).d0h, (partsOf d h).i, (partsOf d h).j⟩).2 with hZ
  have hy : cellCy d (partsOf d h).d0h (partsOf d h).i (partsOf d h).j = (Z : ℝ) / 2 ^ d := by rw [k2]; field_simp
  rw [hy, abs_div, abs_of_pos hp] at hlt ⊢
  rw [div_lt_iff₀ hp] at hlt
  have e : (1 + 1 / (2 : ℝ) ^ d) * 2 ^ d = 2 ^ d + 1 := by field_simp
  rw [e] at hlt
  have h2 : |Z| < 2 ^ d + 1 := by
    have : ((|Z| : ℤ) : ℝ) < ((2 ^ d + 1 : ℤ) : ℝ) := by push_cast; exact hlt
    exact_mod_cast this
  have h3 : |Z| ≤ 2 ^ d := by omega
  rw [div_le_one hp]
  have : ((|Z| : ℤ) : ℝ) ≤ ((2 ^ d : ℤ) : ℝ) := by exact_mod_cast h3
  push_cast at this
  exact this

/-- an ancestor of a strictly equatorial cell has its centre in the closed band -/
theorem anc_band_le (d n x : ℕ) (hdn : d + n ≤ 32) (hx : |pcy (d + n) x| < 1) : |pcy d (x / 4 ^ n)| ≤ 1 := by
  apply pcy_le_one
  have h1 := anc_dist d n x hdn
  have h2 := abs_nonneg (pcx (d + n) x - pcx d (x / 4 ^ n))
  have h3 : (0 : ℝ) < 1 / 2 ^ (d + n) := by positivity
  have h4 := abs_sub_abs_le_abs_sub (pcy d (x / 4 ^ n)) (pcy (d + n) x)
  rw [abs_sub_comm] at h4
  linarith

theorem anc_lt' (d n x : ℕ) (hx : x < 12 * 4 ^ (d + n)) : x / 4 ^ n < 12 * 4 ^ d := by
  rw [Nat.div_lt_iff_lt_mul (Nat.pow_pos (by decide)), Nat.mul_assoc, ← Nat.pow_add]
  exact hx

/-- **`inCellEq_ancestor`**: a position of the strictly equatorial cell `x` of depth `d + n` is a position of its ancestor
    `x / 4^n` of depth `d` as soon as that ancestor is strictly equatorial -/
theorem inCellEq_ancestor (d n x : ℕ) (q : ℝ × ℝ) (hq : InCellEq (d + n) x q) (hband : |pcy d (x / 4 ^ n)| < 1) :
    InCellEq d (x / 4 ^ n) q := by
  obtain ⟨hd29, hh, _, x', y', m, hin, rfl⟩ := hq
  refine ⟨by omega, anc_lt' d n x hh, hband, x', y', m, ?_, rfl⟩
  have h1 := anc_dist d n x (by omega)
  unfold InDiamond at hin ⊢
  change |x' - pcx (d + n) x| + |y' - pcy (d + n) x| ≤ 1 / 2 ^ (d + n) at hin
  change |x' - pcx d (x / 4 ^ n)| + |y' - pcy d (x / 4 ^ n)| ≤ 1 / 2 ^ d
  have hx := abs_sub_le x' (pcx (d + n) x) (pcx d (x / 4 ^ n))
  have hy := abs_sub_le y' (pcy (d + n) x) (pcy d (x / 4 ^ n))
  linarith

/-- the same with the exponent written as a difference -/
theorem inCellEq_ancestor' (D d x : ℕ) (hd : d ≤ D) (q : ℝ × ℝ) (hq : InCellEq D x q)
    (hband : |pcy d (x / 4 ^ (D - d))| < 1) : InCellEq d (x / 4 ^ (D - d)) q := by
  have e : D = d + (D - d) := by omega
  rw [e] at hq
  exact inCellEq_ancestor d (D - d) x q hq hband

theorem anc_band_le' (D d x : ℕ) (hd : d ≤ D) (hD : D ≤ 32) (hx : |pcy D x| < 1) : |pcy d (x / 4 ^ (D - d))| ≤ 1 := by
  have e : D = d + (D - d) := by omega
  rw [e] at hx
  exact anc_band_le d (D - d) x (by omega) hx

/-! ## descending -/

/-- **`inCellEq_descend`**: a position `q` of the strictly equatorial cell `(d, h)` is a position of a descendant `x` of
    depth `d + n ≤ 29` and of every cell between them -/
theorem inCellEq_descend : ∀ (n d h : ℕ) (q : ℝ × ℝ), d + n ≤ 29 → InCellEq d h q →
    ∃ x, x / 4 ^ n = h ∧ ∀ k, k ≤ n → InCellEq (d + k) (x / 4 ^ (n - k)) q := by
  intro n
  induction n with
  | zero =>
    intro d h q _ hq
    refine ⟨h, by simp, ?_⟩
    intro k hk
    have : k = 0 := by omega
    subst this
    simpa using hq
  | succ n ih =>
    intro d h q hdn hq
    have hch := inCellEq_children d h q (by omega) hq
    rw [shl2_or h 1 (by omega), shl2_or h 2 (by omega), shl2_or h 3 (by omega),
      show h <<< 2 = 4 * h + 0 by rw [Nat.shiftLeft_eq]; omega] at hch
    have key : ∀ c, c < 4 → InCellEq (d + 1) (4 * h + c) q →
        ∃ x, x / 4 ^ (n + 1) = h ∧ ∀ k, k ≤ n + 1 → InCellEq (d + k) (x / 4 ^ (n + 1 - k)) q := by
      intro c hc hcq
      obtain ⟨x, hx, hall⟩ := ih (d + 1) (4 * h + c) q (by omega) hcq
      refine ⟨x, ?_, ?_⟩
      · rw [Nat.pow_succ, ← Nat.div_div_eq_div_mul, hx]; omega
      · intro k hk
        rcases Nat.eq_zero_or_pos k with h0 | h0
        · subst h0
          have : x / 4 ^ (n + 1 - 0) = h := by
            rw [Nat.sub_zero, Nat.pow_succ, ← Nat.div_div_eq_div_mul, hx]; omega
          rw [this]; exact hq
        · have := hall (k - 1) (by omega)
          rw [show d + 1 + (k - 1) = d + k by omega, show n - (k - 1) = n + 1 - k by omega] at this
          exact this
    rcases hch with h0 | h1 | h2 | h3
    · exact key 0 (by omega) h0
    · exact key 1 (by omega) h1
    · exact key 2 (by omega) h2
    · exact key 3 (by omega) h3

/-- the form used below: a position of `(d, h)` is a position of a cell `x` of depth `D` with `x / 4^(D − d) = h`, and of
    all the ancestors of `x` down to depth `d` -/
theorem inCellEq_descend' (D d h : ℕ) (q : ℝ × ℝ) (hd : d ≤ D) (hD : D ≤ 29) (hq : InCellEq d h q) :
    ∃ x, x / 4 ^ (D - d) = h ∧ InCellEq D x q ∧ ∀ d', d ≤ d' → d' ≤ D → InCellEq d' (x / 4 ^ (D - d')) q := by
  obtain ⟨x, hx, hall⟩ := inCellEq_descend (D - d) d h q (by omega) hq
  refine ⟨x, hx, ?_, ?_⟩
  · have := hall (D - d) le_rfl
    rw [show d + (D - d) = D by omega, Nat.sub_self, Nat.pow_zero, Nat.div_one] at this
    exact this
  · intro d' h1 h2
    have := hall (d' - d) (by omega)
    rw [show d + (d' - d) = d' by omega, show D - d - (d' - d) = D - d' by omega] at this
    exact this

/-! ## a cell centred on the transition latitude -/

theorem latOf_one : latOf 1 = tl := by
  unfold latOf
  rw [one_mul]
  rfl

theorem latOf_neg_one : latOf (-1) = -tl := by
  unfold latOf
  rw [neg_one_mul, Real.arcsin_neg]
  rfl

/-- the latitude of a position within `r` of `(lon, lat)` is below `tl` in absolute value when `|lat| + r < tl` -/
theorem lat_lt_of_in_cone (lon lat r : ℝ) (hA : |lat| + r < tl) (p : ℝ × ℝ) (hp : |p.2| ≤ π / 2)
    (hin : adist (lon, lat) p ≤ r) : |p.2| < tl := by
  have hlat : |lat| ≤ π / 2 := by
    have := tl_le_pi3
    have := Real.pi_pos
    have := (adist_nonneg _ _).trans hin
    linarith
  have h1 := adist_ge_lat_diff lon p.1 lat p.2 hlat hp
  have h2 := abs_sub_abs_le_abs_sub p.2 lat
  rw [abs_sub_comm] at h2
  linarith

/-- **a cell whose centre is on the transition latitude has its `center` outside the cone** (`|lat| + r < tl`) -/
theorem band_edge_not_in_cone (cfg : Cfg) (lon lat r : ℝ) (hA : |lat| + r < tl) (d h : ℕ) (hd : d ≤ 29)
    (hh : h < 12 * 4 ^ d) (hedge : |pcy d h| = 1) (ctr : ℝ × ℝ) (hctr : center (α := ℝ) cfg d h = some ctr) :
    r < adist (lon, lat) ctr := by
  by_contra hcon
  rw [not_lt] at hcon
  obtain ⟨hb, hi, hj⟩ := partsOf_valid d h hh
  obtain ⟨m, hc⟩ := center_lonlat cfg d h (partsOf d h).d0h (partsOf d h).i (partsOf d h).j
    (by rw [nHash_eq]; exact hh) (decodeHash_spec cfg d hd h hh) hb hi hj (le_of_eq hedge)
  rw [hctr] at hc
  have hc' := Option.some.inj hc
  have h2 : ctr.2 = latOf (pcy d h) := by rw [hc']; rfl
  have hlt := lat_lt_of_in_cone lon lat r hA ctr (by rw [h2]; exact latOf_abs_le _) hcon
  have htl : 0 < tl := by have := tl_ge; linarith
  rw [h2] at hlt
  rcases (abs_eq (by norm_num : (0 : ℝ) ≤ 1)).mp hedge with e | e
  · rw [e, latOf_one, abs_of_pos htl] at hlt
    exact lt_irrefl _ hlt
  · rw [e, latOf_neg_one, abs_neg, abs_of_pos htl] at hlt
    exact lt_irrefl _ hlt

end Hpx.ConeBmoc

#print axioms Hpx.ConeBmoc.inCellEq_ancestor
#print axioms Hpx.ConeBmoc.inCellEq_descend
#print axioms Hpx.ConeBmoc.band_edge_not_in_cone
