/-
C14 (internal part), sorted variant, second half: the explicit result of `internal_edge_sorted` is strictly increasing
and a permutation of the result of `internal_edge`, for every `delta_depth`.
-/
import HpxVerif.Lemmas.EdgeInternal2

namespace Hpx.EdgeInternal
open Hpx Hpx.Topo

/-- offset of a cell inside its ancestor, arithmetically -/
def off (c : Nat × Nat) : Nat := sp c.1 + 2 * sp c.2

theorem sp_one : sp 1 = 1 := by decide

theorem pow_lt_32_of_le {b n : Nat} (h1 : 2 ^ b ≤ n) (h2 : n < 2 ^ 32) : b < 32 :=
  (Nat.pow_lt_pow_iff_right (a := 2) (by decide)).1 (by omega)

/-- the south quadrant is enumerated in increasing z-order -/
theorem q0_step (t : Nat) (ht : t + 1 < 2 ^ 32) : off (q0 t) < off (q0 (t + 1)) := by
  rcases q0_cases t with h | ⟨b, x, hb1, hb2, h⟩
  · subst h
    have := q0_x 0 1 (by simp) (by simp)
    simp only [Nat.pow_zero] at this
    rw [show 0 + 1 = 1 + 1 - 1 by rfl, this, q0_zero]
    simp [off, sp_one]
  · have hp := Nat.two_pow_pos b
    have e1 : 2 ^ (b + 1) = 2 * 2 ^ b := by rw [Nat.pow_succ]; omega
    have e4 : 4 ^ (b + 1) = 4 * 4 ^ b := by rw [Nat.pow_succ]; omega
    rcases h with h | h
    · -- x-block
      have hb32 : b < 32 := pow_lt_32_of_le (n := t + 1) (by omega) ht
      rw [h, q0_x b x hb1 hb2]
      by_cases hn : x + 1 < 2 ^ (b + 1)
      · rw [show x + 2 ^ b - 1 + 1 = (x + 1) + 2 ^ b - 1 by omega, q0_x b (x + 1) (by omega) hn]
        have := sp_mono (show x < x + 1 by omega) (by omega)
        simp only [off, sp_zero]; omega
      · rw [show x + 2 ^ b - 1 + 1 = 2 ^ b + 2 ^ (b + 1) - 1 by omega, q0_y b (2 ^ b) (by omega) (by omega)]
        have a1 := sp_lt (b := b + 1) (by omega) hb2
        have a2 := sp_two_pow hb32
        simp only [off, sp_zero]; omega
    · -- y-block
      have hb32 : b + 1 < 32 := pow_lt_32_of_le (n := t + 1) (by omega) ht
      rw [h, q0_y b x hb1 hb2]
      by_cases hn : x + 1 < 2 ^ (b + 1)
      · rw [show x + 2 ^ (b + 1) - 1 + 1 = (x + 1) + 2 ^ (b + 1) - 1 by omega, q0_y b (x + 1) (by omega) hn]
        have := sp_mono (show x < x + 1 by omega) (by omega)
        simp only [off, sp_zero]; omega
      · have e2 : 2 ^ (b + 1 + 1) = 2 * 2 ^ (b + 1) := by rw [Nat.pow_succ]; omega
        rw [show x + 2 ^ (b + 1) - 1 + 1 = 2 ^ (b + 1) + 2 ^ (b + 1) - 1 by omega,
          q0_x (b + 1) (2 ^ (b + 1)) (by omega) (by omega)]
        have a1 := sp_lt (b := b + 1) (by omega) hb2
        have a2 := sp_two_pow hb32
        simp only [off, sp_zero]; omega

/-- cells of the south quadrant: below `N/2`, on the `x` or on the `y` axis -/
theorem q0_bound (dd t : Nat) (h1 : 1 ≤ dd) (ht : t < 2 ^ dd - 1) :
    (q0 t).1 < 2 ^ (dd - 1) ∧ (q0 t).2 < 2 ^ (dd - 1) ∧ ((q0 t).1 = 0 ∨ (q0 t).2 = 0) := by
  have hH := Nat.two_pow_pos (dd - 1)
  rcases in_q0 dd t h1 ht with h | ⟨x, b, hx1, hx2, hb1, hb2, h | h⟩
  · rw [h, q0_zero]; simp [hH]
  · rw [h, q0_x b x hb1 hb2]; simp [hx2, hH]
  · rw [h, q0_y b x hb1 hb2]; simp [hx2, hH]

theorem off_compl (dd : Nat) (hd : dd ≤ 32) (c : Nat × Nat) (h1 : c.1 < 2 ^ dd) (h2 : c.2 < 2 ^ dd) :
    off (2 ^ dd - 1 - c.1, 2 ^ dd - 1 - c.2) + off c = 3 * sp (2 ^ dd - 1) := by
  have a1 := sp_compl hd h1
  have a2 := sp_compl hd h2
  simp only [off]; omega

/-- consecutive elements of the sorted enumeration increase -/
theorem sortCoord_step (dd t : Nat) (h1 : 1 ≤ dd) (hd : dd ≤ 31) (ht : t + 1 < 4 * (2 ^ dd - 1)) :
    off (sortCoord dd t) < off (sortCoord dd (t + 1)) := by
  have hs := pow_split h1
  have hH := Nat.two_pow_pos (dd - 1)
  have h4 : 4 ^ dd = 4 * 4 ^ (dd - 1) := by
    obtain ⟨e, rfl⟩ : ∃ e, dd = e + 1 := ⟨dd - 1, by omega⟩
    rw [Nat.pow_succ]; simp; omega
  have hN32 : 2 ^ dd < 2 ^ 32 := Nat.pow_lt_pow_right (by decide) (by omega)
  have spH : sp (2 ^ (dd - 1)) = 4 ^ (dd - 1) := sp_two_pow (by omega)
  have spM : 3 * sp (2 ^ dd - 1) < 4 ^ dd := sp_lt (by omega) (by omega)
  have spH1 : 3 * sp (2 ^ (dd - 1) - 1) < 4 ^ (dd - 1) := sp_lt (b := dd - 1) (by omega) (by omega)
  have spHM : sp (2 ^ (dd - 1)) + sp (2 ^ (dd - 1) - 1) = sp (2 ^ dd - 1) := by
    have := sp_compl (dd := dd) (x := 2 ^ (dd - 1) - 1) (by omega) (by omega)
    rw [show 2 ^ dd - 1 - (2 ^ (dd - 1) - 1) = 2 ^ (dd - 1) by omega] at this
    exact this
  have s1 := sp_one
  have s0 := sp_zero
  rcases sortCoord_cases dd t with ⟨a1, e⟩ | ⟨a1, a2, e⟩ | ⟨a1, a2, e⟩ | ⟨a1, a2, e⟩ | ⟨a1, a2, e⟩ | ⟨a1, e⟩ <;>
  rcases sortCoord_cases dd (t + 1) with ⟨b1, e'⟩ | ⟨b1, b2, e'⟩ | ⟨b1, b2, e'⟩ | ⟨b1, b2, e'⟩ | ⟨b1, b2, e'⟩ | ⟨b1, e'⟩ <;>
  first
  | omega
  | skip
  all_goals rw [e, e']
  case inl.inl => exact q0_step t (by omega)
  case inl.inr.inl =>
    obtain ⟨c1, c2, c3⟩ := q0_bound dd t h1 a1
    have u1 := sp_lt (b := dd - 1) (by omega) c1
    have u2 := sp_lt (b := dd - 1) (by omega) c2
    rw [show t + 1 - (2 ^ dd - 1) + 2 ^ (dd - 1) = 2 ^ (dd - 1) by omega]
    simp only [off]
    rcases c3 with z | z
    · have : sp (q0 t).1 = 0 := by rw [z, s0]
      omega
    · have : sp (q0 t).2 = 0 := by rw [z, s0]
      omega
  case inr.inl.inr.inl =>
    have := sp_mono (show t - (2 ^ dd - 1) + 2 ^ (dd - 1) < t + 1 - (2 ^ dd - 1) + 2 ^ (dd - 1) by omega) (by omega)
    simp only [off]; omega
  case inr.inl.inr.inr.inl =>
    rw [show t - (2 ^ dd - 1) + 2 ^ (dd - 1) = 2 ^ dd - 1 by omega,
      show t + 1 - (2 ^ dd - 1 + 2 ^ (dd - 1)) + 1 = 1 by omega]
    simp only [off]; omega
  case inr.inl.inr.inr.inr.inl =>
    rw [show t - (2 ^ dd - 1) + 2 ^ (dd - 1) = 1 by omega, show t + 1 - 2 * (2 ^ dd - 1) + 2 ^ (dd - 1) = 1 by omega]
    simp only [off]; omega
  case inr.inr.inl.inr.inr.inl =>
    have := sp_mono (show t - (2 ^ dd - 1 + 2 ^ (dd - 1)) + 1 < t + 1 - (2 ^ dd - 1 + 2 ^ (dd - 1)) + 1 by omega)
      (by omega)
    simp only [off]; omega
  case inr.inr.inl.inr.inr.inr.inl =>
    rw [show t - (2 ^ dd - 1 + 2 ^ (dd - 1)) + 1 = 2 ^ (dd - 1) - 1 by omega,
      show t + 1 - 2 * (2 ^ dd - 1) + 2 ^ (dd - 1) = 2 ^ (dd - 1) by omega]
    simp only [off]; omega
  case inr.inr.inr.inl.inr.inr.inr.inl =>
    have := sp_mono (show t - 2 * (2 ^ dd - 1) + 2 ^ (dd - 1) < t + 1 - 2 * (2 ^ dd - 1) + 2 ^ (dd - 1) by omega)
      (by omega)
    simp only [off]; omega
  case inr.inr.inr.inl.inr.inr.inr.inr.inl =>
    rw [show t - 2 * (2 ^ dd - 1) + 2 ^ (dd - 1) = 2 ^ dd - 1 by omega,
      show t + 1 - (2 * (2 ^ dd - 1) + 2 ^ (dd - 1)) + 1 = 1 by omega]
    simp only [off]; omega
  case inr.inr.inr.inl.inr.inr.inr.inr.inr =>
    rw [show 4 * (2 ^ dd - 1) - 1 - (t + 1) = 0 by omega, q0_zero,
      show t - 2 * (2 ^ dd - 1) + 2 ^ (dd - 1) = 1 by omega]
    simp only [off, Nat.sub_zero]
    rw [show 2 ^ dd - 1 = 1 by omega]; omega
  case inr.inr.inr.inr.inl.inr.inr.inr.inr.inl =>
    have := sp_mono (show t - (2 * (2 ^ dd - 1) + 2 ^ (dd - 1)) + 1 < t + 1 - (2 * (2 ^ dd - 1) + 2 ^ (dd - 1)) + 1
      by omega) (by omega)
    simp only [off]; omega
  case inr.inr.inr.inr.inl.inr.inr.inr.inr.inr =>
    rw [show t - (2 * (2 ^ dd - 1) + 2 ^ (dd - 1)) + 1 = 2 ^ (dd - 1) - 1 by omega,
      show 4 * (2 ^ dd - 1) - 1 - (t + 1) = 2 ^ dd - 1 - 1 by omega]
    obtain ⟨c1, c2, c3⟩ := q0_bound dd (2 ^ dd - 1 - 1) h1 (by omega)
    have u1 := sp_lt (b := dd - 1) (by omega) c1
    have u2 := sp_lt (b := dd - 1) (by omega) c2
    have oc := off_compl dd (by omega) (q0 (2 ^ dd - 1 - 1)) (by omega) (by omega)
    simp only [off] at oc ⊢
    rcases c3 with z | z
    · have : sp (q0 (2 ^ dd - 1 - 1)).1 = 0 := by rw [z, s0]
      omega
    · have : sp (q0 (2 ^ dd - 1 - 1)).2 = 0 := by rw [z, s0]
      omega
  case inr.inr.inr.inr.inr.inr.inr.inr.inr.inr =>
    have st := q0_step (4 * (2 ^ dd - 1) - 1 - t - 1) (by omega)
    rw [show 4 * (2 ^ dd - 1) - 1 - t - 1 + 1 = 4 * (2 ^ dd - 1) - 1 - t by omega] at st
    rw [show 4 * (2 ^ dd - 1) - 1 - (t + 1) = 4 * (2 ^ dd - 1) - 1 - t - 1 by omega]
    obtain ⟨c1, c2, _⟩ := q0_bound dd (4 * (2 ^ dd - 1) - 1 - t) h1 (by omega)
    obtain ⟨d1, d2, _⟩ := q0_bound dd (4 * (2 ^ dd - 1) - 1 - t - 1) h1 (by omega)
    have oc1 := off_compl dd (by omega) (q0 (4 * (2 ^ dd - 1) - 1 - t)) (by omega) (by omega)
    have oc2 := off_compl dd (by omega) (q0 (4 * (2 ^ dd - 1) - 1 - t - 1)) (by omega) (by omega)
    omega

theorem sortVal_eq (hash dd t : Nat) : sortVal hash dd t = hash * 4 ^ dd + off (sortCoord dd t) := by
  rw [sortVal, show sortCoord dd t = ((sortCoord dd t).1, (sortCoord dd t).2) from rfl, cellVal_eq]; rfl

theorem lt_of_succ_lt (f : Nat → Nat) (n : Nat) (h : ∀ t, t + 1 < n → f t < f (t + 1)) :
    ∀ i j, i < j → j < n → f i < f j := by
  intro i j hij
  induction j with
  | zero => omega
  | succ j ih =>
    intro hj
    by_cases e : i = j
    · subst e; exact h i hj
    · exact Nat.lt_trans (ih (by omega) (by omega)) (h j hj)

theorem sortedList_length (hash dd : Nat) : (sortedList hash dd).length = 4 * 2 ^ dd - 4 := by
  simp [sortedList]; omega

/-- the result of `internal_edge_sorted` is strictly increasing -/
theorem sortedList_sorted (hash dd : Nat) (h1 : 1 ≤ dd) (hd : dd ≤ 31) : (sortedList hash dd).Pairwise (· < ·) := by
  rw [sortedList, List.pairwise_map]
  refine List.Pairwise.imp_of_mem ?_ (List.pairwise_lt_range (n := 4 * (2 ^ dd - 1)))
  intro a b _ hb hab
  have hb := List.mem_range.1 hb
  have := lt_of_succ_lt (fun t => off (sortCoord dd t)) (4 * (2 ^ dd - 1))
    (fun t ht => sortCoord_step dd t h1 hd ht) a b hab hb
  change sortVal hash dd a < sortVal hash dd b
  rw [sortVal_eq, sortVal_eq]
  exact Nat.add_lt_add_left this _

/-- every element of the sorted enumeration is a border cell -/
theorem sortCoord_border (dd t : Nat) (h1 : 1 ≤ dd) (ht : t < 4 * (2 ^ dd - 1)) :
    onBorder dd (sortCoord dd t).1 (sortCoord dd t).2 := by
  have hs := pow_split h1
  have hH := Nat.two_pow_pos (dd - 1)
  simp only [onBorder]
  rcases sortCoord_cases dd t with ⟨a1, e⟩ | ⟨a1, a2, e⟩ | ⟨a1, a2, e⟩ | ⟨a1, a2, e⟩ | ⟨a1, a2, e⟩ | ⟨a1, e⟩
  · obtain ⟨c1, c2, c3⟩ := q0_bound dd t h1 a1
    rw [e]; omega
  · rw [e]; dsimp only; omega
  · rw [e]; dsimp only; omega
  · rw [e]; dsimp only; omega
  · rw [e]; dsimp only; omega
  · obtain ⟨c1, c2, c3⟩ := q0_bound dd (4 * (2 ^ dd - 1) - 1 - t) h1 (by omega)
    rw [e]; dsimp only; omega

theorem sortedList_subset (hash dd : Nat) (h1 : 1 ≤ dd) : sortedList hash dd ⊆ edgeList hash dd := by
  intro v hv
  rw [sortedList, List.mem_map] at hv
  obtain ⟨t, ht, rfl⟩ := hv
  have b := sortCoord_border dd t h1 (List.mem_range.1 ht)
  exact (internalEdge_mem hash dd _ h1).2 ⟨_, _, b.1, b.2.1, b.2.2, rfl⟩

/-- ... and a permutation of the result of `internal_edge` -/
theorem sortedList_perm (hash dd : Nat) (h1 : 1 ≤ dd) (hd : dd ≤ 31) : (sortedList hash dd).Perm (edgeList hash dd) := by
  have hnd : (sortedList hash dd).Nodup :=
    (sortedList_sorted hash dd h1 hd).imp (fun h => Nat.ne_of_lt h)
  exact (List.subperm_of_subset hnd (sortedList_subset hash dd h1)).perm_of_length_le
    (by rw [sortedList_length, internalEdge_length hash dd h1]; exact Nat.le_refl _)

/-! ## 5. main statement -/

/-- **`internal_edge_sorted`, every `delta_depth`** (LUT build, `1 ≤ dd ≤ 29`, `hash·4^dd` fits in 64 bits): the function
    returns (no out-of-range write) the explicit list `sortedList`, which has `4N − 4` elements, is strictly increasing,
    is a permutation of the result `edgeList` of `internal_edge`, and hence consists exactly of the border descendants -/
theorem internalEdgeSorted_perm (cfg : Cfg) (hbmi : cfg.bmi = false) (hash dd : Nat) (h1 : 1 ≤ dd) (hd : dd ≤ 29)
    (hh : hash < 2 ^ (64 - 2 * dd)) :
    ∃ s l, internalEdgeSorted cfg hash dd = some s ∧ internalEdge cfg hash dd = some l ∧
      s = sortedList hash dd ∧ l = edgeList hash dd ∧
      s.length = 4 * 2 ^ dd - 4 ∧ s.Pairwise (· < ·) ∧ s.Perm l ∧
      (∀ h', h' ∈ s ↔ ∃ x y, x < 2 ^ dd ∧ y < 2 ^ dd ∧ (x = 0 ∨ x = 2 ^ dd - 1 ∨ y = 0 ∨ y = 2 ^ dd - 1) ∧
        h' = hash * 4 ^ dd + interleave x y) := by
  refine ⟨_, _, internalEdgeSorted_spec cfg hbmi hash dd h1 hd hh, internalEdge_spec cfg hbmi hash dd h1 hd hh, rfl, rfl,
    sortedList_length hash dd, sortedList_sorted hash dd h1 (by omega), sortedList_perm hash dd h1 (by omega), ?_⟩
  intro h'
  rw [(sortedList_perm hash dd h1 (by omega)).mem_iff]
  exact internalEdge_mem hash dd h' h1

/-- (b) of the task, as a corollary: the result for `hash` is the result for `0` shifted by `hash·4^dd` -/
theorem internalEdgeSorted_shift (cfg : Cfg) (hbmi : cfg.bmi = false) (hash dd : Nat) (h1 : 1 ≤ dd) (hd : dd ≤ 29)
    (hh : hash < 2 ^ (64 - 2 * dd)) :
    ∃ s0, internalEdgeSorted cfg 0 dd = some s0 ∧ internalEdgeSorted cfg hash dd = some (s0.map (hash * 4 ^ dd + ·)) := by
  refine ⟨_, internalEdgeSorted_spec cfg hbmi 0 dd h1 hd (Nat.two_pow_pos _), ?_⟩
  rw [internalEdgeSorted_spec cfg hbmi hash dd h1 hd hh, sortedList, sortedList, List.map_map]
  congr 1
  apply List.map_congr_left
  intro t _
  simp [cellVal]

/-- non-vacuity: the hypotheses hold for a cell of depth 9 refined by 20 levels (depth 29), and small instances of the
    explicit lists evaluate to what the model returns -/
example : (1 : Nat) ≤ 20 ∧ 20 ≤ 29 ∧ 12 * 4 ^ 9 - 1 < 2 ^ (64 - 2 * 20) := by decide

example : internalEdgeSorted { debug := true, bmi := false } 5 3 = some (sortedList 5 3) ∧
    internalEdge { debug := true, bmi := false } 5 3 = some (edgeList 5 3) ∧
    sortedList 5 2 = [80, 81, 82, 84, 85, 87, 88, 90, 91, 93, 94, 95] ∧
    edgeList 5 2 = [80, 81, 84, 85, 87, 93, 95, 94, 91, 90, 88, 82] := by decide +kernel

/-- the public entry points on a valid cell: `depth + delta_depth ≤ 29`, `hash < 12·4^depth`, `delta_depth ≥ 1` -/
theorem internalEdgeTop_spec (cfg : Cfg) (hbmi : cfg.bmi = false) (d hash dd : Nat) (h1 : 1 ≤ dd) (hsum : d + dd ≤ 29)
    (hh : hash < 12 * 4 ^ d) :
    internalEdgeTop cfg 29 d hash dd = some (edgeList hash dd) ∧
    internalEdgeSortedTop cfg 29 d hash dd = some (sortedList hash dd) := by
  have hfit := valid_cell_fits d dd hash hsum hh
  have hg := (internalEdgeTop_guard cfg 29 d hash dd).1 (by rw [Nat.mod_eq_of_lt (by omega)]; exact hsum)
  rw [hg.1, hg.2]
  exact ⟨internalEdge_spec cfg hbmi hash dd h1 (by omega) hfit, internalEdgeSorted_spec cfg hbmi hash dd h1 (by omega) hfit⟩

end Hpx.EdgeInternal
