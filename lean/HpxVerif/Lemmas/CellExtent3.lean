import HpxVerif.Lemmas.CellExtent2
import HpxVerif.Lemmas.TopoLift

/-!
# The envelope hypothesis `H1` of the cone-coverage theorems, discharged for the equatorial cells (part 3)

`Cover.cone_scheme_no_miss` / `cone_scheme_full_inside` (`Lemmas/ConeReal.lean`) are relative to
`H1 : ∀ d h c D q, ds ≤ d → center cfg d h = some c → dists[d − ds]? = some D → inCell d h q → adist c q ≤ D`.

Here `inCell` is instantiated by `InCellEq d h q` — "the cell `(d, h)` is a cell of the NESTED scheme of depth `d ≤ 29`
whose centre lies strictly inside the equatorial band (`|cellCy| < 1`), and `q = (x'·π/4 + 2πm, arcsin(2y'/3))` for a
point `(x', y')` of its closed diamond in the projection plane" — and `dists` by the list actually computed by the crate,
`largest_center_to_vertex_distances_with_radius(ds, target + 1, lon, lat, r)`:

* `partsOf_child`, `inCellEq_children`: the four children `4h + k` of such a cell are such cells and their diamonds cover
  the diamond of the parent (`hcover`);
* **`H1_equatorial`**: `H1` holds for `InCellEq` for every cone with `|lat| + r < tl`, `2 ≤ ds`, `target ≤ 29`
  (`CellExtent.eqr_extent_lonlat` + `EnvelopeReal.c2vR_dominates_eqr`);
* **`cone_no_miss_equatorial`**, **`cone_full_inside_equatorial`**: the no-miss / truthful-full-flag theorems of the cone
  descent with NO geometric hypothesis left, for the points of the strictly equatorial start cells.
-/

namespace Hpx.CellExtent
open Hpx Hpx.Hash Hpx.C2V Hpx.C2VReal Hpx.Proj Hpx.Cover Hpx.CellReal Hpx.EnvelopeReal Hpx.TopoLift Real

/-! ## the parts of the four children -/

theorem squeezeN_32 (h : ℕ) : squeezeN 32 h = h % 2 + 2 * squeezeN 31 (h / 4) := by
  show squeezeN (31 + 1) h = _
  rw [squeezeN]

theorem div_pow_child (d h k : ℕ) (hk : k < 4) : (4 * h + k) / 4 ^ (d + 1) = h / 4 ^ d := by
  rw [Nat.pow_succ, Nat.mul_comm (4 ^ d) 4, ← Nat.div_div_eq_div_mul, show (4 * h + k) / 4 = h by omega]

theorem mod_pow_child (d h k : ℕ) (hk : k < 4) : (4 * h + k) % 4 ^ (d + 1) = 4 * (h % 4 ^ d) + k := by
  have hpos : 0 < 4 ^ d := Nat.pow_pos (by decide)
  have hm : h % 4 ^ d < 4 ^ d := Nat.mod_lt _ hpos
  have hdm := Nat.div_add_mod h (4 ^ d)
  have e : 4 * h + k = 4 * 4 ^ d * (h / 4 ^ d) + (4 * (h % 4 ^ d) + k) := by
    have : 4 * h = 4 * (4 ^ d * (h / 4 ^ d) + h % 4 ^ d) := by rw [hdm]
    rw [this]; ring
  rw [Nat.pow_succ, Nat.mul_comm (4 ^ d) 4, e, Nat.mul_add_mod, Nat.mod_eq_of_lt (by omega)]

/-- the parts of the child `4h + k` (`k < 4`): same base cell, `i' = 2i + k % 2`, `j' = 2j + k / 2` -/
theorem partsOf_child (d h k : ℕ) (hd : d ≤ 31) (hk : k < 4) :
    partsOf (d + 1) (4 * h + k) =
      ⟨(partsOf d h).d0h, 2 * (partsOf d h).i + k % 2, 2 * (partsOf d h).j + k / 2⟩ := by
  have hpos : 0 < 4 ^ d := Nat.pow_pos (by decide)
  have hm : h % 4 ^ d < 4 ^ d := Nat.mod_lt _ hpos
  have hm2 : h % 4 ^ d / 2 < 4 ^ d := by omega
  have e1 := div_pow_child d h k hk
  have e2 := mod_pow_child d h k hk
  have e3 : squeezeN 32 (4 * (h % 4 ^ d) + k) = 2 * squeezeN 32 (h % 4 ^ d) + k % 2 := by
    rw [squeezeN_32, show (4 * (h % 4 ^ d) + k) % 2 = k % 2 by omega,
      show (4 * (h % 4 ^ d) + k) / 4 = h % 4 ^ d by omega,
      RingBij.squeezeN_eq_of_lt (k := 31) (k' := 32) hm hd (by omega)]
    omega
  have e4 : squeezeN 32 ((4 * (h % 4 ^ d) + k) / 2) = 2 * squeezeN 32 (h % 4 ^ d / 2) + k / 2 := by
    rw [squeezeN_32, show (4 * (h % 4 ^ d) + k) / 2 % 2 = k / 2 by omega,
      show (4 * (h % 4 ^ d) + k) / 2 / 4 = h % 4 ^ d / 2 by omega,
      RingBij.squeezeN_eq_of_lt (k := 31) (k' := 32) hm2 hd (by omega)]
    omega
  show HashParts.mk ((4 * h + k) / 4 ^ (d + 1)) (squeezeN 32 ((4 * h + k) % 4 ^ (d + 1)))
      (squeezeN 32 ((4 * h + k) % 4 ^ (d + 1) / 2)) =
    HashParts.mk (h / 4 ^ d) (2 * squeezeN 32 (h % 4 ^ d) + k % 2) (2 * squeezeN 32 (h % 4 ^ d / 2) + k / 2)
  rw [e1, e2, e3, e4]

/-- centre of a child in terms of the centre of the parent -/
theorem child_center (d b i j a c : ℕ) :
    cellCx (d + 1) b (2 * i + a) (2 * j + c) = cellCx d b i j + ((a : ℝ) - c) / 2 ^ (d + 1) ∧
    cellCy (d + 1) b (2 * i + a) (2 * j + c) = cellCy d b i j + ((a : ℝ) + c - 1) / 2 ^ (d + 1) := by
  have hp : (0 : ℝ) < 2 ^ d := by positivity
  unfold cellCx cellCy
  rw [pow_succ]
  push_cast
  constructor
  · field_simp; ring
  · field_simp; ring

/-! ## membership of a position in a strictly equatorial cell -/

/-- `InCellEq d h q`: `(d, h)` is a cell of the NESTED scheme (`d ≤ 29`, `h < 12·4^d`; parts `(b, i, j) = partsOf d h`, which
    is what `decode_hash` returns for every build: `TopoLift.decodeHash_spec`) whose centre is strictly inside the
    equatorial band, and the position `q` is the image `(x'·π/4 + 2πm, arcsin(2y'/3))` of a point `(x', y')` of its closed
    diamond in the projection plane (centre `(cellCx, cellCy)`, half-diagonal `1/2^d`; abscissas modulo 8 ↔ longitudes
    modulo `2π`). -/
def InCellEq (d h : ℕ) (q : ℝ × ℝ) : Prop :=
  d ≤ 29 ∧ h < 12 * 4 ^ d ∧
    |cellCy d (partsOf d h).d0h (partsOf d h).i (partsOf d h).j| < 1 ∧
    ∃ (x' y' : ℝ) (m : ℤ),
      InDiamond (cellCx d (partsOf d h).d0h (partsOf d h).i (partsOf d h).j)
        (cellCy d (partsOf d h).d0h (partsOf d h).i (partsOf d h).j) (1 / 2 ^ d) x' y' ∧
      q = (x' * (π / 4) + 2 * π * m, latOf y')

/-- a point of a diamond of half-diagonal `δ` lies in one of the four diamonds of half-diagonal `δ/2` centred at
    `(0, −δ/2)`, `(δ/2, 0)`, `(−δ/2, 0)`, `(0, δ/2)` (children `k = 0, 1, 2, 3`) -/
theorem diamond_split (u v δ : ℝ) (h : |u| + |v| ≤ δ) :
    |u - 0| + |v - -(δ / 2)| ≤ δ / 2 ∨ |u - δ / 2| + |v - 0| ≤ δ / 2 ∨ |u - -(δ / 2)| + |v - 0| ≤ δ / 2 ∨
      |u - 0| + |v - δ / 2| ≤ δ / 2 := by
  rcases le_total 0 u with hu | hu <;> rcases le_total 0 v with hv | hv
  · rw [abs_of_nonneg hu, abs_of_nonneg hv] at h
    rcases le_total v u with huv | huv
    · right; left
      rw [sub_zero, abs_of_nonneg hv]
      rcases le_total (δ / 2) u with h2 | h2
      · rw [abs_of_nonneg (by linarith)]; linarith
      · rw [abs_of_nonpos (by linarith)]; linarith
    · right; right; right
      rw [sub_zero, abs_of_nonneg hu]
      rcases le_total (δ / 2) v with h2 | h2
      · rw [abs_of_nonneg (by linarith)]; linarith
      · rw [abs_of_nonpos (by linarith)]; linarith
  · rw [abs_of_nonneg hu, abs_of_nonpos hv] at h
    rcases le_total (-v) u with huv | huv
    · right; left
      rw [sub_zero, abs_of_nonpos hv]
      rcases le_total (δ / 2) u with h2 | h2
      · rw [abs_of_nonneg (by linarith)]; linarith
      · rw [abs_of_nonpos (by linarith)]; linarith
    · left
      rw [sub_zero, abs_of_nonneg hu, sub_neg_eq_add]
      rcases le_total 0 (v + δ / 2) with h2 | h2
      · rw [abs_of_nonneg h2]; linarith
      · rw [abs_of_nonpos h2]; linarith
  · rw [abs_of_nonpos hu, abs_of_nonneg hv] at h
    rcases le_total v (-u) with huv | huv
    · right; right; left
      rw [sub_zero, abs_of_nonneg hv, sub_neg_eq_add]
      rcases le_total 0 (u + δ / 2) with h2 | h2
      · rw [abs_of_nonneg h2]; linarith
      · rw [abs_of_nonpos h2]; linarith
    · right; right; right
      rw [sub_zero, abs_of_nonpos hu]
      rcases le_total (δ / 2) v with h2 | h2
      · rw [abs_of_nonneg (by linarith)]; linarith
      · rw [abs_of_nonpos (by linarith)]; linarith
  · rw [abs_of_nonpos hu, abs_of_nonpos hv] at h
    rcases le_total (-v) (-u) with huv | huv
    · right; right; left
      rw [sub_zero, abs_of_nonpos hv, sub_neg_eq_add]
      rcases le_total 0 (u + δ / 2) with h2 | h2
      · rw [abs_of_nonneg h2]; linarith
      · rw [abs_of_nonpos h2]; linarith
    · left
      rw [sub_zero, abs_of_nonpos hu, sub_neg_eq_add]
      rcases le_total 0 (v + δ / 2) with h2 | h2
      · rw [abs_of_nonneg h2]; linarith
      · rw [abs_of_nonpos h2]; linarith

/-- the child `4h + k` of a strictly equatorial cell, as a cell: what is needed to be `InCellEq` once a plane point of its
    diamond is given -/
theorem inCellEq_child (d h k : ℕ) (hk : k < 4) (hd : d + 1 ≤ 29) (hh : h < 12 * 4 ^ d)
    (hband : |cellCy d (partsOf d h).d0h (partsOf d h).i (partsOf d h).j| < 1) (x' y' : ℝ) (m : ℤ)
    (hin : |x' - cellCx d (partsOf d h).d0h (partsOf d h).i (partsOf d h).j - (((k % 2 : ℕ) : ℝ) - ((k / 2 : ℕ) : ℝ)) / 2 ^ (d + 1)| +
      |y' - cellCy d (partsOf d h).d0h (partsOf d h).i (partsOf d h).j - (((k % 2 : ℕ) : ℝ) + ((k / 2 : ℕ) : ℝ) - 1) / 2 ^ (d + 1)|
        ≤ 1 / 2 ^ (d + 1)) :
    InCellEq (d + 1) (4 * h + k) (x' * (π / 4) + 2 * π * m, latOf y') := by
  obtain ⟨ex, ey⟩ := child_center d (partsOf d h).d0h (partsOf d h).i (partsOf d h).j (k % 2) (k / 2)
  have hy := cellCy_band d _ _ _ hband
  have hp : (0 : ℝ) < 2 ^ d := by positivity
  have hhalf : (1 : ℝ) / 2 ^ (d + 1) = 1 / 2 ^ d / 2 := by rw [pow_succ]; field_simp
  refine ⟨hd, ?_, ?_, x', y', m, ?_, rfl⟩
  · rw [Nat.pow_succ]; omega
  · rw [partsOf_child d h k (by omega) hk]
    simp only
    rw [ey]
    have hk2 : ((k % 2 : ℕ) : ℝ) ≤ 1 := by exact_mod_cast (show k % 2 ≤ 1 by omega)
    have hk3 : ((k / 2 : ℕ) : ℝ) ≤ 1 := by exact_mod_cast (show k / 2 ≤ 1 by omega)
    have hk0 : (0 : ℝ) ≤ ((k % 2 : ℕ) : ℝ) := Nat.cast_nonneg _
    have hk1 : (0 : ℝ) ≤ ((k / 2 : ℕ) : ℝ) := Nat.cast_nonneg _
    have hpos : (0 : ℝ) < 1 / 2 ^ (d + 1) := by positivity
    have hb : |(((k % 2 : ℕ) : ℝ) + ((k / 2 : ℕ) : ℝ) - 1) / 2 ^ (d + 1)| ≤ 1 / 2 ^ (d + 1) := by
      rw [abs_le]
      constructor
      · rw [le_div_iff₀ (by positivity)]; field_simp; linarith
      · rw [div_le_div_iff_of_pos_right (by positivity)]; linarith
    have hpd : (0 : ℝ) < 1 / 2 ^ d := by positivity
    calc |cellCy d (partsOf d h).d0h (partsOf d h).i (partsOf d h).j +
            (((k % 2 : ℕ) : ℝ) + ((k / 2 : ℕ) : ℝ) - 1) / 2 ^ (d + 1)|
        ≤ |cellCy d (partsOf d h).d0h (partsOf d h).i (partsOf d h).j| +
            |(((k % 2 : ℕ) : ℝ) + ((k / 2 : ℕ) : ℝ) - 1) / 2 ^ (d + 1)| := abs_add_le _ _
      _ < 1 := by rw [hhalf] at hb; linarith
  · rw [partsOf_child d h k (by omega) hk]
    simp only
    unfold InDiamond
    rw [ex, ey, ← sub_sub, ← sub_sub]
    exact hin

/-- the same with the offsets of the child centre given as reals -/
theorem inCellEq_child' (d h k : ℕ) (hk : k < 4) (hd : d + 1 ≤ 29) (hh : h < 12 * 4 ^ d)
    (hband : |cellCy d (partsOf d h).d0h (partsOf d h).i (partsOf d h).j| < 1) (x' y' : ℝ) (m : ℤ) (a c : ℝ)
    (ha : ((k % 2 : ℕ) : ℝ) = a) (hc : ((k / 2 : ℕ) : ℝ) = c)
    (hin : |x' - cellCx d (partsOf d h).d0h (partsOf d h).i (partsOf d h).j - (a - c) * (1 / 2 ^ d / 2)| +
      |y' - cellCy d (partsOf d h).d0h (partsOf d h).i (partsOf d h).j - (a + c - 1) * (1 / 2 ^ d / 2)|
        ≤ 1 / 2 ^ d / 2) :
    InCellEq (d + 1) (4 * h + k) (x' * (π / 4) + 2 * π * m, latOf y') := by
  have hhalf : (1 : ℝ) / 2 ^ (d + 1) = 1 / 2 ^ d / 2 := by rw [pow_succ]; field_simp
  refine inCellEq_child d h k hk hd hh hband x' y' m ?_
  rw [ha, hc, hhalf, div_eq_mul_one_div (a - c), div_eq_mul_one_div (a + c - 1), hhalf]
  exact hin

/-- **the children cover the parent** (`hcover` of `cone_scheme_no_miss`), for the strictly equatorial cells of depth
    `< 29` -/
theorem inCellEq_children (d h : ℕ) (q : ℝ × ℝ) (hd : d + 1 ≤ 29) (hq : InCellEq d h q) :
    InCellEq (d + 1) (h <<< 2) q ∨ InCellEq (d + 1) (h <<< 2 ||| 1) q ∨ InCellEq (d + 1) (h <<< 2 ||| 2) q ∨
      InCellEq (d + 1) (h <<< 2 ||| 3) q := by
  obtain ⟨_, hh, hband, x', y', m, hin, rfl⟩ := hq
  have e0 : h <<< 2 = 4 * h + 0 := by rw [Nat.shiftLeft_eq]; omega
  rw [shl2_or h 1 (by omega), shl2_or h 2 (by omega), shl2_or h 3 (by omega), e0]
  unfold InDiamond at hin
  set cx := cellCx d (partsOf d h).d0h (partsOf d h).i (partsOf d h).j with hcx
  set cy := cellCy d (partsOf d h).d0h (partsOf d h).i (partsOf d h).j with hcy
  set δ2 : ℝ := 1 / 2 ^ d / 2 with hδ2
  have hin' : |x' - cx| + |y' - cy| ≤ 2 * δ2 := by rw [hδ2]; linarith
  rcases diamond_split (x' - cx) (y' - cy) (2 * δ2) hin' with h0 | h1 | h2 | h3
  · left
    refine inCellEq_child' d h 0 (by omega) hd hh hband x' y' m 0 0 (by norm_num) (by norm_num) ?_
    rw [show x' - cx - ((0 : ℝ) - 0) * δ2 = x' - cx - 0 by ring,
      show y' - cy - ((0 : ℝ) + 0 - 1) * δ2 = y' - cy - -(2 * δ2 / 2) by ring]
    linarith
  · right; left
    refine inCellEq_child' d h 1 (by omega) hd hh hband x' y' m 1 0 (by norm_num) (by norm_num) ?_
    rw [show x' - cx - ((1 : ℝ) - 0) * δ2 = x' - cx - 2 * δ2 / 2 by ring,
      show y' - cy - ((1 : ℝ) + 0 - 1) * δ2 = y' - cy - 0 by ring]
    linarith
  · right; right; left
    refine inCellEq_child' d h 2 (by omega) hd hh hband x' y' m 0 1 (by norm_num) (by norm_num) ?_
    rw [show x' - cx - ((0 : ℝ) - 1) * δ2 = x' - cx - -(2 * δ2 / 2) by ring,
      show y' - cy - ((0 : ℝ) + 1 - 1) * δ2 = y' - cy - 0 by ring]
    linarith
  · right; right; right
    refine inCellEq_child' d h 3 (by omega) hd hh hband x' y' m 1 1 (by norm_num) (by norm_num) ?_
    rw [show x' - cx - ((1 : ℝ) - 1) * δ2 = x' - cx - 0 by ring,
      show y' - cy - ((1 : ℝ) + 1 - 1) * δ2 = y' - cy - 2 * δ2 / 2 by ring]
    linarith

/-! ## the positions of a cell -/

/-- the centre returned by `center` is a position of the cell -/
theorem center_inCellEq (cfg : Cfg) (d h : ℕ) (hd : d ≤ 29) (hh : h < 12 * 4 ^ d)
    (hband : |cellCy d (partsOf d h).d0h (partsOf d h).i (partsOf d h).j| < 1) :
    ∃ c, center (α := ℝ) cfg d h = some c ∧ InCellEq d h c := by
  obtain ⟨hb, hi, hj⟩ := partsOf_valid d h hh
  obtain ⟨m, hc⟩ := center_lonlat cfg d h (partsOf d h).d0h (partsOf d h).i (partsOf d h).j
    (by rw [nHash_eq]; exact hh) (decodeHash_spec cfg d hd h hh) hb hi hj hband.le
  refine ⟨_, hc, hd, hh, hband, _, _, m, ?_, rfl⟩
  unfold InDiamond
  rw [sub_self, sub_self, abs_zero, add_zero]
  positivity

/-- every position `unproj (norm8 x') y'` of a plane point of the diamond around the reduced centre
    (`center_of_projected_cell`) is a position of the cell -/
theorem inCellEq_of_unproj (d h : ℕ) (hd : d ≤ 29) (hh : h < 12 * 4 ^ d)
    (hband : |cellCy d (partsOf d h).d0h (partsOf d h).i (partsOf d h).j| < 1) (x' y' : ℝ)
    (hin : InDiamond (norm8 (cellCx d (partsOf d h).d0h (partsOf d h).i (partsOf d h).j))
      (cellCy d (partsOf d h).d0h (partsOf d h).i (partsOf d h).j) (1 / 2 ^ d) x' y') :
    ∃ q, unproj (α := ℝ) (norm8 x') y' = some q ∧ InCellEq d h q := by
  obtain ⟨hb, hi, hj⟩ := partsOf_valid d h hh
  obtain ⟨n0, n8⟩ := norm8_center_range d _ _ _ hb hi hj
  obtain ⟨_, hδ1⟩ := distCw_range d
  obtain ⟨x'', m, hin', hu⟩ := unproj_diamond_lonlat _ _ (1 / 2 ^ d) x' y' hδ1 n0 (by linarith)
    (cellCy_band d _ _ _ hband) hin
  exact ⟨_, hu, hd, hh, hband, x'', y', m, hin', rfl⟩

/-! ## the list of distances of the cone descent -/

theorem depthsOf_pos (ds t : ℕ) (hds : 1 ≤ ds) : depthsOf ds t = List.range' ds (t - ds) := by
  unfold depthsOf
  rw [if_neg (by omega)]
  exact filter_ge_range ds t

/-- the entries of `largest_center_to_vertex_distances_with_radius(ds, target + 1, lon, lat, r)` (release profile,
    `1 ≤ ds`, `target ≤ 29`): entry `d − ds` exists only for `d ≤ target` and is the value of the scalar function at
    depth `d` -/
theorem dists_getElem (ds target : ℕ) (hds : 1 ≤ ds) (ht : target ≤ 29) (lon lat r : ℝ) (dists : List ℝ)
    (hdists : largestC2VsWithRadius false ds (target + 1) lon lat r = some dists) (d : ℕ) (hd : ds ≤ d) (D : ℝ)
    (hD : dists[d - ds]? = some D) : d ≤ target ∧ D = c2vR (Csts.new d) lon lat r := by
  rw [c2vs_with_radius_agree, depthsOf_pos ds _ hds] at hdists
  have hall : ∀ d' ∈ List.range' ds (target + 1 - ds),
      largestC2VWithRadius false d' lon lat r = some (c2vR (Csts.new d') lon lat r) := by
    intro d' hd'
    rw [List.mem_range'_1] at hd'
    rw [c2v_with_radius_region_choice, if_neg (by omega), if_neg (by omega)]
  rw [mapM_congr' _ _ _ hall, mapM_some_eq] at hdists
  have hl := Option.some.inj hdists
  rw [← hl, List.getElem?_map] at hD
  cases hr : (List.range' ds (target + 1 - ds))[d - ds]? with
  | none => rw [hr] at hD; simp at hD
  | some a =>
    rw [hr] at hD
    simp only [Option.map_some, Option.some.injEq] at hD
    obtain ⟨hlt, ha⟩ := List.getElem?_eq_some_iff.mp hr
    rw [List.length_range'] at hlt
    rw [List.getElem_range'] at ha
    have : a = d := by omega
    subst this
    exact ⟨by omega, hD.symm⟩

/-- the list exists (no panic) for `1 ≤ ds`, `target ≤ 29` -/
theorem dists_exists (ds target : ℕ) (hds : 1 ≤ ds) (ht : target ≤ 29) (lon lat r : ℝ) :
    ∃ dists, largestC2VsWithRadius false ds (target + 1) lon lat r = some dists := by
  rw [c2vs_with_radius_agree, depthsOf_pos ds _ hds]
  have hall : ∀ d' ∈ List.range' ds (target + 1 - ds),
      largestC2VWithRadius false d' lon lat r = some (c2vR (Csts.new d') lon lat r) := by
    intro d' hd'
    rw [List.mem_range'_1] at hd'
    rw [c2v_with_radius_region_choice, if_neg (by omega), if_neg (by omega)]
  rw [mapM_congr' _ _ _ hall, mapM_some_eq]
  exact ⟨_, rfl⟩

theorem dists_nonneg (ds target : ℕ) (hds : 1 ≤ ds) (ht : target ≤ 29) (lon lat r : ℝ) (hA : |lat| + r < tl)
    (dists : List ℝ) (hdists : largestC2VsWithRadius false ds (target + 1) lon lat r = some dists) :
    ∀ D ∈ dists, 0 ≤ D := by
  intro D hD
  obtain ⟨k, hk⟩ := List.mem_iff_getElem?.mp hD
  obtain ⟨_, rfl⟩ := dists_getElem ds target hds ht lon lat r dists hdists (ds + k) (by omega) D
    (by rw [show ds + k - ds = k by omega]; exact hk)
  obtain ⟨hδ0, hδ1⟩ := distCw_range (ds + k)
  have h1 := c2vR_ge_dMax2 (ds + k) lon lat r hA
  have h2 : 0 ≤ dMax2 (1 / 2 ^ (ds + k)) := by
    rw [dMax2_eq_dN]; exact dN_nonneg _ _ hδ0.le
  linarith

/-! ## `H1` for the strictly equatorial cells -/

/-- **`H1_equatorial`**: the envelope hypothesis `H1` of `Cover.cone_scheme_no_miss` / `cone_scheme_full_inside`, with
    `inCell := InCellEq` and `dists` the list computed by `largest_center_to_vertex_distances_with_radius(ds, target + 1,
    lon, lat, r)` (release profile), holds for every cone whose latitude band stays below the transition latitude
    (`|lat| + r < tl`), every starting depth `ds ≥ 2` and every target depth `≤ 29`: every position of a strictly
    equatorial cell of depth `d ∈ [ds, target]` is within `dists[d − ds]` of the position returned by `center`. -/
theorem H1_equatorial (cfg : Cfg) (lon lat r : ℝ) (hA : |lat| + r < tl) (ds target : ℕ) (hds : 2 ≤ ds)
    (ht : target ≤ 29) (dists : List ℝ)
    (hdists : largestC2VsWithRadius false ds (target + 1) lon lat r = some dists) :
    ∀ d h c D q, ds ≤ d → Hash.center (α := ℝ) cfg d h = some c → dists[d - ds]? = some D → InCellEq d h q →
      adist c q ≤ D := by
  intro d h c D q hd hc hD hq
  obtain ⟨hd29, hh, hband, x', y', m, hin, rfl⟩ := hq
  obtain ⟨_, rfl⟩ := dists_getElem ds target (by omega) ht lon lat r dists hdists d hd D hD
  obtain ⟨hb, hi, hj⟩ := partsOf_valid d h hh
  obtain ⟨c', v, hc', hv, hall⟩ := cell_extent_envelope_radius cfg d h _ _ _ (by omega) hd29
    (by rw [nHash_eq]; exact hh) (decodeHash_spec cfg d hd29 h hh) hb hi hj hband lon lat r hA
  rw [hc] at hc'
  rw [c2v_with_radius_region_choice, if_neg (by omega), if_neg (by omega)] at hv
  rw [Option.some.inj hc', Option.some.inj hv]
  exact hall x' y' m hin

/-! ## the cone descent on the strictly equatorial cells: nothing left to assume -/

/-- **`cone_no_miss_equatorial`** (ℝ, release profile).  Cone `(lon, lat, r)` with `0 ≤ r` and `|lat| + r < tl` (its
    latitude band stays below the transition latitude); starting depth `2 ≤ ds ≤ target ≤ 29`; `dists` the list of
    `largest_center_to_vertex_distances_with_radius(ds, target + 1, lon, lat, r)` as in `cone_coverage_approx_internal`.
    If the descent of the model from a start cell `root` returns `out`, then every position `q` of the cone that lies in
    `root` — a strictly equatorial cell (`InCellEq ds root q`) — lies in a cell of `out`.
    No envelope hypothesis: `H1` is `H1_equatorial`, `hcover` is `inCellEq_children`. -/
theorem cone_no_miss_equatorial (cfg : Cfg) (lon lat r : ℝ) (hr : 0 ≤ r) (hA : |lat| + r < tl) (ds target : ℕ)
    (hds : 2 ≤ ds) (hdt : ds ≤ target) (ht : target ≤ 29) (dists : List ℝ)
    (hdists : largestC2VsWithRadius false ds (target + 1) lon lat r = some dists) (fuel root : ℕ)
    (out : List Bmoc.Cell)
    (h : coverRec target (coneClassifier (α := ℝ) cfg lon lat (Num.cos lat) (dists.map (toShsMinMax r))) fuel ds root 0
      = some out)
    (q : ℝ × ℝ) (hq : InCellEq ds root q) (hin : adist (lon, lat) q ≤ r) :
    ∃ c ∈ out, InCellEq c.depth c.hash q := by
  obtain ⟨c, hc, _, hcq⟩ := cone_scheme_no_miss cfg lon lat r hr dists
    (dists_nonneg ds target (by omega) ht lon lat r hA dists hdists)
    (fun d h q => d ≤ target ∧ InCellEq d h q) target ds
    (fun d h q hne ⟨hle, hq⟩ => by
      have hd1 : d + 1 ≤ target := by omega
      rcases inCellEq_children d h q (by omega) hq with h0 | h1 | h2 | h3
      · exact Or.inl ⟨hd1, h0⟩
      · exact Or.inr (Or.inl ⟨hd1, h1⟩)
      · exact Or.inr (Or.inr (Or.inl ⟨hd1, h2⟩))
      · exact Or.inr (Or.inr (Or.inr ⟨hd1, h3⟩)))
    (fun d h c D q hd hc hD ⟨_, hq⟩ => H1_equatorial cfg lon lat r hA ds target hds ht dists hdists d h c D q hd hc hD hq)
    fuel root out h q ⟨hdt, hq⟩ hin
  exact ⟨c, hc, hcq⟩

/-- **`cone_full_inside_equatorial`**: under the same assumptions, every position of a strictly equatorial cell that the
    descent flags FULL is strictly inside the cone. -/
theorem cone_full_inside_equatorial (cfg : Cfg) (lon lat r : ℝ) (hA : |lat| + r < tl) (ds target : ℕ)
    (hds : 2 ≤ ds) (ht : target ≤ 29) (dists : List ℝ)
    (hdists : largestC2VsWithRadius false ds (target + 1) lon lat r = some dists) (fuel root : ℕ)
    (out : List Bmoc.Cell)
    (h : coverRec target (coneClassifier (α := ℝ) cfg lon lat (Num.cos lat) (dists.map (toShsMinMax r))) fuel ds root 0
      = some out)
    (c : Bmoc.Cell) (hc : c ∈ out) (hf : c.full = true) (q : ℝ × ℝ) (hq : InCellEq c.depth c.hash q) :
    adist (lon, lat) q < r := by
  have hrpi : r ≤ π := by
    have := tl_le
    have := Real.pi_gt_three
    have := abs_nonneg lat
    linarith
  exact cone_scheme_full_inside cfg lon lat r hrpi dists
    (dists_nonneg ds target (by omega) ht lon lat r hA dists hdists) InCellEq target ds
    (H1_equatorial cfg lon lat r hA ds target hds ht dists hdists) fuel root out h c hc hf q hq

/-! ## examples: the hypotheses are satisfiable -/

/-- the parts of the children of cell 19 of depth 1 (`(b, i, j) = (4, 1, 1)`): cells 76 … 79 of depth 2 -/
example : partsOf 1 19 = ⟨4, 1, 1⟩ ∧ partsOf 2 (4 * 19 + 1) = ⟨4, 3, 2⟩ := by decide +kernel

/-- depth 2, cell 77 = base cell 4, `(i, j) = (3, 2)` (centre ordinate `1/2`) is strictly equatorial: its centre is one of
    its positions -/
example : ∃ c, center (α := ℝ) {} 2 77 = some c ∧ InCellEq 2 77 c :=
  center_inCellEq {} 2 77 (by decide) (by decide) (by
    have e : partsOf 2 77 = ⟨4, 3, 2⟩ := by decide +kernel
    rw [e]; unfold cellCy baseY; norm_num [abs_lt])

/-- a cone in the equatorial band and its list of distances: `lat = 0.3`, `r = 0.1`, `ds = 3`, `target = 6` -/
example : (0 : ℝ) ≤ 1 / 10 ∧ |(3 / 10 : ℝ)| + 1 / 10 < tl ∧
    ∃ dists, largestC2VsWithRadius false 3 (6 + 1) (1 : ℝ) (3 / 10) (1 / 10) = some dists := by
  refine ⟨by norm_num, ?_, dists_exists 3 6 (by decide) (by decide) _ _ _⟩
  have := tl_ge
  rw [abs_of_pos (by norm_num)]
  linarith

end Hpx.CellExtent

#print axioms Hpx.CellExtent.partsOf_child
#print axioms Hpx.CellExtent.inCellEq_children
#print axioms Hpx.CellExtent.H1_equatorial
#print axioms Hpx.CellExtent.cone_no_miss_equatorial
#print axioms Hpx.CellExtent.cone_full_inside_equatorial
