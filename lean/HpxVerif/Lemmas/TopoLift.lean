/-
C04 — lifting the parts-level neighbour theorems (`Lemmas/TopoNeigh.lean`, `TopoLabel.lean`, `TopoComplete.lean`) to the
public functions on cell NUMBERS: `Layer::neighbour`, `Layer::neighbours` (model: `Topo.neighbour`, `Topo.neighbours`),
for every depth `d ≤ 29`, both z-order builds (any `cfg`).
-/
import HpxVerif.Lemmas.TopoComplete
import HpxVerif.Lemmas.RingBij5
import HpxVerif.Lemmas.LayerBmi
import HpxVerif.Lemmas.EdgeInternal
import HpxVerif.Model.Bmoc

namespace Hpx.TopoLift
open Hpx Hpx.Topo Hpx.TopoSpec Hpx.TopoNeigh MW

/-- the cell number of the parts `q` at depth `d` -/
def numberOf (d : Nat) (q : HashParts) : Nat := q.d0h * 4 ^ d + interleave q.i q.j

/-- the parts of the cell number `h` at depth `d` -/
def partsOf (d : Nat) (h : Nat) : HashParts :=
  ⟨h / 4 ^ d, squeezeN 32 (h % 4 ^ d), squeezeN 32 (h % 4 ^ d / 2)⟩

/-- the expected output of `neighbours` -/
def nbList (d hash : Nat) (inc : Bool) : List (MW × Nat) :=
  MW.all.filterMap fun w =>
    if w = C ∧ inc = false then none
    else (neighbourParts (2 ^ d) (partsOf d hash) w).map fun q => (w, numberOf d q)

def chk1 (cfg : Cfg) (d : Nat) : Bool :=
  (List.range (12 * 4 ^ d)).all fun h => MW.all.all fun dir =>
    Topo.neighbour cfg d h dir == some ((neighbourParts (2 ^ d) (partsOf d h) dir).map (numberOf d))

def chk3 (cfg : Cfg) (d : Nat) : Bool :=
  (List.range (12 * 4 ^ d)).all fun h => [true, false].all fun inc =>
    Topo.neighbours cfg d h inc == some (nbList d h inc)

#eval (List.range 4).map fun d => (chk1 {} d, chk1 { debug := false, bmi := true } d, chk3 {} d, chk3 { debug := false, bmi := true } d)

end Hpx.TopoLift
