/-
C04 — lifting the parts-level neighbour theorems (`Lemmas/TopoNeigh.lean`, `TopoLabel.lean`, `TopoComplete.lean`) to the
public functions on cell NUMBERS: `Layer::neighbour`, `Layer::neighbours` (model: `Topo.neighbour`, `Topo.neighbours`),
for every depth `d ≤ 29`, both z-order builds (any `cfg`, debug assertions on or off).

* `numberOf d q = q.d0h·4^d + interleave q.i q.j`, `partsOf d h` (its inverse on `[0, 12·4^d)`): `decodeHash_spec`,
  `build_spec`, `numberOf_partsOf`, `partsOf_numberOf`, `numberOf_injective`, `partsOf_valid`, `numberOf_lt`;
* 1. `neighbour_spec`: `Layer::neighbour` never panics on a cell number of the depth and returns the number of the
  parts-level neighbour;
* 2. `inner_bits_correct` (`inner_bits_correct_hash`): the masked-OR bit trick of `inner_cell_neighbours` is the coordinate
  arithmetic; `isInBaseCellBorder_iff`: the border test on masked bits is the border test on coordinates; mask facts
  `xMask_eq`, `yMask_eq`, `d0hMask_eq`, `hash_and_xMask`, `hash_and_yMask`, `hash_and_d0hMask`;
* 3. `neighbours_spec`: `Layer::neighbours` = `nbList` (entries in `MainWind` index order), through
  `edgeCellNeighbours_spec` (border path) and `innerCellNeighbours_spec` (fast path).
The property-level corollaries on numbers are in `TopoLift2.lean`.
-/
import HpxVerif.Lemmas.TopoComplete
import HpxVerif.Lemmas.RingBij5
import HpxVerif.Lemmas.LayerBmi
import HpxVerif.Lemmas.EdgeInternal
import HpxVerif.Model.Bmoc

namespace Hpx.TopoLift
open Hpx Hpx.Topo Hpx.TopoSpec Hpx.TopoNeigh MW

/-- the cell number of the parts `q` at depth `d` -/
def numberOf (d : Nat) (q : HashParts) : Nat := q.d0h * 4 ^ d + interleave q.i q.j

/-- the parts of the cell number `h` at depth `d` -/
def partsOf (d : Nat) (h : Nat) : HashParts :=
  ⟨h / 4 ^ d, squeezeN 32 (h % 4 ^ d), squeezeN 32 (h % 4 ^ d / 2)⟩

/-- the expected output of `neighbours` -/
def nbList (d hash : Nat) (inc : Bool) : List (MW × Nat) :=
  MW.all.filterMap fun w =>
    if w = C ∧ inc = false then none
    else (neighbourParts (2 ^ d) (partsOf d hash) w).map fun q => (w, numberOf d q)

/-! ## cell numbers and parts -/

theorem nside_eq (d : Nat) : Layer.nside d = 2 ^ d := RingBij.nside_eq d

theorem nHash_eq (d : Nat) : Layer.nHash d = 12 * 4 ^ d := RingBij.shl2d' 12 d

theorem one_le_pow (d : Nat) : 1 ≤ 2 ^ d := Nat.one_le_two_pow

theorem pow_le_u32 (d : Nat) (hd : d ≤ 29) : 2 ^ d ≤ 4294967296 :=
  Nat.le_trans (Nat.pow_le_pow_right (by decide) hd) (by decide)

theorem pow_lt_u32 (d : Nat) (hd : d ≤ 29) : 2 ^ d < 4294967296 :=
  Nat.lt_of_le_of_lt (Nat.pow_le_pow_right (by decide) hd) (by decide)

theorem interleave_lt4 {d x y : Nat} (hd : d ≤ 29) (hx : x < 2 ^ d) (hy : y < 2 ^ d) : interleave x y < 4 ^ d :=
  interleave_lt (by omega) hx hy

theorem numberOf_lt (d : Nat) (hd : d ≤ 29) (q : HashParts) (hq : Valid (2 ^ d) q) : numberOf d q < 12 * 4 ^ d :=
  (RingBij.build_spec {} rfl d hd q hq).2

theorem partsOf_valid (d h : Nat) (hh : h < 12 * 4 ^ d) : Valid (2 ^ d) (partsOf d h) := by
  have hpos : 0 < 4 ^ d := Nat.pow_pos (by decide)
  have hz : h % 4 ^ d < 4 ^ d := Nat.mod_lt _ hpos
  have hz2 : h % 4 ^ d / 2 < 4 ^ d := by omega
  exact ⟨(Nat.div_lt_iff_lt_mul hpos).2 hh, RingBij.squeezeN_lt_of_lt hz, RingBij.squeezeN_lt_of_lt hz2⟩

theorem numberOf_partsOf (d h : Nat) (hd : d ≤ 29) : numberOf d (partsOf d h) = h := by
  have hpos : 0 < 4 ^ d := Nat.pow_pos (by decide)
  have hz : h % 4 ^ d < 4 ^ d := Nat.mod_lt _ hpos
  have h64 : h % 4 ^ d < 2 ^ 64 := by
    have : (4 : Nat) ^ d ≤ 4 ^ 29 := Nat.pow_le_pow_right (by decide) hd
    omega
  unfold numberOf partsOf
  simp only
  rw [RingBij.interleave_squeeze _ h64, Nat.mul_comm, Nat.div_add_mod]

theorem partsOf_numberOf (d : Nat) (hd : d ≤ 29) (q : HashParts) (hq : Valid (2 ^ d) q) :
    partsOf d (numberOf d q) = q := by
  obtain ⟨b, i, j⟩ := q
  obtain ⟨_, hi, hj⟩ := hq
  simp only at hi hj
  have hz : interleave i j < 4 ^ d := interleave_lt4 hd hi hj
  have hpos : 0 < 4 ^ d := Nat.pow_pos (by decide)
  have h32 := pow_lt_u32 d hd
  unfold numberOf partsOf
  simp only
  rw [Nat.add_comm, Nat.add_mul_div_right _ _ hpos, Nat.add_mul_mod_self_right, Nat.div_eq_of_lt hz,
    Nat.mod_eq_of_lt hz, squeezeN_interleave_i, squeezeN_interleave_j, Nat.mod_eq_of_lt (by omega),
    Nat.mod_eq_of_lt (by omega), Nat.zero_add]

theorem numberOf_injective (d : Nat) (hd : d ≤ 29) (p q : HashParts) (hp : Valid (2 ^ d) p) (hq : Valid (2 ^ d) q)
    (e : numberOf d p = numberOf d q) : p = q := by
  rw [← partsOf_numberOf d hd p hp, ← partsOf_numberOf d hd q hq, e]

theorem partsOf_injective (d : Nat) (hd : d ≤ 29) (h h' : Nat) (e : partsOf d h = partsOf d h') : h = h' := by
  rw [← numberOf_partsOf d h hd, ← numberOf_partsOf d h' hd, e]

/-- `decode_hash` on a cell number of the depth, any build -/
theorem decodeHash_spec (cfg : Cfg) (d : Nat) (hd : d ≤ 29) (h : Nat) (hh : h < 12 * 4 ^ d) :
    Layer.decodeHash cfg d h = some (partsOf d h) := by
  rw [LayerBmi.decodeHash_eq]
  obtain ⟨p, hp, hv, e⟩ := RingBij.decode_spec (LayerBmi.noBmi cfg) rfl d hd h hh
  rw [hp]
  have : partsOf d h = p := by
    have := partsOf_numberOf d hd p hv
    unfold numberOf at this
    rw [← e] at this
    exact this
  rw [this]

/-- `build_hash_from_parts` on valid parts, any build, debug assertions on or off -/
theorem build_spec (cfg : Cfg) (d : Nat) (hd : d ≤ 29) (q : HashParts) (hq : Valid (2 ^ d) q) :
    Layer.buildHashFromParts cfg d q.d0h q.i q.j = some (numberOf d q) := by
  rw [LayerBmi.buildHashFromParts_eq]
  exact (RingBij.build_spec (LayerBmi.noBmi cfg) rfl d hd q hq).1

/-! ## 1. `Layer::neighbour` -/

theorem buildParts_spec (cfg : Cfg) (d : Nat) (hd : d ≤ 29) (p : HashParts) (hp : Valid (2 ^ d) p) (dir : MW) :
    buildParts cfg d (neighbourParts (2 ^ d) p dir) = some ((neighbourParts (2 ^ d) p dir).map (numberOf d)) := by
  cases h : neighbourParts (2 ^ d) p dir with
  | none => rfl
  | some q =>
    have hq := neighbourParts_valid (2 ^ d) p q dir (one_le_pow d) (pow_le_u32 d hd) hp h
    simp [buildParts, build_spec cfg d hd q hq]

/-- **C04 on cell numbers, `neighbour_spec`**: on a cell number of the depth `Layer::neighbour` does not panic (in
    particular the `debug_assert!(i < nside && j < nside)` of `build_hash` never fires) and returns the number of the
    parts-level neighbour.  Every depth `≤ 29`, both z-order builds, debug assertions on or off. -/
theorem neighbour_spec (cfg : Cfg) (d : Nat) (hd : d ≤ 29) (hash : Nat) (hh : hash < 12 * 4 ^ d) (dir : MW) :
    Topo.neighbour cfg d hash dir = some ((neighbourParts (2 ^ d) (partsOf d hash) dir).map (numberOf d)) := by
  unfold Topo.neighbour
  rw [if_neg (by rw [nHash_eq]; omega), decodeHash_spec cfg d hd hash hh, nside_eq]
  exact buildParts_spec cfg d hd _ (partsOf_valid d hash hh) dir

/-! ## 2. the bit-level fast path `inner_cell_neighbours` -/

theorem xMask_eq (d : Nat) (hd : d ≤ 32) : Layer.xMask d = interleave (2 ^ d - 1) 0 := by
  unfold Layer.xMask
  split
  · rw [show d <<< 1 = 2 * d by rw [Nat.shiftLeft_eq]; omega]
    exact EdgeInternal.x55_shr d hd
  · have : d = 0 := by omega
    subst this
    simp [interleave]

theorem yMask_eq (d : Nat) (hd : d ≤ 32) : Layer.yMask d = interleave 0 (2 ^ d - 1) := by
  unfold Layer.yMask
  rw [xMask_eq d hd, EdgeInternal.interleave_zero_right, EdgeInternal.interleave_zero_left]

theorem d0hMask_eq (d : Nat) : Layer.d0hMask d = 15 * 4 ^ d := RingBij.shl2d' 15 d

theorem and_pow_sub_one {x d : Nat} (hx : x < 2 ^ d) : x &&& (2 ^ d - 1) = x := by
  rw [Nat.and_two_pow_sub_one_eq_mod, Nat.mod_eq_of_lt hx]

theorem interleave_and_xMask (d x y : Nat) (hd : d ≤ 32) (hx : x < 2 ^ d) :
    interleave x y &&& Layer.xMask d = interleave x 0 := by
  rw [xMask_eq d hd, EdgeInternal.interleave_and, and_pow_sub_one hx, Nat.and_zero]

theorem interleave_and_yMask (d x y : Nat) (hd : d ≤ 32) (hy : y < 2 ^ d) :
    interleave x y &&& Layer.yMask d = interleave 0 y := by
  rw [yMask_eq d hd, EdgeInternal.interleave_and, and_pow_sub_one hy, Nat.and_zero]

/-- a multiple of `4^d` has no bit in common with a number below `4^d` -/
theorem mul_pow_and_lt (a d z : Nat) (hz : z < 4 ^ d) : a * 4 ^ d &&& z = 0 := by
  apply Nat.eq_of_testBit_eq; intro p
  rw [Nat.testBit_and, four_pow, Nat.testBit_mul_two_pow, Nat.zero_testBit]
  by_cases h : 2 * d ≤ p
  · rw [RingBij.testBit_false_of_lt hz h]; simp
  · simp [h]

theorem hash_and_small (b d z m : Nat) (hz : z < 4 ^ d) (hm : m < 4 ^ d) :
    (b * 4 ^ d + z) &&& m = z &&& m := by
  rw [← EdgeInternal.or_eq_add _ _ _ hz, Nat.and_or_distrib_right, mul_pow_and_lt b d m hm, Nat.zero_or]

theorem xMask_lt (d : Nat) (hd : d ≤ 29) : Layer.xMask d < 4 ^ d := by
  rw [xMask_eq d (by omega)]
  exact interleave_lt4 hd (by have := one_le_pow d; omega) (by have := one_le_pow d; omega)

theorem yMask_lt (d : Nat) (hd : d ≤ 29) : Layer.yMask d < 4 ^ d := by
  rw [yMask_eq d (by omega)]
  exact interleave_lt4 hd (by have := one_le_pow d; omega) (by have := one_le_pow d; omega)

/-- `hash & x_mask` is the `i` coordinate spread on the even bits -/
theorem hash_and_xMask (d : Nat) (hd : d ≤ 29) (b x y : Nat) (hx : x < 2 ^ d) (hy : y < 2 ^ d) :
    (b * 4 ^ d + interleave x y) &&& Layer.xMask d = interleave x 0 := by
  rw [hash_and_small b d _ _ (interleave_lt4 hd hx hy) (xMask_lt d hd), interleave_and_xMask d x y (by omega) hx]

/-- `hash & y_mask` is the `j` coordinate spread on the odd bits -/
theorem hash_and_yMask (d : Nat) (hd : d ≤ 29) (b x y : Nat) (hx : x < 2 ^ d) (hy : y < 2 ^ d) :
    (b * 4 ^ d + interleave x y) &&& Layer.yMask d = interleave 0 y := by
  rw [hash_and_small b d _ _ (interleave_lt4 hd hx hy) (yMask_lt d hd), interleave_and_yMask d x y (by omega) hy]

/-- `hash & d0h_mask` is the base-cell part -/
theorem hash_and_d0hMask (d : Nat) (b z : Nat) (hb : b < 16) (hz : z < 4 ^ d) :
    (b * 4 ^ d + z) &&& Layer.d0hMask d = b * 4 ^ d := by
  rw [d0hMask_eq, ← EdgeInternal.or_eq_add _ _ _ hz, Nat.and_or_distrib_right, Nat.and_comm z,
    mul_pow_and_lt 15 d z hz, Nat.or_zero, four_pow, ← Nat.shiftLeft_eq, ← Nat.shiftLeft_eq,
    ← Nat.shiftLeft_and_distrib, show (15 : Nat) = 2 ^ 4 - 1 from rfl, Nat.and_two_pow_sub_one_eq_mod,
    Nat.mod_eq_of_lt hb]

/-! ### the curve of the depth, any build -/

theorem zoc_spec (cfg : Cfg) (d : Nat) (hd : d ≤ 29) : ∃ c, Layer.zoc cfg d = some c ∧ d ≤ c.bits := by
  rw [LayerBmi.zoc_eq]
  exact EdgeInternal.zoc_lut (LayerBmi.noBmi cfg) rfl d hd

theorem ij2h_spec (cfg : Cfg) (c : ZocClass) (x y : Nat) (hx : x < 2 ^ c.bits) (hy : y < 2 ^ c.bits) :
    Layer.ij2h cfg c x y = interleave x y := by
  rw [LayerBmi.ij2h_eq]
  unfold Layer.ij2h
  rw [if_neg (by simp [LayerBmi.noBmi])]
  exact EdgeInternal.lut_ij2h_interleave c x y hx hy

theorem h2ij_i (cfg : Cfg) (c : ZocClass) (z : Nat) : Lut.ij2i c (Layer.h2ij cfg c z) = squeezeN c.bits z := by
  rw [LayerBmi.h2ij_eq]
  unfold Layer.h2ij
  rw [if_neg (by simp [LayerBmi.noBmi])]
  exact lut_h2ij_i c z

theorem h2ij_j (cfg : Cfg) (c : ZocClass) (z : Nat) : Lut.ij2j c (Layer.h2ij cfg c z) = squeezeN c.bits (z / 2) := by
  rw [LayerBmi.h2ij_eq]
  unfold Layer.h2ij
  rw [if_neg (by simp [LayerBmi.noBmi])]
  exact lut_h2ij_j c z

/-- the cell number with in-base-cell coordinates `(x, y)` in base cell `b` -/
def num (d b x y : Nat) : Nat := b * 4 ^ d + interleave x y

theorem or_or_num (d b x y : Nat) (hd : d ≤ 29) (hx : x < 2 ^ d) (hy : y < 2 ^ d) :
    b * 4 ^ d ||| interleave x 0 ||| interleave 0 y = num d b x y :=
  EdgeInternal.or_or_cell b d x 0 0 y x y (by omega) hx hy (by simp) (by simp)

/-- **C04, `inner_bits_correct`**: for a cell that is not on the border of its base cell, the masked-OR bit trick of
    `inner_cell_neighbours` equals the coordinate arithmetic (u32 wrap included), entry by entry -/
theorem inner_bits_correct (cfg : Cfg) (d : Nat) (hd : d ≤ 29) (b i j : Nat) (hb : b < 12)
    (hi0 : 0 < i) (hi1 : i + 1 < 2 ^ d) (hj0 : 0 < j) (hj1 : j + 1 < 2 ^ d) :
    innerCellNeighbours cfg d (num d b i j) =
      some [(S, num d b (i - 1) (j - 1)), (SE, num d b i (j - 1)), (E, num d b (i + 1) (j - 1)),
            (SW, num d b (i - 1) j), (NE, num d b (i + 1) j), (W, num d b (i - 1) (j + 1)),
            (NW, num d b i (j + 1)), (N, num d b (i + 1) (j + 1))] := by
  obtain ⟨c, hc, hdc⟩ := zoc_spec cfg d hd
  have hc32 := EdgeInternal.bits_le_32 c
  have h32 := pow_lt_u32 d hd
  have hi : i < 2 ^ d := by omega
  have hj : j < 2 ^ d := by omega
  have hz : interleave i j < 4 ^ d := interleave_lt4 hd hi hj
  have bits : ∀ x, x < 2 ^ d → x < 2 ^ c.bits := fun x hx => EdgeInternal.pow_le_bits hdc hx
  have e0 : num d b i j &&& Layer.d0hMask d = b * 4 ^ d := hash_and_d0hMask d b _ (by omega) hz
  have e1 : num d b i j &&& Layer.xMask d = interleave i 0 := hash_and_xMask d hd b i j hi hj
  have e2 : num d b i j &&& Layer.yMask d = interleave 0 j := hash_and_yMask d hd b i j hi hj
  have e3 : interleave i 0 ||| interleave 0 j = interleave i j := by rw [EdgeInternal.interleave_or]; simp
  have e4 : Lut.ij2i c (Layer.h2ij cfg c (interleave i j)) = i := by
    rw [h2ij_i, RingBij.squeeze_interleave_i hdc hc32 hi]
  have e5 : Lut.ij2j c (Layer.h2ij cfg c (interleave i j)) = j := by
    rw [h2ij_j, RingBij.squeeze_interleave_j hdc hc32 hj]
  have e6 : (i + 1) % 4294967296 = i + 1 := Nat.mod_eq_of_lt (by omega)
  have e7 : (j + 1) % 4294967296 = j + 1 := Nat.mod_eq_of_lt (by omega)
  have e8 : Layer.ij2h cfg c (i - 1) (j - 1) = interleave (i - 1) (j - 1) :=
    ij2h_spec cfg c _ _ (bits _ (by omega)) (bits _ (by omega))
  have e9 : Layer.ij2h cfg c (i + 1) (j + 1) = interleave (i + 1) (j + 1) :=
    ij2h_spec cfg c _ _ (bits _ hi1) (bits _ hj1)
  unfold innerCellNeighbours
  simp only [hc, e0, e1, e2, e3, e4, e5, e6, e7, e8, e9]
  rw [if_neg (by omega)]
  rw [interleave_and_xMask d (i - 1) (j - 1) (by omega) (by omega),
    interleave_and_yMask d (i - 1) (j - 1) (by omega) (by omega),
    interleave_and_xMask d (i + 1) (j + 1) (by omega) hi1,
    interleave_and_yMask d (i + 1) (j + 1) (by omega) hj1]
  simp only [or_or_num d b _ _ hd hi1 hj1, or_or_num d b _ _ hd hi hj1,
    or_or_num d b _ _ hd hi1 hj, or_or_num d b (i - 1) (j - 1) hd (by omega) (by omega),
    or_or_num d b (i - 1) j hd (by omega) hj, or_or_num d b (i - 1) (j + 1) hd (by omega) hj1,
    or_or_num d b i (j - 1) hd hi (by omega), or_or_num d b (i + 1) (j - 1) hd hi1 (by omega)]

/-! ## 3. `Layer::neighbours` -/

theorem interleave_x_inj {x x' : Nat} (hx : x < 2 ^ 32) (hx' : x' < 2 ^ 32) (e : interleave x 0 = interleave x' 0) :
    x = x' := by
  have := congrArg (squeezeN 32) e
  rwa [squeezeN_interleave_i, squeezeN_interleave_i, Nat.mod_eq_of_lt hx, Nat.mod_eq_of_lt hx'] at this

theorem interleave_y_inj {y y' : Nat} (hy : y < 2 ^ 32) (hy' : y' < 2 ^ 32) (e : interleave 0 y = interleave 0 y') :
    y = y' := by
  have : squeezeN 32 (interleave 0 y / 2) = squeezeN 32 (interleave 0 y' / 2) := by rw [e]
  rwa [squeezeN_interleave_j, squeezeN_interleave_j, Nat.mod_eq_of_lt hy, Nat.mod_eq_of_lt hy'] at this

theorem interleave_zero_zero : interleave 0 0 = 0 := by simp [interleave]

/-- the border test of `neighbours` on the masked bits is the border test on the coordinates -/
theorem isInBaseCellBorder_iff (d : Nat) (hd : d ≤ 29) (b i j : Nat) (hi : i < 2 ^ d) (hj : j < 2 ^ d) :
    isInBaseCellBorder d (num d b i j &&& Layer.xMask d) (num d b i j &&& Layer.yMask d) = true ↔
      (i = 0 ∨ i + 1 = 2 ^ d ∨ j = 0 ∨ j + 1 = 2 ^ d) := by
  have h32 : 2 ^ d < 2 ^ 32 := pow_lt_u32 d hd
  have h1 := one_le_pow d
  unfold isInBaseCellBorder
  rw [show num d b i j = b * 4 ^ d + interleave i j from rfl, hash_and_xMask d hd b i j hi hj,
    hash_and_yMask d hd b i j hi hj, xMask_eq d (by omega), yMask_eq d (by omega)]
  simp only [Bool.or_eq_true, beq_iff_eq]
  constructor
  · rintro (((h | h) | h) | h)
    · exact Or.inl (interleave_x_inj (by omega) (by omega) (h.trans interleave_zero_zero.symm))
    · have := interleave_x_inj (x' := 2 ^ d - 1) (by omega) (by omega) h; omega
    · exact Or.inr (Or.inr (Or.inl (interleave_y_inj (by omega) (by omega) (h.trans interleave_zero_zero.symm))))
    · have := interleave_y_inj (y' := 2 ^ d - 1) (by omega) (by omega) h; omega
  · rintro (h | h | h | h)
    · subst h; exact Or.inl (Or.inl (Or.inl interleave_zero_zero))
    · have : i = 2 ^ d - 1 := by omega
      subst this; exact Or.inl (Or.inl (Or.inr rfl))
    · subst h; exact Or.inl (Or.inr interleave_zero_zero)
    · have : j = 2 ^ d - 1 := by omega
      subst this; exact Or.inr rfl

/-- raw association list in the order of the code (`S SE E SW NE W NW N`) for the per-direction results `G` -/
def rawOf (G : MW → Option Nat) : List (MW × Nat) := dirs8.filterMap fun k => (G k).map fun v => (k, v)

theorem foldlM_spec (f : MW → Option (Option Nat)) (G : MW → Option Nat) (hf : ∀ k, f k = some (G k)) (ks : List MW)
    (acc : List (MW × Nat)) :
    ks.foldlM (fun acc dir => match f dir with
      | none => none
      | some none => some acc
      | some (some h) => some (acc ++ [(dir, h)])) acc
      = some (acc ++ ks.filterMap fun k => (G k).map fun v => (k, v)) := by
  induction ks generalizing acc with
  | nil => simp
  | cons k ks ih =>
    rw [List.foldlM_cons, hf k, List.filterMap_cons]
    cases hg : G k with
    | none => simpa using ih acc
    | some v => simpa using ih (acc ++ [(k, v)])

/-- the per-direction results of a cell number: numbers of the parts-level neighbours -/
def nbG (d hash : Nat) (w : MW) : Option Nat := (neighbourParts (2 ^ d) (partsOf d hash) w).map (numberOf d)

/-- the border path computes the neighbours direction by direction (true of every cell, on a border or not) -/
theorem edgeCellNeighbours_spec (cfg : Cfg) (d : Nat) (hd : d ≤ 29) (hash : Nat) (hh : hash < 12 * 4 ^ d) :
    edgeCellNeighbours cfg d hash = some (rawOf (nbG d hash)) := by
  unfold edgeCellNeighbours
  rw [decodeHash_spec cfg d hd hash hh, nside_eq]
  have := foldlM_spec (fun dir => buildParts cfg d (neighbourParts (2 ^ d) (partsOf d hash) dir)) (nbG d hash)
    (fun k => buildParts_spec cfg d hd _ (partsOf_valid d hash hh) k) dirs8 []
  rw [List.nil_append] at this
  exact this

theorem offsets_range (dir : MW) :
    -1 ≤ dir.offsetSe ∧ dir.offsetSe ≤ 1 ∧ -1 ≤ dir.offsetSw ∧ dir.offsetSw ≤ 1 := by
  cases dir <;> decide

/-- inside a base cell the neighbour is obtained by shifting the coordinates -/
theorem neighbourParts_inner (n b i j : Nat) (dir : MW) (hi0 : 0 < i) (hi1 : i + 1 < n) (hj0 : 0 < j)
    (hj1 : j + 1 < n) :
    neighbourParts n ⟨b, i, j⟩ dir =
      some ⟨b, ((i : Int) + dir.offsetSe).toNat, ((j : Int) + dir.offsetSw).toNat⟩ := by
  obtain ⟨h1, h2, h3, h4⟩ := offsets_range dir
  have hz : ∀ c : Int, 0 ≤ c → c < n → zone n c = 0 := by
    intro c h1 h2; unfold zone; omega
  rw [neighbourParts_eq_nbAt]
  unfold nbAt
  simp only
  rw [hz _ (by omega) (by omega), hz _ (by omega) (by omega)]
  simp [nbZ, ofOffsets, ofIndex]

theorem rawOf_inner (d b i j : Nat) (hd : d ≤ 29) (hb : b < 12) (hi0 : 0 < i) (hi1 : i + 1 < 2 ^ d) (hj0 : 0 < j)
    (hj1 : j + 1 < 2 ^ d) :
    rawOf (nbG d (num d b i j)) =
      [(S, num d b (i - 1) (j - 1)), (SE, num d b i (j - 1)), (E, num d b (i + 1) (j - 1)),
       (SW, num d b (i - 1) j), (NE, num d b (i + 1) j), (W, num d b (i - 1) (j + 1)),
       (NW, num d b i (j + 1)), (N, num d b (i + 1) (j + 1))] := by
  have hp : partsOf d (num d b i j) = ⟨b, i, j⟩ :=
    partsOf_numberOf d hd ⟨b, i, j⟩ ⟨hb, (by show i < 2 ^ d; omega), (by show j < 2 ^ d; omega)⟩
  have e1 : ((i : Int) + -1).toNat = i - 1 := by omega
  have e2 : ((j : Int) + -1).toNat = j - 1 := by omega
  have e3 : ((i : Int) + 1).toNat = i + 1 := by omega
  have e4 : ((j : Int) + 1).toNat = j + 1 := by omega
  have e5 : ((i : Int) + 0).toNat = i := by omega
  have e6 : ((j : Int) + 0).toNat = j := by omega
  unfold rawOf nbG
  rw [hp]
  simp only [dirs8, List.filterMap_cons, List.filterMap_nil,
    neighbourParts_inner (2 ^ d) b i j _ hi0 hi1 hj0 hj1, Option.map_some, offsetSe, offsetSw, e1, e2, e3, e4, e5, e6,
    numberOf, num]

/-- the fast path, on a cell number -/
theorem innerCellNeighbours_spec (cfg : Cfg) (d : Nat) (hd : d ≤ 29) (b i j : Nat) (hb : b < 12)
    (hi0 : 0 < i) (hi1 : i + 1 < 2 ^ d) (hj0 : 0 < j) (hj1 : j + 1 < 2 ^ d) :
    innerCellNeighbours cfg d (num d b i j) = some (rawOf (nbG d (num d b i j))) := by
  rw [inner_bits_correct cfg d hd b i j hb hi0 hi1 hj0 hj1, rawOf_inner d b i j hd hb hi0 hi1 hj0 hj1]

theorem find_filterMap_key (ks : List MW) (G : MW → Option Nat) (w : MW) :
    (ks.filterMap fun k => (G k).map fun v => (k, v)).find? (·.1 == w) =
      if w ∈ ks then (G w).map (fun v => (w, v)) else none := by
  induction ks with
  | nil => simp
  | cons k ks ih =>
    rw [List.filterMap_cons]
    by_cases hk : k = w
    · subst hk
      cases hg : G k with
      | none => simp [hg, ih]
      | some v => simp
    · have hk' : ¬ w = k := fun e => hk e.symm
      cases hg : G k with
      | none => simp [ih, hk']
      | some v => simp [ih, hk, hk']

theorem filterMap_congr' {α β : Type} {f g : α → Option β} (l : List α) (h : ∀ a ∈ l, f a = g a) :
    l.filterMap f = l.filterMap g := by
  induction l with
  | nil => rfl
  | cons a l ih =>
    rw [List.filterMap_cons, List.filterMap_cons, h a (by simp), ih (fun x hx => h x (by simp [hx]))]

theorem mem_dirs8_iff (w : MW) : w ∈ dirs8 ↔ w ≠ C := by cases w <;> simp [dirs8]

theorem find_rawOf (G : MW → Option Nat) (w : MW) :
    (rawOf G).find? (·.1 == w) = if w = C then none else (G w).map (fun v => (w, v)) := by
  unfold rawOf
  rw [find_filterMap_key]
  simp only [mem_dirs8_iff]
  by_cases h : w = C <;> simp [h]

/-- reading the association list in `MainWind` index order -/
theorem reorder (G : MW → Option Nat) (inc : Bool) (h : Nat) :
    MW.all.filterMap (fun w => (if inc = true then rawOf G ++ [(C, h)] else rawOf G).find? (·.1 == w)) =
    MW.all.filterMap fun w =>
      if w = C then (if inc = true then some (C, h) else none) else (G w).map fun v => (w, v) := by
  apply filterMap_congr'
  intro w _
  cases inc
  · simp only [Bool.false_eq_true, if_false, find_rawOf]
  · simp only [if_true, List.find?_append, find_rawOf]
    by_cases hw : w = C
    · subst hw; simp
    · have : ¬ C = w := fun e => hw e.symm
      simp [hw, this]

theorem raw_spec_num (cfg : Cfg) (d : Nat) (hd : d ≤ 29) (b i j : Nat) (hb : b < 12) (hi : i < 2 ^ d) (hj : j < 2 ^ d) :
    (if isInBaseCellBorder d (num d b i j &&& Layer.xMask d) (num d b i j &&& Layer.yMask d) = true
      then edgeCellNeighbours cfg d (num d b i j) else innerCellNeighbours cfg d (num d b i j)) =
      some (rawOf (nbG d (num d b i j))) := by
  have hlt : num d b i j < 12 * 4 ^ d := numberOf_lt d hd ⟨b, i, j⟩ ⟨hb, hi, hj⟩
  by_cases hnb : isInBaseCellBorder d (num d b i j &&& Layer.xMask d) (num d b i j &&& Layer.yMask d) = true
  · rw [if_pos hnb]
    exact edgeCellNeighbours_spec cfg d hd _ hlt
  · rw [if_neg hnb]
    rw [isInBaseCellBorder_iff d hd b i j hi hj] at hnb
    exact innerCellNeighbours_spec cfg d hd b i j hb (by omega) (by omega) (by omega) (by omega)

/-- **C04 on cell numbers, `neighbours_spec`**: on a cell number of the depth `Layer::neighbours` does not panic and
    returns, in `MainWind` index order (`S SE E SW C NE W NW N`), the entries `(dir, number of the parts-level neighbour)`
    for the directions in which there is a neighbour (`C` iff `include_center`).  Both the border path
    (`edge_cell_neighbours`) and the bit-level fast path (`inner_cell_neighbours`) give this.  Every depth `≤ 29`, both
    z-order builds, debug assertions on or off. -/
theorem neighbours_spec (cfg : Cfg) (d : Nat) (hd : d ≤ 29) (hash : Nat) (hh : hash < 12 * 4 ^ d) (inc : Bool) :
    Topo.neighbours cfg d hash inc = some (nbList d hash inc) := by
  have hv := partsOf_valid d hash hh
  have hnum : num d (partsOf d hash).d0h (partsOf d hash).i (partsOf d hash).j = hash := numberOf_partsOf d hash hd
  have hr := raw_spec_num cfg d hd _ _ _ hv.1 hv.2.1 hv.2.2
  rw [hnum] at hr
  unfold Topo.neighbours
  rw [if_neg (by rw [nHash_eq]; omega)]
  simp only []
  rw [hr, Option.map_some, reorder]
  refine congrArg some ?_
  unfold nbList
  apply filterMap_congr'
  intro w _
  by_cases hw : w = C
  · subst hw
    cases inc <;> simp [neighbourParts_C _ _ hv, numberOf_partsOf d hash hd]
  · simp only [hw, nbG, if_false, false_and, Option.map_map]
    rfl

/-- `inner_bits_correct` stated on a cell number: when the border test of `neighbours` fails, the cell is strictly
    inside its base cell and the fast path returns the eight shifted cells -/
theorem inner_bits_correct_hash (cfg : Cfg) (d : Nat) (hd : d ≤ 29) (hash : Nat) (hh : hash < 12 * 4 ^ d)
    (hnb : isInBaseCellBorder d (hash &&& Layer.xMask d) (hash &&& Layer.yMask d) = false) :
    0 < (partsOf d hash).i ∧ (partsOf d hash).i + 1 < 2 ^ d ∧ 0 < (partsOf d hash).j ∧ (partsOf d hash).j + 1 < 2 ^ d ∧
    innerCellNeighbours cfg d hash =
      some [(S, num d (partsOf d hash).d0h ((partsOf d hash).i - 1) ((partsOf d hash).j - 1)),
            (SE, num d (partsOf d hash).d0h (partsOf d hash).i ((partsOf d hash).j - 1)),
            (E, num d (partsOf d hash).d0h ((partsOf d hash).i + 1) ((partsOf d hash).j - 1)),
            (SW, num d (partsOf d hash).d0h ((partsOf d hash).i - 1) (partsOf d hash).j),
            (NE, num d (partsOf d hash).d0h ((partsOf d hash).i + 1) (partsOf d hash).j),
            (W, num d (partsOf d hash).d0h ((partsOf d hash).i - 1) ((partsOf d hash).j + 1)),
            (NW, num d (partsOf d hash).d0h (partsOf d hash).i ((partsOf d hash).j + 1)),
            (N, num d (partsOf d hash).d0h ((partsOf d hash).i + 1) ((partsOf d hash).j + 1))] := by
  obtain ⟨hb, hi, hj⟩ := partsOf_valid d hash hh
  have hnum : num d (partsOf d hash).d0h (partsOf d hash).i (partsOf d hash).j = hash := numberOf_partsOf d hash hd
  have h1 := isInBaseCellBorder_iff d hd (partsOf d hash).d0h _ _ hi hj
  rw [hnum, hnb] at h1
  have h2 : ¬ ((partsOf d hash).i = 0 ∨ (partsOf d hash).i + 1 = 2 ^ d ∨ (partsOf d hash).j = 0 ∨
      (partsOf d hash).j + 1 = 2 ^ d) := fun h => by simpa using h1.2 h
  have h3 := inner_bits_correct cfg d hd (partsOf d hash).d0h (partsOf d hash).i (partsOf d hash).j hb
    (by omega) (by omega) (by omega) (by omega)
  rw [hnum] at h3
  exact ⟨by omega, by omega, by omega, by omega, h3⟩

/-! ## tests by kernel evaluation and non-vacuity -/

/-- **test**: `neighbour_spec` and `neighbours_spec` evaluated on every cell at depths 0 and 1, both builds
    (`#eval` confirms depths `≤ 3`) -/
def chk (cfg : Cfg) (d : Nat) : Bool :=
  (List.range (12 * 4 ^ d)).all fun h =>
    (MW.all.all fun dir =>
      Topo.neighbour cfg d h dir == some ((neighbourParts (2 ^ d) (partsOf d h) dir).map (numberOf d))) &&
    [true, false].all fun inc => Topo.neighbours cfg d h inc == some (nbList d h inc)

example : chk {} 0 = true ∧ chk { debug := false, bmi := true } 0 = true ∧ chk {} 1 = true := by decide +kernel

/-- the hypotheses are satisfiable: depth 3, cell 100 = base cell 1, `(i, j) = (2, 4)`, an inner cell -/
example : Topo.neighbours {} 3 100 true =
    some [(S, 75), (SE, 78), (E, 79), (SW, 97), (C, 100), (NE, 101), (W, 99), (NW, 102), (N, 103)] := by
  rw [neighbours_spec {} 3 (by decide) 100 (by decide) true]; decide +kernel

example : partsOf 3 100 = ⟨1, 2, 4⟩ ∧
    isInBaseCellBorder 3 (100 &&& Layer.xMask 3) (100 &&& Layer.yMask 3) = false := by decide +kernel

/-- a border cell with a missing neighbour: depth 2, cell 5 = base cell 0, `(i, j) = (3, 0)` has no `E` neighbour -/
example : partsOf 2 5 = ⟨0, 3, 0⟩ ∧ Topo.neighbour {} 2 5 E = some none ∧
    (Topo.neighbours {} 2 5 false).map List.length = some 7 := by decide +kernel

end Hpx.TopoLift

#print axioms Hpx.TopoLift.neighbour_spec
#print axioms Hpx.TopoLift.inner_bits_correct
#print axioms Hpx.TopoLift.inner_bits_correct_hash
#print axioms Hpx.TopoLift.neighbours_spec
