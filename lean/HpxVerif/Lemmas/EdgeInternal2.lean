/-
C14 (internal part), sorted variant: `internal_edge_sorted` returns, for every `delta_depth`, the strictly increasing
enumeration of the ring of border descendants — a permutation of the result of `internal_edge`.
-/
import Mathlib.Data.List.Perm.Subperm
import HpxVerif.Lemmas.EdgeInternal

namespace Hpx.EdgeInternal
open Hpx Hpx.Topo

/-! ## arithmetic of the bit spreading -/

/-- `sp x = interleave x 0`: the bits of `x` on the even positions -/
abbrev sp (x : Nat) : Nat := spreadN 32 x

theorem spreadN_mono (k x x' : Nat) (h : x < x') (hx' : x' < 2 ^ k) : spreadN k x < spreadN k x' := by
  induction k generalizing x x' with
  | zero => simp at hx'; omega
  | succ k ih =>
    simp only [spreadN]
    rw [Nat.pow_succ] at hx'
    by_cases hq : x / 2 < x' / 2
    · have := ih (x / 2) (x' / 2) hq (by omega)
      omega
    · have : x / 2 = x' / 2 := by omega
      rw [this]; omega

theorem sp_mono {x x' : Nat} (h : x < x') (hx' : x' < 2 ^ 32) : sp x < sp x' := spreadN_mono 32 x x' h hx'

theorem spreadN_two_pow (k b : Nat) (hb : b < k) : spreadN k (2 ^ b) = 4 ^ b := by
  induction k generalizing b with
  | zero => omega
  | succ k ih =>
    simp only [spreadN]
    cases b with
    | zero => simp
    | succ b =>
      have h1 : 2 ^ (b + 1) % 2 = 0 := by rw [Nat.pow_succ]; omega
      have h2 : 2 ^ (b + 1) / 2 = 2 ^ b := by rw [Nat.pow_succ]; omega
      rw [h1, h2, ih b (by omega), Nat.pow_succ]; omega

theorem sp_two_pow {b : Nat} (hb : b < 32) : sp (2 ^ b) = 4 ^ b := spreadN_two_pow 32 b hb

theorem sp_lt {b x : Nat} (hb : b ≤ 32) (hx : x < 2 ^ b) : 3 * sp x < 4 ^ b := by
  unfold sp; rw [spreadN_of_lt hx hb]; exact three_spreadN_lt b x

theorem sp_ge {b x : Nat} (hb : b < 32) (hx : 2 ^ b ≤ x) (hx' : x < 2 ^ 32) : 4 ^ b ≤ sp x := by
  rw [← sp_two_pow hb]
  by_cases h : 2 ^ b = x
  · rw [h]; exact Nat.le_refl _
  · exact Nat.le_of_lt (sp_mono (by omega) hx')

/-- complement: `sp (m − x) = sp m − sp x` for `m = 2^k − 1` -/
theorem spreadN_compl (k x : Nat) (hx : x < 2 ^ k) :
    spreadN k (2 ^ k - 1 - x) + spreadN k x = spreadN k (2 ^ k - 1) := by
  induction k generalizing x with
  | zero => simp [spreadN]
  | succ k ih =>
    simp only [spreadN]
    rw [Nat.pow_succ] at hx ⊢
    have hp := Nat.two_pow_pos k
    have h1 : (2 ^ k * 2 - 1 - x) / 2 = 2 ^ k - 1 - x / 2 := by omega
    have h2 : (2 ^ k * 2 - 1) / 2 = 2 ^ k - 1 - 0 := by omega
    have i1 := ih (x / 2) (by omega)
    have i2 := ih 0 (by omega)
    rw [h1, h2]
    simp only [Nat.sub_zero] at i2 ⊢
    omega

theorem sp_compl {dd x : Nat} (hd : dd ≤ 32) (hx : x < 2 ^ dd) : sp (2 ^ dd - 1 - x) + sp x = sp (2 ^ dd - 1) := by
  have hp := Nat.two_pow_pos dd
  unfold sp
  rw [spreadN_of_lt (show 2 ^ dd - 1 - x < 2 ^ dd by omega) hd, spreadN_of_lt hx hd,
    spreadN_of_lt (show 2 ^ dd - 1 < 2 ^ dd by omega) hd]
  exact spreadN_compl dd x hx

theorem sp_zero : sp 0 = 0 := spreadN_zero 32

theorem cellVal_eq (hash dd x y : Nat) : cellVal hash dd (x, y) = hash * 4 ^ dd + (sp x + 2 * sp y) := by
  simp only [cellVal, interleave_eq_add]

/-! ## the sorted enumeration of the ring, by position -/

/-- south quadrant (`x, y < N/2`): position `t` ↦ coordinates.  `(0,0)` first, then for each `b` the block
    `(2^b .. 2^(b+1)−1, 0)` followed by the block `(0, 2^b .. 2^(b+1)−1)` -/
def q0 (t : Nat) : Nat × Nat :=
  if t = 0 then (0, 0) else
  let q := 2 ^ Nat.log2 (t + 1)
  if t + 1 < q + q / 2 then (t + 1 - q / 2, 0) else (0, t + 1 - q)

theorem exists_pow_bracket (x : Nat) (hx : 1 ≤ x) : ∃ b, 2 ^ b ≤ x ∧ x < 2 ^ (b + 1) :=
  ⟨Nat.log2 x, (Nat.log2_eq_iff (by omega)).1 rfl⟩

theorem q0_zero : q0 0 = (0, 0) := by simp [q0]

theorem q0_x (b x : Nat) (h1 : 2 ^ b ≤ x) (h2 : x < 2 ^ (b + 1)) : q0 (x + 2 ^ b - 1) = (x, 0) := by
  have hp := Nat.two_pow_pos b
  have e1 : 2 ^ (b + 1) = 2 * 2 ^ b := by rw [Nat.pow_succ]; omega
  have e2 : 2 ^ (b + 1 + 1) = 4 * 2 ^ b := by rw [Nat.pow_succ, Nat.pow_succ]; omega
  have hl : Nat.log2 (x + 2 ^ b - 1 + 1) = b + 1 := (Nat.log2_eq_iff (by omega)).2 ⟨by omega, by omega⟩
  unfold q0
  rw [if_neg (by omega)]
  simp only [hl]
  rw [if_pos (by omega)]
  congr 1; omega

theorem q0_y (b y : Nat) (h1 : 2 ^ b ≤ y) (h2 : y < 2 ^ (b + 1)) : q0 (y + 2 ^ (b + 1) - 1) = (0, y) := by
  have hp := Nat.two_pow_pos b
  have e1 : 2 ^ (b + 1) = 2 * 2 ^ b := by rw [Nat.pow_succ]; omega
  have e2 : 2 ^ (b + 1 + 1) = 4 * 2 ^ b := by rw [Nat.pow_succ, Nat.pow_succ]; omega
  have hl : Nat.log2 (y + 2 ^ (b + 1) - 1 + 1) = b + 1 := (Nat.log2_eq_iff (by omega)).2 ⟨by omega, by omega⟩
  unfold q0
  rw [if_neg (by omega)]
  simp only [hl]
  rw [if_neg (by omega)]
  congr 1; omega

/-- every position of the south quadrant is `0`, or an `x`-block position, or a `y`-block position -/
theorem q0_cases (t : Nat) : t = 0 ∨ ∃ b x, 2 ^ b ≤ x ∧ x < 2 ^ (b + 1) ∧ (t = x + 2 ^ b - 1 ∨ t = x + 2 ^ (b + 1) - 1) := by
  by_cases h0 : t = 0
  · left; exact h0
  right
  obtain ⟨k, hk1, hk2⟩ := exists_pow_bracket (t + 1) (by omega)
  cases k with
  | zero => simp at hk2; omega
  | succ b =>
    have hp := Nat.two_pow_pos b
    have e1 : 2 ^ (b + 1) = 2 * 2 ^ b := by rw [Nat.pow_succ]; omega
    have e2 : 2 ^ (b + 1 + 1) = 4 * 2 ^ b := by rw [Nat.pow_succ, Nat.pow_succ]; omega
    by_cases hc : t + 1 < 3 * 2 ^ b
    · exact ⟨b, t + 1 - 2 ^ b, by omega, by omega, Or.inl (by omega)⟩
    · exact ⟨b, t + 1 - 2 ^ (b + 1), by omega, by omega, Or.inr (by omega)⟩

/-- coordinates of element number `t` of `internal_edge_sorted` (`t < 4(N−1)`), `M = N−1`, `H = N/2`:
    south quadrant `q0`; east quadrant `(H..M, 0)` then `(M, 1..H−1)`; west quadrant `(0, H..M)` then `(1..H−1, M)`;
    north quadrant = the south quadrant mirrored, backwards -/
def sortCoord (dd t : Nat) : Nat × Nat :=
  let m := 2 ^ dd - 1
  let hf := 2 ^ (dd - 1)
  if t < m then q0 t
  else if t < m + hf then (t - m + hf, 0)
  else if t < 2 * m then (m, t - (m + hf) + 1)
  else if t < 2 * m + hf then (0, t - 2 * m + hf)
  else if t < 3 * m then (t - (2 * m + hf) + 1, m)
  else (m - (q0 (4 * m - 1 - t)).1, m - (q0 (4 * m - 1 - t)).2)

theorem sortCoord_cases (dd t : Nat) :
    (t < 2 ^ dd - 1 ∧ sortCoord dd t = q0 t) ∨
    (2 ^ dd - 1 ≤ t ∧ t < 2 ^ dd - 1 + 2 ^ (dd - 1) ∧ sortCoord dd t = (t - (2 ^ dd - 1) + 2 ^ (dd - 1), 0)) ∨
    (2 ^ dd - 1 + 2 ^ (dd - 1) ≤ t ∧ t < 2 * (2 ^ dd - 1) ∧
      sortCoord dd t = (2 ^ dd - 1, t - (2 ^ dd - 1 + 2 ^ (dd - 1)) + 1)) ∨
    (2 * (2 ^ dd - 1) ≤ t ∧ t < 2 * (2 ^ dd - 1) + 2 ^ (dd - 1) ∧
      sortCoord dd t = (0, t - 2 * (2 ^ dd - 1) + 2 ^ (dd - 1))) ∨
    (2 * (2 ^ dd - 1) + 2 ^ (dd - 1) ≤ t ∧ t < 3 * (2 ^ dd - 1) ∧
      sortCoord dd t = (t - (2 * (2 ^ dd - 1) + 2 ^ (dd - 1)) + 1, 2 ^ dd - 1)) ∨
    (3 * (2 ^ dd - 1) ≤ t ∧ sortCoord dd t =
      (2 ^ dd - 1 - (q0 (4 * (2 ^ dd - 1) - 1 - t)).1, 2 ^ dd - 1 - (q0 (4 * (2 ^ dd - 1) - 1 - t)).2)) := by
  simp only [sortCoord]
  by_cases c1 : t < 2 ^ dd - 1
  · left; exact ⟨c1, by rw [if_pos c1]⟩
  by_cases c2 : t < 2 ^ dd - 1 + 2 ^ (dd - 1)
  · right; left; exact ⟨by omega, c2, by rw [if_neg c1, if_pos c2]⟩
  by_cases c3 : t < 2 * (2 ^ dd - 1)
  · right; right; left; exact ⟨by omega, c3, by rw [if_neg c1, if_neg c2, if_pos c3]⟩
  by_cases c4 : t < 2 * (2 ^ dd - 1) + 2 ^ (dd - 1)
  · right; right; right; left; exact ⟨by omega, c4, by rw [if_neg c1, if_neg c2, if_neg c3, if_pos c4]⟩
  by_cases c5 : t < 3 * (2 ^ dd - 1)
  · right; right; right; right; left
    exact ⟨by omega, c5, by rw [if_neg c1, if_neg c2, if_neg c3, if_neg c4, if_pos c5]⟩
  · right; right; right; right; right
    exact ⟨by omega, by rw [if_neg c1, if_neg c2, if_neg c3, if_neg c4, if_neg c5]⟩

/-- the explicit sorted ring -/
def sortedList (hash dd : Nat) : List Nat :=
  (List.range (4 * (2 ^ dd - 1))).map fun t => cellVal hash dd (sortCoord dd t)

/-! ## positions written by the loop -/

theorem pow_split {dd : Nat} (h1 : 1 ≤ dd) : 2 ^ dd = 2 * 2 ^ (dd - 1) := by
  obtain ⟨e, rfl⟩ : ∃ e, dd = e + 1 := ⟨dd - 1, by omega⟩
  rw [Nat.pow_succ]; simp; omega

theorem pow_succ_le_of_lt {b e : Nat} (h : 2 ^ b < 2 ^ e) : 2 ^ (b + 1) ≤ 2 ^ e :=
  Nat.pow_le_pow_right (by decide) ((Nat.pow_lt_pow_iff_right (by decide)).1 h)

theorem bracket_unique {b b' x : Nat} (h1 : 2 ^ b ≤ x) (h2 : x < 2 ^ (b + 1)) (h1' : 2 ^ b' ≤ x) (h2' : x < 2 ^ (b' + 1)) :
    b = b' := by
  have a1 : b < b' + 1 := (Nat.pow_lt_pow_iff_right (a := 2) (by decide)).1 (by omega)
  have a2 : b' < b + 1 := (Nat.pow_lt_pow_iff_right (a := 2) (by decide)).1 (by omega)
  omega

section positions
variable (dd b x : Nat) (h1 : 1 ≤ dd) (hb1 : 2 ^ b ≤ x) (hb2 : x < 2 ^ (b + 1)) (hx : x < 2 ^ (dd - 1))
include h1 hb1 hb2 hx

omit h1 hb2 in
theorem blk_le : 2 ^ (b + 1) ≤ 2 ^ (dd - 1) := pow_succ_le_of_lt (by omega)

theorem sc_k0 : sortCoord dd (x + 2 ^ b - 1) = (x, 0) := by
  have hs := pow_split h1
  have hl := blk_le dd b x hb1 hx
  have e1 : 2 ^ (b + 1) = 2 * 2 ^ b := by rw [Nat.pow_succ]; omega
  rcases sortCoord_cases dd (x + 2 ^ b - 1) with ⟨_, e⟩ | ⟨_, _, _⟩ | ⟨_, _, _⟩ | ⟨_, _, _⟩ | ⟨_, _, _⟩ | ⟨_, _⟩
  · rw [e, q0_x b x hb1 hb2]
  all_goals omega

theorem sc_k1 : sortCoord dd (x + 2 ^ (b + 1) - 1) = (0, x) := by
  have hs := pow_split h1
  have hl := blk_le dd b x hb1 hx
  have e1 : 2 ^ (b + 1) = 2 * 2 ^ b := by rw [Nat.pow_succ]; omega
  rcases sortCoord_cases dd (x + 2 ^ (b + 1) - 1) with ⟨_, e⟩ | ⟨_, _, _⟩ | ⟨_, _, _⟩ | ⟨_, _, _⟩ | ⟨_, _, _⟩ | ⟨_, _⟩
  · rw [e, q0_y b x hb1 hb2]
  all_goals omega

theorem sc_k2 : sortCoord dd (2 ^ dd - 1 + 2 ^ (dd - 1) + x - 1) = (2 ^ dd - 1, x) := by
  have hs := pow_split h1
  have hp := Nat.two_pow_pos b
  rcases sortCoord_cases dd (2 ^ dd - 1 + 2 ^ (dd - 1) + x - 1) with
    ⟨_, _⟩ | ⟨_, _, _⟩ | ⟨_, _, e⟩ | ⟨_, _, _⟩ | ⟨_, _, _⟩ | ⟨_, _⟩
  case inr.inr.inl => rw [e]; congr 1; omega
  all_goals omega

theorem sc_k3 : sortCoord dd (2 * (2 ^ dd - 1) + 2 ^ (dd - 1) + x - 1) = (x, 2 ^ dd - 1) := by
  have hs := pow_split h1
  have hp := Nat.two_pow_pos b
  rcases sortCoord_cases dd (2 * (2 ^ dd - 1) + 2 ^ (dd - 1) + x - 1) with
    ⟨_, _⟩ | ⟨_, _, _⟩ | ⟨_, _, _⟩ | ⟨_, _, _⟩ | ⟨_, _, e⟩ | ⟨_, _⟩
  case inr.inr.inr.inr.inl => rw [e]; congr 1; omega
  all_goals omega

theorem sc_k0' : sortCoord dd (4 * (2 ^ dd - 1) - (x + 2 ^ b)) = (2 ^ dd - 1 - x, 2 ^ dd - 1) := by
  have hs := pow_split h1
  have hl := blk_le dd b x hb1 hx
  have hp := Nat.two_pow_pos b
  have e1 : 2 ^ (b + 1) = 2 * 2 ^ b := by rw [Nat.pow_succ]; omega
  rcases sortCoord_cases dd (4 * (2 ^ dd - 1) - (x + 2 ^ b)) with
    ⟨_, _⟩ | ⟨_, _, _⟩ | ⟨_, _, _⟩ | ⟨_, _, _⟩ | ⟨_, _, _⟩ | ⟨_, e⟩
  case inr.inr.inr.inr.inr =>
    rw [e, show 4 * (2 ^ dd - 1) - 1 - (4 * (2 ^ dd - 1) - (x + 2 ^ b)) = x + 2 ^ b - 1 by omega, q0_x b x hb1 hb2]
    rfl
  all_goals omega

theorem sc_k1' : sortCoord dd (4 * (2 ^ dd - 1) - (x + 2 ^ (b + 1))) = (2 ^ dd - 1, 2 ^ dd - 1 - x) := by
  have hs := pow_split h1
  have hl := blk_le dd b x hb1 hx
  have hp := Nat.two_pow_pos b
  have e1 : 2 ^ (b + 1) = 2 * 2 ^ b := by rw [Nat.pow_succ]; omega
  rcases sortCoord_cases dd (4 * (2 ^ dd - 1) - (x + 2 ^ (b + 1))) with
    ⟨_, _⟩ | ⟨_, _, _⟩ | ⟨_, _, _⟩ | ⟨_, _, _⟩ | ⟨_, _, _⟩ | ⟨_, e⟩
  case inr.inr.inr.inr.inr =>
    rw [e, show 4 * (2 ^ dd - 1) - 1 - (4 * (2 ^ dd - 1) - (x + 2 ^ (b + 1))) = x + 2 ^ (b + 1) - 1 by omega,
      q0_y b x hb1 hb2]
    rfl
  all_goals omega

theorem sc_k2' : sortCoord dd (4 * (2 ^ dd - 1) - (2 ^ dd - 1 + 2 ^ (dd - 1) + x)) = (0, 2 ^ dd - 1 - x) := by
  have hs := pow_split h1
  have hp := Nat.two_pow_pos b
  rcases sortCoord_cases dd (4 * (2 ^ dd - 1) - (2 ^ dd - 1 + 2 ^ (dd - 1) + x)) with
    ⟨_, _⟩ | ⟨_, _, _⟩ | ⟨_, _, _⟩ | ⟨_, _, e⟩ | ⟨_, _, _⟩ | ⟨_, _⟩
  case inr.inr.inr.inl => rw [e]; congr 1; omega
  all_goals omega

theorem sc_k3' : sortCoord dd (4 * (2 ^ dd - 1) - (2 * (2 ^ dd - 1) + 2 ^ (dd - 1) + x)) = (2 ^ dd - 1 - x, 0) := by
  have hs := pow_split h1
  have hp := Nat.two_pow_pos b
  rcases sortCoord_cases dd (4 * (2 ^ dd - 1) - (2 * (2 ^ dd - 1) + 2 ^ (dd - 1) + x)) with
    ⟨_, _⟩ | ⟨_, _, e⟩ | ⟨_, _, _⟩ | ⟨_, _, _⟩ | ⟨_, _, _⟩ | ⟨_, _⟩
  case inr.inl => rw [e]; congr 1; omega
  all_goals omega

end positions

theorem sc_south (dd : Nat) (h1 : 1 ≤ dd) : sortCoord dd 0 = (0, 0) := by
  have hs := pow_split h1
  have hp := Nat.two_pow_pos (dd - 1)
  rcases sortCoord_cases dd 0 with ⟨_, e⟩ | ⟨_, _, _⟩ | ⟨_, _, _⟩ | ⟨_, _, _⟩ | ⟨_, _, _⟩ | ⟨_, _⟩
  · rw [e, q0_zero]
  all_goals omega

theorem sc_east (dd : Nat) (h1 : 1 ≤ dd) : sortCoord dd (2 ^ dd - 1 + 2 ^ (dd - 1) - 1) = (2 ^ dd - 1, 0) := by
  have hs := pow_split h1
  have hp := Nat.two_pow_pos (dd - 1)
  rcases sortCoord_cases dd (2 ^ dd - 1 + 2 ^ (dd - 1) - 1) with
    ⟨_, _⟩ | ⟨_, _, e⟩ | ⟨_, _, _⟩ | ⟨_, _, _⟩ | ⟨_, _, _⟩ | ⟨_, _⟩
  case inr.inl => rw [e]; congr 1; omega
  all_goals omega

theorem sc_west (dd : Nat) (h1 : 1 ≤ dd) : sortCoord dd (2 * (2 ^ dd - 1) + 2 ^ (dd - 1) - 1) = (0, 2 ^ dd - 1) := by
  have hs := pow_split h1
  have hp := Nat.two_pow_pos (dd - 1)
  rcases sortCoord_cases dd (2 * (2 ^ dd - 1) + 2 ^ (dd - 1) - 1) with
    ⟨_, _⟩ | ⟨_, _, _⟩ | ⟨_, _, _⟩ | ⟨_, _, e⟩ | ⟨_, _, _⟩ | ⟨_, _⟩
  case inr.inr.inr.inl => rw [e]; congr 1; omega
  all_goals omega

theorem sc_north (dd : Nat) (h1 : 1 ≤ dd) : sortCoord dd (4 * (2 ^ dd - 1) - 1) = (2 ^ dd - 1, 2 ^ dd - 1) := by
  have hs := pow_split h1
  have hp := Nat.two_pow_pos (dd - 1)
  rcases sortCoord_cases dd (4 * (2 ^ dd - 1) - 1) with
    ⟨_, _⟩ | ⟨_, _, _⟩ | ⟨_, _, _⟩ | ⟨_, _, _⟩ | ⟨_, _, _⟩ | ⟨_, e⟩
  case inr.inr.inr.inr.inr =>
    rw [e, show 4 * (2 ^ dd - 1) - 1 - (4 * (2 ^ dd - 1) - 1) = 0 by omega, q0_zero]
    rfl
  all_goals omega

/-! ## the array writes -/

/-- the checked array write of the model (`none` = index out of range = panic) -/
def setOpt (a : Array Nat) (k v : Nat) : Option (Array Nat) := if k < a.size then some (a.set! k v) else none

/-- value expected at position `t` of the result -/
def sortVal (hash dd t : Nat) : Nat := cellVal hash dd (sortCoord dd t)

/-- the array has the final size and every position in `P` already holds its final value -/
def Good (S : Nat) (T : Nat → Nat) (P : Nat → Prop) (a : Array Nat) : Prop :=
  a.size = S ∧ ∀ t, P t → a[t]? = some (T t)

theorem write_good {S : Nat} {T : Nat → Nat} {P : Nat → Prop} {a : Array Nat} (g : Good S T P a) (p v : Nat)
    (hp : p < S) (hv : v = T p) : ∃ a', setOpt a p v = some a' ∧ Good S T (fun t => P t ∨ t = p) a' := by
  refine ⟨a.set! p v, by simp [setOpt, g.1, hp], by simp [g.1], ?_⟩
  intro t ht
  rw [Array.set!_eq_setIfInBounds, Array.getElem?_setIfInBounds]
  by_cases e : p = t
  · subst e; simp [g.1, hp, hv]
  · rw [if_neg e]
    rcases ht with h | h
    · exact g.2 t h
    · omega

theorem Good.mono {S : Nat} {T : Nat → Nat} {P Q : Nat → Prop} {a : Array Nat} (g : Good S T P a)
    (h : ∀ t, Q t → P t) : Good S T Q a := ⟨g.1, fun t ht => g.2 t (h t ht)⟩

/-- positions written before the loop reaches `x = X`: the four corners, and eight positions per earlier `x` -/
def covered (dd X t : Nat) : Prop :=
  t = 0 ∨ t = 2 ^ dd - 1 + 2 ^ (dd - 1) - 1 ∨ t = 2 * (2 ^ dd - 1) + 2 ^ (dd - 1) - 1 ∨ t = 4 * (2 ^ dd - 1) - 1 ∨
  ∃ x b, 1 ≤ x ∧ x < X ∧ 2 ^ b ≤ x ∧ x < 2 ^ (b + 1) ∧
    (t = x + 2 ^ b - 1 ∨ t = x + 2 ^ (b + 1) - 1 ∨ t = 2 ^ dd - 1 + 2 ^ (dd - 1) + x - 1 ∨
     t = 2 * (2 ^ dd - 1) + 2 ^ (dd - 1) + x - 1 ∨
     t = 4 * (2 ^ dd - 1) - (x + 2 ^ b) ∨ t = 4 * (2 ^ dd - 1) - (x + 2 ^ (b + 1)) ∨
     t = 4 * (2 ^ dd - 1) - (2 ^ dd - 1 + 2 ^ (dd - 1) + x) ∨
     t = 4 * (2 ^ dd - 1) - (2 * (2 ^ dd - 1) + 2 ^ (dd - 1) + x))

theorem covered_succ (dd x b t : Nat) (hb1 : 2 ^ b ≤ x) (hb2 : x < 2 ^ (b + 1)) (h : covered dd (x + 1) t) :
    ((((((((covered dd x t ∨ t = x + 2 ^ b - 1) ∨ t = x + 2 ^ (b + 1) - 1) ∨ t = 2 ^ dd - 1 + 2 ^ (dd - 1) + x - 1) ∨
     t = 2 * (2 ^ dd - 1) + 2 ^ (dd - 1) + x - 1) ∨
     t = 4 * (2 ^ dd - 1) - (x + 2 ^ b)) ∨ t = 4 * (2 ^ dd - 1) - (x + 2 ^ (b + 1))) ∨
     t = 4 * (2 ^ dd - 1) - (2 ^ dd - 1 + 2 ^ (dd - 1) + x)) ∨
     t = 4 * (2 ^ dd - 1) - (2 * (2 ^ dd - 1) + 2 ^ (dd - 1) + x)) := by
  rcases h with h | h | h | h | ⟨x', b', hx1, hx2, hb1', hb2', h⟩
  · simp [covered, h]
  · simp [covered, h]
  · simp [covered, h]
  · simp [covered, h]
  · by_cases hxx : x' = x
    · subst hxx
      have := bracket_unique hb1 hb2 hb1' hb2'
      subst this
      rcases h with h | h | h | h | h | h | h | h <;> simp [h]
    · have : covered dd x t := Or.inr (Or.inr (Or.inr (Or.inr ⟨x', b', hx1, by omega, hb1', hb2', h⟩)))
      simp [this]

/-! ## the values written -/

section values
variable (cfg : Cfg) (hbmi : cfg.bmi = false) (c : ZocClass) (dd x : Nat) (hdc : dd ≤ c.bits) (hx : x < 2 ^ dd)
include hx

theorem and_xmask : interleave x (2 ^ dd - 1 - x) &&& interleave (2 ^ dd - 1) 0 = interleave x 0 := by
  rw [interleave_and, Nat.and_two_pow_sub_one_eq_mod, Nat.mod_eq_of_lt hx, Nat.and_zero]

theorem and_ymask : interleave x (2 ^ dd - 1 - x) &&& interleave 0 (2 ^ dd - 1) = interleave 0 (2 ^ dd - 1 - x) := by
  rw [interleave_and, Nat.and_two_pow_sub_one_eq_mod, Nat.mod_eq_of_lt (by omega), Nat.and_zero]

include hbmi hdc in
theorem ij2h_val : Layer.ij2h cfg c x (2 ^ dd - 1 - x) = interleave x (2 ^ dd - 1 - x) := by
  simp only [Layer.ij2h, hbmi]
  exact lut_ij2h_interleave c _ _ (pow_le_bits hdc hx) (pow_le_bits hdc (by omega))

end values

/-! ## the loop -/

/-- loop invariant: `lim = 2^(b+1)` is the end of the current z-order block, `k0..k3` are the next positions of the four
    forward runs, and everything written so far is final -/
def Inv (hash dd : Nat) (st : IesSt) : Prop :=
  ∃ b, st.lim = 2 ^ (b + 1) ∧ 2 ^ b ≤ st.x ∧ st.x < 2 ^ (b + 1) ∧ st.x ≤ 2 ^ (dd - 1) ∧
    st.k0 = st.x + 2 ^ b - 1 ∧ st.k1 = st.x + 2 ^ (b + 1) - 1 ∧
    st.k2 = 2 ^ dd - 1 + 2 ^ (dd - 1) + st.x - 1 ∧ st.k3 = 2 * (2 ^ dd - 1) + 2 ^ (dd - 1) + st.x - 1 ∧
    Good (4 * (2 ^ dd - 1)) (sortVal hash dd) (covered dd st.x) st.res

theorem loop_spec (cfg : Cfg) (hbmi : cfg.bmi = false) (c : ZocClass) (hash dd : Nat) (h1 : 1 ≤ dd) (hd : dd ≤ 29)
    (hdc : dd ≤ c.bits) (fuel : Nat) (st : IesSt) (hinv : Inv hash dd st) (hf : 2 ^ (dd - 1) ≤ st.x + fuel) :
    ∃ out, internalEdgeSorted.loop cfg c (interleave (2 ^ dd - 1) 0) (interleave 0 (2 ^ dd - 1)) (hash * 4 ^ dd)
        (2 ^ dd - 1) (2 ^ (dd - 1)) (4 * (2 ^ dd - 1)) setOpt fuel st = some out ∧
      Good (4 * (2 ^ dd - 1)) (sortVal hash dd) (covered dd (2 ^ (dd - 1))) out := by
  induction fuel generalizing st with
  | zero =>
    obtain ⟨b, _, _, _, hle, _, _, _, _, g⟩ := hinv
    have : st.x = 2 ^ (dd - 1) := by omega
    rw [this] at g
    exact ⟨st.res, by rw [internalEdgeSorted.loop], g⟩
  | succ fuel ih =>
    obtain ⟨x, lim, k0, k1, k2, k3, res⟩ := st
    obtain ⟨b, hlim, hb1, hb2, hle, hk0, hk1, hk2, hk3, g⟩ := hinv
    simp only at hlim hb1 hb2 hle hk0 hk1 hk2 hk3 g hf
    subst hlim hk0 hk1 hk2 hk3
    rw [internalEdgeSorted.loop]
    by_cases hx : x < 2 ^ (dd - 1)
    · have hs := pow_split h1
      have hl := blk_le dd b x hb1 hx
      have e1 : 2 ^ (b + 1) = 2 * 2 ^ b := by rw [Nat.pow_succ]; omega
      have hp := Nat.two_pow_pos b
      have hxN : x < 2 ^ dd := by omega
      have hd32 : dd ≤ 32 := by omega
      have hmN : 2 ^ dd - 1 < 2 ^ dd := by omega
      have hcx : 2 ^ dd - 1 - x < 2 ^ dd := by omega
      rw [if_neg (by simpa using hx)]
      simp only [ij2h_val cfg hbmi c dd x hdc hxN, and_xmask dd x hxN, and_ymask dd x hxN, interleave_shl,
        interleave_shr]
      rw [if_neg (by omega)]
      have p5 : 4 * (2 ^ dd - 1) - (x + 2 ^ b - 1 + 1) = 4 * (2 ^ dd - 1) - (x + 2 ^ b) := by omega
      have p6 : 4 * (2 ^ dd - 1) - (x + 2 ^ (b + 1) - 1 + 1) = 4 * (2 ^ dd - 1) - (x + 2 ^ (b + 1)) := by omega
      have p7 : 4 * (2 ^ dd - 1) - (2 ^ dd - 1 + 2 ^ (dd - 1) + x - 1 + 1) =
          4 * (2 ^ dd - 1) - (2 ^ dd - 1 + 2 ^ (dd - 1) + x) := by omega
      have p8 : 4 * (2 ^ dd - 1) - (2 * (2 ^ dd - 1) + 2 ^ (dd - 1) + x - 1 + 1) =
          4 * (2 ^ dd - 1) - (2 * (2 ^ dd - 1) + 2 ^ (dd - 1) + x) := by omega
      rw [p5, p6, p7, p8]
      obtain ⟨a1, w1, g1⟩ := write_good g (x + 2 ^ b - 1) (hash * 4 ^ dd ||| interleave x 0) (by omega)
        (by rw [sortVal, sc_k0 dd b x h1 hb1 hb2 hx]; exact or_cell hash dd x 0 hd32 hxN (by omega))
      obtain ⟨a2, w2, g2⟩ := write_good g1 (x + 2 ^ (b + 1) - 1) (hash * 4 ^ dd ||| interleave 0 x) (by omega)
        (by rw [sortVal, sc_k1 dd b x h1 hb1 hb2 hx]; exact or_cell hash dd 0 x hd32 (by omega) hxN)
      obtain ⟨a3, w3, g3⟩ := write_good g2 (2 ^ dd - 1 + 2 ^ (dd - 1) + x - 1)
        (hash * 4 ^ dd ||| interleave 0 x ||| interleave (2 ^ dd - 1) 0) (by omega)
        (by rw [sortVal, sc_k2 dd b x h1 hb1 hb2 hx]
            exact or_or_cell hash dd 0 x (2 ^ dd - 1) 0 (2 ^ dd - 1) x hd32 hmN hxN (by simp) (by simp))
      obtain ⟨a4, w4, g4⟩ := write_good g3 (2 * (2 ^ dd - 1) + 2 ^ (dd - 1) + x - 1)
        (hash * 4 ^ dd ||| interleave 0 (2 ^ dd - 1) ||| interleave x 0) (by omega)
        (by rw [sortVal, sc_k3 dd b x h1 hb1 hb2 hx]
            exact or_or_cell hash dd 0 (2 ^ dd - 1) x 0 x (2 ^ dd - 1) hd32 hxN hmN (by simp) (by simp))
      obtain ⟨a5, w5, g5⟩ := write_good g4 (4 * (2 ^ dd - 1) - (x + 2 ^ b))
        (hash * 4 ^ dd ||| interleave 0 (2 ^ dd - 1) ||| interleave (2 ^ dd - 1 - x) 0) (by omega)
        (by rw [sortVal, sc_k0' dd b x h1 hb1 hb2 hx]
            exact or_or_cell hash dd 0 (2 ^ dd - 1) (2 ^ dd - 1 - x) 0 (2 ^ dd - 1 - x) (2 ^ dd - 1) hd32 hcx hmN
              (by simp) (by simp))
      obtain ⟨a6, w6, g6⟩ := write_good g5 (4 * (2 ^ dd - 1) - (x + 2 ^ (b + 1)))
        (hash * 4 ^ dd ||| interleave 0 (2 ^ dd - 1 - x) ||| interleave (2 ^ dd - 1) 0) (by omega)
        (by rw [sortVal, sc_k1' dd b x h1 hb1 hb2 hx]
            exact or_or_cell hash dd 0 (2 ^ dd - 1 - x) (2 ^ dd - 1) 0 (2 ^ dd - 1) (2 ^ dd - 1 - x) hd32 hmN hcx
              (by simp) (by simp))
      obtain ⟨a7, w7, g7⟩ := write_good g6 (4 * (2 ^ dd - 1) - (2 ^ dd - 1 + 2 ^ (dd - 1) + x))
        (hash * 4 ^ dd ||| interleave 0 (2 ^ dd - 1 - x)) (by omega)
        (by rw [sortVal, sc_k2' dd b x h1 hb1 hb2 hx]; exact or_cell hash dd 0 _ hd32 (by omega) hcx)
      obtain ⟨a8, w8, g8⟩ := write_good g7 (4 * (2 ^ dd - 1) - (2 * (2 ^ dd - 1) + 2 ^ (dd - 1) + x))
        (hash * 4 ^ dd ||| interleave (2 ^ dd - 1 - x) 0) (by omega)
        (by rw [sortVal, sc_k3' dd b x h1 hb1 hb2 hx]; exact or_cell hash dd _ 0 hd32 hcx (by omega))
      have g' : Good (4 * (2 ^ dd - 1)) (sortVal hash dd) (covered dd (x + 1)) a8 :=
        g8.mono (fun t ht => covered_succ dd x b t hb1 hb2 ht)
      rw [w1, Option.bind_some, w2, Option.bind_some, w3, Option.bind_some, w4, Option.bind_some, w5, Option.bind_some,
        w6, Option.bind_some, w7, Option.bind_some, w8, Option.bind_some]
      by_cases hlim : x + 1 = 2 ^ (b + 1)
      · rw [if_pos hlim]
        have hb' : b + 1 ≤ dd - 1 := (Nat.pow_le_pow_iff_right (a := 2) (by decide)).1 (by omega)
        have e2 : 2 ^ (b + 1 + 1) = 2 * 2 ^ (b + 1) := by rw [Nat.pow_succ]; omega
        have hlt : 2 ^ (b + 1 + 1) < 4294967296 :=
          calc 2 ^ (b + 1 + 1) < 2 ^ 32 := Nat.pow_lt_pow_right (by decide) (by omega)
            _ = 4294967296 := by decide
        have hsh : 2 ^ (b + 1) <<< 1 % 4294967296 = 2 ^ (b + 1 + 1) := by
          rw [Nat.shiftLeft_eq, Nat.pow_one, Nat.mul_comm, ← e2, Nat.mod_eq_of_lt hlt]
        refine ih _ ⟨b + 1, ?_, ?_, ?_, ?_, ?_, ?_, ?_, ?_, g'⟩ ?_ <;> dsimp only <;> omega
      · rw [if_neg hlim]
        refine ih _ ⟨b, ?_, ?_, ?_, ?_, ?_, ?_, ?_, ?_, g'⟩ ?_ <;> dsimp only <;> omega
    · have hxe : x = 2 ^ (dd - 1) := by omega
      rw [hxe] at g
      exact ⟨res, by simp only [hx]; rfl, g⟩

/-! ## every position is written -/

theorem in_q0 (dd t : Nat) (h1 : 1 ≤ dd) (ht : t < 2 ^ dd - 1) :
    t = 0 ∨ ∃ x b, 1 ≤ x ∧ x < 2 ^ (dd - 1) ∧ 2 ^ b ≤ x ∧ x < 2 ^ (b + 1) ∧ (t = x + 2 ^ b - 1 ∨ t = x + 2 ^ (b + 1) - 1) := by
  have hs := pow_split h1
  rcases q0_cases t with h | ⟨b, x, hb1, hb2, h⟩
  · left; exact h
  right
  have hp := Nat.two_pow_pos b
  have e1 : 2 ^ (b + 1) = 2 * 2 ^ b := by rw [Nat.pow_succ]; omega
  refine ⟨x, b, by omega, ?_, hb1, hb2, h⟩
  apply Classical.byContradiction
  intro hge
  have hlt : 2 ^ (dd - 1) < 2 ^ (b + 1) := by omega
  have h2 := pow_succ_le_of_lt hlt
  have e3 : 2 ^ (dd - 1 + 1) = 2 * 2 ^ (dd - 1) := by rw [Nat.pow_succ]; omega
  omega

theorem covered_all (dd t : Nat) (h1 : 1 ≤ dd) (ht : t < 4 * (2 ^ dd - 1)) : covered dd (2 ^ (dd - 1)) t := by
  have hs := pow_split h1
  have hH := Nat.two_pow_pos (dd - 1)
  unfold covered
  by_cases c1 : t < 2 ^ dd - 1
  · rcases in_q0 dd t h1 c1 with h | ⟨x, b, hx1, hx2, hb1, hb2, h⟩
    · left; exact h
    · right; right; right; right
      refine ⟨x, b, hx1, hx2, hb1, hb2, ?_⟩
      rcases h with h | h
      · left; exact h
      · right; left; exact h
  by_cases c2 : t < 2 ^ dd - 1 + 2 ^ (dd - 1)
  · by_cases c2' : t = 2 ^ dd - 1 + 2 ^ (dd - 1) - 1
    · right; left; exact c2'
    · right; right; right; right
      obtain ⟨b, hb1, hb2⟩ := exists_pow_bracket (2 ^ dd - 1 + 2 ^ (dd - 1) - 1 - t) (by omega)
      refine ⟨_, b, by omega, by omega, hb1, hb2, ?_⟩
      right; right; right; right; right; right; right; omega
  by_cases c3 : t < 2 * (2 ^ dd - 1)
  · right; right; right; right
    obtain ⟨b, hb1, hb2⟩ := exists_pow_bracket (t - (2 ^ dd - 1 + 2 ^ (dd - 1)) + 1) (by omega)
    refine ⟨_, b, by omega, by omega, hb1, hb2, ?_⟩
    right; right; left; omega
  by_cases c4 : t < 2 * (2 ^ dd - 1) + 2 ^ (dd - 1)
  · by_cases c4' : t = 2 * (2 ^ dd - 1) + 2 ^ (dd - 1) - 1
    · right; right; left; exact c4'
    · right; right; right; right
      obtain ⟨b, hb1, hb2⟩ := exists_pow_bracket (2 * (2 ^ dd - 1) + 2 ^ (dd - 1) - 1 - t) (by omega)
      refine ⟨_, b, by omega, by omega, hb1, hb2, ?_⟩
      right; right; right; right; right; right; left; omega
  by_cases c5 : t < 3 * (2 ^ dd - 1)
  · right; right; right; right
    obtain ⟨b, hb1, hb2⟩ := exists_pow_bracket (t - (2 * (2 ^ dd - 1) + 2 ^ (dd - 1)) + 1) (by omega)
    refine ⟨_, b, by omega, by omega, hb1, hb2, ?_⟩
    right; right; right; left; omega
  · rcases in_q0 dd (4 * (2 ^ dd - 1) - 1 - t) h1 (by omega) with h | ⟨x, b, hx1, hx2, hb1, hb2, h⟩
    · right; right; right; left; omega
    · right; right; right; right
      have hp := Nat.two_pow_pos b
      refine ⟨x, b, hx1, hx2, hb1, hb2, ?_⟩
      rcases h with h | h
      · right; right; right; right; left; omega
      · right; right; right; right; right; left; omega

/-! ## `internal_edge_sorted` as an explicit list -/

theorem setOpt_fold (a : Array Nat) (k v : Nat) : (if k < a.size then some (a.set! k v) else none) = setOpt a k v := rfl

theorem internalEdgeSorted_spec (cfg : Cfg) (hbmi : cfg.bmi = false) (hash dd : Nat) (h1 : 1 ≤ dd) (hd : dd ≤ 29)
    (hh : hash < 2 ^ (64 - 2 * dd)) : internalEdgeSorted cfg hash dd = some (sortedList hash dd) := by
  obtain ⟨c, hc, hdc⟩ := zoc_lut cfg hbmi dd hd
  have hd32 : dd ≤ 32 := by omega
  have hs := pow_split h1
  have hH := Nat.two_pow_pos (dd - 1)
  have hmN : 2 ^ dd - 1 < 2 ^ dd := by omega
  have n2 : 2 ^ dd >>> 1 = 2 ^ (dd - 1) := by rw [Nat.shiftRight_eq_div_pow]; omega
  have n3 : (2 ^ dd - 1) <<< 2 = 4 * (2 ^ dd - 1) := by rw [Nat.shiftLeft_eq]; omega
  have n4 : (2 ^ dd - 1) <<< 1 = 2 * (2 ^ dd - 1) := by rw [Nat.shiftLeft_eq]; omega
  unfold internalEdgeSorted
  rw [hc, xMask_spec cfg dd h1 hd32]
  simp only [Option.bind_eq_bind, Option.bind_some, interleave_shl, hash_shl hash dd hh hd32, Nat.one_shiftLeft, n2, n3,
    n4, setOpt_fold]
  have g0 : Good (4 * (2 ^ dd - 1)) (sortVal hash dd) (fun _ => False) (Array.replicate (4 * (2 ^ dd - 1)) 0) :=
    ⟨Array.size_replicate, fun t ht => ht.elim⟩
  obtain ⟨r1, w1, g1⟩ := write_good g0 0 (hash * 4 ^ dd) (by omega)
    (by rw [sortVal, sc_south dd h1]; simp [cellVal, interleave])
  obtain ⟨r2, w2, g2⟩ := write_good g1 (2 ^ dd - 1 + 2 ^ (dd - 1) - 1) (hash * 4 ^ dd ||| interleave (2 ^ dd - 1) 0)
    (by omega) (by rw [sortVal, sc_east dd h1]; exact or_cell hash dd _ 0 hd32 hmN (by omega))
  obtain ⟨r3, w3, g3⟩ := write_good g2 (2 * (2 ^ dd - 1) + 2 ^ (dd - 1) - 1)
    (hash * 4 ^ dd ||| interleave 0 (2 ^ dd - 1)) (by omega)
    (by rw [sortVal, sc_west dd h1]; exact or_cell hash dd 0 _ hd32 (by omega) hmN)
  obtain ⟨r4, w4, g4⟩ := write_good g3 (4 * (2 ^ dd - 1) - 1)
    (hash * 4 ^ dd ||| interleave 0 (2 ^ dd - 1) ||| interleave (2 ^ dd - 1) 0) (by omega)
    (by rw [sortVal, sc_north dd h1]
        exact or_or_cell hash dd 0 (2 ^ dd - 1) (2 ^ dd - 1) 0 _ _ hd32 hmN hmN (by simp) (by simp))
  have g' : Good (4 * (2 ^ dd - 1)) (sortVal hash dd) (covered dd 1) r4 := by
    refine g4.mono (fun t ht => ?_)
    rcases ht with h | h | h | h | ⟨x, b, a1, a2, _⟩
    · simp [h]
    · simp [h]
    · simp [h]
    · simp [h]
    · omega
  rw [w1, Option.bind_some, if_neg (by omega), w2, Option.bind_some, w3, Option.bind_some, w4, Option.bind_some]
  obtain ⟨out, hout, gout⟩ := loop_spec cfg hbmi c hash dd h1 hd hdc (2 ^ (dd - 1) + 1)
    { x := 1, lim := 2, k0 := 1, k1 := 2, k2 := 2 ^ dd - 1 + 2 ^ (dd - 1), k3 := 2 * (2 ^ dd - 1) + 2 ^ (dd - 1),
      res := r4 }
    ⟨0, by simp, by simp, by simp, by dsimp only; omega, by simp, by simp, by dsimp only; omega, by dsimp only; omega, g'⟩
    (by dsimp only; omega)
  rw [show (fun (a : Array Nat) k v => setOpt a k v) = setOpt from rfl, hout, Option.bind_some]
  simp only [pure, Option.some.injEq]
  apply List.ext_getElem?
  intro i
  rw [Array.getElem?_toList, sortedList]
  by_cases hi : i < 4 * (2 ^ dd - 1)
  · rw [gout.2 i (covered_all dd i h1 hi)]
    simp [hi, sortVal]
  · have h1' : out[i]? = none := by rw [Array.getElem?_eq_none_iff, gout.1]; omega
    rw [h1', eq_comm, List.getElem?_eq_none_iff]
    simp only [List.length_map, List.length_range]; omega

end Hpx.EdgeInternal
