/-
C14 (internal part), sorted variant: `internal_edge_sorted` returns, for every `delta_depth`, the strictly increasing
enumeration of the ring of border descendants — a permutation of the result of `internal_edge`.
-/
import Mathlib.Data.List.Perm.Subperm
import HpxVerif.Lemmas.EdgeInternal

namespace Hpx.EdgeInternal
open Hpx Hpx.Topo

/-! ## arithmetic of the bit spreading -/

/-- `sp x = interleave x 0`: the bits of `x` on the even positions -/
abbrev sp (x : Nat) : Nat := spreadN 32 x

theorem spreadN_mono (k x x' : Nat) (h : x < x') (hx' : x' < 2 ^ k) : spreadN k x < spreadN k x' := by
  induction k generalizing x x' with
  | zero => simp at hx'; omega
  | succ k ih =>
    simp only [spreadN]
    rw [Nat.pow_succ] at hx'
    by_cases hq : x / 2 < x' / 2
    · have := ih (x / 2) (x' / 2) hq (by omega)
      omega
    · have : x / 2 = x' / 2 := by omega
      rw [this]; omega

theorem sp_mono {x x' : Nat} (h : x < x') (hx' : x' < 2 ^ 32) : sp x < sp x' := spreadN_mono 32 x x' h hx'

theorem spreadN_two_pow (k b : Nat) (hb : b < k) : spreadN k (2 ^ b) = 4 ^ b := by
  induction k generalizing b with
  | zero => omega
  | succ k ih =>
    simp only [spreadN]
    cases b with
    | zero => simp
    | succ b =>
      have h1 : 2 ^ (b + 1) % 2 = 0 := by rw [Nat.pow_succ]; omega
      have h2 : 2 ^ (b + 1) / 2 = 2 ^ b := by rw [Nat.pow_succ]; omega
      rw [h1, h2, ih b (by omega), Nat.pow_succ]; omega

theorem sp_two_pow {b : Nat} (hb : b < 32) : sp (2 ^ b) = 4 ^ b := spreadN_two_pow 32 b hb

theorem sp_lt {b x : Nat} (hb : b ≤ 32) (hx : x < 2 ^ b) : 3 * sp x < 4 ^ b := by
  unfold sp; rw [spreadN_of_lt hx hb]; exact three_spreadN_lt b x

theorem sp_ge {b x : Nat} (hb : b < 32) (hx : 2 ^ b ≤ x) (hx' : x < 2 ^ 32) : 4 ^ b ≤ sp x := by
  rw [← sp_two_pow hb]
  by_cases h : 2 ^ b = x
  · rw [h]; exact Nat.le_refl _
  · exact Nat.le_of_lt (sp_mono (by omega) hx')

/-- complement: `sp (m − x) = sp m − sp x` for `m = 2^k − 1` -/
theorem spreadN_compl (k x : Nat) (hx : x < 2 ^ k) :
    spreadN k (2 ^ k - 1 - x) + spreadN k x = spreadN k (2 ^ k - 1) := by
  induction k generalizing x with
  | zero => simp [spreadN]
  | succ k ih =>
    simp only [spreadN]
    rw [Nat.pow_succ] at hx ⊢
    have hp := Nat.two_pow_pos k
    have h1 : (2 ^ k * 2 - 1 - x) / 2 = 2 ^ k - 1 - x / 2 := by omega
    have h2 : (2 ^ k * 2 - 1) / 2 = 2 ^ k - 1 - 0 := by omega
    have i1 := ih (x / 2) (by omega)
    have i2 := ih 0 (by omega)
    rw [h1, h2]
    simp only [Nat.sub_zero] at i2 ⊢
    omega

theorem sp_compl {dd x : Nat} (hd : dd ≤ 32) (hx : x < 2 ^ dd) : sp (2 ^ dd - 1 - x) + sp x = sp (2 ^ dd - 1) := by
  have hp := Nat.two_pow_pos dd
  unfold sp
  rw [spreadN_of_lt (show 2 ^ dd - 1 - x < 2 ^ dd by omega) hd, spreadN_of_lt hx hd,
    spreadN_of_lt (show 2 ^ dd - 1 < 2 ^ dd by omega) hd]
  exact spreadN_compl dd x hx

theorem sp_zero : sp 0 = 0 := spreadN_zero 32

theorem cellVal_eq (hash dd x y : Nat) : cellVal hash dd (x, y) = hash * 4 ^ dd + (sp x + 2 * sp y) := by
  simp only [cellVal, interleave_eq_add]

/-! ## the sorted enumeration of the ring, by position -/

/-- south quadrant (`x, y < N/2`): position `t` ↦ coordinates.  `(0,0)` first, then for each `b` the block
    `(2^b .. 2^(b+1)−1, 0)` followed by the block `(0, 2^b .. 2^(b+1)−1)` -/
def q0 (t : Nat) : Nat × Nat :=
  if t = 0 then (0, 0) else
  let q := 2 ^ Nat.log2 (t + 1)
  if t + 1 < q + q / 2 then (t + 1 - q / 2, 0) else (0, t + 1 - q)

theorem exists_pow_bracket (x : Nat) (hx : 1 ≤ x) : ∃ b, 2 ^ b ≤ x ∧ x < 2 ^ (b + 1) :=
  ⟨Nat.log2 x, (Nat.log2_eq_iff (by omega)).1 rfl⟩

theorem q0_zero : q0 0 = (0, 0) := by simp [q0]

theorem q0_x (b x : Nat) (h1 : 2 ^ b ≤ x) (h2 : x < 2 ^ (b + 1)) : q0 (x + 2 ^ b - 1) = (x, 0) := by
  have hp := Nat.two_pow_pos b
  have e1 : 2 ^ (b + 1) = 2 * 2 ^ b := by rw [Nat.pow_succ]; omega
  have e2 : 2 ^ (b + 1 + 1) = 4 * 2 ^ b := by rw [Nat.pow_succ, Nat.pow_succ]; omega
  have hl : Nat.log2 (x + 2 ^ b - 1 + 1) = b + 1 := (Nat.log2_eq_iff (by omega)).2 ⟨by omega, by omega⟩
  unfold q0
  rw [if_neg (by omega)]
  simp only [hl]
  rw [if_pos (by omega)]
  congr 1; omega

theorem q0_y (b y : Nat) (h1 : 2 ^ b ≤ y) (h2 : y < 2 ^ (b + 1)) : q0 (y + 2 ^ (b + 1) - 1) = (0, y) := by
  have hp := Nat.two_pow_pos b
  have e1 : 2 ^ (b + 1) = 2 * 2 ^ b := by rw [Nat.pow_succ]; omega
  have e2 : 2 ^ (b + 1 + 1) = 4 * 2 ^ b := by rw [Nat.pow_succ, Nat.pow_succ]; omega
  have hl : Nat.log2 (y + 2 ^ (b + 1) - 1 + 1) = b + 1 := (Nat.log2_eq_iff (by omega)).2 ⟨by omega, by omega⟩
  unfold q0
  rw [if_neg (by omega)]
  simp only [hl]
  rw [if_neg (by omega)]
  congr 1; omega

/-- every position of the south quadrant is `0`, or an `x`-block position, or a `y`-block position -/
theorem q0_cases (t : Nat) : t = 0 ∨ ∃ b x, 2 ^ b ≤ x ∧ x < 2 ^ (b + 1) ∧ (t = x + 2 ^ b - 1 ∨ t = x + 2 ^ (b + 1) - 1) := by
  by_cases h0 : t = 0
  · left; exact h0
  right
  obtain ⟨k, hk1, hk2⟩ := exists_pow_bracket (t + 1) (by omega)
  cases k with
  | zero => simp at hk2; omega
  | succ b =>
    have hp := Nat.two_pow_pos b
    have e1 : 2 ^ (b + 1) = 2 * 2 ^ b := by rw [Nat.pow_succ]; omega
    have e2 : 2 ^ (b + 1 + 1) = 4 * 2 ^ b := by rw [Nat.pow_succ, Nat.pow_succ]; omega
    by_cases hc : t + 1 < 3 * 2 ^ b
    · exact ⟨b, t + 1 - 2 ^ b, by omega, by omega, Or.inl (by omega)⟩
    · exact ⟨b, t + 1 - 2 ^ (b + 1), by omega, by omega, Or.inr (by omega)⟩

/-- coordinates of element number `t` of `internal_edge_sorted` (`t < 4(N−1)`), `M = N−1`, `H = N/2`:
    south quadrant `q0`; east quadrant `(H..M, 0)` then `(M, 1..H−1)`; west quadrant `(0, H..M)` then `(1..H−1, M)`;
    north quadrant = the south quadrant mirrored, backwards -/
def sortCoord (dd t : Nat) : Nat × Nat :=
  let m := 2 ^ dd - 1
  let hf := 2 ^ (dd - 1)
  if t < m then q0 t
  else if t < m + hf then (t - m + hf, 0)
  else if t < 2 * m then (m, t - (m + hf) + 1)
  else if t < 2 * m + hf then (0, t - 2 * m + hf)
  else if t < 3 * m then (t - (2 * m + hf) + 1, m)
  else (m - (q0 (4 * m - 1 - t)).1, m - (q0 (4 * m - 1 - t)).2)

theorem sortCoord_cases (dd t : Nat) :
    (t < 2 ^ dd - 1 ∧ sortCoord dd t = q0 t) ∨
    (2 ^ dd - 1 ≤ t ∧ t < 2 ^ dd - 1 + 2 ^ (dd - 1) ∧ sortCoord dd t = (t - (2 ^ dd - 1) + 2 ^ (dd - 1), 0)) ∨
    (2 ^ dd - 1 + 2 ^ (dd - 1) ≤ t ∧ t < 2 * (2 ^ dd - 1) ∧
      sortCoord dd t = (2 ^ dd - 1, t - (2 ^ dd - 1 + 2 ^ (dd - 1)) + 1)) ∨
    (2 * (2 ^ dd - 1) ≤ t ∧ t < 2 * (2 ^ dd - 1) + 2 ^ (dd - 1) ∧
      sortCoord dd t = (0, t - 2 * (2 ^ dd - 1) + 2 ^ (dd - 1))) ∨
    (2 * (2 ^ dd - 1) + 2 ^ (dd - 1) ≤ t ∧ t < 3 * (2 ^ dd - 1) ∧
      sortCoord dd t = (t - (2 * (2 ^ dd - 1) + 2 ^ (dd - 1)) + 1, 2 ^ dd - 1)) ∨
    (3 * (2 ^ dd - 1) ≤ t ∧ sortCoord dd t =
      (2 ^ dd - 1 - (q0 (4 * (2 ^ dd - 1) - 1 - t)).1, 2 ^ dd - 1 - (q0 (4 * (2 ^ dd - 1) - 1 - t)).2)) := by
  simp only [sortCoord]
  by_cases c1 : t < 2 ^ dd - 1
  · left; exact ⟨c1, by rw [if_pos c1]⟩
  by_cases c2 : t < 2 ^ dd - 1 + 2 ^ (dd - 1)
  · right; left; exact ⟨by omega, c2, by rw [if_neg c1, if_pos c2]⟩
  by_cases c3 : t < 2 * (2 ^ dd - 1)
  · right; right; left; exact ⟨by omega, c3, by rw [if_neg c1, if_neg c2, if_pos c3]⟩
  by_cases c4 : t < 2 * (2 ^ dd - 1) + 2 ^ (dd - 1)
  · right; right; right; left; exact ⟨by omega, c4, by rw [if_neg c1, if_neg c2, if_neg c3, if_pos c4]⟩
  by_cases c5 : t < 3 * (2 ^ dd - 1)
  · right; right; right; right; left
    exact ⟨by omega, c5, by rw [if_neg c1, if_neg c2, if_neg c3, if_neg c4, if_pos c5]⟩
  · right; right; right; right; right
    exact ⟨by omega, by rw [if_neg c1, if_neg c2, if_neg c3, if_neg c4, if_neg c5]⟩

/-- the explicit sorted ring -/
def sortedList (hash dd : Nat) : List Nat :=
  (List.range (4 * (2 ^ dd - 1))).map fun t => cellVal hash dd (sortCoord dd t)

end Hpx.EdgeInternal
