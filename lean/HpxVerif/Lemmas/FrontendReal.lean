/-
C02: over the reals the front end of `hash` produces `h + l`, `h − l` in `[0, 2]` — the hypothesis "patterns small" of the
bit-level prefix theorem holds for the exact values.
-/
import HpxVerif.Lemmas.HashReal2

namespace Hpx.HashReal
open Hpx Hpx.Hash Real

theorem frontend_small_real (lon lat : ℝ) (hlon : |lon| < 64 * π) (hl1 : -(π / 2) ≤ lat) (hl2 : lat ≤ π / 2) :
    0 ≤ (d0hLhInD0c (α := ℝ) lon lat).2.2 + (d0hLhInD0c (α := ℝ) lon lat).2.1 ∧
    (d0hLhInD0c (α := ℝ) lon lat).2.2 + (d0hLhInD0c (α := ℝ) lon lat).2.1 ≤ 2 ∧
    0 ≤ (d0hLhInD0c (α := ℝ) lon lat).2.2 - (d0hLhInD0c (α := ℝ) lon lat).2.1 ∧
    (d0hLhInD0c (α := ℝ) lon lat).2.2 - (d0hLhInD0c (α := ℝ) lon lat).2.1 ≤ 2 := by
  obtain ⟨k, hk, h1, h2, hx, _⟩ := xpm1AndQ_real lon (lon_bound lon hlon)
  have hq : (xpm1AndQ (α := ℝ) lon).2 < 4 := by
    rw [hx]; split <;> simp only [] <;> omega
  rw [d0hLhInD0c_eq lon lat hq]
  have hb : -1 ≤ (xpm1AndQ (α := ℝ) lon).1 ∧ (xpm1AndQ (α := ℝ) lon).1 ≤ 1 := by
    rw [hx]; split <;> simp only [] <;> constructor <;> linarith
  obtain ⟨_, a, b, c, d, _⟩ := parts_geom _ _ lat hb.1 hb.2 hq hl1 hl2
  exact ⟨a, b, c, d⟩

end Hpx.HashReal
