import HpxVerif.Lemmas.BmocSem

/-! `and`: three-valued semantics and well-formedness, for all pairs of well-formed operands. -/

namespace Hpx.Bmoc

@[simp] theorem tri_min_abs_left (t : Tri) : Tri.min .abs t = .abs := by cases t <;> rfl
@[simp] theorem tri_min_abs_right (t : Tri) : Tri.min t .abs = .abs := by cases t <;> rfl
theorem tri_min_flags (a b : Bool) : Tri.min (Tri.ofFlag a) (Tri.ofFlag b) = Tri.ofFlag (b && a) := by
  cases a <;> cases b <;> rfl

theorem st_facts {D : Nat} {c : Cell} {l : List Cell} (h : WF D (c :: l)) (x : Nat) :
    (x < lo D c → stOf D (c :: l) x = .abs) ∧ (x < hi D c → stOf D l x = .abs) := by
  have hlh := lo_lt_hi D c
  constructor
  · intro hx
    apply stOf_absent_of_lt
    intro c' hc'
    rcases List.mem_cons.1 hc' with rfl | hc'
    · exact hx
    · have := h.lo_ge c' hc'; omega
  · intro hx
    apply stOf_absent_of_lt
    intro c' hc'
    have := h.lo_ge c' hc'; omega

theorem cmp_same {D : Nat} {l r : Cell} (hd : l.depth = r.depth) (hD : r.depth ≤ D) :
    (l.hash < r.hash ↔ hi D l ≤ lo D r) ∧ (r.hash < l.hash ↔ hi D r ≤ lo D l) ∧
    (l.hash = r.hash ↔ lo D l ≤ lo D r ∧ hi D r ≤ hi D l) := by
  have h1 := @cmp_lt_iff D l r (Nat.le_of_eq hd) hD
  have h2 := @cmp_gt_iff D l r (Nat.le_of_eq hd) hD
  have h3 := @cmp_eq_iff D l r (Nat.le_of_eq hd) hD
  have : r.depth - l.depth = 0 := by omega
  simp only [this, Nat.zero_shiftLeft, Nat.shiftRight_zero] at h1 h2 h3
  exact ⟨h1, h2, h3⟩

theorem lo_mk (D d h : Nat) (f : Bool) : lo D { depth := d, hash := h, full := f } = h * 4 ^ (D - d) := rfl
theorem hi_mk (D d h : Nat) (f : Bool) : hi D { depth := d, hash := h, full := f } = (h + 1) * 4 ^ (D - d) := rfl

theorem and_sem (D : Nat) (a b : List Cell) (ha : WF D a) (hb : WF D b) (x : Nat) :
    stOf D (andCells a b) x = Tri.min (stOf D a x) (stOf D b x) := by
  fun_induction andCells a b with
  | case1 r => simp [stOf]
  | case2 l hl => simp [stOf]
  | case3 l ls r rs hd hr hlt ih =>
    have h1 := (cmp_lt_iff (D := D) (Nat.le_of_lt hd) hb.1).1 hlt
    have fl := st_facts ha x; have fr := st_facts hb x
    have := lo_lt_hi D l; have := lo_lt_hi D r
    rw [ih ha.tail hb, stOf_cons D l ls x]
    grind [tri_min_abs_right]
  | case4 l ls r rs hd hr hlt hgt ih =>
    have h1 := (cmp_gt_iff (D := D) (Nat.le_of_lt hd) hb.1).1 hgt
    have fl := st_facts ha x; have fr := st_facts hb x
    have := lo_lt_hi D l; have := lo_lt_hi D r
    rw [ih ha hb.tail, stOf_cons D r rs x]
    grind [tri_min_abs_left]
  | case5 l ls r rs hd hr hlt hgt ih =>
    have he : l.hash = hr := by omega
    have h1 := (cmp_eq_iff (D := D) (Nat.le_of_lt hd) hb.1).1 he
    have fl := st_facts ha x; have fr := st_facts hb x
    have := lo_lt_hi D l; have := lo_lt_hi D r
    have e1 : lo D { depth := r.depth, hash := r.hash, full := r.full && l.full } = lo D r := rfl
    have e2 : hi D { depth := r.depth, hash := r.hash, full := r.full && l.full } = hi D r := rfl
    rw [stOf_cons, ih ha hb.tail, stOf_cons D r rs x, stOf_cons D l ls x]
    grind [tri_min_flags]
  | case6 l ls r rs hd hd' hl hlt ih =>
    have h1 := (cmp_gt_iff (D := D) (Nat.le_of_lt hd') ha.1).1 hlt
    have fl := st_facts ha x; have fr := st_facts hb x
    have := lo_lt_hi D l; have := lo_lt_hi D r
    rw [ih ha.tail hb, stOf_cons D l ls x]
    grind [tri_min_abs_right]
  | case7 l ls r rs hd hd' hl hlt hgt ih =>
    have h1 := (cmp_lt_iff (D := D) (Nat.le_of_lt hd') ha.1).1 hgt
    have fl := st_facts ha x; have fr := st_facts hb x
    have := lo_lt_hi D l; have := lo_lt_hi D r
    rw [ih ha hb.tail, stOf_cons D r rs x]
    grind [tri_min_abs_left]
  | case8 l ls r rs hd hd' hl hlt hgt ih =>
    have he : r.hash = hl := by omega
    have h1 := (cmp_eq_iff (D := D) (Nat.le_of_lt hd') ha.1).1 he
    have fl := st_facts ha x; have fr := st_facts hb x
    have := lo_lt_hi D l; have := lo_lt_hi D r
    have e1 : lo D { depth := l.depth, hash := l.hash, full := r.full && l.full } = lo D l := rfl
    have e2 : hi D { depth := l.depth, hash := l.hash, full := r.full && l.full } = hi D l := rfl
    rw [stOf_cons, ih ha.tail hb, stOf_cons D r rs x, stOf_cons D l ls x]
    grind [tri_min_flags]
  | case9 l ls r rs hd hd' hlt ih =>
    have hde : l.depth = r.depth := by omega
    have h1 := (cmp_same (D := D) hde hb.1).1.1 hlt
    have fl := st_facts ha x; have fr := st_facts hb x
    have := lo_lt_hi D l; have := lo_lt_hi D r
    rw [ih ha.tail hb, stOf_cons D l ls x]
    grind [tri_min_abs_right]
  | case10 l ls r rs hd hd' hlt hgt ih =>
    have hde : l.depth = r.depth := by omega
    have h1 := (cmp_same (D := D) hde hb.1).2.1.1 hgt
    have fl := st_facts ha x; have fr := st_facts hb x
    have := lo_lt_hi D l; have := lo_lt_hi D r
    rw [ih ha hb.tail, stOf_cons D r rs x]
    grind [tri_min_abs_left]
  | case11 l ls r rs hd hd' hlt hgt ih =>
    have hde : l.depth = r.depth := by omega
    have he : l.hash = r.hash := by omega
    have h1 := (cmp_same (D := D) hde hb.1).2.2.1 he
    have fl := st_facts ha x; have fr := st_facts hb x
    have := lo_lt_hi D l; have := lo_lt_hi D r
    have e1 : lo D { depth := l.depth, hash := l.hash, full := r.full && l.full } = lo D l := rfl
    have e2 : hi D { depth := l.depth, hash := l.hash, full := r.full && l.full } = hi D l := rfl
    have e3 : hi D l = hi D r := by unfold hi; rw [hde, he]
    have e4 : lo D l = lo D r := by unfold lo; rw [hde, he]
    rw [stOf_cons, ih ha.tail hb.tail, stOf_cons D r rs x, stOf_cons D l ls x]
    grind [tri_min_flags]

def InsideSome (D : Nat) (c : Cell) (l : List Cell) : Prop := ∃ c' ∈ l, lo D c' ≤ lo D c ∧ hi D c ≤ hi D c'

theorem InsideSome.cons {D c l} (c0 : Cell) (h : InsideSome D c l) : InsideSome D c (c0 :: l) := by
  obtain ⟨c', hm, h1⟩ := h
  exact ⟨c', List.mem_cons_of_mem _ hm, h1⟩

theorem InsideSome.head {D : Nat} {c c0 : Cell} {l : List Cell} (h1 : lo D c0 ≤ lo D c) (h2 : hi D c ≤ hi D c0) :
    InsideSome D c (c0 :: l) := ⟨c0, by simp, h1, h2⟩

/-- everything inside some cell of the tail of a WF list starts at or after the head's end -/
theorem InsideSome.ge_hi {D c c0 l} (hw : WF D (c0 :: l)) (h : InsideSome D c l) : hi D c0 ≤ lo D c := by
  obtain ⟨c', hm, h1, _⟩ := h
  have := hw.lo_ge c' hm
  omega

theorem and_wf_inside (D : Nat) (a b : List Cell) (ha : WF D a) (hb : WF D b) :
    WF D (andCells a b) ∧ ∀ c ∈ andCells a b, InsideSome D c a ∧ InsideSome D c b := by
  fun_induction andCells a b with
  | case1 r => simp [WF]
  | case2 l hl => simp [WF]
  | case3 l ls r rs hd hr hlt ih =>
    obtain ⟨w, ins⟩ := ih ha.tail hb
    exact ⟨w, fun c hc => ⟨(ins c hc).1.cons l, (ins c hc).2⟩⟩
  | case4 l ls r rs hd hr hlt hgt ih =>
    obtain ⟨w, ins⟩ := ih ha hb.tail
    exact ⟨w, fun c hc => ⟨(ins c hc).1, (ins c hc).2.cons r⟩⟩
  | case5 l ls r rs hd hr hlt hgt ih =>
    have he : l.hash = hr := by omega
    have h1 := (cmp_eq_iff (D := D) (Nat.le_of_lt hd) hb.1).1 he
    obtain ⟨w, ins⟩ := ih ha hb.tail
    refine ⟨⟨hb.1, ?_, w⟩, ?_⟩
    · intro c' hc'
      exact (ins c' hc').2.ge_hi hb
    · intro c hc
      rcases List.mem_cons.1 hc with rfl | hc
      · exact ⟨InsideSome.head h1.1 h1.2, InsideSome.head (Nat.le_refl _) (Nat.le_refl _)⟩
      · exact ⟨(ins c hc).1, (ins c hc).2.cons r⟩
  | case6 l ls r rs hd hd' hl hlt ih =>
    obtain ⟨w, ins⟩ := ih ha.tail hb
    exact ⟨w, fun c hc => ⟨(ins c hc).1.cons l, (ins c hc).2⟩⟩
  | case7 l ls r rs hd hd' hl hlt hgt ih =>
    obtain ⟨w, ins⟩ := ih ha hb.tail
    exact ⟨w, fun c hc => ⟨(ins c hc).1, (ins c hc).2.cons r⟩⟩
  | case8 l ls r rs hd hd' hl hlt hgt ih =>
    have he : r.hash = hl := by omega
    have h1 := (cmp_eq_iff (D := D) (Nat.le_of_lt hd') ha.1).1 he
    obtain ⟨w, ins⟩ := ih ha.tail hb
    refine ⟨⟨ha.1, ?_, w⟩, ?_⟩
    · intro c' hc'
      exact (ins c' hc').1.ge_hi ha
    · intro c hc
      rcases List.mem_cons.1 hc with rfl | hc
      · exact ⟨InsideSome.head (Nat.le_refl _) (Nat.le_refl _), InsideSome.head h1.1 h1.2⟩
      · exact ⟨(ins c hc).1.cons l, (ins c hc).2⟩
  | case9 l ls r rs hd hd' hlt ih =>
    obtain ⟨w, ins⟩ := ih ha.tail hb
    exact ⟨w, fun c hc => ⟨(ins c hc).1.cons l, (ins c hc).2⟩⟩
  | case10 l ls r rs hd hd' hlt hgt ih =>
    obtain ⟨w, ins⟩ := ih ha hb.tail
    exact ⟨w, fun c hc => ⟨(ins c hc).1, (ins c hc).2.cons r⟩⟩
  | case11 l ls r rs hd hd' hlt hgt ih =>
    have hde : l.depth = r.depth := by omega
    have he : l.hash = r.hash := by omega
    have e3 : hi D l = hi D r := by unfold hi; rw [hde, he]
    have e4 : lo D l = lo D r := by unfold lo; rw [hde, he]
    obtain ⟨w, ins⟩ := ih ha.tail hb.tail
    refine ⟨⟨ha.1, ?_, w⟩, ?_⟩
    · intro c' hc'
      exact (ins c' hc').1.ge_hi ha
    · intro c hc
      rcases List.mem_cons.1 hc with rfl | hc
      · exact ⟨InsideSome.head (Nat.le_refl _) (Nat.le_refl _), InsideSome.head (Nat.le_of_eq e4.symm) (Nat.le_of_eq e3)⟩
      · exact ⟨(ins c hc).1.cons l, (ins c hc).2.cons r⟩

end Hpx.Bmoc
