/-
C12, composition at `α := ℝ`: the structural theorems on the polygon descent (which hold for every numeric instance)
composed with the meaning of `Polygon::contains` over the reals, stated on the value returned by the top-level model
function `Sph.polygonCoverage` (`polygon_coverage(vertices, exact_solution)`, both modes).

WHAT THE CODE TESTS before it pushes a cell with the "fully covered" flag (`polygon_coverage_recur`, nested/mod.rs):
  1. `is_in_list` is false: no cell of the sorted list (cells of the polygon vertices, plus, in the exact mode, cells of the
     special points of the edges) lies under the cell;
  2. `n_vertices_in_poly == 4`: `Polygon::contains` answers true for the FOUR VERTICES of the cell (`vertices()`, each passed
     through `Coo3D::from_sph_coo`).
  The CENTRE of the cell is NOT tested (nor any other point).  `full_cells_inside_convex` proves 1. and 2. geometrically for
  convex polygons; `PolyCompose3.lean` shows what follows for the centre and for the other points of the cell
  (`PolyCompose2.lean`: the cells of the polygon vertices are kept).
-/
import HpxVerif.Lemmas.PolyLemmas
import HpxVerif.Lemmas.PolyReal6
import HpxVerif.Model.PolyExact

set_option autoImplicit false

namespace Hpx.PolyCompose
open Hpx Hpx.Cover Hpx.Bmoc Hpx.Sph Real Hpx.Proj

theorem ite_none_none {c1 c2 : Prop} [Decidable c1] [Decidable c2] {β : Type} (v ll : β)
    (h : (if c1 then none else if c2 then none else some v) = some ll) : v = ll := by
  split_ifs at h
  exact Option.some.inj h

theorem r_atan2 (y x : ℝ) : Num.atan2 y x = Complex.arg ⟨x, y⟩ := rfl

theorem lonFix (a : ℝ) (h1 : -π < a) (h2 : a ≤ π) :
    let l := (if Num.lt a (Num.zero : ℝ) = true then a + Num.twicePi
      else if (Num.le a (Num.twicePi : ℝ) && Num.le (Num.twicePi : ℝ) a) = true then Num.zero else a)
    (l = a ∨ l = a + 2 * π) ∧ 0 ≤ l ∧ l < 2 * π := by
  have hpi := pi_pos
  simp only [r_lt, r_le, Sph.r_zero, r_twicePi]
  by_cases hn : a < 0
  · simp only [hn, decide_true, if_true]
    exact ⟨by simp, by linarith, by linarith⟩
  · have hc : ¬ (2 * π ≤ a) := by linarith
    simp only [hn, hc, decide_false, Bool.and_false, Bool.false_eq_true, if_false]
    exact ⟨by simp, by linarith, by linarith⟩

theorem lonlatOf_real (dbg : Bool) (x y z : ℝ) (ll : ℝ × ℝ) (h : lonlatOf dbg x y z = some ll) :
    ll.2 = Complex.arg ⟨Real.sqrt (x * x + y * y), z⟩ ∧
    (ll.1 = Complex.arg ⟨x, y⟩ ∨ ll.1 = Complex.arg ⟨x, y⟩ + 2 * π) ∧ 0 ≤ ll.1 ∧ ll.1 < 2 * π := by
  unfold lonlatOf at h
  have h' := ite_none_none _ _ h
  rw [← h']
  exact ⟨rfl, lonFix _ (Complex.neg_pi_lt_arg ⟨x, y⟩) (Complex.arg_le_pi ⟨x, y⟩)⟩

/-- a unit vector of the plane from the argument of the complex number -/
theorem arg_polar (x y : ℝ) : x = Real.sqrt (x * x + y * y) * cos (Complex.arg ⟨x, y⟩) ∧
    y = Real.sqrt (x * x + y * y) * sin (Complex.arg ⟨x, y⟩) := by
  have hn : ‖(⟨x, y⟩ : ℂ)‖ = Real.sqrt (x * x + y * y) := by
    rw [Complex.norm_def, Complex.normSq_mk]
  rw [← hn]
  constructor
  · exact (Complex.norm_mul_cos_arg (⟨x, y⟩ : ℂ)).symm
  · exact (Complex.norm_mul_sin_arg (⟨x, y⟩ : ℂ)).symm

/-- **`Coo3D::from_sph_coo` over the reals, every input**: whatever the position `(lon, lat)` (in or out of the canonical
    ranges), the value returned is a consistent `Coo` (`Valid`) whose unit vector is that of `(lon, lat)`. -/
theorem fromSphCoo_valid (dbg : Bool) (lon lat : ℝ) (c : Coo ℝ) (h : fromSphCoo dbg lon lat = some c) :
    c.Valid ∧ c.x = cos lat * cos lon ∧ c.y = cos lat * sin lon ∧ c.z = sin lat := by
  have hpi := pi_pos
  unfold fromSphCoo vec3Of at h
  simp only [] at h
  split_ifs at h with hr
  · -- out of the canonical ranges: the position is recomputed from the vector
    cases hl : lonlatOf dbg (Num.cos lat * Num.cos lon) (Num.cos lat * Num.sin lon) (Num.sin lat) with
    | none => rw [hl] at h; simp at h
    | some ll =>
      rw [hl] at h
      simp only [Option.map_some] at h
      have hc := Option.some.inj h
      obtain ⟨e2, e1, l0, l1⟩ := lonlatOf_real dbg _ _ _ ll hl
      simp only [r_cos, r_sin] at e1 e2
      set x := cos lat * cos lon with hx
      set y := cos lat * sin lon with hy
      have hxy : x * x + y * y = cos lat * cos lat := by
        rw [hx, hy]; have := sin_sq_add_cos_sq lon; nlinarith
      have hsq : Real.sqrt (x * x + y * y) = |cos lat| := by rw [hxy]; exact Real.sqrt_mul_self_eq_abs _
      obtain ⟨p1, p2⟩ := arg_polar x y
      obtain ⟨q1, q2⟩ := arg_polar (Real.sqrt (x * x + y * y)) (sin lat)
      have hone : Real.sqrt (x * x + y * y) * Real.sqrt (x * x + y * y) + sin lat * sin lat = 1 := by
        rw [hsq, abs_mul_abs_self]; have := sin_sq_add_cos_sq lat; nlinarith
      rw [hone, Real.sqrt_one, one_mul, ← e2] at q1 q2
      have hcl : cos ll.1 = cos (Complex.arg ⟨x, y⟩) ∧ sin ll.1 = sin (Complex.arg ⟨x, y⟩) := by
        rcases e1 with e | e <;> rw [e]
        · exact ⟨rfl, rfl⟩
        · exact ⟨cos_add_two_pi _, sin_add_two_pi _⟩
      have hlat : |ll.2| ≤ π / 2 := by
        rw [e2, Complex.abs_arg_le_pi_div_two_iff]; exact Real.sqrt_nonneg _
      rw [← hc]
      refine ⟨⟨?_, ?_, ?_, l0, l1, (abs_le.mp hlat).1, (abs_le.mp hlat).2⟩, rfl, rfl, rfl⟩
      · show x = cos ll.2 * cos ll.1
        rw [hcl.1, ← q1]; exact p1
      · show y = cos ll.2 * sin ll.1
        rw [hcl.2, ← q1]; exact p2
      · show sin lat = sin ll.2
        exact q2
  · have hc := Option.some.inj h
    simp only [r_lt, r_le, Sph.r_zero, r_twicePi, r_hpi, Bool.or_eq_true, decide_eq_true_eq, not_or, not_lt, not_le] at hr
    obtain ⟨⟨⟨a1, a2⟩, a3⟩, a4⟩ := hr
    rw [← hc]
    exact ⟨⟨rfl, rfl, rfl, a1, a2, a3, a4⟩, rfl, rfl, rfl⟩


/-! ## the pieces of `Props/C12.lean` that are composed here (same statements, every numeric instance) -/

section Generic
variable {α : Type} [Num α]

theorem classifier_skip' (cfg : Cfg) (target : Nat) (poly : Polygon α) (s : List Nat) (d h l : Nat)
    (hk : polyClassifier cfg target poly s d h l = some .skip) : isInList d h target s = false := by
  unfold polyClassifier at hk
  split at hk
  · simp at hk
  · simpa using ‹¬ isInList d h target s = true›

theorem classifier_descend' (cfg : Cfg) (target : Nat) (poly : Polygon α) (s : List Nat) (d h l : Nat) (fl : Bool)
    (hk : polyClassifier cfg target poly s d h l = some (.descend fl)) : fl = false := by
  unfold polyClassifier at hk
  split at hk
  · simpa using hk.symm
  · split at hk
    · simp at hk
    · split at hk
      · simp at hk
      · simp only at hk
        split at hk
        · simp at hk
        · split at hk
          · simpa using hk.symm
          · split at hk
            · split at hk
              · simpa using hk.symm
              · simp at hk
            · simp at hk

theorem classifier_full' (cfg : Cfg) (target : Nat) (poly : Polygon α) (s : List Nat) (d h l : Nat)
    (hk : polyClassifier cfg target poly s d h l = some .full) :
    isInList d h target s = false ∧ ∃ vs cs, Hash.vertices (α := α) cfg d h = some vs ∧
      vs.mapM (fun v => fromSphCoo cfg.debug v.1 v.2) = some cs ∧ (cs.filter fun c => poly.contains c).length = 4 := by
  unfold polyClassifier at hk
  split at hk
  · simp at hk
  · refine ⟨by simpa using ‹¬ isInList d h target s = true›, ?_⟩
    split at hk
    · simp at hk
    · rename_i vs hvs
      split at hk
      · simp at hk
      · rename_i cs hcs
        simp only at hk
        split at hk
        · rename_i h4
          exact ⟨vs, cs, hvs, hcs, by simpa using h4⟩
        · split at hk
          · simp at hk
          · split at hk
            · split at hk <;> simp at hk
            · simp at hk

/-- `Props/C12.coverage_spec_modes` -/
theorem coverage_spec_modes' (cfg : Cfg) (depth : Nat) (vertices : List (α × α)) (exact : Bool) (b : BMOC)
    (h : polygonCoverage cfg depth vertices exact = some b) :
    depth ≤ 29 ∧ ∃ (poly : Polygon α) (hs ex : List Nat) (ds : Nat) (roots : List Nat) (cells : List Cell),
      Polygon.new cfg.debug vertices = some poly ∧
      poly.vertices.mapM (fun c => Hash.hashV2 cfg depth c.lon c.lat) = some hs ∧
      (if exact then specialHashes cfg depth poly else some []) = some ex ∧
      ds ≤ depth ∧ (C2V.hasBestStartingDepth (α := α) (match boundingCone poly.vertices with | some x => x.2 | none => Num.zero) = false →
        ds = 0 ∧ roots = List.range 12) ∧
      roots.foldlM (fun acc r =>
        (coverRec depth (polyClassifier cfg depth poly (dedupAdj (sortNat (hs ++ ex)))) (depth + 2) ds r 0).map (acc ++ ·)) [] = some cells ∧
      b = { dmax := depth, entries := cells.map (encode depth) } := by
  unfold polygonCoverage polygonCoverageWith at h
  split at h
  · simp at h
  · rename_i hd
    refine ⟨by omega, ?_⟩
    split at h
    · simp at h
    · rename_i poly hpoly
      split at h
      · simp at h
      · rename_i centre radius hbc
        simp only at h
        split at h
        · simp at h
        · rename_i ds roots hroots
          split at h
          · simp at h
          · rename_i hs hhs
            split at h
            · simp at h
            · rename_i ex hex
              simp only [Option.map_eq_some_iff] at h
              obtain ⟨cells, hcells, hb⟩ := h
              refine ⟨poly, hs, ex, ds, roots, cells, hpoly, hhs, ?_, ?_, ?_, hcells, hb.symm⟩
              · cases exact <;> simpa using hex
              · split at hroots
                · cases hroots; omega
                · split at hroots
                  · simp at hroots
                  · split at hroots
                    · simp at hroots
                    · simp only [Option.map_eq_some_iff] at hroots
                      obtain ⟨nm, _, hnm⟩ := hroots
                      cases hnm
                      exact Nat.min_le_right _ _
              · intro hno
                rw [hbc] at hno
                simp only at hno
                simp only [hno] at hroots
                simp at hroots
                exact ⟨hroots.1.symm, hroots.2.symm⟩

/-- the loop over the start cells, membership only (no hypothesis on the order of the start cells) -/
theorem roots_fold_mem (f : Nat → Option (List Cell)) : ∀ (roots : List Nat) (init out : List Cell),
    roots.foldlM (fun acc r => (f r).map (acc ++ ·)) init = some out →
    (∀ c ∈ out, c ∈ init ∨ ∃ r ∈ roots, ∃ o, f r = some o ∧ c ∈ o) ∧
    (∀ r ∈ roots, ∃ o, f r = some o ∧ ∀ c ∈ o, c ∈ out) ∧ (∀ c ∈ init, c ∈ out) := by
  intro roots
  induction roots with
  | nil =>
    intro init out h
    simp only [List.foldlM_nil] at h
    cases h
    exact ⟨fun c hc => Or.inl hc, fun r hr => by simp at hr, fun c hc => hc⟩
  | cons r rs ih =>
    intro init out h
    simp only [List.foldlM_cons] at h
    cases ho : f r with
    | none => simp [ho] at h
    | some o =>
      simp only [ho, Option.map_some, Option.bind_eq_bind, Option.bind_some] at h
      obtain ⟨g2, g3, g4⟩ := ih (init ++ o) out h
      refine ⟨?_, ?_, ?_⟩
      · intro c hc
        rcases g2 c hc with hc' | ⟨r', hr', o', ho', hco'⟩
        · rcases List.mem_append.mp hc' with hc' | hc'
          · exact Or.inl hc'
          · exact Or.inr ⟨r, by simp, o, ho, hc'⟩
        · exact Or.inr ⟨r', by simp [hr'], o', ho', hco'⟩
      · intro r' hr'
        rcases List.mem_cons.mp hr' with rfl | hr'
        · exact ⟨o, ho, fun c hc => g4 c (by simp [hc])⟩
        · exact g3 r' hr'
      · intro c hc; exact g4 c (by simp [hc])

theorem mapM_forall2 {β γ : Type} (f : β → Option γ) : ∀ (l : List β) (r : List γ), l.mapM f = some r →
    List.Forall₂ (fun a b => f a = some b) l r := by
  intro l
  induction l with
  | nil => intro r h; simp at h; subst h; exact List.Forall₂.nil
  | cons a l ih =>
    intro r h
    rw [List.mapM_cons] at h
    cases ha : f a with
    | none => simp [ha] at h
    | some b =>
      cases hl : l.mapM f with
      | none => simp [ha, hl] at h
      | some bs =>
        simp [ha, hl] at h
        subst h
        exact List.Forall₂.cons ha (ih bs hl)

/-- `vertices` returns four positions -/
theorem vertices_four (cfg : Cfg) (d h : Nat) (vs : List (α × α)) (hv : Hash.vertices (α := α) cfg d h = some vs) :
    ∃ s e n w, vs = [s, e, n, w] := by
  unfold Hash.vertices at hv
  cases hc : Hash.centerOfProjectedCell (α := α) cfg d h with
  | none => simp [hc] at hv
  | some c =>
    simp only [hc, Option.bind_some] at hv
    have := mapM_forall2 id _ _ hv
    match vs, this with
    | [s, e, n, w], _ => exact ⟨s, e, n, w, rfl⟩

end Generic


/-! ## T1: the cells flagged "fully covered", convex polygons over ℝ -/

/-- `p` is strictly inside the half-space of every edge of the polygon of vertex list `vs` (winding `o = ±1`) -/
def InsideAll (o : ℝ) (vs : List (Coo ℝ)) (p : Coo ℝ) : Prop :=
  ∀ e ∈ edges vs, 0 < o * dot p (cross e.1 e.2)

/-- `p` is not on the boundary of the (closed, convex) polygon: if it is in all the closed half-spaces, it is in all the
    open ones.  (A point outside some closed half-space satisfies this trivially.) -/
def OffBoundary (o : ℝ) (vs : List (Coo ℝ)) (p : Coo ℝ) : Prop :=
  (∀ e ∈ edges vs, 0 ≤ o * dot p (cross e.1 e.2)) → ∀ e ∈ edges vs, 0 < o * dot p (cross e.1 e.2)

/-- a point that is on the great circle of no edge is not on the boundary -/
theorem offBoundary_of_ne (o : ℝ) (ho : o ≠ 0) (vs : List (Coo ℝ)) (p : Coo ℝ)
    (h : ∀ e ∈ edges vs, dot p (cross e.1 e.2) ≠ 0) : OffBoundary o vs p :=
  fun hall e he => lt_of_le_of_ne (hall e he) (Ne.symm (mul_ne_zero ho (h e he)))

/-- a point strictly inside is not on the boundary -/
theorem offBoundary_of_inside (o : ℝ) (vs : List (Coo ℝ)) (p : Coo ℝ) (h : InsideAll o vs p) : OffBoundary o vs p :=
  fun _ => h

theorem dot_congr (p q : Coo ℝ) (N : ℝ × ℝ × ℝ) (hx : p.x = q.x) (hy : p.y = q.y) (hz : p.z = q.z) : dot p N = dot q N := by
  unfold dot; rw [hx, hy, hz]

/-- the classifier's `full` verdict, geometrically, for a convex polygon: the four vertices of the cell are strictly
    inside all the edge half-spaces, unless they are on the boundary -/
theorem classifier_full_convex (cfg : Cfg) (target : Nat) (poly : Polygon ℝ) (hb : poly.Built) (o : ℝ)
    (hcv : ConvexNoPole o poly.vertices) (srt : List Nat) (d h l : Nat)
    (hk : polyClassifier cfg target poly srt d h l = some .full) :
    isInList d h target srt = false ∧
    ∃ s e n w : ℝ × ℝ, Hash.vertices (α := ℝ) cfg d h = some [s, e, n, w] ∧
      ∀ v ∈ [s, e, n, w], OffBoundary o poly.vertices (cooOf v) → InsideAll o poly.vertices (cooOf v) := by
  obtain ⟨h1, vs, cs, hvs, hcs, h4⟩ := classifier_full' cfg target poly srt d h l hk
  obtain ⟨s, e, n, w, rfl⟩ := vertices_four cfg d h vs hvs
  refine ⟨h1, s, e, n, w, hvs, ?_⟩
  have hf := mapM_forall2 _ _ _ hcs
  -- four images, all accepted by `contains`
  obtain ⟨cs0, cs1, cs2, cs3, rfl, f0, f1, f2, f3⟩ : ∃ c0 c1 c2 c3, cs = [c0, c1, c2, c3] ∧
      fromSphCoo cfg.debug s.1 s.2 = some c0 ∧ fromSphCoo cfg.debug e.1 e.2 = some c1 ∧
      fromSphCoo cfg.debug n.1 n.2 = some c2 ∧ fromSphCoo cfg.debug w.1 w.2 = some c3 := by
    match cs, hf with
    | [c0, c1, c2, c3], hf =>
      refine ⟨c0, c1, c2, c3, rfl, ?_⟩
      simp only [List.forall₂_cons] at hf
      exact ⟨hf.1, hf.2.1, hf.2.2.1, hf.2.2.2.1⟩
  have hall : ∀ c ∈ [cs0, cs1, cs2, cs3], poly.contains c = true := by
    have hlen : ([cs0, cs1, cs2, cs3].filter fun c => poly.contains c).length = [cs0, cs1, cs2, cs3].length := by
      rw [h4]; rfl
    have := List.length_filter_eq_length_iff.mp hlen
    exact this
  -- one vertex
  have one : ∀ (v : ℝ × ℝ) (c : Coo ℝ), fromSphCoo cfg.debug v.1 v.2 = some c → poly.contains c = true →
      OffBoundary o poly.vertices (cooOf v) → InsideAll o poly.vertices (cooOf v) := by
    intro v c hc hcont hoff
    obtain ⟨hval, ex, ey, ez⟩ := fromSphCoo_valid cfg.debug v.1 v.2 c hc
    have hd : ∀ N, dot c N = dot (cooOf v) N := fun N => dot_congr c (cooOf v) N ex ey ez
    have hnb : (∀ e ∈ edges poly.vertices, 0 ≤ o * dot c (cross e.1 e.2)) →
        ∀ e ∈ edges poly.vertices, 0 < o * dot c (cross e.1 e.2) := by
      intro hall e he
      rw [hd]; exact hoff (fun e he => by rw [← hd]; exact hall e he) e he
    have := (contains_convex_final poly hb o hcv c hval hnb).mp hcont
    intro e he; rw [← hd]; exact this e he
  intro v hv
  simp only [List.mem_cons, List.not_mem_nil, or_false] at hv
  rcases hv with rfl | rfl | rfl | rfl
  · exact one _ cs0 f0 (hall cs0 (by simp))
  · exact one _ cs1 f1 (hall cs1 (by simp))
  · exact one _ cs2 f2 (hall cs2 (by simp))
  · exact one _ cs3 f3 (hall cs3 (by simp))

/-- **T1 — what the "fully covered" flag of `polygon_coverage` means for a convex polygon** (ℝ, both modes, every depth
    `≤ 29`, both profiles).  Polygon: positions `lls` in the canonical ranges, `ConvexNoPole o (lls.map cooOf)` (strictly
    convex, either winding, at least 3 vertices, inside an open hemisphere, no pole inside — the hypotheses of
    `contains_convex_new`).  If `polygon_coverage(depth, lls, exact)` returns `b`, then `b` is the encoded list `cells`, and
    for every cell `c` of it carrying the full flag:
    * `c.depth ≤ depth`;
    * no cell of a polygon vertex (`hs`), and in the exact mode of a special point (`ex`), lies under `c`;
    * `vertices(c.depth, c.hash)` returns four positions `S, E, N, W` and each of them that is not on the boundary of the polygon
      is strictly inside the half-spaces of ALL the edges.
    Nothing else is tested by the code: in particular NOT the centre of the cell (see `PolyCompose3.lean`). -/
theorem full_cells_inside_convex (cfg : Cfg) (depth : Nat) (lls : List (ℝ × ℝ)) (exact : Bool) (b : BMOC)
    (hr : ∀ ll ∈ lls, 0 ≤ ll.1 ∧ ll.1 < 2 * π ∧ -(π / 2) ≤ ll.2 ∧ ll.2 ≤ π / 2)
    (o : ℝ) (hcv : ConvexNoPole o (lls.map cooOf))
    (h : polygonCoverage cfg depth lls exact = some b) :
    depth ≤ 29 ∧ ∃ (poly : Polygon ℝ) (hs ex : List Nat) (cells : List Cell),
      Polygon.new cfg.debug lls = some poly ∧ poly.vertices = lls.map cooOf ∧
      poly.vertices.mapM (fun c => Hash.hashV2 cfg depth c.lon c.lat) = some hs ∧
      (if exact then specialHashes cfg depth poly else some []) = some ex ∧
      b = { dmax := depth, entries := cells.map (encode depth) } ∧
      ∀ c ∈ cells, c.full = true →
        c.depth ≤ depth ∧
        (∀ q ∈ hs ++ ex, q >>> ((depth - c.depth) <<< 1) ≠ c.hash) ∧
        ∃ s e n w : ℝ × ℝ, Hash.vertices (α := ℝ) cfg c.depth c.hash = some [s, e, n, w] ∧
          ∀ v ∈ [s, e, n, w], OffBoundary o (lls.map cooOf) (cooOf v) → InsideAll o (lls.map cooOf) (cooOf v) := by
  obtain ⟨hd, poly, hs, ex, ds, roots, cells, h1, h2, h3, hds, _, h5, h6⟩ := coverage_spec_modes' cfg depth lls exact b h
  have hne : lls ≠ [] := by
    intro h0; have := hcv.hn; rw [h0] at this; simp at this
  obtain ⟨poly', hnew, hvs, hb⟩ := polygon_new_real cfg.debug lls hne hr
  rw [h1] at hnew; cases hnew
  refine ⟨hd, poly, hs, ex, cells, h1, hvs, h2, h3, h6, ?_⟩
  intro c hc hfull
  obtain ⟨g2, _, _⟩ := roots_fold_mem _ roots [] cells h5
  rcases g2 c hc with h0 | ⟨r, _, out, hout, hco⟩
  · simp at h0
  have hbelow := coverRec_below depth _ depth (Nat.le_refl _) (depth + 2) ds r 0 out hds hout
  obtain ⟨l, hl | ⟨_, hl⟩⟩ := coverRec_full_rule depth _ (depth + 2) ds r 0 out hout c hco hfull
  · rw [← hvs] at hcv ⊢
    obtain ⟨k1, k2⟩ := classifier_full_convex cfg depth poly hb o hcv _ c.depth c.hash l hl
    refine ⟨(hbelow.2 c hco).2.2.2, ?_, k2⟩
    intro q hq hanc
    have := isInList_complete c.depth c.hash depth _ (pairwise_dedup_sort (hs ++ ex)) q
      ((mem_dedup_sort q _).mpr hq) hanc
    rw [this] at k1; exact absurd k1 (by simp)
  · exact absurd (classifier_descend' cfg depth poly _ _ _ l true hl) (by simp)

/-- the hypotheses on the polygon are satisfiable: the triangle `(0, 0)`, `(π/2, 0)`, `(π/4, π/4)` of `PolyReal6`.  (A second
    polygon, with a cell that the classifier flags full, is in `PolyCompose4.lean`; the hypothesis
    `polygonCoverage … = some b` is an evaluation of the whole function over ℝ, which is not done here: on the `Float`
    instance `polygonCoverage {} 3 [(0, 0), (π/2, 0), (π/4, π/4)] false` returns 44 cells, 12 of them full.) -/
example : (∀ ll ∈ triLL, 0 ≤ ll.1 ∧ ll.1 < 2 * π ∧ -(π / 2) ≤ ll.2 ∧ ll.2 ≤ π / 2) ∧ ConvexNoPole 1 (triLL.map cooOf) := by
  have hpi := pi_pos
  refine ⟨?_, by rw [triLL_map]; exact tri_convex⟩
  intro ll hll
  simp only [triLL, List.mem_cons, List.not_mem_nil, or_false] at hll
  rcases hll with rfl | rfl | rfl <;> refine ⟨?_, ?_, ?_, ?_⟩ <;> simp <;> linarith

#print axioms Hpx.PolyCompose.fromSphCoo_valid
#print axioms Hpx.PolyCompose.full_cells_inside_convex

end Hpx.PolyCompose
