import HpxVerif.Lemmas.SqrtApprox3

/-!
# The `f64` square root used by `from_ring`: the sharp statement (round to nearest)

`SqrtApprox3` only uses that every rounding is *faithful* (result = truncation or truncation + 1) and obtains
`|isqrtF64 y - ⌊√y⌋| ≤ 1`.  Here the round-to-nearest-even rule of the model is taken into account (round and sticky bits of
`ExtendedMantissa`, `Accuracy` of `sqrtCore`) and gives the sharp result: for `0 < y < 2^61`

  `⌊√y⌋ ≤ isqrtF64 y ≤ ⌊√y⌋ + 1`,

so the `f64` estimate of the polar ring index is never too small, and at most one too large (finding F2 is the only
possible deviation): `t ≤ polarRingApprox x ≤ t + 1` for `x < 2^60`.
-/

open Float.Model Float.Model.UnpackedFloat

namespace Hpx.SqrtApprox
open Hpx.Layer

/-! ## round and sticky bits, round to nearest -/

/-- residual bits after shifting an exact mantissa right by `n + 1`: the round bit is bit `n` of `m`, the sticky bit says
    whether the bits below are non-zero -/
theorem shiftRight_bits (m n : Nat) :
    ((⟨m, false, false⟩ : ExtendedMantissa) >>> (n + 1)).roundBit = ((m / 2 ^ n) % 2 != 0) ∧
    ((⟨m, false, false⟩ : ExtendedMantissa) >>> (n + 1)).stickyBit = (m % 2 ^ n != 0) := by
  induction n with
  | zero =>
    rw [shiftRight_succ, shiftRight_zero]
    simp [ExtendedMantissa.shiftRightOne, Nat.mod_one]
  | succ n ih =>
    obtain ⟨ih1, ih2⟩ := ih
    rw [shiftRight_succ]
    constructor
    · simp only [ExtendedMantissa.shiftRightOne, shiftRight_mantissa]
    · simp only [ExtendedMantissa.shiftRightOne, ih1, ih2]
      have hp : 0 < 2 ^ n := Nat.pow_pos (by decide)
      have e : m % 2 ^ (n + 1) = (m / 2 ^ n % 2) * 2 ^ n + m % 2 ^ n := by
        rw [Nat.pow_succ, Nat.mod_mul, Nat.add_comm, Nat.mul_comm]
      rw [e]
      rcases Nat.mod_two_eq_zero_or_one (m / 2 ^ n) with h | h <;> simp [h]

/-- **round to nearest**: the rounded mantissa of an exact `m` shifted right by `n` is within half a unit (`2^n / 2`) of
    `m` -/
theorem rounded_nearest (m n : Nat) :
    2 * m ≤ 2 * (((⟨m, false, false⟩ : ExtendedMantissa) >>> n).roundedMantissa * 2 ^ n) + 2 ^ n ∧
    2 * (((⟨m, false, false⟩ : ExtendedMantissa) >>> n).roundedMantissa * 2 ^ n) ≤ 2 * m + 2 ^ n := by
  cases n with
  | zero =>
    rw [shiftRight_zero]
    simp [ExtendedMantissa.roundedMantissa, ExtendedMantissa.accuracy, Accuracy.roundToNearestEven]
  | succ j =>
    obtain ⟨hrb, hst⟩ := shiftRight_bits m j
    have hmant := shiftRight_mantissa ⟨m, false, false⟩ (j + 1)
    generalize (⟨m, false, false⟩ : ExtendedMantissa) >>> (j + 1) = em at *
    obtain ⟨q, rb, st⟩ := em
    simp only at hrb hst hmant
    have hp : 0 < 2 ^ j := Nat.pow_pos (by decide)
    have e : m % 2 ^ (j + 1) = (m / 2 ^ j % 2) * 2 ^ j + m % 2 ^ j := by
      rw [Nat.pow_succ, Nat.mod_mul, Nat.add_comm, Nat.mul_comm]
    have hdm := Nat.div_add_mod m (2 ^ (j + 1))
    have hlow := Nat.mod_lt m hp
    rw [e, ← hmant, Nat.pow_succ] at hdm
    rw [Nat.pow_succ]
    generalize m % 2 ^ j = low at *
    generalize 2 ^ j = P at *
    have e1 : q * (P * 2) = 2 * (q * P) := by ring
    have e2 : (q + 1) * (P * 2) = 2 * (q * P) + 2 * P := by ring
    have e3 : P * 2 * q = 2 * (q * P) := by ring
    rw [e3] at hdm
    rcases Nat.mod_two_eq_zero_or_one (m / P) with hb | hb
    · -- round bit 0
      rw [hb] at hrb hdm
      subst hrb
      have : (⟨q, (0 != 0), st⟩ : ExtendedMantissa).roundedMantissa = q := by
        cases st <;> rfl
      rw [this, e1]
      omega
    · rw [hb] at hrb hdm
      subst hrb
      by_cases hl : low = 0
      · subst hl
        subst hst
        have : (⟨q, (1 != 0), (0 != 0)⟩ : ExtendedMantissa).roundedMantissa = q + q % 2 := rfl
        rw [this]
        rcases Nat.mod_two_eq_zero_or_one q with hq | hq <;> rw [hq]
        · rw [Nat.add_zero, e1]; omega
        · rw [e2]; omega
      · have hst' : st = true := by rw [hst]; simp [hl]
        subst hst'
        have : (⟨q, (1 != 0), true⟩ : ExtendedMantissa).roundedMantissa = q + 1 := rfl
        rw [this, e2]
        omega

/-! ## `Float.ofNat`, `Float.sqrt` with round to nearest -/

/-- **`Float.ofNat y` for `0 < y < 2^64`, round to nearest**: as `float_ofNat_spec`, and the value `v` is within half a
    unit in the last place (`2^e / 2`) of `y`, exact when `e ≤ 0` -/
theorem float_ofNat_nearest (y : Nat) (h0 : 0 < y) (hy : y < 2 ^ 64) :
    ∃ m e h v, (Float.ofNat y).toModel.unpack = .finite .positive m e h ∧ 2 ^ 52 ≤ m ∧ m < 2 ^ 53 ∧
      -52 ≤ e ∧ e ≤ 12 ∧ m * 2 ^ (e + 52).toNat = v * 2 ^ 52 ∧ v ≤ y + y / 2 ^ 52 ∧ y ≤ v + y / 2 ^ 52 ∧
      (e ≤ 0 → v = y) ∧ 2 * y ≤ 2 * v + 2 ^ e.toNat ∧ 2 * v ≤ 2 * y + 2 ^ e.toNat := by
  have hL : y.log2 < 64 := (Nat.log2_lt (by omega)).2 hy
  have hl1 := Nat.log2_self_le (n := y) (by omega)
  have hl2 := @Nat.lt_log2_self y
  by_cases hs : y < 2 ^ 53
  · have hL' : y.log2 < 53 := (Nat.log2_lt (by omega)).2 hs
    obtain ⟨hm1, hm2⟩ := shl_log2 y h0 hs
    refine ⟨_, _, _, y, float_ofNat_small y h0 hs, hm1, hm2, by omega, by omega, ?_, by omega, by omega,
      fun _ => rfl, Nat.le_add_right _ _, Nat.le_add_right _ _⟩
    rw [Nat.shiftLeft_eq, Nat.mul_assoc, ← Nat.pow_add]
    congr 2
    omega
  · have hy53 : 2 ^ 53 ≤ y := by omega
    have hL' : 53 ≤ y.log2 := (Nat.le_log2 (by omega)).2 hy53
    have hlM : (y * 2 ^ 53).log2 = y.log2 + 53 := log2_mul_two_pow _ _ h0
    obtain ⟨m, e, h, heq, hm1, hm2, hcase⟩ := roundWithAccuracy_cases (y * 2 ^ 53) (-53) .exact
      (Nat.le_trans (by decide) (Nat.mul_le_mul_right _ hy53)) (by omega)
    rw [hlM] at hcase
    obtain ⟨d, hd⟩ : ∃ d, y.log2 = d + 52 := ⟨y.log2 - 52, by omega⟩
    have hsh : y.log2 + 53 - 52 = d + 53 := by omega
    rw [hsh] at hcase
    have hofma : ExtendedMantissa.ofMantissaAndAccuracy (y * 2 ^ 53) .exact = ⟨y * 2 ^ 53, false, false⟩ := rfl
    rw [hofma] at hcase
    obtain ⟨hn1, hn2⟩ := rounded_nearest (y * 2 ^ 53) (d + 53)
    have hbd := roundedMantissa_bounds ((⟨y * 2 ^ 53, false, false⟩ : ExtendedMantissa) >>> (d + 53))
    rw [shiftRight_mantissa] at hbd
    have hq : y * 2 ^ 53 / 2 ^ (d + 53) = y / 2 ^ d := by
      rw [Nat.pow_add, Nat.mul_comm (2 ^ d), ← Nat.div_div_eq_div_mul, Nat.mul_div_cancel _ (by decide)]
    simp only [hq] at hbd
    generalize (((⟨y * 2 ^ 53, false, false⟩ : ExtendedMantissa) >>> (d + 53)).roundedMantissa) = R at *
    -- divide the nearest-rounding inequalities by `2^53`
    have hR : R * 2 ^ (d + 53) = R * 2 ^ d * 2 ^ 53 := by rw [Nat.pow_add, Nat.mul_assoc]
    have hP : (2 : Nat) ^ (d + 53) = 2 ^ d * 2 ^ 53 := Nat.pow_add _ _ _
    rw [hR, hP] at hn1 hn2
    have hn1' : 2 * y ≤ 2 * (R * 2 ^ d) + 2 ^ d := by
      have : (2 * y) * 2 ^ 53 ≤ (2 * (R * 2 ^ d) + 2 ^ d) * 2 ^ 53 := by
        rw [Nat.add_mul, Nat.mul_assoc, Nat.mul_assoc]; exact hn1
      exact Nat.le_of_mul_le_mul_right this (by decide)
    have hn2' : 2 * (R * 2 ^ d) ≤ 2 * y + 2 ^ d := by
      have : (2 * (R * 2 ^ d)) * 2 ^ 53 ≤ (2 * y + 2 ^ d) * 2 ^ 53 := by
        rw [Nat.add_mul, Nat.mul_assoc, Nat.mul_assoc 2 y]; exact hn2
      exact Nat.le_of_mul_le_mul_right this (by decide)
    have hdy : 2 ^ d ≤ y / 2 ^ 52 := by
      rw [Nat.le_div_iff_mul_le (by decide), ← Nat.pow_add, ← hd]; exact hl1
    have hun : (Float.ofNat y).toModel.unpack = .finite .positive m e h := by
      rw [float_ofNat_eq_large y hy53, ofModel_toModel, unpacked_ofScientific_zero y h0, heq]
      exact model_unpack_pack _ _ _ hm1 hm2 (by omega) (by omega)
    have hd12 : d ≤ 11 := by omega
    have hd1 : 1 ≤ d := by omega
    have hpow : (2 : Nat) ^ d ≤ 2 ^ (d + 1) := Nat.pow_le_pow_right (by decide) (by omega)
    rcases hcase with ⟨rfl, rfl⟩ | ⟨h53, rfl, rfl⟩
    · refine ⟨_, _, h, m * 2 ^ d, hun, hm1, hm2, by omega, by omega, ?_, by omega, by omega, by omega, ?_, ?_⟩
      · rw [show (-53 + ((d + 53 : Nat) : Int) + 52).toNat = d + 52 by omega, Nat.pow_add, Nat.mul_assoc]
      · rw [show (-53 + ((d + 53 : Nat) : Int)).toNat = d by omega]; exact hn1'
      · rw [show (-53 + ((d + 53 : Nat) : Int)).toNat = d by omega]; exact hn2'
    · refine ⟨_, _, h, R * 2 ^ d, hun, hm1, hm2, by omega, by omega, ?_, by omega, by omega, by omega, ?_, ?_⟩
      · rw [show (-53 + ((d + 53 : Nat) : Int) + 1 + 52).toNat = (d + 52) + 1 by omega, h53, Nat.pow_succ,
          Nat.pow_add]
        ring
      · rw [show (-53 + ((d + 53 : Nat) : Int) + 1).toNat = d + 1 by omega]; omega
      · rw [show (-53 + ((d + 53 : Nat) : Int) + 1).toNat = d + 1 by omega]; omega

theorem ofMA_rounded (m : Nat) (acc : Accuracy) :
    (ExtendedMantissa.ofMantissaAndAccuracy m acc).roundedMantissa = acc.roundToNearestEven m := by
  rcases acc with _ | o
  · rfl
  · cases o <;> rfl

/-- **`sqrt` of a normal number, round to nearest**: as `sqrt_spec`, and the root `⌊√M⌋` is rounded up exactly when the
    remainder `M - ⌊√M⌋²` exceeds `⌊√M⌋` (i.e. `√M > ⌊√M⌋ + 1/2`) -/
theorem sqrt_nearest (m : Nat) (e : Int) (h : 0 < m) (hm1 : 2 ^ 52 ≤ m) (hm2 : m < 2 ^ 53) (he1 : -1000 ≤ e)
    (he2 : e ≤ 900) :
    ∃ m2 e2 h2 r, UnpackedFloat.sqrt Format.binary64 (.finite .positive m e h) = .finite .positive m2 e2 h2 ∧
      2 ^ 52 ≤ m2 ∧ m2 < 2 ^ 53 ∧
      r = (if m * 2 ^ (e - 2 * (e / 2 - 26)).toNat -
            (m * 2 ^ (e - 2 * (e / 2 - 26)).toNat).sqrt * (m * 2 ^ (e - 2 * (e / 2 - 26)).toNat).sqrt ≤
              (m * 2 ^ (e - 2 * (e / 2 - 26)).toNat).sqrt
          then (m * 2 ^ (e - 2 * (e / 2 - 26)).toNat).sqrt else (m * 2 ^ (e - 2 * (e / 2 - 26)).toNat).sqrt + 1) ∧
      ((m2 = r ∧ e2 = e / 2 - 26) ∨ (r = 2 ^ 53 ∧ m2 = 2 ^ 52 ∧ e2 = e / 2 - 26 + 1)) := by
  have hl : m.log2 = 52 := (Nat.log2_eq_iff (by omega)).2 ⟨hm1, hm2⟩
  unfold UnpackedFloat.sqrt sqrtCore
  dsimp only
  rw [sqrt_targetExponent m e hl he1, Nat.shiftLeft_eq]
  generalize hs : (e - 2 * (e / 2 - 26)).toNat = s
  have hs' : s = 52 ∨ s = 53 := by omega
  generalize hM : m * 2 ^ s = M
  have hM1 : 2 ^ 104 ≤ M ∧ M < 2 ^ 106 := by
    rcases hs' with rfl | rfl <;> omega
  obtain ⟨hr1, hr2⟩ := nat_sqrt_bounds M hM1.1 hM1.2
  have hlr : M.sqrt.log2 = 52 := (Nat.log2_eq_iff (by omega)).2 ⟨hr1, hr2⟩
  generalize hacc : (if M - M.sqrt * M.sqrt = 0 then Accuracy.exact
      else Accuracy.inexact (if M - M.sqrt * M.sqrt ≤ M.sqrt then Ordering.lt else Ordering.gt)) = acc
  obtain ⟨m2, e2, h2, heq, hb1, hb2, hcase⟩ := roundWithAccuracy_cases M.sqrt (e / 2 - 26) acc hr1 (by omega)
  rw [hlr] at hcase
  simp only [Nat.sub_self, shiftRight_zero, Int.natCast_zero, Int.add_zero, ofMA_rounded] at hcase
  have hR : acc.roundToNearestEven M.sqrt = if M - M.sqrt * M.sqrt ≤ M.sqrt then M.sqrt else M.sqrt + 1 := by
    rw [← hacc]
    by_cases h0 : M - M.sqrt * M.sqrt = 0
    · rw [if_pos h0, if_pos (by omega)]; rfl
    · rw [if_neg h0]
      by_cases h1 : M - M.sqrt * M.sqrt ≤ M.sqrt
      · rw [if_pos h1, if_pos h1]; rfl
      · rw [if_neg h1, if_neg h1]; rfl
  rw [hR] at hcase
  exact ⟨m2, e2, h2, _, heq, hb1, hb2, rfl, hcase⟩

/-! ## arithmetic -/

/-- the tight lower bound: if the argument `v` is below `y` by at most `D` with `D · 2^k ≤ 2^g ≤ √v`, the correctly
    rounded root `r` of `v · 4^k` is at least `⌊√y⌋ · 2^k` (a root just below `⌊√y⌋ · 2^k` is rounded up) -/
theorem lower_tight (y v k g D : Nat) (hg : 4 ^ g ≤ v) (hD : y ≤ v + D) (hDK : D * 2 ^ k ≤ 2 ^ g) :
    y.sqrt * 2 ^ k ≤
      (if v * 4 ^ k - (v * 4 ^ k).sqrt * (v * 4 ^ k).sqrt ≤ (v * 4 ^ k).sqrt then (v * 4 ^ k).sqrt
        else (v * 4 ^ k).sqrt + 1) := by
  have a := Nat.sqrt_le y
  have c := Nat.sqrt_le (v * 4 ^ k)
  have d := Nat.lt_succ_sqrt (v * 4 ^ k)
  simp only [Nat.succ_eq_add_one] at d
  by_cases hvS : y.sqrt * y.sqrt ≤ v
  · -- `⌊√y⌋ ≤ ⌊√v⌋`
    have h1 : y.sqrt ≤ v.sqrt := by
      have := Nat.lt_succ_sqrt v
      simp only [Nat.succ_eq_add_one] at this
      have : y.sqrt < v.sqrt + 1 := Nat.mul_self_lt_mul_self_iff.1 (by omega)
      omega
    have h2 := (sqrt_scale v k).1
    have h3 : y.sqrt * 2 ^ k ≤ v.sqrt * 2 ^ k := Nat.mul_le_mul_right _ h1
    split <;> omega
  · have e4 : 4 ^ k = 2 ^ k * 2 ^ k := by rw [← Nat.mul_pow]
    have e4g : 4 ^ g = 2 ^ g * 2 ^ g := by rw [← Nat.mul_pow]
    have hK : 1 ≤ 2 ^ k := Nat.pow_pos (by decide)
    rw [e4] at c d ⊢
    rw [e4g] at hg
    generalize y.sqrt = S at *
    generalize (v * (2 ^ k * 2 ^ k)).sqrt = root at *
    generalize 2 ^ k = K at *
    generalize 2 ^ g = G at *
    -- `S > G`
    have hSG : G < S := Nat.mul_self_lt_mul_self_iff.1 (by omega)
    obtain ⟨Dd, hDd⟩ : ∃ Dd, S * S = v + Dd := ⟨S * S - v, by omega⟩
    have hDd1 : 1 ≤ Dd := by omega
    have hDdD : Dd ≤ D := by omega
    have hDdK : Dd * K + 1 ≤ S := by
      have : Dd * K ≤ D * K := Nat.mul_le_mul_right _ hDdD
      omega
    have hSK : 1 ≤ S * K := Nat.mul_pos (by omega) (by omega)
    obtain ⟨T, hT⟩ : ∃ T, S * K = T + 1 := ⟨S * K - 1, by omega⟩
    have h1 : (T + 1) * (T + 1) = T * T + 2 * T + 1 := by ring
    have h2 : (T + 1) * (T + 1) = v * (K * K) + Dd * K * K := by
      rw [← hT, show S * K * (S * K) = S * S * (K * K) by ring, hDd]; ring
    have h3 : Dd * K * K + K ≤ T + 1 := by
      have : (Dd * K + 1) * K ≤ S * K := Nat.mul_le_mul_right _ hDdK
      rw [Nat.add_mul, Nat.one_mul, hT] at this
      exact this
    have h4 : 1 ≤ Dd * K * K := Nat.mul_pos (Nat.mul_pos (by omega) (by omega)) (by omega)
    have hTr : T ≤ root := by
      by_contra hc
      have : (root + 1) * (root + 1) ≤ T * T := Nat.mul_le_mul (by omega) (by omega)
      omega
    have hrT : root < T + 1 := by
      by_contra hc
      have : (T + 1) * (T + 1) ≤ root * root := Nat.mul_le_mul (by omega) (by omega)
      omega
    have : root = T := by omega
    subst this
    rw [if_neg (by omega)]
    omega

/-! ## the sharp bound -/

/-- **`⌊√y⌋ ≤ isqrtF64 y ≤ ⌊√y⌋ + 1` for every `0 < y < 2^61`** -/
theorem isqrtF64_sharp (y : Nat) (h0 : 0 < y) (hy : y < 2 ^ 61) :
    y.sqrt ≤ isqrtF64 y ∧ isqrtF64 y ≤ y.sqrt + 1 := by
  obtain ⟨m, e, h, v, hun, hm1, hm2, he1, he2, hv, hv1, hv2, hex, hn1, hn2⟩ := float_ofNat_nearest y h0 (by omega)
  obtain ⟨m2, e2, h2, r, hsq, hb1, hb2, hr, hcase⟩ := sqrt_nearest m e h hm1 hm2 (by omega) (by omega)
  obtain ⟨k, hk⟩ : ∃ k : Nat, e / 2 - 26 = -(k : Int) := ⟨(26 - e / 2).toNat, by omega⟩
  have hk20 : 20 ≤ k := by omega
  have hM : m * 2 ^ (e - 2 * (e / 2 - 26)).toNat = v * 4 ^ k := by
    have h4 : (4 : Nat) ^ k = 2 ^ (2 * k) := by rw [Nat.pow_mul]
    have hs : (e - 2 * (e / 2 - 26)).toNat + 52 = (e + 52).toNat + 2 * k := by omega
    have : m * 2 ^ (e - 2 * (e / 2 - 26)).toNat * 2 ^ 52 = v * 4 ^ k * 2 ^ 52 := by
      rw [Nat.mul_assoc, ← Nat.pow_add, hs, Nat.pow_add, ← Nat.mul_assoc, hv, h4]; ring
    exact Nat.eq_of_mul_eq_mul_right (by decide) this
  rw [hM] at hr
  rw [hk] at hcase
  -- the value of the estimate
  have hval : isqrtF64 y = r / 2 ^ k := by
    unfold isqrtF64
    rw [toUInt64_eq, toModel_sqrt, hun, hsq, model_unpack_pack m2 e2 h2 hb1 hb2 (by omega) (by omega)]
    rcases hcase with ⟨rfl, rfl⟩ | ⟨h53, rfl, rfl⟩
    · exact toUInt64_spec _ _ _ k rfl (Nat.lt_of_le_of_lt (Nat.div_le_self _ _) (by omega))
    · obtain ⟨j, rfl⟩ : ∃ j, k = j + 1 := ⟨k - 1, by omega⟩
      rw [toUInt64_spec _ _ _ j (by omega) (Nat.lt_of_le_of_lt (Nat.div_le_self _ _) (by decide)), h53,
        Nat.pow_succ 2 j, Nat.mul_comm (2 ^ j), ← Nat.div_div_eq_div_mul]
      rfl
  -- upper bound (faithful rounding suffices)
  have hrle : r ≤ (v * 4 ^ k).sqrt + 1 := by rw [hr]; split <;> omega
  have hup := upper_tight y v k r hy hv1 (by omega) hrle
  -- lower bound (round to nearest)
  obtain ⟨g, hg⟩ : ∃ g : Nat, (g : Int) = 26 + e / 2 := ⟨(26 + e / 2).toNat, by omega⟩
  have hv4 : 4 ^ g ≤ v := by
    have h4 : (4 : Nat) ^ g = 2 ^ (2 * g) := by rw [Nat.pow_mul]
    have h1 : 2 ^ (2 * g) ≤ 2 ^ (e + 52).toNat := Nat.pow_le_pow_right (by decide) (by omega)
    have h2 : 2 ^ 52 * 2 ^ (e + 52).toNat ≤ v * 2 ^ 52 := by rw [← hv]; exact Nat.mul_le_mul_right _ hm1
    rw [Nat.mul_comm] at h2
    have := Nat.le_of_mul_le_mul_right h2 (by decide)
    omega
  have hlow : y.sqrt * 2 ^ k ≤ r := by
    rw [hr]
    by_cases hepos : e ≤ 0
    · have := hex hepos
      subst this
      exact lower_tight v v k g 0 hv4 (by omega) (by rw [Nat.zero_mul]; exact Nat.zero_le _)
    · obtain ⟨e', he'⟩ : ∃ e' : Nat, e = (e' : Int) + 1 := ⟨(e - 1).toNat, by omega⟩
      have het : e.toNat = e' + 1 := by omega
      rw [het, Nat.pow_succ] at hn1
      refine lower_tight y v k g (2 ^ e') hv4 (by omega) ?_
      rw [← Nat.pow_add]
      exact Nat.pow_le_pow_right (by decide) (by omega)
  have hdiv : y.sqrt ≤ r / 2 ^ k := by
    rw [Nat.le_div_iff_mul_le (Nat.pow_pos (by decide))]; exact hlow
  omega

/-- **the `f64` estimate of the polar ring index is the exact index or one more**, for every `x < 2^60` -/
theorem polarRingApprox_sharp (x t : Nat) (hx : x < 2 ^ 60) (h1 : tri4 t ≤ x) (h2 : x < tri4 (t + 1)) :
    t ≤ polarRingApprox x ∧ polarRingApprox x ≤ t + 1 := by
  rw [RingBij.tri4_eq] at h1 h2
  have hy : 1 + x <<< 1 = 2 * x + 1 := by rw [Nat.shiftLeft_eq]; omega
  obtain ⟨hb1, hb2⟩ := isqrtF64_sharp (2 * x + 1) (by omega) (by omega)
  have a := Nat.sqrt_le (2 * x + 1)
  have b := Nat.lt_succ_sqrt (2 * x + 1)
  simp only [Nat.succ_eq_add_one] at b
  have e1 : (2 * t + 1) * (2 * t + 1) = 4 * (t * t) + 4 * t + 1 := by ring
  have e2 : (2 * t + 3) * (2 * t + 3) = 4 * ((t + 1) * (t + 1)) + 4 * (t + 1) + 1 := by ring
  have c1 : 2 * t + 1 < (2 * x + 1).sqrt + 1 := Nat.mul_self_lt_mul_self_iff.1 (by omega)
  have c2 : (2 * x + 1).sqrt < 2 * t + 3 := Nat.mul_self_lt_mul_self_iff.1 (by omega)
  unfold polarRingApprox
  rw [hy, Nat.shiftRight_eq_div_pow]
  omega

/-- both values occur: exact at the first cell of the ring, one too large at the last cell of the same ring (depth 26) -/
example : tri4 67108862 ≤ 9007199120523263 ∧ 9007199120523263 < tri4 (67108862 + 1) ∧
    polarRingApprox (tri4 67108862) = 67108862 ∧ polarRingApprox 9007199120523263 = 67108862 + 1 := by
  decide +kernel

end Hpx.SqrtApprox

#print axioms Hpx.SqrtApprox.isqrtF64_sharp
#print axioms Hpx.SqrtApprox.polarRingApprox_sharp
