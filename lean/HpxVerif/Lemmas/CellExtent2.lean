import HpxVerif.Lemmas.CellExtent
import HpxVerif.Lemmas.EnvelopeReal6

/-!
# The extent of an equatorial cell against `largest_center_to_vertex_distance` (part 2: corollaries of T1)

`CellExtent.eqr_cell_extent` (every point of an equatorial cell is at most `max(dN, dS, dE)` from the centre) combined
with the envelope theorems of `EnvelopeReal2/4/5`:

* `eqr_cell_extent_envelope`: every depth `1 … 29`; the value of `largest_center_to_vertex_distance` at ANY position
  `(lon, latOf yp)` of the cell bounds the angular distance from the cell centre to EVERY point of the cell;
* `eqr_cell_extent_envelope_radius` (depth `2 … 29`, any cone with `|lat| + r < tl`) and
  `eqr_cell_extent_envelope_radius_band` (depth `1 … 29`, cell centre not below the latitude band of the cone): the same
  for `largest_center_to_vertex_distance_with_radius`;
* `cell_extent_envelope`, `cell_extent_envelope_radius`: the same on the cells of the NESTED scheme (`center`,
  `decodeHash`), centre strictly inside the equatorial band;
* `base_cell_extent`: depth 0 (`δ = 1`, the equatorial base cells): the extent is `π/4 ≤ π/2 − tl`, the depth-0 value.
-/

namespace Hpx.CellExtent
open Hpx Hpx.Hash Hpx.C2V Hpx.C2VReal Hpx.Proj Hpx.Cover Hpx.CellReal Hpx.EnvelopeReal Real

/-- **`eqr_cell_extent_envelope`** (ℝ, release profile, every depth `1 … 29`, `δ = 1/2^d`).  Plane centre `(x, y)` with
    `0 ≤ x`, `x + δ ≤ 8`, `|y| + δ ≤ 1`; `(x', y')` ANY point of the closed diamond; `(lon, latOf yp)` any position whose
    plane ordinate `yp` is that of a point of the cell (`|yp − y| ≤ δ`, `|yp| < 1`; e.g. the centre itself or `y'`).
    Then `largest_center_to_vertex_distance(d, lon, latOf yp)` returns a value `v` with `adist(centre, point) ≤ v`. -/
theorem eqr_cell_extent_envelope (d : ℕ) (hd1 : 1 ≤ d) (hd2 : d ≤ 29) (x y x' y' lon yp : ℝ) (hx0 : 0 ≤ x)
    (hx8 : x + 1 / 2 ^ d ≤ 8) (hy : |y| + 1 / 2 ^ d ≤ 1) (hin : |x' - x| + |y' - y| ≤ 1 / 2 ^ d)
    (hp : |yp - y| ≤ 1 / 2 ^ d) (hp1 : |yp| < 1) :
    ∃ (c p : ℝ × ℝ) (v : ℝ), unproj (α := ℝ) x y = some c ∧ unproj (α := ℝ) (norm8 x') y' = some p ∧
      largestC2V false d lon (latOf yp) = some v ∧ adist c p ≤ v := by
  obtain ⟨hδ0, hδ1⟩ := distCw_range d
  obtain ⟨c, p, hc, hpp, _, _, hdist⟩ := eqr_cell_extent x y (1 / 2 ^ d) x' y' hδ0 hδ1 hx0 hx8 hy hin
  obtain ⟨v, hv, bN, bS, bE⟩ := largestC2V_dominates_in_cell d hd1 hd2 lon yp y hy hp hp1
  exact ⟨c, p, v, hc, hpp, hv, hdist.trans (max_le bN (max_le bS bE))⟩

/-- the same with the function WITH RADIUS, depth `2 … 29`: any cone `(lon, lat, r)` whose latitude band stays below the
    transition latitude (`|lat| + r < tl`: the polar-cap branch is not taken), ANY equatorial cell -/
theorem eqr_cell_extent_envelope_radius (d : ℕ) (hd1 : 2 ≤ d) (hd2 : d ≤ 29) (x y x' y' lon lat r : ℝ) (hx0 : 0 ≤ x)
    (hx8 : x + 1 / 2 ^ d ≤ 8) (hy : |y| + 1 / 2 ^ d ≤ 1) (hin : |x' - x| + |y' - y| ≤ 1 / 2 ^ d)
    (hA : |lat| + r < tl) :
    ∃ (c p : ℝ × ℝ) (v : ℝ), unproj (α := ℝ) x y = some c ∧ unproj (α := ℝ) (norm8 x') y' = some p ∧
      largestC2VWithRadius false d lon lat r = some v ∧ adist c p ≤ v := by
  obtain ⟨hδ0, hδ1⟩ := distCw_range d
  obtain ⟨c, p, hc, hpp, _, _, hdist⟩ := eqr_cell_extent x y (1 / 2 ^ d) x' y' hδ0 hδ1 hx0 hx8 hy hin
  obtain ⟨v, hv, bN, bS, bE⟩ := largestC2VWithRadius_dominates_eqr d hd1 hd2 lon lat r hA y hy
  exact ⟨c, p, v, hc, hpp, hv, hdist.trans (max_le bN (max_le bS bE))⟩

/-- the same with the function WITH RADIUS, depth `1 … 29`, for the cells whose centre latitude is not below the latitude
    band of the cone (`|lat| − r ≤ |latOf y|`) -/
theorem eqr_cell_extent_envelope_radius_band (d : ℕ) (hd1 : 1 ≤ d) (hd2 : d ≤ 29) (x y x' y' lon lat r : ℝ)
    (hx0 : 0 ≤ x) (hx8 : x + 1 / 2 ^ d ≤ 8) (hy : |y| + 1 / 2 ^ d ≤ 1) (hin : |x' - x| + |y' - y| ≤ 1 / 2 ^ d)
    (hA : |lat| + r < tl) (hband : |lat| - r ≤ |latOf y|) :
    ∃ (c p : ℝ × ℝ) (v : ℝ), unproj (α := ℝ) x y = some c ∧ unproj (α := ℝ) (norm8 x') y' = some p ∧
      largestC2VWithRadius false d lon lat r = some v ∧ adist c p ≤ v := by
  obtain ⟨hδ0, hδ1⟩ := distCw_range d
  obtain ⟨c, p, hc, hpp, _, _, hdist⟩ := eqr_cell_extent x y (1 / 2 ^ d) x' y' hδ0 hδ1 hx0 hx8 hy hin
  obtain ⟨v, hv, bN, bS, bE⟩ := largestC2VWithRadius_dominates_band d hd1 hd2 lon lat r hA y hy hband
  exact ⟨c, p, v, hc, hpp, hv, hdist.trans (max_le bN (max_le bS bE))⟩

/-! ## depth 0 -/

/-- depth 0 (`δ = 1`, centre ordinate `0`: the four equatorial base cells): the three centre-to-vertex distances are
    `tl, tl, π/4`, all below the depth-0 value `π/2 − tl` of the crate -/
theorem base_cell_extent : max (dN 1 0) (max (dS 1 0) (dE 1 0)) ≤ π / 2 - tl := by
  have hpi := Real.pi_gt_d2
  have h1 := tl_le
  have eN : dN 1 0 = tl := by
    unfold dN; rw [zero_mul, Real.arcsin_zero, sub_zero, zero_add, one_mul]; rfl
  have eS : dS 1 0 = tl := by
    unfold dS
    rw [zero_mul, Real.arcsin_zero, zero_sub, zero_sub, show (-1 : ℝ) * (2 / 3) = -(2 / 3) by ring, Real.arcsin_neg,
      neg_neg]
    rfl
  have eE : dE 1 0 = 1 * (π / 4) := dE_equator 1 zero_le_one le_rfl
  rw [eN, eS, eE]
  refine max_le (by linarith) (max_le (by linarith) (by linarith))

/-! ## on the cells of the NESTED scheme -/

/-- the position returned by `center` for a cell whose centre is in the closed equatorial band: latitude `latOf cellCy`,
    longitude `cellCx·π/4` modulo `2π` -/
theorem center_lonlat (cfg : Cfg) (d hash b i j : ℕ) (hh : hash < Layer.nHash d)
    (hdec : Layer.decodeHash cfg d hash = some ⟨b, i, j⟩) (hb : b < 12) (hi : i < 2 ^ d) (hj : j < 2 ^ d)
    (hband : |cellCy d b i j| ≤ 1) :
    ∃ m : ℤ, center (α := ℝ) cfg d hash = some (cellCx d b i j * (π / 4) + 2 * π * m, latOf (cellCy d b i j)) := by
  obtain ⟨n0, n8⟩ := norm8_center_range d b i j hb hi hj
  have ho : 0 < 1 / (2 : ℝ) ^ d := by positivity
  obtain ⟨y1, y2⟩ := abs_le.mp hband
  have hu := unproj_band (norm8 (cellCx d b i j)) (cellCy d b i j) n0 (by linarith) hband
  rw [unproj_eq _ _ (by linarith) (by linarith)] at hu
  rw [center_plane cfg d hash b i j hh hdec hb hi hj, hu]
  obtain ⟨m1, e1⟩ := band_lon (norm8 (cellCx d b i j))
  obtain ⟨m3, e3⟩ := norm8_shift (cellCx d b i j)
  refine ⟨m1 + m3, ?_⟩
  rw [e1, e3]
  unfold latOf
  congr 2
  push_cast; ring

/-- **`cell_extent_envelope`** (ℝ, release profile, every depth `1 … 29`, every cell `(b, i, j)` of the NESTED scheme whose
    centre is strictly inside the equatorial band).  `center(d, hash)` succeeds, and for every position `(lon, latOf yp)`
    of the cell (`|yp − cellCy| ≤ 1/n`, `|yp| < 1`) `largest_center_to_vertex_distance(d, lon, latOf yp)` returns a value
    that bounds the angular distance from the centre to every position `(x'·π/4 + 2πm, latOf y')` of the closed diamond
    of the cell. -/
theorem cell_extent_envelope (cfg : Cfg) (d hash b i j : ℕ) (hd1 : 1 ≤ d) (hd2 : d ≤ 29) (hh : hash < Layer.nHash d)
    (hdec : Layer.decodeHash cfg d hash = some ⟨b, i, j⟩) (hb : b < 12) (hi : i < 2 ^ d) (hj : j < 2 ^ d)
    (hband : |cellCy d b i j| < 1) :
    ∃ c : ℝ × ℝ, center (α := ℝ) cfg d hash = some c ∧
      ∀ lon yp : ℝ, |yp - cellCy d b i j| ≤ 1 / 2 ^ d → |yp| < 1 →
        ∃ v, largestC2V false d lon (latOf yp) = some v ∧
          ∀ (x' y' : ℝ) (m : ℤ), InDiamond (cellCx d b i j) (cellCy d b i j) (1 / 2 ^ d) x' y' →
            adist c (x' * (π / 4) + 2 * π * m, latOf y') ≤ v := by
  obtain ⟨hδ0, hδ1⟩ := distCw_range d
  have hy := cellCy_band d b i j hband
  obtain ⟨mc, hc⟩ := center_lonlat cfg d hash b i j hh hdec hb hi hj hband.le
  refine ⟨_, hc, ?_⟩
  intro lon yp hp hp1
  obtain ⟨v, hv, bN, bS, bE⟩ := largestC2V_dominates_in_cell d hd1 hd2 lon yp (cellCy d b i j) hy hp hp1
  refine ⟨v, hv, ?_⟩
  intro x' y' m hin
  unfold InDiamond at hin
  have h := eqr_extent_lonlat (cellCx d b i j * (π / 4) + 2 * π * mc) (x' * (π / 4) + 2 * π * m) (cellCy d b i j)
    (1 / 2 ^ d) (cellCx d b i j - x') (y' - cellCy d b i j) (mc - m) hδ0 hδ1 hy
    (by rw [abs_sub_comm (cellCx d b i j) x']; exact hin) (by push_cast; ring)
  rw [show cellCy d b i j + (y' - cellCy d b i j) = y' by ring] at h
  exact h.trans (max_le bN (max_le bS bE))

/-- **`cell_extent_envelope_radius`**: the same with `largest_center_to_vertex_distance_with_radius(d, lon, lat, r)`,
    depth `2 … 29`, any cone with `|lat| + r < tl` -/
theorem cell_extent_envelope_radius (cfg : Cfg) (d hash b i j : ℕ) (hd1 : 2 ≤ d) (hd2 : d ≤ 29)
    (hh : hash < Layer.nHash d) (hdec : Layer.decodeHash cfg d hash = some ⟨b, i, j⟩) (hb : b < 12) (hi : i < 2 ^ d)
    (hj : j < 2 ^ d) (hband : |cellCy d b i j| < 1) (lon lat r : ℝ) (hA : |lat| + r < tl) :
    ∃ (c : ℝ × ℝ) (v : ℝ), center (α := ℝ) cfg d hash = some c ∧ largestC2VWithRadius false d lon lat r = some v ∧
      ∀ (x' y' : ℝ) (m : ℤ), InDiamond (cellCx d b i j) (cellCy d b i j) (1 / 2 ^ d) x' y' →
        adist c (x' * (π / 4) + 2 * π * m, latOf y') ≤ v := by
  obtain ⟨hδ0, hδ1⟩ := distCw_range d
  have hy := cellCy_band d b i j hband
  obtain ⟨mc, hc⟩ := center_lonlat cfg d hash b i j hh hdec hb hi hj hband.le
  obtain ⟨v, hv, bN, bS, bE⟩ := largestC2VWithRadius_dominates_eqr d hd1 hd2 lon lat r hA (cellCy d b i j) hy
  refine ⟨_, v, hc, hv, ?_⟩
  intro x' y' m hin
  unfold InDiamond at hin
  have h := eqr_extent_lonlat (cellCx d b i j * (π / 4) + 2 * π * mc) (x' * (π / 4) + 2 * π * m) (cellCy d b i j)
    (1 / 2 ^ d) (cellCx d b i j - x') (y' - cellCy d b i j) (mc - m) hδ0 hδ1 hy
    (by rw [abs_sub_comm (cellCx d b i j) x']; exact hin) (by push_cast; ring)
  rw [show cellCy d b i j + (y' - cellCy d b i j) = y' by ring] at h
  exact h.trans (max_le bN (max_le bS bE))

/-- the positions `unproj (norm8 x') y'` of the plane points of the diamond around the reduced centre are of the form
    `(x''·π/4 + 2πm, latOf y')` with `(x'', y')` in the diamond around the un-reduced centre -/
theorem unproj_diamond_lonlat (cx cy δ x' y' : ℝ) (hδ1 : δ ≤ 1) (hx0 : 0 ≤ norm8 cx) (hx8 : norm8 cx + δ ≤ 8)
    (hy : |cy| + δ ≤ 1) (hin : InDiamond (norm8 cx) cy δ x' y') :
    ∃ (x'' : ℝ) (m : ℤ), InDiamond cx cy δ x'' y' ∧
      unproj (α := ℝ) (norm8 x') y' = some (x'' * (π / 4) + 2 * π * m, latOf y') := by
  unfold InDiamond at hin ⊢
  obtain ⟨y1, y2⟩ := abs_le.mp (show |cy| ≤ 1 - δ by linarith)
  obtain ⟨b1, b2⟩ := abs_le.mp (show |y' - cy| ≤ δ by linarith [abs_nonneg (x' - norm8 cx)])
  obtain ⟨a1, a2⟩ := abs_le.mp (show |x' - norm8 cx| ≤ δ by linarith [abs_nonneg (y' - cy)])
  have hyp : |y'| ≤ 1 := abs_le.mpr ⟨by linarith, by linarith⟩
  have hn0 : 0 ≤ norm8 x' := by unfold norm8; split_ifs <;> linarith
  have hn8 : norm8 x' ≤ 8 := by unfold norm8; split_ifs <;> linarith
  obtain ⟨m1, e1⟩ := band_lon (norm8 x')
  obtain ⟨m2, e2⟩ := norm8_shift x'
  obtain ⟨m3, e3⟩ := norm8_shift cx
  refine ⟨x' - 8 * m3, m1 + m2 + m3, ?_, ?_⟩
  · rw [show x' - 8 * (m3 : ℝ) - cx = x' - norm8 cx by rw [e3]; ring]; exact hin
  · rw [unproj_band (norm8 x') y' hn0 hn8 hyp, e1, e2]
    unfold latOf
    congr 2
    push_cast; ring

/-! ## examples: the hypotheses are satisfiable -/

/-- depth 2, cell 77 = base cell 4, `(i, j) = (3, 2)`: centre ordinate `1/2` -/
example : ∃ c : ℝ × ℝ, center (α := ℝ) {} 2 77 = some c ∧
      ∀ lon yp : ℝ, |yp - cellCy 2 4 3 2| ≤ 1 / 2 ^ 2 → |yp| < 1 →
        ∃ v, largestC2V false 2 lon (latOf yp) = some v ∧
          ∀ (x' y' : ℝ) (m : ℤ), InDiamond (cellCx 2 4 3 2) (cellCy 2 4 3 2) (1 / 2 ^ 2) x' y' →
            adist c (x' * (π / 4) + 2 * π * m, latOf y') ≤ v :=
  cell_extent_envelope {} 2 77 4 3 2 (by decide) (by decide) (by decide) (by decide +kernel) (by decide) (by decide)
    (by decide) (by unfold cellCy baseY; norm_num [abs_lt])

/-- depth 3 (`δ = 1/8`), plane centre `(3, 5/8)`, the point `(3 + 1/16, 5/8 − 1/16)` of the south-east edge, evaluated at
    the position of ordinate `3/4` (the north vertex) -/
example : (0 : ℝ) ≤ 3 ∧ (3 : ℝ) + 1 / 2 ^ 3 ≤ 8 ∧ |(5 / 8 : ℝ)| + 1 / 2 ^ 3 ≤ 1 ∧
    |(3 + 1 / 16 : ℝ) - 3| + |(5 / 8 - 1 / 16 : ℝ) - 5 / 8| ≤ 1 / 2 ^ 3 ∧ |(3 / 4 : ℝ) - 5 / 8| ≤ 1 / 2 ^ 3 ∧
    |(3 / 4 : ℝ)| < 1 := by
  norm_num [abs_of_pos, abs_of_neg, abs_lt, abs_le]

end Hpx.CellExtent

#print axioms Hpx.CellExtent.eqr_cell_extent_envelope
#print axioms Hpx.CellExtent.eqr_cell_extent_envelope_radius
#print axioms Hpx.CellExtent.eqr_cell_extent_envelope_radius_band
#print axioms Hpx.CellExtent.cell_extent_envelope
#print axioms Hpx.CellExtent.cell_extent_envelope_radius
