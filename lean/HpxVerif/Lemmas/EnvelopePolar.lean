import HpxVerif.Lemmas.EnvelopeReal6

/-!
# C16 — the true centre-to-vertex distances of a polar-cap cell, over ℝ (polar part 1)

North polar cap, base-cell quarter `k` (`k < 4`, facet centre abscissa `2k + 1`).  A plane point `(x, y)` with
`1 ≤ y ≤ 2` is described by `σ = 2 − y ∈ [0, 1]` (distance to the pole line) and `t = x − (2k + 1)` with `|t| ≤ σ`
(Collignon triangle).  `unproj` sends it to the longitude `(t/σ + 2k + 1)·π/4` and the latitude
`capLat y = 2·arccos(σ/√6) − π/2 = π/2 − 2·arcsin(σ/√6)`, `sin(capLat y) = 1 − σ²/3`.

* `capLat_eq_arcsin`, `sin_capLat'`, `capLat_one`, `capLat_two`, `capLat_anti`, `capLat_range`: the latitude function;
* `unproj_cap`: `unproj` on the closed Collignon triangle (transition latitude `y = 1` and pole `y = 2` included);
* `adist_eq_arccos`: the angular distance as an `arccos`;
* `dNc`, `dSc`, `dEc`: the closed forms; **`true_c2v_cap`**: for a cell of half-diagonal `δ` whose plane centre `(x, y)` is
  strictly inside the north cap (`1 ≤ y − δ`, `y + δ ≤ 2`) and which lies in one base-cell quarter (`|t| + δ ≤ σ`),
  `unproj` succeeds on the centre and on the four vertices and the four angular distances are `dNc`, `dSc`, `dEc`, `dEc`;
* `dNc_central`, `dSc_central`: on the central meridian of the base cell (`t = 0`) the north/south distances are
  latitude differences; `dNc_pole`: the pole cell (`σ = δ`, `t = 0`): the north vertex is the pole, at `π/2 − lat`;
* `fold_cap`: the folded longitude of such a position is `|t/σ|·π/4`.
-/

namespace Hpx.EnvelopePolar
open Hpx Hpx.Proj Hpx.Cover Hpx.C2V Hpx.C2VReal Hpx.EnvelopeReal Real

/-! ## the latitude of the ordinate `y` in the north cap -/

theorem sqrt6_pos : 0 < Real.sqrt 6 := Real.sqrt_pos.mpr (by norm_num)

theorem sqrt6_gt_two : 2 < Real.sqrt 6 := by
  rw [show (2 : ℝ) = Real.sqrt 4 by
    rw [show (4 : ℝ) = 2 ^ 2 by norm_num, Real.sqrt_sq (by norm_num)]]
  exact Real.sqrt_lt_sqrt (by norm_num) (by norm_num)

/-- `σ/√6` for `0 ≤ σ ≤ 1` is in `[0, 1/2)` -/
theorem arg_range (σ : ℝ) (h0 : 0 ≤ σ) (h1 : σ ≤ 1) : 0 ≤ σ * (1 / Real.sqrt 6) ∧ σ * (1 / Real.sqrt 6) < 1 / 2 := by
  have h6 := sqrt6_pos
  have h2 := sqrt6_gt_two
  refine ⟨by positivity, ?_⟩
  rw [mul_one_div, div_lt_iff₀ h6]; linarith

theorem capLat_eq_arcsin (y : ℝ) : capLat y = π / 2 - 2 * Real.arcsin ((2 - y) * (1 / Real.sqrt 6)) := by
  unfold capLat; rw [Real.arccos_eq_pi_div_two_sub_arcsin]; ring

theorem arg_sq (σ : ℝ) : (σ * (1 / Real.sqrt 6)) ^ 2 = σ ^ 2 / 6 := by
  rw [mul_pow, one_div, inv_pow, Real.sq_sqrt (by norm_num : (0 : ℝ) ≤ 6)]; ring

/-- `sin(capLat y) = 1 − (2 − y)²/3` on `1 ≤ y ≤ 2` (the transition latitude included) -/
theorem sin_capLat' (y : ℝ) (hy1 : 1 ≤ y) (hy2 : y ≤ 2) : sin (capLat y) = 1 - (2 - y) ^ 2 / 3 := by
  obtain ⟨a0, a1⟩ := arg_range (2 - y) (by linarith) (by linarith)
  rw [capLat_eq_arcsin, Real.sin_pi_div_two_sub, EnvelopeReal.cos_two_arcsin _ (by linarith) (by linarith), arg_sq]
  ring

theorem capLat_le (y : ℝ) (hy2 : y ≤ 2) : capLat y ≤ π / 2 := by
  rw [capLat_eq_arcsin]
  have := Real.arcsin_nonneg.mpr (show 0 ≤ (2 - y) * (1 / Real.sqrt 6) by
    have := sqrt6_pos; apply mul_nonneg (by linarith) (by positivity))
  linarith

/-- `capLat` decreases with `σ = 2 − y`, i.e. increases with `y` -/
theorem capLat_mono (y₁ y₂ : ℝ) (h : y₁ ≤ y₂) : capLat y₁ ≤ capLat y₂ := by
  rw [capLat_eq_arcsin, capLat_eq_arcsin]
  have h6 := sqrt6_pos
  have : (2 - y₂) * (1 / Real.sqrt 6) ≤ (2 - y₁) * (1 / Real.sqrt 6) :=
    mul_le_mul_of_nonneg_right (by linarith) (by positivity)
  have := Real.arcsin_le_arcsin this
  linarith

theorem capLat_two : capLat 2 = π / 2 := by
  rw [capLat_eq_arcsin]; simp

/-- at the transition ordinate the Collignon latitude is the transition latitude -/
theorem capLat_one : capLat 1 = tl := by
  have hpi := Real.pi_pos
  have h := sin_capLat' 1 le_rfl (by norm_num)
  have h1 := capLat_le 1 (by norm_num)
  have h0 : -(π / 2) ≤ capLat 1 := by
    rw [capLat_eq_arcsin]
    obtain ⟨a0, a1⟩ := arg_range (2 - 1) (by norm_num) (by norm_num)
    have : Real.arcsin ((2 - 1) * (1 / Real.sqrt 6)) ≤ π / 2 := Real.arcsin_le_pi_div_two _
    linarith
  show capLat 1 = Real.arcsin (2 / 3)
  rw [← Real.arcsin_sin h0 h1, h]; norm_num

/-- `tl ≤ capLat y ≤ π/2` on `1 ≤ y ≤ 2` -/
theorem capLat_range (y : ℝ) (hy1 : 1 ≤ y) (hy2 : y ≤ 2) : tl ≤ capLat y ∧ capLat y ≤ π / 2 :=
  ⟨capLat_one ▸ capLat_mono 1 y hy1, capLat_le y hy2⟩

theorem capLat_abs_le (y : ℝ) (hy1 : 1 ≤ y) (hy2 : y ≤ 2) : |capLat y| ≤ π / 2 := by
  obtain ⟨h1, h2⟩ := capLat_range y hy1 hy2
  have := tl_pos
  rw [abs_of_nonneg (by linarith)]; exact h2

/-- `cos(capLat y)² = σ²·(6 − σ²)/9` -/
theorem cos_sq_capLat (y : ℝ) (hy1 : 1 ≤ y) (hy2 : y ≤ 2) :
    cos (capLat y) ^ 2 = (2 - y) ^ 2 * (6 - (2 - y) ^ 2) / 9 := by
  rw [Real.cos_sq', sin_capLat' y hy1 hy2]; ring

theorem cos_capLat_nonneg (y : ℝ) (hy1 : 1 ≤ y) (hy2 : y ≤ 2) : 0 ≤ cos (capLat y) := by
  obtain ⟨h1, h2⟩ := capLat_range y hy1 hy2
  have := tl_pos
  exact Real.cos_nonneg_of_neg_pi_div_two_le_of_le (by linarith) h2

/-! ## `unproj` on the closed Collignon triangle -/

/-- **`unproj` in the north cap**: facet `k < 4`, `1 ≤ y ≤ 2`, `|x − (2k+1)| ≤ 2 − y`, `x < 2k + 2`, and the ordinate
    either on the near side of the pole threshold of the code or the pole itself.  The longitude is
    `((x − (2k+1))/(2 − y) + 2k + 1)·π/4` (`0/0 = 0` at the pole: the facet centre meridian), the latitude `capLat y`. -/
theorem unproj_cap (k : ℕ) (hk : k < 4) (x y : ℝ) (hy1 : 1 ≤ y) (hy2 : y ≤ 2) (ht : |x - (2 * k + 1)| ≤ 2 - y)
    (hx2 : x < 2 * k + 2) (hp : (Num.epsPole : ℝ) < 2 - y ∨ y = 2) :
    unproj (α := ℝ) x y = some (((x - (2 * k + 1)) / (2 - y) + (2 * k + 1)) * (π / 4), capLat y) := by
  obtain ⟨t1, t2⟩ := abs_le.mp ht
  have hx1 : (2 * k : ℝ) ≤ x := by linarith
  rcases eq_or_lt_of_le hy1 with rfl | hy1'
  · -- on the transition latitude: the equatorial formula
    rw [unproj_pos x 1 k (by omega) hx1 hx2 (by norm_num) (by norm_num), if_pos le_rfl, Nat.mod_eq_of_lt (by omega),
      capLat_one]
    congr 2
    · push_cast; ring
    · rw [one_mul]; rfl
  · rcases hp with hp | rfl
    · have hσ : 0 < 2 - y := lt_trans epsPole_pos hp
      rw [unproj_cap_pos k hk x y hx1 hx2 hy1' hy2 hp]
      congr 3
      unfold clamp1
      have h1 : ¬ 1 < (x - (2 * k + 1)) / (2 - y) := by rw [not_lt, div_le_one hσ]; exact t2
      have h2 : ¬ (x - (2 * k + 1)) / (2 - y) < -1 := by rw [not_lt, le_div_iff₀ hσ]; linarith
      rw [if_neg h1, if_neg h2]
    · have hx : x = 2 * k + 1 := by linarith
      subst hx
      rw [unproj_pos _ 2 k (by omega) (by linarith) (by linarith) (by norm_num) le_rfl, if_neg (by norm_num),
        if_neg (by rw [sub_self]; exact not_lt.mpr epsPole_pos.le), Nat.mod_eq_of_lt (by omega)]
      congr 2
      push_cast; simp

/-! ## the angular distance as an `arccos` -/

theorem adist_eq_arccos (p q : ℝ × ℝ) :
    adist p q = Real.arccos (sin p.2 * sin q.2 + cos p.2 * cos q.2 * cos (p.1 - q.1)) := by
  rw [← cos_adist, Real.arccos_cos (adist_nonneg p q) (adist_le_pi p q)]

/-- great-circle distance between two positions of latitudes `φ₁`, `φ₂` whose longitudes differ by `Δ` -/
noncomputable def gcDist (φ₁ φ₂ Δ : ℝ) : ℝ := Real.arccos (sin φ₁ * sin φ₂ + cos φ₁ * cos φ₂ * cos Δ)

theorem adist_eq_gcDist (l₁ φ₁ l₂ φ₂ : ℝ) : adist (l₁, φ₁) (l₂, φ₂) = gcDist φ₁ φ₂ (l₁ - l₂) := adist_eq_arccos _ _

theorem gcDist_neg (φ₁ φ₂ Δ : ℝ) : gcDist φ₁ φ₂ (-Δ) = gcDist φ₁ φ₂ Δ := by unfold gcDist; rw [Real.cos_neg]

/-! ## the closed forms -/

/-- longitude of the plane point of offset `t` at distance `σ` from the pole line, facet `k` -/
noncomputable def capLon (k : ℕ) (t σ : ℝ) : ℝ := (t / σ + (2 * k + 1)) * (π / 4)

/-- centre `(t, σ)` → north vertex `(t, σ − δ)` -/
noncomputable def dNc (δ t σ : ℝ) : ℝ := gcDist (capLat (2 - σ)) (capLat (2 - σ + δ)) ((t / (σ - δ) - t / σ) * (π / 4))
/-- centre `(t, σ)` → south vertex `(t, σ + δ)` -/
noncomputable def dSc (δ t σ : ℝ) : ℝ := gcDist (capLat (2 - σ)) (capLat (2 - σ - δ)) ((t / σ - t / (σ + δ)) * (π / 4))
/-- centre → east (or west) vertex: same parallel, longitudes `(δ/σ)·π/4` apart -/
noncomputable def dEc (δ σ : ℝ) : ℝ := 2 * Real.arcsin (cos (capLat (2 - σ)) * sin (δ / σ * (π / 8)))

/-- **`true_c2v_cap`**: facet `k < 4`, plane centre `(x, y)`, half-diagonal `δ > 0`, with `1 ≤ y − δ` (the centre is
    strictly inside the north cap; the south vertex may be on the transition latitude), `y + δ ≤ 2`,
    `|x − (2k+1)| + δ ≤ 2 − y` (the cell lies in the Collignon triangle of the facet), the centre on the near side of the
    pole threshold of the code and the north vertex either on the near side too or the pole itself (always true for
    cells: `2 − y` and `2 − y − δ` are multiples of `1/nside ≥ 2⁻²⁹ > EPS_POLE`).  With `t = x − (2k+1)`, `σ = 2 − y`: `unproj` succeeds on the centre and on the four
    vertices `(x, y ± δ)`, `(x ± δ, y)`; the centre is at longitude `capLon k t σ`, latitude `capLat y`; and the angular
    distances from the centre to the N, S, E, W vertices are `dNc δ t σ`, `dSc δ t σ`, `dEc δ σ`, `dEc δ σ`. -/
theorem true_c2v_cap (k : ℕ) (hk : k < 4) (x y δ : ℝ) (hδ0 : 0 < δ) (hS : 1 ≤ y - δ) (hN : y + δ ≤ 2)
    (ht : |x - (2 * k + 1)| + δ ≤ 2 - y) (hc : (Num.epsPole : ℝ) < 2 - y)
    (hp : (Num.epsPole : ℝ) < 2 - y - δ ∨ y + δ = 2) :
    ∃ c pN pS pE pW : ℝ × ℝ,
      unproj (α := ℝ) x y = some c ∧ unproj (α := ℝ) x (y + δ) = some pN ∧ unproj (α := ℝ) x (y - δ) = some pS ∧
      unproj (α := ℝ) (x + δ) y = some pE ∧ unproj (α := ℝ) (x - δ) y = some pW ∧
      c = (capLon k (x - (2 * k + 1)) (2 - y), capLat y) ∧
      adist c pN = dNc δ (x - (2 * k + 1)) (2 - y) ∧ adist c pS = dSc δ (x - (2 * k + 1)) (2 - y) ∧
      adist c pE = dEc δ (2 - y) ∧ adist c pW = dEc δ (2 - y) := by
  have hpi := Real.pi_pos
  have he := epsPole_pos
  have hσ0 : 0 < 2 - y := by linarith
  have hσne : 2 - y ≠ 0 := hσ0.ne'
  have hσδ : δ ≤ 2 - y := by have := abs_nonneg (x - (2 * k + 1)); linarith
  obtain ⟨t1, t2⟩ := abs_le.mp (show |x - (2 * k + 1)| ≤ 2 - y - δ by linarith)
  -- the five `unproj`
  have uc := unproj_cap k hk x y (by linarith) (by linarith) (abs_le.mpr ⟨by linarith, by linarith⟩) (by linarith)
    (Or.inl hc)
  have uN := unproj_cap k hk x (y + δ) (by linarith) hN (abs_le.mpr ⟨by linarith, by linarith⟩) (by linarith)
    (by rcases hp with h | h
        · left; linarith
        · right; exact h)
  have uS := unproj_cap k hk x (y - δ) hS (by linarith) (abs_le.mpr ⟨by linarith, by linarith⟩) (by linarith)
    (Or.inl (by linarith))
  have uE := unproj_cap k hk (x + δ) y (by linarith) (by linarith) (abs_le.mpr ⟨by linarith, by linarith⟩)
    (by linarith) (Or.inl hc)
  have uW := unproj_cap k hk (x - δ) y (by linarith) (by linarith) (abs_le.mpr ⟨by linarith, by linarith⟩)
    (by linarith) (Or.inl hc)
  have hr0 : 0 ≤ δ / (2 - y) := by positivity
  have hr1 : δ / (2 - y) ≤ 1 := by rw [div_le_one hσ0]; exact hσδ
  have hs0 : 0 ≤ sin (δ / (2 - y) * (π / 8)) :=
    Real.sin_nonneg_of_nonneg_of_le_pi (by positivity) (by nlinarith)
  refine ⟨_, _, _, _, _, uc, uN, uS, uE, uW, rfl, ?_, ?_, ?_, ?_⟩
  · rw [adist_eq_gcDist, ← gcDist_neg]
    unfold dNc
    rw [show 2 - (2 - y) = y by ring, show 2 - (y + δ) = 2 - y - δ by ring]
    congr 1; ring
  · rw [adist_eq_gcDist]
    unfold dSc
    rw [show 2 - (2 - y) = y by ring, show 2 - (y - δ) = 2 - y + δ by ring]
    congr 1; ring
  · rw [adist_same_lat _ _ _ (-(δ / (2 - y) * (π / 4))) 0 (by field_simp; ring)
      (capLat_abs_le y (by linarith) (by linarith))]
    rw [show -(δ / (2 - y) * (π / 4)) / 2 = -(δ / (2 - y) * (π / 8)) by ring, Real.sin_neg, abs_neg, abs_of_nonneg hs0]
    unfold dEc
    rw [show 2 - (2 - y) = y by ring]
  · rw [adist_same_lat _ _ _ (δ / (2 - y) * (π / 4)) 0 (by field_simp; ring)
      (capLat_abs_le y (by linarith) (by linarith))]
    rw [show δ / (2 - y) * (π / 4) / 2 = δ / (2 - y) * (π / 8) by ring, abs_of_nonneg hs0]
    unfold dEc
    rw [show 2 - (2 - y) = y by ring]

/-! ## special cases of the closed forms -/

/-- same meridian: the great-circle distance is the latitude difference -/
theorem gcDist_zero (φ₁ φ₂ : ℝ) (h1 : |φ₁| ≤ π / 2) (h2 : |φ₂| ≤ π / 2) : gcDist φ₁ φ₂ 0 = |φ₁ - φ₂| := by
  rw [← adist_same_lon 0 0 φ₁ φ₂ 0 (by simp) h1 h2, adist_eq_gcDist, sub_zero]

/-- **central meridian of the base cell** (`t = 0`): centre → north vertex is the latitude difference -/
theorem dNc_central (δ σ : ℝ) (hδ : 0 ≤ δ) (h0 : δ ≤ σ) (h1 : σ ≤ 1) :
    dNc δ 0 σ = capLat (2 - σ + δ) - capLat (2 - σ) := by
  unfold dNc
  rw [zero_div, zero_div, sub_zero, zero_mul,
    gcDist_zero _ _ (capLat_abs_le _ (by linarith) (by linarith)) (capLat_abs_le _ (by linarith) (by linarith)),
    abs_sub_comm, abs_of_nonneg (sub_nonneg.mpr (capLat_mono _ _ (by linarith)))]

/-- **central meridian** (`t = 0`): centre → south vertex is the latitude difference -/
theorem dSc_central (δ σ : ℝ) (hδ : 0 ≤ δ) (h0 : 0 ≤ σ) (h1 : σ + δ ≤ 1) :
    dSc δ 0 σ = capLat (2 - σ) - capLat (2 - σ - δ) := by
  unfold dSc
  rw [zero_div, zero_div, sub_zero, zero_mul,
    gcDist_zero _ _ (capLat_abs_le _ (by linarith) (by linarith)) (capLat_abs_le _ (by linarith) (by linarith)),
    abs_of_nonneg (sub_nonneg.mpr (capLat_mono _ _ (by linarith)))]

/-- **the pole cell** (`σ = δ`, `t = 0`): the north vertex is the pole, at `π/2 − lat` from the centre -/
theorem dNc_pole (δ : ℝ) (hδ : 0 ≤ δ) (h1 : δ ≤ 1) : dNc δ 0 δ = π / 2 - capLat (2 - δ) := by
  rw [dNc_central δ δ hδ le_rfl h1, show 2 - δ + δ = (2 : ℝ) by ring, capLat_two]

/-! ## the folded longitude of a cap position -/

/-- the folded longitude `|π/4 − lon % (π/2)|` of the position of ratio `ρ = t/σ ∈ [−1, 1]` in facet `k` is `|ρ|·π/4` -/
theorem fold_ratio (k : ℕ) (ρ : ℝ) (h1 : -1 ≤ ρ) (h2 : ρ ≤ 1) : fold ((ρ + (2 * k + 1)) * (π / 4)) = |ρ| * (π / 4) := by
  have hpi := Real.pi_pos
  have hy : 0 < π / 2 := by positivity
  have hk0 : (0 : ℝ) ≤ k := Nat.cast_nonneg k
  have hx0 : 0 ≤ (ρ + (2 * k + 1)) * (π / 4) := mul_nonneg (by linarith) (by positivity)
  obtain ⟨e, _, _⟩ := rem_halfPi_of_nonneg _ hx0
  have hq : (ρ + (2 * k + 1)) * (π / 4) / (π / 2) = (ρ + 1) / 2 + k := by field_simp; ring
  unfold fold
  rw [e, hq]
  rcases eq_or_lt_of_le h2 with rfl | h2'
  · have : ⌊((1 : ℝ) + 1) / 2 + k⌋ = (k : ℤ) + 1 := by
      rw [Int.floor_eq_iff]; push_cast; constructor <;> linarith
    rw [this]; push_cast
    rw [show π / 4 - ((1 + (2 * (k : ℝ) + 1)) * (π / 4) - π / 2 * ((k : ℝ) + 1)) = π / 4 by ring, abs_one, one_mul]
    exact abs_of_pos (by positivity)
  · have : ⌊(ρ + 1) / 2 + k⌋ = (k : ℤ) := by
      rw [Int.floor_eq_iff]; push_cast; constructor <;> linarith
    rw [this]; push_cast
    rw [show π / 4 - ((ρ + (2 * (k : ℝ) + 1)) * (π / 4) - π / 2 * (k : ℝ)) = -(ρ * (π / 4)) by ring, abs_neg, abs_mul,
      abs_of_pos (by positivity : 0 < π / 4)]

theorem fold_cap (k : ℕ) (t σ : ℝ) (hσ : 0 ≤ σ) (ht : |t| ≤ σ) : fold (capLon k t σ) = |t / σ| * (π / 4) := by
  obtain ⟨t1, t2⟩ := abs_le.mp ht
  unfold capLon
  rcases eq_or_lt_of_le hσ with rfl | hpos
  · rw [div_zero]
    exact fold_ratio k 0 (by norm_num) (by norm_num)
  · exact fold_ratio k (t / σ) (by rw [le_div_iff₀ hpos]; linarith) (by rw [div_le_one hpos]; exact t2)

/-! ## example: the hypotheses are satisfiable -/

/-- depth 2 (`δ = 1/4`), facet 0, the cell `(i, j) = (2, 3)` next to the pole cell: centre `(3/4, 3/2)` -/
example : (0 : ℝ) < 1 / 4 ∧ (1 : ℝ) ≤ 3 / 2 - 1 / 4 ∧ (3 / 2 : ℝ) + 1 / 4 ≤ 2 ∧
    |(3 / 4 : ℝ) - (2 * (0 : ℕ) + 1)| + 1 / 4 ≤ 2 - 3 / 2 ∧ (Num.epsPole : ℝ) < 2 - 3 / 2 ∧
    ((Num.epsPole : ℝ) < 2 - 3 / 2 - 1 / 4 ∨ (3 / 2 : ℝ) + 1 / 4 = 2) := by
  have := epsPole_lt_small
  refine ⟨by norm_num, by norm_num, by norm_num, ?_, by linarith, Or.inl (by linarith)⟩
  rw [abs_of_neg (by norm_num)]; norm_num

end Hpx.EnvelopePolar

#print axioms Hpx.EnvelopePolar.unproj_cap
#print axioms Hpx.EnvelopePolar.true_c2v_cap
#print axioms Hpx.EnvelopePolar.dNc_central
#print axioms Hpx.EnvelopePolar.dSc_central
#print axioms Hpx.EnvelopePolar.dNc_pole
#print axioms Hpx.EnvelopePolar.fold_cap
