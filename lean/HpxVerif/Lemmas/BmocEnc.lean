import HpxVerif.Lemmas.BmocSem
import Mathlib.Tactic.Ring
import Mathlib.Tactic.Linarith

/-! Raw encoding: `Cell::new ∘ build_raw_value = id`, raw order = z-order, change of reference depth. -/

namespace Hpx.Bmoc

theorem tzAux_odd_mul (n j m : Nat) (hm : m % 2 = 1) (hj : j < n) : tzAux n (m * 2 ^ j) = j := by
  induction j generalizing n with
  | zero =>
    cases n with
    | zero => omega
    | succ n => simp [tzAux, hm]
  | succ j ih =>
    cases n with
    | zero => omega
    | succ n =>
      have h1 : m * 2 ^ (j + 1) = 2 * (m * 2 ^ j) := by rw [Nat.pow_succ]; ac_rfl
      have h2 : (m * 2 ^ (j + 1)) % 2 = 0 := by omega
      have h3 : (m * 2 ^ (j + 1)) / 2 = m * 2 ^ j := by omega
      simp only [tzAux, h2, h3]
      rw [ih n (by omega)]
      simp; omega

theorem tz64_odd_mul (j m : Nat) (hm : m % 2 = 1) (hlt : m * 2 ^ j < 2 ^ 64) : tz64 (m * 2 ^ j) = j := by
  have hpos : 0 < m * 2 ^ j := Nat.mul_pos (by omega) (Nat.two_pow_pos j)
  have hj : j < 64 := by
    apply Nat.lt_of_not_le; intro hge
    have : 2 ^ 64 ≤ 2 ^ j := Nat.pow_le_pow_right (by decide) hge
    have : 2 ^ j ≤ m * 2 ^ j := Nat.le_mul_of_pos_left _ (by omega)
    omega
  unfold tz64
  rw [Nat.mod_eq_of_lt hlt]
  have : ¬ (m * 2 ^ j = 0) := by omega
  simp only [this, if_false]
  exact tzAux_odd_mul 64 j m hm hj

/-- shape of a raw value: `(2h+1)·2^(1+2k) + flag`, `k = depth_max − depth` -/
theorem buildRaw_eq (d h : Nat) (f : Bool) (dm : Nat) :
    buildRaw d h f dm = (2 * h + 1) * 2 ^ (1 + 2 * (dm - d)) + (if f then 1 else 0) := by
  unfold buildRaw
  have e1 : (h <<< 1) ||| 1 = 2 * h + 1 := by
    rw [Nat.shiftLeft_eq, Nat.pow_one]
    have := Nat.two_pow_add_eq_or_of_lt (i := 1) (b := 1) (by decide) h
    simp at this
    rw [Nat.mul_comm h 2, ← this]
  have e2 : (dm - d) <<< 1 = 2 * (dm - d) := by rw [Nat.shiftLeft_eq, Nat.pow_one]; omega
  rw [e1, e2, Nat.shiftLeft_eq]
  have hlt : (if f then 1 else 0) < 2 ^ (1 + 2 * (dm - d)) := by
    have : 2 ≤ 2 ^ (1 + 2 * (dm - d)) := by
      calc 2 = 2 ^ 1 := rfl
        _ ≤ 2 ^ (1 + 2 * (dm - d)) := Nat.pow_le_pow_right (by decide) (by omega)
    split <;> omega
  have := Nat.two_pow_add_eq_or_of_lt hlt (2 * h + 1)
  rw [Nat.mul_comm] at this
  exact this.symm

/-- `Cell::new (build_raw_value d h f dm) = (d, h, f)` whenever the raw value fits in 64 bits -/
theorem decode_buildRaw (d h : Nat) (f : Bool) (dm : Nat) (hd : d ≤ dm)
    (hfit : (2 * h + 1) * 2 ^ (1 + 2 * (dm - d)) < 2 ^ 64) :
    decode (buildRaw d h f dm) dm = { depth := d, hash := h, full := f } := by
  have hk : 1 + 2 * (dm - d) = (2 * (dm - d)) + 1 := by omega
  have hraw := buildRaw_eq d h f dm
  have hfb : (if f then 1 else 0) < 2 := by split <;> omega
  -- raw >>> 1
  have h1 : buildRaw d h f dm >>> 1 = (2 * h + 1) * 2 ^ (2 * (dm - d)) := by
    rw [hraw, Nat.shiftRight_eq_div_pow, Nat.pow_one, hk, Nat.pow_succ]
    have : (2 * h + 1) * (2 ^ (2 * (dm - d)) * 2) = 2 * ((2 * h + 1) * 2 ^ (2 * (dm - d))) := by ac_rfl
    rw [this]; omega
  have hfit2 : (2 * h + 1) * 2 ^ (2 * (dm - d)) < 2 ^ 64 := by
    have : (2 * h + 1) * 2 ^ (2 * (dm - d)) ≤ (2 * h + 1) * 2 ^ (1 + 2 * (dm - d)) :=
      Nat.mul_le_mul_left _ (Nat.pow_le_pow_right (by decide) (by omega))
    omega
  have htz : tz64 (buildRaw d h f dm >>> 1) = 2 * (dm - d) := by
    rw [h1]; exact tz64_odd_mul _ _ (by omega) hfit2
  have hdd : (2 * (dm - d)) >>> 1 = dm - d := by rw [Nat.shiftRight_eq_div_pow]; omega
  have hsh : ((dm - d) <<< 1) = 2 * (dm - d) := by rw [Nat.shiftLeft_eq, Nat.pow_one]; omega
  unfold decode
  simp only [htz, hdd, hsh]
  have hdepth : dm - (dm - d) = d := by omega
  have hhash : buildRaw d h f dm >>> (2 + 2 * (dm - d)) = h := by
    rw [hraw, Nat.shiftRight_eq_div_pow]
    have e : 2 ^ (2 + 2 * (dm - d)) = 2 ^ (1 + 2 * (dm - d)) * 2 := by rw [← Nat.pow_succ]; congr 1; omega
    rw [e, ← Nat.div_div_eq_div_mul]
    have hp : 0 < 2 ^ (1 + 2 * (dm - d)) := Nat.two_pow_pos _
    have hlt : (if f then 1 else 0) < 2 ^ (1 + 2 * (dm - d)) := by
      have : 2 ≤ 2 ^ (1 + 2 * (dm - d)) := by
        calc 2 = 2 ^ 1 := rfl
          _ ≤ 2 ^ (1 + 2 * (dm - d)) := Nat.pow_le_pow_right (by decide) (by omega)
      omega
    rw [Nat.mul_comm, Nat.mul_add_div hp, Nat.div_eq_of_lt hlt]
    omega
  have hflag : (buildRaw d h f dm &&& 1 == 1) = f := by
    rw [hraw, Nat.and_one_is_mod, hk, Nat.pow_succ]
    have : (2 * h + 1) * (2 ^ (2 * (dm - d)) * 2) = 2 * ((2 * h + 1) * 2 ^ (2 * (dm - d))) := by ac_rfl
    rw [this]
    cases f <;> simp <;> omega
  rw [hdepth, hhash, hflag]

/-- fits in 64 bits for every valid cell of a BMOC of depth `≤ 29` -/
theorem raw_fits {d h dm : Nat} (hd : d ≤ dm) (hdm : dm ≤ 29) (hh : h < 12 * 4 ^ d) :
    (2 * h + 1) * 2 ^ (1 + 2 * (dm - d)) < 2 ^ 64 := by
  have h4 : (4 : Nat) ^ d = 2 ^ (2 * d) := by rw [Nat.pow_mul]
  have e : 2 ^ (2 * d) * 2 ^ (1 + 2 * (dm - d)) = 2 ^ (1 + 2 * dm) := by rw [← Nat.pow_add]; congr 1; omega
  have hle : 2 ^ (1 + 2 * dm) ≤ 2 ^ 59 := Nat.pow_le_pow_right (by decide) (by omega)
  have h1 : 2 * h + 1 < 24 * 2 ^ (2 * d) := by omega
  calc (2 * h + 1) * 2 ^ (1 + 2 * (dm - d)) < (24 * 2 ^ (2 * d)) * 2 ^ (1 + 2 * (dm - d)) :=
        Nat.mul_lt_mul_of_pos_right h1 (Nat.two_pow_pos _)
    _ = 24 * 2 ^ (1 + 2 * dm) := by rw [Nat.mul_assoc, e]
    _ ≤ 24 * 2 ^ 59 := Nat.mul_le_mul_left _ hle
    _ < 2 ^ 64 := by decide

theorem decode_encode {dm : Nat} {c : Cell} (hd : c.depth ≤ dm) (hdm : dm ≤ 29) (hh : c.hash < 12 * 4 ^ c.depth) :
    decode (encode dm c) dm = c := by
  unfold encode
  rw [decode_buildRaw c.depth c.hash c.full dm hd (raw_fits hd hdm hh)]

/-- raw order is z-order: a cell lying entirely before another one has the smaller raw value -/
theorem encode_lt {dm : Nat} {c1 c2 : Cell} (h1 : c1.depth ≤ dm) (h2 : c2.depth ≤ dm)
    (hlt : hi dm c1 ≤ lo dm c2) : encode dm c1 < encode dm c2 := by
  unfold encode
  rw [buildRaw_eq, buildRaw_eq]
  unfold hi lo at hlt
  have e1 : (2:Nat) ^ (1 + 2 * (dm - c1.depth)) = 2 * 4 ^ (dm - c1.depth) := by
    rw [Nat.pow_add, Nat.pow_mul]
  have e2 : (2:Nat) ^ (1 + 2 * (dm - c2.depth)) = 2 * 4 ^ (dm - c2.depth) := by
    rw [Nat.pow_add, Nat.pow_mul]
  rw [e1, e2]
  have p1 : 0 < 4 ^ (dm - c1.depth) := Nat.pow_pos (by decide)
  have p2 : 0 < 4 ^ (dm - c2.depth) := Nat.pow_pos (by decide)
  generalize 4 ^ (dm - c1.depth) = w1 at *
  generalize 4 ^ (dm - c2.depth) = w2 at *
  have f1 : (if c1.full then 1 else 0) ≤ 1 := by split <;> omega
  have a1 : (2 * c1.hash + 1) * (2 * w1) = 4 * (c1.hash * w1) + 2 * w1 := by ring
  have a2 : (2 * c2.hash + 1) * (2 * w2) = 4 * (c2.hash * w2) + 2 * w2 := by ring
  have a3 : (c1.hash + 1) * w1 = c1.hash * w1 + w1 := by ring
  rw [a1, a2]
  rw [a3] at hlt
  omega

end Hpx.Bmoc
