import HpxVerif.Lemmas.SqrtApprox2
import HpxVerif.Lemmas.RingBij4

/-!
# The `f64` square root used by `from_ring` (C10/C11): error bound and discharge of `RingBij.ApproxOK`

`isqrtF64 y = (Float.sqrt (Float.ofNat y)).toUInt64.toNat` is within 1 of `⌊√y⌋ = Nat.sqrt y` for every `0 < y < 2^61`
(proved from Lean's logical model of `Float`, for all `y`, no sampling), hence the `f64` estimate of the polar-cap ring index
is within 1 of the exact index for every `x < 2^60`: `approxOK_2_60 : RingBij.ApproxOK (2 ^ 60)`.
-/

open Float.Model Float.Model.UnpackedFloat

namespace Hpx.SqrtApprox
open Hpx.Layer

/-! ## integer square roots -/

/-- characterisation of `Nat.sqrt` -/
theorem nat_sqrt_eq_iff (n r : Nat) : n.sqrt = r ↔ r * r ≤ n ∧ n < (r + 1) * (r + 1) := by
  have a := Nat.sqrt_le n
  have b := Nat.lt_succ_sqrt n
  simp only [Nat.succ_eq_add_one] at b
  constructor
  · rintro rfl; exact ⟨a, b⟩
  · rintro ⟨h1, h2⟩
    have c1 : n.sqrt < r + 1 := Nat.mul_self_lt_mul_self_iff.1 (by omega)
    have c2 : r < n.sqrt + 1 := Nat.mul_self_lt_mul_self_iff.1 (by omega)
    omega

theorem nat_sqrt_mono {a b : Nat} (h : a ≤ b) : a.sqrt ≤ b.sqrt := by
  have h1 := Nat.sqrt_le a
  have h2 := Nat.lt_succ_sqrt b
  simp only [Nat.succ_eq_add_one] at h2
  have : a.sqrt < b.sqrt + 1 := Nat.mul_self_lt_mul_self_iff.1 (by omega)
  omega

/-- scaling by an even power of two: `⌊√(v·4^k)⌋ = r` satisfies `⌊√v⌋·2^k ≤ r < (⌊√v⌋+1)·2^k` -/
theorem sqrt_scale (v k : Nat) :
    v.sqrt * 2 ^ k ≤ (v * 4 ^ k).sqrt ∧ (v * 4 ^ k).sqrt + 1 ≤ (v.sqrt + 1) * 2 ^ k := by
  have a := Nat.sqrt_le v
  have b := Nat.lt_succ_sqrt v
  have c := Nat.sqrt_le (v * 4 ^ k)
  have d := Nat.lt_succ_sqrt (v * 4 ^ k)
  simp only [Nat.succ_eq_add_one] at b d
  have e4 : 4 ^ k = 2 ^ k * 2 ^ k := by rw [← Nat.mul_pow]
  constructor
  · have : v.sqrt * 2 ^ k < (v * 4 ^ k).sqrt + 1 := by
      apply Nat.mul_self_lt_mul_self_iff.1
      calc v.sqrt * 2 ^ k * (v.sqrt * 2 ^ k) = v.sqrt * v.sqrt * 4 ^ k := by rw [e4]; ring
        _ ≤ v * 4 ^ k := Nat.mul_le_mul_right _ a
        _ < _ := d
    omega
  · have : (v * 4 ^ k).sqrt < (v.sqrt + 1) * 2 ^ k := by
      apply Nat.mul_self_lt_mul_self_iff.1
      calc (v * 4 ^ k).sqrt * (v * 4 ^ k).sqrt ≤ v * 4 ^ k := c
        _ < (v.sqrt + 1) * (v.sqrt + 1) * 4 ^ k := Nat.mul_lt_mul_of_pos_right b (Nat.pow_pos (by decide))
        _ = _ := by rw [e4]; ring
    omega

/-- floor of `r / 2^k` for `r = ⌊√(v·4^k)⌋` or `r + 1` -/
theorem sqrt_scale_div (v k r : Nat) (hr : r = (v * 4 ^ k).sqrt ∨ r = (v * 4 ^ k).sqrt + 1) :
    v.sqrt ≤ r / 2 ^ k ∧ r / 2 ^ k ≤ v.sqrt + 1 := by
  obtain ⟨h1, h2⟩ := sqrt_scale v k
  have hp : 0 < 2 ^ k := Nat.pow_pos (by decide)
  constructor
  · rw [Nat.le_div_iff_mul_le hp]; omega
  · have : r / 2 ^ k < v.sqrt + 1 + 1 := by
      rw [Nat.div_lt_iff_lt_mul hp]
      have : (v.sqrt + 1 + 1) * 2 ^ k = (v.sqrt + 1) * 2 ^ k + 2 ^ k := by ring
      omega
    omega

/-- perturbing `y ≥ 2^52`, `y < 2^61` by less than `2^9` moves the integer square root by at most one -/
theorem sqrt_perturb (y v : Nat) (hy : y < 2 ^ 61) (h1 : v ≤ y + y / 2 ^ 52) (h2 : y ≤ v + y / 2 ^ 52) :
    y.sqrt ≤ v.sqrt + 1 ∧ v.sqrt ≤ y.sqrt + 1 := by
  by_cases hs : y < 2 ^ 52
  · have : y / 2 ^ 52 = 0 := Nat.div_eq_of_lt hs
    have : v = y := by omega
    subst this; omega
  · have hd : y / 2 ^ 52 < 2 ^ 9 := by omega
    have a := Nat.sqrt_le y
    have b := Nat.lt_succ_sqrt y
    simp only [Nat.succ_eq_add_one] at b
    have hS : 2 ^ 26 ≤ y.sqrt := by
      by_contra hc
      have : (y.sqrt + 1) * (y.sqrt + 1) ≤ 2 ^ 26 * 2 ^ 26 := Nat.mul_le_mul (by omega) (by omega)
      omega
    constructor
    · -- (S - 1)^2 ≤ v
      have : (y.sqrt - 1) * (y.sqrt - 1) ≤ v := by
        obtain ⟨s, hs⟩ : ∃ s, y.sqrt = s + 1 := ⟨y.sqrt - 1, by omega⟩
        rw [hs] at a hS ⊢
        have : (s + 1) * (s + 1) = s * s + 2 * s + 1 := by ring
        simp only [Nat.add_sub_cancel]
        omega
      have := nat_sqrt_mono this
      rw [(nat_sqrt_eq_iff _ (y.sqrt - 1)).2 ⟨Nat.le_refl _, Nat.mul_self_lt_mul_self (by omega)⟩] at this
      omega
    · have : v < (y.sqrt + 2) * (y.sqrt + 2) := by
        have : (y.sqrt + 2) * (y.sqrt + 2) = (y.sqrt + 1) * (y.sqrt + 1) + 2 * y.sqrt + 3 := by ring
        omega
      have : v.sqrt < y.sqrt + 2 := Nat.mul_self_lt_mul_self_iff.1 (by have := Nat.sqrt_le v; omega)
      omega

/-- the relative error `2^-52` of the conversion is below the integer square root -/
theorem div_le_sqrt (y : Nat) (hy : y < 2 ^ 61) : y / 2 ^ 52 ≤ y.sqrt := by
  by_cases hs : y < 2 ^ 52
  · rw [Nat.div_eq_of_lt hs]; omega
  · have b := Nat.lt_succ_sqrt y
    simp only [Nat.succ_eq_add_one] at b
    have hS : 2 ^ 26 ≤ y.sqrt := by
      by_contra hc
      have : (y.sqrt + 1) * (y.sqrt + 1) ≤ 2 ^ 26 * 2 ^ 26 := Nat.mul_le_mul (by omega) (by omega)
      omega
    omega

/-- the tight upper bound: a faithfully rounded root of a faithfully rounded argument, scaled by `2^k` (`k ≥ 1`),
    has floor at most `⌊√y⌋ + 1` -/
theorem upper_tight (y v k r : Nat) (hy : y < 2 ^ 61) (h1 : v ≤ y + y / 2 ^ 52) (hk : 1 ≤ k)
    (hr : r ≤ (v * 4 ^ k).sqrt + 1) : r / 2 ^ k ≤ y.sqrt + 1 := by
  have hd := div_le_sqrt y hy
  generalize y / 2 ^ 52 = d at h1 hd
  have b := Nat.lt_succ_sqrt y
  simp only [Nat.succ_eq_add_one] at b
  have c := Nat.sqrt_le (v * 4 ^ k)
  generalize y.sqrt = S at *
  generalize (v * 4 ^ k).sqrt = root at *
  have e4 : 4 ^ k = 2 ^ k * 2 ^ k := by rw [← Nat.mul_pow]
  have hK : 2 ≤ 2 ^ k := by
    calc 2 = 2 ^ 1 := rfl
      _ ≤ 2 ^ k := Nat.pow_le_pow_right (by decide) hk
  generalize 2 ^ k = K at *
  rw [e4] at c
  have hlt : r / K < S + 2 := by
    rw [Nat.div_lt_iff_lt_mul (by omega)]
    by_contra hc
    obtain ⟨T, hT⟩ : ∃ T, (S + 2) * K = T + 1 := ⟨(S + 2) * K - 1, by
      have : 0 < (S + 2) * K := Nat.mul_pos (by omega) (by omega)
      omega⟩
    have hTr : T ≤ root := by omega
    have h2 : T * T ≤ root * root := Nat.mul_le_mul hTr hTr
    -- `(T + 1)^2 = (S + 2)^2 K^2`
    have h3 : (T + 1) * (T + 1) = S * S * (K * K) + 4 * (S * (K * K)) + 4 * (K * K) := by
      rw [← hT]; ring
    have h4 : (T + 1) * (T + 1) = T * T + 2 * T + 1 := by ring
    have h5 : 2 * T + 2 = 2 * (S * K) + 4 * K := by
      have : 2 * (T + 1) = 2 * ((S + 2) * K) := by rw [hT]
      rw [show 2 * ((S + 2) * K) = 2 * (S * K) + 4 * K by ring] at this
      omega
    -- `v K^2 ≤ (S^2 + 2 S + d) K^2 ≤ (S^2 + 3 S) K^2`
    have h6 : v * (K * K) ≤ (S * S + 3 * S) * (K * K) := by
      apply Nat.mul_le_mul_right
      have : (S + 1) * (S + 1) = S * S + 2 * S + 1 := by ring
      omega
    have h7 : (S * S + 3 * S) * (K * K) = S * S * (K * K) + 3 * (S * (K * K)) := by ring
    -- `S K^2 ≥ 2 S K`, `K^2 ≥ 2 K`
    have h8 : 2 * (S * K) ≤ S * (K * K) := by
      have : S * K * 2 ≤ S * K * K := Nat.mul_le_mul_left _ hK
      rw [show S * (K * K) = S * K * K by ring]; omega
    have h9 : 2 * K ≤ K * K := Nat.mul_le_mul_right _ hK
    omega
  omega

/-! ## the error bound -/

/-- **`isqrtF64 y ∈ {⌊√y⌋ - 1, ⌊√y⌋, ⌊√y⌋ + 1}` for every `0 < y < 2^61`** (the value `⌊√y⌋ + 1` does occur: see the
    example at the end) -/
theorem isqrtF64_bounds (y : Nat) (h0 : 0 < y) (hy : y < 2 ^ 61) :
    y.sqrt ≤ isqrtF64 y + 1 ∧ isqrtF64 y ≤ y.sqrt + 1 := by
  obtain ⟨m, e, h, v, hun, hm1, hm2, he1, he2, hv, hv1, hv2⟩ := float_ofNat_spec y h0 (by omega)
  obtain ⟨m2, e2, h2, hsq, hb1, hb2, hcase⟩ := sqrt_spec m e h hm1 hm2 (by omega) (by omega)
  obtain ⟨hp1, hp2⟩ := sqrt_perturb y v hy hv1 hv2
  -- the exponents: `te = e / 2 - 26 = -k`, `e - 2 te = e + 2 k`
  obtain ⟨k, hk⟩ : ∃ k : Nat, e / 2 - 26 = -(k : Int) := ⟨(26 - e / 2).toNat, by omega⟩
  have hk20 : 20 ≤ k := by omega
  have hM : m * 2 ^ (e - 2 * (e / 2 - 26)).toNat = v * 4 ^ k := by
    have h4 : (4 : Nat) ^ k = 2 ^ (2 * k) := by rw [Nat.pow_mul]
    have hs : (e - 2 * (e / 2 - 26)).toNat + 52 = (e + 52).toNat + 2 * k := by omega
    have : m * 2 ^ (e - 2 * (e / 2 - 26)).toNat * 2 ^ 52 = v * 4 ^ k * 2 ^ 52 := by
      rw [Nat.mul_assoc, ← Nat.pow_add, hs, Nat.pow_add, ← Nat.mul_assoc, hv, h4]; ring
    exact Nat.eq_of_mul_eq_mul_right (by decide) this
  rw [hM, hk] at hcase
  have hval : ∃ r, (r = (v * 4 ^ k).sqrt ∨ r = (v * 4 ^ k).sqrt + 1) ∧ isqrtF64 y = r / 2 ^ k := by
    unfold isqrtF64
    rw [toUInt64_eq, toModel_sqrt, hun, hsq, model_unpack_pack m2 e2 h2 hb1 hb2 (by omega) (by omega)]
    rcases hcase with ⟨rfl, rfl⟩ | ⟨rfl, rfl⟩ | ⟨h53, rfl, rfl⟩
    · exact ⟨_, Or.inl rfl, toUInt64_spec _ _ _ k rfl (Nat.lt_of_le_of_lt (Nat.div_le_self _ _) (by omega))⟩
    · exact ⟨_, Or.inr rfl, toUInt64_spec _ _ _ k rfl (Nat.lt_of_le_of_lt (Nat.div_le_self _ _) (by omega))⟩
    · refine ⟨_, Or.inr rfl, ?_⟩
      obtain ⟨j, rfl⟩ : ∃ j, k = j + 1 := ⟨k - 1, by omega⟩
      rw [toUInt64_spec _ _ _ j (by omega) (Nat.lt_of_le_of_lt (Nat.div_le_self _ _) (by decide)), h53, Nat.pow_succ 2 j, Nat.mul_comm (2 ^ j),
        ← Nat.div_div_eq_div_mul]
      rfl
  obtain ⟨r, hr, hres⟩ := hval
  obtain ⟨hd1, hd2⟩ := sqrt_scale_div v k r hr
  have hup := upper_tight y v k r hy hv1 (by omega) (by omega)
  omega

/-- an instance of the hypotheses, evaluated in the kernel -/
example : 0 < 2 ^ 60 + 12345 ∧ 2 ^ 60 + 12345 < 2 ^ 61 ∧ isqrtF64 (2 ^ 60 + 12345) = 1073741824 ∧
    (2 ^ 60 + 12345).sqrt = 1073741824 := by decide +kernel

/-! ## the ring-index estimate -/

/-- **the `f64` estimate of the polar-cap ring index is within 1 of the exact index**, for every `x < 2^60` -/
theorem polarRingApprox_within_one (x t : Nat) (hx : x < 2 ^ 60) (h1 : tri4 t ≤ x) (h2 : x < tri4 (t + 1)) :
    polarRingApprox x ≤ t + 1 ∧ t ≤ polarRingApprox x + 1 := by
  rw [RingBij.tri4_eq] at h1 h2
  have hy : 1 + x <<< 1 = 2 * x + 1 := by rw [Nat.shiftLeft_eq]; omega
  obtain ⟨hb1, hb2⟩ := isqrtF64_bounds (2 * x + 1) (by omega) (by omega)
  -- `2 t + 1 ≤ ⌊√(2x+1)⌋ ≤ 2 t + 2`
  have a := Nat.sqrt_le (2 * x + 1)
  have b := Nat.lt_succ_sqrt (2 * x + 1)
  simp only [Nat.succ_eq_add_one] at b
  have e1 : (2 * t + 1) * (2 * t + 1) = 4 * (t * t) + 4 * t + 1 := by ring
  have e2 : (2 * t + 3) * (2 * t + 3) = 4 * ((t + 1) * (t + 1)) + 4 * (t + 1) + 1 := by ring
  have c1 : 2 * t + 1 < (2 * x + 1).sqrt + 1 := Nat.mul_self_lt_mul_self_iff.1 (by omega)
  have c2 : (2 * x + 1).sqrt < 2 * t + 3 := Nat.mul_self_lt_mul_self_iff.1 (by omega)
  unfold polarRingApprox
  rw [hy, Nat.shiftRight_eq_div_pow]
  omega

/-- **the hypothesis of C10/C11 on `f64::sqrt` holds**: below `2^60` (all depths `≤ 29`) the float estimate of the ring
    index is within 4 (in fact within 1) of the exact one -/
theorem approxOK_2_60 : RingBij.ApproxOK (2 ^ 60) := by
  intro x t hx h1 h2
  obtain ⟨a, b⟩ := polarRingApprox_within_one x t hx h1 h2
  exact ⟨by omega, by omega⟩

/-- … for every depth `≤ 29` in the form used by `RingBij4` -/
theorem approxOK_depth (d : Nat) (hd : d ≤ 29) : RingBij.ApproxOK (firstHashInEqr d) :=
  RingBij.approxOK_of_lt_2_60 approxOK_2_60 d hd

/-- the float ring-index function (estimate + 4 correction steps) is the exact one below `2^60` -/
theorem realRI_eq_exactRI (x : Nat) (hx : x < 2 ^ 60) : RingBij.realRI x = RingBij.exactRI x :=
  RingBij.realRI_eq approxOK_2_60 x hx

/-- `isqrtF64 0 = 0` -/
example : isqrtF64 0 = 0 := by decide +kernel

/-- the bound is attained: the estimate is one too large for the last cell of the polar ring 67108862 at depth 26
    (finding F2), and one too small nowhere in this example; and an instance of the hypotheses -/
example : tri4 67108862 ≤ 9007199120523263 ∧ 9007199120523263 < tri4 (67108862 + 1) ∧
    polarRingApprox 9007199120523263 = 67108862 + 1 ∧
    isqrtF64 (1 + 9007199120523263 <<< 1) = (1 + 9007199120523263 <<< 1).sqrt + 1 := by decide +kernel

end Hpx.SqrtApprox

#print axioms Hpx.SqrtApprox.isqrtF64_bounds
#print axioms Hpx.SqrtApprox.approxOK_2_60
