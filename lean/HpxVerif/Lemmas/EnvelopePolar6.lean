import HpxVerif.Lemmas.EnvelopePolar5

/-!
# C16 — the finding next to the poles, all eight pairs of cells per depth (polar part 6)

`c2v_below_true_next_to_pole` (part 2) treats the cell `(i, j) = (nside − 2, nside − 1)` of the north base cells.  The
same holds for its mirror image `(nside − 1, nside − 2)` through the central meridian of the base cell, and for the two
neighbours `(0, 1)`, `(1, 0)` of the south-pole cell of the south base cells.

* `next_to_pole_plane`: plane coordinates, north cap, facet `k`, centre `(2k + 1 + s·δ, 2 − 2δ)` with `s = ±1`: for the
  points `(2k + 1 + s·τ, 2 − 2δ)`, `0 ≤ τ < r0` (`τ = 0`: the vertex of the cell lying on the central meridian of the base
  cell; `τ = δ`: the centre), the function returns less than the distance from the centre to the vertex nearest to the pole;
* **`c2v_below_true_next_to_north_pole`**: cells `{i, j} = {nside − 1, nside − 2}` of the north base cells;
* **`c2v_below_true_next_to_south_pole`**: cells `{i, j} = {0, 1}` of the south base cells (the far vertex is the S one).
-/

namespace Hpx.EnvelopePolar
open Hpx Hpx.Hash Hpx.Proj Hpx.Cover Hpx.C2V Hpx.C2VReal Hpx.EnvelopeReal Hpx.CellReal Real

theorem dNc_neg (δ t σ : ℝ) : dNc δ (-t) σ = dNc δ t σ := by
  unfold dNc
  rw [← gcDist_neg]
  congr 1; ring

/-- **plane version** (ℝ, every depth `2 … 29`, `δ = 1/2^d`, facet `k < 4`, `s = ±1`): the plane cell of centre
    `(2k + 1 + s·δ, 2 − 2δ)`, next to the pole cell along the seam.  `c`, `n`: the un-projected centre and north vertex.
    For `0 ≤ τ < r0` the point `(2k + 1 + s·τ, 2 − 2δ)` of the cell (`τ = 0`: its vertex on the central meridian)
    un-projects to a position `p` of the north cap where the function is strictly below `adist c n`. -/
theorem next_to_pole_plane (d k : ℕ) (hd1 : 2 ≤ d) (hd2 : d ≤ 29) (hk : k < 4) (s : ℝ) (hs : s = 1 ∨ s = -1) :
    ∃ (c n : ℝ × ℝ) (r0 : ℝ),
      unproj (α := ℝ) (2 * k + 1 + s * (1 / 2 ^ d)) (2 - 2 * (1 / 2 ^ d)) = some c ∧
      unproj (α := ℝ) (2 * k + 1 + s * (1 / 2 ^ d)) (2 - 2 * (1 / 2 ^ d) + 1 / 2 ^ d) = some n ∧
      0 ≤ c.2 ∧ 0 ≤ n.2 ∧ 0 < r0 ∧ r0 ≤ 1 / 2 ^ d ∧
      ∀ τ, 0 ≤ τ → τ < r0 →
        ∃ (p : ℝ × ℝ) (v : ℝ), unproj (α := ℝ) (2 * k + 1 + s * τ) (2 - 2 * (1 / 2 ^ d)) = some p ∧ 0 ≤ p.2 ∧
          tl ≤ |p.2| ∧ largestC2V false d p.1 p.2 = some v ∧ v < adist c n := by
  have hpi := Real.pi_pos
  obtain ⟨hδ0, hδ4⟩ := quarter_pow_range d hd1
  have heps := epsPole_lt_step d hd2
  have he0 := epsPole_pos
  have hk0 : (0 : ℝ) ≤ k := Nat.cast_nonneg k
  have hs1 : |s| = 1 := by rcases hs with rfl | rfl <;> simp
  have hsb : -1 ≤ s ∧ s ≤ 1 := by rcases hs with rfl | rfl <;> constructor <;> norm_num
  set δ : ℝ := 1 / 2 ^ d with hδ
  have hXt : 2 * (k : ℝ) + 1 + s * δ - (2 * k + 1) = s * δ := by ring
  have hYs : 2 - (2 - 2 * δ) = 2 * δ := by ring
  have habs : |s * δ| = δ := by rw [abs_mul, hs1, one_mul, abs_of_pos hδ0]
  obtain ⟨c, pN, pS, pE, pW, uc, uN, -, -, -, hc, aN, -, -, -⟩ :=
    true_c2v_cap k hk (2 * k + 1 + s * δ) (2 - 2 * δ) δ hδ0 (by linarith) (by linarith)
      (by rw [hXt, hYs, habs]; linarith) (by rw [hYs]; linarith) (Or.inl (by linarith))
  rw [hXt, hYs] at aN
  have aN' : adist c pN = dNc δ (-δ) (2 * δ) := by
    rcases hs with rfl | rfl
    · rw [aN, one_mul, ← dNc_neg]
    · rw [aN]; congr 1; ring
  have hgap : dMinP δ < adist c pN := by rw [aN']; exact intercept_lt_dN_next_to_pole δ hδ0 hδ4
  have hsδ : s * δ ≤ δ := by
    have := le_abs_self (s * δ)
    rw [habs] at this; exact this
  have lc := cap_lat_pos k hk (2 * k + 1 + s * δ) (2 - 2 * δ) (by linarith) (by linarith)
    (by rw [hXt, hYs, habs]; linarith) (by linarith) (Or.inl (by linarith)) c uc
  have lN := cap_lat_pos k hk (2 * k + 1 + s * δ) (2 - 2 * δ + δ) (by linarith) (by linarith)
    (by rw [hXt, habs]; linarith) (by linarith) (Or.inl (by linarith)) pN uN
  have hsl := new_slopeNpc_pos d (by omega)
  set sl := (Csts.new d : Csts ℝ).slopeNpc with hsldef
  set K := sl * (π / 4) / (2 * δ) with hK
  have hKpos : 0 < K := by positivity
  set G := adist c pN - dMinP δ with hG
  have hGpos : 0 < G := by linarith
  have hGK : 0 < G / K := div_pos hGpos hKpos
  refine ⟨c, pN, min δ (G / K), uc, uN, lc, lN, lt_min hδ0 hGK, min_le_left _ _, ?_⟩
  intro τ hτ0 hτ1
  have hτδ : τ < δ := lt_of_lt_of_le hτ1 (min_le_left _ _)
  have hτG : τ < G / K := lt_of_lt_of_le hτ1 (min_le_right _ _)
  have habsτ : |s * τ| = τ := by rw [abs_mul, hs1, one_mul, abs_of_nonneg hτ0]
  have hXτ : 2 * (k : ℝ) + 1 + s * τ - (2 * k + 1) = s * τ := by ring
  have hxτ2 : 2 * (k : ℝ) + 1 + s * τ < 2 * k + 2 := by
    have : s * τ ≤ τ := by
      have := le_abs_self (s * τ)
      rw [habsτ] at this; exact this
    linarith
  have up := unproj_cap k hk (2 * k + 1 + s * τ) (2 - 2 * δ) (by linarith) (by linarith)
    (by rw [hXτ, hYs, habsτ]; linarith) hxτ2 (Or.inl (by linarith))
  rw [hXτ, hYs] at up
  obtain ⟨hr1, hr2⟩ := capLat_range (2 - 2 * δ) (by linarith) (by linarith)
  have htl := tl_pos
  have hlat : tl ≤ |capLat (2 - 2 * δ)| := by rw [abs_of_pos (by linarith)]; exact hr1
  refine ⟨(capLon k (s * τ) (2 * δ), capLat (2 - 2 * δ)),
    c2v (Csts.new d) (capLon k (s * τ) (2 * δ)) (capLat (2 - 2 * δ)), up, by show 0 ≤ capLat _; linarith, hlat, ?_, ?_⟩
  · rw [c2v_region_choice, if_neg (by omega), if_neg (by omega)]
  · rw [c2v_cap_eq d k (s * τ) (2 * δ) _ (by linarith) (by rw [habsτ]; linarith) hlat, ← hsldef, ← hδ, abs_div, habsτ,
      abs_of_pos (by linarith : 0 < 2 * δ)]
    have e : sl * (τ / (2 * δ) * (π / 4)) = K * τ := by rw [hK]; field_simp
    rw [e]
    have := (lt_div_iff₀ hKpos).mp hτG
    rw [hG] at this
    linarith

/-! ## the north cap -/

/-- plane centre of the two neighbours of the north-pole cell along the seams: `{i, j} = {nside − 1, nside − 2}` -/
theorem north_pole_neighbour_center (d b i j : ℕ) (hb : b < 4) (hi : i < 2 ^ d) (hj : j < 2 ^ d)
    (hsum : i + j + 3 = 2 * 2 ^ d) :
    ((i : ℝ) - j = 1 ∨ (i : ℝ) - j = -1) ∧
    norm8 (cellCx d b i j) = 2 * (b : ℝ) + 1 + ((i : ℝ) - j) * (1 / 2 ^ d) ∧ cellCy d b i j = 2 - 2 * (1 / 2 ^ d) := by
  obtain ⟨bx, by1⟩ := baseX_north b hb
  have hp := pow_pos' d
  obtain ⟨hδ0, hδ1⟩ := distCw_range d
  have hb0 : (0 : ℝ) ≤ b := Nat.cast_nonneg b
  have hsum' : (i : ℝ) + j + 3 = 2 * 2 ^ d := by exact_mod_cast hsum
  have hcase : (i = j + 1) ∨ (j = i + 1) := by omega
  have hs : (i : ℝ) - j = 1 ∨ (i : ℝ) - j = -1 := by
    rcases hcase with h | h
    · left; rw [h]; push_cast; ring
    · right; rw [h]; push_cast; ring
  have hx : cellCx d b i j = 2 * (b : ℝ) + 1 + ((i : ℝ) - j) * (1 / 2 ^ d) := by
    unfold cellCx; rw [bx]; ring
  refine ⟨hs, ?_, ?_⟩
  · rw [hx, norm8_of_nonneg]
    rcases hs with h | h <;> rw [h] <;> linarith
  · unfold cellCy
    rw [by1, show (i : ℝ) + j + 1 - 2 ^ d = 2 ^ d - 2 by linarith]
    field_simp
    ring

/-- **`c2v_below_true_next_to_north_pole`** (ℝ, release profile, every depth `2 … 29`, every north base cell `b < 4`, the
    two cells `{i, j} = {nside − 1, nside − 2}` next to the pole cell).  `center` returns `c`, `vertex … 2` the north vertex
    `n`; for `0 ≤ τ < r0` (`0 < r0 ≤ 1/nside`) the plane point `(2b + 1 + (i − j)·τ, y_c)` — on the segment from the vertex of
    the cell lying on the central meridian of the base cell (`τ = 0`: the E vertex if `i < j`, the W vertex if `i > j`)
    towards the centre (`τ = 1/nside`), hence in the closed diamond of the cell — un-projects to a position `p` of the north
    cap where `largest_center_to_vertex_distance(d, p)` is STRICTLY SMALLER than the angular distance from `c` to `n`. -/
theorem c2v_below_true_next_to_north_pole (cfg : Cfg) (d hash b i j : ℕ) (hd1 : 2 ≤ d) (hd2 : d ≤ 29)
    (hh : hash < Layer.nHash d) (hdec : Layer.decodeHash cfg d hash = some ⟨b, i, j⟩) (hb : b < 4)
    (hi : i < 2 ^ d) (hj : j < 2 ^ d) (hsum : i + j + 3 = 2 * 2 ^ d) :
    ∃ (c n : ℝ × ℝ) (r0 : ℝ), center (α := ℝ) cfg d hash = some c ∧ vertex (α := ℝ) cfg d hash 2 = some n ∧
      0 < r0 ∧ r0 ≤ 1 / 2 ^ d ∧
      ∀ τ, 0 ≤ τ → τ < r0 →
        InDiamond (norm8 (cellCx d b i j)) (cellCy d b i j) (1 / 2 ^ d)
          (2 * (b : ℝ) + 1 + ((i : ℝ) - j) * τ) (cellCy d b i j) ∧
        ∃ (p : ℝ × ℝ) (v : ℝ), unproj (α := ℝ) (2 * (b : ℝ) + 1 + ((i : ℝ) - j) * τ) (cellCy d b i j) = some p ∧
          tl ≤ |p.2| ∧ largestC2V false d p.1 p.2 = some v ∧ v < adist c n := by
  have hb12 : b < 12 := by omega
  obtain ⟨hs, hX, hY⟩ := north_pole_neighbour_center d b i j hb hi hj hsum
  obtain ⟨hδ0, hδ4⟩ := quarter_pow_range d hd1
  obtain ⟨c, n, r0, uc, uN, -, -, hr0, hr1, hall⟩ := next_to_pole_plane d b hd1 hd2 hb ((i : ℝ) - j) hs
  refine ⟨c, n, r0, ?_, ?_, hr0, hr1, ?_⟩
  · rw [center_plane cfg d hash b i j hh hdec hb12 hi hj, hX, hY, ← uc]
    exact (unproj_eq _ _ (by linarith) (by linarith)).symm
  · rw [vertex_plane cfg d hash b i j 2 hh hdec hb12 hi hj (by decide)]
    simp only [vtx]
    rw [hX, hY, ← uN]
    exact (unproj_eq _ _ (by linarith) (by linarith)).symm
  · intro τ h0 h1
    obtain ⟨p, v, up, -, hlat, hv, hlt⟩ := hall τ h0 h1
    refine ⟨?_, p, v, by rw [hY]; exact up, hlat, hv, hlt⟩
    unfold InDiamond
    rw [hX, sub_self, abs_zero, add_zero,
      show 2 * (b : ℝ) + 1 + ((i : ℝ) - j) * τ - (2 * (b : ℝ) + 1 + ((i : ℝ) - j) * (1 / 2 ^ d))
        = ((i : ℝ) - j) * (τ - 1 / 2 ^ d) by ring, abs_mul]
    have : |(i : ℝ) - j| = 1 := by rcases hs with h | h <;> rw [h] <;> simp
    rw [this, one_mul, abs_of_nonpos (by linarith)]
    linarith

/-! ## the south cap -/

/-- plane centre of the two neighbours of the south-pole cell along the seams: `{i, j} = {0, 1}` -/
theorem south_pole_neighbour_center (d k i j : ℕ) (hk : k < 4) (hsum : i + j = 1) :
    ((i : ℝ) - j = 1 ∨ (i : ℝ) - j = -1) ∧
    norm8 (cellCx d (k + 8) i j) = 2 * (k : ℝ) + 1 + ((i : ℝ) - j) * (1 / 2 ^ d) ∧
    cellCy d (k + 8) i j = -(2 - 2 * (1 / 2 ^ d)) := by
  obtain ⟨bx, by1⟩ := baseX_south k hk
  have hp := pow_pos' d
  obtain ⟨hδ0, hδ1⟩ := distCw_range d
  have hk0 : (0 : ℝ) ≤ k := Nat.cast_nonneg k
  have hsum' : (i : ℝ) + j = 1 := by exact_mod_cast hsum
  have hcase : (i = 1 ∧ j = 0) ∨ (i = 0 ∧ j = 1) := by omega
  have hs : (i : ℝ) - j = 1 ∨ (i : ℝ) - j = -1 := by
    rcases hcase with ⟨h1, h2⟩ | ⟨h1, h2⟩
    · left; rw [h1, h2]; norm_num
    · right; rw [h1, h2]; norm_num
  have hx : cellCx d (k + 8) i j = 2 * (k : ℝ) + 1 + ((i : ℝ) - j) * (1 / 2 ^ d) := by
    unfold cellCx; rw [bx]; ring
  refine ⟨hs, ?_, ?_⟩
  · rw [hx, norm8_of_nonneg]
    rcases hs with h | h <;> rw [h] <;> linarith
  · unfold cellCy
    rw [by1, show (i : ℝ) + j + 1 - 2 ^ d = 2 - 2 ^ d by linarith]
    field_simp
    ring

/-- **`c2v_below_true_next_to_south_pole`** (ℝ, release profile, every depth `2 … 29`, every south base cell `k + 8`, the two
    cells `{i, j} = {0, 1}` next to the south-pole cell `(0, 0)`).  `center` returns `c`, `vertex … 0` the south vertex `s`;
    for `0 ≤ τ < r0` the plane point `(2k + 1 + (i − j)·τ, y_c)` of the cell (`τ = 0`: its vertex on the central meridian of the
    base cell) un-projects to a position `p` of the south cap where `largest_center_to_vertex_distance(d, p)` is
    STRICTLY SMALLER than the angular distance from `c` to `s`. -/
theorem c2v_below_true_next_to_south_pole (cfg : Cfg) (d hash k i j : ℕ) (hd1 : 2 ≤ d) (hd2 : d ≤ 29)
    (hh : hash < Layer.nHash d) (hdec : Layer.decodeHash cfg d hash = some ⟨k + 8, i, j⟩) (hk : k < 4)
    (hsum : i + j = 1) :
    ∃ (c s : ℝ × ℝ) (r0 : ℝ), center (α := ℝ) cfg d hash = some c ∧ vertex (α := ℝ) cfg d hash 0 = some s ∧
      0 < r0 ∧ r0 ≤ 1 / 2 ^ d ∧
      ∀ τ, 0 ≤ τ → τ < r0 →
        InDiamond (norm8 (cellCx d (k + 8) i j)) (cellCy d (k + 8) i j) (1 / 2 ^ d)
          (2 * (k : ℝ) + 1 + ((i : ℝ) - j) * τ) (cellCy d (k + 8) i j) ∧
        ∃ (p : ℝ × ℝ) (v : ℝ), unproj (α := ℝ) (2 * (k : ℝ) + 1 + ((i : ℝ) - j) * τ) (cellCy d (k + 8) i j) = some p ∧
          tl ≤ |p.2| ∧ largestC2V false d p.1 p.2 = some v ∧ v < adist c s := by
  have hb12 : k + 8 < 12 := by omega
  have hd4 : 4 ≤ 2 ^ d := by
    have : 2 ^ 2 ≤ 2 ^ d := Nat.pow_le_pow_right (by norm_num) hd1
    simpa using this
  have hi : i < 2 ^ d := by omega
  have hj : j < 2 ^ d := by omega
  obtain ⟨hs, hX, hY⟩ := south_pole_neighbour_center d k i j hk hsum
  obtain ⟨hδ0, hδ4⟩ := quarter_pow_range d hd1
  have hk0 : (0 : ℝ) ≤ k := Nat.cast_nonneg k
  have hsb : -1 ≤ (i : ℝ) - j ∧ (i : ℝ) - j ≤ 1 := by rcases hs with h | h <;> rw [h] <;> constructor <;> norm_num
  obtain ⟨c, n, r0, uc, uN, lc, lN, hr0, hr1, hall⟩ := next_to_pole_plane d k hd1 hd2 hk ((i : ℝ) - j) hs
  have hX0 : 0 ≤ 2 * (k : ℝ) + 1 + ((i : ℝ) - j) * (1 / 2 ^ d) := by nlinarith
  have mc : unproj (α := ℝ) (2 * (k : ℝ) + 1 + ((i : ℝ) - j) * (1 / 2 ^ d)) (-(2 - 2 * (1 / 2 ^ d))) = some (mir c) := by
    rw [unproj_mirror _ _ hX0 (by linarith), uc]; rfl
  have mS : unproj (α := ℝ) (2 * (k : ℝ) + 1 + ((i : ℝ) - j) * (1 / 2 ^ d)) (-(2 - 2 * (1 / 2 ^ d)) - 1 / 2 ^ d)
      = some (mir n) := by
    rw [show -(2 - 2 * (1 / (2 : ℝ) ^ d)) - 1 / 2 ^ d = -(2 - 2 * (1 / 2 ^ d) + 1 / 2 ^ d) by ring,
      unproj_mirror _ _ hX0 (by linarith), uN]; rfl
  refine ⟨mir c, mir n, r0, ?_, ?_, hr0, hr1, ?_⟩
  · rw [center_plane cfg d hash (k + 8) i j hh hdec hb12 hi hj, hX, hY, ← mc]
    exact (unproj_eq _ _ (by linarith) (by linarith)).symm
  · rw [vertex_plane cfg d hash (k + 8) i j 0 hh hdec hb12 hi hj (by decide)]
    simp only [vtx]
    rw [hX, hY, ← mS]
    exact (unproj_eq _ _ (by linarith) (by linarith)).symm
  · intro τ h0 h1
    obtain ⟨p, v, up, lp, hlat, hv, hlt⟩ := hall τ h0 h1
    have hxτ : 0 ≤ 2 * (k : ℝ) + 1 + ((i : ℝ) - j) * τ := by nlinarith
    refine ⟨?_, mir p, v, ?_, ?_, by rw [largestC2V_mir]; exact hv, by rw [adist_mir c n lc lN]; exact hlt⟩
    · unfold InDiamond
      rw [hX, sub_self, abs_zero, add_zero,
        show 2 * (k : ℝ) + 1 + ((i : ℝ) - j) * τ - (2 * (k : ℝ) + 1 + ((i : ℝ) - j) * (1 / 2 ^ d))
          = ((i : ℝ) - j) * (τ - 1 / 2 ^ d) by ring, abs_mul]
      have : |(i : ℝ) - j| = 1 := by rcases hs with h | h <;> rw [h] <;> simp
      rw [this, one_mul, abs_of_nonpos (by linarith)]
      linarith
    · rw [hY, unproj_mirror _ _ hxτ (by linarith), up]; rfl
    · show tl ≤ |(-|p.2|)|
      rw [abs_neg, abs_abs]; exact hlat

/-! ## examples -/

/-- depth 2, cell 13 = base cell 0, `(i, j) = (3, 2)` -/
example : ∃ (c n : ℝ × ℝ) (r0 : ℝ), center (α := ℝ) {} 2 13 = some c ∧ vertex (α := ℝ) {} 2 13 2 = some n ∧
      0 < r0 ∧ r0 ≤ 1 / 2 ^ 2 ∧
      ∀ τ, 0 ≤ τ → τ < r0 →
        InDiamond (norm8 (cellCx 2 0 3 2)) (cellCy 2 0 3 2) (1 / 2 ^ 2)
          (2 * ((0 : ℕ) : ℝ) + 1 + (((3 : ℕ) : ℝ) - (2 : ℕ)) * τ) (cellCy 2 0 3 2) ∧
        ∃ (p : ℝ × ℝ) (v : ℝ), unproj (α := ℝ) (2 * ((0 : ℕ) : ℝ) + 1 + (((3 : ℕ) : ℝ) - (2 : ℕ)) * τ) (cellCy 2 0 3 2) = some p ∧
          tl ≤ |p.2| ∧ largestC2V false 2 p.1 p.2 = some v ∧ v < adist c n :=
  c2v_below_true_next_to_north_pole {} 2 13 0 3 2 (by decide) (by decide) (by decide) (by decide +kernel) (by decide)
    (by decide) (by decide) (by decide)

/-- depth 2, cell 129 = base cell 8, `(i, j) = (1, 0)` -/
example : ∃ (c s : ℝ × ℝ) (r0 : ℝ), center (α := ℝ) {} 2 129 = some c ∧ vertex (α := ℝ) {} 2 129 0 = some s ∧
      0 < r0 ∧ r0 ≤ 1 / 2 ^ 2 ∧
      ∀ τ, 0 ≤ τ → τ < r0 →
        InDiamond (norm8 (cellCx 2 (0 + 8) 1 0)) (cellCy 2 (0 + 8) 1 0) (1 / 2 ^ 2)
          (2 * ((0 : ℕ) : ℝ) + 1 + (((1 : ℕ) : ℝ) - (0 : ℕ)) * τ) (cellCy 2 (0 + 8) 1 0) ∧
        ∃ (p : ℝ × ℝ) (v : ℝ), unproj (α := ℝ) (2 * ((0 : ℕ) : ℝ) + 1 + (((1 : ℕ) : ℝ) - (0 : ℕ)) * τ) (cellCy 2 (0 + 8) 1 0) = some p ∧
          tl ≤ |p.2| ∧ largestC2V false 2 p.1 p.2 = some v ∧ v < adist c s :=
  c2v_below_true_next_to_south_pole {} 2 129 0 1 0 (by decide) (by decide) (by decide) (by decide +kernel) (by decide)
    (by decide)

end Hpx.EnvelopePolar

#print axioms Hpx.EnvelopePolar.next_to_pole_plane
#print axioms Hpx.EnvelopePolar.c2v_below_true_next_to_north_pole
#print axioms Hpx.EnvelopePolar.c2v_below_true_next_to_south_pole
