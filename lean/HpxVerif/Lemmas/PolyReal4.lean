/-
Point-in-polygon over the reals (C12), part 4: convex polygons.
* `convex_edges`        : a strictly convex vertex list (index form) gives the three convexity facts used by `count_convex`;
* `csp_false_of_convex` : `Basic::contains_south_pole` answers `false` for a convex polygon that lies in an open hemisphere
                          and contains no pole (the sum of the wrapped longitude steps telescopes to 0);
* `contains_convex`     : **`Polygon::contains` = inside all the half-spaces**, both windings, every number of vertices `≥ 3`.
-/
import HpxVerif.Lemmas.PolyReal3
import Mathlib.Analysis.SpecialFunctions.Complex.Arg

namespace Hpx.Sph
open Real Hpx.Proj

/-! ## indices -/

/-- index of the previous vertex, cyclically -/
def prevIdx (n i : Nat) : Nat := if i = 0 then n - 1 else i - 1

theorem prevIdx_lt {n i : Nat} (hi : i < n) : prevIdx n i < n := by unfold prevIdx; split <;> omega

theorem edges_getElem? (vs : List (Coo ℝ)) (i : Nat) (hi : i < vs.length) :
    (edges vs)[i]? = some (vs[prevIdx vs.length i]'(prevIdx_lt hi), vs[i]) := by
  unfold edges
  have hl : vs.getLast? = some (vs[vs.length - 1]'(by omega)) := by
    rw [List.getLast?_eq_getElem?, List.getElem?_eq_getElem]
  rw [hl]
  simp only
  rw [List.getElem?_eq_getElem (by rw [edgesFrom_length]; exact hi), edgesFrom_getElem _ _ _ hi]
  unfold prevIdx
  by_cases h0 : i = 0 <;> simp [h0]

theorem mem_edges_iff (vs : List (Coo ℝ)) (e : Coo ℝ × Coo ℝ) :
    e ∈ edges vs ↔ ∃ i, ∃ hi : i < vs.length, e = (vs[prevIdx vs.length i]'(prevIdx_lt hi), vs[i]) := by
  rw [List.mem_iff_getElem?]
  constructor
  · rintro ⟨i, hi⟩
    have hlt : i < vs.length := by
      have := (List.getElem?_eq_some_iff.mp hi).1
      rwa [edges_length] at this
    rw [edges_getElem? vs i hlt] at hi
    exact ⟨i, hlt, (Option.some.inj hi).symm⟩
  · rintro ⟨i, hi, rfl⟩
    exact ⟨i, edges_getElem? vs i hi⟩

/-! ## strict convexity, index form -/

/-- every vertex is strictly inside the half-space of every edge that does not contain it; `o = 1`: the vertices turn
    counter-clockwise (seen from outside the sphere), `o = -1`: clockwise -/
def StrictlyConvex (o : ℝ) (vs : List (Coo ℝ)) : Prop :=
  ∀ i k (hi : i < vs.length) (hk : k < vs.length), k ≠ i → k ≠ prevIdx vs.length i →
    0 < o * dot (vs[k]) (cross (vs[prevIdx vs.length i]'(prevIdx_lt hi)) vs[i])

theorem dot_cross_left (u w : Coo ℝ) : dot u (cross u w) = 0 := by unfold dot cross; ring
theorem dot_cross_right (u w : Coo ℝ) : dot w (cross u w) = 0 := by unfold dot cross; ring

theorem convex_vertex_edge {o : ℝ} {vs : List (Coo ℝ)} (hc : StrictlyConvex o vs) (k i : Nat) (hk : k < vs.length)
    (hi : i < vs.length) :
    0 ≤ o * dot (vs[k]) (cross (vs[prevIdx vs.length i]'(prevIdx_lt hi)) vs[i]) := by
  by_cases h1 : k = i
  · subst h1; rw [dot_cross_right]; simp
  · by_cases h2 : k = prevIdx vs.length i
    · subst h2; rw [dot_cross_left]; simp
    · exact (hc i k hi hk h1 h2).le

/-- the three convexity facts of `count_convex` -/
theorem convex_edges {o : ℝ} {vs : List (Coo ℝ)} (hn : 3 ≤ vs.length) (hc : StrictlyConvex o vs) :
    (∀ e ∈ edges vs, ∀ e' ∈ edges vs, 0 ≤ o * dot e.1 (cross e'.1 e'.2) ∧ 0 ≤ o * dot e.2 (cross e'.1 e'.2)) ∧
    (edges vs).Pairwise (fun e e' =>
      (0 < o * dot e.1 (cross e'.1 e'.2) ∨ 0 < o * dot e.2 (cross e'.1 e'.2)) ∧
      (0 < o * dot e'.1 (cross e.1 e.2) ∨ 0 < o * dot e'.2 (cross e.1 e.2))) ∧
    (∀ e ∈ edges vs, (∃ e' ∈ edges vs, 0 < o * dot e.1 (cross e'.1 e'.2) ∧ dot e.2 (cross e'.1 e'.2) = 0) ∧
      (∃ e' ∈ edges vs, 0 < o * dot e.2 (cross e'.1 e'.2) ∧ dot e.1 (cross e'.1 e'.2) = 0)) := by
  set n := vs.length with hnl
  refine ⟨?_, ?_, ?_⟩
  · intro e he e' he'
    obtain ⟨a, ha, rfl⟩ := (mem_edges_iff vs e).mp he
    obtain ⟨b, hb, rfl⟩ := (mem_edges_iff vs e').mp he'
    exact ⟨convex_vertex_edge hc _ b (prevIdx_lt ha) hb, convex_vertex_edge hc a b ha hb⟩
  · rw [List.pairwise_iff_getElem]
    intro a b ha hb hab
    have ha' : a < n := by rwa [edges_length] at ha
    have hb' : b < n := by rwa [edges_length] at hb
    have ea : (edges vs)[a] = _ := (List.getElem_eq_iff ha).mpr (edges_getElem? vs a ha')
    have eb : (edges vs)[b] = _ := (List.getElem_eq_iff hb).mpr (edges_getElem? vs b hb')
    rw [ea, eb]
    simp only
    constructor
    · -- one of `prev a`, `a` is not an end point of edge `b`
      by_cases h1 : a = prevIdx n b
      · -- then `prev a` is neither `b` nor `prev b`
        left
        apply hc b _ hb' (prevIdx_lt ha')
        · unfold prevIdx at h1 ⊢; split at h1 <;> split <;> omega
        · unfold prevIdx at h1 ⊢; split at h1 <;> split <;> omega
      · right
        exact hc b a hb' ha' (by omega) h1
    · by_cases h1 : b = prevIdx n a
      · left
        apply hc a _ ha' (prevIdx_lt hb')
        · unfold prevIdx at h1 ⊢; split at h1 <;> split <;> omega
        · unfold prevIdx at h1 ⊢; split at h1 <;> split <;> omega
      · right
        exact hc a b ha' hb' (by omega) h1
  · intro e he
    obtain ⟨a, ha, rfl⟩ := (mem_edges_iff vs e).mp he
    have ha' : a < n := ha
    constructor
    · -- the next edge
      set b := if a + 1 = n then 0 else a + 1 with hb
      have hbn : b < n := by rw [hb]; split <;> omega
      have hpb : prevIdx n b = a := by rw [hb]; unfold prevIdx; split <;> split <;> omega
      refine ⟨_, (mem_edges_iff vs _).mpr ⟨b, hbn, rfl⟩, ?_, ?_⟩
      · simp only
        apply hc b _ hbn (prevIdx_lt ha)
        · rw [hb]; unfold prevIdx; split <;> split <;> omega
        · rw [hpb]; unfold prevIdx; split <;> omega
      · simp only
        have : vs[a] = vs[prevIdx n b]'(prevIdx_lt hbn) := by congr 1; exact hpb.symm
        rw [this, dot_cross_left]
    · -- the previous edge
      set b := prevIdx n a with hb
      have hbn : b < n := prevIdx_lt ha
      refine ⟨_, (mem_edges_iff vs _).mpr ⟨b, hbn, rfl⟩, ?_, ?_⟩
      · simp only
        apply hc b a hbn ha
        · rw [hb]; unfold prevIdx; split <;> omega
        · rw [hb]; unfold prevIdx; split <;> split <;> omega
      · simp only
        rw [dot_cross_right]

/-! ## `Basic::contains_south_pole` -/

/-- one longitude step of `Basic::contains_south_pole`: the difference `b − a` brought back to `[-π, π]` -/
noncomputable def wrapDiff (a b : ℝ) : ℝ :=
  if |b - a| ≤ π then b - a else if 0 < b - a then -(2 * π - |b - a|) else 2 * π - |b - a|

noncomputable def cspStep (st : ℝ × Nat × Coo ℝ) (vi : Coo ℝ) : ℝ × Nat × Coo ℝ :=
  (st.1 + wrapDiff st.2.2.lon vi.lon, (if vi.lat < 0 then st.2.1 + 1 else st.2.1), vi)

theorem csp_eq (vs : List (Coo ℝ)) : containsSouthPoleBasic vs =
    match vs.getLast? with
    | none => false
    | some last => decide (π < |(vs.foldl cspStep (0, 0, last)).1|) &&
        decide (2 * (vs.foldl cspStep (0, 0, last)).2.1 > vs.length) := by
  unfold containsSouthPoleBasic
  cases vs.getLast? with
  | none => rfl
  | some last =>
    simp only [r_zero, r_gt, r_le, r_lt, r_pi, r_twicePi, r_abs]
    have : (fun (st : ℝ × Nat × Coo ℝ) (vi : Coo ℝ) =>
      match st with
      | (sum, nS, vj) => ((if decide (|vi.lon - vj.lon| ≤ π) = true then sum + (vi.lon - vj.lon)
            else if decide (0 < vi.lon - vj.lon) = true then sum - (2 * π - |vi.lon - vj.lon|)
            else sum + (2 * π - |vi.lon - vj.lon|)), (if decide (vi.lat < 0) = true then nS + 1 else nS), vi)) = cspStep := by
      funext st vi
      obtain ⟨sum, nS, vj⟩ := st
      unfold cspStep wrapDiff
      simp only [decide_eq_true_eq]
      congr 1
      split
      · rfl
      · split <;> ring
    rw [this]

/-- sum of the wrapped longitude steps along `vj, v₀, v₁, …` -/
noncomputable def sumWrap (vj : Coo ℝ) : List (Coo ℝ) → ℝ
  | [] => 0
  | v :: r => wrapDiff vj.lon v.lon + sumWrap v r

def lastOf (vj : Coo ℝ) : List (Coo ℝ) → Coo ℝ
  | [] => vj
  | v :: r => lastOf v r

theorem foldl_cspStep_fst (vs : List (Coo ℝ)) (st : ℝ × Nat × Coo ℝ) :
    (vs.foldl cspStep st).1 = st.1 + sumWrap st.2.2 vs := by
  induction vs generalizing st with
  | nil => simp [sumWrap]
  | cons v r ih =>
    rw [List.foldl_cons, ih]
    simp only [cspStep, sumWrap]; ring

theorem lastOf_mem (vj : Coo ℝ) (vs : List (Coo ℝ)) : lastOf vj vs = vj ∨ lastOf vj vs ∈ vs := by
  induction vs generalizing vj with
  | nil => left; rfl
  | cons v r ih =>
    right
    rcases ih v with h | h
    · simp [lastOf, h]
    · simp [lastOf, h]

theorem lastOf_eq_getLast (vj last : Coo ℝ) (vs : List (Coo ℝ)) (h : vs.getLast? = some last) : lastOf vj vs = last := by
  induction vs generalizing vj with
  | nil => simp at h
  | cons v r ih =>
    cases r with
    | nil => simp at h; simp [lastOf, h]
    | cons v' r' =>
      rw [List.getLast?_cons_cons] at h
      simp only [lastOf] at ih ⊢
      exact ih v h

theorem sumWrap_telescope (θ : Coo ℝ → ℝ) (S : Coo ℝ → Prop) (hS : ∀ a b, S a → S b → wrapDiff a.lon b.lon = θ b - θ a)
    (vj : Coo ℝ) (vs : List (Coo ℝ)) (hj : S vj) (hvs : ∀ v ∈ vs, S v) :
    sumWrap vj vs = θ (lastOf vj vs) - θ vj := by
  induction vs generalizing vj with
  | nil => simp [sumWrap, lastOf]
  | cons v r ih =>
    simp only [sumWrap, lastOf]
    rw [ih v (hvs v (by simp)) (fun x hx => hvs x (by simp [hx])), hS vj v hj (hvs v (by simp))]
    ring

/-- two longitudes with lifts in `(-π/2, π/2)` relative to a reference longitude: the wrapped step is the difference of the lifts -/
theorem wrapDiff_of_lift (a b l0 θa θb ka kb : ℝ) (hka : ka = 0 ∨ ka = 1) (hkb : kb = 0 ∨ kb = 1)
    (ha : a - l0 = θa + 2 * π * ka) (hb : b - l0 = θb + 2 * π * kb) (ha1 : -(π / 2) < θa) (ha2 : θa < π / 2)
    (hb1 : -(π / 2) < θb) (hb2 : θb < π / 2) : wrapDiff a b = θb - θa := by
  have hpi := pi_pos
  unfold wrapDiff
  rcases hka with rfl | rfl <;> rcases hkb with rfl | rfl
  · have e : b - a = θb - θa := by linarith
    rw [if_pos (by rw [e, abs_le]; constructor <;> linarith), e]
  · have e : b - a = θb - θa + 2 * π := by linarith
    have hp : 0 < b - a := by linarith
    rw [if_neg (by rw [abs_of_pos hp]; linarith), if_pos hp, abs_of_pos hp]; linarith
  · have e : b - a = θb - θa - 2 * π := by linarith
    have hp : b - a < 0 := by linarith
    rw [if_neg (by rw [abs_of_neg hp]; linarith), if_neg (by linarith), abs_of_neg hp]; linarith
  · have e : b - a = θb - θa := by linarith
    rw [if_pos (by rw [e, abs_le]; constructor <;> linarith), e]

theorem cos_pos_cases (x : ℝ) (h1 : -π ≤ x) (h2 : x < 3 * π) (hc : 0 < cos x) :
    (-(π / 2) < x ∧ x < π / 2) ∨ (3 * π / 2 < x ∧ x < 5 * π / 2) := by
  have hpi := pi_pos
  by_contra hcon
  push Not at hcon
  rcases le_or_gt x (-(π / 2)) with g | g
  · have : cos (-x) ≤ 0 := cos_nonpos_of_pi_div_two_le_of_le (by linarith) (by linarith)
    rw [cos_neg] at this; linarith
  · rcases lt_or_ge x (π / 2) with g2 | g2
    · exact absurd g2 (not_lt.mpr (hcon.1 g))
    · rcases le_or_gt x (3 * π / 2) with g3 | g3
      · have : cos x ≤ 0 := cos_nonpos_of_pi_div_two_le_of_le g2 (by linarith)
        linarith
      · have g4 := hcon.2 g3
        have : cos (x - 2 * π) ≤ 0 := cos_nonpos_of_pi_div_two_le_of_le (by linarith) (by linarith)
        rw [cos_sub_two_pi] at this; linarith

/-- all the vertices are in an open half-plane of longitudes ⇒ the sum of the wrapped steps round the polygon is 0 -/
theorem sumWrap_zero_of_halfplane (vs : List (Coo ℝ)) (last : Coo ℝ) (hl : vs.getLast? = some last)
    (hv : ∀ v ∈ vs, v.Valid ∧ v.NonPole) (dx dy : ℝ) (hd : ∀ v ∈ vs, 0 < dx * v.x + dy * v.y) :
    sumWrap last vs = 0 := by
  have hpi := pi_pos
  have hlm : last ∈ vs := List.mem_of_getLast? hl
  set z : ℂ := ⟨dx, dy⟩ with hz
  set l0 := Complex.arg z with hl0
  have hre : ‖z‖ * cos l0 = dx := Complex.norm_mul_cos_arg z
  have him : ‖z‖ * sin l0 = dy := Complex.norm_mul_sin_arg z
  have hnorm : 0 ≤ ‖z‖ := norm_nonneg z
  have hl01 : -π < l0 := Complex.neg_pi_lt_arg z
  have hl02 : l0 ≤ π := Complex.arg_le_pi z
  -- the lift
  set θ : Coo ℝ → ℝ := fun v => if v.lon - l0 < π / 2 then v.lon - l0 else v.lon - l0 - 2 * π with hθ
  have lift : ∀ v ∈ vs, ∃ k : ℝ, (k = 0 ∨ k = 1) ∧ v.lon - l0 = θ v + 2 * π * k ∧ -(π / 2) < θ v ∧ θ v < π / 2 := by
    intro v hvm
    obtain ⟨hval, hnp⟩ := hv v hvm
    have h := hd v hvm
    rw [← hre, ← him, hval.hx, hval.hy] at h
    have hcos : 0 < cos (v.lon - l0) := by
      have e : ‖z‖ * cos l0 * (cos v.lat * cos v.lon) + ‖z‖ * sin l0 * (cos v.lat * sin v.lon) =
          (‖z‖ * cos v.lat) * cos (v.lon - l0) := by rw [cos_sub]; ring
      rw [e] at h
      have h2 : 0 ≤ ‖z‖ * cos v.lat := mul_nonneg hnorm hnp.cos_pos.le
      by_contra hc
      have : (‖z‖ * cos v.lat) * cos (v.lon - l0) ≤ 0 := mul_nonpos_of_nonneg_of_nonpos h2 (not_lt.mp hc)
      linarith
    rcases cos_pos_cases (v.lon - l0) (by linarith [hval.lon0]) (by linarith [hval.lon1]) hcos with ⟨c1, c2⟩ | ⟨c1, c2⟩
    · refine ⟨0, Or.inl rfl, ?_, ?_, ?_⟩ <;> simp only [hθ, if_pos c2] <;> linarith
    · have : ¬ v.lon - l0 < π / 2 := by linarith
      refine ⟨1, Or.inr rfl, ?_, ?_, ?_⟩ <;> simp only [hθ, if_neg this] <;> linarith
  have hS : ∀ a b, a ∈ vs → b ∈ vs → wrapDiff a.lon b.lon = θ b - θ a := by
    intro a b ha hb
    obtain ⟨ka, hka, ea, a1, a2⟩ := lift a ha
    obtain ⟨kb, hkb, eb, b1, b2⟩ := lift b hb
    exact wrapDiff_of_lift a.lon b.lon l0 (θ a) (θ b) ka kb hka hkb ea eb a1 a2 b1 b2
  rw [sumWrap_telescope θ (· ∈ vs) hS last vs hlm (fun v hv => hv), lastOf_eq_getLast last last vs hl]
  ring

/-- `Basic::contains_south_pole` is `false` as soon as all the vertices are in an open half-plane of longitudes -/
theorem csp_false_of_halfplane (vs : List (Coo ℝ)) (hv : ∀ v ∈ vs, v.Valid ∧ v.NonPole) (dx dy : ℝ)
    (hd : ∀ v ∈ vs, 0 < dx * v.x + dy * v.y) : containsSouthPoleBasic vs = false := by
  rw [csp_eq]
  cases hl : vs.getLast? with
  | none => rfl
  | some last =>
    simp only
    rw [foldl_cspStep_fst, sumWrap_zero_of_halfplane vs last hl hv dx dy hd]
    simp [pi_pos.le]

/-! ## convex polygon in an open hemisphere, no pole inside -/

/-- the hypotheses of the main theorem on the vertex list:
    `o = ±1` winding (`1`: counter-clockwise seen from outside), at least 3 vertices, none at a pole, strictly convex,
    inside the open hemisphere of some direction `c`, and neither pole in the closed polygon
    (south pole `(0,0,-1)` outside the half-space of some edge: `o · (u × w).z > 0`; north pole: `< 0`). -/
structure ConvexNoPole (o : ℝ) (vs : List (Coo ℝ)) : Prop where
  ho : o = 1 ∨ o = -1
  hn : 3 ≤ vs.length
  hv : ∀ v ∈ vs, v.Valid ∧ v.NonPole
  hconv : StrictlyConvex o vs
  hhemi : ∃ c : ℝ × ℝ × ℝ, ∀ v ∈ vs, 0 < dot v c
  hsouth : ∃ e ∈ edges vs, 0 < o * (cross e.1 e.2).2.2
  hnorth : ∃ e ∈ edges vs, o * (cross e.1 e.2).2.2 < 0

theorem ConvexNoPole.vertex_edge {o : ℝ} {vs : List (Coo ℝ)} (h : ConvexNoPole o vs) (v : Coo ℝ) (hv : v ∈ vs)
    (e : Coo ℝ × Coo ℝ) (he : e ∈ edges vs) : 0 ≤ o * dot v (cross e.1 e.2) := by
  obtain ⟨k, hk, rfl⟩ := List.mem_iff_getElem.mp hv
  obtain ⟨b, hb, rfl⟩ := (mem_edges_iff vs e).mp he
  exact convex_vertex_edge h.hconv k b hk hb

/-- all the vertices are in an open half-plane of longitudes -/
theorem ConvexNoPole.halfplane {o : ℝ} {vs : List (Coo ℝ)} (h : ConvexNoPole o vs) :
    ∃ dx dy : ℝ, ∀ v ∈ vs, 0 < dx * v.x + dy * v.y := by
  obtain ⟨c, hc⟩ := h.hhemi
  rcases lt_trichotomy c.2.2 0 with hz | hz | hz
  · obtain ⟨e, he, hpos⟩ := h.hsouth
    refine ⟨(-c.2.2) * (o * (cross e.1 e.2).1) + (o * (cross e.1 e.2).2.2) * c.1,
      (-c.2.2) * (o * (cross e.1 e.2).2.1) + (o * (cross e.1 e.2).2.2) * c.2.1, ?_⟩
    intro v hv
    have h1 := h.vertex_edge v hv e he
    have h2 := hc v hv
    have e1 : ((-c.2.2) * (o * (cross e.1 e.2).1) + (o * (cross e.1 e.2).2.2) * c.1) * v.x +
        ((-c.2.2) * (o * (cross e.1 e.2).2.1) + (o * (cross e.1 e.2).2.2) * c.2.1) * v.y =
        (-c.2.2) * (o * dot v (cross e.1 e.2)) + (o * (cross e.1 e.2).2.2) * dot v c := by
      unfold dot; ring
    rw [e1]
    have := mul_nonneg (by linarith : (0 : ℝ) ≤ -c.2.2) h1
    have := mul_pos hpos h2
    linarith
  · refine ⟨c.1, c.2.1, ?_⟩
    intro v hv
    have h2 := hc v hv
    unfold dot at h2
    rw [hz] at h2
    linarith
  · obtain ⟨e, he, hneg⟩ := h.hnorth
    refine ⟨c.2.2 * (o * (cross e.1 e.2).1) - (o * (cross e.1 e.2).2.2) * c.1,
      c.2.2 * (o * (cross e.1 e.2).2.1) - (o * (cross e.1 e.2).2.2) * c.2.1, ?_⟩
    intro v hv
    have h1 := h.vertex_edge v hv e he
    have h2 := hc v hv
    have e1 : (c.2.2 * (o * (cross e.1 e.2).1) - (o * (cross e.1 e.2).2.2) * c.1) * v.x +
        (c.2.2 * (o * (cross e.1 e.2).2.1) - (o * (cross e.1 e.2).2.2) * c.2.1) * v.y =
        c.2.2 * (o * dot v (cross e.1 e.2)) + (-(o * (cross e.1 e.2).2.2)) * dot v c := by
      unfold dot; ring
    rw [e1]
    have := mul_nonneg hz.le h1
    have := mul_pos (by linarith : 0 < -(o * (cross e.1 e.2).2.2)) h2
    linarith

/-- the south-pole flag computed by `Polygon::new` is `false` -/
theorem ConvexNoPole.csp_false {o : ℝ} {vs : List (Coo ℝ)} (h : ConvexNoPole o vs) : containsSouthPoleBasic vs = false := by
  obtain ⟨dx, dy, hd⟩ := h.halfplane
  exact csp_false_of_halfplane vs h.hv dx dy hd

/-- no edge joins two opposite meridians (it would pass over a pole) -/
theorem ConvexNoPole.no_opposite {o : ℝ} {vs : List (Coo ℝ)} (h : ConvexNoPole o vs) (e : Coo ℝ × Coo ℝ) (he : e ∈ edges vs) :
    |e.2.lon - e.1.lon| ≠ π := by
  intro habs
  obtain ⟨c1, _, c3⟩ := convex_edges h.hn h.hconv
  have hm := mem_edges he
  obtain ⟨hu, hun⟩ := h.hv e.1 hm.1
  obtain ⟨hw, hwn⟩ := h.hv e.2 hm.2
  have hcu := hun.cos_pos
  have hcw := hwn.cos_pos
  -- opposite directions
  have hopp : cos e.2.lon = -cos e.1.lon ∧ sin e.2.lon = -sin e.1.lon := by
    rcases abs_eq pi_pos.le |>.mp habs with g | g
    · have : e.2.lon = e.1.lon + π := by linarith
      rw [this, cos_add_pi, sin_add_pi]; exact ⟨rfl, rfl⟩
    · have : e.2.lon = e.1.lon - π := by linarith
      rw [this, cos_sub_pi, sin_sub_pi]; exact ⟨rfl, rfl⟩
  set ζ := cos e.2.lat * e.1.z + cos e.1.lat * e.2.z with hζ
  have key : ∀ e' : Coo ℝ × Coo ℝ, cos e.2.lat * (o * dot e.1 (cross e'.1 e'.2)) + cos e.1.lat * (o * dot e.2 (cross e'.1 e'.2)) =
      ζ * (o * (cross e'.1 e'.2).2.2) := by
    intro e'
    unfold dot
    rw [hζ, hu.hx, hu.hy, hw.hx, hw.hy, hopp.1, hopp.2]; ring
  obtain ⟨e1, he1, hp1⟩ := h.hsouth
  obtain ⟨e2, he2, hp2⟩ := h.hnorth
  have nn : ∀ e' ∈ edges vs, 0 ≤ ζ * (o * (cross e'.1 e'.2).2.2) := by
    intro e' he'
    rw [← key e']
    have := c1 e he e' he'
    have := mul_nonneg hcw.le this.1
    have := mul_nonneg hcu.le (c1 e he e' he').2
    linarith
  have hζ0 : ζ = 0 := by
    have a1 := nn e1 he1
    have a2 := nn e2 he2
    have b1 : 0 ≤ ζ := by
      by_contra hc
      have := mul_neg_of_neg_of_pos (not_le.mp hc) hp1
      linarith
    have b2 : ζ ≤ 0 := by
      by_contra hc
      have := mul_neg_of_pos_of_neg (not_le.mp hc) hp2
      linarith
    linarith
  obtain ⟨⟨e', he', hpos, _⟩, _⟩ := c3 e he
  have := key e'
  rw [hζ0, zero_mul] at this
  have t1 := mul_pos hcw hpos
  have t2 := mul_nonneg hcu.le (c1 e he e' he').2
  linarith

/-- **`Polygon::contains` on convex polygons, over the reals.**  Let `poly` be a polygon as built by `Polygon::new`
    (`polygon_new_real`) from a strictly convex list of at least 3 vertices, in either winding order (`o = 1`
    counter-clockwise, `o = -1` clockwise), contained in an open hemisphere, with no vertex at a pole and neither pole in
    the closed polygon.  For every point `p` of the sphere other than the poles, whose meridian passes through no vertex
    and which is not on the boundary of the polygon (`hnb`: in all the closed half-spaces ⇒ in all the open ones; in
    particular every `p` that is on no edge's great circle):
    `contains p` is `true` iff `p` is strictly inside the half-space of every edge (`o · p · (v_{i-1} × v_i) > 0`). -/
theorem contains_convex (poly : Polygon ℝ) (hb : poly.Built) (o : ℝ) (h : ConvexNoPole o poly.vertices)
    (p : Coo ℝ) (hp : p.Valid) (hpn : p.NonPole) (hgen : ∀ v ∈ poly.vertices, p.lon ≠ v.lon)
    (hnb : (∀ e ∈ edges poly.vertices, 0 ≤ o * dot p (cross e.1 e.2)) →
      ∀ e ∈ edges poly.vertices, 0 < o * dot p (cross e.1 e.2)) :
    poly.contains p = true ↔ ∀ e ∈ edges poly.vertices, 0 < o * dot p (cross e.1 e.2) := by
  rw [contains_parity poly hb h.hv h.no_opposite p hp hgen, hb.csp, h.csp_false, Bool.false_xor, oddB_iff]
  obtain ⟨c1, c2, c3⟩ := convex_edges h.hn h.hconv
  refine count_convex (edges poly.vertices) o h.ho ?_ c1 c2 c3 ⟨h.hsouth, h.hnorth⟩ p hp hpn ?_ hnb
  · intro e he
    have := mem_edges he
    exact ⟨h.hv _ this.1, h.hv _ this.2⟩
  · intro e he
    have := mem_edges he
    exact ⟨hgen _ this.1, hgen _ this.2⟩

/-- the same, on the value returned by `Polygon::new` for positions in the canonical ranges -/
theorem contains_convex_new (dbg : Bool) (lls : List (ℝ × ℝ))
    (hr : ∀ ll ∈ lls, 0 ≤ ll.1 ∧ ll.1 < 2 * π ∧ -(π / 2) ≤ ll.2 ∧ ll.2 ≤ π / 2)
    (o : ℝ) (h : ConvexNoPole o (lls.map cooOf))
    (p : Coo ℝ) (hp : p.Valid) (hpn : p.NonPole) (hgen : ∀ ll ∈ lls, p.lon ≠ ll.1)
    (hnb : (∀ e ∈ edges (lls.map cooOf), 0 ≤ o * dot p (cross e.1 e.2)) →
      ∀ e ∈ edges (lls.map cooOf), 0 < o * dot p (cross e.1 e.2)) :
    ∃ poly, Polygon.new dbg lls = some poly ∧
      (poly.contains p = true ↔ ∀ e ∈ edges (lls.map cooOf), 0 < o * dot p (cross e.1 e.2)) := by
  have hne : lls ≠ [] := by
    intro h0; have := h.hn; rw [h0] at this; simp at this
  obtain ⟨poly, hnew, hvs, hb⟩ := polygon_new_real dbg lls hne hr
  refine ⟨poly, hnew, ?_⟩
  rw [← hvs] at h hnb ⊢
  apply contains_convex poly hb o h p hp hpn ?_ hnb
  intro v hv
  rw [hvs] at hv
  obtain ⟨ll, hll, rfl⟩ := List.mem_map.mp hv
  exact hgen ll hll

end Hpx.Sph
