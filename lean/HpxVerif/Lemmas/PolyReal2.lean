/-
Point-in-polygon over the reals (C12), part 2: the loop of `odd_num_intersect_going_south` is the parity of the number of
edges that cross the meridian of the point strictly south of it (`contains_parity`), for every number of vertices.
-/
import HpxVerif.Lemmas.PolyReal

namespace Hpx.Sph
open Real Hpx.Proj

/-! ## the cyclic list of edges -/

/-- consecutive pairs, starting with `(left, v₀)` -/
def edgesFrom (left : Coo ℝ) : List (Coo ℝ) → List (Coo ℝ × Coo ℝ)
  | [] => []
  | v :: rest => (left, v) :: edgesFrom v rest

/-- the edges of the closed polygon in the order of the loops of the crate: `(v_{n-1}, v₀), (v₀, v₁), …, (v_{n-2}, v_{n-1})` -/
def edges (vs : List (Coo ℝ)) : List (Coo ℝ × Coo ℝ) :=
  match vs.getLast? with
  | none => []
  | some last => edgesFrom last vs

theorem edgesFrom_length (left : Coo ℝ) (vs : List (Coo ℝ)) : (edgesFrom left vs).length = vs.length := by
  induction vs generalizing left with
  | nil => rfl
  | cons v rest ih => simp [edgesFrom, ih]

theorem edges_length (vs : List (Coo ℝ)) : (edges vs).length = vs.length := by
  unfold edges
  cases h : vs.getLast? with
  | none => simp [List.getLast?_eq_none_iff.mp h]
  | some l => exact edgesFrom_length _ _

theorem edgesFrom_getElem (left : Coo ℝ) (vs : List (Coo ℝ)) (i : Nat) (hi : i < vs.length) :
    (edgesFrom left vs)[i]'(by rw [edgesFrom_length]; exact hi) =
      (if _h : i = 0 then left else vs[i - 1]'(by omega), vs[i]) := by
  induction vs generalizing left i with
  | nil => simp at hi
  | cons v rest ih =>
    cases i with
    | zero => simp [edgesFrom]
    | succ j =>
      simp only [edgesFrom, List.getElem_cons_succ]
      rw [ih v j (by simpa using hi)]
      cases j with
      | zero => simp
      | succ k => simp

theorem mem_edgesFrom_left {left : Coo ℝ} {vs : List (Coo ℝ)} {e : Coo ℝ × Coo ℝ} (h : e ∈ edgesFrom left vs) :
    (e.1 = left ∨ e.1 ∈ vs) ∧ e.2 ∈ vs := by
  induction vs generalizing left with
  | nil => simp [edgesFrom] at h
  | cons v rest ih =>
    simp only [edgesFrom, List.mem_cons] at h
    rcases h with rfl | h
    · simp
    · have := ih h
      rcases this with ⟨h1 | h1, h2⟩
      · exact ⟨Or.inr (by rw [h1]; simp), by simp [h2]⟩
      · exact ⟨Or.inr (by simp [h1]), by simp [h2]⟩

theorem mem_edges {vs : List (Coo ℝ)} {e : Coo ℝ × Coo ℝ} (h : e ∈ edges vs) : e.1 ∈ vs ∧ e.2 ∈ vs := by
  unfold edges at h
  cases hl : vs.getLast? with
  | none => rw [hl] at h; simp at h
  | some l =>
    rw [hl] at h
    have hm : l ∈ vs := List.mem_of_getLast? hl
    rcases mem_edgesFrom_left h with ⟨h1 | h1, h2⟩
    · exact ⟨h1 ▸ hm, h2⟩
    · exact ⟨h1, h2⟩

/-! ## the two loops -/

/-- `compute_cross_products_v2` -/
theorem new_go_eq (left : Coo ℝ) (vs : List (Coo ℝ)) :
    Polygon.new.go left vs = (edgesFrom left vs).map (fun e => npCross e.1 e.2) := by
  induction vs generalizing left with
  | nil => rfl
  | cons v rest ih =>
    rw [Polygon.new.go, ih]
    simp only [edgesFrom, List.map_cons, r_lt, r_zero, npCross]
    congr 1
    by_cases h : (cross left v).2.2 < 0 <;> simp [h]

/-- parity as a Boolean -/
def oddB (n : Nat) : Bool := n % 2 == 1

theorem oddB_iff (n : Nat) : oddB n = true ↔ Odd n := by
  unfold oddB; rw [Nat.odd_iff]; simp

theorem oddB_succ (n : Nat) : oddB (n + 1) = !oddB n := by
  unfold oddB
  rcases Nat.mod_two_eq_zero_or_one n with h | h <;> simp [Nat.add_mod, h]

/-- the loop of `odd_num_intersect_going_south`, for any test on the edges -/
theorem odd_go_eq (coo left : Coo ℝ) (vs : List (Coo ℝ)) (c : Bool) :
    oddNumIntersectGoingSouth.go coo left vs ((edgesFrom left vs).map (fun e => npCross e.1 e.2)) c =
      xor c (oddB ((edgesFrom left vs).countP
        (fun e => isInLonRange coo e.1 e.2 && Num.gt (dot coo (npCross e.1 e.2)) (Num.zero : ℝ)))) := by
  induction vs generalizing left c with
  | nil => simp [edgesFrom, oddNumIntersectGoingSouth.go, oddB]
  | cons v rest ih =>
    simp only [edgesFrom, List.map_cons]
    rw [oddNumIntersectGoingSouth.go, ih, List.countP_cons]
    by_cases ht : (isInLonRange coo left v && Num.gt (dot coo (npCross left v)) (Num.zero : ℝ)) = true
    · simp only [ht, if_true]
      rw [oddB_succ]
      cases c <;> simp
    · simp only [ht, Bool.false_eq_true, if_false, Nat.add_zero]

/-- what `Polygon::new` builds besides the vertices -/
structure Polygon.Built (poly : Polygon ℝ) : Prop where
  cps : poly.crossProducts = (edges poly.vertices).map (fun e => npCross e.1 e.2)
  csp : poly.containsSouthPole = containsSouthPoleBasic poly.vertices

theorem fromSphCoo_inRange (dbg : Bool) (lon lat : ℝ) (h0 : 0 ≤ lon) (h1 : lon < 2 * π) (h2 : -(π / 2) ≤ lat)
    (h3 : lat ≤ π / 2) :
    fromSphCoo dbg lon lat = some { x := cos lat * cos lon, y := cos lat * sin lon, z := sin lat, lon := lon, lat := lat } := by
  unfold fromSphCoo vec3Of
  simp only [r_lt, r_le, r_zero, r_twicePi, r_hpi, r_cos, r_sin]
  have e1 : ¬ lon < 0 := not_lt.mpr h0
  have e2 : ¬ 2 * π ≤ lon := not_le.mpr h1
  have e3 : ¬ lat < -(π / 2) := not_lt.mpr h2
  have e4 : ¬ π / 2 < lat := not_lt.mpr h3
  simp [e1, e2, e3, e4]

/-- the `Coo` of a position -/
noncomputable def cooOf (ll : ℝ × ℝ) : Coo ℝ :=
  { x := cos ll.2 * cos ll.1, y := cos ll.2 * sin ll.1, z := sin ll.2, lon := ll.1, lat := ll.2 }

theorem cooOf_valid (ll : ℝ × ℝ) (h0 : 0 ≤ ll.1) (h1 : ll.1 < 2 * π) (h2 : -(π / 2) ≤ ll.2) (h3 : ll.2 ≤ π / 2) :
    (cooOf ll).Valid := ⟨rfl, rfl, rfl, h0, h1, h2, h3⟩

theorem mapM_fromSphCoo (dbg : Bool) (lls : List (ℝ × ℝ))
    (h : ∀ ll ∈ lls, 0 ≤ ll.1 ∧ ll.1 < 2 * π ∧ -(π / 2) ≤ ll.2 ∧ ll.2 ≤ π / 2) :
    lls.mapM (fun ll => fromSphCoo dbg ll.1 ll.2) = some (lls.map cooOf) := by
  induction lls with
  | nil => rfl
  | cons ll rest ih =>
    have h' := h ll (by simp)
    rw [List.mapM_cons, fromSphCoo_inRange dbg ll.1 ll.2 h'.1 h'.2.1 h'.2.2.1 h'.2.2.2,
      ih (fun x hx => h x (by simp [hx]))]
    rfl

/-- **`Polygon::new` over the reals**: for positions in the canonical ranges (`Coo3D::from_sph_coo` does not renormalise)
    the vertices are the unit vectors of the positions, the normals are the north-pointing `±(v_{i-1} × v_i)`. -/
theorem polygon_new_real (dbg : Bool) (lls : List (ℝ × ℝ)) (hne : lls ≠ [])
    (h : ∀ ll ∈ lls, 0 ≤ ll.1 ∧ ll.1 < 2 * π ∧ -(π / 2) ≤ ll.2 ∧ ll.2 ≤ π / 2) :
    ∃ poly, Polygon.new dbg lls = some poly ∧ poly.vertices = lls.map cooOf ∧ poly.Built := by
  unfold Polygon.new
  rw [mapM_fromSphCoo dbg lls h]
  simp only
  cases hl : (lls.map cooOf).getLast? with
  | none => simp at hl; exact absurd hl hne
  | some last =>
    refine ⟨_, rfl, rfl, ?_, rfl⟩
    simp only [edges, hl, new_go_eq]

/-! ## 3. the predicate is a parity -/

open Classical in
/-- **`contains` is the crossing parity.**  For a polygon as built by `Polygon::new` whose vertices are not poles and
    none of whose edges joins two opposite meridians, and a point whose meridian passes through no vertex:
    `contains` is the `xor` of the stored south-pole flag with "the number of edges whose great-circle arc crosses the
    meridian of `p` strictly south of `p` is odd".  Every number of vertices (0 included: no edge). -/
theorem contains_parity (poly : Polygon ℝ) (hb : poly.Built) (hv : ∀ v ∈ poly.vertices, v.Valid ∧ v.NonPole)
    (hopp : ∀ e ∈ edges poly.vertices, |e.2.lon - e.1.lon| ≠ π) (p : Coo ℝ) (hp : p.Valid)
    (hgen : ∀ v ∈ poly.vertices, p.lon ≠ v.lon) :
    poly.contains p = xor poly.containsSouthPole
      (oddB ((edges poly.vertices).countP (fun e => decide (CrossesSouth e.1 e.2 p)))) := by
  unfold Polygon.contains
  congr 1
  unfold oddNumIntersectGoingSouth
  rw [hb.cps]
  unfold edges at hopp ⊢
  cases hl : poly.vertices.getLast? with
  | none => simp [oddB]
  | some last =>
    simp only [hl] at hopp ⊢
    rw [odd_go_eq, Bool.false_xor]
    congr 1
    apply List.countP_congr
    intro e he
    have hm : e.1 ∈ poly.vertices ∧ e.2 ∈ poly.vertices := mem_edges (by unfold edges; rw [hl]; exact he)
    have h1 := hv e.1 hm.1
    have h2 := hv e.2 hm.2
    rw [crossing_test_geometric h1.1 h2.1 hp h1.2 h2.2 (hopp e he) (hgen _ hm.1) (hgen _ hm.2)]
    simp

end Hpx.Sph
