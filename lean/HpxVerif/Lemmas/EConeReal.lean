/-
Real-valued meaning of the elliptical-cone tests of `elliptical_cone_coverage` (C13), part 1:
the orthographic (`SIN`) projection, `forced_proj_and_distance`, and `contains_cone` in the circular case.
All statements are about the model functions of `Model/SphGeom.lean` instantiated at `α := ℝ`.
-/
import HpxVerif.Lemmas.EllipseReal
import HpxVerif.Lemmas.ConeReal
import Mathlib.Analysis.Real.Pi.Bounds
import Mathlib.Analysis.SpecialFunctions.Trigonometric.Bounds

namespace Hpx.Sph
open Hpx Hpx.Cover Real

/-! ## numeric interface at `ℝ` -/

theorem num_one : (Num.one : ℝ) = 1 := by show ((1 : ℕ) : ℝ) = 1; norm_num
theorem num_two : (Num.two : ℝ) = 2 := by show ((2 : ℕ) : ℝ) = 2; norm_num
theorem num_gt (x y : ℝ) : Num.gt x y = decide (y < x) := rfl
theorem num_ge (x y : ℝ) : Num.ge x y = decide (y ≤ x) := rfl
theorem num_half' : (Num.half : ℝ) = 1 / 2 := lit_050
theorem num_sqrt (x : ℝ) : Num.sqrt x = Real.sqrt x := rfl
theorem num_abs (x : ℝ) : Num.abs x = |x| := rfl
theorem num_atan2 (y x : ℝ) : Num.atan2 y x = Complex.arg ⟨x, y⟩ := rfl
theorem num_pi : (Num.pi : ℝ) = π := rfl

/-- the literal `f64::INFINITY` of `is_finite` evaluates to `2^1024` at `ℝ` -/
theorem lit_inf : (Num.lit (α := ℝ) 0x7FF0000000000000) = 2 ^ 1024 := by
  show ((F64.toRat 0x7FF0000000000000 : ℚ) : ℝ) = 2 ^ 1024
  rw [toRat_of_fields _ 2047 0 (by decide) (by decide) (by decide) (by decide)]
  norm_num
  rw [show (4503599627370496 : ℝ) = 2 ^ 52 by norm_num, ← pow_add]

/-- `is_finite` at `ℝ`: `|x| < 2^1024` -/
theorem isFinite_real (x : ℝ) : isFinite x = decide (|x| < 2 ^ 1024) := by
  unfold isFinite
  rw [lit_inf]
  show (!false && decide (|x| < 2 ^ 1024)) = _
  simp

/-! ## the projection centre -/

/-- the invariant of `ProjSIN`: the stored cosine and sine are those of the stored latitude -/
def ProjSIN.Coherent (p : ProjSIN ℝ) : Prop :=
  p.cosCenterLat = cos p.centerLat ∧ p.sinCenterLat = sin p.centerLat

/-- the centre of the projection, as a position -/
def ProjSIN.c0 (p : ProjSIN ℝ) : ℝ × ℝ := (p.centerLon, p.centerLat)

theorem ProjSIN.new_coherent (lon lat : ℝ) : (ProjSIN.new lon lat).Coherent := by
  unfold ProjSIN.new
  split
  exact ⟨rfl, rfl⟩

/-- normalised input: the centre is the input position -/
theorem ProjSIN.new_c0 (lon lat : ℝ) (hlon : 0 ≤ lon ∧ lon < 2 * π) (hlat : -(π / 2) ≤ lat ∧ lat ≤ π / 2) :
    (ProjSIN.new lon lat).c0 = (lon, lat) := by
  unfold ProjSIN.new ProjSIN.c0
  have h1 : Num.lt lon (Num.zero : ℝ) = false := by rw [num_lt, num_zero]; simpa using hlon.1
  have h2 : Num.le (Num.twicePi : ℝ) lon = false := by rw [num_le, num_twicePi]; simpa using hlon.2
  have h3 : Num.lt lat (-(Num.halfPi : ℝ)) = false := by rw [num_lt, num_halfPi]; simpa using hlat.1
  have h4 : Num.lt (Num.halfPi : ℝ) lat = false := by rw [num_lt, num_halfPi]; simpa using hlat.2
  simp only [h1, h2, h3, h4, Bool.or_self, Bool.false_eq_true, if_false]

/-! ## the orthographic projection -/

/-- orthographic projection of `q` on the plane tangent at `c`: abscissa (towards the east) -/
noncomputable def sinX (c q : ℝ × ℝ) : ℝ := cos q.2 * sin (q.1 - c.1)
/-- orthographic projection of `q` on the plane tangent at `c`: ordinate (towards the north) -/
noncomputable def sinY (c q : ℝ × ℝ) : ℝ := cos c.2 * sin q.2 - sin c.2 * cos q.2 * cos (q.1 - c.1)

/-- the third coordinate is the cosine of the angular distance -/
theorem cos_adist' (c q : ℝ × ℝ) :
    cos (adist q c) = sin c.2 * sin q.2 + cos c.2 * cos q.2 * cos (q.1 - c.1) := by
  rw [cos_adist]; ring

theorem sin_adist_nonneg (p q : ℝ × ℝ) : 0 ≤ sin (adist p q) :=
  sin_nonneg_of_nonneg_of_le_pi (adist_nonneg _ _) (adist_le_pi _ _)

/-- `x² + y² = sin²(angular distance)` -/
theorem sinXY_norm (c q : ℝ × ℝ) : sinX c q ^ 2 + sinY c q ^ 2 = sin (adist q c) ^ 2 := by
  have h := sin_proj_norm c.2 q.2 (q.1 - c.1)
  have h2 := sin_sq_add_cos_sq (adist q c)
  rw [cos_adist'] at h2
  unfold sinX sinY
  linarith

theorem sqrt_sinXY (c q : ℝ × ℝ) : Real.sqrt (sinX c q * sinX c q + sinY c q * sinY c q) = sin (adist q c) := by
  rw [show sinX c q * sinX c q + sinY c q * sinY c q = sin (adist q c) ^ 2 by rw [← sinXY_norm]; ring]
  exact Real.sqrt_sq (sin_adist_nonneg _ _)

/-- **`ProjSIN::proj` is the orthographic projection**, defined exactly on the open visible hemisphere
    (`cos(angular distance) > 0`, the great circle at `π/2` excluded) -/
theorem proj_sin_spec (p : ProjSIN ℝ) (hp : p.Coherent) (l φ : ℝ) :
    p.proj l φ = if 0 < cos (adist (l, φ) p.c0) then some (sinX p.c0 (l, φ), sinY p.c0 (l, φ)) else none := by
  unfold ProjSIN.proj
  simp only [num_sin, num_cos, hp.1, hp.2, num_gt, num_zero, cos_adist', ProjSIN.c0, sinX, sinY, decide_eq_true_eq]

/-- the projection is defined iff the point is at less than `π/2` of the centre -/
theorem proj_isSome_iff (p : ProjSIN ℝ) (hp : p.Coherent) (l φ : ℝ) :
    (p.proj l φ).isSome = true ↔ adist (l, φ) p.c0 < π / 2 := by
  rw [proj_sin_spec p hp]
  have h0 := adist_nonneg (l, φ) p.c0
  have hpi := adist_le_pi (l, φ) p.c0
  constructor
  · intro h
    split at h
    · rename_i hc
      by_contra hge
      have := cos_nonpos_of_pi_div_two_le_of_le (not_lt.mp hge) (by linarith)
      linarith
    · simp at h
  · intro h
    rw [if_pos (cos_pos_of_mem_Ioo ⟨by linarith, h⟩)]
    rfl

/-- the norm of the projected point is the sine of the angular distance -/
theorem proj_norm (p : ProjSIN ℝ) (hp : p.Coherent) (l φ x y : ℝ) (h : p.proj l φ = some (x, y)) :
    x ^ 2 + y ^ 2 = sin (adist (l, φ) p.c0) ^ 2 ∧ adist (l, φ) p.c0 < π / 2 := by
  refine ⟨?_, (proj_isSome_iff p hp l φ).mp (by rw [h]; rfl)⟩
  rw [proj_sin_spec p hp] at h
  split at h
  · cases h; exact sinXY_norm _ _
  · simp at h

/-- `atan2(sin d, cos d) = d` for `d ∈ [0, π]` -/
theorem arg_cos_sin (d : ℝ) (h0 : 0 ≤ d) (hpi : d ≤ π) : Complex.arg ⟨cos d, sin d⟩ = d := by
  have := Complex.arg_cos_add_sin_mul_I (θ := d) ⟨by linarith [pi_pos], hpi⟩
  calc Complex.arg ⟨cos d, sin d⟩ = Complex.arg (Complex.cos d + Complex.sin d * Complex.I) := by
        congr 1
        apply Complex.ext <;> simp [Complex.cos_ofReal_re, Complex.sin_ofReal_re]
    _ = d := this

/-- **`forced_proj_and_distance`** (after the repair of finding F18): for *every* point of the sphere, the same
    `(x, y)` as the orthographic projection (mirror image for the points of the far hemisphere) together with the
    exact angular distance to the centre, in `[0, π]` -/
theorem forcedProjAndDistance_spec (p : ProjSIN ℝ) (hp : p.Coherent) (l φ : ℝ) :
    p.forcedProjAndDistance l φ = ((sinX p.c0 (l, φ), sinY p.c0 (l, φ)), adist (l, φ) p.c0) := by
  unfold ProjSIN.forcedProjAndDistance
  simp only [num_sin, num_cos, hp.1, hp.2, num_atan2, num_sqrt]
  have hs := sqrt_sinXY p.c0 (l, φ)
  have hc := cos_adist' p.c0 (l, φ)
  unfold sinX sinY ProjSIN.c0 at hs
  unfold ProjSIN.c0 at hc
  simp only at hs hc
  rw [hs, ← hc, arg_cos_sin _ (adist_nonneg _ _) (adist_le_pi _ _)]
  rfl

/-! ## circles: `a = b` -/

/-- the ellipse test with equal semi-axes `S > 0` is the disc test, for every orientation -/
theorem circle_test (S s c x y : ℝ) (hS : 0 < S) (hsc : s * s + c * c = 1) :
    (Ellipse.fromOriented (α := ℝ) S S s c).contains x y = true ↔ x ^ 2 + y ^ 2 ≤ S ^ 2 := by
  rw [ellipse_contains_real S S s c x y (ne_of_gt hS) (ne_of_gt hS) hsc]
  have hsum : ((x * c + y * s) / S) ^ 2 + ((x * s - y * c) / S) ^ 2 = (x ^ 2 + y ^ 2) / S ^ 2 := by
    field_simp
    linear_combination (x ^ 2 + y ^ 2) * hsc
  rw [hsum, div_le_one (by positivity)]

/-- `sin²` is increasing on `[0, π/2]` -/
theorem sin_sq_le_iff (d t : ℝ) (hd : 0 ≤ d ∧ d ≤ π / 2) (ht : 0 ≤ t ∧ t ≤ π / 2) :
    sin d ^ 2 ≤ sin t ^ 2 ↔ d ≤ t := by
  have h1 : 0 ≤ sin d := sin_nonneg_of_nonneg_of_le_pi hd.1 (by linarith [pi_pos])
  have h2 : 0 ≤ sin t := sin_nonneg_of_nonneg_of_le_pi ht.1 (by linarith [pi_pos])
  rw [sq_le_sq₀ h1 h2]
  exact strictMonoOn_sin.le_iff_le ⟨by linarith [pi_pos], hd.2⟩ ⟨by linarith [pi_pos], ht.2⟩

theorem theta_unit (pa : ℝ) : sin ((Num.halfPi : ℝ) - pa) * sin ((Num.halfPi : ℝ) - pa) +
    cos ((Num.halfPi : ℝ) - pa) * cos ((Num.halfPi : ℝ) - pa) = 1 := by
  have := sin_sq_add_cos_sq ((Num.halfPi : ℝ) - pa); nlinarith [this]

/-- **circular case, membership**: for `a = b` and *any* centre, the elliptical-cone membership is
    `angular distance to the centre ≤ a` -/
theorem econe_contains_circular' (lon lat a pa l φ : ℝ) (ha : 0 < a ∧ a < π / 2) :
    (ECone.new (α := ℝ) lon lat a a pa).contains l φ = true ↔ adist (l, φ) (ProjSIN.new lon lat).c0 ≤ a := by
  unfold ECone.contains ECone.new
  simp only [num_sin, num_cos]
  rw [proj_sin_spec _ (ProjSIN.new_coherent lon lat)]
  have h0 := adist_nonneg (l, φ) (ProjSIN.new lon lat).c0
  have hpi := adist_le_pi (l, φ) (ProjSIN.new lon lat).c0
  have hsa : 0 < sin a := sin_pos_of_pos_of_lt_pi ha.1 (by linarith [pi_pos])
  by_cases hc : 0 < cos (adist (l, φ) (ProjSIN.new lon lat).c0)
  · have hd : adist (l, φ) (ProjSIN.new lon lat).c0 < π / 2 := by
      by_contra hge
      have := cos_nonpos_of_pi_div_two_le_of_le (not_lt.mp hge) (by linarith)
      linarith
    simp only [if_pos hc]
    rw [circle_test _ _ _ _ _ hsa (theta_unit pa), sinXY_norm, sin_sq_le_iff _ _ ⟨h0, hd.le⟩ ⟨ha.1.le, ha.2.le⟩]
  · simp only [if_neg hc]
    constructor
    · intro h; exact absurd h (by simp)
    · intro h
      exact absurd (cos_pos_of_mem_Ioo ⟨by linarith, by linarith⟩) hc

/-- **circular case, `contains_cone`**: for `a = b < π/2` and a radius `r ≥ 0`, the test answers `true` exactly when
    the whole cone of radius `r` around `(l, φ)` lies at `≤ a` of the centre with `r < a`:
    `angular distance + r ≤ a`.  (Sound *and* complete in the circular case.) -/
theorem contains_cone_circular (lon lat a pa l φ r : ℝ) (ha : 0 < a ∧ a < π / 2) (hr : 0 ≤ r) :
    (ECone.new (α := ℝ) lon lat a a pa).containsCone l φ r = true ↔
      r < a ∧ adist (l, φ) (ProjSIN.new lon lat).c0 + r ≤ a := by
  unfold ECone.containsCone ECone.new
  simp only [num_sin, num_cos, num_ge]
  by_cases hra : a ≤ r
  · simp only [hra, decide_true, if_true]
    constructor
    · intro h; exact absurd h (by simp)
    · intro h; exact absurd h.1 (not_lt.mpr hra)
  · simp only [hra, decide_false, Bool.false_eq_true, if_false]
    have hra' : r < a := not_le.mp hra
    rw [proj_sin_spec _ (ProjSIN.new_coherent lon lat)]
    have h0 := adist_nonneg (l, φ) (ProjSIN.new lon lat).c0
    have hpi := adist_le_pi (l, φ) (ProjSIN.new lon lat).c0
    have hsa : 0 < sin (a - r) := sin_pos_of_pos_of_lt_pi (by linarith) (by linarith [pi_pos])
    by_cases hc : 0 < cos (adist (l, φ) (ProjSIN.new lon lat).c0)
    · have hd : adist (l, φ) (ProjSIN.new lon lat).c0 < π / 2 := by
        by_contra hge
        have := cos_nonpos_of_pi_div_two_le_of_le (not_lt.mp hge) (by linarith)
        linarith
      simp only [if_pos hc]
      rw [circle_test _ _ _ _ _ hsa (theta_unit pa), sinXY_norm,
        sin_sq_le_iff _ _ ⟨h0, hd.le⟩ ⟨by linarith, by linarith⟩]
      constructor
      · intro h; exact ⟨hra', by linarith⟩
      · intro h; linarith [h.2]
    · simp only [if_neg hc]
      constructor
      · intro h; exact absurd h (by simp)
      · intro h
        exact absurd (cos_pos_of_mem_Ioo ⟨by linarith, by linarith [h.2]⟩) hc

/-- **`contains_cone` is sound in the circular case**: if it answers `true`, every point within `r` of `(l, φ)` is within
    `a` of the centre (so belongs to the cone, `econe_contains_circular'`) -/
theorem contains_cone_circular_sound (lon lat a pa l φ r : ℝ) (ha : 0 < a ∧ a < π / 2) (hr : 0 ≤ r)
    (h : (ECone.new (α := ℝ) lon lat a a pa).containsCone l φ r = true) (q : ℝ × ℝ) (hq : adist (l, φ) q ≤ r) :
    adist q (ProjSIN.new lon lat).c0 ≤ a ∧ (ECone.new (α := ℝ) lon lat a a pa).contains q.1 q.2 = true := by
  have h1 := ((contains_cone_circular lon lat a pa l φ r ha hr).mp h).2
  have h2 := adist_triangle q (l, φ) (ProjSIN.new lon lat).c0
  rw [adist_comm q (l, φ)] at h2
  have h3 : adist q (ProjSIN.new lon lat).c0 ≤ a := by linarith
  exact ⟨h3, (econe_contains_circular' lon lat a pa q.1 q.2 ha).mpr h3⟩

/-! ## `overlap_cone` at `ℝ` -/

/-- sufficient condition for the covariance-form test: `det ≥ 0` and `pᵀ adj(M) p ≤ det M` -/
theorem cov_contains_of (Sx Sy ρ X Y : ℝ) (hdet : 0 ≤ Sx * Sy - ρ * ρ)
    (h : X * X * Sy - 2 * (ρ * X * Y) + Y * Y * Sx ≤ Sx * Sy - ρ * ρ) :
    (Ellipse.fromCov (α := ℝ) Sx Sy ρ).contains X Y = true := by
  unfold Ellipse.contains Ellipse.fromCov pow2
  rw [num_le, num_one, num_two, decide_eq_true_eq]
  simp only
  rcases eq_or_lt_of_le hdet with h0 | hpos
  · rw [← h0]; simp
  · rw [one_div, inv_mul_le_iff₀ hpos]; linarith

theorem fromOriented_neg (a b s c : ℝ) :
    Ellipse.fromOriented (α := ℝ) a b (-s) (-c) = Ellipse.fromOriented a b s c := by
  unfold Ellipse.fromOriented pow2
  simp only [neg_mul_neg]

/-- **`overlap_cone` unfolded over the reals**: `d` the angular distance between the cone centre `(l, φ)` and the
    centre of the ellipse, `(u, v)` the direction of the projected cone centre.  The special case "the cell centre is the
    ellipse centre" (`1 / norm` not finite) is, at `ℝ`, `0 < sin d ≤ 2^-1024` (the inverse overflows `f64`); with exact
    division `1 / 0 = 0` is finite, whereas in `f64` it is `+∞`: see `overlap_cone_centre_special_case` -/
theorem overlapCone_real (e : ECone ℝ) (he : e.center.Coherent) (l φ r : ℝ) (hr : 0 < r) :
    e.overlapCone l φ r =
      (if e.a + r < adist (l, φ) e.center.c0 then some false
       else if ¬ |1 / sin (adist (l, φ) e.center.c0)| < 2 ^ 1024 then some (decide (r ≤ e.b))
       else some ((e.ellipse.extendedGeom (Ellipse.fromOriented (sin r)
            (1 / 2 * |sin (adist (l, φ) e.center.c0 + r) - sin (adist (l, φ) e.center.c0 - r)|)
            (-(sinX e.center.c0 (l, φ) * (1 / sin (adist (l, φ) e.center.c0))))
            (sinY e.center.c0 (l, φ) * (1 / sin (adist (l, φ) e.center.c0))))).contains
          (1 / 2 * (sin (adist (l, φ) e.center.c0 + r) + sin (adist (l, φ) e.center.c0 - r)) *
            (sinX e.center.c0 (l, φ) * (1 / sin (adist (l, φ) e.center.c0))))
          (1 / 2 * (sin (adist (l, φ) e.center.c0 + r) + sin (adist (l, φ) e.center.c0 - r)) *
            (sinY e.center.c0 (l, φ) * (1 / sin (adist (l, φ) e.center.c0)))))) := by
  unfold ECone.overlapCone
  rw [forcedProjAndDistance_spec _ he]
  have hr' : Num.gt r (Num.zero : ℝ) = true := by rw [num_gt, num_zero]; simpa using hr
  simp only [hr', Bool.not_true, Bool.false_eq_true, if_false]
  simp only [num_lt, num_sin, num_half', num_abs, num_one, num_sqrt,
    pow2, sqrt_sinXY, isFinite_real, num_ge, num_zero, num_le]
  by_cases h1 : e.a + r < adist (l, φ) e.center.c0
  · simp only [h1, decide_true, if_true]
  · simp only [h1, decide_false, Bool.false_eq_true, if_false]
    by_cases h2 : |1 / sin (adist (l, φ) e.center.c0)| < 2 ^ 1024
    · simp only [h2, decide_true, Bool.not_true, Bool.false_eq_true, if_false, not_true_eq_false]
      by_cases h3 : 0 ≤ sinY e.center.c0 (l, φ) * (1 / sin (adist (l, φ) e.center.c0))
      · simp only [h3, decide_true, if_true]
      · simp only [h3, decide_false, Bool.false_eq_true, if_false]
        rw [← fromOriented_neg, neg_neg]
    · simp only [h2, decide_false, Bool.not_false, if_true, not_false_eq_true]

/-- quick rejection -/
theorem overlapCone_far (e : ECone ℝ) (he : e.center.Coherent) (l φ r : ℝ) (hr : 0 < r)
    (h : e.a + r < adist (l, φ) e.center.c0) : e.overlapCone l φ r = some false := by
  rw [overlapCone_real e he l φ r hr, if_pos h]

/-- the special case of the code -/
theorem overlapCone_special (e : ECone ℝ) (he : e.center.Coherent) (l φ r : ℝ) (hr : 0 < r)
    (h : ¬ e.a + r < adist (l, φ) e.center.c0) (h2 : ¬ |1 / sin (adist (l, φ) e.center.c0)| < 2 ^ 1024) :
    e.overlapCone l φ r = some (decide (r ≤ e.b)) := by
  rw [overlapCone_real e he l φ r hr, if_neg h, if_pos h2]

/-- the general case -/
theorem overlapCone_main (e : ECone ℝ) (he : e.center.Coherent) (l φ r : ℝ) (hr : 0 < r)
    (h : ¬ e.a + r < adist (l, φ) e.center.c0) (h2 : |1 / sin (adist (l, φ) e.center.c0)| < 2 ^ 1024) :
    e.overlapCone l φ r =
      some ((e.ellipse.extendedGeom (Ellipse.fromOriented (sin r)
            (1 / 2 * |sin (adist (l, φ) e.center.c0 + r) - sin (adist (l, φ) e.center.c0 - r)|)
            (-(sinX e.center.c0 (l, φ) * (1 / sin (adist (l, φ) e.center.c0))))
            (sinY e.center.c0 (l, φ) * (1 / sin (adist (l, φ) e.center.c0))))).contains
          (1 / 2 * (sin (adist (l, φ) e.center.c0 + r) + sin (adist (l, φ) e.center.c0 - r)) *
            (sinX e.center.c0 (l, φ) * (1 / sin (adist (l, φ) e.center.c0))))
          (1 / 2 * (sin (adist (l, φ) e.center.c0 + r) + sin (adist (l, φ) e.center.c0 - r)) *
            (sinY e.center.c0 (l, φ) * (1 / sin (adist (l, φ) e.center.c0))))) := by
  rw [overlapCone_real e he l φ r hr, if_neg h, if_neg (not_not.mpr h2)]

/-- the inverse of the norm is finite in the sense of `f64` iff the norm exceeds `2^-1024` -/
theorem inv_finite_iff (n : ℝ) (hn : 0 < n) : |1 / n| < 2 ^ 1024 ↔ 1 / 2 ^ 1024 < n := by
  rw [abs_of_pos (by positivity)]
  exact one_div_lt hn (by positivity)

/-! ## the circular case of `overlap_cone` -/

theorem le_of_sq_le_sq' (x y : ℝ) (hy : 0 ≤ y) (h : x ^ 2 ≤ y ^ 2) : x ≤ y := by
  by_contra hlt
  rw [not_le] at hlt
  nlinarith

/-- the algebraic core of the circular case -/
theorem circ_alg (s B Δ t σx σy D : ℝ) (hs : 0 ≤ s) (_hB : 0 ≤ B) (hΔ : 0 ≤ Δ) (ht0 : 0 ≤ t) (ht1 : t ≤ 1)
    (hσx : 0 ≤ σx) (hσy : 0 ≤ σy) (hx : σx ^ 2 = B ^ 2 + (1 - t) * Δ) (hy : σy ^ 2 = B ^ 2 + t * Δ)
    (hD : D ^ 2 ≤ (s + B) ^ 2) :
    0 ≤ (s + σx) ^ 2 * (s + σy) ^ 2 - t * (1 - t) * Δ ^ 2 ∧
    D ^ 2 * (t * (s + σy) ^ 2 + (1 - t) * (s + σx) ^ 2 + 2 * t * (1 - t) * Δ) ≤
      (s + σx) ^ 2 * (s + σy) ^ 2 - t * (1 - t) * Δ ^ 2 := by
  have h1t : 0 ≤ 1 - t := by linarith
  have hBx : B ≤ σx := le_of_sq_le_sq' _ _ hσx (by rw [hx]; nlinarith [mul_nonneg h1t hΔ])
  have hBy : B ≤ σy := le_of_sq_le_sq' _ _ hσy (by rw [hy]; nlinarith [mul_nonneg ht0 hΔ])
  have hK : 0 ≤ t * (s + σy) ^ 2 + (1 - t) * (s + σx) ^ 2 + 2 * t * (1 - t) * Δ := by positivity
  have hid : (s + σx) ^ 2 * (s + σy) ^ 2 - t * (1 - t) * Δ ^ 2 -
      (s + B) ^ 2 * (t * (s + σy) ^ 2 + (1 - t) * (s + σx) ^ 2 + 2 * t * (1 - t) * Δ) =
      2 * s * (t * (1 - t) * Δ * ((σx - B) + (σy - B)) + t * (s + σy) ^ 2 * (σx - B) + (1 - t) * (s + σx) ^ 2 * (σy - B)) := by
    linear_combination (t * (s + σy) ^ 2 + t * (1 - t) * Δ) * hx + ((1 - t) * (s + σx) ^ 2 + t * (1 - t) * Δ) * hy
  have hG : 0 ≤ 2 * s * (t * (1 - t) * Δ * ((σx - B) + (σy - B)) + t * (s + σy) ^ 2 * (σx - B) + (1 - t) * (s + σx) ^ 2 * (σy - B)) := by
    have a1 : 0 ≤ σx - B := by linarith
    have a2 : 0 ≤ σy - B := by linarith
    positivity
  have hEK : D ^ 2 * (t * (s + σy) ^ 2 + (1 - t) * (s + σx) ^ 2 + 2 * t * (1 - t) * Δ) ≤
      (s + B) ^ 2 * (t * (s + σy) ^ 2 + (1 - t) * (s + σx) ^ 2 + 2 * t * (1 - t) * Δ) :=
    mul_le_mul_of_nonneg_right hD hK
  have hDK : 0 ≤ D ^ 2 * (t * (s + σy) ^ 2 + (1 - t) * (s + σx) ^ 2 + 2 * t * (1 - t) * Δ) := by positivity
  constructor <;> linarith

theorem sin_add_sub (d r : ℝ) : sin (d + r) - sin (d - r) = 2 * (cos d * sin r) := by rw [sin_add, sin_sub]; ring
theorem sin_add_add (d r : ℝ) : sin (d + r) + sin (d - r) = 2 * (sin d * cos r) := by rw [sin_add, sin_sub]; ring




theorem circ_overlap_core (S A B u v D st ct : ℝ) (hS : 0 ≤ S) (hB : 0 ≤ B) (hBA : B ≤ A) (huv : u * u + v * v = 1)
    (hst : st * st + ct * ct = 1) (hD : D ^ 2 ≤ (S + B) ^ 2) :
    ((Ellipse.fromOriented (α := ℝ) S S st ct).extendedGeom (Ellipse.fromOriented A B (-u) v)).contains (D * u) (D * v)
      = true := by
  unfold Ellipse.extendedGeom
  have e1 : S * S * (ct * ct) + S * S * (st * st) = S ^ 2 := by linear_combination (S * S) * hst
  have e2 : S * S * (st * st) + S * S * (ct * ct) = S ^ 2 := by linear_combination (S * S) * hst
  have hA : 0 ≤ A := le_trans hB hBA
  have hΔ : 0 ≤ A * A - B * B := by nlinarith
  have ht0 : 0 ≤ u * u := mul_self_nonneg u
  have ht1 : u * u ≤ 1 := by nlinarith [mul_self_nonneg v]
  have ex : A * A * (v * v) + B * B * (-u * -u) = B ^ 2 + (1 - u * u) * (A * A - B * B) := by
    linear_combination (A * A) * huv
  have ey : A * A * (-u * -u) + B * B * (v * v) = B ^ 2 + u * u * (A * A - B * B) := by
    linear_combination (B * B) * huv
  have hx0 : 0 ≤ B ^ 2 + (1 - u * u) * (A * A - B * B) := by
    have : 0 ≤ (1 - u * u) * (A * A - B * B) := mul_nonneg (by linarith) hΔ
    positivity
  have hy0 : 0 ≤ B ^ 2 + u * u * (A * A - B * B) := by positivity
  obtain ⟨k1, k2⟩ := circ_alg S B (A * A - B * B) (u * u) (√(B ^ 2 + (1 - u * u) * (A * A - B * B)))
    (√(B ^ 2 + u * u * (A * A - B * B))) D hS hB hΔ ht0 ht1 (Real.sqrt_nonneg _) (Real.sqrt_nonneg _)
    (Real.sq_sqrt hx0) (Real.sq_sqrt hy0) hD
  apply cov_contains_of
  · simp only [Ellipse.fromOriented, Ellipse.fromCov, pow2, num_sqrt]
    rw [e1, e2, ex, ey, Real.sqrt_sq hS]
    linear_combination k1 + (u * u * (A * A - B * B) ^ 2) * huv
  · simp only [Ellipse.fromOriented, Ellipse.fromCov, pow2, num_sqrt]
    rw [e1, e2, ex, ey, Real.sqrt_sq hS]
    linear_combination k2 + (D ^ 2 * (S + √(B ^ 2 + (1 - u * u) * (A * A - B * B))) ^ 2 +
      2 * (u * u) * D ^ 2 * (A * A - B * B) + u * u * (A * A - B * B) ^ 2) * huv

/-- the trigonometric core: if the two cones meet (`d ≤ a + r`), the near edge of the projected cone is within `sin a`
    of the projection centre — also when the cone centre is on the far hemisphere -/
theorem circ_trig (a r d : ℝ) (ha : 0 < a ∧ a < π / 2) (hr : 0 < r ∧ r ≤ π / 2) (hd0 : 0 ≤ d) (hdpi : d ≤ π)
    (hd : d ≤ a + r) : sin d * cos r ≤ sin a + |cos d| * sin r := by
  by_cases hc : 0 ≤ cos d
  · rw [abs_of_nonneg hc]
    have h1 : sin (d - r) ≤ sin a :=
      sin_le_sin_of_le_of_le_pi_div_two (by linarith) (by linarith) (by linarith)
    rw [sin_sub] at h1
    linarith
  · have hc' : cos d < 0 := not_le.mp hc
    rw [abs_of_neg hc']
    have hd2 : π / 2 < d := by
      by_contra hle
      have := cos_nonneg_of_mem_Icc (x := d) ⟨by linarith, not_lt.mp hle⟩
      linarith
    have h1 : sin (π - (d + r)) ≤ sin a :=
      sin_le_sin_of_le_of_le_pi_div_two (by linarith) (by linarith) (by linarith)
    rw [sin_pi_sub, sin_add] at h1
    linarith

/-- **`overlap_cone` is sound in the circular case** (`a = b < π/2`, `0 < r ≤ π/2`): if the cone of radius `r` around
    `(l, φ)` meets the cone of radius `a` around the centre (`angular distance ≤ a + r`) the test answers `true` — for
    every position of the cone centre, far hemisphere included — *outside the special case of the code*, i.e. when the
    norm `sin d` of the projected cone centre exceeds `2^-1024` (`1 / norm` finite in `f64`).  In the special case the
    code answers `r ≤ b`: see `overlap_cone_special_case`. -/
theorem overlap_cone_circular_sound (lon lat a pa l φ r : ℝ) (ha : 0 < a ∧ a < π / 2) (hr : 0 < r ∧ r ≤ π / 2)
    (hfin : 1 / 2 ^ 1024 < sin (adist (l, φ) (ProjSIN.new lon lat).c0))
    (hd : adist (l, φ) (ProjSIN.new lon lat).c0 ≤ a + r) :
    (ECone.new (α := ℝ) lon lat a a pa).overlapCone l φ r = some true := by
  have hn : 0 < sin (adist (l, φ) (ProjSIN.new lon lat).c0) := lt_trans (by positivity) hfin
  have h2 := (inv_finite_iff _ hn).mpr hfin
  have h1 : ¬ (a + r < adist (l, φ) (ProjSIN.new lon lat).c0) := not_lt.mpr hd
  have key := overlapCone_main (ECone.new (α := ℝ) lon lat a a pa) (ProjSIN.new_coherent lon lat) l φ r hr.1 h1 h2
  rw [key]
  simp only [ECone.new]
  congr 1
  have hd0 := adist_nonneg (l, φ) (ProjSIN.new lon lat).c0
  have hdpi := adist_le_pi (l, φ) (ProjSIN.new lon lat).c0
  have hsr : 0 ≤ sin r := sin_nonneg_of_nonneg_of_le_pi hr.1.le (by linarith [pi_pos])
  have hcr : 0 ≤ cos r := cos_nonneg_of_mem_Icc ⟨by linarith [pi_pos], hr.2⟩
  have hB : 1 / 2 * |sin (adist (l, φ) (ProjSIN.new lon lat).c0 + r) - sin (adist (l, φ) (ProjSIN.new lon lat).c0 - r)|
      = |cos (adist (l, φ) (ProjSIN.new lon lat).c0)| * sin r := by
    rw [sin_add_sub, abs_mul, abs_mul, abs_of_nonneg hsr, abs_of_pos (by norm_num : (0 : ℝ) < 2)]; ring
  have hDD : 1 / 2 * (sin (adist (l, φ) (ProjSIN.new lon lat).c0 + r) + sin (adist (l, φ) (ProjSIN.new lon lat).c0 - r))
      = sin (adist (l, φ) (ProjSIN.new lon lat).c0) * cos r := by
    rw [sin_add_add]; ring
  rw [hB, hDD]
  refine circ_overlap_core _ _ _ _ _ _ _ _ (sin_nonneg_of_nonneg_of_le_pi ha.1.le (by linarith [pi_pos]))
    (mul_nonneg (abs_nonneg _) hsr) ?_ ?_ (theta_unit pa) ?_
  · calc |cos (adist (l, φ) (ProjSIN.new lon lat).c0)| * sin r ≤ 1 * sin r :=
          mul_le_mul_of_nonneg_right (abs_cos_le_one _) hsr
      _ = sin r := one_mul _
  · have := sinXY_norm (ProjSIN.new lon lat).c0 (l, φ)
    field_simp
    linarith
  · have ht := circ_trig a r _ ha hr hd0 hdpi hd
    have hnn : 0 ≤ sin (adist (l, φ) (ProjSIN.new lon lat).c0) * cos r := mul_nonneg hn.le hcr
    exact pow_le_pow_left₀ hnn ht 2

/-- **the special case of the code is not sound on its own**: when `0 < sin d ≤ 2^-1024` (in `f64`: whenever the
    projected cone centre has norm `0`, e.g. the cell centre *is* the ellipse centre) `overlap_cone` answers `r ≤ b`
    whatever the geometry -/
theorem overlap_cone_special_case (lon lat a b pa l φ r : ℝ) (hr : 0 < r)
    (hpos : 0 < sin (adist (l, φ) (ProjSIN.new lon lat).c0))
    (hsmall : sin (adist (l, φ) (ProjSIN.new lon lat).c0) ≤ 1 / 2 ^ 1024)
    (hd : adist (l, φ) (ProjSIN.new lon lat).c0 ≤ a + r) :
    (ECone.new (α := ℝ) lon lat a b pa).overlapCone l φ r = some (decide (r ≤ b)) := by
  have h1 : ¬ (a + r < adist (l, φ) (ProjSIN.new lon lat).c0) := not_lt.mpr hd
  have h2 : ¬ |1 / sin (adist (l, φ) (ProjSIN.new lon lat).c0)| < 2 ^ 1024 := by
    rw [inv_finite_iff _ hpos]; exact not_lt.mpr hsmall
  exact overlapCone_special (ECone.new (α := ℝ) lon lat a b pa) (ProjSIN.new_coherent lon lat) l φ r hr h1 h2

/-! ## the skip test in the circular case -/

theorem adist_same_lon (l φ : ℝ) (h0 : 0 ≤ φ) (hpi : φ ≤ π) : adist (l, φ) (l, 0) = φ := by
  have h := cos_adist (l, φ) (l, 0)
  simp at h
  exact injOn_cos ⟨adist_nonneg _ _, adist_le_pi _ _⟩ ⟨h0, hpi⟩ h

theorem tiny_lt : (1 : ℝ) / 2 ^ 1024 < 7 / 100 := by
  have : (2 : ℝ) ^ 10 ≤ 2 ^ 1024 := pow_le_pow_right₀ (by norm_num) (by norm_num)
  calc (1 : ℝ) / 2 ^ 1024 ≤ 1 / 2 ^ 10 := one_div_le_one_div_of_le (by positivity) this
    _ < 7 / 100 := by norm_num

/-- **the skip test of the descent is sound in the circular case**: `a = b`, `2^-1024 < sin a`, `0 < r ≤ π/2`,
    `a + r ≤ 3`: if the cone `(l, φ), r` meets the cone of radius `a` around the centre, then either `(l, φ)` is in the
    elliptical cone or `overlap_cone` answers `true` — the cell is not skipped -/
theorem circular_keep_sound (lon lat a pa l φ r : ℝ) (ha : 0 < a ∧ a < π / 2) (hmin : 1 / 2 ^ 1024 < sin a)
    (hr : 0 < r ∧ r ≤ π / 2) (har : a + r ≤ 3)
    (hd : adist (l, φ) (ProjSIN.new lon lat).c0 ≤ a + r) :
    (ECone.new (α := ℝ) lon lat a a pa).contains l φ = true ∨
      (ECone.new (α := ℝ) lon lat a a pa).overlapCone l φ r = some true := by
  by_cases hfin : 1 / 2 ^ 1024 < sin (adist (l, φ) (ProjSIN.new lon lat).c0)
  · exact Or.inr (overlap_cone_circular_sound lon lat a pa l φ r ha hr hfin hd)
  · left
    rw [econe_contains_circular' lon lat a pa l φ ha]
    have hd0 := adist_nonneg (l, φ) (ProjSIN.new lon lat).c0
    have hlt : sin (adist (l, φ) (ProjSIN.new lon lat).c0) < sin a := lt_of_le_of_lt (not_lt.mp hfin) hmin
    by_cases hhalf : adist (l, φ) (ProjSIN.new lon lat).c0 ≤ π / 2
    · by_contra hgt
      have := sin_le_sin_of_le_of_le_pi_div_two (x := a) (y := adist (l, φ) (ProjSIN.new lon lat).c0)
        (by linarith only [ha.1, pi_pos]) hhalf (not_le.mp hgt).le
      linarith only [this, hlt]
    · exfalso
      have hpi3 := pi_gt_d2
      have hpi4 := pi_lt_four
      have h1 := mul_le_sin (x := π - adist (l, φ) (ProjSIN.new lon lat).c0) (by linarith [adist_le_pi (l, φ) (ProjSIN.new lon lat).c0]) (by linarith)
      rw [sin_pi_sub] at h1
      have h2 : (1 : ℝ) / 2 ≤ 2 / π := by rw [div_le_div_iff₀ (by norm_num) pi_pos]; linarith
      have h3 : (7 : ℝ) / 100 ≤ 2 / π * (π - adist (l, φ) (ProjSIN.new lon lat).c0) := by
        calc (7 : ℝ) / 100 = 1 / 2 * (14 / 100) := by norm_num
          _ ≤ 2 / π * (π - adist (l, φ) (ProjSIN.new lon lat).c0) :=
            mul_le_mul h2 (by linarith) (by norm_num) (by positivity)
      have htl := tiny_lt
      have hfin' := not_lt.mp hfin
      generalize (1 : ℝ) / 2 ^ 1024 = τ at htl hfin'
      linarith only [htl, hfin', h1, h3]

/-- a concrete instance of the special case: ellipse centre `(0, 0)`, `a = b = 1/10`; the cone of radius `1/5` around
    `(0, 2^-1024)` contains the centre, yet `overlap_cone` answers `false`; the point is inside the ellipse, which is
    what keeps the cell in the coverage -/
theorem overlap_cone_special_case_counterexample :
    adist (0, 1 / 2 ^ 1024) (ProjSIN.new (α := ℝ) 0 0).c0 ≤ 1 / 5 ∧
    (ECone.new (α := ℝ) 0 0 (1 / 10) (1 / 10) 0).overlapCone 0 (1 / 2 ^ 1024) (1 / 5) = some false ∧
    (ECone.new (α := ℝ) 0 0 (1 / 10) (1 / 10) 0).contains 0 (1 / 2 ^ 1024) = true := by
  have hc0 : (ProjSIN.new (α := ℝ) 0 0).c0 = (0, 0) :=
    ProjSIN.new_c0 0 0 ⟨le_refl _, by positivity⟩ ⟨by linarith [pi_pos], by linarith [pi_pos]⟩
  have hpos : (0 : ℝ) < 1 / 2 ^ 1024 := by positivity
  have hd : adist (0, 1 / 2 ^ 1024) (ProjSIN.new (α := ℝ) 0 0).c0 = 1 / 2 ^ 1024 := by
    rw [hc0]; exact adist_same_lon 0 _ hpos.le (le_trans tiny_lt.le (by linarith only [pi_gt_three]))
  have ha : (0 : ℝ) < 1 / 10 ∧ (1 : ℝ) / 10 < π / 2 := ⟨by norm_num, by linarith [pi_gt_three]⟩
  have t5 : (1 : ℝ) / 2 ^ 1024 ≤ 1 / 5 := le_trans tiny_lt.le (by norm_num)
  have t10 : (1 : ℝ) / 2 ^ 1024 ≤ 1 / 10 := le_trans tiny_lt.le (by norm_num)
  have tpi : (1 : ℝ) / 2 ^ 1024 < π := lt_trans tiny_lt (by linarith only [pi_gt_three])
  refine ⟨by rw [hd]; exact t5, ?_, ?_⟩
  · rw [overlap_cone_special_case 0 0 (1 / 10) (1 / 10) 0 0 (1 / 2 ^ 1024) (1 / 5) (by norm_num)
      (by rw [hd]; exact sin_pos_of_pos_of_lt_pi hpos tpi)
      (by rw [hd]; exact sin_le hpos.le) (by rw [hd]; exact le_trans t5 (by norm_num))]
    norm_num
  · rw [econe_contains_circular' 0 0 (1 / 10) 0 0 _ ha, hd]; exact t10

end Hpx.Sph
