/-
Real-valued meaning of the elliptical-cone tests of `elliptical_cone_coverage` (C13), part 1:
the orthographic (`SIN`) projection, `forced_proj_and_distance`, and `contains_cone` in the circular case.
All statements are about the model functions of `Model/SphGeom.lean` instantiated at `α := ℝ`.
-/
import HpxVerif.Lemmas.EllipseReal
import HpxVerif.Lemmas.ConeReal
import Mathlib.Analysis.Real.Pi.Bounds
import Mathlib.Analysis.SpecialFunctions.Trigonometric.Bounds

namespace Hpx.Sph
open Hpx Hpx.Cover Real

/-! ## numeric interface at `ℝ` -/

theorem num_one : (Num.one : ℝ) = 1 := by show ((1 : ℕ) : ℝ) = 1; norm_num
theorem num_two : (Num.two : ℝ) = 2 := by show ((2 : ℕ) : ℝ) = 2; norm_num
theorem num_gt (x y : ℝ) : Num.gt x y = decide (y < x) := rfl
theorem num_ge (x y : ℝ) : Num.ge x y = decide (y ≤ x) := rfl
theorem num_half' : (Num.half : ℝ) = 1 / 2 := lit_050
theorem num_sqrt (x : ℝ) : Num.sqrt x = Real.sqrt x := rfl
theorem num_abs (x : ℝ) : Num.abs x = |x| := rfl
theorem num_atan2 (y x : ℝ) : Num.atan2 y x = Complex.arg ⟨x, y⟩ := rfl
theorem num_pi : (Num.pi : ℝ) = π := rfl

/-- the literal `f64::INFINITY` of `is_finite` evaluates to `2^1024` at `ℝ` -/
theorem lit_inf : (Num.lit (α := ℝ) 0x7FF0000000000000) = 2 ^ 1024 := by
  show ((F64.toRat 0x7FF0000000000000 : ℚ) : ℝ) = 2 ^ 1024
  rw [toRat_of_fields _ 2047 0 (by decide) (by decide) (by decide) (by decide)]
  norm_num

/-- `is_finite` at `ℝ`: `|x| < 2^1024` -/
theorem isFinite_real (x : ℝ) : isFinite x = decide (|x| < 2 ^ 1024) := by
  unfold isFinite
  rw [lit_inf]
  show (!false && decide (|x| < 2 ^ 1024)) = _
  simp

/-! ## the projection centre -/

/-- the invariant of `ProjSIN`: the stored cosine and sine are those of the stored latitude -/
def ProjSIN.Coherent (p : ProjSIN ℝ) : Prop :=
  p.cosCenterLat = cos p.centerLat ∧ p.sinCenterLat = sin p.centerLat

/-- the centre of the projection, as a position -/
def ProjSIN.c0 (p : ProjSIN ℝ) : ℝ × ℝ := (p.centerLon, p.centerLat)

theorem ProjSIN.new_coherent (lon lat : ℝ) : (ProjSIN.new lon lat).Coherent := by
  unfold ProjSIN.new
  split
  exact ⟨rfl, rfl⟩

end Hpx.Sph
