/-
C04 — the geometric specification of cell adjacency on the HEALPix sphere, written independently of the seam tables
of the code (`ncp_neighbour`, `eqr_neighbour`, `spc_neighbour`), for a grid of arbitrary side `n ≥ 1`
(`n = 2^depth` in the code).  Core Lean only; everything is executable, so every statement of
`Lemmas/TopoNeigh*.lean` can be (and has been) tested by evaluation at small `n`.

The HEALPix plane scaled by `n`: base cell `b` (row `r = b / 4`: 0 north cap, 1 equatorial, 2 south cap; column
`q = b % 4`) is the diamond of half-diagonal `n` centred at `((2q+1)n, n)`, `(2qn, 0)`, `((2q+1)n, −n)`; `x` is
taken modulo `8n`.  Cell `(b, i, j)` is the diamond of half-diagonal `1` centred at
`(X_b + i − j, Y_b + i + j − (n−1))`; its vertices are `S E N W = (x, y−1) (x+1, y) (x, y+1) (x−1, y)`.

Plane points are identified when they are the same point of the sphere (`key`):
* `|y| ≤ n` (equatorial belt): `(x mod 8n, y)`;
* `n < y < 2n` (north polar cap): the image of the sphere at height `y` is made of four segments (one per triangular
  facet, `|x − (2q+1)n| ≤ 2n − y`) separated by four gaps of width `2(y − n)`; the right end of a segment and the left
  end of the next one are the same point of the sphere: the right end is sent to the left end of the next segment;
* `y = 2n`: the north pole, one single point; symmetrically in the south.
-/
import HpxVerif.Model.Topo

namespace Hpx.TopoSpec
open Hpx MW

/-- `p` is a cell of the grid of side `n` -/
def Valid (n : Nat) (p : HashParts) : Prop := p.d0h < 12 ∧ p.i < n ∧ p.j < n

instance (n : Nat) (p : HashParts) : Decidable (Valid n p) := by unfold Valid; infer_instance

/-- abscissa of the centre of base cell `b` -/
def baseX (n : Int) (b : Nat) : Int :=
  if b / 4 = 1 then (2 * (b % 4 : Nat)) * n else (2 * (b % 4 : Nat) + 1) * n

/-- ordinate of the centre of base cell `b` -/
def baseY (n : Int) (b : Nat) : Int :=
  if b / 4 = 0 then n else if b / 4 = 1 then 0 else -n

/-- centre of the cell `p` in the plane (not reduced modulo `8n`) -/
def center (n : Nat) (p : HashParts) : Int × Int :=
  (baseX n p.d0h + ((p.i : Int) - (p.j : Int)), baseY n p.d0h + ((p.i : Int) + (p.j : Int)) - ((n : Int) - 1))

/-- the vertex of `p` named by a cardinal direction (the centre for the other directions) -/
def vertex (n : Nat) (p : HashParts) (v : MW) : Int × Int :=
  let c := center n p
  match v with
  | S => (c.1, c.2 - 1)
  | E => (c.1 + 1, c.2)
  | N => (c.1, c.2 + 1)
  | W => (c.1 - 1, c.2)
  | _ => c

/-- abscissa of the apex of the polar facet containing abscissa `x ∈ [0, 8n)` -/
def facetX (n x : Int) : Int :=
  if x < 2 * n then n else if x < 4 * n then 3 * n else if x < 6 * n then 5 * n else 7 * n

/-- canonical representative of the sphere point whose image in the plane is `pt` -/
def key (n : Int) (pt : Int × Int) : Int × Int :=
  let x := pt.1 % (8 * n)
  let y := pt.2
  if 2 * n ≤ y ∨ y ≤ -(2 * n) then (0, y)                       -- a pole
  else if n < y then                                            -- north cap: gaps of width `2 (y − n)`
    if x - facetX n x = 2 * n - y then ((x + 2 * (y - n)) % (8 * n), y) else (x, y)
  else if y < -n then                                           -- south cap: gaps of width `2 (−y − n)`
    if x - facetX n x = 2 * n + y then ((x + 2 * (-y - n)) % (8 * n), y) else (x, y)
  else (x, y)

/-- the four vertex names -/
def cardinals : List MW := [S, E, N, W]

/-- key of the vertex `v` of the cell `p` -/
def vkey (n : Nat) (p : HashParts) (v : MW) : Int × Int := key n (vertex n p v)

/-- the four vertex keys of `p` -/
def keys (n : Nat) (p : HashParts) : List (Int × Int) := cardinals.map (vkey n p)

/-- `p` and `q` have a vertex in common (as points of the sphere) -/
def Touch (n : Nat) (p q : HashParts) : Prop :=
  ∃ v ∈ cardinals, ∃ w ∈ cardinals, vkey n p v = vkey n q w

instance (n : Nat) (p q : HashParts) : Decidable (Touch n p q) := by unfold Touch; infer_instance

/-- the vertices of `p` (by name, in the order S E N W) that are also vertices of `q` -/
def shared (n : Nat) (p q : HashParts) : List MW :=
  cardinals.filter fun v => decide (vkey n p v ∈ keys n q)

/-- the vertices of a cell that belong to its side / corner in direction `dir` (in the order S E N W) -/
def edgeOf : MW → List MW
  | S => [S] | E => [E] | N => [N] | W => [W]
  | SE => [S, E] | SW => [S, W] | NE => [E, N] | NW => [N, W]
  | C => [S, E, N, W]

/-- the eight directions -/
def dirs8 : List MW := [S, SE, E, SW, NE, W, NW, N]

/-- all cells of the grid of side `n` -/
def allCells (n : Nat) : List HashParts :=
  (List.range 12).flatMap fun b => (List.range n).flatMap fun i => (List.range n).map fun j =>
    { d0h := b, i := i, j := j }

/-! ## sanity of the specification on its own (tests by kernel evaluation, independent of the model)

The identification `key` makes the `12 n²` diamonds a quadrangulation of a sphere: `12 n² + 2` distinct vertices (Euler:
`V − E + F = (12n² + 2) − 24n² + 12n² = 2`), each belonging to 4 cells, except 8 vertices that belong to 3 cells (the N
and S corners of the four equatorial base cells). -/

/-- number of cells having the key `k` among their vertices -/
def valence (n : Nat) (k : Int × Int) : Nat := ((allCells n).filter fun p => (keys n p).contains k).length

def sphereLike (n : Nat) : Bool :=
  let ks := ((allCells n).flatMap (keys n)).eraseDups
  ks.length == 12 * n * n + 2 && (ks.filter fun k => valence n k == 3).length == 8 &&
  ks.all fun k => valence n k == 4 || valence n k == 3

/-- **test** (`n = 1, 2`; `#eval` confirms `n ≤ 8`) -/
example : sphereLike 1 = true ∧ sphereLike 2 = true := by decide +kernel

end Hpx.TopoSpec
