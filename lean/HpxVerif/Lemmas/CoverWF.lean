/-
Well-formedness of the BMOCs built from a coverage descent: `to_bmoc_packing` of a well-formed, in-range cell list
(C09), instantiated for the cone coverage started from the 12 base cells.
-/
import HpxVerif.Lemmas.CoverLemmas
import HpxVerif.Lemmas.BmocPack

namespace Hpx.Cover
open Hpx.Bmoc

/-- cells whose number is in range for their depth -/
def InRange (c : Cell) : Prop := c.hash < 12 * 4 ^ c.depth

theorem cellsOf_map_encode (dm : Nat) (hdm : dm ≤ 29) (cells : List Cell) (hd : ∀ c ∈ cells, c.depth ≤ dm)
    (hr : ∀ c ∈ cells, InRange c) : cellsOf dm (cells.map (encode dm)) = cells := by
  induction cells with
  | nil => rfl
  | cons c l ih =>
    simp only [List.map_cons, cellsOf_cons]
    rw [decode_encode (hd c (by simp)) hdm (hr c (by simp)), ih (fun c' h' => hd c' (by simp [h'])) (fun c' h' => hr c' (by simp [h']))]

theorem map_encode_cellsOf (dm : Nat) (hdm : dm ≤ 29) (l : List Nat) (hv : ∀ r ∈ l, ValidRaw dm r) :
    (cellsOf dm l).map (encode dm) = l := by
  induction l with
  | nil => rfl
  | cons r l ih =>
    simp only [cellsOf_cons, List.map_cons]
    obtain ⟨e, _, _⟩ := raw_of_decode hdm (hv r (by simp)) rfl
    rw [← e, ih (fun r' h' => hv r' (by simp [h']))]

/-- **`to_bmoc_packing` of a well-formed in-range cell list is a well-formed BMOC**: valid entries, cells sorted and
    disjoint, raw entries strictly increasing, same three-valued content as the cell list, no four full siblings -/
theorem packed_bmoc_wf (dm : Nat) (hdm : dm ≤ 29) (cells : List Cell) (hw : WF dm cells) (hr : ∀ c ∈ cells, InRange c) :
    let entries := pack dm (cells.map (encode dm))
    (∀ r ∈ entries, ValidRaw dm r) ∧ WF dm (cellsOf dm entries) ∧ entries.Pairwise (· < ·) ∧
    (∀ x, stOf dm (cellsOf dm entries) x = stOf dm cells x) := by
  intro entries
  have hd : ∀ c ∈ cells, c.depth ≤ dm := hw.depth_le
  have hv : ∀ r ∈ cells.map (encode dm), ValidRaw dm r := by
    intro r hr'
    obtain ⟨c, hc, rfl⟩ := List.mem_map.mp hr'
    exact ⟨c, hd c hc, hr c hc, rfl⟩
  have hcells := cellsOf_map_encode dm hdm cells hd hr
  obtain ⟨s1, s2, s3⟩ := pack_sem dm hdm (cells.map (encode dm)) hv
  have hwf : WF dm (cellsOf dm entries) := s3 (by rw [hcells]; exact hw)
  refine ⟨s2, hwf, ?_, fun x => by rw [s1 x, hcells]⟩
  have := map_encode_cellsOf dm hdm entries s2
  rw [← this]
  -- strictly increasing raw values from well-formedness
  have hinc : ∀ l : List Cell, WF dm l → List.Pairwise (· < ·) (l.map (encode dm)) := by
    intro l
    induction l with
    | nil => intro _; simp
    | cons c l ih =>
      intro h
      simp only [List.map_cons, List.pairwise_cons]
      refine ⟨?_, ih h.tail⟩
      intro r hr'
      obtain ⟨c', hc', rfl⟩ := List.mem_map.1 hr'
      exact encode_lt h.1 (h.tail.depth_le c' hc') (h.2.1 c' hc')
  exact hinc _ hwf

/-- a cell lying inside a base cell `r < 12` is in range -/
theorem inRange_of_below (D d h r : Nat) (hd : d ≤ D) (hr : r < 12)
    (hhi : hi D ⟨d, h, true⟩ ≤ hi D ⟨0, r, true⟩) : h < 12 * 4 ^ d := by
  unfold hi at hhi
  simp only [Nat.sub_zero] at hhi
  have e : 4 ^ D = 4 ^ d * 4 ^ (D - d) := by rw [← Nat.pow_add]; congr 1; omega
  have hp : 0 < 4 ^ (D - d) := Nat.pow_pos (by decide)
  rw [e] at hhi
  have h1 : (h + 1) * 4 ^ (D - d) ≤ 12 * 4 ^ d * 4 ^ (D - d) := by
    calc (h + 1) * 4 ^ (D - d) ≤ (r + 1) * (4 ^ d * 4 ^ (D - d)) := hhi
      _ ≤ 12 * (4 ^ d * 4 ^ (D - d)) := Nat.mul_le_mul_right _ (by omega)
      _ = 12 * 4 ^ d * 4 ^ (D - d) := by rw [Nat.mul_assoc]
  have := Nat.le_of_mul_le_mul_right h1 hp
  omega

/-- **descent from the 12 base cells, any classifier**: the concatenated output is well formed and in range -/
theorem baseCellsFold_wf (target : Nat) (κ : Nat → Nat → Nat → Option Verdict) (fuel : Nat) (out : List Cell)
    (h : (List.range 12).foldlM (fun acc r => (coverRec target κ fuel 0 r 0).map (acc ++ ·)) [] = some out) :
    WF target out ∧ ∀ c ∈ out, InRange c := by
  obtain ⟨g1, g2, _, _⟩ := rootsFold target κ target (Nat.le_refl _) fuel 0 (Nat.zero_le _) (List.range 12) [] out
    (by decide) trivial (by simp) h
  refine ⟨g1, ?_⟩
  intro c hc
  rcases g2 c hc with h0 | ⟨r, hr, o, ho, hco⟩
  · simp at h0
  · have hb := coverRec_below target κ target (Nat.le_refl _) fuel 0 r 0 o (Nat.zero_le _) ho
    obtain ⟨_, hhi, _, hdt⟩ := hb.2 c hco
    have hhi' : hi target ⟨c.depth, c.hash, true⟩ ≤ hi target ⟨0, r, true⟩ := hhi
    exact inRange_of_below target c.depth c.hash r hdt (List.mem_range.mp hr) hhi'

end Hpx.Cover
