import HpxVerif.Model.Bits

/-! Helper lemmas for C18 (and everything that uses the z-order curve). Core Lean only. -/

namespace Hpx

theorem parity_cases (p : Nat) : ∃ q, p = 2 * q ∨ p = 2 * q + 1 := ⟨p / 2, by omega⟩

theorem spreadN_lt (k n : Nat) : spreadN k n < 4 ^ k := by
  induction k generalizing n with
  | zero => simp [spreadN]
  | succ k ih =>
    have := ih (n / 2)
    simp only [spreadN, Nat.pow_succ]
    omega

@[simp] theorem spreadN_zero (k : Nat) : spreadN k 0 = 0 := by
  induction k with
  | zero => rfl
  | succ k ih => simp [spreadN, ih]

theorem three_spreadN_lt (k n : Nat) : 3 * spreadN k n < 4 ^ k := by
  induction k generalizing n with
  | zero => simp [spreadN]
  | succ k ih =>
    have := ih (n / 2)
    simp only [spreadN, Nat.pow_succ]
    omega

theorem testBit_spreadN (k n p : Nat) :
    (spreadN k n).testBit p = (p % 2 == 0 && decide (p / 2 < k) && n.testBit (p / 2)) := by
  induction k generalizing n p with
  | zero => simp [spreadN]
  | succ k ih =>
    simp only [spreadN]
    match p with
    | 0 =>
      simp [Nat.testBit_zero]
      omega
    | 1 =>
      have h : (n % 2 + 4 * spreadN k (n / 2)) = 2 * (2 * spreadN k (n/2)) + n % 2 := by omega
      rw [h]
      have : (2 * (2 * spreadN k (n / 2)) + n % 2).testBit 1 = false := by
        rw [show (1:Nat) = 0 + 1 from rfl, Nat.testBit_succ]
        have : (2 * (2 * spreadN k (n / 2)) + n % 2) / 2 = 2 * spreadN k (n/2) := by omega
        rw [this]; simp [Nat.testBit_zero]
      simp [this]
    | p + 2 =>
      have h : (n % 2 + 4 * spreadN k (n / 2)).testBit (p + 2) = (spreadN k (n/2)).testBit p := by
        rw [Nat.testBit_succ, Nat.testBit_succ]
        congr 1; omega
      rw [h, ih]
      have h1 : (p + 2) % 2 = p % 2 := by omega
      have h2 : (p + 2) / 2 = p / 2 + 1 := by omega
      rw [h1, h2, Nat.testBit_succ]
      simp

theorem testBit_spreadN_even (k n q : Nat) : (spreadN k n).testBit (2 * q) = (decide (q < k) && n.testBit q) := by
  rw [testBit_spreadN]; simp

theorem testBit_spreadN_odd (k n q : Nat) : (spreadN k n).testBit (2 * q + 1) = false := by
  rw [testBit_spreadN]
  have : (2 * q + 1) % 2 = 1 := by omega
  simp [this]

/-- `spreadN` only looks at the `k` low bits -/
theorem spreadN_mod (k n : Nat) : spreadN k (n % 2 ^ k) = spreadN k n := by
  apply Nat.eq_of_testBit_eq; intro p
  simp only [testBit_spreadN, Nat.testBit_mod_two_pow]
  by_cases h : p / 2 < k <;> simp [h]

/-- more bits than needed change nothing -/
theorem spreadN_of_lt {k m n : Nat} (h : n < 2 ^ k) (hkm : k ≤ m) : spreadN m n = spreadN k n := by
  apply Nat.eq_of_testBit_eq; intro p
  simp only [testBit_spreadN]
  by_cases h1 : p / 2 < k
  · have : p / 2 < m := by omega
    simp [h1, this]
  · have h2 : n.testBit (p / 2) = false := by
      apply Nat.testBit_lt_two_pow
      calc n < 2 ^ k := h
        _ ≤ 2 ^ (p / 2) := Nat.pow_le_pow_right (by omega) (by omega)
    simp [h1, h2]

theorem testBit_spreadN_shift_even (k n s q : Nat) :
    (spreadN k n <<< (2 * s)).testBit (2 * q) = (decide (s ≤ q) && decide (q < s + k) && n.testBit (q - s)) := by
  rw [Nat.testBit_shiftLeft]
  by_cases h : s ≤ q
  · have : 2 * q - 2 * s = 2 * (q - s) := by omega
    rw [this, testBit_spreadN_even]
    have h1 : (2 * q ≥ 2 * s) := by omega
    by_cases h2 : q < s + k
    · have : q - s < k := by omega
      simp [h, h1, h2, this]
    · have : ¬ (q - s < k) := by omega
      simp [h, h1, h2, this]
  · have h1 : ¬ (2 * q ≥ 2 * s) := by omega
    simp [h, h1]

theorem testBit_spreadN_shift_odd (k n s q : Nat) :
    (spreadN k n <<< (2 * s)).testBit (2 * q + 1) = false := by
  rw [Nat.testBit_shiftLeft]
  by_cases h : 2 * q + 1 ≥ 2 * s
  · have : 2 * q + 1 - 2 * s = 2 * (q - s) + 1 := by omega
    rw [this, testBit_spreadN_odd]; simp
  · simp [h]

/-- the byte-composition identity behind the LUT implementations -/
theorem spreadN_split (a b n : Nat) :
    spreadN (a + b) n = spreadN a n ||| (spreadN b (n / 2 ^ a) <<< (2 * a)) := by
  apply Nat.eq_of_testBit_eq; intro p
  obtain ⟨q, rfl | rfl⟩ := parity_cases p
  · rw [Nat.testBit_or, testBit_spreadN_shift_even, testBit_spreadN_even, testBit_spreadN_even, Nat.testBit_div_two_pow]
    by_cases h : q < a
    · have h1 : q < a + b := by omega
      have h2 : ¬ (a ≤ q) := by omega
      simp [h, h1, h2]
    · have h2 : a ≤ q := by omega
      have h3 : q - a + a = q := by omega
      simp [h, h2, h3]
  · rw [Nat.testBit_or, testBit_spreadN_shift_odd, testBit_spreadN_odd, testBit_spreadN_odd]; rfl

theorem testBit_squeezeN (k h q : Nat) :
    (squeezeN k h).testBit q = (decide (q < k) && h.testBit (2 * q)) := by
  induction k generalizing h q with
  | zero => simp [squeezeN]
  | succ k ih =>
    simp only [squeezeN]
    match q with
    | 0 =>
      have : (h % 2 + 2 * squeezeN k (h / 4)) % 2 = h % 2 := by omega
      simp [Nat.testBit_zero, this]
    | q + 1 =>
      have h1 : (h % 2 + 2 * squeezeN k (h / 4)).testBit (q + 1) = (squeezeN k (h / 4)).testBit q := by
        rw [Nat.testBit_succ]; congr 1; omega
      rw [h1, ih]
      have : (h / 4).testBit (2 * q) = h.testBit (2 * (q + 1)) := by
        rw [show 2 * (q + 1) = (2 * q + 1) + 1 by omega, Nat.testBit_succ, Nat.testBit_succ]
        congr 1; omega
      rw [this]; simp

theorem squeezeN_lt (k h : Nat) : squeezeN k h < 2 ^ k := by
  apply Nat.lt_pow_two_of_testBit; intro i hi
  rw [testBit_squeezeN]
  have : ¬ (i < k) := by omega
  simp [this]

/-- squeeze inverts spread -/
theorem squeezeN_spreadN (k n : Nat) : squeezeN k (spreadN k n) = n % 2 ^ k := by
  apply Nat.eq_of_testBit_eq; intro q
  simp only [testBit_squeezeN, testBit_spreadN_even, Nat.testBit_mod_two_pow]
  by_cases h : q < k <;> simp [h]

/-! ### the interleaving spec, bit by bit -/

theorem testBit_interleave_even (i j q : Nat) : (interleave i j).testBit (2 * q) = (decide (q < 32) && i.testBit q) := by
  simp only [interleave, Nat.testBit_or, testBit_spreadN_even, Nat.testBit_shiftLeft]
  by_cases h : 2 * q ≥ 1
  · have : 2 * q - 1 = 2 * (q - 1) + 1 := by omega
    simp [h, this, testBit_spreadN_odd]
  · simp [h]

theorem testBit_interleave_odd (i j q : Nat) : (interleave i j).testBit (2 * q + 1) = (decide (q < 32) && j.testBit q) := by
  simp only [interleave, Nat.testBit_or, testBit_spreadN_odd, Nat.testBit_shiftLeft]
  have : 2 * q + 1 - 1 = 2 * q := by omega
  simp [this, testBit_spreadN_even]

theorem interleave_lt {d i j : Nat} (_hd : d ≤ 32) (hi : i < 2 ^ d) (hj : j < 2 ^ d) : interleave i j < 4 ^ d := by
  have : (4 : Nat) ^ d = 2 ^ (2 * d) := by rw [Nat.pow_mul]
  rw [this]
  apply Nat.lt_pow_two_of_testBit; intro p hp
  obtain ⟨q, rfl | rfl⟩ := parity_cases p
  · rw [testBit_interleave_even]
    have : i.testBit q = false := Nat.testBit_lt_two_pow (Nat.lt_of_lt_of_le hi (Nat.pow_le_pow_right (by omega) (by omega)))
    simp [this]
  · rw [testBit_interleave_odd]
    have : j.testBit q = false := Nat.testBit_lt_two_pow (Nat.lt_of_lt_of_le hj (Nat.pow_le_pow_right (by omega) (by omega)))
    simp [this]

theorem squeezeN_interleave_i (i j : Nat) : squeezeN 32 (interleave i j) = i % 2 ^ 32 := by
  apply Nat.eq_of_testBit_eq; intro q
  simp only [testBit_squeezeN, testBit_interleave_even, Nat.testBit_mod_two_pow]
  by_cases h : q < 32 <;> simp [h]

theorem squeezeN_interleave_j (i j : Nat) : squeezeN 32 (interleave i j / 2) = j % 2 ^ 32 := by
  apply Nat.eq_of_testBit_eq; intro q
  have : (interleave i j / 2).testBit (2 * q) = (interleave i j).testBit (2 * q + 1) := by
    rw [Nat.testBit_succ]
  simp only [testBit_squeezeN, this, testBit_interleave_odd, Nat.testBit_mod_two_pow]
  by_cases h : q < 32 <;> simp [h]

/-- shifting an interleaved number right by `2s` interleaves the shifted coordinates (hierarchy, C02) -/
theorem interleave_shiftRight {i j : Nat} (hi : i < 2 ^ 32) (hj : j < 2 ^ 32) (s : Nat) :
    interleave i j >>> (2 * s) = interleave (i >>> s) (j >>> s) := by
  apply Nat.eq_of_testBit_eq; intro p
  rw [Nat.testBit_shiftRight]
  have hbi : ∀ q, 32 ≤ q → i.testBit q = false := fun q hq =>
    Nat.testBit_lt_two_pow (Nat.lt_of_lt_of_le hi (Nat.pow_le_pow_right (by omega) hq))
  have hbj : ∀ q, 32 ≤ q → j.testBit q = false := fun q hq =>
    Nat.testBit_lt_two_pow (Nat.lt_of_lt_of_le hj (Nat.pow_le_pow_right (by omega) hq))
  obtain ⟨q, rfl | rfl⟩ := parity_cases p
  · have : 2 * s + 2 * q = 2 * (s + q) := by omega
    rw [this, testBit_interleave_even, testBit_interleave_even, Nat.testBit_shiftRight]
    by_cases h : s + q < 32
    · have : q < 32 := by omega
      simp [h, this]
    · simp [h, hbi (s + q) (by omega)]
  · have : 2 * s + (2 * q + 1) = 2 * (s + q) + 1 := by omega
    rw [this, testBit_interleave_odd, testBit_interleave_odd, Nat.testBit_shiftRight]
    by_cases h : s + q < 32
    · have : q < 32 := by omega
      simp [h, this]
    · simp [h, hbj (s + q) (by omega)]

/-! ### tables (regenerated from the source) against the spec -/

theorem lut_hash_table : ∀ b, b < 256 → lk lutHash b = spreadN 8 b := by decide +kernel
theorem lut_byte_table : ∀ b, b < 256 → lk lutIjByte b = squeezeN 4 b ||| (squeezeN 4 (b / 2) <<< 8) := by decide +kernel
theorem lut_short_table : ∀ b, b < 256 → lk lutIjShort b = squeezeN 4 b ||| (squeezeN 4 (b / 2) <<< 16) := by decide +kernel
theorem lut_int_table : ∀ b, b < 256 → lk lutIjInt b = squeezeN 4 b ||| (squeezeN 4 (b / 2) <<< 32) := by decide +kernel

theorem lk_lutHash (x : Nat) : lk lutHash x = spreadN 8 x := by
  have h : lk lutHash x = lk lutHash (x % 256) := by simp [lk]
  rw [h, lut_hash_table _ (Nat.mod_lt _ (by decide))]
  exact spreadN_mod 8 x

theorem lk_lutIjByte (x : Nat) : lk lutIjByte x = squeezeN 4 (x % 2^8) ||| (squeezeN 4 (x % 2^8 / 2^1) <<< 8) := by
  have h : lk lutIjByte x = lk lutIjByte (x % 256) := by simp [lk]
  rw [h, lut_byte_table _ (Nat.mod_lt _ (by decide))]

theorem lk_lutIjShort (x : Nat) : lk lutIjShort x = squeezeN 4 (x % 2^8) ||| (squeezeN 4 (x % 2^8 / 2^1) <<< 16) := by
  have h : lk lutIjShort x = lk lutIjShort (x % 256) := by simp [lk]
  rw [h, lut_short_table _ (Nat.mod_lt _ (by decide))]

theorem lk_lutIjInt (x : Nat) : lk lutIjInt x = squeezeN 4 (x % 2^8) ||| (squeezeN 4 (x % 2^8 / 2^1) <<< 32) := by
  have h : lk lutIjInt x = lk lutIjInt (x % 256) := by simp [lk]
  rw [h, lut_int_table _ (Nat.mod_lt _ (by decide))]

/-! ### the LUT implementations -/

def ZocClass.bits : ZocClass → Nat | .empty => 0 | .small => 8 | .mediu => 16 | .large => 32

theorem lut_i02h_spec (c : ZocClass) (i : Nat) : Lut.i02h c i = spreadN c.bits i := by
  cases c
  · simp [Lut.i02h, ZocClass.bits, spreadN]
  · simp [Lut.i02h, ZocClass.bits, lk_lutHash]
  · simp only [Lut.i02h, ZocClass.bits, lk_lutHash]
    rw [← spreadN_mod 16 i, show (65536:Nat) = 2^16 by decide, show (256:Nat) = 2^8 by decide]
    exact (spreadN_split 8 8 _).symm
  · simp only [Lut.i02h, ZocClass.bits, lk_lutHash]
    rw [← spreadN_mod 32 i, show (4294967296:Nat) = 2^32 by decide, show (256:Nat) = 2^8 by decide,
      show (65536:Nat) = 2^16 by decide, show (16777216:Nat) = 2^24 by decide]
    generalize i % 2 ^ 32 = w
    rw [show (32:Nat) = 24 + 8 by rfl, spreadN_split 24 8, show (24:Nat) = 16 + 8 by rfl, spreadN_split 16 8,
      show (16:Nat) = 8 + 8 by rfl, spreadN_split 8 8]

theorem testBit_ofNat_255 (q : Nat) : (255 : Nat).testBit q = decide (q < 8) := by
  rw [show (255:Nat) = 2^8 - 1 by decide, Nat.testBit_two_pow_sub_one]
theorem testBit_ofNat_65535 (q : Nat) : (65535 : Nat).testBit q = decide (q < 16) := by
  rw [show (65535:Nat) = 2^16 - 1 by decide, Nat.testBit_two_pow_sub_one]

theorem cases_lt_32 (q : Nat) (h : q < 32) : q = 0 ∨ q = 1 ∨ q = 2 ∨ q = 3 ∨ q = 4 ∨ q = 5 ∨ q = 6 ∨ q = 7 ∨ q = 8 ∨ q = 9 ∨ q = 10 ∨ q = 11 ∨ q = 12 ∨ q = 13 ∨ q = 14 ∨ q = 15 ∨ q = 16 ∨ q = 17 ∨ q = 18 ∨ q = 19 ∨ q = 20 ∨ q = 21 ∨ q = 22 ∨ q = 23 ∨ q = 24 ∨ q = 25 ∨ q = 26 ∨ q = 27 ∨ q = 28 ∨ q = 29 ∨ q = 30 ∨ q = 31 := by omega

theorem lut_h2ij_i (c : ZocClass) (h : Nat) : Lut.ij2i c (Lut.h2ij c h) = squeezeN c.bits h := by
  cases c
  · simp [Lut.ij2i, ZocClass.bits, squeezeN]
  all_goals
    simp only [Lut.ij2i, Lut.h2ij, ZocClass.bits, lk_lutIjByte, lk_lutIjShort, lk_lutIjInt]
    apply Nat.eq_of_testBit_eq; intro q
    simp only [show (256:Nat) = 2^8 by decide, show (65536:Nat) = 2^16 by decide, show (16777216:Nat) = 2^24 by decide,
      show (4294967296:Nat) = 2^32 by decide]
    simp only [Nat.testBit_and, Nat.testBit_or, Nat.testBit_mod_two_pow, Nat.testBit_shiftLeft, testBit_squeezeN,
      Nat.testBit_div_two_pow, testBit_ofNat_255, testBit_ofNat_65535]
    by_cases hq : q < 32
    · rcases cases_lt_32 q hq with rfl | rfl | rfl | rfl | rfl | rfl | rfl | rfl | rfl | rfl | rfl | rfl | rfl | rfl | rfl | rfl | rfl | rfl | rfl | rfl | rfl | rfl | rfl | rfl | rfl | rfl | rfl | rfl | rfl | rfl | rfl | rfl
      all_goals simp
    · have h8 : ¬ q < 8 := by omega
      have h16 : ¬ q < 16 := by omega
      simp [hq, h8, h16]

theorem lut_h2ij_j (c : ZocClass) (h : Nat) : Lut.ij2j c (Lut.h2ij c h) = squeezeN c.bits (h / 2) := by
  cases c
  · simp [Lut.ij2j, ZocClass.bits, squeezeN]
  all_goals
    simp only [Lut.ij2j, Lut.h2ij, ZocClass.bits, lk_lutIjByte, lk_lutIjShort, lk_lutIjInt]
    rw [show h / 2 = h / 2 ^ 1 by simp]
    apply Nat.eq_of_testBit_eq; intro q
    simp only [show (256:Nat) = 2^8 by decide, show (65536:Nat) = 2^16 by decide, show (16777216:Nat) = 2^24 by decide,
      show (4294967296:Nat) = 2^32 by decide]
    simp only [Nat.testBit_or, Nat.testBit_mod_two_pow, Nat.testBit_shiftLeft, Nat.testBit_shiftRight,
      testBit_squeezeN, Nat.testBit_div_two_pow]
    by_cases hq : q < 32
    · rcases cases_lt_32 q hq with rfl | rfl | rfl | rfl | rfl | rfl | rfl | rfl | rfl | rfl | rfl | rfl | rfl | rfl | rfl | rfl | rfl | rfl | rfl | rfl | rfl | rfl | rfl | rfl | rfl | rfl | rfl | rfl | rfl | rfl | rfl | rfl
      all_goals simp
    · have h8 : ¬ q < 8 := by omega
      have h16 : ¬ q < 16 := by omega
      simp [hq, h8, h16]
      try omega

end Hpx
