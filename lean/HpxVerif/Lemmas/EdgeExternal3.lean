/-
C14 — external edges, part 3: the model functions `externalPieces`, `externalEdge`, `externalEdgeStruct`
(`external_edge_generic`, `external_edge_struct` of `nested/mod.rs`) on cell NUMBERS, every depth `d`, every
`delta_depth ≥ 1` with `d + dd ≤ 29`, any z-order build, debug assertions on or off.

* cell numbers of descendants: `interleave_block`, `partsOf_child`, `child_decomp`;
* `externalPieces_spec`, `external_from_direction` (Target 1);
* `sideCoords` / `sideList`, `side_eval`; `external_edge_spec` (Target 2), `external_edge_struct_spec` (Target 6).
-/
import HpxVerif.Lemmas.EdgeExternal2
import Mathlib.Tactic.Ring

namespace Hpx.EdgeExternal
open Hpx Hpx.Topo Hpx.TopoSpec Hpx.TopoNeigh Hpx.TopoLift Hpx.EdgeInternal MW

/-! ## cell numbers of the descendants -/

theorem spread_block (k a x : Nat) (hk : k ≤ 32) (ha : a < 2 ^ (32 - k)) (hx : x < 2 ^ k) :
    spreadN 32 (a * 2 ^ k + x) = spreadN 32 a * 4 ^ k + spreadN 32 x := by
  have e : 32 = k + (32 - k) := by omega
  have hpos := Nat.two_pow_pos k
  conv => lhs; rw [e]
  rw [spreadN_split, ← spreadN_mod k, Nat.add_comm (a * 2 ^ k), Nat.add_mul_mod_self_right, Nat.mod_eq_of_lt hx,
    Nat.add_mul_div_right _ _ hpos, Nat.div_eq_of_lt hx, Nat.zero_add, Nat.shiftLeft_eq, ← four_pow,
    Nat.or_comm, or_eq_add _ _ _ (spreadN_lt k x), spreadN_of_lt hx hk, spreadN_of_lt ha (by omega : 32 - k ≤ 32)]

/-- the z-order index of a sub-cell: block index times `4^k` plus the index inside the block -/
theorem interleave_block (k a b x y : Nat) (hk : k ≤ 32) (ha : a < 2 ^ (32 - k)) (hb : b < 2 ^ (32 - k))
    (hx : x < 2 ^ k) (hy : y < 2 ^ k) :
    interleave (a * 2 ^ k + x) (b * 2 ^ k + y) = interleave a b * 4 ^ k + interleave x y := by
  rw [interleave_eq_add, interleave_eq_add, interleave_eq_add, spread_block k a x hk ha hx, spread_block k b y hk hb hy]
  ring

theorem lt_pow_sub {d dd a : Nat} (hsum : d + dd ≤ 29) (ha : a < 2 ^ d) : a < 2 ^ (32 - dd) :=
  Nat.lt_of_lt_of_le ha (Nat.pow_le_pow_right (by decide) (by omega))

/-- the parts of the sub-cell `(x, y)` of the cell `hv`, `dd` levels down -/
theorem partsOf_child (d dd hv x y : Nat) (hsum : d + dd ≤ 29) (hh : hv < 12 * 4 ^ d) (hx : x < 2 ^ dd) (hy : y < 2 ^ dd) :
    cellVal hv dd (x, y) < 12 * 4 ^ (d + dd) ∧
    partsOf (d + dd) (cellVal hv dd (x, y)) =
      ⟨(partsOf d hv).d0h, (partsOf d hv).i * 2 ^ dd + x, (partsOf d hv).j * 2 ^ dd + y⟩ := by
  obtain ⟨hb, hi, hj⟩ := partsOf_valid d hv hh
  have hnum := numberOf_partsOf d hv (by omega)
  have hv' : Valid (2 ^ (d + dd)) ⟨(partsOf d hv).d0h, (partsOf d hv).i * 2 ^ dd + x, (partsOf d hv).j * 2 ^ dd + y⟩ := by
    refine ⟨hb, ?_, ?_⟩ <;> simp only [Nat.pow_add]
    · calc (partsOf d hv).i * 2 ^ dd + x < (partsOf d hv).i * 2 ^ dd + 2 ^ dd := by omega
        _ = ((partsOf d hv).i + 1) * 2 ^ dd := by ring
        _ ≤ 2 ^ d * 2 ^ dd := Nat.mul_le_mul_right _ hi
    · calc (partsOf d hv).j * 2 ^ dd + y < (partsOf d hv).j * 2 ^ dd + 2 ^ dd := by omega
        _ = ((partsOf d hv).j + 1) * 2 ^ dd := by ring
        _ ≤ 2 ^ d * 2 ^ dd := Nat.mul_le_mul_right _ hj
  have e : cellVal hv dd (x, y) =
      numberOf (d + dd) ⟨(partsOf d hv).d0h, (partsOf d hv).i * 2 ^ dd + x, (partsOf d hv).j * 2 ^ dd + y⟩ := by
    unfold cellVal numberOf
    simp only
    rw [interleave_block dd _ _ x y (by omega) (lt_pow_sub hsum hi) (lt_pow_sub hsum hj) hx hy]
    conv => lhs; rw [← hnum]
    unfold numberOf
    rw [Nat.pow_add]
    ring
  rw [e]
  exact ⟨numberOf_lt (d + dd) hsum _ hv', partsOf_numberOf (d + dd) hsum _ hv'⟩

/-- every cell number `dd` levels down is the sub-cell `(x, y)` of its ancestor, with `(x, y)` its position in the block -/
theorem child_decomp (d dd h : Nat) (hsum : d + dd ≤ 29) (hh : h < 12 * 4 ^ (d + dd)) :
    h / 4 ^ dd < 12 * 4 ^ d ∧
    anc dd (partsOf (d + dd) h) = partsOf d (h / 4 ^ dd) ∧
    h = cellVal (h / 4 ^ dd) dd ((partsOf (d + dd) h).i % 2 ^ dd, (partsOf (d + dd) h).j % 2 ^ dd) := by
  have hpos : 0 < 4 ^ dd := Nat.pow_pos (by decide)
  have hpos2 : 0 < 2 ^ dd := Nat.two_pow_pos dd
  have hlt : h / 4 ^ dd < 12 * 4 ^ d := by
    rw [Nat.div_lt_iff_lt_mul hpos, Nat.mul_assoc, ← Nat.pow_add]; exact hh
  have hr : h % 4 ^ dd < 4 ^ dd := Nat.mod_lt _ hpos
  have hr64 : h % 4 ^ dd < 2 ^ 64 := by
    have : (4 : Nat) ^ dd ≤ 4 ^ 29 := Nat.pow_le_pow_right (by decide) (by omega)
    omega
  have hx : squeezeN 32 (h % 4 ^ dd) < 2 ^ dd := RingBij.squeezeN_lt_of_lt hr
  have hy : squeezeN 32 (h % 4 ^ dd / 2) < 2 ^ dd := RingBij.squeezeN_lt_of_lt (by omega)
  have hc : h = cellVal (h / 4 ^ dd) dd (squeezeN 32 (h % 4 ^ dd), squeezeN 32 (h % 4 ^ dd / 2)) := by
    unfold cellVal
    simp only
    rw [RingBij.interleave_squeeze _ hr64, Nat.mul_comm]
    exact (Nat.div_add_mod h (4 ^ dd)).symm
  obtain ⟨_, hp⟩ := partsOf_child d dd (h / 4 ^ dd) _ _ hsum hlt hx hy
  rw [← hc] at hp
  refine ⟨hlt, ?_, ?_⟩
  · rw [hp]
    simp only [anc]
    rw [Nat.add_comm, Nat.add_mul_div_right _ _ hpos2, Nat.div_eq_of_lt hx, Nat.zero_add,
      Nat.add_comm, Nat.add_mul_div_right _ _ hpos2, Nat.div_eq_of_lt hy, Nat.zero_add]
  · rw [hp]
    simp only
    rw [Nat.add_comm, Nat.add_mul_mod_self_right, Nat.mod_eq_of_lt hx,
      Nat.add_comm ((partsOf d (h / 4 ^ dd)).j * 2 ^ dd), Nat.add_mul_mod_self_right, Nat.mod_eq_of_lt hy]
    exact hc


/-! ## `externalPieces` -/

/-- the direction from which the neighbour of `hash` in direction `dir` sees `hash`, as computed by the code (`C` when
    there is no neighbour in that direction) -/
def fromD (d hash : Nat) (dir : MW) : MW :=
  match neighbourParts (2 ^ d) (partsOf d hash) dir with
  | some q => (fromDir (2 ^ d) (partsOf d hash) dir q).getD C
  | none => C

/-- `sorted_entries_vec`: insertion sort by value -/
def sortEntries (l : List (MW × Nat)) : List (MW × Nat) := l.foldr insertEntry []

/-- the neighbours in the order in which `external_edge_generic` visits them: `MainWind` index order, or increasing cell
    number -/
def orderOf (sorted : Bool) (l : List (MW × Nat)) : List (MW × Nat) := if sorted then sortEntries l else l

/-- the expected pieces: for each neighbour `(dir, hv)`, the triple `(dir, from_, hv)` -/
def piecesSpec (d hash : Nat) (sorted : Bool) : List (MW × MW × Nat) :=
  (orderOf sorted (nbList d hash false)).map fun e => (e.1, fromD d hash e.1, e.2)

theorem rawOf_nbG (d hash : Nat) : rawOf (nbG d hash) = nbList d hash false := by
  rw [nbList_false_eq]
  unfold rawOf nbG
  apply filterMap_congr'
  intro w _
  rw [Option.map_map]; rfl

theorem mem_insertEntry (e x : MW × Nat) (l : List (MW × Nat)) : x ∈ insertEntry e l ↔ x = e ∨ x ∈ l := by
  induction l with
  | nil => simp [insertEntry]
  | cons a l ih =>
    unfold insertEntry
    split
    · simp
    · simp only [List.mem_cons, ih]
      constructor
      · rintro (h | h | h)
        · exact Or.inr (Or.inl h)
        · exact Or.inl h
        · exact Or.inr (Or.inr h)
      · rintro (h | h | h)
        · exact Or.inr (Or.inl h)
        · exact Or.inl h
        · exact Or.inr (Or.inr h)

theorem mem_sortEntries (x : MW × Nat) (l : List (MW × Nat)) : x ∈ sortEntries l ↔ x ∈ l := by
  induction l with
  | nil => simp [sortEntries]
  | cons a l ih =>
    have : sortEntries (a :: l) = insertEntry a (sortEntries l) := rfl
    rw [this, mem_insertEntry, ih]; simp

theorem mem_orderOf (s : Bool) (x : MW × Nat) (l : List (MW × Nat)) : x ∈ orderOf s l ↔ x ∈ l := by
  unfold orderOf; split
  · exact mem_sortEntries x l
  · rfl

/-- the base cell of a cell number, as read by `h_2_d0h` -/
theorem d0h_of_number (d : Nat) (hd : d ≤ 29) (q : HashParts) (hq : Valid (2 ^ d) q) :
    (numberOf d q >>> (2 * d)) % 256 = q.d0h := by
  obtain ⟨hb, hi, hj⟩ := hq
  have hz := interleave_lt4 hd hi hj
  have hpos : 0 < 4 ^ d := Nat.pow_pos (by decide)
  unfold numberOf
  rw [Nat.shiftRight_eq_div_pow, ← four_pow, Nat.add_comm, Nat.add_mul_div_right _ _ hpos, Nat.div_eq_of_lt hz,
    Nat.zero_add, Nat.mod_eq_of_lt (by omega)]

/-- `direction_in_base_cell_border` on the masked bits is `innerDir` on the coordinates -/
theorem dirInBorder_eq (d : Nat) (hd : d ≤ 29) (b i j : Nat) (hi : i < 2 ^ d) (hj : j < 2 ^ d) :
    directionInBaseCellBorder d (num d b i j &&& Layer.xMask d) (num d b i j &&& Layer.yMask d) = innerDir (2 ^ d) i j := by
  have h32 : 2 ^ d < 2 ^ 32 := pow_lt_u32 d hd
  have h1 := one_le_pow d
  unfold directionInBaseCellBorder innerDir cls
  rw [show num d b i j = b * 4 ^ d + interleave i j from rfl, hash_and_xMask d hd b i j hi hj,
    hash_and_yMask d hd b i j hi hj, xMask_eq d (by omega), yMask_eq d (by omega)]
  have ex0 : (interleave i 0 == 0) = decide (i = 0) := by
    by_cases h : i = 0
    · subst h; simp [interleave_zero_zero]
    · have : interleave i 0 ≠ 0 := fun e =>
        h (interleave_x_inj (by omega) (by omega) (e.trans interleave_zero_zero.symm))
      simp [h, this]
  have ex1 : (interleave i 0 == interleave (2 ^ d - 1) 0) = decide (i + 1 = 2 ^ d) := by
    by_cases h : i + 1 = 2 ^ d
    · have : i = 2 ^ d - 1 := by omega
      subst this; simp [h]
    · have : interleave i 0 ≠ interleave (2 ^ d - 1) 0 := fun e => by
        have := interleave_x_inj (x' := 2 ^ d - 1) (by omega) (by omega) e; omega
      simp [h, this]
  have ey0 : (interleave 0 j == 0) = decide (j = 0) := by
    by_cases h : j = 0
    · subst h; simp [interleave_zero_zero]
    · have : interleave 0 j ≠ 0 := fun e =>
        h (interleave_y_inj (by omega) (by omega) (e.trans interleave_zero_zero.symm))
      simp [h, this]
  have ey1 : (interleave 0 j == interleave 0 (2 ^ d - 1)) = decide (j + 1 = 2 ^ d) := by
    by_cases h : j + 1 = 2 ^ d
    · have : j = 2 ^ d - 1 := by omega
      subst this; simp [h]
    · have : interleave 0 j ≠ interleave 0 (2 ^ d - 1) := fun e => by
        have := interleave_y_inj (y' := 2 ^ d - 1) (by omega) (by omega) e; omega
      simp [h, this]
  simp only [ex0, ex1, ey0, ey1, decide_eq_true_eq]

/-- the `from_` expression of the border branch is `fromDir` -/
theorem from_expr_eq (d : Nat) (hd : d ≤ 29) (hash : Nat) (hh : hash < 12 * 4 ^ d) (dir : MW) (q : HashParts)
    (hq : Valid (2 ^ d) q) :
    (if ((partsOf d hash).d0h == (numberOf d q >>> (2 * d)) % 256) = true then some dir.opposite
      else if (d == 0) = true then directionFromNeighbour (partsOf d hash).d0h dir
      else (directionInBaseCellBorder d (hash &&& Layer.xMask d) (hash &&& Layer.yMask d)).bind fun inner =>
        edgeCellDirectionFromNeighbour (partsOf d hash).d0h inner dir) = fromDir (2 ^ d) (partsOf d hash) dir q := by
  obtain ⟨hb, hi, hj⟩ := partsOf_valid d hash hh
  have hnum : num d (partsOf d hash).d0h (partsOf d hash).i (partsOf d hash).j = hash := numberOf_partsOf d hash hd
  have hdb := dirInBorder_eq d hd (partsOf d hash).d0h _ _ hi hj
  rw [hnum] at hdb
  rw [d0h_of_number d hd q hq, hdb]
  unfold fromDir
  have e0 : (d == 0) = true ↔ 2 ^ d = 1 := by
    rw [beq_iff_eq]
    constructor
    · rintro rfl; rfl
    · intro h
      rcases Nat.eq_zero_or_pos d with h0 | h0
      · exact h0
      · have := EdgeInternal.two_le_pow h0; omega
  simp only [beq_iff_eq, e0]

theorem getD_of_some {o : Option MW} {f : MW} (h : o = some f) : o.getD C = f := by rw [h]; rfl

/-- **`externalPieces` as an explicit list** (no panic on a cell number of the depth; any build): for each neighbour
    `(dir, hv)` of `hash` — in `MainWind` index order, or by increasing number — the triple `(dir, fromD d hash dir, hv)` -/
theorem externalPieces_spec (cfg : Cfg) (d : Nat) (hd : d ≤ 29) (hash : Nat) (hh : hash < 12 * 4 ^ d) (s : Bool) :
    externalPieces cfg d hash s = some (piecesSpec d hash s) := by
  have hp := partsOf_valid d hash hh
  obtain ⟨hb, hi, hj⟩ := hp
  have hnum : num d (partsOf d hash).d0h (partsOf d hash).i (partsOf d hash).j = hash := numberOf_partsOf d hash hd
  unfold externalPieces
  rw [if_neg (by rw [nHash_eq]; omega)]
  simp only
  by_cases hbd : isInBaseCellBorder d (hash &&& Layer.xMask d) (hash &&& Layer.yMask d) = true
  · rw [if_pos hbd, edgeCellNeighbours_spec cfg d hd hash hh, decodeHash_spec cfg d hd hash hh, rawOf_nbG]
    simp only
    have : (if s = true then List.foldr insertEntry [] (nbList d hash false) else nbList d hash false) =
        orderOf s (nbList d hash false) := rfl
    rw [this]
    unfold piecesSpec
    apply mapM_some_of_forall
    rintro ⟨dir, hv⟩ hm
    rw [mem_orderOf] at hm
    obtain ⟨hdir, q, hq, rfl⟩ := (mem_nbList d hash false dir hv).1 hm
    have hdir' : dir ≠ C := by
      rcases hdir with h | h
      · exact h
      · exact absurd h (by decide)
    have hqv := neighbourParts_valid (2 ^ d) _ q dir (one_le_pow d) (pow_le_u32 d hd) ⟨hb, hi, hj⟩ hq
    obtain ⟨f, hf, _⟩ := from_dir_spec (2 ^ d) _ q dir (one_le_pow d) (pow_le_u32 d hd) ⟨hb, hi, hj⟩ hdir' hq
    simp only
    rw [from_expr_eq d hd hash hh dir q hqv, hf]
    have : fromD d hash dir = f := by
      unfold fromD; rw [hq]; exact getD_of_some hf
    rw [this]; rfl
  · rw [if_neg hbd]
    have hnb := hbd
    rw [← hnum, isInBaseCellBorder_iff d hd _ _ _ hi hj] at hnb
    have hin := innerCellNeighbours_spec cfg d hd (partsOf d hash).d0h (partsOf d hash).i (partsOf d hash).j hb
      (by omega) (by omega) (by omega) (by omega)
    rw [hnum] at hin
    rw [hin, rawOf_nbG, Option.map_some]
    have : (if s = true then List.foldr insertEntry [] (nbList d hash false) else nbList d hash false) =
        orderOf s (nbList d hash false) := rfl
    simp only [this]
    unfold piecesSpec
    congr 1
    apply List.map_congr_left
    rintro ⟨dir, hv⟩ hm
    rw [mem_orderOf] at hm
    obtain ⟨hdir, q, hq, rfl⟩ := (mem_nbList d hash false dir hv).1 hm
    have hq' := neighbourParts_inner (2 ^ d) (partsOf d hash).d0h (partsOf d hash).i (partsOf d hash).j dir
      (by omega) (by omega) (by omega) (by omega)
    have : fromD d hash dir = dir.opposite := by
      unfold fromD
      rw [hq]
      have hqe : q.d0h = (partsOf d hash).d0h := by
        have : (⟨(partsOf d hash).d0h, (partsOf d hash).i, (partsOf d hash).j⟩ : HashParts) = partsOf d hash := rfl
        rw [this, hq] at hq'
        rw [Option.some.inj hq']
      simp [fromDir, hqe]
    rw [this]


/-! ## the pieces: Target 1 -/

theorem mem_piecesSpec (d hash : Nat) (s : Bool) (dir f : MW) (hv : Nat) :
    (dir, f, hv) ∈ piecesSpec d hash s ↔ (dir, hv) ∈ nbList d hash false ∧ f = fromD d hash dir := by
  unfold piecesSpec
  rw [List.mem_map]
  constructor
  · rintro ⟨⟨a, b⟩, hm, e⟩
    simp only [Prod.mk.injEq] at e
    obtain ⟨rfl, rfl, rfl⟩ := e
    exact ⟨(mem_orderOf s _ _).1 hm, rfl⟩
  · rintro ⟨hm, rfl⟩
    exact ⟨(dir, hv), (mem_orderOf s _ _).2 hm, rfl⟩

/-- what `fromD` is, for a direction in which there is a neighbour -/
theorem fromD_spec (d : Nat) (hd : d ≤ 29) (hash : Nat) (hh : hash < 12 * 4 ^ d) (dir : MW) (hv : Nat)
    (hm : (dir, hv) ∈ nbList d hash false) :
    dir ≠ C ∧ fromD d hash dir ≠ C ∧ hv < 12 * 4 ^ d ∧ hv ≠ hash ∧
    neighbourParts (2 ^ d) (partsOf d hash) dir = some (partsOf d hv) ∧
    neighbourParts (2 ^ d) (partsOf d hv) (fromD d hash dir) = some (partsOf d hash) ∧
    fromDir (2 ^ d) (partsOf d hash) dir (partsOf d hv) = some (fromD d hash dir) ∧
    (fromD d hash dir).isCardinal = dir.isCardinal ∧ (fromD d hash dir).isOrdinal = dir.isOrdinal := by
  have hp := partsOf_valid d hash hh
  obtain ⟨hdir, q, hq, rfl⟩ := (mem_nbList d hash false dir hv).1 hm
  have hdir' : dir ≠ C := by
    rcases hdir with h | h
    · exact h
    · exact absurd h (by decide)
  have hqv := neighbourParts_valid (2 ^ d) _ q dir (one_le_pow d) (pow_le_u32 d hd) hp hq
  obtain ⟨f, hf, hback, hcard, hfC⟩ := from_dir_spec (2 ^ d) _ q dir (one_le_pow d) (pow_le_u32 d hd) hp hdir' hq
  have hfd : fromD d hash dir = f := by unfold fromD; rw [hq]; exact getD_of_some hf
  rw [hfd, partsOf_numberOf d hd q hqv]
  refine ⟨hdir', hfC, numberOf_lt d hd q hqv, ?_, hq, hback, hf, hcard, ?_⟩
  · intro e
    apply neighbour_ne_self (2 ^ d) _ q dir (one_le_pow d) (pow_le_u32 d hd) hp hdir' hq
    apply numberOf_injective d hd q _ hqv hp
    rw [e, numberOf_partsOf d hash hd]
  · revert hcard hfC hdir'
    cases f <;> cases dir <;> simp [isCardinal, isOrdinal]

/-- **C14, `external_from_direction`** (Target 1): on a cell number of the depth the computation of the pieces never
    panics (every table lookup succeeds), for both orders; the `(dir, hv)` components are the entries of
    `neighbours(hash)` (in `MainWind` index order, or sorted by number); and for every piece `(dir, from_, hv)`: `hv` is
    the neighbour of `hash` in direction `dir`, `hash` is the neighbour of `hv` in direction `from_` (`Layer::neighbour`),
    the vertices of `hv` shared with `hash` are those of its side / corner `from_`, and `from_` is cardinal (ordinal)
    iff `dir` is.  Every depth `≤ 29`, any build. -/
theorem external_from_direction (cfg : Cfg) (d : Nat) (hd : d ≤ 29) (hash : Nat) (hh : hash < 12 * 4 ^ d) (s : Bool) :
    ∃ l, externalPieces cfg d hash s = some l ∧
      l.map (fun t => (t.1, t.2.2)) = orderOf s (nbList d hash false) ∧
      Topo.neighbours cfg d hash false = some (nbList d hash false) ∧
      ∀ dir f hv, (dir, f, hv) ∈ l →
        hv < 12 * 4 ^ d ∧ hv ≠ hash ∧ dir ≠ C ∧ f ≠ C ∧
        Topo.neighbour cfg d hash dir = some (some hv) ∧ Topo.neighbour cfg d hv f = some (some hash) ∧
        shared (2 ^ d) (partsOf d hv) (partsOf d hash) = edgeOf f ∧
        f.isCardinal = dir.isCardinal ∧ f.isOrdinal = dir.isOrdinal := by
  refine ⟨_, externalPieces_spec cfg d hd hash hh s, ?_, neighbours_spec cfg d hd hash hh false, ?_⟩
  · unfold piecesSpec
    rw [List.map_map]
    exact List.map_id' _
  · intro dir f hv hm
    obtain ⟨hm', rfl⟩ := (mem_piecesSpec d hash s dir f hv).1 hm
    obtain ⟨h1, h2, h3, h4, h5, h6, _, h8, h9⟩ := fromD_spec d hd hash hh dir hv hm'
    have hqv := partsOf_valid d hv h3
    refine ⟨h3, h4, h1, h2, ?_, ?_, ?_, h8, h9⟩
    · rw [neighbour_spec cfg d hd hash hh dir, h5, Option.map_some, numberOf_partsOf d hv hd]
    · rw [neighbour_spec cfg d hd hv h3 _, h6, Option.map_some, numberOf_partsOf d hash hd]
    · exact neighbour_labelled (2 ^ d) _ _ _ (one_le_pow d) (pow_le_u32 d hd) hqv h6

/-! ## the sub-cells of a side / corner -/

/-- in-cell coordinates of the sub-cells on the side (ordinal `f`, in increasing running coordinate) / at the corner
    (cardinal `f`) `f` of a cell refined `dd` times -/
def sideCoords (dd : Nat) (f : MW) : List (Nat × Nat) :=
  match f with
  | S => [(0, 0)]
  | E => [(2 ^ dd - 1, 0)]
  | W => [(0, 2 ^ dd - 1)]
  | N => [(2 ^ dd - 1, 2 ^ dd - 1)]
  | SE => (List.range (2 ^ dd)).map fun x => (x, 0)
  | SW => (List.range (2 ^ dd)).map fun y => (0, y)
  | NE => (List.range (2 ^ dd)).map fun y => (2 ^ dd - 1, y)
  | NW => (List.range (2 ^ dd)).map fun x => (x, 2 ^ dd - 1)
  | C => []

/-- the cell numbers (depth + `dd`) of the sub-cells of `hv` on its side / corner `f` -/
def sideList (hv dd : Nat) (f : MW) : List Nat := (sideCoords dd f).map (cellVal hv dd)

theorem i02hDD_eq (cfg : Cfg) (dd k : Nat) : i02hDD cfg dd k = i02hDD (LayerBmi.noBmi cfg) dd k := by
  unfold i02hDD
  rw [LayerBmi.zoc_eq]
  cases Layer.zoc (LayerBmi.noBmi cfg) dd with
  | none => rfl
  | some c =>
    by_cases hb : cfg.bmi = true
    · simp [hb, LayerBmi.noBmi, bmi_i02h_eq, lut_i02h_spec]
    · simp [hb, LayerBmi.noBmi]

theorem oj2hDD_eq (cfg : Cfg) (dd k : Nat) : oj2hDD cfg dd k = oj2hDD (LayerBmi.noBmi cfg) dd k := by
  unfold oj2hDD
  rw [LayerBmi.zoc_eq]
  cases Layer.zoc (LayerBmi.noBmi cfg) dd with
  | none => rfl
  | some c =>
    by_cases hb : cfg.bmi = true
    · simp only [hb, LayerBmi.noBmi, if_true, Option.map_some, Bool.false_eq_true, if_false, bmi_oj2h_eq]
      cases c with
      | empty => simp [Lut.oj2h, ZocClass.bits, spreadN]
      | small | mediu | large =>
        simp only [Lut.oj2h, lut_i02h_spec]
        rw [spreadN_shl_mod (EdgeInternal.bits_le_32 _)]
    · simp [hb, LayerBmi.noBmi]

/-- `internal_edge_part` does not depend on the z-order build -/
theorem internalEdgePart_eq (cfg : Cfg) (hv dd : Nat) (f : MW) :
    internalEdgePart cfg hv dd f = internalEdgePart (LayerBmi.noBmi cfg) hv dd f := by
  unfold internalEdgePart
  rw [LayerBmi.zoc_eq]
  simp only [i02hDD_eq cfg, oj2hDD_eq cfg]

/-- what `append_sorted_internal_edge_element` appends for the neighbour `hv` seen from direction `f` (any build) -/
theorem side_eval (cfg : Cfg) (hv dd : Nat) (f : MW) (h1 : 1 ≤ dd) (hd : dd ≤ 29) (hfit : hv < 2 ^ (64 - 2 * dd))
    (hf : f ≠ C) :
    (if f.isCardinal = true then (internalCorner cfg hv dd f).map ([·])
      else if f.isOrdinal = true then internalEdgePart cfg hv dd f else none) = some (sideList hv dd f) := by
  obtain ⟨c1, c2, c3, c4, _⟩ := internalCorner_spec cfg hv dd h1 (by omega) hfit
  obtain ⟨p1, p2, p3, p4, _⟩ := internalEdgePart_spec (LayerBmi.noBmi cfg) rfl hv dd h1 hd hfit
  cases f
  case C => exact absurd rfl hf
  case S => simp only [isCardinal, if_true, c1]; rfl
  case E => simp only [isCardinal, if_true, c2]; rfl
  case W => simp only [isCardinal, if_true, c3]; rfl
  case N => simp only [isCardinal, if_true, c4]; rfl
  case SE =>
    simp only [isCardinal, isOrdinal, if_true, Bool.false_eq_true, if_false, internalEdgePart_eq cfg, p1, sideList,
      sideCoords, List.map_map]; rfl
  case SW =>
    simp only [isCardinal, isOrdinal, if_true, Bool.false_eq_true, if_false, internalEdgePart_eq cfg, p2, sideList,
      sideCoords, List.map_map]; rfl
  case NE =>
    simp only [isCardinal, isOrdinal, if_true, Bool.false_eq_true, if_false, internalEdgePart_eq cfg, p3, sideList,
      sideCoords, List.map_map]; rfl
  case NW =>
    simp only [isCardinal, isOrdinal, if_true, Bool.false_eq_true, if_false, internalEdgePart_eq cfg, p4, sideList,
      sideCoords, List.map_map]; rfl

theorem mem_sideCoords (dd : Nat) (f : MW) (hf : f ≠ C) (x y : Nat) :
    (x, y) ∈ sideCoords dd f ↔ x < 2 ^ dd ∧ y < 2 ^ dd ∧ OnSide (2 ^ dd) f x y := by
  have hpos := Nat.two_pow_pos dd
  cases f
  case C => exact absurd rfl hf
  all_goals
    simp [sideCoords, OnSide, offsetSe, offsetSw]
    omega

theorem sideCoords_length (dd : Nat) (f : MW) (hf : f ≠ C) :
    (sideCoords dd f).length = if f.isCardinal then 1 else 2 ^ dd := by
  cases f <;> first | exact absurd rfl hf | simp [sideCoords, isCardinal]

/-! ## `external_edge`, `external_edge_sorted`, `external_edge_struct` as explicit lists: Targets 2 and 6 -/

/-- the expected output of `external_edge_generic` -/
def externalList (d hash dd : Nat) (s : Bool) : List Nat :=
  (orderOf s (nbList d hash false)).flatMap fun e => sideList e.2 dd (fromD d hash e.1)

/-- **C14, `external_edge_spec`** (Target 2): on a cell number of the depth, `1 ≤ dd`, `d + dd ≤ 29`:
    `external_edge` (`sorted = false`) and `external_edge_sorted` (`sorted = true`) do not panic and return the
    concatenation, over the neighbours `(dir, hv)` of `hash` (entries of `neighbours(hash)` in `MainWind` index order
    / by increasing number), of the sub-cells of `hv` on its side (ordinal `dir`) / corner (cardinal `dir`) facing
    `hash` (`sideList hv dd (fromD d hash dir)`).  Any build. -/
theorem external_edge_spec (cfg : Cfg) (d dd : Nat) (h1 : 1 ≤ dd) (hsum : d + dd ≤ 29) (hash : Nat)
    (hh : hash < 12 * 4 ^ d) (s : Bool) :
    externalEdge cfg d hash dd s = some (externalList d hash dd s) := by
  unfold externalEdge
  rw [externalPieces_spec cfg d (by omega) hash hh s]
  simp only [Option.bind_eq_bind, Option.bind_some]
  have hm : (piecesSpec d hash s).mapM (fun x : MW × MW × Nat =>
      if x.2.1.isCardinal = true then (internalCorner cfg x.2.2 dd x.2.1).map ([·])
      else if x.2.1.isOrdinal = true then internalEdgePart cfg x.2.2 dd x.2.1 else none) =
      some ((piecesSpec d hash s).map fun x => sideList x.2.2 dd x.2.1) := by
    apply mapM_some_of_forall
    rintro ⟨dir, f, hv⟩ hm
    obtain ⟨hm', rfl⟩ := (mem_piecesSpec d hash s dir _ hv).1 hm
    obtain ⟨_, h2, h3, _⟩ := fromD_spec d (by omega) hash hh dir hv hm'
    exact side_eval cfg hv dd _ h1 (by omega) (valid_cell_fits d dd hv hsum h3) h2
  rw [hm]
  simp only [Option.bind_some, Option.pure_def]
  congr 1
  unfold externalList piecesSpec
  rw [List.map_map, List.flatMap_def]
  rfl

/-- **C14, `external_edge_struct_spec`** (Target 6): `external_edge_struct` does not panic (the consistency checks
    between the kind of `from_` and the kind of `dir` always pass) and files, for each entry `(dir, hv)` of
    `neighbours(hash)` in `MainWind` index order, under `dir` the sub-cells of `hv` on its side / corner facing `hash`:
    one corner sub-cell for a cardinal `dir`, the `2^dd` sub-cells of the facing side for an ordinal `dir` -/
theorem external_edge_struct_spec (cfg : Cfg) (d dd : Nat) (h1 : 1 ≤ dd) (hsum : d + dd ≤ 29) (hash : Nat)
    (hh : hash < 12 * 4 ^ d) :
    externalEdgeStruct cfg d hash dd =
      some ((nbList d hash false).map fun e => (e.1, sideList e.2 dd (fromD d hash e.1))) ∧
    ∀ dir hv, (dir, hv) ∈ nbList d hash false →
      (sideList hv dd (fromD d hash dir)).length = (if dir.isCardinal then 1 else 2 ^ dd) ∧
      (fromD d hash dir).isCardinal = dir.isCardinal := by
  constructor
  · unfold externalEdgeStruct
    rw [externalPieces_spec cfg d (by omega) hash hh false]
    simp only [Option.bind_eq_bind, Option.bind_some]
    have e : (nbList d hash false).map (fun e => (e.1, sideList e.2 dd (fromD d hash e.1))) =
        (piecesSpec d hash false).map fun x => (x.1, sideList x.2.2 dd x.2.1) := by
      unfold piecesSpec orderOf
      rw [List.map_map]; rfl
    rw [e]
    apply mapM_some_of_forall
    rintro ⟨dir, f, hv⟩ hm
    obtain ⟨hm', rfl⟩ := (mem_piecesSpec d hash false dir _ hv).1 hm
    obtain ⟨_, h2, h3, _, _, _, _, h8, h9⟩ := fromD_spec d (by omega) hash hh dir hv hm'
    have hs := side_eval cfg hv dd _ h1 (by omega) (valid_cell_fits d dd hv hsum h3) h2
    simp only [h8, h9] at hs ⊢
    by_cases hc : dir.isCardinal = true
    · rw [if_pos hc] at hs
      rw [if_pos hc, if_pos hc]
      cases hcc : internalCorner cfg hv dd (fromD d hash dir) with
      | none => rw [hcc] at hs; simp at hs
      | some c =>
        rw [hcc] at hs
        simp only [Option.map_some, Option.some.injEq] at hs ⊢
        rw [← hs]
    · rw [if_neg hc] at hs
      rw [if_neg hc]
      by_cases ho : dir.isOrdinal = true
      · rw [if_pos ho] at hs
        rw [if_pos ho, if_pos ho, hs]; rfl
      · rw [if_neg ho] at hs; simp at hs
  · intro dir hv hm
    obtain ⟨_, h2, _, _, _, _, _, h8, _⟩ := fromD_spec d (by omega) hash hh dir hv hm
    refine ⟨?_, h8⟩
    unfold sideList
    rw [List.length_map, sideCoords_length dd _ h2, h8]

/-! ## tests by kernel evaluation and non-vacuity -/

/-- **test**: `externalPieces_spec`, `external_edge_spec` (both orders) and `external_edge_struct_spec` evaluated on every
    cell of a depth -/
def chkEdge (cfg : Cfg) (d dd : Nat) : Bool :=
  (List.range (12 * 4 ^ d)).all fun h =>
    ([true, false].all fun s =>
      externalPieces cfg d h s == some (piecesSpec d h s) && externalEdge cfg d h dd s == some (externalList d h dd s)) &&
    externalEdgeStruct cfg d h dd == some ((nbList d h false).map fun e => (e.1, sideList e.2 dd (fromD d h e.1)))

example : chkEdge {} 0 1 = true ∧ chkEdge {} 0 2 = true ∧ chkEdge {} 1 1 = true ∧ chkEdge {} 1 2 = true ∧
    chkEdge { debug := false, bmi := true } 1 1 = true := by decide +kernel

example : chkEdge {} 2 1 = true ∧ chkEdge {} 2 2 = true := by decide +kernel

/-- the documentation example of `external_edge_sorted` (depth 1, cells 10 and 11, `delta_depth = 2`) -/
example : externalList 1 10 2 true =
      [85, 87, 93, 95, 117, 138, 139, 142, 143, 154, 176, 178, 184, 186, 415, 437, 439, 445, 447] ∧
    externalList 1 11 2 true =
      [63, 95, 117, 119, 125, 127, 143, 154, 155, 158, 159, 165, 167, 173, 175, 239, 250, 251, 254, 255] := by
  decide +kernel

/-- the hypotheses are satisfiable by a non-trivial value: the last cell of depth 9 refined by 20 levels (depth 29) -/
example : (1 : Nat) ≤ 20 ∧ 9 + 20 ≤ 29 ∧ 12 * 4 ^ 9 - 1 < 12 * 4 ^ 9 := by decide

/-- a piece across a base-cell border: depth 1, cell 10 = `(2, 0, 1)`; its `N` neighbour is cell 7, which sees it in
    direction `E`; the facing sub-cell (`dd = 1`) is the east corner `7·4 + 1 = 29` -/
example : piecesSpec 1 10 false =
    [(S, N, 25), (SE, NW, 8), (E, W, 9), (SW, NE, 27), (NE, SW, 11), (NW, NE, 5), (N, E, 7)] ∧
    sideList 7 1 E = [29] := by decide +kernel

end Hpx.EdgeExternal

#print axioms Hpx.EdgeExternal.partsOf_child
#print axioms Hpx.EdgeExternal.child_decomp
#print axioms Hpx.EdgeExternal.externalPieces_spec
#print axioms Hpx.EdgeExternal.external_from_direction
#print axioms Hpx.EdgeExternal.external_edge_spec
#print axioms Hpx.EdgeExternal.external_edge_struct_spec
