/-
C04 — property-level corollaries on cell NUMBERS for `Layer::neighbours` / `Layer::neighbour` (every depth `≤ 29`, both
z-order builds), from `neighbours_spec` / `neighbour_spec` (`Lemmas/TopoLift.lean`), the parts-level theorems
(`Lemmas/TopoNeigh.lean`, `TopoLabel.lean`, `TopoComplete.lean`) and the injectivity of `numberOf` on valid parts.
-/
import HpxVerif.Lemmas.TopoLift
import HpxVerif.Lemmas.CoverLemmas

namespace Hpx.TopoLift
open Hpx Hpx.Topo Hpx.TopoSpec Hpx.TopoNeigh MW

/-! ## membership in the output of `neighbours` -/

theorem mem_all (w : MW) : w ∈ MW.all := by cases w <;> decide

theorem eq_nbList {cfg : Cfg} {d hash : Nat} {inc : Bool} {l : List (MW × Nat)} (hd : d ≤ 29)
    (hh : hash < 12 * 4 ^ d) (h : Topo.neighbours cfg d hash inc = some l) : l = nbList d hash inc := by
  rw [neighbours_spec cfg d hd hash hh inc] at h
  exact (Option.some.inj h).symm

theorem mem_nbList (d hash : Nat) (inc : Bool) (w : MW) (v : Nat) :
    (w, v) ∈ nbList d hash inc ↔
      (w ≠ C ∨ inc = true) ∧ ∃ q, neighbourParts (2 ^ d) (partsOf d hash) w = some q ∧ v = numberOf d q := by
  unfold nbList
  rw [List.mem_filterMap]
  constructor
  · rintro ⟨a, _, ha⟩
    split at ha
    · simp at ha
    · rename_i hc
      cases hq : neighbourParts (2 ^ d) (partsOf d hash) a with
      | none => rw [hq] at ha; simp at ha
      | some q =>
        rw [hq] at ha
        simp only [Option.map_some, Option.some.injEq, Prod.mk.injEq] at ha
        obtain ⟨rfl, rfl⟩ := ha
        refine ⟨?_, q, hq, rfl⟩
        by_cases h : a = C
        · right
          cases inc
          · exact absurd ⟨h, rfl⟩ hc
          · rfl
        · exact Or.inl h
  · rintro ⟨hc, q, hq, rfl⟩
    refine ⟨w, mem_all w, ?_⟩
    rw [if_neg, hq]
    · rfl
    · rintro ⟨h1, h2⟩
      rcases hc with hc | hc
      · exact hc h1
      · rw [h2] at hc; exact absurd hc (by decide)

theorem mem_values (d hash : Nat) (inc : Bool) (v : Nat) :
    v ∈ (nbList d hash inc).map (·.2) ↔
      ∃ w, (w ≠ C ∨ inc = true) ∧ ∃ q, neighbourParts (2 ^ d) (partsOf d hash) w = some q ∧ v = numberOf d q := by
  rw [List.mem_map]
  constructor
  · rintro ⟨⟨w, v'⟩, hm, rfl⟩
    exact ⟨w, (mem_nbList d hash inc w v').1 hm⟩
  · rintro ⟨w, h⟩
    exact ⟨(w, v), (mem_nbList d hash inc w v).2 h, rfl⟩

/-- the values, as a `filterMap` over the nine directions -/
theorem nbList_values (d hash : Nat) (inc : Bool) :
    (nbList d hash inc).map (·.2) = MW.all.filterMap fun w =>
      if w = C ∧ inc = false then none else (neighbourParts (2 ^ d) (partsOf d hash) w).map (numberOf d) := by
  unfold nbList
  rw [List.map_filterMap]
  apply filterMap_congr'
  intro w _
  split
  · rfl
  · rw [Option.map_map]; rfl

/-- every returned value is a cell number of the depth -/
theorem values_lt (d : Nat) (hd : d ≤ 29) (hash : Nat) (hh : hash < 12 * 4 ^ d) (inc : Bool) (v : Nat)
    (hv : v ∈ (nbList d hash inc).map (·.2)) : v < 12 * 4 ^ d := by
  obtain ⟨w, _, q, hq, rfl⟩ := (mem_values d hash inc v).1 hv
  exact numberOf_lt d hd q
    (neighbourParts_valid (2 ^ d) _ q w (one_le_pow d) (pow_le_u32 d hd) (partsOf_valid d hash hh) hq)

/-! ## 4 (b): the values are pairwise distinct and differ from the cell -/

theorem all_pairwise_ne : MW.all.Pairwise (· ≠ ·) := by decide

theorem nbList_values_nodup (d : Nat) (hd : d ≤ 29) (hash : Nat) (hh : hash < 12 * 4 ^ d) (inc : Bool) :
    ((nbList d hash inc).map (·.2)).Nodup := by
  have hp := partsOf_valid d hash hh
  rw [nbList_values]
  refine List.Pairwise.filterMap _ ?_ all_pairwise_ne
  intro a a' hne b hb b' hb' e
  split at hb
  · simp at hb
  split at hb'
  · simp at hb'
  cases hq : neighbourParts (2 ^ d) (partsOf d hash) a with
  | none => rw [hq] at hb; simp at hb
  | some q =>
    cases hq' : neighbourParts (2 ^ d) (partsOf d hash) a' with
    | none => rw [hq'] at hb'; simp at hb'
    | some q' =>
      rw [hq] at hb; rw [hq'] at hb'
      simp only [Option.map_some, Option.some.injEq] at hb hb'
      have hvq := neighbourParts_valid (2 ^ d) _ q a (one_le_pow d) (pow_le_u32 d hd) hp hq
      have hvq' := neighbourParts_valid (2 ^ d) _ q' a' (one_le_pow d) (pow_le_u32 d hd) hp hq'
      have : q = q' := numberOf_injective d hd q q' hvq hvq' (by rw [hb, hb', e])
      subst this
      exact hne (neighbours_distinct (2 ^ d) _ q a a' (one_le_pow d) (pow_le_u32 d hd) hp hq hq')

/-- **C04 on cell numbers, `neighbours_distinct_hash`**: the values of the map returned by `neighbours(hash, false)`
    are pairwise distinct, differ from `hash`, and are cell numbers of the depth -/
theorem neighbours_distinct_hash (cfg : Cfg) (d : Nat) (hd : d ≤ 29) (hash : Nat) (hh : hash < 12 * 4 ^ d)
    (l : List (MW × Nat)) (h : Topo.neighbours cfg d hash false = some l) :
    (l.map (·.2)).Nodup ∧ hash ∉ l.map (·.2) ∧ ∀ v ∈ l.map (·.2), v < 12 * 4 ^ d := by
  rw [eq_nbList hd hh h]
  refine ⟨nbList_values_nodup d hd hash hh false, ?_, values_lt d hd hash hh false⟩
  intro hm
  obtain ⟨w, hw, q, hq, e⟩ := (mem_values d hash false hash).1 hm
  have hp := partsOf_valid d hash hh
  have hw' : w ≠ C := by
    rcases hw with hw | hw
    · exact hw
    · exact absurd hw (by decide)
  have hvq := neighbourParts_valid (2 ^ d) _ q w (one_le_pow d) (pow_le_u32 d hd) hp hq
  have hne := neighbour_ne_self (2 ^ d) _ q w (one_le_pow d) (pow_le_u32 d hd) hp hw' hq
  apply hne
  apply numberOf_injective d hd q _ hvq hp
  rw [← e, numberOf_partsOf d hash hd]

/-- with the centre: the nine (or fewer) values are still pairwise distinct -/
theorem neighbours_distinct_hash_center (cfg : Cfg) (d : Nat) (hd : d ≤ 29) (hash : Nat) (hh : hash < 12 * 4 ^ d)
    (inc : Bool) (l : List (MW × Nat)) (h : Topo.neighbours cfg d hash inc = some l) :
    (l.map (·.2)).Nodup ∧ ∀ v ∈ l.map (·.2), v < 12 * 4 ^ d := by
  rw [eq_nbList hd hh h]
  exact ⟨nbList_values_nodup d hd hash hh inc, values_lt d hd hash hh inc⟩

/-! ## 4 (g): the four ordinal neighbours always exist -/

theorem ordinal_parts_exist (n : Nat) (p : HashParts) (hp : Valid n p) (dir : MW) (ho : dir.isOrdinal = true) :
    ∃ q, neighbourParts n p dir = some q := by
  cases hq : neighbourParts n p dir with
  | some q => exact ⟨q, rfl⟩
  | none =>
    exfalso
    have := (neighbourParts_none_iff n p dir hp).1 hq
    cases dir <;> simp [isOrdinal] at ho <;> simp [Missing] at this

/-- **C04 on cell numbers, `ordinal_neighbours_exist`**: in the four ordinal directions `SE SW NE NW` a cell always
    has a neighbour: `neighbour` returns it, it is a cell number of the depth, and it is an entry of the map returned by
    `neighbours` (needed by the bilinear interpolation, which `unwrap`s these entries) -/
theorem ordinal_neighbours_exist (cfg : Cfg) (d : Nat) (hd : d ≤ 29) (hash : Nat) (hh : hash < 12 * 4 ^ d) (dir : MW)
    (ho : dir.isOrdinal = true) :
    ∃ h', Topo.neighbour cfg d hash dir = some (some h') ∧ h' < 12 * 4 ^ d ∧ h' ≠ hash ∧
      ∀ inc l, Topo.neighbours cfg d hash inc = some l → (dir, h') ∈ l ∧ l.find? (·.1 == dir) = some (dir, h') := by
  have hp := partsOf_valid d hash hh
  obtain ⟨q, hq⟩ := ordinal_parts_exist (2 ^ d) _ hp dir ho
  have hvq := neighbourParts_valid (2 ^ d) _ q dir (one_le_pow d) (pow_le_u32 d hd) hp hq
  have hdir : dir ≠ C := by rintro rfl; simp [isOrdinal] at ho
  refine ⟨numberOf d q, by rw [neighbour_spec cfg d hd hash hh dir, hq]; rfl, numberOf_lt d hd q hvq, ?_, ?_⟩
  · intro e
    apply neighbour_ne_self (2 ^ d) _ q dir (one_le_pow d) (pow_le_u32 d hd) hp hdir hq
    apply numberOf_injective d hd q _ hvq hp
    rw [e, numberOf_partsOf d hash hd]
  · intro inc l hl
    rw [eq_nbList hd hh hl]
    have hm : (dir, numberOf d q) ∈ nbList d hash inc := (mem_nbList d hash inc dir _).2 ⟨Or.inl hdir, q, hq, rfl⟩
    refine ⟨hm, ?_⟩
    -- the first entry with key `dir` is that one: keys are distinct
    cases hf : (nbList d hash inc).find? (·.1 == dir) with
    | none =>
      have := List.find?_eq_none.1 hf _ hm
      simp at this
    | some e =>
      obtain ⟨w, v⟩ := e
      have h1 := List.find?_some hf
      have h2 := List.mem_of_find?_eq_some hf
      simp only [beq_iff_eq] at h1
      subst h1
      obtain ⟨_, q', hq', rfl⟩ := (mem_nbList d hash inc w v).1 h2
      rw [hq] at hq'
      cases hq'
      rfl

/-! ## 4 (h): the sorted list of the values is strictly increasing (start cells of the coverages) -/

open Hpx.Bmoc in
theorem mem_insertSorted' (x y : Nat) (l : List Nat) : y ∈ insertSorted x l ↔ y = x ∨ y ∈ l := by
  induction l with
  | nil => simp [insertSorted]
  | cons a l ih =>
    unfold insertSorted
    split
    · simp
    · simp only [List.mem_cons, ih]
      constructor
      · rintro (h | h | h)
        · exact Or.inr (Or.inl h)
        · exact Or.inl h
        · exact Or.inr (Or.inr h)
      · rintro (h | h | h)
        · exact Or.inr (Or.inl h)
        · exact Or.inl h
        · exact Or.inr (Or.inr h)

open Hpx.Bmoc in
theorem mem_sortNat' (y : Nat) (l : List Nat) : y ∈ sortNat l ↔ y ∈ l := by
  induction l with
  | nil => simp [sortNat]
  | cons a l ih =>
    have : sortNat (a :: l) = insertSorted a (sortNat l) := rfl
    rw [this, mem_insertSorted', ih]; simp

open Hpx.Bmoc in
theorem insertSorted_strict (x : Nat) (l : List Nat) (h : l.Pairwise (· < ·)) (hx : x ∉ l) :
    (insertSorted x l).Pairwise (· < ·) := by
  induction l with
  | nil => simp [insertSorted]
  | cons a l ih =>
    rw [List.pairwise_cons] at h
    have hxa : x ≠ a := fun e => hx (by simp [e])
    have hxl : x ∉ l := fun e => hx (by simp [e])
    unfold insertSorted
    split
    · rename_i hle
      rw [List.pairwise_cons]
      refine ⟨?_, List.pairwise_cons.2 h⟩
      intro z hz
      rcases List.mem_cons.1 hz with rfl | hz
      · omega
      · have := h.1 z hz; omega
    · rename_i hle
      rw [List.pairwise_cons]
      refine ⟨?_, ih h.2 hxl⟩
      intro z hz
      rcases (mem_insertSorted' x z l).1 hz with rfl | hz
      · omega
      · exact h.1 z hz

open Hpx.Bmoc in
/-- sorting a list without duplicates gives a strictly increasing list -/
theorem sortNat_strict (l : List Nat) (h : l.Nodup) : (sortNat l).Pairwise (· < ·) := by
  induction l with
  | nil => simp [sortNat]
  | cons a l ih =>
    rw [List.nodup_cons] at h
    have : sortNat (a :: l) = insertSorted a (sortNat l) := rfl
    rw [this]
    exact insertSorted_strict a _ (ih h.2) (fun e => h.1 ((mem_sortNat' a l).1 e))

/-- **C04 on cell numbers, `neighbours_values_sorted_distinct`**: the sorted list of the values of
    `neighbours(h0, true)` — the start cells of the coverages that begin at a starting depth — is strictly increasing
    (this is the hypothesis `roots.Pairwise (· < ·)` of `Cover.rootsFold`), made of cell numbers of the depth, and has the
    same members as the map -/
theorem neighbours_values_sorted_distinct (cfg : Cfg) (ds : Nat) (hd : ds ≤ 29) (h0 : Nat) (hh : h0 < 12 * 4 ^ ds)
    (inc : Bool) (nm : List (MW × Nat)) (h : Topo.neighbours cfg ds h0 inc = some nm) :
    (Bmoc.sortNat (nm.map (·.2))).Pairwise (· < ·) ∧
    (∀ v ∈ Bmoc.sortNat (nm.map (·.2)), v < 12 * 4 ^ ds) ∧
    (∀ v, v ∈ Bmoc.sortNat (nm.map (·.2)) ↔ v ∈ nm.map (·.2)) := by
  obtain ⟨h1, h2⟩ := neighbours_distinct_hash_center cfg ds hd h0 hh inc nm h
  exact ⟨sortNat_strict _ h1, fun v hv => h2 v ((mem_sortNat' v _).1 hv), fun v => mem_sortNat' v _⟩

open Hpx.Bmoc Hpx.Cover in
/-- **the coverage descent started from the neighbours of a cell at a starting depth is well formed** (C09, the case
    left open by `cone_coverage_base_start_wf`): `rootsFold` instantiated with `sortNat ((neighbours cfg ds h0 true).map
    (·.2))`, for any classifier and any fuel -/
theorem start_cells_fold_wf (cfg : Cfg) (ds : Nat) (hd : ds ≤ 29) (h0 : Nat) (hh : h0 < 12 * 4 ^ ds)
    (nm : List (MW × Nat)) (hnm : Topo.neighbours cfg ds h0 true = some nm)
    (target : Nat) (κ : Nat → Nat → Nat → Option Verdict) (D : Nat) (hD : target ≤ D) (fuel : Nat) (hds : ds ≤ target)
    (out : List Cell)
    (h : (sortNat (nm.map (·.2))).foldlM (fun acc r => (coverRec target κ fuel ds r 0).map (acc ++ ·)) [] = some out) :
    WF D out ∧
    (∀ c ∈ out, ∃ r ∈ sortNat (nm.map (·.2)), ∃ o, coverRec target κ fuel ds r 0 = some o ∧ c ∈ o) ∧
    (∀ r ∈ sortNat (nm.map (·.2)), ∃ o, coverRec target κ fuel ds r 0 = some o ∧ ∀ c ∈ o, c ∈ out) := by
  obtain ⟨hs, _, _⟩ := neighbours_values_sorted_distinct cfg ds hd h0 hh true nm hnm
  obtain ⟨g1, g2, g3, _⟩ := rootsFold target κ D hD fuel ds hds _ [] out hs trivial (by simp) h
  refine ⟨g1, ?_, g3⟩
  intro c hc
  rcases g2 c hc with h0 | h0
  · simp at h0
  · exact h0

/-! ## 4 (a): labelling -/

/-- **C04 on cell numbers, `neighbours_labelled_hash`**: the entry `(dir, h')` of the map returned by `neighbours` is a
    cell number of the depth whose cell shares with the cell `hash` exactly the vertices of the side (ordinal `dir`) /
    the corner (cardinal `dir`) of `hash` in direction `dir` (all four for `C`) -/
theorem neighbours_labelled_hash (cfg : Cfg) (d : Nat) (hd : d ≤ 29) (hash : Nat) (hh : hash < 12 * 4 ^ d) (inc : Bool)
    (l : List (MW × Nat)) (h : Topo.neighbours cfg d hash inc = some l) (dir : MW) (h' : Nat) (hm : (dir, h') ∈ l) :
    h' < 12 * 4 ^ d ∧ shared (2 ^ d) (partsOf d hash) (partsOf d h') = edgeOf dir := by
  rw [eq_nbList hd hh h] at hm
  obtain ⟨_, q, hq, rfl⟩ := (mem_nbList d hash inc dir h').1 hm
  have hp := partsOf_valid d hash hh
  have hvq := neighbourParts_valid (2 ^ d) _ q dir (one_le_pow d) (pow_le_u32 d hd) hp hq
  refine ⟨numberOf_lt d hd q hvq, ?_⟩
  rw [partsOf_numberOf d hd q hvq]
  exact neighbour_labelled (2 ^ d) _ q dir (one_le_pow d) (pow_le_u32 d hd) hp hq

/-! ## 4 (c): number of neighbours -/

theorem length_filterMap {α β : Type} (f : α → Option β) (l : List α) :
    (l.filterMap f).length = (l.filter fun a => (f a).isSome).length := by
  induction l with
  | nil => rfl
  | cons a l ih =>
    rw [List.filterMap_cons, List.filter_cons]
    cases h : f a <;> simp [ih]

theorem nbList_false_eq (d hash : Nat) :
    nbList d hash false =
      dirs8.filterMap fun w => (neighbourParts (2 ^ d) (partsOf d hash) w).map fun q => (w, numberOf d q) := by
  simp [nbList, MW.all, dirs8, List.filterMap_cons]

theorem nbList_false_length (d hash : Nat) :
    (nbList d hash false).length = count (2 ^ d) (partsOf d hash) := by
  rw [nbList_false_eq, length_filterMap]
  unfold count
  simp only [Option.isSome_map]

theorem nbList_true_length (d hash : Nat) (hh : hash < 12 * 4 ^ d) :
    (nbList d hash true).length = count (2 ^ d) (partsOf d hash) + 1 := by
  have hC := neighbourParts_C (2 ^ d) _ (partsOf_valid d hash hh)
  have e : nbList d hash true =
      MW.all.filterMap fun w => (neighbourParts (2 ^ d) (partsOf d hash) w).map fun q => (w, numberOf d q) := by
    unfold nbList
    apply filterMap_congr'
    intro w _
    rw [if_neg (by simp)]
  have hf : ∀ g : MW → Bool, g C = true → (MW.all.filter g).length = (dirs8.filter g).length + 1 := by
    intro g hg
    rw [show MW.all = [S, SE, E, SW] ++ ([C] ++ [NE, W, NW, N]) from rfl,
      show dirs8 = [S, SE, E, SW] ++ [NE, W, NW, N] from rfl,
      List.filter_append, List.filter_append, List.filter_append, List.length_append, List.length_append,
      List.length_append]
    have : List.filter g [C] = [C] := by simp [hg]
    rw [this, List.length_singleton]
    omega
  rw [e, length_filterMap]
  unfold count
  simp only [Option.isSome_map]
  exact hf _ (by rw [hC]; rfl)

/-- **C04 on cell numbers, `neighbours_count_hash`**: at depth `d ≥ 1` the map returned by `neighbours(hash, false)` has
    8 entries, or 7 exactly for the 24 special cells (`Special`: the two cells of each base cell at a point where only
    three cells meet; listed by `specialCells`); one more with the centre -/
theorem neighbours_count_hash (cfg : Cfg) (d : Nat) (hd1 : 1 ≤ d) (hd : d ≤ 29) (hash : Nat) (hh : hash < 12 * 4 ^ d)
    (inc : Bool) (l : List (MW × Nat)) (h : Topo.neighbours cfg d hash inc = some l) :
    l.length = (if Special (2 ^ d) (partsOf d hash) then 7 else 8) + (if inc = true then 1 else 0) ∧
    (Special (2 ^ d) (partsOf d hash) ↔ partsOf d hash ∈ specialCells (2 ^ d)) := by
  have hp := partsOf_valid d hash hh
  have hn : 2 ≤ 2 ^ d := EdgeInternal.two_le_pow hd1
  refine ⟨?_, special_iff_mem (2 ^ d) _ (one_le_pow d) hp⟩
  rw [eq_nbList hd hh h]
  cases inc
  · rw [nbList_false_length, neighbours_count (2 ^ d) _ hn hp]; simp
  · rw [nbList_true_length d hash hh, neighbours_count (2 ^ d) _ hn hp]; simp

/-- at depth 0 every cell has 6 neighbours -/
theorem neighbours_count_hash_zero (cfg : Cfg) (hash : Nat) (hh : hash < 12) (inc : Bool) (l : List (MW × Nat))
    (h : Topo.neighbours cfg 0 hash inc = some l) : l.length = 6 + (if inc = true then 1 else 0) := by
  have hh' : hash < 12 * 4 ^ 0 := by simpa using hh
  have hp := partsOf_valid 0 hash hh'
  rw [eq_nbList (by decide) hh' h]
  cases inc
  · rw [nbList_false_length]
    show count 1 (partsOf 0 hash) = 6 + 0
    rw [neighbours_count_one _ hp]
  · rw [nbList_true_length 0 hash hh']
    show count 1 (partsOf 0 hash) + 1 = 6 + 1
    rw [neighbours_count_one _ hp]

/-! ### the 24 cell numbers with 7 neighbours -/

theorem specialCells_valid (n : Nat) (hn : 1 ≤ n) (p : HashParts) (h : p ∈ specialCells n) : Valid n p := by
  unfold specialCells at h
  obtain ⟨b, hb, hp⟩ := List.mem_flatMap.1 h
  have hb' := List.mem_range.1 hb
  split at hp <;> simp only [List.mem_cons, List.not_mem_nil, or_false] at hp <;> rcases hp with rfl | rfl <;>
    exact ⟨hb', (by simp only; omega), (by simp only; omega)⟩

/-- the numbers of the special cells at depth `d` -/
def specialHashes (d : Nat) : List Nat := (specialCells (2 ^ d)).map (numberOf d)

theorem specialHashes_length (d : Nat) : (specialHashes d).length = 24 := by
  unfold specialHashes; rw [List.length_map, specialCells_length]

theorem specialHashes_nodup (d : Nat) (hd1 : 1 ≤ d) (hd : d ≤ 29) : (specialHashes d).Nodup := by
  unfold specialHashes List.Nodup
  rw [List.pairwise_map]
  refine List.Pairwise.imp_of_mem ?_ (specialCells_nodup (2 ^ d) (EdgeInternal.two_le_pow hd1))
  intro a b ha hb hne e
  exact hne (numberOf_injective d hd a b (specialCells_valid _ (one_le_pow d) a ha)
    (specialCells_valid _ (one_le_pow d) b hb) e)

/-- a cell number of the depth is special iff it is one of the 24 numbers `specialHashes d` -/
theorem special_hash_iff (d : Nat) (hd : d ≤ 29) (hash : Nat) (hh : hash < 12 * 4 ^ d) :
    Special (2 ^ d) (partsOf d hash) ↔ hash ∈ specialHashes d := by
  have hp := partsOf_valid d hash hh
  rw [special_iff_mem (2 ^ d) _ (one_le_pow d) hp]
  unfold specialHashes
  rw [List.mem_map]
  constructor
  · intro h
    exact ⟨_, h, numberOf_partsOf d hash hd⟩
  · rintro ⟨q, hq, rfl⟩
    rw [partsOf_numberOf d hd q (specialCells_valid _ (one_le_pow d) q hq)]
    exact hq

/-! ## 4 (d), (e): completeness, symmetry -/

/-- **C04 on cell numbers, `neighbours_complete_hash`**: a cell number `h'` of the depth is a value of the map returned
    by `neighbours(hash, false)` iff `h' ≠ hash` and the two cells have a vertex in common on the sphere -/
theorem neighbours_complete_hash (cfg : Cfg) (d : Nat) (hd : d ≤ 29) (hash : Nat) (hh : hash < 12 * 4 ^ d)
    (l : List (MW × Nat)) (h : Topo.neighbours cfg d hash false = some l) (h' : Nat) (hh' : h' < 12 * 4 ^ d) :
    h' ∈ l.map (·.2) ↔ (h' ≠ hash ∧ Touch (2 ^ d) (partsOf d hash) (partsOf d h')) := by
  have hp := partsOf_valid d hash hh
  have hq' := partsOf_valid d h' hh'
  rw [eq_nbList hd hh h, mem_values]
  constructor
  · rintro ⟨w, hw, q, hq, rfl⟩
    have hw' : w ≠ C := by
      rcases hw with hw | hw
      · exact hw
      · exact absurd hw (by decide)
    have hvq := neighbourParts_valid (2 ^ d) _ q w (one_le_pow d) (pow_le_u32 d hd) hp hq
    have hne := neighbour_ne_self (2 ^ d) _ q w (one_le_pow d) (pow_le_u32 d hd) hp hw' hq
    refine ⟨?_, ?_⟩
    · intro e
      apply hne
      apply numberOf_injective d hd q _ hvq hp
      rw [e, numberOf_partsOf d hash hd]
    · rw [partsOf_numberOf d hd q hvq]
      exact neighbour_touch (2 ^ d) _ q w (one_le_pow d) (pow_le_u32 d hd) hp hq
  · rintro ⟨hne, ht⟩
    have hne' : partsOf d h' ≠ partsOf d hash := fun e => hne (partsOf_injective d hd _ _ e)
    obtain ⟨dir, hdir, hq⟩ := neighbours_complete (2 ^ d) _ _ (one_le_pow d) (pow_le_u32 d hd) hp hq' hne' ht
    exact ⟨dir, Or.inl ((mem_dirs8_iff dir).1 hdir), _, hq, (numberOf_partsOf d h' hd).symm⟩

/-- **C04 on cell numbers, `neighbours_symmetric_hash`**: if `h'` is a neighbour of `hash` then `hash` is a neighbour of
    `h'` -/
theorem neighbours_symmetric_hash (cfg : Cfg) (d : Nat) (hd : d ≤ 29) (hash : Nat) (hh : hash < 12 * 4 ^ d)
    (l : List (MW × Nat)) (h : Topo.neighbours cfg d hash false = some l) (h' : Nat) (hm : h' ∈ l.map (·.2)) :
    h' < 12 * 4 ^ d ∧ ∃ l', Topo.neighbours cfg d h' false = some l' ∧ hash ∈ l'.map (·.2) := by
  have hlt : h' < 12 * 4 ^ d := by
    rw [eq_nbList hd hh h] at hm
    exact values_lt d hd hash hh false h' hm
  obtain ⟨hne, ht⟩ := (neighbours_complete_hash cfg d hd hash hh l h h' hlt).1 hm
  refine ⟨hlt, nbList d h' false, neighbours_spec cfg d hd h' hlt false, ?_⟩
  exact (neighbours_complete_hash cfg d hd h' hlt _ (neighbours_spec cfg d hd h' hlt false) hash hh).2
    ⟨fun e => hne e.symm, touch_symm ht⟩

/-! ## 4 (f): `neighbour` agrees with `neighbours` -/

theorem lookup_filterMap_key (ks : List MW) (G : MW → Option Nat) (w : MW) :
    (ks.filterMap fun k => (G k).map fun v => (k, v)).lookup w = if w ∈ ks then G w else none := by
  induction ks with
  | nil => simp
  | cons k ks ih =>
    rw [List.filterMap_cons]
    by_cases hk : k = w
    · subst hk
      cases hg : G k with
      | none => simp [hg, ih]
      | some v => simp
    · have hk' : ¬ w = k := fun e => hk e.symm
      have hb : (w == k) = false := beq_eq_false_iff_ne.mpr hk'
      cases hg : G k with
      | none => simp [ih, hk']
      | some v => simp [ih, hk', List.lookup_cons, hb]

theorem nbList_keyed (d hash : Nat) (inc : Bool) :
    nbList d hash inc = MW.all.filterMap fun k =>
      (if k = C ∧ inc = false then none else (neighbourParts (2 ^ d) (partsOf d hash) k).map (numberOf d)).map
        fun v => (k, v) := by
  unfold nbList
  apply filterMap_congr'
  intro k _
  split
  · rfl
  · rw [Option.map_map]; rfl

theorem lookup_nbList (d hash : Nat) (inc : Bool) (w : MW) :
    (nbList d hash inc).lookup w =
      if w = C ∧ inc = false then none else (neighbourParts (2 ^ d) (partsOf d hash) w).map (numberOf d) := by
  rw [nbList_keyed, lookup_filterMap_key, if_pos (mem_all w)]

theorem find_nbList (d hash : Nat) (inc : Bool) (w : MW) :
    (nbList d hash inc).find? (·.1 == w) =
      (if w = C ∧ inc = false then none else (neighbourParts (2 ^ d) (partsOf d hash) w).map (numberOf d)).map
        fun v => (w, v) := by
  rw [nbList_keyed, find_filterMap_key, if_pos (mem_all w)]

/-- the way the bilinear interpolation reads the map (`find?` on the key): entry `w` is the number of the parts-level
    neighbour in direction `w` -/
theorem neighbours_find (cfg : Cfg) (d : Nat) (hd : d ≤ 29) (hash : Nat) (hh : hash < 12 * 4 ^ d) (inc : Bool)
    (l : List (MW × Nat)) (h : Topo.neighbours cfg d hash inc = some l) (w : MW) (hw : w ≠ C ∨ inc = true) :
    (l.find? (·.1 == w)).map (·.2) = (neighbourParts (2 ^ d) (partsOf d hash) w).map (numberOf d) := by
  rw [eq_nbList hd hh h, find_nbList, if_neg, Option.map_map]
  · cases neighbourParts (2 ^ d) (partsOf d hash) w <;> rfl
  · rintro ⟨h1, h2⟩
    rcases hw with hw | hw
    · exact hw h1
    · rw [h2] at hw; exact absurd hw (by decide)

/-- **C04 on cell numbers, `neighbour_agrees`**: `neighbour(hash, dir)` is the entry `dir` of the map returned by
    `neighbours(hash, include_center)` (`none` when there is no such entry), for every direction other than `C`, and for
    `C` too when the centre is included -/
theorem neighbour_agrees (cfg : Cfg) (d : Nat) (hd : d ≤ 29) (hash : Nat) (hh : hash < 12 * 4 ^ d) (inc : Bool)
    (l : List (MW × Nat)) (h : Topo.neighbours cfg d hash inc = some l) (dir : MW) (hdir : dir ≠ C ∨ inc = true) :
    Topo.neighbour cfg d hash dir = some (l.lookup dir) := by
  rw [eq_nbList hd hh h, lookup_nbList, neighbour_spec cfg d hd hash hh dir, if_neg]
  rintro ⟨h1, h2⟩
  rcases hdir with hdir | hdir
  · exact hdir h1
  · rw [h2] at hdir; exact absurd hdir (by decide)

/-- the entry of the centre is the cell itself -/
theorem neighbour_center (cfg : Cfg) (d : Nat) (hd : d ≤ 29) (hash : Nat) (hh : hash < 12 * 4 ^ d) :
    Topo.neighbour cfg d hash C = some (some hash) := by
  rw [neighbour_spec cfg d hd hash hh C, neighbourParts_C _ _ (partsOf_valid d hash hh), Option.map_some,
    numberOf_partsOf d hash hd]

/-! ## non-vacuity and concrete instances -/

/-- depth 2, cell 5 = `(0, 3, 0)`: one of the 24 cells with 7 neighbours; its neighbour lists -/
example : Topo.neighbours {} 2 5 false = some [(S, 94), (SE, 95), (SW, 4), (NE, 26), (W, 6), (NW, 7), (N, 27)] ∧
    Special (2 ^ 2) (partsOf 2 5) := by decide +kernel

example : ∃ l, Topo.neighbours {} 2 5 false = some l ∧ l.length = 7 :=
  ⟨_, neighbours_spec {} 2 (by decide) 5 (by decide) false,
    ((neighbours_count_hash {} 2 (by decide) (by decide) 5 (by decide) false _
      (neighbours_spec {} 2 (by decide) 5 (by decide) false)).1).trans (by decide +kernel)⟩

example : (Bmoc.sortNat (((Topo.neighbours {} 2 5 true).getD []).map (·.2))) = [4, 5, 6, 7, 26, 27, 94, 95] := by
  decide +kernel

end Hpx.TopoLift

#print axioms Hpx.TopoLift.neighbours_labelled_hash
#print axioms Hpx.TopoLift.neighbours_distinct_hash
#print axioms Hpx.TopoLift.neighbours_count_hash
#print axioms Hpx.TopoLift.neighbours_count_hash_zero
#print axioms Hpx.TopoLift.neighbours_complete_hash
#print axioms Hpx.TopoLift.neighbours_symmetric_hash
#print axioms Hpx.TopoLift.neighbour_agrees
#print axioms Hpx.TopoLift.neighbours_find
#print axioms Hpx.TopoLift.special_hash_iff
#print axioms Hpx.TopoLift.specialHashes_nodup
#print axioms Hpx.TopoLift.ordinal_neighbours_exist
#print axioms Hpx.TopoLift.neighbours_values_sorted_distinct
#print axioms Hpx.TopoLift.start_cells_fold_wf
