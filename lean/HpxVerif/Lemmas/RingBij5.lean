import HpxVerif.Lemmas.BitsLemmas
import HpxVerif.Lemmas.RingBij4

/-!
# NESTED <-> RING conversion on cell numbers (LUT build, depth `≤ 29`)

`decode_hash` / `build_hash_from_parts` are inverse bijections between `[0, 12·4^d)` and the valid parts
(`h = d0h·4^d + interleave i j`); with them the statements on parts lift to `to_ring` / `from_ring`.
-/

namespace Hpx.RingBij
open Hpx Hpx.Layer

/-! ## z-order facts (statements as in `Props/C18`) -/

theorem get_zoc_sufficient : ∀ d, d ≤ 29 → ∃ c, getZoc d = some c ∧ d ≤ c.bits := by
  decide +kernel

theorem lut_ij2h_spec (c : ZocClass) (i j : Nat) (hi : i < 2 ^ c.bits) (hj : j < 2 ^ c.bits) :
    Lut.ij2h c i j = interleave i j := by
  have hb : c.bits ≤ 32 := by cases c <;> decide
  cases c with
  | empty =>
    have hi' : i = 0 := by simpa [ZocClass.bits] using hi
    have hj' : j = 0 := by simpa [ZocClass.bits] using hj
    subst hi' hj'
    simp [Lut.ij2h, interleave, spreadN]
  | small | mediu | large =>
    simp only [Lut.ij2h, Lut.oj2h, lut_i02h_spec, interleave]
    rw [← spreadN_of_lt hi hb, ← spreadN_of_lt hj hb]
    have h3 := three_spreadN_lt 32 j
    have : spreadN 32 j <<< 1 < 2 ^ 64 := by rw [Nat.shiftLeft_eq]; omega
    rw [Nat.mod_eq_of_lt this]

theorem testBit_false_of_lt {z d q : Nat} (hz : z < 4 ^ d) (hq : 2 * d ≤ q) : z.testBit q = false := by
  apply Nat.testBit_lt_two_pow
  rw [show (4 : Nat) ^ d = 2 ^ (2 * d) by rw [Nat.pow_mul]] at hz
  exact Nat.lt_of_lt_of_le hz (Nat.pow_le_pow_right (by decide) hq)

/-- on numbers below `4^d`, squeezing with any width `≥ d` gives the same result, below `2^d` -/
theorem squeezeN_eq_of_lt {k k' d z : Nat} (hz : z < 4 ^ d) (hk : d ≤ k) (hk' : d ≤ k') :
    squeezeN k z = squeezeN k' z := by
  apply Nat.eq_of_testBit_eq; intro q
  rw [testBit_squeezeN, testBit_squeezeN]
  by_cases h : q < d
  · have h1 : q < k := by omega
    have h2 : q < k' := by omega
    simp [h1, h2]
  · rw [testBit_false_of_lt hz (by omega)]; simp

theorem squeezeN_lt_of_lt {k d z : Nat} (hz : z < 4 ^ d) : squeezeN k z < 2 ^ d := by
  apply Nat.lt_pow_two_of_testBit; intro q hq
  rw [testBit_squeezeN, testBit_false_of_lt hz (by omega)]; simp

/-- every number below `2^64` is the interleaving of its even and odd bits -/
theorem interleave_squeeze (z : Nat) (hz : z < 2 ^ 64) : interleave (squeezeN 32 z) (squeezeN 32 (z / 2)) = z := by
  apply Nat.eq_of_testBit_eq; intro p
  obtain ⟨q, rfl | rfl⟩ := parity_cases p
  · rw [testBit_interleave_even, testBit_squeezeN]
    by_cases h : q < 32
    · simp [h]
    · have : z.testBit (2 * q) = false :=
        Nat.testBit_lt_two_pow (Nat.lt_of_lt_of_le hz (Nat.pow_le_pow_right (by decide) (by omega)))
      simp [h, this]
  · rw [testBit_interleave_odd, testBit_squeezeN]
    have e : (z / 2).testBit (2 * q) = z.testBit (2 * q + 1) := by rw [Nat.testBit_succ]
    by_cases h : q < 32
    · simp [h, e]
    · have : z.testBit (2 * q + 1) = false :=
        Nat.testBit_lt_two_pow (Nat.lt_of_lt_of_le hz (Nat.pow_le_pow_right (by decide) (by omega)))
      simp [h, this]

theorem squeeze_interleave_i {k d i j : Nat} (hk : d ≤ k) (hk32 : k ≤ 32) (hi : i < 2 ^ d) :
    squeezeN k (interleave i j) = i := by
  apply Nat.eq_of_testBit_eq; intro q
  rw [testBit_squeezeN, testBit_interleave_even]
  by_cases h : q < k
  · have : q < 32 := by omega
    simp [h, this]
  · have : i.testBit q = false :=
      Nat.testBit_lt_two_pow (Nat.lt_of_lt_of_le hi (Nat.pow_le_pow_right (by decide) (by omega)))
    simp [h, this]

theorem squeeze_interleave_j {k d i j : Nat} (hk : d ≤ k) (hk32 : k ≤ 32) (hj : j < 2 ^ d) :
    squeezeN k (interleave i j / 2) = j := by
  apply Nat.eq_of_testBit_eq; intro q
  rw [testBit_squeezeN, ← Nat.testBit_succ, testBit_interleave_odd]
  by_cases h : q < k
  · have : q < 32 := by omega
    simp [h, this]
  · have : j.testBit q = false :=
      Nat.testBit_lt_two_pow (Nat.lt_of_lt_of_le hj (Nat.pow_le_pow_right (by decide) (by omega)))
    simp [h, this]

/-! ## `decode_hash` and `build_hash_from_parts` are inverse of each other -/

theorem shl2d' (a d : Nat) : a <<< (d <<< 1) = a * 4 ^ d := by rw [shl2d, four_pow_eq]

/-- `build_hash_from_parts` on valid parts: `d0h·4^d + interleave i j`, a cell number of the depth -/
theorem build_spec (cfg : Cfg) (hb : cfg.bmi = false) (d : Nat) (hd : d ≤ 29) (p : HashParts) (hv : Valid d p) :
    buildHashFromParts cfg d p.d0h p.i p.j = some (p.d0h * 4 ^ d + interleave p.i p.j) ∧
    p.d0h * 4 ^ d + interleave p.i p.j < 12 * 4 ^ d := by
  obtain ⟨h1, h2, h3⟩ := hv
  obtain ⟨c, hc, hdc⟩ := get_zoc_sufficient d hd
  have hi' : p.i < 2 ^ c.bits := Nat.lt_of_lt_of_le h2 (Nat.pow_le_pow_right (by decide) hdc)
  have hj' : p.j < 2 ^ c.bits := Nat.lt_of_lt_of_le h3 (Nat.pow_le_pow_right (by decide) hdc)
  have hz : interleave p.i p.j < 4 ^ d := interleave_lt (by omega) h2 h3
  constructor
  · unfold buildHashFromParts zoc ij2h
    simp only [hb, Bool.false_eq_true, if_false, hc, nside_eq, h2, h3, decide_true, Bool.and_self, Bool.not_true,
      Bool.and_false]
    rw [lut_ij2h_spec c _ _ hi' hj', shl2d']
    have : p.d0h * 4 ^ d = p.d0h <<< (2 * d) := by
      rw [Nat.shiftLeft_eq, Nat.pow_mul]
    rw [this, Nat.shiftLeft_add_eq_or_of_lt (by rw [Nat.pow_mul]; exact hz)]
  · have : (p.d0h + 1) * 4 ^ d ≤ 12 * 4 ^ d := Nat.mul_le_mul_right _ (by omega)
    rw [Nat.add_mul] at this; omega

/-- `decode_hash` inverts it -/
theorem decode_build (cfg : Cfg) (hb : cfg.bmi = false) (d : Nat) (hd : d ≤ 29) (p : HashParts) (hv : Valid d p) :
    decodeHash cfg d (p.d0h * 4 ^ d + interleave p.i p.j) = some p := by
  obtain ⟨h1, h2, h3⟩ := hv
  obtain ⟨c, hc, hdc⟩ := get_zoc_sufficient d hd
  have hc32 : c.bits ≤ 32 := by cases c <;> decide
  have hz : interleave p.i p.j < 4 ^ d := interleave_lt (by omega) h2 h3
  have h4 : (4 : Nat) ^ d = 2 ^ (2 * d) := by rw [Nat.pow_mul]
  have hm : (p.d0h * 4 ^ d + interleave p.i p.j) &&& xyMask d = interleave p.i p.j := by
    unfold xyMask
    by_cases h0 : d > 0
    · rw [if_pos h0, Nat.shiftLeft_eq, Nat.one_mul, Nat.shiftLeft_eq, Nat.pow_one, Nat.mul_comm d 2,
        Nat.and_two_pow_sub_one_eq_mod, ← h4, Nat.add_comm, Nat.add_mul_mod_self_right, Nat.mod_eq_of_lt hz]
    · have : d = 0 := by omega
      subst this
      have : interleave p.i p.j = 0 := by simpa using hz
      rw [if_neg h0, this]; simp
  have hs : (p.d0h * 4 ^ d + interleave p.i p.j) >>> (d <<< 1) % 256 = p.d0h := by
    rw [Nat.shiftLeft_eq, Nat.pow_one, Nat.mul_comm d 2, Nat.shiftRight_eq_div_pow, ← h4, Nat.add_comm,
      Nat.add_mul_div_right _ _ (Nat.pow_pos (by decide)), Nat.div_eq_of_lt hz]
    omega
  unfold decodeHash zoc h2ij
  simp only [hb, Bool.false_eq_true, if_false, hc, hm, hs, lut_h2ij_i, lut_h2ij_j,
    squeeze_interleave_i hdc hc32 h2, squeeze_interleave_j hdc hc32 h3]

/-- **`decode_hash` on a cell number of the depth**: valid parts, of which the number is the z-order encoding -/
theorem decode_spec (cfg : Cfg) (hb : cfg.bmi = false) (d : Nat) (hd : d ≤ 29) (h : Nat) (hh : h < 12 * 4 ^ d) :
    ∃ p, decodeHash cfg d h = some p ∧ Valid d p ∧ h = p.d0h * 4 ^ d + interleave p.i p.j := by
  have hpos : 0 < 4 ^ d := Nat.pow_pos (by decide)
  have hz : h % 4 ^ d < 4 ^ d := Nat.mod_lt _ hpos
  have hz2 : h % 4 ^ d / 2 < 4 ^ d := by omega
  have h64 : h % 4 ^ d < 2 ^ 64 := by
    have : (4 : Nat) ^ d ≤ 4 ^ 29 := Nat.pow_le_pow_right (by decide) hd
    omega
  have hv : Valid d ⟨h / 4 ^ d, squeezeN 32 (h % 4 ^ d), squeezeN 32 (h % 4 ^ d / 2)⟩ :=
    ⟨(Nat.div_lt_iff_lt_mul hpos).2 hh, squeezeN_lt_of_lt hz, squeezeN_lt_of_lt hz2⟩
  have e : h = (h / 4 ^ d) * 4 ^ d + interleave (squeezeN 32 (h % 4 ^ d)) (squeezeN 32 (h % 4 ^ d / 2)) := by
    rw [interleave_squeeze _ h64, Nat.mul_comm, Nat.div_add_mod]
  refine ⟨_, ?_, hv, e⟩
  have := decode_build cfg hb d hd _ hv
  dsimp only at this
  rw [← e] at this
  exact this

/-! ## the conversions on cell numbers -/

theorem toRing_of_decode (cfg : Cfg) (d h : Nat) (p : HashParts) (hp : decodeHash cfg d h = some p)
    (hv : Valid d p) : toRing cfg d h = toRingParts d p := by
  unfold toRing
  rw [hp]
  have : ¬ p.d0h / 4 > 2 := by have := hv.1; omega
  simp [this]

theorem fromRing_eq_bind (cfg : Cfg) (d r : Nat) :
    fromRing cfg d r = (fromRingParts d realRI r).bind (fun p => buildHashFromParts cfg d p.d0h p.i p.j) := by
  unfold fromRing
  change (match fromRingParts d realRI r with | none => none | some p => _) = _
  cases fromRingParts d realRI r <;> rfl

/-- **(6)** `from_ring ∘ to_ring = id` on the cell numbers of the depth (LUT build, depth `≤ 29`), under the
    hypothesis on the `f64` estimate of the ring index -/
theorem fromRing_toRing (cfg : Cfg) (hb : cfg.bmi = false) (d : Nat) (hd : d ≤ 29)
    (hA : ApproxOK (firstHashInEqr d)) (h : Nat) (hh : h < 12 * 4 ^ d) :
    ∃ r, toRing cfg d h = some r ∧ r < 12 * 4 ^ d ∧ fromRing cfg d r = some h := by
  obtain ⟨p, hp, hv, e⟩ := decode_spec cfg hb d hd h hh
  obtain ⟨r, hr, hlt⟩ := toRingParts_lt d p hv
  refine ⟨r, by rw [toRing_of_decode cfg d h p hp hv, hr], hlt, ?_⟩
  rw [fromRing_eq_bind, fromRing_toRing_parts_real d (by omega) hA p hv r hr]
  simp only [Option.bind_some]
  rw [(build_spec cfg hb d hd p hv).1, ← e]

/-- **(6)** `to_ring ∘ from_ring = id` on `[0, 12·4^d)` -/
theorem toRing_fromRing (cfg : Cfg) (hb : cfg.bmi = false) (d : Nat) (hd : d ≤ 29)
    (hA : ApproxOK (firstHashInEqr d)) (r : Nat) (hr : r < 12 * 4 ^ d) :
    ∃ h, fromRing cfg d r = some h ∧ h < 12 * 4 ^ d ∧ toRing cfg d h = some r := by
  obtain ⟨p, hp, hv, ht⟩ := toRing_fromRing_parts_real d (by omega) hA r hr
  obtain ⟨hbd, hlt⟩ := build_spec cfg hb d hd p hv
  refine ⟨_, by rw [fromRing_eq_bind, hp]; exact hbd, hlt, ?_⟩
  rw [toRing_of_decode cfg d _ p (decode_build cfg hb d hd p hv) hv, ht]

/-- the two conversions are injective on their domains (consequence of the two round trips) -/
theorem toRing_injective (cfg : Cfg) (hb : cfg.bmi = false) (d : Nat) (hd : d ≤ 29)
    (hA : ApproxOK (firstHashInEqr d)) (h h' : Nat) (hh : h < 12 * 4 ^ d) (hh' : h' < 12 * 4 ^ d)
    (e : toRing cfg d h = toRing cfg d h') : h = h' := by
  obtain ⟨r, h1, _, h2⟩ := fromRing_toRing cfg hb d hd hA h hh
  obtain ⟨r', h1', _, h2'⟩ := fromRing_toRing cfg hb d hd hA h' hh'
  rw [h1, h1'] at e
  cases e
  rw [h2] at h2'
  cases h2'
  rfl

/-- **(4) on cell numbers**: `to_ring` orders the cells by decreasing `Y`, then increasing `X` of their centres -/
theorem ring_order (cfg : Cfg) (hb : cfg.bmi = false) (d : Nat) (hd : d ≤ 29) (h h' : Nat) (hh : h < 12 * 4 ^ d)
    (hh' : h' < 12 * 4 ^ d) (p q : HashParts) (hp : decodeHash cfg d h = some p) (hq : decodeHash cfg d h' = some q)
    (r r' : Nat) (hr : toRing cfg d h = some r) (hr' : toRing cfg d h' = some r') :
    r < r' ↔ ((centerXY d p).2 > (centerXY d q).2 ∨
      ((centerXY d p).2 = (centerXY d q).2 ∧ (centerXY d p).1 < (centerXY d q).1)) := by
  obtain ⟨p0, hp0, hv, _⟩ := decode_spec cfg hb d hd h hh
  obtain ⟨q0, hq0, hv', _⟩ := decode_spec cfg hb d hd h' hh'
  rw [hp] at hp0; rw [hq] at hq0
  cases hp0; cases hq0
  rw [toRing_of_decode cfg d h p hp hv] at hr
  rw [toRing_of_decode cfg d h' q hq hv'] at hr'
  exact ring_order_parts d p q hv hv' r r' hr hr'

/-- with the hypothesis in the form "the `f64` estimate is within 4 of the exact ring index below `2^60`" -/
theorem ring_bijection (cfg : Cfg) (hb : cfg.bmi = false) (d : Nat) (hd : d ≤ 29) (hA : ApproxOK (2 ^ 60)) :
    (∀ h, h < 12 * 4 ^ d → ∃ r, toRing cfg d h = some r ∧ r < 12 * 4 ^ d ∧ fromRing cfg d r = some h) ∧
    (∀ r, r < 12 * 4 ^ d → ∃ h, fromRing cfg d r = some h ∧ h < 12 * 4 ^ d ∧ toRing cfg d h = some r) :=
  ⟨fun h hh => fromRing_toRing cfg hb d hd (approxOK_of_lt_2_60 hA d hd) h hh,
   fun r hr => toRing_fromRing cfg hb d hd (approxOK_of_lt_2_60 hA d hd) r hr⟩

/-! ## non-vacuity, concrete evaluations, and the counter-example beyond depth 32 -/

/-- the hypotheses of (6) are satisfiable: depth 3, cell 100 -/
example : ∃ r, toRing {} 3 100 = some r ∧ r < 12 * 4 ^ 3 ∧ fromRing {} 3 r = some 100 :=
  fromRing_toRing {} rfl 3 (by decide) approxOK_depth3 100 (by decide)

/-- concrete evaluations at depths 1 and 2 (model run in the kernel): NESTED 5 at depth 1 is RING 7 (north cap,
    base cell 1), NESTED 73 = base cell 4, `(i, j) = (1, 2)` at depth 2 is RING 103 (equatorial, wrap-around case
    `d0h = 4 ∧ i < j`), NESTED 44 at depth 1 is RING 47 (last cell, south cap) -/
example : toRing {} 1 5 = some 7 ∧ fromRing {} 1 7 = some 5 ∧
    decodeHash {} 2 73 = some ⟨4, 1, 2⟩ ∧ toRing {} 2 73 = some 103 ∧ fromRing {} 2 103 = some 73 ∧
    toRing {} 1 44 = some 47 ∧ fromRing {} 1 47 = some 44 := by decide +kernel

/-- instance of (3) at depths 0, 1, 2 -/
example : ∀ d, d ≤ 2 → ∀ r, r < 12 * 4 ^ d →
    ∃ p, fromRingParts d exactRI r = some p ∧ Valid d p ∧ toRingParts d p = some r :=
  fun d hd r hr => toRing_fromRing_parts d exactRI exactRI_exact (by omega) r hr

/-- **counter-example to (2) at depth 33** (outside the supported depths `≤ 29`): `from_ring` truncates `i` and `j`
    to `u32`, so the valid parts `(0, 2^33 − 1, 2^33 − 1)` (RING number 0) come back as `(0, 2^32 − 1, 2^32 − 1)`.
    This is why (2) and (3) are stated for `d ≤ 32`. -/
theorem fromRing_toRing_parts_fails_at_depth_33 :
    Valid 33 ⟨0, 2 ^ 33 - 1, 2 ^ 33 - 1⟩ ∧ toRingParts 33 ⟨0, 2 ^ 33 - 1, 2 ^ 33 - 1⟩ = some 0 ∧
    fromRingParts 33 exactRI 0 = some ⟨0, 2 ^ 32 - 1, 2 ^ 32 - 1⟩ := by decide +kernel

#print axioms fromRing_toRing
#print axioms toRing_fromRing
#print axioms ring_order
#print axioms ring_bijection
#print axioms fromRing_toRing_parts_fails_at_depth_33

end Hpx.RingBij
