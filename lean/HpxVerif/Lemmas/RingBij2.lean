import HpxVerif.Lemmas.RingBij

/-!
# NESTED <-> RING conversion, level of parts: the two round trips and the RING order
-/

namespace Hpx.RingBij
open Hpx Hpx.Layer

/-- column / row of the base cell in the `(I, J)` frame used by `from_ring` in the equatorial region -/
def eqI0 (k m : Nat) (neg : Bool) : Nat :=
  match k with
  | 0 => m + 1
  | 1 => if m = 0 && neg then 4 else m
  | _ => m
def eqJ0 (k m : Nat) (neg : Bool) : Nat :=
  match k with
  | 0 => 4 - m
  | 1 => if m = 0 && neg then 0 else 4 - m
  | _ => 3 - m

theorem depth0_eq : ∀ k, k < 3 → ∀ m, m < 4 → ∀ neg, depth0HashUnsafe (eqI0 k m neg) (eqJ0 k m neg) = 4 * k + m := by
  decide

theorem eqI0_lt (k m : Nat) (neg : Bool) (hk : k < 3) (hm : m < 4) : eqI0 k m neg < 256 ∧ eqJ0 k m neg < 256 := by
  have hm' : m = 0 ∨ m = 1 ∨ m = 2 ∨ m = 3 := by omega
  have hk' : k = 0 ∨ k = 1 ∨ k = 2 := by omega
  rcases hk' with rfl | rfl | rfl <;> rcases hm' with rfl | rfl | rfl | rfl <;> cases neg <;> decide

/-- linear description of `xNat`: only base cell 4 has cells whose centre abscissa wraps around -/
theorem xNat_spec (ns k m i j : Nat) (hk : k < 3) (hm : m < 4) (hj : j < ns) :
    (k = 1 ∧ m = 0 ∧ i < j ∧ xNat ns ⟨4 * k + m, i, j⟩ + j = i + 8 * ns) ∨
    (¬ (k = 1 ∧ m = 0 ∧ i < j) ∧
      xNat ns ⟨4 * k + m, i, j⟩ + j = i + (2 * m + (if k = 1 then 0 else 1)) * ns) := by
  unfold xNat
  dsimp only
  have h1 : (4 * k + m) % 4 = m := by omega
  have h2 : (4 * k + m) / 4 = k := by omega
  rw [h1, h2]
  have hm' : m = 0 ∨ m = 1 ∨ m = 2 ∨ m = 3 := by omega
  have hk' : k = 0 ∨ k = 1 ∨ k = 2 := by omega
  rcases hk' with rfl | rfl | rfl <;> rcases hm' with rfl | rfl | rfl | rfl
  all_goals simp only [Nat.reduceMul, Nat.reduceAdd, Nat.reduceEqDiff, if_false, if_true]
  all_goals split
  all_goals simp only [false_and, true_and, false_or, not_false_eq_true]
  all_goals omega

theorem roundtrip_eq (d : Nat) (RI : Nat → Nat) (k m i j t : Nat) (hk : k < 3) (hm : m < 4)
    (hi : i < nside d) (hj : j < nside d)
    (ht : t + (i + j + 2) = (k + 2) * nside d) (h1 : nside d ≤ t) (h2 : t + 2 ≤ 3 * nside d) :
    fromRingParts d RI (xNat (nside d) ⟨4 * k + m, i, j⟩ / 2 + (firstHashInEqr d + 4 * ((t - nside d) * nside d)))
      = some ⟨4 * k + m, i, j⟩ := by
  obtain ⟨-, hp, hx⟩ := toRing_eq d k m i j t hk hm hi hj ht h1 h2
  conv_rhs => rw [← depth0_eq k hk m hm (decide (i < j))]
  have hX := xNat_spec (nside d) k m i j hk hm hj
  have hpar := nside_par d
  apply fromRing_eq d RI (t - nside d) _ _ _ i j (by omega) (by omega) hi hj
    (eqI0_lt k m _ hk hm).1 (eqI0_lt k m _ hk hm).2
  all_goals
    generalize xNat (nside d) ⟨4 * k + m, i, j⟩ = X at *
    generalize nside d = ns at *
    have hm' : m = 0 ∨ m = 1 ∨ m = 2 ∨ m = 3 := by omega
    have hk' : k = 0 ∨ k = 1 ∨ k = 2 := by omega
    rcases hk' with rfl | rfl | rfl <;> rcases hm' with rfl | rfl | rfl | rfl
    all_goals simp only [eqI0, eqJ0, Nat.reduceMul, Nat.reduceAdd, Nat.reduceEqDiff, Nat.reduceSub, Bool.false_and, Bool.true_and, if_false, if_true, Bool.false_eq_true,
      decide_eq_true_eq, false_and, true_and, false_or, not_false_eq_true, and_false,
      decide_true, decide_false] at hX ⊢
    all_goals (try split)
    all_goals omega
end Hpx.RingBij
