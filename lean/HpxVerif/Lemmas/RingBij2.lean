import HpxVerif.Lemmas.RingBij

/-!
# NESTED <-> RING conversion, level of parts: the two round trips and the RING order
-/

namespace Hpx.RingBij
open Hpx Hpx.Layer

/-- column / row of the base cell in the `(I, J)` frame used by `from_ring` in the equatorial region -/
def eqI0 (k m : Nat) (neg : Bool) : Nat :=
  match k with
  | 0 => m + 1
  | 1 => if m = 0 && neg then 4 else m
  | _ => m
def eqJ0 (k m : Nat) (neg : Bool) : Nat :=
  match k with
  | 0 => 4 - m
  | 1 => if m = 0 && neg then 0 else 4 - m
  | _ => 3 - m

theorem depth0_eq : ∀ k, k < 3 → ∀ m, m < 4 → ∀ neg, depth0HashUnsafe (eqI0 k m neg) (eqJ0 k m neg) = 4 * k + m := by
  decide

theorem eqI0_lt (k m : Nat) (neg : Bool) (hk : k < 3) (hm : m < 4) : eqI0 k m neg < 256 ∧ eqJ0 k m neg < 256 := by
  have hm' : m = 0 ∨ m = 1 ∨ m = 2 ∨ m = 3 := by omega
  have hk' : k = 0 ∨ k = 1 ∨ k = 2 := by omega
  rcases hk' with rfl | rfl | rfl <;> rcases hm' with rfl | rfl | rfl | rfl <;> cases neg <;> decide

/-- linear description of `xNat`: only base cell 4 has cells whose centre abscissa wraps around -/
theorem xNat_spec (ns k m i j : Nat) (hk : k < 3) (hm : m < 4) (hj : j < ns) :
    (k = 1 ∧ m = 0 ∧ i < j ∧ xNat ns ⟨4 * k + m, i, j⟩ + j = i + 8 * ns) ∨
    (¬ (k = 1 ∧ m = 0 ∧ i < j) ∧
      xNat ns ⟨4 * k + m, i, j⟩ + j = i + (2 * m + (if k = 1 then 0 else 1)) * ns) := by
  unfold xNat
  dsimp only
  have h1 : (4 * k + m) % 4 = m := by omega
  have h2 : (4 * k + m) / 4 = k := by omega
  rw [h1, h2]
  have hm' : m = 0 ∨ m = 1 ∨ m = 2 ∨ m = 3 := by omega
  have hk' : k = 0 ∨ k = 1 ∨ k = 2 := by omega
  rcases hk' with rfl | rfl | rfl <;> rcases hm' with rfl | rfl | rfl | rfl
  all_goals simp only [Nat.reduceMul, Nat.reduceAdd, Nat.reduceEqDiff, if_false, if_true]
  all_goals split
  all_goals simp only [false_and, true_and, false_or, not_false_eq_true]
  all_goals omega

theorem roundtrip_eq (d : Nat) (RI : Nat → Nat) (k m i j t : Nat) (hk : k < 3) (hm : m < 4)
    (hi : i < nside d) (hj : j < nside d)
    (ht : t + (i + j + 2) = (k + 2) * nside d) (h1 : nside d ≤ t) (h2 : t + 2 ≤ 3 * nside d) :
    fromRingParts d RI (xNat (nside d) ⟨4 * k + m, i, j⟩ / 2 + (firstHashInEqr d + 4 * ((t - nside d) * nside d)))
      = some ⟨4 * k + m, i, j⟩ := by
  obtain ⟨-, hp, hx⟩ := toRing_eq d k m i j t hk hm hi hj ht h1 h2
  conv_rhs => rw [← depth0_eq k hk m hm (decide (i < j))]
  have hX := xNat_spec (nside d) k m i j hk hm hj
  have hpar := nside_par d
  apply fromRing_eq d RI (t - nside d) _ _ _ i j (by omega) (by omega) hi hj
    (eqI0_lt k m _ hk hm).1 (eqI0_lt k m _ hk hm).2
  all_goals
    generalize xNat (nside d) ⟨4 * k + m, i, j⟩ = X at *
    generalize nside d = ns at *
    have hm' : m = 0 ∨ m = 1 ∨ m = 2 ∨ m = 3 := by omega
    have hk' : k = 0 ∨ k = 1 ∨ k = 2 := by omega
    rcases hk' with rfl | rfl | rfl <;> rcases hm' with rfl | rfl | rfl | rfl
    all_goals simp only [eqI0, eqJ0, Nat.reduceMul, Nat.reduceAdd, Nat.reduceEqDiff, Nat.reduceSub, Bool.false_and, Bool.true_and, if_false, if_true, Bool.false_eq_true,
      decide_eq_true_eq, false_and, true_and, false_or, not_false_eq_true, and_false,
      decide_true, decide_false] at hX ⊢
    all_goals (try split)
    all_goals omega
/-! ## rings: first number, length, rank in the ring -/

/-- first RING number of ring `t` (`t = 0 … 4·ns − 2`; `ringStart ns (4·ns − 1) = 12·ns²`) -/
def ringStart (ns t : Nat) : Nat :=
  if t < ns then tri4 t
  else if t + 1 < 3 * ns then 2 * (ns * ns) + 2 * ns + 4 * ((t - ns) * ns)
  else 12 * (ns * ns) - tri4 (4 * ns - 1 - t)

/-- number of cells of ring `t` -/
def ringLen (ns t : Nat) : Nat :=
  if t < ns then 4 * (t + 1) else if t + 1 < 3 * ns then 4 * ns else 4 * (4 * ns - 1 - t)

/-- rank of a cell inside its ring -/
def inRing (ns : Nat) (p : HashParts) : Nat :=
  let t := ringOf ns p
  if t < ns then (ns - 1 - p.j) + (t + 1) * (p.d0h % 4)
  else if t + 1 < 3 * ns then xNat ns p / 2
  else p.i + (p.i + p.j + 1) * (p.d0h % 4)

theorem ringStart_succ (ns t : Nat) (hns : 0 < ns) (ht : t + 1 < 4 * ns) :
    ringStart ns (t + 1) = ringStart ns t + ringLen ns t := by
  unfold ringStart ringLen
  have h3 := Nat.le_mul_self ns
  by_cases c1 : t + 1 < ns
  · rw [if_pos c1, if_pos (by omega), if_pos (by omega), tri4_succ]
  by_cases c2 : t + 1 = ns
  · subst c2
    rw [if_neg (by omega), if_pos (by omega), if_pos (by omega), if_pos (by omega), Nat.sub_self, Nat.zero_mul,
      ← tri4_succ, tri4_eq (t + 1)]
    omega
  by_cases c3 : t + 2 < 3 * ns
  · rw [if_neg (by omega), if_pos (by omega), if_neg (by omega), if_pos (by omega), if_neg (by omega),
      if_pos (by omega)]
    have : t + 1 - ns = (t - ns) + 1 := by omega
    rw [this, Nat.add_mul]; omega
  by_cases c4 : t + 2 = 3 * ns
  · rw [if_neg (by omega), if_neg (by omega), if_neg (by omega), if_pos (by omega), if_neg (by omega),
      if_pos (by omega)]
    have e1 : 4 * ns - 1 - (t + 1) = ns := by omega
    have e2 : t - ns = 2 * ns - 2 := by omega
    rw [e1, e2, tri4_eq, Nat.sub_mul]
    have : 2 * ns ≤ 2 * ns * ns := by rw [Nat.mul_assoc]; omega
    have : 2 * ns * ns = 2 * (ns * ns) := by rw [Nat.mul_assoc]
    omega
  · rw [if_neg (by omega), if_neg (by omega), if_neg (by omega), if_neg (by omega), if_neg (by omega),
      if_neg (by omega)]
    have e1 : 4 * ns - 1 - t = (4 * ns - 1 - (t + 1)) + 1 := by omega
    rw [e1, tri4_succ]
    have : tri4 (4 * ns - 1 - (t + 1) + 1) ≤ tri4 ns := tri4_mono (by omega)
    rw [tri4_succ, tri4_eq ns] at this
    omega
theorem ringStart_mono (ns : Nat) (hns : 0 < ns) {t t' : Nat} (h : t ≤ t') (ht' : t' < 4 * ns) :
    ringStart ns t ≤ ringStart ns t' := by
  induction t' with
  | zero => have : t = 0 := by omega
            subst this; exact Nat.le_refl _
  | succ n ih =>
    by_cases c : t = n + 1
    · subst c; exact Nat.le_refl _
    · have := ih (by omega) (by omega)
      rw [ringStart_succ ns n hns (by omega)]; omega

theorem ringStart_next (ns : Nat) (hns : 0 < ns) {t t' : Nat} (h : t < t') (ht' : t' < 4 * ns) :
    ringStart ns t + ringLen ns t ≤ ringStart ns t' := by
  rw [← ringStart_succ ns t hns (by omega)]
  exact ringStart_mono ns hns (by omega) ht'

theorem ringStart_last (ns : Nat) (hns : 0 < ns) : ringStart ns (4 * ns - 1) = 12 * (ns * ns) := by
  unfold ringStart
  rw [if_neg (by omega), if_neg (by omega), Nat.sub_self]
  rfl

theorem ringOf_mk (ns k m i j : Nat) (hm : m < 4) :
    ringOf ns ⟨4 * k + m, i, j⟩ = (k + 2) * ns - (i + j + 2) := by
  unfold ringOf; dsimp only
  have h2 : (4 * k + m) / 4 = k := by omega
  rw [h2]

/-- **`to_ring` on valid parts**: the RING number is `ringStart t + inRing`, with `t = ringOf` the ring and
    `inRing` the rank in the ring -/
theorem toRing_spec_mk (d k m i j : Nat) (hk : k < 3) (hm : m < 4) (hi : i < nside d) (hj : j < nside d) :
    toRingParts d ⟨4 * k + m, i, j⟩ =
      some (ringStart (nside d) (ringOf (nside d) ⟨4 * k + m, i, j⟩) + inRing (nside d) ⟨4 * k + m, i, j⟩) ∧
    inRing (nside d) ⟨4 * k + m, i, j⟩ < ringLen (nside d) (ringOf (nside d) ⟨4 * k + m, i, j⟩) ∧
    ringOf (nside d) ⟨4 * k + m, i, j⟩ + 1 < 4 * nside d := by
  have hns := nside_pos d
  have h1 : (4 * k + m) % 4 = m := by omega
  have hk' : k = 0 ∨ k = 1 ∨ k = 2 := by omega
  have hm' : m = 0 ∨ m = 1 ∨ m = 2 ∨ m = 3 := by omega
  have hr := ringOf_mk (nside d) k m i j hm
  unfold inRing ringStart ringLen
  dsimp only
  rw [hr, h1]
  by_cases cN : k = 0 ∧ nside d ≤ i + j + 1
  · obtain ⟨rfl, hh⟩ := cN
    have hlt : (0 + 2) * nside d - (i + j + 2) < nside d := by omega
    rw [if_pos hlt, if_pos hlt, if_pos hlt]
    have := toRing_north d m i j hm hi hj hh
    simp only [Nat.mul_zero, Nat.zero_add] at this ⊢
    rw [this]
    have e1 : 2 * nside d - 2 - (i + j) = 2 * nside d - (i + j + 2) := by omega
    have e2 : 2 * nside d - 1 - (i + j) = 2 * nside d - (i + j + 2) + 1 := by omega
    rw [e1, e2]
    refine ⟨by rw [Nat.add_assoc], ?_, by omega⟩
    rcases hm' with rfl | rfl | rfl | rfl <;> omega
  by_cases cS : k = 2 ∧ i + j + 1 ≤ nside d
  · obtain ⟨rfl, hh⟩ := cS
    rw [if_neg (by omega), if_neg (by omega), if_neg (by omega), if_neg (by omega), if_neg (by omega),
      if_neg (by omega)]
    obtain ⟨h5, h6⟩ := toRing_south d m i j hm hh
    have : 4 * 2 + m = 8 + m := by omega
    rw [this, h5, nHash_eq]
    have e1 : 4 * nside d - 1 - ((2 + 2) * nside d - (i + j + 2)) = i + j + 1 := by omega
    rw [e1]
    refine ⟨by rw [Nat.add_assoc], ?_, by omega⟩
    rcases hm' with rfl | rfl | rfl | rfl <;> omega
  · have hle : (k + 2) * nside d ≥ i + j + 2 := by rcases hk' with rfl | rfl | rfl <;> omega
    obtain ⟨t, ht⟩ : ∃ t, t + (i + j + 2) = (k + 2) * nside d := ⟨(k + 2) * nside d - (i + j + 2), by omega⟩
    have e : (k + 2) * nside d - (i + j + 2) = t := by omega
    rw [e]
    have g1 : nside d ≤ t := by rcases hk' with rfl | rfl | rfl <;> omega
    have g2 : t + 2 ≤ 3 * nside d := by rcases hk' with rfl | rfl | rfl <;> omega
    obtain ⟨h5, h6, h7⟩ := toRing_eq d k m i j t hk hm hi hj ht g1 g2
    rw [if_neg (by omega), if_pos (by omega), if_neg (by omega), if_pos (by omega), if_neg (by omega),
      if_pos (by omega), h5, fe_eq]
    refine ⟨by rw [Nat.add_comm], by omega, by omega⟩

/-! ## the specification of `to_ring`, and `from_ring ∘ to_ring = id` -/

theorem valid_mk {d : Nat} {p : HashParts} (hv : Valid d p) :
    ∃ k m, k < 3 ∧ m < 4 ∧ p = ⟨4 * k + m, p.i, p.j⟩ ∧ p.i < nside d ∧ p.j < nside d := by
  obtain ⟨h1, h2, h3⟩ := hv
  refine ⟨p.d0h / 4, p.d0h % 4, by omega, by omega, ?_, by rwa [nside_eq], by rwa [nside_eq]⟩
  cases p; simp only [HashParts.mk.injEq, and_self, and_true]; omega

theorem toRing_spec (d : Nat) (p : HashParts) (hv : Valid d p) :
    toRingParts d p = some (ringStart (nside d) (ringOf (nside d) p) + inRing (nside d) p) ∧
    inRing (nside d) p < ringLen (nside d) (ringOf (nside d) p) ∧ ringOf (nside d) p + 1 < 4 * nside d := by
  obtain ⟨k, m, hk, hm, e, hi, hj⟩ := valid_mk hv
  rw [e]; exact toRing_spec_mk d k m p.i p.j hk hm hi hj

/-- **(1)** `to_ring` never underflows on valid parts, and its result is a RING number of the depth -/
theorem toRingParts_lt (d : Nat) (p : HashParts) (hv : Valid d p) :
    ∃ r, toRingParts d p = some r ∧ r < 12 * 4 ^ d := by
  obtain ⟨h1, h2, h3⟩ := toRing_spec d p hv
  refine ⟨_, h1, ?_⟩
  have hns := nside_pos d
  have := ringStart_next (nside d) hns (t := ringOf (nside d) p) (t' := 4 * nside d - 1) (by omega) (by omega)
  rw [ringStart_last _ hns] at this
  rw [four_pow_eq]; omega

theorem fromRing_spec_mk (d : Nat) (RI : Nat → Nat) (hRI : ExactRI RI) (hd : d ≤ 32) (k m i j : Nat) (hk : k < 3)
    (hm : m < 4) (hi : i < nside d) (hj : j < nside d) :
    fromRingParts d RI
      (ringStart (nside d) (ringOf (nside d) ⟨4 * k + m, i, j⟩) + inRing (nside d) ⟨4 * k + m, i, j⟩)
      = some ⟨4 * k + m, i, j⟩ := by
  have hns := nside_pos d
  have hd' : nside d ≤ 2 ^ 32 := by rw [nside_eq]; exact Nat.pow_le_pow_right (by decide) hd
  have h1 : (4 * k + m) % 4 = m := by omega
  have hk' : k = 0 ∨ k = 1 ∨ k = 2 := by omega
  have hr := ringOf_mk (nside d) k m i j hm
  unfold inRing ringStart
  dsimp only
  rw [hr, h1]
  by_cases cN : k = 0 ∧ nside d ≤ i + j + 1
  · obtain ⟨rfl, hh⟩ := cN
    have hlt : (0 + 2) * nside d - (i + j + 2) < nside d := by omega
    rw [if_pos hlt, if_pos hlt]
    have := fromRing_north d RI hRI ((0 + 2) * nside d - (i + j + 2)) (nside d - 1 - j) m hd' hlt (by omega) hm
    rw [← Nat.add_assoc, this]
    simp only [Nat.mul_zero, Nat.zero_add, Option.some.injEq, HashParts.mk.injEq, true_and]
    omega
  by_cases cS : k = 2 ∧ i + j + 1 ≤ nside d
  · obtain ⟨rfl, hh⟩ := cS
    rw [if_neg (by omega), if_neg (by omega), if_neg (by omega), if_neg (by omega)]
    have := fromRing_south d RI hRI (i + j) i m hd' (by omega) (by omega) hm
    have e1 : 4 * nside d - 1 - ((2 + 2) * nside d - (i + j + 2)) = i + j + 1 := by omega
    rw [e1, ← nHash_eq, ← Nat.add_assoc, this]
    rw [Nat.add_sub_cancel_left]
  · obtain ⟨t, ht⟩ : ∃ t, t + (i + j + 2) = (k + 2) * nside d :=
      ⟨(k + 2) * nside d - (i + j + 2), by rcases hk' with rfl | rfl | rfl <;> omega⟩
    have e : (k + 2) * nside d - (i + j + 2) = t := by omega
    rw [e]
    have g1 : nside d ≤ t := by rcases hk' with rfl | rfl | rfl <;> omega
    have g2 : t + 2 ≤ 3 * nside d := by rcases hk' with rfl | rfl | rfl <;> omega
    rw [if_neg (by omega), if_pos (by omega), if_neg (by omega), if_pos (by omega), ← fe_eq, Nat.add_comm]
    exact roundtrip_eq d RI k m i j t hk hm hi hj ht g1 g2

/-- **(2)** `from_ring ∘ to_ring = id` on valid parts, depth `≤ 32` (beyond, `from_ring` truncates `i`, `j` to `u32`) -/
theorem fromRing_toRing_parts (d : Nat) (RI : Nat → Nat) (hRI : ExactRI RI) (hd : d ≤ 32) (p : HashParts)
    (hv : Valid d p) (r : Nat) (hr : toRingParts d p = some r) : fromRingParts d RI r = some p := by
  obtain ⟨k, m, hk, hm, e, hi, hj⟩ := valid_mk hv
  have h1 := (toRing_spec d p hv).1
  rw [hr] at h1
  cases h1
  rw [e]
  exact fromRing_spec_mk d RI hRI hd k m p.i p.j hk hm hi hj

end Hpx.RingBij
