import HpxVerif.Lemmas.EnvelopePolar2

/-!
# C16 — polar caps: what the envelope does dominate at the cell centres (polar part 3)

`polar_envelope_dominates_at_centres` in full (the value at the CENTRE of every polar-cap cell dominates the four
centre-to-vertex distances) was observed on the code at every depth; over ℝ this file proves the part that does not
need a sharp two-variable estimate:

* `dEc_le_dMinP`: the east/west distance of EVERY cell of the north cap is at most `intercept_npc`
  (`dE ≤ cos(lat)·(δ/σ)·π/4 = δ·π/12·√(6 − σ²) ≤ δ·π/√24 ≤ δ·2/√6 ≤ dMinP δ`);
* `dNc_central_le`, `dSc_central_le`: on the central meridian of the base cell (`t = 0`) the north and south distances
  are latitude differences, and they are at most `intercept_npc` because `σ ↦ arcsin(σ/√6)` is convex
  (the increments of the latitude are largest at the transition latitude); the pole cell is included;
* `c2v_cap_ge_intercept`: the value of the function at a polar position is at least `intercept_npc` (`slope_npc ≥ 0`);
* **`polar_envelope_dominates_plane_partial`** (plane coordinates) and
  **`polar_envelope_dominates_at_centres_partial`** (cells of the NESTED scheme, north base cells `b < 4`, depth `1 … 29`):
  the value at the centre dominates the distances to the E and W vertices of every cell whose centre is strictly inside
  the north cap, and the distances to the N and S vertices of the cells `i = j` (central meridian, pole cell included).
  MISSING here: the N and S vertices of the cells with `i ≠ j` (there the bound is tight to first order in `1/nside` at the
  seam corner next to the transition latitude), and the south cap (mirror image).  Part 5 does the south cap; part 7
  does the N and S vertices of the cells of the inner half of each base cell (`2|i − j| ≤ 2·nside − 2 − i − j`, depth `≥ 3`).
-/

namespace Hpx.EnvelopePolar
open Hpx Hpx.Hash Hpx.Proj Hpx.Cover Hpx.C2V Hpx.C2VReal Hpx.EnvelopeReal Hpx.CellReal Real

/-! ## east and west vertices, every cell -/

theorem dEc_nonneg (δ σ : ℝ) (hδ : 0 ≤ δ) (hσ : 0 < σ) (h : δ ≤ σ) (h1 : σ ≤ 1) : 0 ≤ dEc δ σ := by
  have hpi := Real.pi_pos
  unfold dEc
  have hr0 : 0 ≤ δ / σ := by positivity
  have hr1 : δ / σ ≤ 1 := by rw [div_le_one hσ]; exact h
  have hs0 : 0 ≤ sin (δ / σ * (π / 8)) := Real.sin_nonneg_of_nonneg_of_le_pi (by positivity) (by nlinarith)
  have := Real.arcsin_nonneg.mpr (mul_nonneg (cos_capLat_nonneg (2 - σ) (by linarith) (by linarith)) hs0)
  linarith

/-- `dE ≤ cos(lat)·(δ/σ)·π/4` and `cos(lat) = σ·√(6 − σ²)/3`: `dE² ≤ δ²·π²·(6 − σ²)/144` -/
theorem dEc_sq_le (δ σ : ℝ) (hδ : 0 ≤ δ) (hσ : 0 < σ) (h : δ ≤ σ) (h1 : σ ≤ 1) :
    dEc δ σ ^ 2 ≤ δ ^ 2 * π ^ 2 * (6 - σ ^ 2) / 144 := by
  have hpi := Real.pi_pos
  have hr0 : 0 ≤ δ / σ := by positivity
  have hr1 : δ / σ ≤ 1 := by rw [div_le_one hσ]; exact h
  have hc0 := cos_capLat_nonneg (2 - σ) (by linarith) (by linarith)
  have hs0 : 0 ≤ sin (δ / σ * (π / 8)) := Real.sin_nonneg_of_nonneg_of_le_pi (by positivity) (by nlinarith)
  have hle : dEc δ σ ≤ cos (capLat (2 - σ)) * (δ / σ * (π / 4)) := by
    unfold dEc
    have h2 := arcsin_mul_le (cos (capLat (2 - σ))) (sin (δ / σ * (π / 8))) hc0 (Real.cos_le_one _) hs0
      (Real.sin_le_one _)
    rw [Real.arcsin_sin (by nlinarith) (by nlinarith)] at h2
    linarith
  have h0 := dEc_nonneg δ σ hδ hσ h h1
  have hsq := pow_le_pow_left₀ h0 hle 2
  have hc2 : cos (capLat (2 - σ)) ^ 2 = σ ^ 2 * (6 - σ ^ 2) / 9 := by
    rw [cos_sq_capLat _ (by linarith) (by linarith)]; ring
  rw [mul_pow, hc2] at hsq
  have e : σ ^ 2 * (6 - σ ^ 2) / 9 * (δ / σ * (π / 4)) ^ 2 = δ ^ 2 * π ^ 2 * (6 - σ ^ 2) / 144 := by
    field_simp; ring
  rw [e] at hsq
  exact hsq

/-- **east/west vertices**: for every cell of the north cap the distance centre → E (= W) vertex is at most
    `intercept_npc` -/
theorem dEc_le_dMinP (δ σ : ℝ) (hδ : 0 < δ) (h : δ ≤ σ) (h1 : σ ≤ 1) : dEc δ σ ≤ dMinP δ := by
  have hpi := Real.pi_pos
  have hpi4 := Real.pi_le_four
  have hσ : 0 < σ := by linarith
  have hE := dEc_sq_le δ σ hδ.le hσ h h1
  have hM := dMinP_sq_ge δ hδ.le (by linarith)
  have h0 := dEc_nonneg δ σ hδ.le hσ h h1
  have hm0 := dMinP_nonneg δ hδ.le
  have hδ2 : 0 < δ ^ 2 := by positivity
  have hpi2 : π ^ 2 ≤ 16 := by nlinarith
  -- `dE² ≤ δ²π²/24 ≤ (2/3)δ² ≤ dMinP²`
  have hE2 : dEc δ σ ^ 2 ≤ 2 / 3 * δ ^ 2 := by
    have hσ2 : 0 ≤ σ ^ 2 := by positivity
    have : δ ^ 2 * π ^ 2 * (6 - σ ^ 2) / 144 ≤ δ ^ 2 * 16 * 6 / 144 := by
      apply div_le_div_of_nonneg_right _ (by norm_num)
      have hA : δ ^ 2 * π ^ 2 ≤ δ ^ 2 * 16 := mul_le_mul_of_nonneg_left hpi2 hδ2.le
      have hσ1 : σ ^ 2 ≤ 1 := by nlinarith
      exact mul_le_mul hA (by linarith) (by linarith) (by positivity)
    linarith
  have hM2 : 2 / 3 * δ ^ 2 ≤ dMinP δ ^ 2 := by
    have h6 : 6 - (1 - δ) ^ 2 ≤ 6 := by nlinarith [sq_nonneg (1 - δ)]
    have : dMinP δ ^ 2 * (6 - (1 - δ) ^ 2) ≤ dMinP δ ^ 2 * 6 := mul_le_mul_of_nonneg_left h6 (by positivity)
    linarith
  exact le_of_sq_le_sq (by linarith) hm0

/-! ## north and south vertices on the central meridian -/

theorem inv_sqrt6_nonneg : 0 ≤ 1 / Real.sqrt 6 := by have := sqrt6_pos; positivity

/-- **central meridian, north vertex** (`δ ≤ σ ≤ 1`; `σ = δ`: the pole cell) -/
theorem dNc_central_le (δ σ : ℝ) (hδ : 0 ≤ δ) (h0 : δ ≤ σ) (h1 : σ ≤ 1) : dNc δ 0 σ ≤ dMinP δ := by
  have hc := inv_sqrt6_nonneg
  rw [dNc_central δ σ hδ h0 h1, dMinP_theta, capLat_theta, capLat_theta,
    show 2 - (2 - σ + δ) = σ - δ by ring, show 2 - (2 - σ) = σ by ring]
  obtain ⟨a0, a1⟩ := arg_range 1 (by norm_num) le_rfl
  have := arcsin_incr_mono ((σ - δ) * (1 / Real.sqrt 6)) ((1 - δ) * (1 / Real.sqrt 6)) (δ * (1 / Real.sqrt 6))
    (mul_nonneg (by linarith) hc) (mul_le_mul_of_nonneg_right (by linarith) hc) (mul_nonneg hδ hc)
    (by rw [← add_mul, show 1 - δ + δ = (1 : ℝ) by ring]; linarith)
  rw [← add_mul, ← add_mul, show σ - δ + δ = σ by ring, show 1 - δ + δ = (1 : ℝ) by ring] at this
  unfold theta
  linarith

/-- **central meridian, south vertex** (`σ + δ ≤ 1`) -/
theorem dSc_central_le (δ σ : ℝ) (hδ : 0 ≤ δ) (h0 : 0 ≤ σ) (h1 : σ + δ ≤ 1) : dSc δ 0 σ ≤ dMinP δ := by
  have hc := inv_sqrt6_nonneg
  rw [dSc_central δ σ hδ h0 h1, dMinP_theta, capLat_theta, capLat_theta,
    show 2 - (2 - σ - δ) = σ + δ by ring, show 2 - (2 - σ) = σ by ring]
  obtain ⟨a0, a1⟩ := arg_range 1 (by norm_num) le_rfl
  have := arcsin_incr_mono (σ * (1 / Real.sqrt 6)) ((1 - δ) * (1 / Real.sqrt 6)) (δ * (1 / Real.sqrt 6))
    (mul_nonneg h0 hc) (mul_le_mul_of_nonneg_right (by linarith) hc) (mul_nonneg hδ hc)
    (by rw [← add_mul, show 1 - δ + δ = (1 : ℝ) by ring]; linarith)
  rw [← add_mul, ← add_mul, show 1 - δ + δ = (1 : ℝ) by ring] at this
  unfold theta
  linarith

/-! ## the value of the function at a polar position -/

/-- at a position of the north cap (facet `k`, offset `t`, `|t| ≤ σ`, latitude `≥ tl`) the function returns
    `slope_npc·|t/σ|·π/4 + intercept_npc` -/
theorem c2v_cap_eq (d k : ℕ) (t σ lat : ℝ) (hσ : 0 ≤ σ) (ht : |t| ≤ σ) (hlat : tl ≤ |lat|) :
    c2v (Csts.new d) (capLon k t σ) lat = (Csts.new d : Csts ℝ).slopeNpc * (|t / σ| * (π / 4)) + dMinP (1 / 2 ^ d) := by
  unfold c2v
  rw [if_pos hlat, fold_cap k t σ hσ ht]
  unfold npcEnv
  rw [new_interceptNpc_eq]

theorem c2v_cap_ge_intercept (d k : ℕ) (t σ lat : ℝ) (hσ : 0 ≤ σ) (ht : |t| ≤ σ) (hlat : tl ≤ |lat|) :
    dMinP (1 / 2 ^ d) ≤ c2v (Csts.new d) (capLon k t σ) lat := by
  have hpi := Real.pi_pos
  rw [c2v_cap_eq d k t σ lat hσ ht hlat]
  have := mul_nonneg (new_slopeNpc_nonneg d) (mul_nonneg (abs_nonneg (t / σ)) (by positivity : (0 : ℝ) ≤ π / 4))
  linarith

/-! ## plane coordinates -/

/-- **`polar_envelope_dominates_plane_partial`** (ℝ, every depth `1 … 29`, `δ = 1/2^d`, facet `k < 4`): under the hypotheses
    of `true_c2v_cap` (plane centre `(x, y)` strictly inside the north cap, cell inside the facet), the value of
    `largest_center_to_vertex_distance` at the un-projected centre dominates the distances to the E and W vertices,
    and, when the centre is on the central meridian of the base cell (`x = 2k + 1`), also to the N and S vertices.
    MISSING (w.r.t. `polar_envelope_dominates_at_centres`): N and S vertices when `x ≠ 2k + 1`. -/
theorem polar_envelope_dominates_plane_partial (d : ℕ) (hd1 : 1 ≤ d) (hd2 : d ≤ 29) (k : ℕ) (hk : k < 4) (x y : ℝ)
    (hS : 1 ≤ y - 1 / 2 ^ d) (hN : y + 1 / 2 ^ d ≤ 2) (ht : |x - (2 * k + 1)| + 1 / 2 ^ d ≤ 2 - y)
    (hp : (Num.epsPole : ℝ) < 2 - y - 1 / 2 ^ d ∨ y + 1 / 2 ^ d = 2) :
    ∃ (c pN pS pE pW : ℝ × ℝ) (v : ℝ),
      unproj (α := ℝ) x y = some c ∧ unproj (α := ℝ) x (y + 1 / 2 ^ d) = some pN ∧
      unproj (α := ℝ) x (y - 1 / 2 ^ d) = some pS ∧ unproj (α := ℝ) (x + 1 / 2 ^ d) y = some pE ∧
      unproj (α := ℝ) (x - 1 / 2 ^ d) y = some pW ∧ largestC2V false d c.1 c.2 = some v ∧
      adist c pE ≤ v ∧ adist c pW ≤ v ∧ (x = 2 * k + 1 → adist c pN ≤ v ∧ adist c pS ≤ v) := by
  obtain ⟨hδ0, hδ1⟩ := half_pow_range d hd1
  have heps := epsPole_lt_step d hd2
  have hσδ : 1 / 2 ^ d ≤ 2 - y := by have := abs_nonneg (x - (2 * k + 1)); linarith
  obtain ⟨c, pN, pS, pE, pW, uc, uN, uS, uE, uW, hc, aN, aS, aE, aW⟩ :=
    true_c2v_cap k hk x y (1 / 2 ^ d) hδ0 hS hN ht (by linarith) hp
  obtain ⟨hr1, hr2⟩ := capLat_range y (by linarith) (by linarith)
  have htl := tl_pos
  have hlat : tl ≤ |capLat y| := by rw [abs_of_pos (by linarith)]; exact hr1
  have hge := c2v_cap_ge_intercept d k (x - (2 * k + 1)) (2 - y) (capLat y) (by linarith)
    (by have := abs_nonneg (x - (2 * k + 1)); linarith) hlat
  have hE := dEc_le_dMinP (1 / 2 ^ d) (2 - y) hδ0 hσδ (by linarith)
  refine ⟨c, pN, pS, pE, pW, c2v (Csts.new d) c.1 c.2, uc, uN, uS, uE, uW, ?_, ?_, ?_, ?_⟩
  · rw [c2v_region_choice, if_neg (by omega), if_neg (by omega)]
  · rw [aE, hc]; exact hE.trans hge
  · rw [aW, hc]; exact hE.trans hge
  · intro hx
    rw [aN, aS, hc, hx, sub_self]
    rw [hx, sub_self] at hge
    exact ⟨(dNc_central_le _ _ hδ0.le hσδ (by linarith)).trans hge,
      (dSc_central_le _ _ hδ0.le (by linarith) (by linarith)).trans hge⟩

/-! ## the cells of the NESTED scheme, north cap -/

/-- plane centre of a cell of a north base cell whose centre is strictly inside the cap (`nside ≤ i + j`) -/
theorem north_cap_center (d b i j : ℕ) (hb : b < 4) (hi : i < 2 ^ d) (hj : j < 2 ^ d) (hcap : 2 ^ d ≤ i + j) :
    norm8 (cellCx d b i j) = 2 * (b : ℝ) + 1 + ((i : ℝ) - j) / 2 ^ d ∧
    norm8 (cellCx d b i j - 1 / 2 ^ d) = norm8 (cellCx d b i j) - 1 / 2 ^ d ∧
    1 ≤ cellCy d b i j - 1 / 2 ^ d ∧ cellCy d b i j + 1 / 2 ^ d ≤ 2 ∧
    |norm8 (cellCx d b i j) - (2 * (b : ℝ) + 1)| + 1 / 2 ^ d ≤ 2 - cellCy d b i j ∧
    (1 / 2 ^ d ≤ 2 - cellCy d b i j - 1 / 2 ^ d ∨ cellCy d b i j + 1 / 2 ^ d = 2) ∧
    (i = j → norm8 (cellCx d b i j) = 2 * (b : ℝ) + 1) := by
  obtain ⟨bx, by1⟩ := baseX_north b hb
  have hp := pow_pos' d
  have hi' := cast_lt_pow hi
  have hj' := cast_lt_pow hj
  have hi0 : (0 : ℝ) ≤ i := Nat.cast_nonneg i
  have hj0 : (0 : ℝ) ≤ j := Nat.cast_nonneg j
  have hb0 : (0 : ℝ) ≤ b := Nat.cast_nonneg b
  have hcap' : (2 : ℝ) ^ d ≤ (i : ℝ) + j := by exact_mod_cast hcap
  have hx : cellCx d b i j = 2 * (b : ℝ) + 1 + ((i : ℝ) - j) / 2 ^ d := by unfold cellCx; rw [bx]
  have hy : cellCy d b i j = 1 + ((i : ℝ) + j + 1 - 2 ^ d) / 2 ^ d := by unfold cellCy; rw [by1]
  have hfr : -1 + 1 / (2 : ℝ) ^ d ≤ ((i : ℝ) - j) / 2 ^ d := (frac_bounds d _ (by linarith) (by linarith)).1
  have hδ0 : 0 < 1 / (2 : ℝ) ^ d := by positivity
  have hn8 : norm8 (cellCx d b i j) = cellCx d b i j := norm8_of_nonneg _ (by rw [hx]; linarith)
  have hn8' : norm8 (cellCx d b i j - 1 / 2 ^ d) = cellCx d b i j - 1 / 2 ^ d :=
    norm8_of_nonneg _ (by rw [hx]; linarith)
  -- in units of `1/n`
  have e1 : cellCy d b i j - 1 / 2 ^ d = 1 + ((i : ℝ) + j - 2 ^ d) / 2 ^ d := by rw [hy]; field_simp; ring
  have e2 : cellCy d b i j + 1 / 2 ^ d = 2 - (2 * 2 ^ d - 2 - ((i : ℝ) + j)) / 2 ^ d := by rw [hy]; field_simp; ring
  have e3 : 2 - cellCy d b i j = (2 * 2 ^ d - 1 - ((i : ℝ) + j)) / 2 ^ d := by rw [hy]; field_simp; ring
  refine ⟨by rw [hn8, hx], by rw [hn8, hn8'], ?_, ?_, ?_, ?_, ?_⟩
  · rw [e1]
    have : 0 ≤ ((i : ℝ) + j - 2 ^ d) / 2 ^ d := div_nonneg (by linarith) hp.le
    linarith
  · rw [e2]
    have : 0 ≤ (2 * 2 ^ d - 2 - ((i : ℝ) + j)) / 2 ^ d := div_nonneg (by linarith) hp.le
    linarith
  · rw [hn8, hx, e3, show 2 * (b : ℝ) + 1 + ((i : ℝ) - j) / 2 ^ d - (2 * (b : ℝ) + 1) = ((i : ℝ) - j) / 2 ^ d by ring,
      abs_div, abs_of_pos hp, ← add_div, div_le_div_iff_of_pos_right hp]
    rcases abs_cases ((i : ℝ) - j) with ⟨e, _⟩ | ⟨e, _⟩ <;> rw [e] <;> linarith
  · -- `2n − 2 − i − j` is a natural number: `0` or `≥ 1`
    rcases Nat.eq_or_lt_of_le (show i + j ≤ 2 * 2 ^ d - 2 by omega) with h | h
    · right
      have h' : (i : ℝ) + j = 2 * 2 ^ d - 2 := by
        have : ((i + j : ℕ) : ℝ) = ((2 * 2 ^ d - 2 : ℕ) : ℝ) := by rw [h]
        have h2 : 2 ≤ 2 * 2 ^ d := by have := Nat.one_le_two_pow (n := d); omega
        push_cast [Nat.cast_sub h2] at this
        exact this
      rw [e2, h']; simp
    · left
      have h' : (i : ℝ) + j + 1 ≤ 2 * 2 ^ d - 2 := by
        have h2 : 2 ≤ 2 * 2 ^ d := by have := Nat.one_le_two_pow (n := d); omega
        have : ((i + j + 1 : ℕ) : ℝ) ≤ ((2 * 2 ^ d - 2 : ℕ) : ℝ) := by exact_mod_cast h
        push_cast [Nat.cast_sub h2] at this
        exact this
      rw [e3, ← sub_div, le_div_iff₀ hp, one_div, inv_mul_cancel₀ hp.ne']
      linarith
  · intro hij
    rw [hn8, hx, hij]; simp

/-- **`polar_envelope_dominates_at_centres_partial`** (ℝ, release profile, every depth `1 … 29`, every valid cell of a
    north base cell `b < 4` whose centre is strictly inside the cap: `nside ≤ i + j`).  `center` and `vertices` succeed,
    `largest_center_to_vertex_distance(d, lon, lat)` evaluated at `(lon, lat) = center(d, hash)` returns a value `v` which
    is at least the angular distance from the centre to the E and W vertices and, for the cells of the central meridian
    of the base cell (`i = j`, the pole cell `i = j = nside − 1` included), also to the S and N vertices.
    MISSING: S and N vertices of the cells `i ≠ j`; the south cap (base cells `8 … 11`, mirror image). -/
theorem polar_envelope_dominates_at_centres_partial (cfg : Cfg) (d hash b i j : ℕ) (hd1 : 1 ≤ d) (hd2 : d ≤ 29)
    (hh : hash < Layer.nHash d) (hdec : Layer.decodeHash cfg d hash = some ⟨b, i, j⟩) (hb : b < 4)
    (hi : i < 2 ^ d) (hj : j < 2 ^ d) (hcap : 2 ^ d ≤ i + j) :
    ∃ (c s e n w : ℝ × ℝ) (v : ℝ), center (α := ℝ) cfg d hash = some c ∧
      vertices (α := ℝ) cfg d hash = some [s, e, n, w] ∧ largestC2V false d c.1 c.2 = some v ∧
      adist c e ≤ v ∧ adist c w ≤ v ∧ (i = j → adist c s ≤ v ∧ adist c n ≤ v) := by
  have hb12 : b < 12 := by omega
  obtain ⟨hX, hW, hS, hN, ht, hp, hcen⟩ := north_cap_center d b i j hb hi hj hcap
  have heps := epsPole_lt_step d hd2
  obtain ⟨c, pN, pS, pE, pW, v, uc, uN, uS, uE, uW, hv, bE, bW, bNS⟩ :=
    polar_envelope_dominates_plane_partial d hd1 hd2 b hb (norm8 (cellCx d b i j)) (cellCy d b i j) hS hN ht
      (by rcases hp with h | h
          · left; linarith
          · right; exact h)
  have hy := fun k => vtx_y_range d b i j k hb12 hi hj
  have ec : unprojT (norm8 (cellCx d b i j)) (cellCy d b i j) = c := by
    obtain ⟨_, _, _, c4, c5⟩ := center_ranges d b i j hb12 hi hj
    have ho : 0 < 1 / (2 : ℝ) ^ d := by positivity
    have := unproj_eq (norm8 (cellCx d b i j)) (cellCy d b i j) (by linarith) (by linarith)
    rw [uc] at this; exact (Option.some.inj this).symm
  have eS : unprojT (vtx d b i j 0).1 (vtx d b i j 0).2 = pS := by
    have := unproj_eq (vtx d b i j 0).1 (vtx d b i j 0).2 (hy 0).1 (hy 0).2
    simp only [vtx] at this ⊢
    rw [uS] at this; exact (Option.some.inj this).symm
  have eE : unprojT (vtx d b i j 1).1 (vtx d b i j 1).2 = pE := by
    have := unproj_eq (vtx d b i j 1).1 (vtx d b i j 1).2 (hy 1).1 (hy 1).2
    simp only [vtx] at this ⊢
    rw [uE] at this; exact (Option.some.inj this).symm
  have eN : unprojT (vtx d b i j 2).1 (vtx d b i j 2).2 = pN := by
    have := unproj_eq (vtx d b i j 2).1 (vtx d b i j 2).2 (hy 2).1 (hy 2).2
    simp only [vtx] at this ⊢
    rw [uN] at this; exact (Option.some.inj this).symm
  have eW : unprojT (vtx d b i j 3).1 (vtx d b i j 3).2 = pW := by
    have := unproj_eq (vtx d b i j 3).1 (vtx d b i j 3).2 (hy 3).1 (hy 3).2
    simp only [vtx] at this ⊢
    rw [hW] at this ⊢
    rw [uW] at this; exact (Option.some.inj this).symm
  refine ⟨c, pS, pE, pN, pW, v, ?_, ?_, hv, bE, bW, ?_⟩
  · rw [center_plane cfg d hash b i j hh hdec hb12 hi hj, ec]
  · rw [vertices_plane cfg d hash b i j hh hdec hb12 hi hj, eS, eE, eN, eW]
  · intro hij
    obtain ⟨h1, h2⟩ := bNS (by rw [hcen hij])
    exact ⟨h2, h1⟩

/-! ## examples: the hypotheses are satisfiable -/

/-- depth 2, cell 15 = base cell 0, `(i, j) = (3, 3)`: the pole cell -/
example : ∃ (c s e n w : ℝ × ℝ) (v : ℝ), center (α := ℝ) {} 2 15 = some c ∧
      vertices (α := ℝ) {} 2 15 = some [s, e, n, w] ∧ largestC2V false 2 c.1 c.2 = some v ∧
      adist c e ≤ v ∧ adist c w ≤ v ∧ ((3 : ℕ) = 3 → adist c s ≤ v ∧ adist c n ≤ v) :=
  polar_envelope_dominates_at_centres_partial {} 2 15 0 3 3 (by decide) (by decide) (by decide) (by decide +kernel)
    (by decide) (by decide) (by decide) (by decide)

/-- depth 2, cell 14 = base cell 0, `(i, j) = (2, 3)`: off the central meridian (E and W only) -/
example : ∃ (c s e n w : ℝ × ℝ) (v : ℝ), center (α := ℝ) {} 2 14 = some c ∧
      vertices (α := ℝ) {} 2 14 = some [s, e, n, w] ∧ largestC2V false 2 c.1 c.2 = some v ∧
      adist c e ≤ v ∧ adist c w ≤ v ∧ ((2 : ℕ) = 3 → adist c s ≤ v ∧ adist c n ≤ v) :=
  polar_envelope_dominates_at_centres_partial {} 2 14 0 2 3 (by decide) (by decide) (by decide) (by decide +kernel)
    (by decide) (by decide) (by decide) (by decide)

end Hpx.EnvelopePolar

#print axioms Hpx.EnvelopePolar.dEc_le_dMinP
#print axioms Hpx.EnvelopePolar.dNc_central_le
#print axioms Hpx.EnvelopePolar.dSc_central_le
#print axioms Hpx.EnvelopePolar.polar_envelope_dominates_plane_partial
#print axioms Hpx.EnvelopePolar.polar_envelope_dominates_at_centres_partial
