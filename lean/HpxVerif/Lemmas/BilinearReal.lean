import HpxVerif.Model.Bilinear
import HpxVerif.Lemmas.NumReal

/-!
# C19 — bilinear interpolation: the weighted mean of the cell centres and the structure of the result

Axes.  `hashWithDxDy` returns `(h, dx, dy)` where `dx` is the fractional part of the first grid coordinate (the one
that is incremented by `MW.offsetSe`, i.e. the `i` axis of the cell, growing towards the south-east → north-east
side) and `dy` is the fractional part of the second one (`MW.offsetSw`, the `j` axis).  The centre of the cell of
in-base-cell coordinates `(i, j)` is `(i + ½, j + ½)`; the position is `(i + dx, j + dy)`.

* `bilinear_mean`: corner present, every quadrant, all real `dx dy`: the weighted mean of the four centres is the
  position itself, on both axes (`dx` ↔ `offsetSe`, `dy` ↔ `offsetSw`).
* `weights_missing_eq`: with the corner missing the weights are those of the 4-cell formula in which the weight of
  the corner has been given half and half to the two ordinal neighbours adjacent to it (and the corner slot gets 0).
* `bilinear_mean_missing`: consequently the mean is displaced by `− w_corner/2 · (offsetSe corner, offsetSw corner)`;
  `bilinear_mean_missing_counterexample`: the displacement is not 0 (so the 3-cell mean is *not* the position).
* `bilinear_structure`, `bilinear_none_iff`: what `bilinear` returns, for every `Num` instance.
-/

namespace Hpx.BilinearReal
open Hpx Hpx.Bilinear MW

/-! ## the weights over ℝ -/

theorem c050_real : (c050 : ℝ) = 1 / 2 := lit_050
theorem c075_real : (c075 : ℝ) = 3 / 4 := lit_075
theorem c125_real : (c125 : ℝ) = 5 / 4 := lit_125
theorem c150_real : (c150 : ℝ) = 3 / 2 := lit_150
theorem zero_real : (Num.zero : ℝ) = 0 := by show ((0 : ℕ) : ℝ) = 0; norm_num

/-- `Σ_k w_k · f(slot_k)` -/
def wsum (ws : List ℝ) (sl : List MW) (f : MW → ℝ) : ℝ := (List.zipWith (fun w s => w * f s) ws sl).sum

/-- centre of the neighbour in direction `s` of the cell `(i, j)`, first (`offsetSe`) axis -/
noncomputable def cenI (i : ℝ) (s : MW) : ℝ := i + (s.offsetSe : ℝ) + 1 / 2
/-- centre of the neighbour in direction `s` of the cell `(i, j)`, second (`offsetSw`) axis -/
noncomputable def cenJ (j : ℝ) (s : MW) : ℝ := j + (s.offsetSw : ℝ) + 1 / 2

/-- **`bilinear_mean`**: corner present: the weighted mean of the four cell centres is the position `(i + dx, j + dy)`:
    `dx` is along the `offsetSe` (`i`) axis, `dy` along the `offsetSw` (`j`) axis.  For every quadrant and all real
    offsets (no range condition). -/
theorem bilinear_mean (q : Nat) (hq : q < 4) (i j dx dy : ℝ) :
    wsum (weights q true dx dy) (slots q) (cenI i) = i + dx ∧
    wsum (weights q true dx dy) (slots q) (cenJ j) = j + dy := by
  have h : q = 0 ∨ q = 1 ∨ q = 2 ∨ q = 3 := by omega
  rcases h with rfl | rfl | rfl | rfl <;>
    (simp only [wsum, weights, slots, cenI, cenJ, offsetSe, offsetSw, List.zipWith_cons_cons, List.zipWith_nil_right,
      List.sum_cons, List.sum_nil, c050_real, c150_real]
     constructor <;> (push_cast; ring))

/-- weight that the 4-cell formula gives to the slot of direction `s` -/
noncomputable def wOf (q : Nat) (dx dy : ℝ) (s : MW) : ℝ :=
  ((List.zip (slots q) (weights q true dx dy)).find? (·.1 == s)).elim 0 (·.2)

/-- the two ordinal directions adjacent to a cardinal one -/
def adjacent : MW → MW → Bool
  | S, SE | S, SW | E, SE | E, NE | W, SW | W, NW | N, NE | N, NW => true
  | _, _ => false

/-- **corner missing**: slot by slot, the weights are: 0 for the corner, the 4-cell weight plus half the corner's
    4-cell weight for the two ordinal neighbours adjacent to the corner, the 4-cell weight for the cell itself. -/
theorem weights_missing_eq (q : Nat) (hq : q < 4) (dx dy : ℝ) :
    weights q false dx dy = (slots q).map fun s =>
      if s = corner q then 0
      else if adjacent (corner q) s then wOf q dx dy s + wOf q dx dy (corner q) / 2
      else wOf q dx dy s := by
  have h : q = 0 ∨ q = 1 ∨ q = 2 ∨ q = 3 := by omega
  rcases h with rfl | rfl | rfl | rfl <;>
    simp [weights, slots, corner, adjacent, wOf, c050_real, c075_real, c125_real, c150_real, zero_real] <;>
    refine ⟨?_, ?_⟩ <;> ring

/-- the 4-cell weight of the corner slot -/
theorem wOf_corner (q : Nat) (hq : q < 4) (dx dy : ℝ) :
    wOf q dx dy (corner q) =
      (if q % 2 = 1 then dx - 1 / 2 else 1 / 2 - dx) * (if q / 2 = 1 then dy - 1 / 2 else 1 / 2 - dy) := by
  have h : q = 0 ∨ q = 1 ∨ q = 2 ∨ q = 3 := by omega
  rcases h with rfl | rfl | rfl | rfl <;>
    simp [weights, slots, corner, wOf, c050_real, c150_real]

/-- **`bilinear_mean_missing`**: corner missing (its slot carries the cell itself with weight 0): the weighted mean is
    the position displaced by minus half the corner's 4-cell weight times the corner's offset, on each axis. -/
theorem bilinear_mean_missing (q : Nat) (hq : q < 4) (i j dx dy : ℝ) :
    wsum (weights q false dx dy) (slots q) (fun s => if s = corner q then i + 1 / 2 else cenI i s)
      = i + dx - wOf q dx dy (corner q) / 2 * ((corner q).offsetSe : ℝ) ∧
    wsum (weights q false dx dy) (slots q) (fun s => if s = corner q then j + 1 / 2 else cenJ j s)
      = j + dy - wOf q dx dy (corner q) / 2 * ((corner q).offsetSw : ℝ) := by
  have h : q = 0 ∨ q = 1 ∨ q = 2 ∨ q = 3 := by omega
  rcases h with rfl | rfl | rfl | rfl <;>
    (simp [wsum, weights, slots, corner, wOf, cenI, cenJ, offsetSe, offsetSw, c050_real, c075_real, c125_real,
      c150_real, zero_real]
     constructor <;> ring)

/-- the 3-cell mean is not the position: at the S vertex of the cell (`dx = dy = 0`, quadrant 0, corner S missing)
    the mean of the first coordinate is `i + 1/8`, not `i + 0`. -/
theorem bilinear_mean_missing_counterexample :
    wsum (weights 0 false (0 : ℝ) 0) (slots 0) (fun s => if s = corner 0 then (0 : ℝ) + 1 / 2 else cenI 0 s) = 1 / 8 := by
  simp [wsum, weights, slots, corner, cenI, offsetSe, c050_real, c075_real, zero_real]
  norm_num

/-! ## structure of the result, for every `Num` instance -/

section Structure
variable {α : Type} [Num α]

/-- lookup in the neighbour map, as in the code (`neighbours.get(w)`) -/
def getN (nm : List (MW × Nat)) (w : MW) : Option Nat := (nm.find? (·.1 == w)).map (·.2)

/-- the quadrant `2·(dy > ½) + (dx > ½)` -/
def quad (dx dy : α) : Nat :=
  ((if Num.gt dy (c050 : α) then 1 else 0) <<< 1) + (if Num.gt dx (c050 : α) then 1 else 0)

theorem quad_lt (dx dy : α) : quad dx dy < 4 := by
  unfold quad; split <;> split <;> decide

/-- is the corner neighbour of the quadrant there -/
def cornerPresent (nm : List (MW × Nat)) (q : Nat) : Bool := (getN nm (corner q)).isSome

/-- the cell put in the slot of direction `w` -/
def slotCell (nm : List (MW × Nat)) (h q : Nat) (w : MW) : Option Nat :=
  if w == corner q && !cornerPresent nm q then some h else getN nm w

/-- the last step of `bilinear` -/
def assemble (nm : List (MW × Nat)) (h : Nat) (dx dy : α) : Option (List (Nat × α)) :=
  let q := quad dx dy
  (List.zip (slots q) (weights q (cornerPresent nm q) dx dy)).mapM fun (w, wt) =>
    (slotCell nm h q w).map fun c => (c, wt)

theorem bilinear_eq (cfg : Cfg) (d : Nat) (lon lat : α) :
    bilinear cfg d lon lat =
      match Hash.hashWithDxDy cfg d lon lat with
      | none => none
      | some (h, dx, dy) =>
        match Topo.neighbours cfg d h true with
        | none => none
        | some nm => assemble nm h dx dy := by
  unfold bilinear
  cases Hash.hashWithDxDy cfg d lon lat with
  | none => rfl
  | some t =>
    obtain ⟨h, dx, dy⟩ := t
    dsimp only
    cases Topo.neighbours cfg d h true with
    | none => rfl
    | some nm =>
      dsimp only [assemble]
      congr 1
      funext x
      obtain ⟨w, wt⟩ := x
      simp only [slotCell, cornerPresent, getN, quad, apply_ite (Option.map fun c => (c, wt)), Option.map_some]

omit [Num α] in
/-- `mapM` of a slot-wise optional lookup: succeeds iff every lookup does, and then is the slot-wise map -/
theorem mapM_slots (sc : MW → Option Nat) (h : Nat) (L : List (MW × α)) (l : List (Nat × α)) :
    L.mapM (fun x => (sc x.1).map fun c => (c, x.2)) = some l ↔
      (∀ x ∈ L, (sc x.1).isSome) ∧ l = L.map fun x => ((sc x.1).getD h, x.2) := by
  induction L generalizing l with
  | nil => simp only [List.mapM_nil, List.map_nil, List.not_mem_nil, false_imp_iff, implies_true, true_and]
           exact ⟨fun h => (Option.some.inj h).symm, fun h => h ▸ rfl⟩
  | cons a L ih =>
    rw [List.mapM_cons]
    cases hs : sc a.1 with
    | none => simp [hs]
    | some c =>
      cases hm : L.mapM (fun x => (sc x.1).map fun c => (c, x.2)) with
      | none =>
        have := (ih (L.map fun x => ((sc x.1).getD h, x.2))).not.mp (by simp [hm])
        simp only [Option.map_some, Option.bind_eq_bind, Option.bind_some, Option.bind_none, List.mem_cons,
          List.map_cons, hs, Option.getD_some, forall_eq_or_imp, Option.isSome_some, true_and]
        constructor
        · intro h'; cases h'
        · rintro ⟨h1, -⟩; exact absurd ⟨h1, rfl⟩ this
      | some r =>
        obtain ⟨h1, h2⟩ := (ih r).mp hm
        simp only [Option.map_some, Option.bind_eq_bind, Option.bind_some, List.mem_cons,
          List.map_cons, hs, Option.getD_some, forall_eq_or_imp, Option.isSome_some, true_and, ← h2]
        constructor
        · intro h'; cases h'; exact ⟨h1, rfl⟩
        · rintro ⟨-, rfl⟩; rfl

theorem slots_length (q : Nat) : (slots q).length = 4 := by unfold slots; split <;> rfl
theorem weights_length (q : Nat) (p : Bool) (dx dy : α) : (weights q p dx dy).length = 4 := by
  unfold weights; split <;> rfl

/-- **the last step**: `assemble` succeeds iff every slot has a cell, and the result is the slot-wise pairing of the
    cells with `weights q present dx dy`, in order -/
theorem assemble_eq_some_iff (nm : List (MW × Nat)) (h : Nat) (dx dy : α) (l : List (Nat × α)) :
    assemble nm h dx dy = some l ↔
      (∀ w ∈ slots (quad dx dy), (slotCell nm h (quad dx dy) w).isSome) ∧
      l = List.zipWith (fun w wt => ((slotCell nm h (quad dx dy) w).getD h, wt)) (slots (quad dx dy))
            (weights (quad dx dy) (cornerPresent nm (quad dx dy)) dx dy) := by
  unfold assemble
  simp only []
  rw [mapM_slots (slotCell nm h (quad dx dy)) h]
  have hl : (slots (quad dx dy)).length ≤ (weights (quad dx dy) (cornerPresent nm (quad dx dy)) dx dy).length := by
    rw [slots_length, weights_length]
  have hz : ∀ P : MW → Prop, (∀ x ∈ (slots (quad dx dy)).zip (weights (quad dx dy) (cornerPresent nm (quad dx dy)) dx dy),
      P x.1) ↔ ∀ w ∈ slots (quad dx dy), P w := by
    intro P
    conv => rhs; rw [← List.map_fst_zip hl]
    rw [List.forall_mem_map]
  rw [hz (fun w => (slotCell nm h (quad dx dy) w).isSome = true), List.map_zip_eq_zipWith]
  rfl

/-! ### the neighbour map with `include_center = true` has the cell itself under `C` -/

theorem find_filterMap (f : MW → Option (MW × Nat)) (hf : ∀ w x, f w = some x → x.1 = w) (w : MW) :
    ∀ ws : List MW, ws.Nodup → (ws.filterMap f).find? (·.1 == w) = if w ∈ ws then f w else none := by
  intro ws
  induction ws with
  | nil => intro _; rfl
  | cons a ws ih =>
    intro hnd
    have hnd' := List.nodup_cons.mp hnd
    rw [List.filterMap_cons]
    cases hfa : f a with
    | none =>
      simp only [ih hnd'.2, List.mem_cons]
      by_cases hwa : w = a
      · subst hwa; simp [hnd'.1, hfa]
      · simp [hwa]
    | some b =>
      have hb := hf a b hfa
      simp only [List.find?_cons, ih hnd'.2, List.mem_cons]
      by_cases hwa : w = a
      · subst hwa; simp [hb, hfa]
      · have : (b.1 == w) = false := by rw [hb]; exact beq_false_of_ne (Ne.symm hwa)
        simp [this, hwa]

theorem all_nodup : MW.all.Nodup := by decide
theorem mem_all (w : MW) : w ∈ MW.all := by cases w <;> decide

/-- the key of every entry produced by the fold of `edgeCellNeighbours` is one of the folded directions -/
theorem foldlM_keys (g : MW → Option (Option Nat)) (ds : List MW) :
    ∀ (acc r : List (MW × Nat)),
      ds.foldlM (fun acc dir => match g dir with
        | none => none
        | some none => some acc
        | some (some h) => some (acc ++ [(dir, h)])) acc = some r →
      ∀ e ∈ r, e ∈ acc ∨ e.1 ∈ ds := by
  induction ds with
  | nil => intro acc r h e he; simp only [List.foldlM_nil] at h; cases h; exact Or.inl he
  | cons a ds ih =>
    intro acc r h e he
    rw [List.foldlM_cons] at h
    cases hg : g a with
    | none => simp [hg] at h
    | some o =>
      cases o with
      | none =>
        simp only [hg, Option.bind_eq_bind, Option.bind_some] at h
        rcases ih _ _ h e he with h1 | h1
        · exact Or.inl h1
        · exact Or.inr (List.mem_cons_of_mem _ h1)
      | some c =>
        simp only [hg, Option.bind_eq_bind, Option.bind_some] at h
        rcases ih _ _ h e he with h1 | h1
        · rcases List.mem_append.mp h1 with h2 | h2
          · exact Or.inl h2
          · simp only [List.mem_singleton] at h2; subst h2; exact Or.inr (List.mem_cons_self)
        · exact Or.inr (List.mem_cons_of_mem _ h1)

theorem edge_no_center (cfg : Cfg) (d hash : Nat) (l : List (MW × Nat))
    (h : Topo.edgeCellNeighbours cfg d hash = some l) : ∀ e ∈ l, e.1 ≠ C := by
  unfold Topo.edgeCellNeighbours at h
  split at h
  · cases h
  · intro e he
    rcases foldlM_keys _ _ _ _ h e he with h1 | h1
    · cases h1
    · intro hc; rw [hc] at h1; revert h1; decide

theorem inner_no_center (cfg : Cfg) (d hash : Nat) (l : List (MW × Nat))
    (h : Topo.innerCellNeighbours cfg d hash = some l) : ∀ e ∈ l, e.1 ≠ C := by
  unfold Topo.innerCellNeighbours at h
  split at h
  · cases h
  · simp only [] at h
    split at h
    · cases h
    · cases h
      intro e he
      simp only [List.mem_cons, List.not_mem_nil, or_false] at he
      rcases he with rfl | rfl | rfl | rfl | rfl | rfl | rfl | rfl <;> (intro hc; cases hc)

/-- lookups in the map returned by `neighbours … true`: `C` gives the cell itself; any other successful lookup is an
    entry of the map -/
theorem neighbours_center (cfg : Cfg) (d h : Nat) (nm : List (MW × Nat))
    (hN : Topo.neighbours cfg d h true = some nm) : getN nm C = some h ∧ (C, h) ∈ nm := by
  unfold Topo.neighbours at hN
  split at hN
  · cases hN
  · simp only [Option.map_eq_some_iff, if_true] at hN
    obtain ⟨l0, hl0, rfl⟩ := hN
    have hnc : ∀ e ∈ l0, e.1 ≠ C := by
      split at hl0
      · exact edge_no_center _ _ _ _ hl0
      · exact inner_no_center _ _ _ _ hl0
    have hfind : (l0 ++ [(C, h)]).find? (·.1 == C) = some (C, h) := by
      rw [List.find?_append, List.find?_eq_none.mpr (by intro e he; simpa using hnc e he)]
      rfl
    have := find_filterMap (fun w => (l0 ++ [(C, h)]).find? (·.1 == w))
      (by intro w x hx; simpa using List.find?_some hx) C MW.all all_nodup
    rw [if_pos (mem_all C), hfind] at this
    refine ⟨by unfold getN; rw [this]; rfl, List.mem_of_find?_eq_some this⟩

theorem getN_mem {nm : List (MW × Nat)} {w : MW} {c : Nat} (h : getN nm w = some c) : (w, c) ∈ nm := by
  unfold getN at h
  obtain ⟨x, hx, rfl⟩ := Option.map_eq_some_iff.mp h
  have h1 := List.mem_of_find?_eq_some hx
  have h2 : x.1 = w := by simpa using List.find?_some hx
  rw [← h2]; exact h1

/-! ### the theorems about `bilinear` -/

theorem corner_ne_C (q : Nat) : corner q ≠ C := by unfold corner; split <;> (intro h; cases h)
theorem corner_cardinal (q : Nat) : (corner q).isCardinal = true := by unfold corner; split <;> rfl

/-- a slot is the cell itself, the corner of the quadrant, or an ordinal direction -/
theorem slots_kinds : ∀ q, q < 4 → ∀ w ∈ slots q, w = C ∨ w = corner q ∨ w.isOrdinal = true := by decide

theorem C_mem_slots : ∀ q, q < 4 → C ∈ slots q := by decide
theorem corner_mem_slots : ∀ q, q < 4 → corner q ∈ slots q := by decide

omit [Num α] in
theorem zipWith_fst (c : MW → Nat) : ∀ (ws : List MW) (wts : List α), ws.length = wts.length →
    (List.zipWith (fun w wt => (c w, wt)) ws wts).map (·.1) = ws.map c
  | [], _, _ => by simp
  | _ :: _, [], h => by simp at h
  | w :: ws, wt :: wts, h => by
    simp only [List.zipWith_cons_cons, List.map_cons]
    rw [zipWith_fst c ws wts (by simpa using h)]

omit [Num α] in
theorem zipWith_snd (c : MW → Nat) : ∀ (ws : List MW) (wts : List α), ws.length = wts.length →
    (List.zipWith (fun w wt => (c w, wt)) ws wts).map (·.2) = wts
  | [], [], _ => by simp
  | [], _ :: _, h => by simp at h
  | _ :: _, [], h => by simp at h
  | w :: ws, wt :: wts, h => by
    simp only [List.zipWith_cons_cons, List.map_cons]
    rw [zipWith_snd c ws wts (by simpa using h)]

theorem slotCell_C (nm : List (MW × Nat)) (h q : Nat) (hC : getN nm C = some h) : slotCell nm h q C = some h := by
  unfold slotCell
  have : (C == corner q) = false := beq_false_of_ne (Ne.symm (corner_ne_C q))
  simp [this, hC]

theorem slotCell_corner (nm : List (MW × Nat)) (h q : Nat) : (slotCell nm h q (corner q)).isSome = true := by
  unfold slotCell cornerPresent
  cases hg : getN nm (corner q) <;> simp

theorem slotCell_ordinal (nm : List (MW × Nat)) (h q : Nat) (w : MW) (hw : w.isOrdinal = true) :
    slotCell nm h q w = getN nm w := by
  unfold slotCell
  have : (w == corner q) = false := by
    apply beq_false_of_ne
    intro hc
    have := corner_cardinal q
    rw [← hc] at this
    cases w <;> simp_all [MW.isOrdinal, MW.isCardinal]
  simp [this]

/-- **`bilinear_structure`** (every `Num` instance).  Whenever `bilinear` returns `some l`: `hashWithDxDy` returned
    `(h, dx, dy)`, `neighbours h` (centre included) returned a map `nm`, and with `q` the quadrant of `(dx, dy)` and
    `present` = "the corner neighbour of `q` is in `nm`":
    * `l` has 4 entries, its weights are `weights q present dx dy` in order, its cells are `cell` of `slots q` in order;
    * the slot `C` (always one of the four) carries `h`, so `h` occurs in `l`;
    * every slot `w` carries either `h` (only when `w` is the corner and it is missing) or the entry of `nm` in
      direction `w`. -/
theorem bilinear_structure (cfg : Cfg) (d : Nat) (lon lat : α) (l : List (Nat × α))
    (hb : bilinear cfg d lon lat = some l) :
    ∃ h dx dy nm, Hash.hashWithDxDy cfg d lon lat = some (h, dx, dy) ∧ Topo.neighbours cfg d h true = some nm ∧
      ∃ cell : MW → Nat,
        l = List.zipWith (fun w wt => (cell w, wt)) (slots (quad dx dy))
              (weights (quad dx dy) (cornerPresent nm (quad dx dy)) dx dy) ∧
        l.length = 4 ∧
        l.map (·.2) = weights (quad dx dy) (cornerPresent nm (quad dx dy)) dx dy ∧
        l.map (·.1) = (slots (quad dx dy)).map cell ∧
        C ∈ slots (quad dx dy) ∧ cell C = h ∧ h ∈ l.map (·.1) ∧
        ∀ w ∈ slots (quad dx dy),
          (w = corner (quad dx dy) ∧ cornerPresent nm (quad dx dy) = false ∧ cell w = h) ∨
          (getN nm w = some (cell w) ∧ (w, cell w) ∈ nm) := by
  rw [bilinear_eq] at hb
  cases hH : Hash.hashWithDxDy cfg d lon lat with
  | none => rw [hH] at hb; cases hb
  | some t =>
    obtain ⟨h, dx, dy⟩ := t
    rw [hH] at hb
    dsimp only at hb
    cases hN : Topo.neighbours cfg d h true with
    | none => rw [hN] at hb; cases hb
    | some nm =>
      rw [hN] at hb
      dsimp only at hb
      obtain ⟨hall, hl⟩ := (assemble_eq_some_iff nm h dx dy l).mp hb
      obtain ⟨hC, _⟩ := neighbours_center cfg d h nm hN
      have hq := quad_lt dx dy
      have hlen : (slots (quad dx dy)).length =
          (weights (quad dx dy) (cornerPresent nm (quad dx dy)) dx dy).length := by
        rw [slots_length, weights_length]
      have hcellC : (slotCell nm h (quad dx dy) C).getD h = h := by rw [slotCell_C nm h _ hC]; rfl
      have hfst := zipWith_fst (α := α) (fun w => (slotCell nm h (quad dx dy) w).getD h) _ _ hlen
      refine ⟨h, dx, dy, nm, rfl, hN, fun w => (slotCell nm h (quad dx dy) w).getD h, hl, ?_, ?_, ?_,
        C_mem_slots _ hq, hcellC, ?_, ?_⟩
      · rw [hl, List.length_zipWith, ← hlen, slots_length]; rfl
      · rw [hl]; exact zipWith_snd _ _ _ hlen
      · rw [hl]; exact hfst
      · rw [hl, hfst]
        exact List.mem_map.mpr ⟨C, C_mem_slots _ hq, hcellC⟩
      · intro w hw
        have hs := hall w hw
        by_cases hc : (w == corner (quad dx dy) && !cornerPresent nm (quad dx dy)) = true
        · left
          simp only [Bool.and_eq_true, beq_iff_eq, Bool.not_eq_true'] at hc
          refine ⟨hc.1, hc.2, ?_⟩
          show (slotCell nm h (quad dx dy) w).getD h = h
          unfold slotCell; simp [hc.1, hc.2]
        · right
          have hsc : slotCell nm h (quad dx dy) w = getN nm w := by unfold slotCell; rw [if_neg hc]
          rw [hsc] at hs
          obtain ⟨c, hc'⟩ := Option.isSome_iff_exists.mp hs
          have : (slotCell nm h (quad dx dy) w).getD h = c := by rw [hsc, hc']; rfl
          show getN nm w = some ((slotCell nm h (quad dx dy) w).getD h) ∧
            (w, (slotCell nm h (quad dx dy) w).getD h) ∈ nm
          rw [this]
          exact ⟨hc', getN_mem hc'⟩

/-- **when `bilinear` panics** (every `Num` instance): exactly when `hashWithDxDy` does, or `neighbours` does, or one of
    the ORDINAL (SE/SW/NE/NW) slots of the quadrant has no neighbour (the `unwrap`s of the code). -/
theorem bilinear_none_iff (cfg : Cfg) (d : Nat) (lon lat : α) :
    bilinear cfg d lon lat = none ↔
      Hash.hashWithDxDy cfg d lon lat = none ∨
      ∃ h dx dy, Hash.hashWithDxDy cfg d lon lat = some (h, dx, dy) ∧
        (Topo.neighbours cfg d h true = none ∨
         ∃ nm, Topo.neighbours cfg d h true = some nm ∧
           ∃ w ∈ slots (quad dx dy), w.isOrdinal = true ∧ getN nm w = none) := by
  rw [bilinear_eq]
  cases hH : Hash.hashWithDxDy cfg d lon lat with
  | none => simp
  | some t =>
    obtain ⟨h, dx, dy⟩ := t
    dsimp only
    cases hN : Topo.neighbours cfg d h true with
    | none => simp [hN]
    | some nm =>
      dsimp only
      obtain ⟨hC, _⟩ := neighbours_center cfg d h nm hN
      have hq := quad_lt dx dy
      have key : assemble nm h dx dy = none ↔
          ∃ w ∈ slots (quad dx dy), w.isOrdinal = true ∧ getN nm w = none := by
        constructor
        · intro hn
          by_contra hcon
          have hall : ∀ w ∈ slots (quad dx dy), (slotCell nm h (quad dx dy) w).isSome := by
            intro w hw
            rcases slots_kinds _ hq w hw with rfl | rfl | ho
            · rw [slotCell_C nm h _ hC]; rfl
            · exact slotCell_corner nm h _
            · rw [slotCell_ordinal nm h _ w ho]
              cases hg : getN nm w with
              | none => exact absurd ⟨w, hw, ho, hg⟩ hcon
              | some c => rfl
          have := (assemble_eq_some_iff nm h dx dy _).mpr ⟨hall, rfl⟩
          rw [hn] at this; cases this
        · rintro ⟨w, hw, ho, hg⟩
          cases ha : assemble nm h dx dy with
          | none => rfl
          | some l =>
            have := ((assemble_eq_some_iff nm h dx dy l).mp ha).1 w hw
            rw [slotCell_ordinal nm h _ w ho, hg] at this
            cases this
      rw [key]
      constructor
      · intro hk; exact Or.inr ⟨h, dx, dy, rfl, Or.inr ⟨nm, hN, hk⟩⟩
      · rintro (hk | ⟨h', dx', dy', he, hk | ⟨nm', he', hk⟩⟩)
        · cases hk
        · cases he; rw [hN] at hk; cases hk
        · cases he; rw [hN] at he'; cases he'; exact hk

end Structure

/-! ### satisfiability: concrete neighbour maps over ℝ, at `(dx, dy) = (¼, ¼)` (quadrant 0, slots `S SE SW C`) -/

theorem quad_quarter : quad (1 / 4 : ℝ) (1 / 4) = 0 := by
  have : Num.gt (1 / 4 : ℝ) (c050 : ℝ) = false := by
    show decide ((c050 : ℝ) < 1 / 4) = false
    rw [c050_real]; norm_num
  unfold quad; rw [this]; rfl

/-- all four cells there: `assemble` succeeds -/
example : ∃ l, assemble (α := ℝ) [(S, 1), (SE, 2), (SW, 3), (C, 0)] 0 (1 / 4) (1 / 4) = some l ∧ l.map (·.1) = [1, 2, 3, 0] := by
  refine ⟨_, (assemble_eq_some_iff _ _ _ _ _).mpr ⟨?_, rfl⟩, ?_⟩
  · rw [quad_quarter]; decide
  · rw [quad_quarter]; rfl

/-- the corner `S` missing: still succeeds, the cell itself stands in the corner slot -/
example : ∃ l, assemble (α := ℝ) [(SE, 2), (SW, 3), (C, 0)] 0 (1 / 4) (1 / 4) = some l ∧ l.map (·.1) = [0, 2, 3, 0] := by
  refine ⟨_, (assemble_eq_some_iff _ _ _ _ _).mpr ⟨?_, rfl⟩, ?_⟩
  · rw [quad_quarter]; decide
  · rw [quad_quarter]; rfl

/-- an ordinal neighbour (`SE`) missing: panic -/
example : assemble (α := ℝ) [(S, 1), (SW, 3), (C, 0)] 0 (1 / 4) (1 / 4) = none := by
  cases ha : assemble (α := ℝ) [(S, 1), (SW, 3), (C, 0)] 0 (1 / 4) (1 / 4) with
  | none => rfl
  | some l =>
    have := ((assemble_eq_some_iff _ _ _ _ l).mp ha).1 SE (by rw [quad_quarter]; decide)
    rw [quad_quarter] at this
    exact absurd this (by decide)

/-- the weighted mean at a concrete point of quadrant 1 (`dx = 0.85`, `dy = 0.34`, cell `(i, j) = (3, 0)`) -/
example : wsum (weights 1 true (17 / 20 : ℝ) (17 / 50)) (slots 1) (cenI 3) = 3 + 17 / 20 :=
  (bilinear_mean 1 (by decide) 3 0 _ _).1

end Hpx.BilinearReal

#print axioms Hpx.BilinearReal.bilinear_mean
#print axioms Hpx.BilinearReal.weights_missing_eq
#print axioms Hpx.BilinearReal.bilinear_mean_missing
#print axioms Hpx.BilinearReal.bilinear_mean_missing_counterexample
#print axioms Hpx.BilinearReal.bilinear_structure
#print axioms Hpx.BilinearReal.bilinear_none_iff
#print axioms Hpx.BilinearReal.neighbours_center
