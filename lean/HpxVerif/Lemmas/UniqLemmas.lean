import HpxVerif.Model.Bits

namespace Hpx

theorem four_pow (d : Nat) : (4 : Nat) ^ d = 2 ^ (2 * d) := by rw [Nat.pow_mul]

theorem shl_two_pow (a k : Nat) : (2 ^ a) <<< k = 2 ^ (a + k) := by
  rw [Nat.shiftLeft_eq, ← Nat.pow_add]

theorem sixteen_shl (d : Nat) : 16 <<< (2 * d) = 2 ^ (2 * d + 4) := by
  rw [show (16 : Nat) = 2 ^ 4 by decide, shl_two_pow]; congr 1; omega

theorem four_shl (d : Nat) : 4 <<< (2 * d) = 2 ^ (2 * d + 2) := by
  rw [show (4 : Nat) = 2 ^ 2 by decide, shl_two_pow]; congr 1; omega

theorem pow_lt_64 {k : Nat} (h : k < 64) : 2 ^ k < 2 ^ 64 := Nat.pow_lt_pow_right (by decide) h

theorem leadingZeros64_of_log {u k : Nat} (hk : k < 64) (h1 : 2 ^ k ≤ u) (h2 : u < 2 ^ (k + 1)) :
    leadingZeros64 u = 63 - k := by
  have hu : u < 2 ^ 64 := Nat.lt_of_lt_of_le h2 (Nat.pow_le_pow_right (by decide) (by omega))
  have hpos : 0 < 2 ^ k := Nat.two_pow_pos k
  have hne : u ≠ 0 := by omega
  unfold leadingZeros64
  rw [Nat.mod_eq_of_lt hu, (Nat.log2_eq_iff hne).2 ⟨h1, h2⟩]
  simp [hne]; omega

end Hpx
