/-
C04 — gluing lemmas, base cells of the south polar cap (generated text, one lemma per ordered pair of base cells):
the keys of two lattice corners are equal iff the corners are glued (`Glue`).
-/
import HpxVerif.Lemmas.TopoNeigh

namespace Hpx.TopoNeigh
open Hpx Hpx.TopoSpec

section
variable (n a c a' c' : Int) (hn : 0 < n) (ha : 0 ≤ a) (ha' : a ≤ n) (hc : 0 ≤ c) (hc' : c ≤ n)
  (hd : 0 ≤ a') (hd' : a' ≤ n) (he : 0 ≤ c') (he' : c' ≤ n)
include hn ha ha' hc hc' hd hd' he he'

local macro "glue_tac" k1:ident k2:ident : tactic =>
  `(tactic| (rw [$k1:ident n a c hn ha ha' hc hc', $k2:ident n a' c' hn hd hd' he he']
             simp only [Prod.mk.injEq, KXn, KXe, KXs, wr, wl, Glue, Nat.reduceDiv, Nat.reduceMod, Nat.reduceAdd,
               Nat.reduceSub]
             constructor <;> intro h <;> first | exact False.elim h | omega))

theorem glue_8_0 : Kp n 8 a c = Kp n 0 a' c' ↔ Glue n 8 0 a c a' c' := by glue_tac Kp_8 Kp_0
theorem glue_8_1 : Kp n 8 a c = Kp n 1 a' c' ↔ Glue n 8 1 a c a' c' := by glue_tac Kp_8 Kp_1
theorem glue_8_2 : Kp n 8 a c = Kp n 2 a' c' ↔ Glue n 8 2 a c a' c' := by glue_tac Kp_8 Kp_2
theorem glue_8_3 : Kp n 8 a c = Kp n 3 a' c' ↔ Glue n 8 3 a c a' c' := by glue_tac Kp_8 Kp_3
theorem glue_8_4 : Kp n 8 a c = Kp n 4 a' c' ↔ Glue n 8 4 a c a' c' := by glue_tac Kp_8 Kp_4
theorem glue_8_5 : Kp n 8 a c = Kp n 5 a' c' ↔ Glue n 8 5 a c a' c' := by glue_tac Kp_8 Kp_5
theorem glue_8_6 : Kp n 8 a c = Kp n 6 a' c' ↔ Glue n 8 6 a c a' c' := by glue_tac Kp_8 Kp_6
theorem glue_8_7 : Kp n 8 a c = Kp n 7 a' c' ↔ Glue n 8 7 a c a' c' := by glue_tac Kp_8 Kp_7
theorem glue_8_8 : Kp n 8 a c = Kp n 8 a' c' ↔ Glue n 8 8 a c a' c' := by glue_tac Kp_8 Kp_8
theorem glue_8_9 : Kp n 8 a c = Kp n 9 a' c' ↔ Glue n 8 9 a c a' c' := by glue_tac Kp_8 Kp_9
theorem glue_8_10 : Kp n 8 a c = Kp n 10 a' c' ↔ Glue n 8 10 a c a' c' := by glue_tac Kp_8 Kp_10
theorem glue_8_11 : Kp n 8 a c = Kp n 11 a' c' ↔ Glue n 8 11 a c a' c' := by glue_tac Kp_8 Kp_11
theorem glue_9_0 : Kp n 9 a c = Kp n 0 a' c' ↔ Glue n 9 0 a c a' c' := by glue_tac Kp_9 Kp_0
theorem glue_9_1 : Kp n 9 a c = Kp n 1 a' c' ↔ Glue n 9 1 a c a' c' := by glue_tac Kp_9 Kp_1
theorem glue_9_2 : Kp n 9 a c = Kp n 2 a' c' ↔ Glue n 9 2 a c a' c' := by glue_tac Kp_9 Kp_2
theorem glue_9_3 : Kp n 9 a c = Kp n 3 a' c' ↔ Glue n 9 3 a c a' c' := by glue_tac Kp_9 Kp_3
theorem glue_9_4 : Kp n 9 a c = Kp n 4 a' c' ↔ Glue n 9 4 a c a' c' := by glue_tac Kp_9 Kp_4
theorem glue_9_5 : Kp n 9 a c = Kp n 5 a' c' ↔ Glue n 9 5 a c a' c' := by glue_tac Kp_9 Kp_5
theorem glue_9_6 : Kp n 9 a c = Kp n 6 a' c' ↔ Glue n 9 6 a c a' c' := by glue_tac Kp_9 Kp_6
theorem glue_9_7 : Kp n 9 a c = Kp n 7 a' c' ↔ Glue n 9 7 a c a' c' := by glue_tac Kp_9 Kp_7
theorem glue_9_8 : Kp n 9 a c = Kp n 8 a' c' ↔ Glue n 9 8 a c a' c' := by glue_tac Kp_9 Kp_8
theorem glue_9_9 : Kp n 9 a c = Kp n 9 a' c' ↔ Glue n 9 9 a c a' c' := by glue_tac Kp_9 Kp_9
theorem glue_9_10 : Kp n 9 a c = Kp n 10 a' c' ↔ Glue n 9 10 a c a' c' := by glue_tac Kp_9 Kp_10
theorem glue_9_11 : Kp n 9 a c = Kp n 11 a' c' ↔ Glue n 9 11 a c a' c' := by glue_tac Kp_9 Kp_11
theorem glue_10_0 : Kp n 10 a c = Kp n 0 a' c' ↔ Glue n 10 0 a c a' c' := by glue_tac Kp_10 Kp_0
theorem glue_10_1 : Kp n 10 a c = Kp n 1 a' c' ↔ Glue n 10 1 a c a' c' := by glue_tac Kp_10 Kp_1
theorem glue_10_2 : Kp n 10 a c = Kp n 2 a' c' ↔ Glue n 10 2 a c a' c' := by glue_tac Kp_10 Kp_2
theorem glue_10_3 : Kp n 10 a c = Kp n 3 a' c' ↔ Glue n 10 3 a c a' c' := by glue_tac Kp_10 Kp_3
theorem glue_10_4 : Kp n 10 a c = Kp n 4 a' c' ↔ Glue n 10 4 a c a' c' := by glue_tac Kp_10 Kp_4
theorem glue_10_5 : Kp n 10 a c = Kp n 5 a' c' ↔ Glue n 10 5 a c a' c' := by glue_tac Kp_10 Kp_5
theorem glue_10_6 : Kp n 10 a c = Kp n 6 a' c' ↔ Glue n 10 6 a c a' c' := by glue_tac Kp_10 Kp_6
theorem glue_10_7 : Kp n 10 a c = Kp n 7 a' c' ↔ Glue n 10 7 a c a' c' := by glue_tac Kp_10 Kp_7
theorem glue_10_8 : Kp n 10 a c = Kp n 8 a' c' ↔ Glue n 10 8 a c a' c' := by glue_tac Kp_10 Kp_8
theorem glue_10_9 : Kp n 10 a c = Kp n 9 a' c' ↔ Glue n 10 9 a c a' c' := by glue_tac Kp_10 Kp_9
theorem glue_10_10 : Kp n 10 a c = Kp n 10 a' c' ↔ Glue n 10 10 a c a' c' := by glue_tac Kp_10 Kp_10
theorem glue_10_11 : Kp n 10 a c = Kp n 11 a' c' ↔ Glue n 10 11 a c a' c' := by glue_tac Kp_10 Kp_11
theorem glue_11_0 : Kp n 11 a c = Kp n 0 a' c' ↔ Glue n 11 0 a c a' c' := by glue_tac Kp_11 Kp_0
theorem glue_11_1 : Kp n 11 a c = Kp n 1 a' c' ↔ Glue n 11 1 a c a' c' := by glue_tac Kp_11 Kp_1
theorem glue_11_2 : Kp n 11 a c = Kp n 2 a' c' ↔ Glue n 11 2 a c a' c' := by glue_tac Kp_11 Kp_2
theorem glue_11_3 : Kp n 11 a c = Kp n 3 a' c' ↔ Glue n 11 3 a c a' c' := by glue_tac Kp_11 Kp_3
theorem glue_11_4 : Kp n 11 a c = Kp n 4 a' c' ↔ Glue n 11 4 a c a' c' := by glue_tac Kp_11 Kp_4
theorem glue_11_5 : Kp n 11 a c = Kp n 5 a' c' ↔ Glue n 11 5 a c a' c' := by glue_tac Kp_11 Kp_5
theorem glue_11_6 : Kp n 11 a c = Kp n 6 a' c' ↔ Glue n 11 6 a c a' c' := by glue_tac Kp_11 Kp_6
theorem glue_11_7 : Kp n 11 a c = Kp n 7 a' c' ↔ Glue n 11 7 a c a' c' := by glue_tac Kp_11 Kp_7
theorem glue_11_8 : Kp n 11 a c = Kp n 8 a' c' ↔ Glue n 11 8 a c a' c' := by glue_tac Kp_11 Kp_8
theorem glue_11_9 : Kp n 11 a c = Kp n 9 a' c' ↔ Glue n 11 9 a c a' c' := by glue_tac Kp_11 Kp_9
theorem glue_11_10 : Kp n 11 a c = Kp n 10 a' c' ↔ Glue n 11 10 a c a' c' := by glue_tac Kp_11 Kp_10
theorem glue_11_11 : Kp n 11 a c = Kp n 11 a' c' ↔ Glue n 11 11 a c a' c' := by glue_tac Kp_11 Kp_11

end

/-- all pairs `(b, b')` with `b` in the south polar cap -/
theorem glue_row2 (n : Int) (b b' : Nat) (a c a' c' : Int) (hn : 0 < n) (hb : b / 4 = 2) (hb' : b' < 12)
    (ha : 0 ≤ a) (ha' : a ≤ n) (hc : 0 ≤ c) (hc' : c ≤ n) (hd : 0 ≤ a') (hd' : a' ≤ n) (he : 0 ≤ c') (he' : c' ≤ n) :
    Kp n b a c = Kp n b' a' c' ↔ Glue n b b' a c a' c' := by
  have hb4 : b = 8 ∨ b = 9 ∨ b = 10 ∨ b = 11 := by omega
  rcases hb4 with rfl | rfl | rfl | rfl
  · exact b12 (P := fun b' => Kp n 8 a c = Kp n b' a' c' ↔ Glue n 8 b' a c a' c') b' hb'
      (glue_8_0 n a c a' c' hn ha ha' hc hc' hd hd' he he') (glue_8_1 n a c a' c' hn ha ha' hc hc' hd hd' he he') (glue_8_2 n a c a' c' hn ha ha' hc hc' hd hd' he he') (glue_8_3 n a c a' c' hn ha ha' hc hc' hd hd' he he')
      (glue_8_4 n a c a' c' hn ha ha' hc hc' hd hd' he he') (glue_8_5 n a c a' c' hn ha ha' hc hc' hd hd' he he') (glue_8_6 n a c a' c' hn ha ha' hc hc' hd hd' he he') (glue_8_7 n a c a' c' hn ha ha' hc hc' hd hd' he he')
      (glue_8_8 n a c a' c' hn ha ha' hc hc' hd hd' he he') (glue_8_9 n a c a' c' hn ha ha' hc hc' hd hd' he he') (glue_8_10 n a c a' c' hn ha ha' hc hc' hd hd' he he') (glue_8_11 n a c a' c' hn ha ha' hc hc' hd hd' he he')
  · exact b12 (P := fun b' => Kp n 9 a c = Kp n b' a' c' ↔ Glue n 9 b' a c a' c') b' hb'
      (glue_9_0 n a c a' c' hn ha ha' hc hc' hd hd' he he') (glue_9_1 n a c a' c' hn ha ha' hc hc' hd hd' he he') (glue_9_2 n a c a' c' hn ha ha' hc hc' hd hd' he he') (glue_9_3 n a c a' c' hn ha ha' hc hc' hd hd' he he')
      (glue_9_4 n a c a' c' hn ha ha' hc hc' hd hd' he he') (glue_9_5 n a c a' c' hn ha ha' hc hc' hd hd' he he') (glue_9_6 n a c a' c' hn ha ha' hc hc' hd hd' he he') (glue_9_7 n a c a' c' hn ha ha' hc hc' hd hd' he he')
      (glue_9_8 n a c a' c' hn ha ha' hc hc' hd hd' he he') (glue_9_9 n a c a' c' hn ha ha' hc hc' hd hd' he he') (glue_9_10 n a c a' c' hn ha ha' hc hc' hd hd' he he') (glue_9_11 n a c a' c' hn ha ha' hc hc' hd hd' he he')
  · exact b12 (P := fun b' => Kp n 10 a c = Kp n b' a' c' ↔ Glue n 10 b' a c a' c') b' hb'
      (glue_10_0 n a c a' c' hn ha ha' hc hc' hd hd' he he') (glue_10_1 n a c a' c' hn ha ha' hc hc' hd hd' he he') (glue_10_2 n a c a' c' hn ha ha' hc hc' hd hd' he he') (glue_10_3 n a c a' c' hn ha ha' hc hc' hd hd' he he')
      (glue_10_4 n a c a' c' hn ha ha' hc hc' hd hd' he he') (glue_10_5 n a c a' c' hn ha ha' hc hc' hd hd' he he') (glue_10_6 n a c a' c' hn ha ha' hc hc' hd hd' he he') (glue_10_7 n a c a' c' hn ha ha' hc hc' hd hd' he he')
      (glue_10_8 n a c a' c' hn ha ha' hc hc' hd hd' he he') (glue_10_9 n a c a' c' hn ha ha' hc hc' hd hd' he he') (glue_10_10 n a c a' c' hn ha ha' hc hc' hd hd' he he') (glue_10_11 n a c a' c' hn ha ha' hc hc' hd hd' he he')
  · exact b12 (P := fun b' => Kp n 11 a c = Kp n b' a' c' ↔ Glue n 11 b' a c a' c') b' hb'
      (glue_11_0 n a c a' c' hn ha ha' hc hc' hd hd' he he') (glue_11_1 n a c a' c' hn ha ha' hc hc' hd hd' he he') (glue_11_2 n a c a' c' hn ha ha' hc hc' hd hd' he he') (glue_11_3 n a c a' c' hn ha ha' hc hc' hd hd' he he')
      (glue_11_4 n a c a' c' hn ha ha' hc hc' hd hd' he he') (glue_11_5 n a c a' c' hn ha ha' hc hc' hd hd' he he') (glue_11_6 n a c a' c' hn ha ha' hc hc' hd hd' he he') (glue_11_7 n a c a' c' hn ha ha' hc hc' hd hd' he he')
      (glue_11_8 n a c a' c' hn ha ha' hc hc' hd hd' he he') (glue_11_9 n a c a' c' hn ha ha' hc hc' hd hd' he he') (glue_11_10 n a c a' c' hn ha ha' hc hc' hd hd' he he') (glue_11_11 n a c a' c' hn ha ha' hc hc' hd hd' he he')

end Hpx.TopoNeigh
