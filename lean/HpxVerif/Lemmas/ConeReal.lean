/-
Real-valued soundness of the cone-coverage decision scheme (C05, C06): the model's classifier at `α := ℝ`,
the haversine `squared_half_segment`, and the triangle inequality on the sphere (Mathlib).
-/
import HpxVerif.Model.Cover
import HpxVerif.Lemmas.NumReal
import HpxVerif.Lemmas.CoverLemmas
import Mathlib.Geometry.Euclidean.Angle.Unoriented.TriangleInequality
import Mathlib.Analysis.InnerProductSpace.PiL2

namespace Hpx.Cover
open Real InnerProductGeometry
open scoped RealInnerProductSpace

/-- the unit vector of `(lon, lat)` -/
noncomputable def vec (lon lat : ℝ) : EuclideanSpace ℝ (Fin 3) :=
  !₂[cos lat * cos lon, cos lat * sin lon, sin lat]

theorem inner_vec (l1 p1 l2 p2 : ℝ) :
    ⟪vec l1 p1, vec l2 p2⟫ = sin p1 * sin p2 + cos p1 * cos p2 * cos (l1 - l2) := by
  simp only [vec, PiLp.inner_apply, Fin.sum_univ_three]
  simp
  rw [cos_sub]; ring

theorem norm_vec (l p : ℝ) : ‖vec l p‖ = 1 := by
  rw [norm_eq_sqrt_real_inner, inner_vec]
  simp
  have := sin_sq_add_cos_sq p
  nlinarith [this]

/-- angular distance between two positions -/
noncomputable def adist (p q : ℝ × ℝ) : ℝ := angle (vec p.1 p.2) (vec q.1 q.2)

theorem adist_comm (p q : ℝ × ℝ) : adist p q = adist q p := angle_comm _ _
theorem adist_nonneg (p q : ℝ × ℝ) : 0 ≤ adist p q := angle_nonneg _ _
theorem adist_le_pi (p q : ℝ × ℝ) : adist p q ≤ π := angle_le_pi _ _
theorem adist_triangle (p q s : ℝ × ℝ) : adist p s ≤ adist p q + adist q s := angle_le_angle_add_angle _ _ _

theorem cos_adist (p q : ℝ × ℝ) :
    cos (adist p q) = sin p.2 * sin q.2 + cos p.2 * cos q.2 * cos (p.1 - q.1) := by
  unfold adist
  rw [cos_angle, norm_vec, norm_vec, inner_vec]; simp

theorem sin_sq_half (x : ℝ) : sin (x / 2) ^ 2 = (1 - cos x) / 2 := by
  have h1 := cos_two_mul (x / 2)
  have h2 := sin_sq_add_cos_sq (x / 2)
  rw [show 2 * (x / 2) = x by ring] at h1
  linarith

/-- `sin²(x/2)` is strictly increasing on `[0, π]` -/
theorem sin_sq_half_lt_iff (x y : ℝ) (hx : 0 ≤ x ∧ x ≤ π) (hy : 0 ≤ y ∧ y ≤ π) :
    sin (x / 2) ^ 2 < sin (y / 2) ^ 2 ↔ x < y := by
  rw [sin_sq_half, sin_sq_half]
  constructor
  · intro h
    rcases lt_or_ge x y with hxy | hxy
    · exact hxy
    · have := (strictAntiOn_cos.le_iff_ge (a := x) (b := y) ⟨hx.1, hx.2⟩ ⟨hy.1, hy.2⟩).mpr hxy
      linarith
  · intro h
    have := cos_lt_cos_of_nonneg_of_le_pi hx.1 hy.2 h
    linarith

theorem num_half : (Num.half : ℝ) = 1 / 2 := lit_050

/-- **haversine**: the model's `shs_computer` at `ℝ` is `sin²(d/2)` of the angular distance `d` -/
theorem shs_real (coneLon coneLat : ℝ) (p : ℝ × ℝ) :
    shs (α := ℝ) coneLon coneLat (Num.cos coneLat) p = sin (adist (coneLon, coneLat) p / 2) ^ 2 := by
  unfold shs C2V.squaredHalfSegment C2V.pow2
  rw [num_half]
  show sin (1 / 2 * (p.2 - coneLat)) * sin (1 / 2 * (p.2 - coneLat)) +
      cos p.2 * cos coneLat * (sin (1 / 2 * (p.1 - coneLon)) * sin (1 / 2 * (p.1 - coneLon))) = _
  rw [sin_sq_half, cos_adist]
  have e1 : sin (1 / 2 * (p.2 - coneLat)) * sin (1 / 2 * (p.2 - coneLat)) = (1 - cos (p.2 - coneLat)) / 2 := by
    rw [← sin_sq_half]; ring_nf
  have e2 : sin (1 / 2 * (p.1 - coneLon)) * sin (1 / 2 * (p.1 - coneLon)) = (1 - cos (p.1 - coneLon)) / 2 := by
    rw [← sin_sq_half]; ring_nf
  rw [e1, e2, cos_sub p.2 coneLat]
  simp only
  rw [show coneLon - p.1 = -(p.1 - coneLon) by ring, cos_neg]
  ring

theorem toShs_real (d : ℝ) : C2V.toSquaredHalfSegment (α := ℝ) d = sin (d / 2) ^ 2 := by
  unfold C2V.toSquaredHalfSegment C2V.pow2
  rw [num_half]
  show sin (1 / 2 * d) * sin (1 / 2 * d) = _
  ring_nf

/-- **skip is sound**: if the classifier's upper test fails (`shs > shs(min(r + D, π))`), no point within `D` of the
    cell centre is within `r` of the cone centre -/
theorem cone_skip_sound (coneLon coneLat r D : ℝ) (c : ℝ × ℝ) (hr : 0 ≤ r) (hD : 0 ≤ D)
    (hskip : Num.le (shs (α := ℝ) coneLon coneLat (Num.cos coneLat) c) (toShsMinMax r D).max = false)
    (q : ℝ × ℝ) (hq : adist c q ≤ D) : r < adist (coneLon, coneLat) q := by
  rw [shs_real] at hskip
  unfold toShsMinMax at hskip
  simp only at hskip
  rw [toShs_real] at hskip
  have hle : ¬ sin (adist (coneLon, coneLat) c / 2) ^ 2 ≤ sin (min (r + D) π / 2) ^ 2 := by
    have : decide (sin (adist (coneLon, coneLat) c / 2) ^ 2 ≤ sin (min (r + D) π / 2) ^ 2) = false := hskip
    simpa using this
  have hm : 0 ≤ min (r + D) π ∧ min (r + D) π ≤ π := ⟨le_min (by linarith) pi_pos.le, min_le_right _ _⟩
  have hlt := (sin_sq_half_lt_iff _ _ hm ⟨adist_nonneg _ _, adist_le_pi _ _⟩).mp (lt_of_not_ge hle)
  have hdpi := adist_le_pi (coneLon, coneLat) c
  have hmin : min (r + D) π = r + D := by
    rcases min_choice (r + D) π with h | h
    · exact h
    · rw [h] at hlt; linarith
  rw [hmin] at hlt
  have htri := adist_triangle (coneLon, coneLat) q c
  rw [adist_comm q c] at htri
  linarith

/-- **full is sound**: if the classifier's lower test succeeds (`shs < shs(r − D)`, `r ≥ D`), every point within `D` of
    the cell centre is strictly within `r` of the cone centre -/
theorem cone_full_sound (coneLon coneLat r D : ℝ) (c : ℝ × ℝ) (hrpi : r ≤ π) (hD : 0 ≤ D)
    (hfull : Num.lt (shs (α := ℝ) coneLon coneLat (Num.cos coneLat) c) (toShsMinMax r D).min = true)
    (q : ℝ × ℝ) (hq : adist c q ≤ D) : adist (coneLon, coneLat) q < r := by
  rw [shs_real] at hfull
  unfold toShsMinMax at hfull
  simp only at hfull
  by_cases hrD : r < D
  · have h1 : Num.lt r D = true := by show decide (r < D) = true; simpa using hrD
    simp only [h1, if_true] at hfull
    have : sin (adist (coneLon, coneLat) c / 2) ^ 2 < 0 := by
      have h2 : decide (sin (adist (coneLon, coneLat) c / 2) ^ 2 < (Num.zero : ℝ)) = true := hfull
      have h3 : (Num.zero : ℝ) = 0 := by show ((0 : ℕ) : ℝ) = 0; norm_num
      rw [h3] at h2; simpa using h2
    exact absurd this (not_lt.mpr (sq_nonneg _))
  · have h1 : Num.lt r D = false := by show decide (r < D) = false; simpa using hrD
    simp only [h1, Bool.false_eq_true, if_false] at hfull
    rw [toShs_real] at hfull
    have hlt' : sin (adist (coneLon, coneLat) c / 2) ^ 2 < sin ((r - D) / 2) ^ 2 := by
      have h2 : decide (sin (adist (coneLon, coneLat) c / 2) ^ 2 < sin ((r - D) / 2) ^ 2) = true := hfull
      simpa using h2
    have hlt := (sin_sq_half_lt_iff _ _ ⟨adist_nonneg _ _, adist_le_pi _ _⟩ ⟨by linarith, by linarith⟩).mp hlt'
    have htri := adist_triangle (coneLon, coneLat) c q
    linarith

/-! ## the classifier, generically -/

section
variable {α : Type} [Num α]

theorem coneClassifier_skip (cfg : Cfg) (lon lat cosl : α) (mm : List (MinMax α)) (d h l : Nat)
    (hk : coneClassifier cfg lon lat cosl mm d h l = some .skip) :
    ∃ c m, Hash.center (α := α) cfg d h = some c ∧ mm[l]? = some m ∧ Num.lt (shs lon lat cosl c) m.min = false ∧
      Num.le (shs lon lat cosl c) m.max = false := by
  unfold coneClassifier at hk
  split at hk
  · simp at hk
  · rename_i c hc
    simp only at hk
    split at hk
    · simp at hk
    · rename_i m hm
      refine ⟨c, m, hc, hm, ?_⟩
      split at hk
      · simp at hk
      · split at hk
        · simp at hk
        · exact ⟨by simpa using ‹¬ Num.lt (shs lon lat cosl c) m.min = true›,
            by simpa using ‹¬ Num.le (shs lon lat cosl c) m.max = true›⟩

theorem coneClassifier_full (cfg : Cfg) (lon lat cosl : α) (mm : List (MinMax α)) (d h l : Nat)
    (hk : coneClassifier cfg lon lat cosl mm d h l = some .full) :
    ∃ c m, Hash.center (α := α) cfg d h = some c ∧ mm[l]? = some m ∧ Num.lt (shs lon lat cosl c) m.min = true := by
  unfold coneClassifier at hk
  split at hk
  · simp at hk
  · rename_i c hc
    simp only at hk
    split at hk
    · simp at hk
    · rename_i m hm
      refine ⟨c, m, hc, hm, ?_⟩
      split at hk
      · assumption
      · split at hk <;> simp at hk

theorem coneClassifier_descend (cfg : Cfg) (lon lat cosl : α) (mm : List (MinMax α)) (d h l : Nat) (fl : Bool)
    (hk : coneClassifier cfg lon lat cosl mm d h l = some (.descend fl)) : fl = false := by
  unfold coneClassifier at hk
  split at hk
  · simp at hk
  · simp only at hk
    split at hk
    · simp at hk
    · split at hk
      · simp at hk
      · split at hk
        · simpa using hk.symm
        · simp at hk
end

/-! ## the scheme over the reals -/

/-- **the cone scheme misses nothing, given the envelope hypothesis** (`H1`: every point of a visited cell is within the
    `D` of its level of the cell centre): every point of the cone lying in the start cell lies in a cell of the output. -/
theorem cone_scheme_no_miss (cfg : Cfg) (lon lat r : ℝ) (hr : 0 ≤ r) (dists : List ℝ) (hD : ∀ D ∈ dists, 0 ≤ D)
    (inCell : Nat → Nat → ℝ × ℝ → Prop) (target ds : Nat)
    (hcover : ∀ d h q, d ≠ target → inCell d h q → inCell (d + 1) (h <<< 2) q ∨ inCell (d + 1) (h <<< 2 ||| 1) q ∨
      inCell (d + 1) (h <<< 2 ||| 2) q ∨ inCell (d + 1) (h <<< 2 ||| 3) q)
    (H1 : ∀ d h c D q, ds ≤ d → Hash.center (α := ℝ) cfg d h = some c → dists[d - ds]? = some D → inCell d h q →
      adist c q ≤ D)
    (fuel root : Nat) (out : List Bmoc.Cell)
    (h : coverRec target (coneClassifier (α := ℝ) cfg lon lat (Num.cos lat) (dists.map (toShsMinMax r))) fuel ds root 0 = some out)
    (q : ℝ × ℝ) (hq : inCell ds root q) (hin : adist (lon, lat) q ≤ r) :
    ∃ c ∈ out, inCell c.depth c.hash q := by
  refine coverRec_no_miss_inv inCell (fun q => adist (lon, lat) q ≤ r) (fun d l => ds ≤ d ∧ l = d - ds) target _
    (fun d l ⟨h1, h2⟩ => ⟨by omega, by omega⟩) hcover ?_ fuel ds root 0 out ⟨Nat.le_refl _, by omega⟩ h q hq hin
  intro d hh l ⟨hds, hl⟩ hk q' hq' hR
  obtain ⟨c, m, hc, hm, _, hmax⟩ := coneClassifier_skip cfg lon lat _ _ d hh l hk
  rw [List.getElem?_map] at hm
  cases hdl : dists[l]? with
  | none => simp [hdl] at hm
  | some D =>
    simp only [hdl, Option.map_some, Option.some.injEq] at hm
    subst hm
    have hD0 : 0 ≤ D := hD D (List.mem_of_getElem? hdl)
    have := cone_skip_sound lon lat r D c hr hD0 hmax q' (H1 d hh c D q' hds hc (by rw [← hl]; exact hdl) hq')
    linarith

/-- **full flags are truthful, given the envelope hypothesis**: every point of a cell flagged full is strictly inside the cone -/
theorem cone_scheme_full_inside (cfg : Cfg) (lon lat r : ℝ) (hrpi : r ≤ π) (dists : List ℝ) (hD : ∀ D ∈ dists, 0 ≤ D)
    (inCell : Nat → Nat → ℝ × ℝ → Prop) (target ds : Nat)
    (H1 : ∀ d h c D q, ds ≤ d → Hash.center (α := ℝ) cfg d h = some c → dists[d - ds]? = some D → inCell d h q →
      adist c q ≤ D)
    (fuel root : Nat) (out : List Bmoc.Cell)
    (h : coverRec target (coneClassifier (α := ℝ) cfg lon lat (Num.cos lat) (dists.map (toShsMinMax r))) fuel ds root 0 = some out)
    (c : Bmoc.Cell) (hc : c ∈ out) (hf : c.full = true) (q : ℝ × ℝ) (hq : inCell c.depth c.hash q) :
    adist (lon, lat) q < r := by
  obtain ⟨l, ⟨hds, hl⟩, hrule⟩ := coverRec_full_rule_inv (fun d l => ds ≤ d ∧ l = d - ds) target _
    (fun d l ⟨h1, h2⟩ => ⟨by omega, by omega⟩) fuel ds root 0 out ⟨Nat.le_refl _, by omega⟩ h c hc hf
  rcases hrule with hk | ⟨_, hk⟩
  · obtain ⟨ctr, m, hctr, hm, hmin⟩ := coneClassifier_full cfg lon lat _ _ _ _ l hk
    rw [List.getElem?_map] at hm
    cases hdl : dists[l]? with
    | none => simp [hdl] at hm
    | some D =>
      simp only [hdl, Option.map_some, Option.some.injEq] at hm
      subst hm
      have hD0 : 0 ≤ D := hD D (List.mem_of_getElem? hdl)
      exact cone_full_sound lon lat r D ctr hrpi hD0 hmin q (H1 _ _ ctr D q hds hctr (by rw [← hl]; exact hdl) hq)
  · exact absurd (coneClassifier_descend cfg lon lat _ _ _ _ l true hk) (by simp)

end Hpx.Cover
