/-
C14 (internal part), for every `delta_depth`: the internal edge of a cell is exactly its ring of border descendants.
Masks, `internal_edge`, `internal_corner`, `internal_edge_part` as explicit lists of `hash·4^dd + interleave x y`.
(The sorted variant is in `EdgeInternal2.lean`.)
-/
import HpxVerif.Model.Topo
import HpxVerif.Lemmas.BitsLemmas
import HpxVerif.Lemmas.UniqLemmas
namespace Hpx.EdgeInternal
open Hpx Hpx.Topo

theorem or_eq_add_of_and_eq_zero (a b : Nat) (h : a &&& b = 0) : a ||| b = a + b := by
  induction a using Nat.strongRecOn generalizing b with
  | _ a ih =>
    by_cases ha : a = 0
    · subst ha; simp
    · have h2 : a / 2 &&& b / 2 = 0 := by rw [← Nat.and_div_two, h]
      have ih' := ih (a / 2) (by omega) (b / 2) h2
      have hd : (a ||| b) / 2 = a / 2 + b / 2 := by rw [Nat.or_div_two, ih']
      have hm1 : ¬ ((a &&& b) % 2 = 1) := by rw [h]; decide
      rw [Nat.and_mod_two_eq_one] at hm1
      have hm2 := @Nat.or_mod_two_eq_one a b
      omega

theorem interleave_eq_add (x y : Nat) : interleave x y = spreadN 32 x + 2 * spreadN 32 y := by
  unfold interleave
  rw [or_eq_add_of_and_eq_zero, Nat.shiftLeft_eq]; · omega
  apply Nat.eq_of_testBit_eq; intro p
  obtain ⟨q, rfl | rfl⟩ := parity_cases p
  · rw [Nat.testBit_and, Nat.testBit_shiftLeft]
    by_cases hq : q = 0
    · subst hq; simp
    · have : 2 * q - 1 = 2 * (q - 1) + 1 := by omega
      rw [this, testBit_spreadN_odd]; simp
  · rw [Nat.testBit_and, testBit_spreadN_odd]; simp

theorem interleave_zero_right (a : Nat) : interleave a 0 = spreadN 32 a := by simp [interleave]
theorem interleave_zero_left (a : Nat) : interleave 0 a = spreadN 32 a <<< 1 := by simp [interleave]

theorem interleave_lt_64 (a b : Nat) : interleave a b < 2 ^ 64 := by
  rw [interleave_eq_add]
  have h1 := three_spreadN_lt 32 a
  have h2 := three_spreadN_lt 32 b
  have : (4:Nat) ^ 32 = 2 ^ 64 := by decide
  omega

theorem interleave_or (a b c d : Nat) : interleave a b ||| interleave c d = interleave (a ||| c) (b ||| d) := by
  apply Nat.eq_of_testBit_eq; intro p
  obtain ⟨q, rfl | rfl⟩ := parity_cases p
  · simp only [Nat.testBit_or, testBit_interleave_even]; cases decide (q < 32) <;> simp
  · simp only [Nat.testBit_or, testBit_interleave_odd]; cases decide (q < 32) <;> simp

theorem interleave_and (a b c d : Nat) : interleave a b &&& interleave c d = interleave (a &&& c) (b &&& d) := by
  apply Nat.eq_of_testBit_eq; intro p
  obtain ⟨q, rfl | rfl⟩ := parity_cases p
  · simp only [Nat.testBit_and, testBit_interleave_even]; cases decide (q < 32) <;> simp
  · simp only [Nat.testBit_and, testBit_interleave_odd]; cases decide (q < 32) <;> simp

theorem interleave_shl (a : Nat) : (interleave a 0 <<< 1) % 2 ^ 64 = interleave 0 a := by
  rw [interleave_zero_right, ← interleave_zero_left, Nat.mod_eq_of_lt (interleave_lt_64 _ _)]

theorem interleave_shr (a : Nat) : interleave 0 a >>> 1 = interleave a 0 := by
  rw [interleave_zero_right, interleave_zero_left, Nat.shiftLeft_shiftRight]

theorem x55_eq : (0x5555555555555555 : Nat) = interleave (2 ^ 32 - 1) 0 := by decide +kernel
theorem xAA_eq : (0xAAAAAAAAAAAAAAAA : Nat) = interleave 0 (2 ^ 32 - 1) := by decide +kernel

theorem x55_shr (dd : Nat) (h : dd ≤ 32) : (0x5555555555555555 : Nat) >>> (64 - 2 * dd) = interleave (2 ^ dd - 1) 0 := by
  rw [x55_eq]
  apply Nat.eq_of_testBit_eq; intro p
  rw [Nat.testBit_shiftRight]
  obtain ⟨q, rfl | rfl⟩ := parity_cases p
  · rw [show 64 - 2 * dd + 2 * q = 2 * (32 - dd + q) by omega, testBit_interleave_even, testBit_interleave_even,
      Nat.testBit_two_pow_sub_one, Nat.testBit_two_pow_sub_one]
    by_cases h1 : q < dd
    · have : 32 - dd + q < 32 := by omega
      have : q < 32 := by omega
      simp [*]
    · have : ¬ (32 - dd + q < 32) := by omega
      simp [*]
  · rw [show 64 - 2 * dd + (2 * q + 1) = 2 * (32 - dd + q) + 1 by omega, testBit_interleave_odd, testBit_interleave_odd]
    simp

theorem xAA_shr (dd : Nat) (h : dd ≤ 32) : (0xAAAAAAAAAAAAAAAA : Nat) >>> (64 - 2 * dd) = interleave 0 (2 ^ dd - 1) := by
  rw [xAA_eq]
  apply Nat.eq_of_testBit_eq; intro p
  rw [Nat.testBit_shiftRight]
  obtain ⟨q, rfl | rfl⟩ := parity_cases p
  · rw [show 64 - 2 * dd + 2 * q = 2 * (32 - dd + q) by omega, testBit_interleave_even, testBit_interleave_even]
    simp
  · rw [show 64 - 2 * dd + (2 * q + 1) = 2 * (32 - dd + q) + 1 by omega, testBit_interleave_odd, testBit_interleave_odd,
      Nat.testBit_two_pow_sub_one, Nat.testBit_two_pow_sub_one]
    by_cases h1 : q < dd
    · have : 32 - dd + q < 32 := by omega
      have : q < 32 := by omega
      simp [*]
    · have : ¬ (32 - dd + q < 32) := by omega
      simp [*]

theorem xFF_shr (dd : Nat) (h : dd ≤ 32) : (0xFFFFFFFFFFFFFFFF : Nat) >>> (64 - 2 * dd) = 4 ^ dd - 1 := by
  rw [show (0xFFFFFFFFFFFFFFFF : Nat) = 2 ^ 64 - 1 by decide, four_pow]
  apply Nat.eq_of_testBit_eq; intro p
  rw [Nat.testBit_shiftRight, Nat.testBit_two_pow_sub_one, Nat.testBit_two_pow_sub_one]
  congr 1; apply propext; omega

/-- the north corner: all `2·dd` low bits set -/
theorem interleave_max (dd : Nat) (h : dd ≤ 32) : interleave (2 ^ dd - 1) (2 ^ dd - 1) = 4 ^ dd - 1 := by
  rw [four_pow]
  apply Nat.eq_of_testBit_eq; intro p
  obtain ⟨q, rfl | rfl⟩ := parity_cases p
  · rw [testBit_interleave_even, Nat.testBit_two_pow_sub_one, Nat.testBit_two_pow_sub_one]
    by_cases h1 : q < dd
    · have : q < 32 := by omega
      have : 2 * q < 2 * dd := by omega
      simp [*]
    · have : ¬ (2 * q < 2 * dd) := by omega
      simp [*]
  · rw [testBit_interleave_odd, Nat.testBit_two_pow_sub_one, Nat.testBit_two_pow_sub_one]
    by_cases h1 : q < dd
    · have : q < 32 := by omega
      have : 2 * q + 1 < 2 * dd := by omega
      simp [*]
    · have : ¬ (2 * q + 1 < 2 * dd) := by omega
      simp [*]

/-! ## 1. masks -/

theorem xyMask_spec (cfg : Cfg) (dd : Nat) (h2 : dd ≤ 32) :
    xyMaskFn cfg dd = some (4 ^ dd - 1) := by
  by_cases h0 : dd = 0
  · subst h0; rfl
  · simp [xyMaskFn, h0, xFF_shr dd h2]

/-- the even bits below `2·dd`: what `0x5555… & xy_mask(dd)` is -/
theorem x55_and (dd : Nat) (h : dd ≤ 32) : (0x5555555555555555 : Nat) &&& (4 ^ dd - 1) = interleave (2 ^ dd - 1) 0 := by
  rw [x55_eq, four_pow]
  apply Nat.eq_of_testBit_eq; intro p
  rw [Nat.testBit_and, Nat.testBit_two_pow_sub_one]
  obtain ⟨q, rfl | rfl⟩ := parity_cases p
  · rw [testBit_interleave_even, testBit_interleave_even, Nat.testBit_two_pow_sub_one, Nat.testBit_two_pow_sub_one]
    by_cases h1 : q < dd
    · have : q < 32 := by omega
      have : 2 * q < 2 * dd := by omega
      simp [*]
    · have : ¬ (2 * q < 2 * dd) := by omega
      simp [*]
  · rw [testBit_interleave_odd, testBit_interleave_odd]
    simp

theorem xAA_and (dd : Nat) (h : dd ≤ 32) : (0xAAAAAAAAAAAAAAAA : Nat) &&& (4 ^ dd - 1) = interleave 0 (2 ^ dd - 1) := by
  rw [xAA_eq, four_pow]
  apply Nat.eq_of_testBit_eq; intro p
  rw [Nat.testBit_and, Nat.testBit_two_pow_sub_one]
  obtain ⟨q, rfl | rfl⟩ := parity_cases p
  · rw [testBit_interleave_even, testBit_interleave_even]
    simp
  · rw [testBit_interleave_odd, testBit_interleave_odd, Nat.testBit_two_pow_sub_one, Nat.testBit_two_pow_sub_one]
    by_cases h1 : q < dd
    · have : q < 32 := by omega
      have : 2 * q + 1 < 2 * dd := by omega
      simp [*]
    · have : ¬ (2 * q + 1 < 2 * dd) := by omega
      simp [*]

/-- `x_mask(dd)`, `dd = 0` included since the repair of the masks -/
theorem xMask_spec0 (cfg : Cfg) (dd : Nat) (h2 : dd ≤ 32) :
    xMaskFn cfg dd = some (interleave (2 ^ dd - 1) 0) := by
  simp [xMaskFn, xyMask_spec cfg dd h2, x55_and dd h2]

theorem yMask_spec0 (cfg : Cfg) (dd : Nat) (h2 : dd ≤ 32) :
    yMaskFn cfg dd = some (interleave 0 (2 ^ dd - 1)) := by
  simp [yMaskFn, xyMask_spec cfg dd h2, xAA_and dd h2]

theorem xMask_spec (cfg : Cfg) (dd : Nat) (_h1 : 1 ≤ dd) (h2 : dd ≤ 32) :
    xMaskFn cfg dd = some (interleave (2 ^ dd - 1) 0) := xMask_spec0 cfg dd h2

theorem yMask_spec (cfg : Cfg) (dd : Nat) (_h1 : 1 ≤ dd) (h2 : dd ≤ 32) :
    yMaskFn cfg dd = some (interleave 0 (2 ^ dd - 1)) := yMask_spec0 cfg dd h2

theorem xMask_eq_spreadN (dd : Nat) (h2 : dd ≤ 32) : interleave (2 ^ dd - 1) 0 = spreadN dd (2 ^ dd - 1) := by
  rw [interleave_zero_right]
  exact spreadN_of_lt (by have := Nat.two_pow_pos dd; omega) h2

/-- the shifted cell number: no overflow, and "or" with anything below `4^dd` is addition -/
theorem hash_shl (hash dd : Nat) (hh : hash < 2 ^ (64 - 2 * dd)) (hd : dd ≤ 32) :
    (hash <<< (2 * dd)) % 2 ^ 64 = hash * 4 ^ dd := by
  rw [Nat.shiftLeft_eq, four_pow]
  apply Nat.mod_eq_of_lt
  calc hash * 2 ^ (2 * dd) < 2 ^ (64 - 2 * dd) * 2 ^ (2 * dd) := Nat.mul_lt_mul_of_pos_right hh (Nat.two_pow_pos _)
    _ = 2 ^ 64 := by rw [← Nat.pow_add]; congr 1; omega

theorem or_eq_add (hash dd v : Nat) (hv : v < 4 ^ dd) : hash * 4 ^ dd ||| v = hash * 4 ^ dd + v := by
  rw [four_pow] at *
  rw [Nat.mul_comm, Nat.two_pow_add_eq_or_of_lt hv]


/-! ## the curve selected for `delta_depth` (LUT build) -/

theorem getZoc_sufficient : ∀ d, d ≤ 29 → ∃ c, getZoc d = some c ∧ d ≤ c.bits := by decide +kernel

theorem bits_le_32 (c : ZocClass) : c.bits ≤ 32 := by cases c <;> decide

theorem zoc_lut (cfg : Cfg) (hb : cfg.bmi = false) (dd : Nat) (hd : dd ≤ 29) :
    ∃ c, Layer.zoc cfg dd = some c ∧ dd ≤ c.bits := by
  simp only [Layer.zoc, hb]; exact getZoc_sufficient dd hd

theorem lut_i02h_interleave (c : ZocClass) (k : Nat) (hk : k < 2 ^ c.bits) : Lut.i02h c k = interleave k 0 := by
  rw [lut_i02h_spec, interleave_zero_right, spreadN_of_lt hk (bits_le_32 c)]

theorem lut_oj2h_interleave (c : ZocClass) (k : Nat) (hk : k < 2 ^ c.bits) : Lut.oj2h c k = interleave 0 k := by
  cases c with
  | empty =>
    have : k = 0 := by simpa [ZocClass.bits] using hk
    subst this; simp [Lut.oj2h, interleave]
  | small | mediu | large =>
    simp only [Lut.oj2h]
    rw [lut_i02h_interleave _ _ hk, interleave_shl]

theorem lut_ij2h_interleave (c : ZocClass) (i j : Nat) (hi : i < 2 ^ c.bits) (hj : j < 2 ^ c.bits) :
    Lut.ij2h c i j = interleave i j := by
  cases c with
  | empty =>
    have hi' : i = 0 := by simpa [ZocClass.bits] using hi
    have hj' : j = 0 := by simpa [ZocClass.bits] using hj
    subst hi' hj'; simp [Lut.ij2h, interleave]
  | small | mediu | large =>
    simp only [Lut.ij2h]
    rw [lut_i02h_interleave _ _ hi, lut_oj2h_interleave _ _ hj, interleave_or]; simp

theorem pow_le_bits {dd : Nat} {c : ZocClass} (h : dd ≤ c.bits) {k : Nat} (hk : k < 2 ^ dd) : k < 2 ^ c.bits :=
  Nat.lt_of_lt_of_le hk (Nat.pow_le_pow_right (by decide) h)

theorem i02hDD_spec (cfg : Cfg) (hb : cfg.bmi = false) (dd k : Nat) (hd : dd ≤ 29) (hk : k < 2 ^ dd) :
    i02hDD cfg dd k = some (interleave k 0) := by
  obtain ⟨c, hc, hdc⟩ := zoc_lut cfg hb dd hd
  simp [i02hDD, hc, hb, lut_i02h_interleave c k (pow_le_bits hdc hk)]

theorem oj2hDD_spec (cfg : Cfg) (hb : cfg.bmi = false) (dd k : Nat) (hd : dd ≤ 29) (hk : k < 2 ^ dd) :
    oj2hDD cfg dd k = some (interleave 0 k) := by
  obtain ⟨c, hc, hdc⟩ := zoc_lut cfg hb dd hd
  simp [oj2hDD, hc, hb, lut_oj2h_interleave c k (pow_le_bits hdc hk)]

/-- value of a descendant: `hash·4^dd + interleave x y` -/
def cellVal (hash dd : Nat) (c : Nat × Nat) : Nat := hash * 4 ^ dd + interleave c.1 c.2

theorem interleave_lt_pow {dd x y : Nat} (hd : dd ≤ 32) (hx : x < 2 ^ dd) (hy : y < 2 ^ dd) : interleave x y < 4 ^ dd :=
  interleave_lt hd hx hy

/-- `h | interleave a b | interleave c d` when the two patterns combine to `(x, y)` -/
theorem or_or_cell (hash dd a b c d x y : Nat) (hd : dd ≤ 32) (hx : x < 2 ^ dd) (hy : y < 2 ^ dd)
    (ex : a ||| c = x) (ey : b ||| d = y) :
    hash * 4 ^ dd ||| interleave a b ||| interleave c d = cellVal hash dd (x, y) := by
  rw [Nat.or_assoc, interleave_or, ex, ey, or_eq_add _ _ _ (interleave_lt hd hx hy)]; rfl

theorem or_cell (hash dd x y : Nat) (hd : dd ≤ 32) (hx : x < 2 ^ dd) (hy : y < 2 ^ dd) :
    hash * 4 ^ dd ||| interleave x y = cellVal hash dd (x, y) := by
  rw [or_eq_add _ _ _ (interleave_lt hd hx hy)]; rfl

theorem mapM_some_of_forall {α β : Type} (g : α → Option β) (f : α → β) (ks : List α)
    (h : ∀ k ∈ ks, g k = some (f k)) : ks.mapM g = some (ks.map f) := by
  induction ks with
  | nil => rfl
  | cons a l ih =>
    rw [List.mapM_cons, h a (by simp), ih (fun k hk => h k (by simp [hk]))]
    rfl

/-! ## 2. `internal_edge` as an explicit list -/

/-- the inner indices `1 .. N−2` of a side (`1..am1` in the code) -/
def ks (dd : Nat) : List Nat := (List.range (2 ^ dd - 1)).drop 1

/-- in-cell coordinates of the ring, in the order of `internal_edge`: south corner, SE side towards east, east corner,
    NE side towards north, north corner, NW side towards west, west corner, SW side back towards south -/
def edgeCoords (dd : Nat) : List (Nat × Nat) :=
  let m := 2 ^ dd - 1
  [(0, 0)] ++ (ks dd).map (fun k => (k, 0)) ++ [(m, 0)] ++ (ks dd).map (fun k => (m, k))
    ++ [(m, m)] ++ (ks dd).map (fun k => (m - k, m)) ++ [(0, m)] ++ (ks dd).map (fun k => (0, m - k))

theorem mem_ks {dd k : Nat} (h : k ∈ ks dd) : 1 ≤ k ∧ k < 2 ^ dd - 1 := by
  unfold ks at h
  rw [List.mem_iff_getElem] at h
  obtain ⟨i, hi, rfl⟩ := h
  simp at hi ⊢
  omega

theorem internalEdge_spec (cfg : Cfg) (hb : cfg.bmi = false) (hash dd : Nat) (h1 : 1 ≤ dd) (hd : dd ≤ 29)
    (hh : hash < 2 ^ (64 - 2 * dd)) :
    internalEdge cfg hash dd = some ((edgeCoords dd).map (cellVal hash dd)) := by
  obtain ⟨c, hc, hdc⟩ := zoc_lut cfg hb dd hd
  have hd32 : dd ≤ 32 := by omega
  have hN : 2 ≤ 2 ^ dd := by
    calc 2 = 2 ^ 1 := rfl
      _ ≤ 2 ^ dd := Nat.pow_le_pow_right (by decide) h1
  have hm : 2 ^ dd - 1 < 2 ^ dd := by omega
  unfold internalEdge
  rw [hc, xMask_spec cfg dd h1 hd32]
  simp only [Option.bind_eq_bind, Option.bind_some, interleave_shl, hash_shl hash dd hh hd32, Nat.one_shiftLeft]
  rw [mapM_some_of_forall _ (fun k => cellVal hash dd (k, 0)), Option.bind_some,
    mapM_some_of_forall _ (fun k => cellVal hash dd (2 ^ dd - 1, k)), Option.bind_some,
    mapM_some_of_forall _ (fun k => cellVal hash dd (2 ^ dd - 1 - k, 2 ^ dd - 1)), Option.bind_some,
    mapM_some_of_forall _ (fun k => cellVal hash dd (0, 2 ^ dd - 1 - k)), Option.bind_some]
  · have e1 : hash * 4 ^ dd = cellVal hash dd (0, 0) := by simp [cellVal, interleave]
    have e2 := or_cell hash dd (2 ^ dd - 1) 0 hd32 hm (by omega)
    have e3 := or_cell hash dd 0 (2 ^ dd - 1) hd32 (by omega) hm
    have e4 := or_or_cell hash dd 0 (2 ^ dd - 1) (2 ^ dd - 1) 0 (2 ^ dd - 1) (2 ^ dd - 1) hd32 hm hm (by simp) (by simp)
    rw [e4, e2, e3]
    conv => lhs; rw [e1]
    simp [edgeCoords, ks, Function.comp_def]
  · intro k hk
    have := mem_ks hk
    rw [oj2hDD_spec cfg hb dd _ hd (by omega), Option.map_some, or_cell hash dd 0 _ hd32 (by omega) (by omega)]
  · intro k hk
    have := mem_ks hk
    rw [i02hDD_spec cfg hb dd _ hd (by omega), Option.map_some,
      or_or_cell hash dd 0 (2 ^ dd - 1) (2 ^ dd - 1 - k) 0 (2 ^ dd - 1 - k) (2 ^ dd - 1) hd32 (by omega) hm (by simp) (by simp)]
  · intro k hk
    have := mem_ks hk
    rw [oj2hDD_spec cfg hb dd _ hd (by omega), Option.map_some,
      or_or_cell hash dd 0 k (2 ^ dd - 1) 0 (2 ^ dd - 1) k hd32 hm (by omega) (by simp) (by simp)]
  · intro k hk
    have := mem_ks hk
    rw [i02hDD_spec cfg hb dd _ hd (by omega), Option.map_some, or_cell hash dd k 0 hd32 (by omega) (by omega)]


/-! ## 3. the ring by index: length, no duplicates, membership, walk -/

/-- coordinates of element number `t` of `internal_edge` (`t < 4(N−1)`) -/
def ringCoord (dd t : Nat) : Nat × Nat :=
  let m := 2 ^ dd - 1
  if t < m then (t, 0) else if t < 2 * m then (m, t - m) else if t < 3 * m then (3 * m - t, m) else (0, 4 * m - t)

theorem two_le_pow {dd : Nat} (h1 : 1 ≤ dd) : 2 ≤ 2 ^ dd :=
  calc 2 = 2 ^ 1 := rfl
    _ ≤ 2 ^ dd := Nat.pow_le_pow_right (by decide) h1

theorem head_map_drop {α : Type} (g : Nat → α) (m : Nat) (hm : 1 ≤ m) (c : α) (hc : c = g 0) :
    [c] ++ ((List.range m).drop 1).map g = (List.range m).map g := by
  obtain ⟨m', rfl⟩ : ∃ m', m = m' + 1 := ⟨m - 1, by omega⟩
  rw [List.range_succ_eq_map, hc]; simp

theorem head_map_drop' {α : Type} (g : Nat → α) (m : Nat) (hm : 1 ≤ m) (c : α) (hc : c = g 0) (rest : List α) :
    [c] ++ (((List.range m).drop 1).map g ++ rest) = (List.range m).map g ++ rest := by
  rw [← List.append_assoc, head_map_drop g m hm c hc]

theorem range_four (m : Nat) : List.range (4 * m) =
    List.range m ++ (List.range m).map (m + ·) ++ (List.range m).map (2 * m + ·) ++ (List.range m).map (3 * m + ·) := by
  rw [show 4 * m = m + m + m + m by omega, List.range_add, List.range_add, List.range_add]
  simp only [show m + m = 2 * m by omega, show 2 * m + m = 3 * m by omega]

theorem edgeCoords_eq (dd : Nat) (h1 : 1 ≤ dd) :
    edgeCoords dd = (List.range (4 * (2 ^ dd - 1))).map (ringCoord dd) := by
  have hN := two_le_pow h1
  have hm : 1 ≤ 2 ^ dd - 1 := by omega
  unfold edgeCoords ks
  simp only []
  simp only [List.append_assoc]
  rw [head_map_drop' (fun k => (k, 0)) _ hm _ rfl, head_map_drop' (fun k => (2 ^ dd - 1, k)) _ hm _ rfl,
    head_map_drop' (fun k => (2 ^ dd - 1 - k, 2 ^ dd - 1)) _ hm (2 ^ dd - 1, 2 ^ dd - 1) rfl,
    head_map_drop (fun k => (0, 2 ^ dd - 1 - k)) _ hm (0, 2 ^ dd - 1) rfl]
  rw [range_four, List.map_append, List.map_append, List.map_append, List.map_map, List.map_map, List.map_map]
  simp only [List.append_assoc]
  congr 1; rotate_left; congr 1; rotate_left; congr 1
  all_goals
    apply List.map_congr_left
    intro k hk
    have := List.mem_range.1 hk
    simp only [ringCoord, Function.comp]
    repeat' split
    all_goals first | rfl | omega | (refine Prod.ext ?_ ?_ <;> simp only [] <;> omega)

theorem ringCoord_cases (dd t : Nat) :
    (t < 2 ^ dd - 1 ∧ ringCoord dd t = (t, 0)) ∨
    (2 ^ dd - 1 ≤ t ∧ t < 2 * (2 ^ dd - 1) ∧ ringCoord dd t = (2 ^ dd - 1, t - (2 ^ dd - 1))) ∨
    (2 * (2 ^ dd - 1) ≤ t ∧ t < 3 * (2 ^ dd - 1) ∧ ringCoord dd t = (3 * (2 ^ dd - 1) - t, 2 ^ dd - 1)) ∨
    (3 * (2 ^ dd - 1) ≤ t ∧ ringCoord dd t = (0, 4 * (2 ^ dd - 1) - t)) := by
  simp only [ringCoord]
  by_cases c1 : t < 2 ^ dd - 1
  · left; exact ⟨c1, by rw [if_pos c1]⟩
  by_cases c2 : t < 2 * (2 ^ dd - 1)
  · right; left; exact ⟨by omega, c2, by rw [if_neg c1, if_pos c2]⟩
  by_cases c3 : t < 3 * (2 ^ dd - 1)
  · right; right; left; exact ⟨by omega, c3, by rw [if_neg c1, if_neg c2, if_pos c3]⟩
  · right; right; right; exact ⟨by omega, by rw [if_neg c1, if_neg c2, if_neg c3]⟩

/-- the explicit ring of border descendants, in the order of `internal_edge` -/
def edgeList (hash dd : Nat) : List Nat := (edgeCoords dd).map (cellVal hash dd)

theorem edgeList_eq (hash dd : Nat) (h1 : 1 ≤ dd) :
    edgeList hash dd = (List.range (4 * (2 ^ dd - 1))).map (fun t => cellVal hash dd (ringCoord dd t)) := by
  rw [edgeList, edgeCoords_eq dd h1, List.map_map]; rfl

theorem internalEdge_length (hash dd : Nat) (h1 : 1 ≤ dd) : (edgeList hash dd).length = 4 * 2 ^ dd - 4 := by
  rw [edgeList_eq hash dd h1]; simp; omega

/-- is `(x, y)` on the border of the `N × N` grid -/
def onBorder (dd x y : Nat) : Prop := x < 2 ^ dd ∧ y < 2 ^ dd ∧ (x = 0 ∨ x = 2 ^ dd - 1 ∨ y = 0 ∨ y = 2 ^ dd - 1)

theorem ringCoord_border (dd t : Nat) (h1 : 1 ≤ dd) (ht : t < 4 * (2 ^ dd - 1)) :
    onBorder dd (ringCoord dd t).1 (ringCoord dd t).2 := by
  have hN := two_le_pow h1
  simp only [onBorder]
  rcases ringCoord_cases dd t with ⟨_, e⟩ | ⟨_, _, e⟩ | ⟨_, _, e⟩ | ⟨_, e⟩ <;> rw [e] <;> dsimp only <;> omega

theorem ringCoord_inj (dd t t' : Nat) (ht : t < 4 * (2 ^ dd - 1)) (ht' : t' < 4 * (2 ^ dd - 1))
    (e : ringCoord dd t = ringCoord dd t') : t = t' := by
  rcases ringCoord_cases dd t with ⟨_, e1⟩ | ⟨_, _, e1⟩ | ⟨_, _, e1⟩ | ⟨_, e1⟩ <;>
  rcases ringCoord_cases dd t' with ⟨_, e2⟩ | ⟨_, _, e2⟩ | ⟨_, _, e2⟩ | ⟨_, e2⟩ <;>
  rw [e1, e2, Prod.mk.injEq] at e <;> omega

theorem ringCoord_surj (dd x y : Nat) (h1 : 1 ≤ dd) (hb : onBorder dd x y) :
    ∃ t, t < 4 * (2 ^ dd - 1) ∧ ringCoord dd t = (x, y) := by
  have hN := two_le_pow h1
  obtain ⟨hx, hy, hb⟩ := hb
  by_cases c1 : y = 0 ∧ x < 2 ^ dd - 1
  · refine ⟨x, by omega, ?_⟩
    simp only [ringCoord]; rw [if_pos c1.2, c1.1]
  by_cases c2 : x = 2 ^ dd - 1 ∧ y < 2 ^ dd - 1
  · refine ⟨2 ^ dd - 1 + y, by omega, ?_⟩
    simp only [ringCoord]
    rw [if_neg (by omega), if_pos (by omega), c2.1]; congr 1; omega
  by_cases c3 : y = 2 ^ dd - 1 ∧ 0 < x
  · refine ⟨3 * (2 ^ dd - 1) - x, by omega, ?_⟩
    simp only [ringCoord]
    rw [if_neg (by omega), if_neg (by omega), if_pos (by omega), c3.1]; congr 1; omega
  · refine ⟨4 * (2 ^ dd - 1) - y, by omega, ?_⟩
    simp only [ringCoord]
    rw [if_neg (by omega), if_neg (by omega), if_neg (by omega)]
    refine Prod.ext ?_ ?_ <;> simp only [] <;> omega

theorem cellVal_inj (hash dd : Nat) (c c' : Nat × Nat) (h1 : c.1 < 2 ^ 32) (h2 : c.2 < 2 ^ 32) (h1' : c'.1 < 2 ^ 32)
    (h2' : c'.2 < 2 ^ 32) (e : cellVal hash dd c = cellVal hash dd c') : c = c' := by
  have e' : interleave c.1 c.2 = interleave c'.1 c'.2 := by simp only [cellVal] at e; omega
  have ei := congrArg (squeezeN 32) e'
  have ej := congrArg (fun z => squeezeN 32 (z / 2)) e'
  simp only [squeezeN_interleave_i, squeezeN_interleave_j] at ei ej
  rw [Nat.mod_eq_of_lt h1, Nat.mod_eq_of_lt h1'] at ei
  rw [Nat.mod_eq_of_lt h2, Nat.mod_eq_of_lt h2'] at ej
  exact Prod.ext ei ej

theorem pow_le_32 {dd : Nat} (hd : dd ≤ 32) {x : Nat} (hx : x < 2 ^ dd) : x < 2 ^ 32 :=
  Nat.lt_of_lt_of_le hx (Nat.pow_le_pow_right (by decide) hd)

theorem internalEdge_nodup (hash dd : Nat) (h1 : 1 ≤ dd) (hd : dd ≤ 32) : (edgeList hash dd).Nodup := by
  rw [edgeList_eq hash dd h1, List.Nodup, List.pairwise_map]
  refine List.Pairwise.imp_of_mem ?_ (List.nodup_range (n := 4 * (2 ^ dd - 1)))
  intro a b ha hb hab e
  have ha := List.mem_range.1 ha
  have hb := List.mem_range.1 hb
  have ba := ringCoord_border dd a h1 ha
  have bb := ringCoord_border dd b h1 hb
  exact hab (ringCoord_inj dd a b ha hb (cellVal_inj hash dd _ _ (pow_le_32 hd ba.1) (pow_le_32 hd ba.2.1)
    (pow_le_32 hd bb.1) (pow_le_32 hd bb.2.1) e))

/-- the members are exactly the border descendants -/
theorem internalEdge_mem (hash dd h' : Nat) (h1 : 1 ≤ dd) :
    h' ∈ edgeList hash dd ↔ ∃ x y, x < 2 ^ dd ∧ y < 2 ^ dd ∧ (x = 0 ∨ x = 2 ^ dd - 1 ∨ y = 0 ∨ y = 2 ^ dd - 1) ∧
      h' = hash * 4 ^ dd + interleave x y := by
  rw [edgeList_eq hash dd h1, List.mem_map]
  constructor
  · rintro ⟨t, ht, rfl⟩
    have b := ringCoord_border dd t h1 (List.mem_range.1 ht)
    exact ⟨_, _, b.1, b.2.1, b.2.2, rfl⟩
  · rintro ⟨x, y, hx, hy, hb, rfl⟩
    obtain ⟨t, ht, e⟩ := ringCoord_surj dd x y h1 ⟨hx, hy, hb⟩
    exact ⟨t, List.mem_range.2 ht, by rw [e]; rfl⟩

theorem edgeList_getElem? (hash dd t : Nat) (h1 : 1 ≤ dd) (ht : t < 4 * (2 ^ dd - 1)) :
    (edgeList hash dd)[t]? = some (cellVal hash dd (ringCoord dd t)) := by
  rw [edgeList_eq hash dd h1]; simp [ht]

/-- the walk: starts at the south corner, element `N−1` is the east corner, element `2(N−1)` the north corner, element
    `3(N−1)` the west corner, and cyclically consecutive elements are adjacent cells (one step in `x` or in `y`) -/
theorem internalEdge_walk (hash dd : Nat) (h1 : 1 ≤ dd) :
    (edgeList hash dd)[0]? = some (hash * 4 ^ dd) ∧
    (edgeList hash dd)[2 ^ dd - 1]? = some (hash * 4 ^ dd + interleave (2 ^ dd - 1) 0) ∧
    (edgeList hash dd)[2 * (2 ^ dd - 1)]? = some (hash * 4 ^ dd + interleave (2 ^ dd - 1) (2 ^ dd - 1)) ∧
    (edgeList hash dd)[3 * (2 ^ dd - 1)]? = some (hash * 4 ^ dd + interleave 0 (2 ^ dd - 1)) ∧
    ∀ t, t < (edgeList hash dd).length → ∃ x y x' y',
      (edgeList hash dd)[t]? = some (hash * 4 ^ dd + interleave x y) ∧
      (edgeList hash dd)[(t + 1) % (edgeList hash dd).length]? = some (hash * 4 ^ dd + interleave x' y') ∧
      onBorder dd x y ∧ onBorder dd x' y' ∧
      ((x' = x ∧ (y' = y + 1 ∨ y' + 1 = y)) ∨ (y' = y ∧ (x' = x + 1 ∨ x' + 1 = x))) := by
  have hN := two_le_pow h1
  refine ⟨?_, ?_, ?_, ?_, ?_⟩
  · rw [edgeList_getElem? hash dd 0 h1 (by omega)]
    simp only [ringCoord, cellVal]
    rw [if_pos (by omega)]; simp [interleave]
  · rw [edgeList_getElem? hash dd _ h1 (by omega)]
    simp only [ringCoord, cellVal]
    rw [if_neg (by omega), if_pos (by omega)]; simp
  · rw [edgeList_getElem? hash dd _ h1 (by omega)]
    simp only [ringCoord, cellVal]
    rw [if_neg (by omega), if_neg (by omega), if_pos (by omega)]
    congr 3; dsimp only; omega
  · rw [edgeList_getElem? hash dd _ h1 (by omega)]
    simp only [ringCoord, cellVal]
    rw [if_neg (by omega), if_neg (by omega), if_neg (by omega)]
    congr 3; dsimp only; omega
  · intro t ht
    rw [internalEdge_length hash dd h1] at ht ⊢
    have ht4 : t < 4 * (2 ^ dd - 1) := by omega
    have hm : (t + 1) % (4 * 2 ^ dd - 4) < 4 * (2 ^ dd - 1) := by
      have := Nat.mod_lt (t + 1) (show 0 < 4 * 2 ^ dd - 4 by omega); omega
    refine ⟨(ringCoord dd t).1, (ringCoord dd t).2, (ringCoord dd ((t + 1) % (4 * 2 ^ dd - 4))).1,
      (ringCoord dd ((t + 1) % (4 * 2 ^ dd - 4))).2, edgeList_getElem? hash dd t h1 ht4,
      edgeList_getElem? hash dd _ h1 hm, ringCoord_border dd t h1 ht4, ringCoord_border dd _ h1 hm, ?_⟩
    by_cases hl : t + 1 = 4 * 2 ^ dd - 4
    · rw [hl, Nat.mod_self]
      rcases ringCoord_cases dd t with ⟨_, e1⟩ | ⟨_, _, e1⟩ | ⟨_, _, e1⟩ | ⟨_, e1⟩ <;>
      rcases ringCoord_cases dd 0 with ⟨_, e2⟩ | ⟨_, _, e2⟩ | ⟨_, _, e2⟩ | ⟨_, e2⟩ <;>
      rw [e1, e2] <;> dsimp only <;> omega
    · rw [Nat.mod_eq_of_lt (by omega)]
      rcases ringCoord_cases dd t with ⟨_, e1⟩ | ⟨_, _, e1⟩ | ⟨_, _, e1⟩ | ⟨_, e1⟩ <;>
      rcases ringCoord_cases dd (t + 1) with ⟨_, e2⟩ | ⟨_, _, e2⟩ | ⟨_, _, e2⟩ | ⟨_, e2⟩ <;>
      rw [e1, e2] <;> dsimp only <;> omega

/-! ## 4. corners and sides -/

/-- the four corners: south `(0,0)`, east `(N−1,0)`, west `(0,N−1)`, north `(N−1,N−1)`; no other direction is accepted.
    Needs `1 ≤ dd ≤ 32` only (no curve is consulted). -/
theorem internalCorner_spec (cfg : Cfg) (hash dd : Nat) (h1 : 1 ≤ dd) (hd : dd ≤ 32) (hh : hash < 2 ^ (64 - 2 * dd)) :
    internalCorner cfg hash dd MW.S = some (hash * 4 ^ dd + interleave 0 0) ∧
    internalCorner cfg hash dd MW.E = some (hash * 4 ^ dd + interleave (2 ^ dd - 1) 0) ∧
    internalCorner cfg hash dd MW.W = some (hash * 4 ^ dd + interleave 0 (2 ^ dd - 1)) ∧
    internalCorner cfg hash dd MW.N = some (hash * 4 ^ dd + interleave (2 ^ dd - 1) (2 ^ dd - 1)) ∧
    (∀ dir, dir ≠ MW.S → dir ≠ MW.E → dir ≠ MW.W → dir ≠ MW.N → internalCorner cfg hash dd dir = none) := by
  have hN := two_le_pow h1
  have hm : 2 ^ dd - 1 < 2 ^ dd := by omega
  have hmax : 4 ^ dd - 1 < 4 ^ dd := by have := Nat.pow_pos (n := dd) (show 0 < 4 by decide); omega
  refine ⟨?_, ?_, ?_, ?_, ?_⟩
  · simp [internalCorner, hash_shl hash dd hh hd, interleave]
  · simp only [internalCorner, hash_shl hash dd hh hd, xMask_spec cfg dd h1 hd, Option.map_some]
    rw [or_eq_add _ _ _ (interleave_lt hd hm (by omega))]
  · simp only [internalCorner, hash_shl hash dd hh hd, yMask_spec cfg dd h1 hd, Option.map_some]
    rw [or_eq_add _ _ _ (interleave_lt hd (by omega) hm)]
  · simp only [internalCorner, hash_shl hash dd hh hd, xyMask_spec cfg dd hd, Option.map_some]
    rw [or_eq_add _ _ _ hmax, interleave_max dd hd]
  · intro dir a b c d
    cases dir <;> simp_all [internalCorner]

/-- the north corner is the last descendant -/
theorem north_corner_val (hash dd : Nat) (hd : dd ≤ 32) :
    hash * 4 ^ dd + interleave (2 ^ dd - 1) (2 ^ dd - 1) = (hash + 1) * 4 ^ dd - 1 := by
  rw [interleave_max dd hd]
  have := Nat.pow_pos (n := dd) (show 0 < 4 by decide)
  rw [Nat.add_mul]; omega

/-- the four sides, each with its `N` cells including both corners: SE `(x,0)`, SW `(0,y)`, NE `(N−1,y)`, NW `(x,N−1)`,
    each in increasing order of the running coordinate; no other direction is accepted -/
theorem internalEdgePart_spec (cfg : Cfg) (hb : cfg.bmi = false) (hash dd : Nat) (h1 : 1 ≤ dd) (hd : dd ≤ 29)
    (hh : hash < 2 ^ (64 - 2 * dd)) :
    internalEdgePart cfg hash dd MW.SE = some ((List.range (2 ^ dd)).map fun x => hash * 4 ^ dd + interleave x 0) ∧
    internalEdgePart cfg hash dd MW.SW = some ((List.range (2 ^ dd)).map fun y => hash * 4 ^ dd + interleave 0 y) ∧
    internalEdgePart cfg hash dd MW.NE =
      some ((List.range (2 ^ dd)).map fun y => hash * 4 ^ dd + interleave (2 ^ dd - 1) y) ∧
    internalEdgePart cfg hash dd MW.NW =
      some ((List.range (2 ^ dd)).map fun x => hash * 4 ^ dd + interleave x (2 ^ dd - 1)) ∧
    (∀ dir, dir ≠ MW.SE → dir ≠ MW.SW → dir ≠ MW.NE → dir ≠ MW.NW → internalEdgePart cfg hash dd dir = none) := by
  obtain ⟨c, hc, hdc⟩ := zoc_lut cfg hb dd hd
  have hd32 : dd ≤ 32 := by omega
  have hN := two_le_pow h1
  have hm : 2 ^ dd - 1 < 2 ^ dd := by omega
  refine ⟨?_, ?_, ?_, ?_, ?_⟩
  · simp only [internalEdgePart, hc, Option.bind_eq_bind, Option.bind_some, hash_shl hash dd hh hd32, Nat.one_shiftLeft]
    apply mapM_some_of_forall
    intro k hk
    have hk := List.mem_range.1 hk
    rw [i02hDD_spec cfg hb dd k hd hk, Option.map_some, or_cell hash dd k 0 hd32 hk (by omega)]; rfl
  · simp only [internalEdgePart, hc, Option.bind_eq_bind, Option.bind_some, hash_shl hash dd hh hd32, Nat.one_shiftLeft]
    apply mapM_some_of_forall
    intro k hk
    have hk := List.mem_range.1 hk
    rw [oj2hDD_spec cfg hb dd k hd hk, Option.map_some, or_cell hash dd 0 k hd32 (by omega) hk]; rfl
  · simp only [internalEdgePart, hc, Option.bind_eq_bind, Option.bind_some, hash_shl hash dd hh hd32, Nat.one_shiftLeft,
      i02hDD_spec cfg hb dd _ hd hm]
    apply mapM_some_of_forall
    intro k hk
    have hk := List.mem_range.1 hk
    rw [oj2hDD_spec cfg hb dd k hd hk, Option.map_some,
      or_or_cell hash dd 0 k (2 ^ dd - 1) 0 (2 ^ dd - 1) k hd32 hm hk (by simp) (by simp)]; rfl
  · simp only [internalEdgePart, hc, Option.bind_eq_bind, Option.bind_some, hash_shl hash dd hh hd32, Nat.one_shiftLeft,
      oj2hDD_spec cfg hb dd _ hd hm]
    apply mapM_some_of_forall
    intro k hk
    have hk := List.mem_range.1 hk
    rw [i02hDD_spec cfg hb dd k hd hk, Option.map_some,
      or_or_cell hash dd k 0 0 (2 ^ dd - 1) k (2 ^ dd - 1) hd32 hk hm (by simp) (by simp)]; rfl
  · intro dir a b c d
    cases dir <;> simp_all [internalEdgePart]

/-! ## summary statement, guard, non-vacuity -/

/-- a valid cell of depth `d` refined by `dd` levels with `d + dd ≤ 29` never overflows the 64-bit shift -/
theorem valid_cell_fits (d dd hash : Nat) (hsum : d + dd ≤ 29) (hh : hash < 12 * 4 ^ d) : hash < 2 ^ (64 - 2 * dd) := by
  have h1 : 12 * 4 ^ d < 2 ^ (2 * d + 4) := by
    rw [four_pow, Nat.pow_add]; have := Nat.two_pow_pos (2 * d); omega
  have h2 : 2 ^ (2 * d + 4) ≤ 2 ^ (64 - 2 * dd) := Nat.pow_le_pow_right (by decide) (by omega)
  omega

/-- **`internal_edge`, every `delta_depth`** (LUT build, `1 ≤ dd ≤ 29`, `hash·4^dd` fits in 64 bits): the result is the
    explicit ring `edgeList`; it has `4N − 4` elements, no duplicates, and its members are exactly the border descendants -/
theorem internalEdge_main (cfg : Cfg) (hb : cfg.bmi = false) (hash dd : Nat) (h1 : 1 ≤ dd) (hd : dd ≤ 29)
    (hh : hash < 2 ^ (64 - 2 * dd)) :
    ∃ l, internalEdge cfg hash dd = some l ∧ l = edgeList hash dd ∧ l.length = 4 * 2 ^ dd - 4 ∧ l.Nodup ∧
      (∀ h', h' ∈ l ↔ ∃ x y, x < 2 ^ dd ∧ y < 2 ^ dd ∧ (x = 0 ∨ x = 2 ^ dd - 1 ∨ y = 0 ∨ y = 2 ^ dd - 1) ∧
        h' = hash * 4 ^ dd + interleave x y) :=
  ⟨_, internalEdge_spec cfg hb hash dd h1 hd hh, rfl, internalEdge_length hash dd h1,
    internalEdge_nodup hash dd h1 (by omega), fun h' => internalEdge_mem hash dd h' h1⟩

/-- the convenience functions accept exactly `(d + dd) % 256 ≤ depthMax` (`u8` addition) -/
theorem internalEdgeTop_guard (cfg : Cfg) (depthMax d hash dd : Nat) :
    ((d + dd) % 256 ≤ depthMax → internalEdgeTop cfg depthMax d hash dd = internalEdge cfg hash dd ∧
      internalEdgeSortedTop cfg depthMax d hash dd = internalEdgeSorted cfg hash dd) ∧
    (¬ (d + dd) % 256 ≤ depthMax → internalEdgeTop cfg depthMax d hash dd = none ∧
      internalEdgeSortedTop cfg depthMax d hash dd = none) := by
  constructor <;> intro h <;> simp [internalEdgeTop, internalEdgeSortedTop, h]

/-- non-vacuity: the hypotheses hold for the last cell of depth 9 refined by 20 levels (depth 29) -/
example : (1 : Nat) ≤ 20 ∧ 20 ≤ 29 ∧ 12 * 4 ^ 9 - 1 < 2 ^ (64 - 2 * 20) := by decide

/-- the explicit list evaluates to what the model returns (`dd = 1, 2, 3`) -/
example : internalEdge { debug := true, bmi := false } 7 1 = some (edgeList 7 1) ∧
    internalEdge { debug := true, bmi := false } 7 2 = some (edgeList 7 2) ∧
    internalEdge { debug := true, bmi := false } 7 3 = some (edgeList 7 3) ∧
    edgeCoords 2 = [(0, 0), (1, 0), (2, 0), (3, 0), (3, 1), (3, 2), (3, 3), (2, 3), (1, 3), (0, 3), (0, 2), (0, 1)] := by
  decide +kernel

end Hpx.EdgeInternal
