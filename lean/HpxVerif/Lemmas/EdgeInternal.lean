/-
C14 (internal part), for every `delta_depth`: the internal edge of a cell is exactly its ring of border descendants.
Masks, `internal_edge`, `internal_corner`, `internal_edge_part` as explicit lists of `hash·4^dd + interleave x y`.
(The sorted variant is in `EdgeInternal2.lean`.)
-/
import HpxVerif.Model.Topo
import HpxVerif.Lemmas.BitsLemmas
import HpxVerif.Lemmas.UniqLemmas
namespace Hpx.EdgeInternal
open Hpx Hpx.Topo

theorem or_eq_add_of_and_eq_zero (a b : Nat) (h : a &&& b = 0) : a ||| b = a + b := by
  induction a using Nat.strongRecOn generalizing b with
  | _ a ih =>
    by_cases ha : a = 0
    · subst ha; simp
    · have h2 : a / 2 &&& b / 2 = 0 := by rw [← Nat.and_div_two, h]
      have ih' := ih (a / 2) (by omega) (b / 2) h2
      have hd : (a ||| b) / 2 = a / 2 + b / 2 := by rw [Nat.or_div_two, ih']
      have hm1 : ¬ ((a &&& b) % 2 = 1) := by rw [h]; decide
      rw [Nat.and_mod_two_eq_one] at hm1
      have hm2 := @Nat.or_mod_two_eq_one a b
      omega

theorem interleave_eq_add (x y : Nat) : interleave x y = spreadN 32 x + 2 * spreadN 32 y := by
  unfold interleave
  rw [or_eq_add_of_and_eq_zero, Nat.shiftLeft_eq]; · omega
  apply Nat.eq_of_testBit_eq; intro p
  obtain ⟨q, rfl | rfl⟩ := parity_cases p
  · rw [Nat.testBit_and, Nat.testBit_shiftLeft]
    by_cases hq : q = 0
    · subst hq; simp
    · have : 2 * q - 1 = 2 * (q - 1) + 1 := by omega
      rw [this, testBit_spreadN_odd]; simp
  · rw [Nat.testBit_and, testBit_spreadN_odd]; simp

theorem interleave_zero_right (a : Nat) : interleave a 0 = spreadN 32 a := by simp [interleave]
theorem interleave_zero_left (a : Nat) : interleave 0 a = spreadN 32 a <<< 1 := by simp [interleave]

theorem interleave_lt_64 (a b : Nat) : interleave a b < 2 ^ 64 := by
  rw [interleave_eq_add]
  have h1 := three_spreadN_lt 32 a
  have h2 := three_spreadN_lt 32 b
  have : (4:Nat) ^ 32 = 2 ^ 64 := by decide
  omega

theorem interleave_or (a b c d : Nat) : interleave a b ||| interleave c d = interleave (a ||| c) (b ||| d) := by
  apply Nat.eq_of_testBit_eq; intro p
  obtain ⟨q, rfl | rfl⟩ := parity_cases p
  · simp only [Nat.testBit_or, testBit_interleave_even]; cases decide (q < 32) <;> simp
  · simp only [Nat.testBit_or, testBit_interleave_odd]; cases decide (q < 32) <;> simp

theorem interleave_and (a b c d : Nat) : interleave a b &&& interleave c d = interleave (a &&& c) (b &&& d) := by
  apply Nat.eq_of_testBit_eq; intro p
  obtain ⟨q, rfl | rfl⟩ := parity_cases p
  · simp only [Nat.testBit_and, testBit_interleave_even]; cases decide (q < 32) <;> simp
  · simp only [Nat.testBit_and, testBit_interleave_odd]; cases decide (q < 32) <;> simp

theorem interleave_shl (a : Nat) : (interleave a 0 <<< 1) % 2 ^ 64 = interleave 0 a := by
  rw [interleave_zero_right, ← interleave_zero_left, Nat.mod_eq_of_lt (interleave_lt_64 _ _)]

theorem interleave_shr (a : Nat) : interleave 0 a >>> 1 = interleave a 0 := by
  rw [interleave_zero_right, interleave_zero_left, Nat.shiftLeft_shiftRight]

theorem x55_eq : (0x5555555555555555 : Nat) = interleave (2 ^ 32 - 1) 0 := by decide +kernel
theorem xAA_eq : (0xAAAAAAAAAAAAAAAA : Nat) = interleave 0 (2 ^ 32 - 1) := by decide +kernel

theorem x55_shr (dd : Nat) (h : dd ≤ 32) : (0x5555555555555555 : Nat) >>> (64 - 2 * dd) = interleave (2 ^ dd - 1) 0 := by
  rw [x55_eq]
  apply Nat.eq_of_testBit_eq; intro p
  rw [Nat.testBit_shiftRight]
  obtain ⟨q, rfl | rfl⟩ := parity_cases p
  · rw [show 64 - 2 * dd + 2 * q = 2 * (32 - dd + q) by omega, testBit_interleave_even, testBit_interleave_even,
      Nat.testBit_two_pow_sub_one, Nat.testBit_two_pow_sub_one]
    by_cases h1 : q < dd
    · have : 32 - dd + q < 32 := by omega
      have : q < 32 := by omega
      simp [*]
    · have : ¬ (32 - dd + q < 32) := by omega
      simp [*]
  · rw [show 64 - 2 * dd + (2 * q + 1) = 2 * (32 - dd + q) + 1 by omega, testBit_interleave_odd, testBit_interleave_odd]
    simp

theorem xAA_shr (dd : Nat) (h : dd ≤ 32) : (0xAAAAAAAAAAAAAAAA : Nat) >>> (64 - 2 * dd) = interleave 0 (2 ^ dd - 1) := by
  rw [xAA_eq]
  apply Nat.eq_of_testBit_eq; intro p
  rw [Nat.testBit_shiftRight]
  obtain ⟨q, rfl | rfl⟩ := parity_cases p
  · rw [show 64 - 2 * dd + 2 * q = 2 * (32 - dd + q) by omega, testBit_interleave_even, testBit_interleave_even]
    simp
  · rw [show 64 - 2 * dd + (2 * q + 1) = 2 * (32 - dd + q) + 1 by omega, testBit_interleave_odd, testBit_interleave_odd,
      Nat.testBit_two_pow_sub_one, Nat.testBit_two_pow_sub_one]
    by_cases h1 : q < dd
    · have : 32 - dd + q < 32 := by omega
      have : q < 32 := by omega
      simp [*]
    · have : ¬ (32 - dd + q < 32) := by omega
      simp [*]

theorem xFF_shr (dd : Nat) (h : dd ≤ 32) : (0xFFFFFFFFFFFFFFFF : Nat) >>> (64 - 2 * dd) = 4 ^ dd - 1 := by
  rw [show (0xFFFFFFFFFFFFFFFF : Nat) = 2 ^ 64 - 1 by decide, four_pow]
  apply Nat.eq_of_testBit_eq; intro p
  rw [Nat.testBit_shiftRight, Nat.testBit_two_pow_sub_one, Nat.testBit_two_pow_sub_one]
  congr 1; apply propext; omega

/-- the north corner: all `2·dd` low bits set -/
theorem interleave_max (dd : Nat) (h : dd ≤ 32) : interleave (2 ^ dd - 1) (2 ^ dd - 1) = 4 ^ dd - 1 := by
  rw [four_pow]
  apply Nat.eq_of_testBit_eq; intro p
  obtain ⟨q, rfl | rfl⟩ := parity_cases p
  · rw [testBit_interleave_even, Nat.testBit_two_pow_sub_one, Nat.testBit_two_pow_sub_one]
    by_cases h1 : q < dd
    · have : q < 32 := by omega
      have : 2 * q < 2 * dd := by omega
      simp [*]
    · have : ¬ (2 * q < 2 * dd) := by omega
      simp [*]
  · rw [testBit_interleave_odd, Nat.testBit_two_pow_sub_one, Nat.testBit_two_pow_sub_one]
    by_cases h1 : q < dd
    · have : q < 32 := by omega
      have : 2 * q + 1 < 2 * dd := by omega
      simp [*]
    · have : ¬ (2 * q + 1 < 2 * dd) := by omega
      simp [*]

/-! ## 1. masks -/

theorem xMask_spec (cfg : Cfg) (dd : Nat) (h1 : 1 ≤ dd) (h2 : dd ≤ 32) :
    xMaskFn cfg dd = some (interleave (2 ^ dd - 1) 0) := by
  have : dd ≠ 0 := by omega
  simp [xMaskFn, this, x55_shr dd h2]

theorem yMask_spec (cfg : Cfg) (dd : Nat) (h1 : 1 ≤ dd) (h2 : dd ≤ 32) :
    yMaskFn cfg dd = some (interleave 0 (2 ^ dd - 1)) := by
  have : dd ≠ 0 := by omega
  simp [yMaskFn, this, xAA_shr dd h2]

theorem xyMask_spec (cfg : Cfg) (dd : Nat) (h1 : 1 ≤ dd) (h2 : dd ≤ 32) :
    xyMaskFn cfg dd = some (4 ^ dd - 1) := by
  have : dd ≠ 0 := by omega
  simp [xyMaskFn, this, xFF_shr dd h2]

theorem xMask_eq_spreadN (dd : Nat) (h2 : dd ≤ 32) : interleave (2 ^ dd - 1) 0 = spreadN dd (2 ^ dd - 1) := by
  rw [interleave_zero_right]
  exact spreadN_of_lt (by have := Nat.two_pow_pos dd; omega) h2

/-- the shifted cell number: no overflow, and "or" with anything below `4^dd` is addition -/
theorem hash_shl (hash dd : Nat) (hh : hash < 2 ^ (64 - 2 * dd)) (hd : dd ≤ 32) :
    (hash <<< (2 * dd)) % 2 ^ 64 = hash * 4 ^ dd := by
  rw [Nat.shiftLeft_eq, four_pow]
  apply Nat.mod_eq_of_lt
  calc hash * 2 ^ (2 * dd) < 2 ^ (64 - 2 * dd) * 2 ^ (2 * dd) := Nat.mul_lt_mul_of_pos_right hh (Nat.two_pow_pos _)
    _ = 2 ^ 64 := by rw [← Nat.pow_add]; congr 1; omega

theorem or_eq_add (hash dd v : Nat) (hv : v < 4 ^ dd) : hash * 4 ^ dd ||| v = hash * 4 ^ dd + v := by
  rw [four_pow] at *
  rw [Nat.mul_comm, Nat.two_pow_add_eq_or_of_lt hv]


/-! ## the curve selected for `delta_depth` (LUT build) -/

theorem getZoc_sufficient : ∀ d, d ≤ 29 → ∃ c, getZoc d = some c ∧ d ≤ c.bits := by decide +kernel

theorem bits_le_32 (c : ZocClass) : c.bits ≤ 32 := by cases c <;> decide

theorem zoc_lut (cfg : Cfg) (hb : cfg.bmi = false) (dd : Nat) (hd : dd ≤ 29) :
    ∃ c, Layer.zoc cfg dd = some c ∧ dd ≤ c.bits := by
  simp only [Layer.zoc, hb]; exact getZoc_sufficient dd hd

theorem lut_i02h_interleave (c : ZocClass) (k : Nat) (hk : k < 2 ^ c.bits) : Lut.i02h c k = interleave k 0 := by
  rw [lut_i02h_spec, interleave_zero_right, spreadN_of_lt hk (bits_le_32 c)]

theorem lut_oj2h_interleave (c : ZocClass) (k : Nat) (hk : k < 2 ^ c.bits) : Lut.oj2h c k = interleave 0 k := by
  cases c with
  | empty =>
    have : k = 0 := by simpa [ZocClass.bits] using hk
    subst this; simp [Lut.oj2h, interleave]
  | small | mediu | large =>
    simp only [Lut.oj2h]
    rw [lut_i02h_interleave _ _ hk, interleave_shl]

theorem lut_ij2h_interleave (c : ZocClass) (i j : Nat) (hi : i < 2 ^ c.bits) (hj : j < 2 ^ c.bits) :
    Lut.ij2h c i j = interleave i j := by
  cases c with
  | empty =>
    have hi' : i = 0 := by simpa [ZocClass.bits] using hi
    have hj' : j = 0 := by simpa [ZocClass.bits] using hj
    subst hi' hj'; simp [Lut.ij2h, interleave]
  | small | mediu | large =>
    simp only [Lut.ij2h]
    rw [lut_i02h_interleave _ _ hi, lut_oj2h_interleave _ _ hj, interleave_or]; simp

theorem pow_le_bits {dd : Nat} {c : ZocClass} (h : dd ≤ c.bits) {k : Nat} (hk : k < 2 ^ dd) : k < 2 ^ c.bits :=
  Nat.lt_of_lt_of_le hk (Nat.pow_le_pow_right (by decide) h)

theorem i02hDD_spec (cfg : Cfg) (hb : cfg.bmi = false) (dd k : Nat) (hd : dd ≤ 29) (hk : k < 2 ^ dd) :
    i02hDD cfg dd k = some (interleave k 0) := by
  obtain ⟨c, hc, hdc⟩ := zoc_lut cfg hb dd hd
  simp [i02hDD, hc, hb, lut_i02h_interleave c k (pow_le_bits hdc hk)]

theorem oj2hDD_spec (cfg : Cfg) (hb : cfg.bmi = false) (dd k : Nat) (hd : dd ≤ 29) (hk : k < 2 ^ dd) :
    oj2hDD cfg dd k = some (interleave 0 k) := by
  obtain ⟨c, hc, hdc⟩ := zoc_lut cfg hb dd hd
  simp [oj2hDD, hc, hb, lut_oj2h_interleave c k (pow_le_bits hdc hk)]

/-- value of a descendant: `hash·4^dd + interleave x y` -/
def cellVal (hash dd : Nat) (c : Nat × Nat) : Nat := hash * 4 ^ dd + interleave c.1 c.2

theorem interleave_lt_pow {dd x y : Nat} (hd : dd ≤ 32) (hx : x < 2 ^ dd) (hy : y < 2 ^ dd) : interleave x y < 4 ^ dd :=
  interleave_lt hd hx hy

/-- `h | interleave a b | interleave c d` when the two patterns combine to `(x, y)` -/
theorem or_or_cell (hash dd a b c d x y : Nat) (hd : dd ≤ 32) (hx : x < 2 ^ dd) (hy : y < 2 ^ dd)
    (ex : a ||| c = x) (ey : b ||| d = y) :
    hash * 4 ^ dd ||| interleave a b ||| interleave c d = cellVal hash dd (x, y) := by
  rw [Nat.or_assoc, interleave_or, ex, ey, or_eq_add _ _ _ (interleave_lt hd hx hy)]; rfl

theorem or_cell (hash dd x y : Nat) (hd : dd ≤ 32) (hx : x < 2 ^ dd) (hy : y < 2 ^ dd) :
    hash * 4 ^ dd ||| interleave x y = cellVal hash dd (x, y) := by
  rw [or_eq_add _ _ _ (interleave_lt hd hx hy)]; rfl

theorem mapM_some_of_forall {α β : Type} (g : α → Option β) (f : α → β) (ks : List α)
    (h : ∀ k ∈ ks, g k = some (f k)) : ks.mapM g = some (ks.map f) := by
  induction ks with
  | nil => rfl
  | cons a l ih =>
    rw [List.mapM_cons, h a (by simp), ih (fun k hk => h k (by simp [hk]))]
    rfl

/-! ## 2. `internal_edge` as an explicit list -/

/-- the inner indices `1 .. N−2` of a side (`1..am1` in the code) -/
def ks (dd : Nat) : List Nat := (List.range (2 ^ dd - 1)).drop 1

/-- in-cell coordinates of the ring, in the order of `internal_edge`: south corner, SE side towards east, east corner,
    NE side towards north, north corner, NW side towards west, west corner, SW side back towards south -/
def edgeCoords (dd : Nat) : List (Nat × Nat) :=
  let m := 2 ^ dd - 1
  [(0, 0)] ++ (ks dd).map (fun k => (k, 0)) ++ [(m, 0)] ++ (ks dd).map (fun k => (m, k))
    ++ [(m, m)] ++ (ks dd).map (fun k => (m - k, m)) ++ [(0, m)] ++ (ks dd).map (fun k => (0, m - k))

theorem mem_ks {dd k : Nat} (h : k ∈ ks dd) : 1 ≤ k ∧ k < 2 ^ dd - 1 := by
  unfold ks at h
  rw [List.mem_iff_getElem] at h
  obtain ⟨i, hi, rfl⟩ := h
  simp at hi ⊢
  omega

theorem internalEdge_spec (cfg : Cfg) (hb : cfg.bmi = false) (hash dd : Nat) (h1 : 1 ≤ dd) (hd : dd ≤ 29)
    (hh : hash < 2 ^ (64 - 2 * dd)) :
    internalEdge cfg hash dd = some ((edgeCoords dd).map (cellVal hash dd)) := by
  obtain ⟨c, hc, hdc⟩ := zoc_lut cfg hb dd hd
  have hd32 : dd ≤ 32 := by omega
  have hN : 2 ≤ 2 ^ dd := by
    calc 2 = 2 ^ 1 := rfl
      _ ≤ 2 ^ dd := Nat.pow_le_pow_right (by decide) h1
  have hm : 2 ^ dd - 1 < 2 ^ dd := by omega
  unfold internalEdge
  rw [hc, xMask_spec cfg dd h1 hd32]
  simp only [Option.bind_eq_bind, Option.bind_some, interleave_shl, hash_shl hash dd hh hd32, Nat.one_shiftLeft]
  rw [mapM_some_of_forall _ (fun k => cellVal hash dd (k, 0)), Option.bind_some,
    mapM_some_of_forall _ (fun k => cellVal hash dd (2 ^ dd - 1, k)), Option.bind_some,
    mapM_some_of_forall _ (fun k => cellVal hash dd (2 ^ dd - 1 - k, 2 ^ dd - 1)), Option.bind_some,
    mapM_some_of_forall _ (fun k => cellVal hash dd (0, 2 ^ dd - 1 - k)), Option.bind_some]
  · have e1 : hash * 4 ^ dd = cellVal hash dd (0, 0) := by simp [cellVal, interleave]
    have e2 := or_cell hash dd (2 ^ dd - 1) 0 hd32 hm (by omega)
    have e3 := or_cell hash dd 0 (2 ^ dd - 1) hd32 (by omega) hm
    have e4 := or_or_cell hash dd 0 (2 ^ dd - 1) (2 ^ dd - 1) 0 (2 ^ dd - 1) (2 ^ dd - 1) hd32 hm hm (by simp) (by simp)
    rw [e4, e2, e3]
    conv => lhs; rw [e1]
    simp [edgeCoords, ks, Function.comp_def]
  · intro k hk
    have := mem_ks hk
    rw [oj2hDD_spec cfg hb dd _ hd (by omega), Option.map_some, or_cell hash dd 0 _ hd32 (by omega) (by omega)]
  · intro k hk
    have := mem_ks hk
    rw [i02hDD_spec cfg hb dd _ hd (by omega), Option.map_some,
      or_or_cell hash dd 0 (2 ^ dd - 1) (2 ^ dd - 1 - k) 0 (2 ^ dd - 1 - k) (2 ^ dd - 1) hd32 (by omega) hm (by simp) (by simp)]
  · intro k hk
    have := mem_ks hk
    rw [oj2hDD_spec cfg hb dd _ hd (by omega), Option.map_some,
      or_or_cell hash dd 0 k (2 ^ dd - 1) 0 (2 ^ dd - 1) k hd32 hm (by omega) (by simp) (by simp)]
  · intro k hk
    have := mem_ks hk
    rw [i02hDD_spec cfg hb dd _ hd (by omega), Option.map_some, or_cell hash dd k 0 hd32 (by omega) (by omega)]


/-! ## 3. the ring by index: length, no duplicates, membership, walk -/

/-- coordinates of element number `t` of `internal_edge` (`t < 4(N−1)`) -/
def ringCoord (dd t : Nat) : Nat × Nat :=
  let m := 2 ^ dd - 1
  if t < m then (t, 0) else if t < 2 * m then (m, t - m) else if t < 3 * m then (3 * m - t, m) else (0, 4 * m - t)

theorem two_le_pow {dd : Nat} (h1 : 1 ≤ dd) : 2 ≤ 2 ^ dd :=
  calc 2 = 2 ^ 1 := rfl
    _ ≤ 2 ^ dd := Nat.pow_le_pow_right (by decide) h1

theorem head_map_drop {α : Type} (g : Nat → α) (m : Nat) (hm : 1 ≤ m) (c : α) (hc : c = g 0) :
    [c] ++ ((List.range m).drop 1).map g = (List.range m).map g := by
  obtain ⟨m', rfl⟩ : ∃ m', m = m' + 1 := ⟨m - 1, by omega⟩
  rw [List.range_succ_eq_map, hc]; simp

theorem head_map_drop' {α : Type} (g : Nat → α) (m : Nat) (hm : 1 ≤ m) (c : α) (hc : c = g 0) (rest : List α) :
    [c] ++ (((List.range m).drop 1).map g ++ rest) = (List.range m).map g ++ rest := by
  rw [← List.append_assoc, head_map_drop g m hm c hc]

theorem range_four (m : Nat) : List.range (4 * m) =
    List.range m ++ (List.range m).map (m + ·) ++ (List.range m).map (2 * m + ·) ++ (List.range m).map (3 * m + ·) := by
  rw [show 4 * m = m + m + m + m by omega, List.range_add, List.range_add, List.range_add]
  simp only [show m + m = 2 * m by omega, show 2 * m + m = 3 * m by omega]

theorem edgeCoords_eq (dd : Nat) (h1 : 1 ≤ dd) :
    edgeCoords dd = (List.range (4 * (2 ^ dd - 1))).map (ringCoord dd) := by
  have hN := two_le_pow h1
  have hm : 1 ≤ 2 ^ dd - 1 := by omega
  unfold edgeCoords ks
  simp only []
  simp only [List.append_assoc]
  rw [head_map_drop' (fun k => (k, 0)) _ hm _ rfl, head_map_drop' (fun k => (2 ^ dd - 1, k)) _ hm _ rfl,
    head_map_drop' (fun k => (2 ^ dd - 1 - k, 2 ^ dd - 1)) _ hm (2 ^ dd - 1, 2 ^ dd - 1) rfl,
    head_map_drop (fun k => (0, 2 ^ dd - 1 - k)) _ hm (0, 2 ^ dd - 1) rfl]
  rw [range_four, List.map_append, List.map_append, List.map_append, List.map_map, List.map_map, List.map_map]
  simp only [List.append_assoc]
  congr 1; rotate_left; congr 1; rotate_left; congr 1
  all_goals
    apply List.map_congr_left
    intro k hk
    have := List.mem_range.1 hk
    simp only [ringCoord, Function.comp]
    repeat' split
    all_goals trace_state
    all_goals sorry

end Hpx.EdgeInternal
