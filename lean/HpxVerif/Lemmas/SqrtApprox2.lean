import HpxVerif.Lemmas.SqrtApprox

/-!
# The `f64` square root used by `from_ring` (C10/C11), continued: `Float.ofNat`, `Float.sqrt`, `Float.toUInt64`
-/

open Float.Model Float.Model.UnpackedFloat

namespace Hpx.SqrtApprox

/-- exact case of `roundWithAccuracy_spec` as an equation -/
theorem roundWithAccuracy_exact (m : Nat) (e : Int) (h1 : 2 ^ 52 ≤ m) (he : -1022 ≤ (m.log2 : Int) + e)
    (hd : 2 ^ (m.log2 - 52) ∣ m) :
    roundWithAccuracy Format.binary64 .positive m e .exact =
      .finite .positive (m / 2 ^ (m.log2 - 52)) (e + ((m.log2 - 52 : Nat) : Int))
        (Nat.div_pos (Nat.le_of_dvd (by omega) hd) (Nat.pow_pos (by decide))) := by
  obtain ⟨m', e', h, heq, _, _, _, hex⟩ := roundWithAccuracy_spec m e .exact h1 he
  obtain ⟨rfl, rfl⟩ := hex rfl hd
  exact heq

/-- congruence for `finite` with unrelated positivity proofs (rewriting with `▸` makes the kernel evaluate symbolic
    mantissas) -/
theorem finite_congr' {s : Sign} {m m' : Nat} {e e' : Int} (h : 0 < m) (h' : 0 < m') (hm : m = m') (he : e = e') :
    UnpackedFloat.finite s m e h = UnpackedFloat.finite s m' e' h' := by
  subst hm; subst he; rfl

theorem mul_finite (spec : Format) (s₁ s₂ : Sign) (m₁ m₂ : Nat) (e₁ e₂ : Int) (h₁ : 0 < m₁) (h₂ : 0 < m₂) :
    UnpackedFloat.mul spec (.finite s₁ m₁ e₁ h₁) (.finite s₂ m₂ e₂ h₂) =
      roundWithAccuracy spec (s₁ * s₂) (m₁ * m₂) (e₁ + e₂) .exact := rfl

theorem pos_mul_pos : Sign.positive * Sign.positive = Sign.positive := rfl

theorem log2_mul_two_pow (m k : Nat) (hm : 0 < m) : (m * 2 ^ k).log2 = m.log2 + k := by
  rw [Nat.log2_eq_iff (Nat.mul_ne_zero (by omega) (Nat.pos_iff_ne_zero.1 (Nat.pow_pos (by decide))))]
  have h1 := Nat.log2_self_le (n := m) (by omega)
  have h2 := @Nat.lt_log2_self m
  constructor
  · rw [Nat.pow_add]; exact Nat.mul_le_mul_right _ h1
  · rw [show m.log2 + k + 1 = (m.log2 + 1) + k by omega, Nat.pow_add]
    exact Nat.mul_lt_mul_of_pos_right h2 (Nat.pow_pos (by decide))

/-! ## unfolding the `Float` operations into the model (generic, so that the kernel checks them on variables) -/

theorem toModel_mul (a b : Float) :
    (a * b).toModel = Float.Model.pack (UnpackedFloat.mul Format.binary64 a.toModel.unpack b.toModel.unpack) := rfl

theorem toModel_ofBits (c : UInt64) :
    (Float.ofBits c).toModel = Float.Model.pack (UnpackedFloat.unpack Format.binary64 c.toBitVec) := rfl

theorem toModel_toFloat (n : UInt64) :
    n.toFloat.toModel = Float.Model.pack (UnpackedFloat.ofNat Format.binary64 n.toNat) := rfl

theorem toModel_sqrt (a : Float) :
    a.sqrt.toModel = Float.Model.pack (UnpackedFloat.sqrt Format.binary64 a.toModel.unpack) := rfl

theorem toUInt64_eq (a : Float) : a.toUInt64 = a.toModel.unpack.toUInt64 := rfl

theorem ofModel_toModel (m : Float.Model) : (Float.ofModel m).toModel = m := rfl

theorem pow10_zero : Float.exactlyRepresentablePowersOfTen[0]'(by decide) = Float.ofBits 0x3FF0000000000000 := rfl

theorem float_ofNat_eq_small (y : Nat) (hy : y < 2 ^ 53) :
    Float.ofNat y = y.toUInt64.toFloat * Float.ofBits 0x3FF0000000000000 := by
  show Float.ofScientific y false 0 = _
  unfold Float.ofScientific
  rw [dif_pos ⟨hy, by decide⟩]
  simp only [pow10_zero, Bool.false_eq_true, if_false]

/-! ## `Float.ofNat` below `2^53`: exact -/

/-- the `Float` constant `1.0` (`10^0` in the table used by `Float.ofScientific`) -/
theorem one_unpack :
    (Float.ofBits 0x3FF0000000000000).toModel.unpack = .finite .positive (2 ^ 52) (-52) (by decide) := by
  rw [toModel_ofBits]
  have : UnpackedFloat.unpack Format.binary64 (0x3FF0000000000000 : UInt64).toBitVec =
      .finite .positive (2 ^ 52) (-52) (by decide) := rfl
  rw [this]
  exact model_unpack_pack _ _ _ (by decide) (by decide) (by decide) (by decide)

theorem shl_log2 (y : Nat) (h0 : 0 < y) (hy : y < 2 ^ 53) :
    2 ^ 52 ≤ y <<< (52 - y.log2) ∧ y <<< (52 - y.log2) < 2 ^ 53 := by
  have hL : y.log2 < 53 := (Nat.log2_lt (by omega)).2 hy
  have h1 := Nat.log2_self_le (n := y) (by omega)
  have h2 := @Nat.lt_log2_self y
  rw [Nat.shiftLeft_eq]
  constructor
  · calc 2 ^ 52 = 2 ^ y.log2 * 2 ^ (52 - y.log2) := by rw [← Nat.pow_add]; congr 1; omega
      _ ≤ y * 2 ^ (52 - y.log2) := Nat.mul_le_mul_right _ h1
  · calc y * 2 ^ (52 - y.log2) < 2 ^ (y.log2 + 1) * 2 ^ (52 - y.log2) :=
          Nat.mul_lt_mul_of_pos_right h2 (Nat.pow_pos (by decide))
      _ = 2 ^ 53 := by rw [← Nat.pow_add]; congr 1; omega

/-- `UnpackedFloat.ofNat` of a number below `2^53` : exact, normalised to 53 bits -/
theorem unpacked_ofNat_small (y : Nat) (h0 : 0 < y) (hy : y < 2 ^ 53) :
    UnpackedFloat.ofNat Format.binary64 y =
      .finite .positive (y <<< (52 - y.log2)) ((y.log2 : Int) - 52)
        (by rw [Nat.shiftLeft_eq]; exact Nat.mul_pos h0 (Nat.pow_pos (by decide))) := by
  have hL : y.log2 < 53 := (Nat.log2_lt (by omega)).2 hy
  obtain ⟨hm1, hm2⟩ := shl_log2 y h0 hy
  have hml : (y <<< (52 - y.log2)).log2 = 52 := (Nat.log2_eq_iff (by omega)).2 ⟨hm1, hm2⟩
  unfold UnpackedFloat.ofNat UnpackedFloat.ofInt normalize
  have hc : compare (y : Int) 0 = .gt := by
    simp only [compare, compareOfLessAndEq]
    rw [if_neg (by omega), if_neg (by omega)]
  rw [hc]
  dsimp only
  unfold round
  rw [targetExponent_normal _ _ (by omega)]
  unfold decreaseExponent
  dsimp only
  rw [Int.toNat_natCast]
  have e1 : (0 - ((y.log2 : Int) + 0 - 52)).toNat = 52 - y.log2 := by omega
  rw [e1, roundWithAccuracy_exact _ _ hm1 (by rw [hml]; omega) (by rw [hml]; simp)]
  apply finite_congr'
  · rw [hml]; simp
  · rw [hml]; omega

/-- multiplying a normal number by `1.0` in the model -/
theorem mul_one_normal (m : Nat) (e : Int) (h : 0 < m) (hm1 : 2 ^ 52 ≤ m) (hm2 : m < 2 ^ 53)
    (he1 : -1000 ≤ e) (he2 : e ≤ 971) :
    UnpackedFloat.mul Format.binary64 (.finite .positive m e h) (.finite .positive (2 ^ 52) (-52) (by decide)) =
      .finite .positive m e h := by
  have hml : m.log2 = 52 := (Nat.log2_eq_iff (by omega)).2 ⟨hm1, hm2⟩
  have hl2 : (m * 2 ^ 52).log2 = 104 := by rw [log2_mul_two_pow _ _ (by omega), hml]
  rw [mul_finite, pos_mul_pos, roundWithAccuracy_exact _ _ (Nat.le_trans hm1 (Nat.le_mul_of_pos_right _ (by decide)))
    (by rw [hl2]; omega) (by rw [hl2]; exact Nat.dvd_mul_left _ _)]
  have e2 : m * 2 ^ 52 / 2 ^ ((m * 2 ^ 52).log2 - 52) = m := by
    rw [hl2]; exact Nat.mul_div_cancel _ (by decide)
  have e3 : e + -52 + (((m * 2 ^ 52).log2 - 52 : Nat) : Int) = e := by
    rw [hl2]; omega
  exact finite_congr' _ _ e2 e3

theorem toFloat_small (y : Nat) (h0 : 0 < y) (hy : y < 2 ^ 53) :
    (y.toUInt64.toFloat).toModel.unpack = .finite .positive (y <<< (52 - y.log2)) ((y.log2 : Int) - 52)
        (by rw [Nat.shiftLeft_eq]; exact Nat.mul_pos h0 (Nat.pow_pos (by decide))) := by
  have hL : y.log2 < 53 := (Nat.log2_lt (by omega)).2 hy
  obtain ⟨hm1, hm2⟩ := shl_log2 y h0 hy
  rw [toModel_toFloat]
  have : y.toUInt64.toNat = y := by
    simp; omega
  rw [this, unpacked_ofNat_small y h0 hy]
  exact model_unpack_pack _ _ _ hm1 hm2 (by omega) (by omega)

/-- **`Float.ofNat y` for `0 < y < 2^53`** (the fast path `y.toUInt64.toFloat * 1.0` of `Float.ofScientific`): the exact
    value, with the mantissa normalised to 53 bits -/
theorem float_ofNat_small (y : Nat) (h0 : 0 < y) (hy : y < 2 ^ 53) :
    (Float.ofNat y).toModel.unpack =
      .finite .positive (y <<< (52 - y.log2)) ((y.log2 : Int) - 52)
        (by rw [Nat.shiftLeft_eq]; exact Nat.mul_pos h0 (Nat.pow_pos (by decide))) := by
  have hL : y.log2 < 53 := (Nat.log2_lt (by omega)).2 hy
  obtain ⟨hm1, hm2⟩ := shl_log2 y h0 hy
  rw [float_ofNat_eq_small y hy, toModel_mul, one_unpack, toFloat_small y h0 hy,
    mul_one_normal _ _ _ hm1 hm2 (by omega) (by omega)]
  exact model_unpack_pack _ _ _ hm1 hm2 (by omega) (by omega)

/-! ## `Float.ofNat` from `2^53` on: faithful rounding -/

theorem float_ofNat_eq_large (y : Nat) (hy : 2 ^ 53 ≤ y) :
    Float.ofNat y = Float.ofModel (Float.Model.pack (UnpackedFloat.ofScientific Format.binary64 y 0)) := by
  show Float.ofScientific y false 0 = _
  unfold Float.ofScientific
  rw [dif_neg (by omega)]
  rfl

theorem unpacked_ofScientific_zero (y : Nat) (h0 : 0 < y) :
    UnpackedFloat.ofScientific Format.binary64 y 0 =
      roundWithAccuracy Format.binary64 .positive (y * 2 ^ 53) (-53) .exact := by
  unfold UnpackedFloat.ofScientific
  rw [dif_neg (by omega), if_neg (by decide), if_neg (by simp), if_pos (by decide), mul_finite, pos_mul_pos]
  simp [b64_mantissaBits, Nat.shiftLeft_eq]

/-- **`Float.ofNat y` for `0 < y < 2^64`**: a normal number `m · 2^e` (53-bit `m`) whose value `v` (an integer, because
    `e ≥ -52` … stated as `m · 2^(e+52) = v · 2^52`) is `y` up to a relative error `2^-52` (faithful rounding) -/
theorem float_ofNat_spec (y : Nat) (h0 : 0 < y) (hy : y < 2 ^ 64) :
    ∃ m e h v, (Float.ofNat y).toModel.unpack = .finite .positive m e h ∧ 2 ^ 52 ≤ m ∧ m < 2 ^ 53 ∧
      -52 ≤ e ∧ e ≤ 12 ∧ m * 2 ^ (e + 52).toNat = v * 2 ^ 52 ∧ v ≤ y + y / 2 ^ 52 ∧ y ≤ v + y / 2 ^ 52 := by
  have hL : y.log2 < 64 := (Nat.log2_lt (by omega)).2 hy
  have hl1 := Nat.log2_self_le (n := y) (by omega)
  have hl2 := @Nat.lt_log2_self y
  by_cases hs : y < 2 ^ 53
  · have hL' : y.log2 < 53 := (Nat.log2_lt (by omega)).2 hs
    obtain ⟨hm1, hm2⟩ := shl_log2 y h0 hs
    refine ⟨_, _, _, y, float_ofNat_small y h0 hs, hm1, hm2, by omega, by omega, ?_, by omega, by omega⟩
    rw [Nat.shiftLeft_eq, Nat.mul_assoc, ← Nat.pow_add]
    congr 2
    omega
  · have hy53 : 2 ^ 53 ≤ y := by omega
    have hL' : 53 ≤ y.log2 := (Nat.le_log2 (by omega)).2 hy53
    have hlM : (y * 2 ^ 53).log2 = y.log2 + 53 := log2_mul_two_pow _ _ h0
    obtain ⟨m, e, h, heq, hm1, hm2, hcase, -⟩ := roundWithAccuracy_spec (y * 2 ^ 53) (-53) .exact
      (Nat.le_trans (by decide) (Nat.mul_le_mul_right _ hy53)) (by omega)
    rw [hlM] at hcase
    obtain ⟨d, hd⟩ : ∃ d, y.log2 = d + 52 := ⟨y.log2 - 52, by omega⟩
    have hsh : y.log2 + 53 - 52 = d + 53 := by omega
    have hq : y * 2 ^ 53 / 2 ^ (d + 53) = y / 2 ^ d := by
      rw [Nat.pow_add, Nat.mul_comm (2 ^ d), ← Nat.div_div_eq_div_mul, Nat.mul_div_cancel _ (by decide)]
    rw [hsh, hq] at hcase
    have hq1 : y / 2 ^ d * 2 ^ d ≤ y := Nat.div_mul_le_self _ _
    have hq2 : y < y / 2 ^ d * 2 ^ d + 2 ^ d :=
      Nat.lt_div_mul_add (a := y) (b := 2 ^ d) (Nat.pow_pos (by decide))
    have hq3 : (y / 2 ^ d + 1) * 2 ^ d = y / 2 ^ d * 2 ^ d + 2 ^ d := by rw [Nat.add_mul, Nat.one_mul]
    have hdy : 2 ^ d ≤ y / 2 ^ 52 := by
      rw [Nat.le_div_iff_mul_le (by decide), ← Nat.pow_add, ← hd]; exact hl1
    have hun : (Float.ofNat y).toModel.unpack = .finite .positive m e h := by
      rw [float_ofNat_eq_large y hy53, ofModel_toModel, unpacked_ofScientific_zero y h0, heq]
      exact model_unpack_pack _ _ _ hm1 hm2 (by omega) (by omega)
    have hd12 : d ≤ 11 := by omega
    rcases hcase with ⟨rfl, rfl⟩ | ⟨rfl, rfl⟩ | ⟨h53, rfl, rfl⟩
    · refine ⟨_, _, h, y / 2 ^ d * 2 ^ d, hun, hm1, hm2, by omega, by omega, ?_, by omega, by omega⟩
      rw [show (-53 + ((d + 53 : Nat) : Int) + 52).toNat = d + 52 by omega, Nat.pow_add, Nat.mul_assoc]
    · refine ⟨_, _, h, (y / 2 ^ d + 1) * 2 ^ d, hun, hm1, hm2, by omega, by omega, ?_, ?_, by omega⟩
      · rw [show (-53 + ((d + 53 : Nat) : Int) + 52).toNat = d + 52 by omega, Nat.pow_add, Nat.mul_assoc]
      · omega
    · refine ⟨_, _, h, (y / 2 ^ d + 1) * 2 ^ d, hun, hm1, hm2, by omega, by omega, ?_, ?_, by omega⟩
      · rw [show (-53 + ((d + 53 : Nat) : Int) + 1 + 52).toNat = (d + 52) + 1 by omega, h53, Nat.pow_succ,
          Nat.pow_add]
        ring
      · omega

/-! ## `Float.sqrt` -/

theorem sqrt_targetExponent (m : Nat) (e : Int) (hl : m.log2 = 52) (he : -1000 ≤ e) :
    min (e.ediv 2) (Format.binary64.targetExponent ((totalExponent m e + 1).ediv 2)) = e / 2 - 26 := by
  unfold Format.targetExponent totalExponent
  rw [b64_mantissaBits, b64_minExponent, hl]
  have e1 : e.ediv 2 = e / 2 := rfl
  have e2 : (((52 : Nat) : Int) + 1 + e + 1).ediv 2 = (e + 54) / 2 := by
    show (((52 : Nat) : Int) + 1 + e + 1) / 2 = _
    congr 1; omega
  rw [e1, e2]
  omega

theorem nat_sqrt_bounds (M : Nat) (h1 : 2 ^ 104 ≤ M) (h2 : M < 2 ^ 106) : 2 ^ 52 ≤ M.sqrt ∧ M.sqrt < 2 ^ 53 := by
  have a := Nat.sqrt_le M
  have b := Nat.lt_succ_sqrt M
  constructor
  · by_contra hc
    have : (M.sqrt + 1) * (M.sqrt + 1) ≤ 2 ^ 52 * 2 ^ 52 := Nat.mul_le_mul (by omega) (by omega)
    have e : (2:Nat) ^ 52 * 2 ^ 52 = 2 ^ 104 := by rw [← Nat.pow_add]
    simp only [Nat.succ_eq_add_one] at b
    omega
  · by_contra hc
    have : 2 ^ 53 * 2 ^ 53 ≤ M.sqrt * M.sqrt := Nat.mul_le_mul (by omega) (by omega)
    have e : (2:Nat) ^ 53 * 2 ^ 53 = 2 ^ 106 := by rw [← Nat.pow_add]
    omega

/-- **`sqrt` of a normal number `m · 2^e`** (53-bit `m`): with `te = e / 2 - 26` (so that `m · 2^e = M · 2^(2 te)` with a
    105- or 106-bit integer `M = m · 2^(e - 2 te)`), the result is `r · 2^te` with `r = Nat.sqrt M` or `Nat.sqrt M + 1`
    (faithful rounding; renormalised if `r = 2^53`). -/
theorem sqrt_spec (m : Nat) (e : Int) (h : 0 < m) (hm1 : 2 ^ 52 ≤ m) (hm2 : m < 2 ^ 53) (he1 : -1000 ≤ e)
    (he2 : e ≤ 900) :
    ∃ m2 e2 h2, UnpackedFloat.sqrt Format.binary64 (.finite .positive m e h) = .finite .positive m2 e2 h2 ∧
      2 ^ 52 ≤ m2 ∧ m2 < 2 ^ 53 ∧
      ((m2 = (m * 2 ^ (e - 2 * (e / 2 - 26)).toNat).sqrt ∧ e2 = e / 2 - 26) ∨
       (m2 = (m * 2 ^ (e - 2 * (e / 2 - 26)).toNat).sqrt + 1 ∧ e2 = e / 2 - 26) ∨
       ((m * 2 ^ (e - 2 * (e / 2 - 26)).toNat).sqrt + 1 = 2 ^ 53 ∧ m2 = 2 ^ 52 ∧ e2 = e / 2 - 26 + 1)) := by
  have hl : m.log2 = 52 := (Nat.log2_eq_iff (by omega)).2 ⟨hm1, hm2⟩
  unfold UnpackedFloat.sqrt sqrtCore
  dsimp only
  rw [sqrt_targetExponent m e hl he1, Nat.shiftLeft_eq]
  generalize hs : (e - 2 * (e / 2 - 26)).toNat = s
  have hs' : s = 52 ∨ s = 53 := by omega
  generalize hM : m * 2 ^ s = M
  have hM1 : 2 ^ 104 ≤ M ∧ M < 2 ^ 106 := by
    rcases hs' with rfl | rfl <;> omega
  obtain ⟨hr1, hr2⟩ := nat_sqrt_bounds M hM1.1 hM1.2
  generalize (if M - M.sqrt * M.sqrt = 0 then Accuracy.exact
      else Accuracy.inexact (if M - M.sqrt * M.sqrt ≤ M.sqrt then Ordering.lt else Ordering.gt)) = acc
  have hlr : M.sqrt.log2 = 52 := (Nat.log2_eq_iff (by omega)).2 ⟨hr1, hr2⟩
  obtain ⟨m2, e2, h2, heq, hb1, hb2, hcase, -⟩ := roundWithAccuracy_spec M.sqrt (e / 2 - 26) acc hr1 (by omega)
  rw [hlr] at hcase
  simp only [Nat.sub_self, Nat.pow_zero, Nat.div_one, Int.natCast_zero, Int.add_zero] at hcase
  exact ⟨m2, e2, h2, heq, hb1, hb2, hcase⟩

/-! ## `Float.toUInt64` -/

/-- `toUInt64` of a positive number `m · 2^(-k)` below `2^64` is the floor -/
theorem toUInt64_spec (m : Nat) (e : Int) (h : 0 < m) (k : Nat) (hk : e = -(k : Int)) (hlt : m / 2 ^ k < 2 ^ 64) :
    (UnpackedFloat.finite .positive m e h).toUInt64.toNat = m / 2 ^ k := by
  subst hk
  unfold UnpackedFloat.toUInt64 UnpackedFloat.toInt roundToInt decreaseExponent shiftToExponent
  dsimp only
  have e1 : (-(k : Int) - 0).toNat = 0 := by omega
  have e2 : (0 - (-(k : Int) - ((0 : Nat) : Int))).toNat = k := by omega
  rw [e1, e2, Nat.shiftLeft_eq, Nat.pow_zero, Nat.mul_one, shiftRight_mantissa, ofMA_mantissa]
  simp only [Sign.apply, Int.toNat_natCast]
  unfold UInt64.ofNatClamp
  rw [dif_pos (by simpa [UInt64.size] using hlt)]
  simp

end Hpx.SqrtApprox
