import HpxVerif.Lemmas.SqrtApprox

/-!
# The `f64` square root used by `from_ring` (C10/C11), continued: `Float.ofNat`, `Float.sqrt`, `Float.toUInt64`
-/

open Float.Model Float.Model.UnpackedFloat

namespace Hpx.SqrtApprox

/-- exact case of `roundWithAccuracy_spec` as an equation -/
theorem roundWithAccuracy_exact (m : Nat) (e : Int) (h1 : 2 ^ 52 ≤ m) (he : -1022 ≤ (m.log2 : Int) + e)
    (hd : 2 ^ (m.log2 - 52) ∣ m) :
    roundWithAccuracy Format.binary64 .positive m e .exact =
      .finite .positive (m / 2 ^ (m.log2 - 52)) (e + ((m.log2 - 52 : Nat) : Int))
        (Nat.div_pos (Nat.le_of_dvd (by omega) hd) (Nat.pow_pos (by decide))) := by
  obtain ⟨m', e', h, heq, _, _, _, hex⟩ := roundWithAccuracy_spec m e .exact h1 he
  obtain ⟨rfl, rfl⟩ := hex rfl hd
  exact heq

theorem mul_finite (spec : Format) (s₁ s₂ : Sign) (m₁ m₂ : Nat) (e₁ e₂ : Int) (h₁ : 0 < m₁) (h₂ : 0 < m₂) :
    UnpackedFloat.mul spec (.finite s₁ m₁ e₁ h₁) (.finite s₂ m₂ e₂ h₂) =
      roundWithAccuracy spec (s₁ * s₂) (m₁ * m₂) (e₁ + e₂) .exact := rfl

theorem pos_mul_pos : Sign.positive * Sign.positive = Sign.positive := rfl

theorem log2_mul_two_pow (m k : Nat) (hm : 0 < m) : (m * 2 ^ k).log2 = m.log2 + k := by
  rw [Nat.log2_eq_iff (Nat.mul_ne_zero (by omega) (Nat.pos_iff_ne_zero.1 (Nat.pow_pos (by decide))))]
  have h1 := Nat.log2_self_le (n := m) (by omega)
  have h2 := @Nat.lt_log2_self m
  constructor
  · rw [Nat.pow_add]; exact Nat.mul_le_mul_right _ h1
  · rw [show m.log2 + k + 1 = (m.log2 + 1) + k by omega, Nat.pow_add]
    exact Nat.mul_lt_mul_of_pos_right h2 (Nat.pow_pos (by decide))

/-! ## unfolding the `Float` operations into the model (generic, so that the kernel checks them on variables) -/

theorem toModel_mul (a b : Float) :
    (a * b).toModel = Float.Model.pack (UnpackedFloat.mul Format.binary64 a.toModel.unpack b.toModel.unpack) := rfl

theorem toModel_ofBits (c : UInt64) :
    (Float.ofBits c).toModel = Float.Model.pack (UnpackedFloat.unpack Format.binary64 c.toBitVec) := rfl

theorem toModel_toFloat (n : UInt64) :
    n.toFloat.toModel = Float.Model.pack (UnpackedFloat.ofNat Format.binary64 n.toNat) := rfl

theorem toModel_sqrt (a : Float) :
    a.sqrt.toModel = Float.Model.pack (UnpackedFloat.sqrt Format.binary64 a.toModel.unpack) := rfl

theorem toUInt64_eq (a : Float) : a.toUInt64 = a.toModel.unpack.toUInt64 := rfl

theorem ofModel_toModel (m : Float.Model) : (Float.ofModel m).toModel = m := rfl

theorem pow10_zero : Float.exactlyRepresentablePowersOfTen[0]'(by decide) = Float.ofBits 0x3FF0000000000000 := rfl

theorem float_ofNat_eq_small (y : Nat) (hy : y < 2 ^ 53) :
    Float.ofNat y = y.toUInt64.toFloat * Float.ofBits 0x3FF0000000000000 := by
  show Float.ofScientific y false 0 = _
  unfold Float.ofScientific
  rw [dif_pos ⟨hy, by decide⟩]
  simp only [pow10_zero, Bool.false_eq_true, if_false]

/-! ## `Float.ofNat` below `2^53`: exact -/

/-- the `Float` constant `1.0` (`10^0` in the table used by `Float.ofScientific`) -/
theorem one_unpack :
    (Float.ofBits 0x3FF0000000000000).toModel.unpack = .finite .positive (2 ^ 52) (-52) (by decide) := by
  rw [toModel_ofBits]
  have : UnpackedFloat.unpack Format.binary64 (0x3FF0000000000000 : UInt64).toBitVec =
      .finite .positive (2 ^ 52) (-52) (by decide) := rfl
  rw [this]
  exact model_unpack_pack _ _ _ (by decide) (by decide) (by decide) (by decide)

theorem shl_log2 (y : Nat) (h0 : 0 < y) (hy : y < 2 ^ 53) :
    2 ^ 52 ≤ y <<< (52 - y.log2) ∧ y <<< (52 - y.log2) < 2 ^ 53 := by
  have hL : y.log2 < 53 := (Nat.log2_lt (by omega)).2 hy
  have h1 := Nat.log2_self_le (n := y) (by omega)
  have h2 := @Nat.lt_log2_self y
  rw [Nat.shiftLeft_eq]
  constructor
  · calc 2 ^ 52 = 2 ^ y.log2 * 2 ^ (52 - y.log2) := by rw [← Nat.pow_add]; congr 1; omega
      _ ≤ y * 2 ^ (52 - y.log2) := Nat.mul_le_mul_right _ h1
  · calc y * 2 ^ (52 - y.log2) < 2 ^ (y.log2 + 1) * 2 ^ (52 - y.log2) :=
          Nat.mul_lt_mul_of_pos_right h2 (Nat.pow_pos (by decide))
      _ = 2 ^ 53 := by rw [← Nat.pow_add]; congr 1; omega

/-- `UnpackedFloat.ofNat` of a number below `2^53` : exact, normalised to 53 bits -/
theorem unpacked_ofNat_small (y : Nat) (h0 : 0 < y) (hy : y < 2 ^ 53) :
    UnpackedFloat.ofNat Format.binary64 y =
      .finite .positive (y <<< (52 - y.log2)) ((y.log2 : Int) - 52)
        (by rw [Nat.shiftLeft_eq]; exact Nat.mul_pos h0 (Nat.pow_pos (by decide))) := by
  have hL : y.log2 < 53 := (Nat.log2_lt (by omega)).2 hy
  obtain ⟨hm1, hm2⟩ := shl_log2 y h0 hy
  have hml : (y <<< (52 - y.log2)).log2 = 52 := (Nat.log2_eq_iff (by omega)).2 ⟨hm1, hm2⟩
  unfold UnpackedFloat.ofNat UnpackedFloat.ofInt normalize
  have hc : compare (y : Int) 0 = .gt := by
    simp only [compare, compareOfLessAndEq]
    rw [if_neg (by omega), if_neg (by omega)]
  rw [hc]
  dsimp only
  unfold round
  rw [targetExponent_normal _ _ (by omega)]
  unfold decreaseExponent
  dsimp only
  rw [Int.toNat_natCast]
  have e1 : (0 - ((y.log2 : Int) + 0 - 52)).toNat = 52 - y.log2 := by omega
  rw [e1, roundWithAccuracy_exact _ _ hm1 (by rw [hml]; omega) (by rw [hml]; simp)]
  apply finite_congr
  · rw [hml]; simp
  · rw [hml]; omega

/-- **`Float.ofNat y` for `0 < y < 2^53`** (the fast path `y.toUInt64.toFloat * 1.0` of `Float.ofScientific`): the exact
    value, with the mantissa normalised to 53 bits -/
theorem float_ofNat_small (y : Nat) (h0 : 0 < y) (hy : y < 2 ^ 53) :
    (Float.ofNat y).toModel.unpack =
      .finite .positive (y <<< (52 - y.log2)) ((y.log2 : Int) - 52)
        (by rw [Nat.shiftLeft_eq]; exact Nat.mul_pos h0 (Nat.pow_pos (by decide))) := by
  have hL : y.log2 < 53 := (Nat.log2_lt (by omega)).2 hy
  obtain ⟨hm1, hm2⟩ := shl_log2 y h0 hy
  rw [float_ofNat_eq_small y hy, toModel_mul, one_unpack]
  have e1 : (y.toUInt64.toFloat).toModel.unpack = .finite .positive (y <<< (52 - y.log2)) ((y.log2 : Int) - 52)
        (by rw [Nat.shiftLeft_eq]; exact Nat.mul_pos h0 (Nat.pow_pos (by decide))) := by
    rw [toModel_toFloat]
    have : y.toUInt64.toNat = y := by
      simp; omega
    rw [this, unpacked_ofNat_small y h0 hy]
    exact model_unpack_pack _ _ _ hm1 hm2 (by omega) (by omega)
  rw [e1]
  have hml : (y <<< (52 - y.log2)).log2 = 52 := (Nat.log2_eq_iff (by omega)).2 ⟨hm1, hm2⟩
  have hl2 : (y <<< (52 - y.log2) * 2 ^ 52).log2 = 104 := by rw [log2_mul_two_pow _ _ (by omega), hml]
  rw [mul_finite, pos_mul_pos, roundWithAccuracy_exact _ _ (Nat.le_trans hm1 (Nat.le_mul_of_pos_right _ (by decide)))
    (by rw [hl2]; omega) (by rw [hl2]; exact Nat.dvd_mul_left _ _)]
  have e2 : y <<< (52 - y.log2) * 2 ^ 52 / 2 ^ ((y <<< (52 - y.log2) * 2 ^ 52).log2 - 52) = y <<< (52 - y.log2) := by
    rw [hl2]; exact Nat.mul_div_cancel _ (by decide)
  have e3 : (y.log2 : Int) - 52 + -52 + (((y <<< (52 - y.log2) * 2 ^ 52).log2 - 52 : Nat) : Int) =
      (y.log2 : Int) - 52 := by
    rw [hl2]; omega
  rw [finite_congr e2 e3]
  exact model_unpack_pack _ _ _ hm1 hm2 (by omega) (by omega)

end Hpx.SqrtApprox
