/-
C03 over the reals: the cell-geometry accessors of the NESTED scheme (`Model/Hash.lean` at `α := ℝ`) are mutually
consistent in the projection plane.

Plane geometry (the specification, independent of the code): at depth `d`, `n = 2^d`; base cell `b` has centre
`(baseX b, baseY b)`; the cell `(b, i, j)` is the diamond with centre `(cellCx, cellCy)` and half-diagonal `1/n`;
abscissas are taken modulo 8 and normalised to `[0, 8)` by `norm8`.
-/
import HpxVerif.Model.Hash
import HpxVerif.Lemmas.NumReal
import HpxVerif.Lemmas.ProjReal

namespace Hpx.CellReal
open Hpx Hpx.Hash Hpx.Proj

/-! ## the specification -/

/-- abscissa of the centre of base cell `b`: `2(b%4)+1` (caps), `2(b%4)` (equatorial row) -/
noncomputable def baseX (b : ℕ) : ℝ := ((2 * (b % 4) + (if b / 4 = 1 then 0 else 1) : ℕ) : ℝ)
/-- ordinate of the centre of base cell `b`: `1, 0, −1` for `b/4 = 0, 1, 2` -/
noncomputable def baseY (b : ℕ) : ℝ := 1 - ((b / 4 : ℕ) : ℝ)
/-- centre of the cell `(b, i, j)` of depth `d` (abscissa not yet reduced modulo 8) -/
noncomputable def cellCx (d b i j : ℕ) : ℝ := baseX b + ((i : ℝ) - j) / 2 ^ d
noncomputable def cellCy (d b i j : ℕ) : ℝ := baseY b + ((i : ℝ) + j + 1 - 2 ^ d) / 2 ^ d
/-- reduction of an abscissa of `[-8, 8)` to `[0, 8)` -/
noncomputable def norm8 (x : ℝ) : ℝ := if x < 0 then x + 8 else x

/-- closed diamond of centre `(cx, cy)` and half-diagonal `r` -/
def InDiamond (cx cy r x y : ℝ) : Prop := |x - cx| + |y - cy| ≤ r
/-- border of that diamond -/
def OnDiamond (cx cy r x y : ℝ) : Prop := |x - cx| + |y - cy| = r

/-! ## unfolding the real instance -/

theorem r_ofInt (z : ℤ) : (Num.ofInt z : ℝ) = (z : ℝ) := rfl
theorem r_zero : (Num.zero : ℝ) = 0 := by show ((0 : ℕ) : ℝ) = 0; norm_num
theorem r_ensures (x : ℝ) : ensuresXIsPositive x = norm8 x := by
  unfold ensuresXIsPositive norm8
  rw [r_lt, r_zero, r_ofNat]
  by_cases h : x < 0 <;> simp [h]

theorem nside_eq (d : ℕ) : Layer.nside d = 2 ^ d := by simp [Layer.nside, Nat.shiftLeft_eq]

theorem nside_real (d : ℕ) : ((Layer.nside d : ℕ) : ℝ) = 2 ^ d := by rw [nside_eq]; push_cast; rfl

theorem xyMask_shr (d : ℕ) : Layer.xyMask d >>> d = 2 ^ d - 1 := by
  unfold Layer.xyMask
  by_cases h : d > 0
  · simp only [h, if_true, Nat.shiftLeft_eq, Nat.one_mul, Nat.shiftRight_eq_div_pow]
    have h1 : 2 ^ (d * 2) = 2 ^ d * 2 ^ d := by rw [Nat.mul_two, Nat.pow_add]
    have hp : 0 < 2 ^ d := Nat.pos_of_ne_zero (by simp)
    rw [h1]
    apply Nat.div_eq_of_lt_le
    · have : (2 ^ d - 1) * 2 ^ d = 2 ^ d * 2 ^ d - 2 ^ d := by rw [Nat.sub_mul, Nat.one_mul]
      rw [this]
      have : 2 ^ d ≤ 2 ^ d * 2 ^ d := Nat.le_mul_of_pos_left _ hp
      have : 1 ≤ 2 ^ d := hp
      omega
    · have h2 : (2 ^ d - 1 + 1) = 2 ^ d := by have : 1 ≤ 2 ^ d := hp; omega
      have : 1 ≤ 2 ^ d * 2 ^ d := Nat.mul_pos hp hp
      rw [h2]; omega
  · have : d = 0 := by omega
    subst this; simp

theorem offX_table : ∀ b, b < 12 →
    ((((b &&& 3) <<< 1) ||| (((1 - ((b >>> 2 : ℕ) : ℤ)) % 256).toNat &&& 1)) % 256)
      = 2 * (b % 4) + (if b / 4 = 1 then 0 else 1) := by decide

theorem pow_pos' (d : ℕ) : (0 : ℝ) < 2 ^ d := by positivity

/-! ## 1. `center_of_projected_cell` -/

/-- the centre returned by the code is the centre of the specification, abscissa reduced to `[0, 8)` -/
theorem center_eq (cfg : Cfg) (d hash b i j : ℕ) (hh : hash < Layer.nHash d)
    (hdec : Layer.decodeHash cfg d hash = some ⟨b, i, j⟩) (hb : b < 12) :
    centerOfProjectedCell (α := ℝ) cfg d hash = some (norm8 (cellCx d b i j), cellCy d b i j) := by
  unfold centerOfProjectedCell
  have hge : ¬ hash ≥ Layer.nHash d := by omega
  simp only [hge, if_false, hdec]
  rw [offX_table b hb, xyMask_shr]
  simp only [r_signBit, r_ofInt, r_ofNat, r_one, nside_real, Nat.cast_one]
  have hp := pow_pos' d
  have h1 : (1 : ℕ) ≤ 2 ^ d := Nat.one_le_two_pow
  have ex : (((i : ℤ) - (j : ℤ) : ℤ) : ℝ) * (1 / 2 ^ d) + ((2 * (b % 4) + (if b / 4 = 1 then 0 else 1) : ℕ) : ℝ)
      = cellCx d b i j := by
    unfold cellCx baseX; push_cast; ring
  have ey : (((i : ℤ) + (j : ℤ) - ((2 ^ d - 1 : ℕ) : ℤ) : ℤ) : ℝ) * ((1 : ℝ) / (2 : ℝ) ^ d)
      + (((1 : ℤ) - ((b >>> 2 : ℕ) : ℤ) : ℤ) : ℝ) = cellCy d b i j := by
    unfold cellCy baseY
    rw [Nat.shiftRight_eq_div_pow, show (2 : ℕ) ^ 2 = 4 from rfl]
    generalize b / 4 = q
    push_cast [Nat.cast_sub h1]
    field_simp
    ring
  rw [ex, ey]
  congr 1
  unfold norm8
  by_cases h : cellCx d b i j < 0 <;> simp [h]

/-! ### ranges -/

theorem baseX_cases (b : ℕ) (hb : b < 12) : (b = 4 ∧ baseX b = 0) ∨ (1 ≤ baseX b ∧ baseX b ≤ 7) := by
  unfold baseX
  interval_cases b <;> norm_num

theorem baseY_cases (b : ℕ) (hb : b < 12) : -1 ≤ baseY b ∧ baseY b ≤ 1 := by
  unfold baseY
  interval_cases b <;> norm_num

theorem frac_bounds (d : ℕ) (a : ℝ) (h1 : -((2 : ℝ) ^ d - 1) ≤ a) (h2 : a ≤ (2 : ℝ) ^ d - 1) :
    -1 + 1 / (2 : ℝ) ^ d ≤ a / 2 ^ d ∧ a / 2 ^ d ≤ 1 - 1 / (2 : ℝ) ^ d := by
  have hp := pow_pos' d
  have e1 : (-1 + 1 / (2 : ℝ) ^ d) * 2 ^ d = -(2 : ℝ) ^ d + 1 := by field_simp
  have e2 : (1 - 1 / (2 : ℝ) ^ d) * 2 ^ d = (2 : ℝ) ^ d - 1 := by field_simp
  rw [le_div_iff₀ hp, div_le_iff₀ hp, e1, e2]
  constructor <;> linarith

theorem cast_lt_pow {d i : ℕ} (hi : i < 2 ^ d) : (i : ℝ) ≤ (2 : ℝ) ^ d - 1 := by
  have : i + 1 ≤ 2 ^ d := hi
  have : ((i + 1 : ℕ) : ℝ) ≤ ((2 ^ d : ℕ) : ℝ) := by exact_mod_cast this
  push_cast at this
  linarith

/-- ranges of the centre of a valid cell, in units of the half-diagonal `1/n` -/
theorem center_ranges (d b i j : ℕ) (hb : b < 12) (hi : i < 2 ^ d) (hj : j < 2 ^ d) :
    -1 + 1 / (2 : ℝ) ^ d ≤ cellCx d b i j ∧ cellCx d b i j ≤ 8 - 1 / (2 : ℝ) ^ d ∧
    (cellCx d b i j < 0 ↔ b = 4 ∧ i < j) ∧
    -2 + 1 / (2 : ℝ) ^ d ≤ cellCy d b i j ∧ cellCy d b i j ≤ 2 - 1 / (2 : ℝ) ^ d := by
  have hp := pow_pos' d
  have hi' := cast_lt_pow hi
  have hj' := cast_lt_pow hj
  have hi0 : (0 : ℝ) ≤ i := Nat.cast_nonneg i
  have hj0 : (0 : ℝ) ≤ j := Nat.cast_nonneg j
  obtain ⟨fx1, fx2⟩ := frac_bounds d ((i : ℝ) - j) (by linarith) (by linarith)
  obtain ⟨fy1, fy2⟩ := frac_bounds d ((i : ℝ) + j + 1 - 2 ^ d) (by linarith) (by linarith)
  obtain ⟨by1, by2⟩ := baseY_cases b hb
  have ho : 0 < 1 / (2 : ℝ) ^ d := by positivity
  unfold cellCx cellCy
  refine ⟨?_, ?_, ?_, by linarith, by linarith⟩
  · rcases baseX_cases b hb with ⟨_, h0⟩ | ⟨h1, _⟩ <;> linarith
  · rcases baseX_cases b hb with ⟨_, h0⟩ | ⟨_, h7⟩ <;> linarith
  · rcases baseX_cases b hb with ⟨h4, h0⟩ | ⟨h1, _⟩
    · rw [h0, zero_add, div_neg_iff]
      constructor
      · rintro (⟨_, h⟩ | ⟨h, _⟩)
        · linarith
        · exact ⟨h4, by exact_mod_cast (sub_neg.mp h)⟩
      · rintro ⟨_, h⟩
        right; exact ⟨by have : (i : ℝ) < j := by exact_mod_cast h
                         linarith, hp⟩
    · constructor
      · intro h; linarith
      · rintro ⟨h4, _⟩; subst h4; unfold baseX at h1; norm_num at h1

theorem cellCx_neg_le (d b i j : ℕ) (hb : b < 12) (hi : i < 2 ^ d) (hj : j < 2 ^ d) (h : cellCx d b i j < 0) :
    cellCx d b i j ≤ -(1 / (2 : ℝ) ^ d) := by
  obtain ⟨h4, hij⟩ := (center_ranges d b i j hb hi hj).2.2.1.mp h
  have hp := pow_pos' d
  subst h4
  unfold cellCx baseX
  norm_num
  have : (i : ℝ) + 1 ≤ j := by exact_mod_cast hij
  rw [div_le_iff₀ hp]
  have e : -((2 : ℝ) ^ d)⁻¹ * 2 ^ d = -1 := by field_simp
  rw [e]; linarith

theorem norm8_range (x : ℝ) (h1 : -8 ≤ x) (h2 : x < 8) : 0 ≤ norm8 x ∧ norm8 x < 8 := by
  unfold norm8; split_ifs with h <;> constructor <;> linarith

/-- relation with the integer plane coordinates `Layer.centerXY` (units of `1/n`) -/
theorem centerXY_real (d b i j : ℕ) :
    (((Layer.centerXY d ⟨b, i, j⟩).1 : ℤ) : ℝ) = norm8 (cellCx d b i j) * 2 ^ d ∧
    (((Layer.centerXY d ⟨b, i, j⟩).2 : ℤ) : ℝ) = cellCy d b i j * 2 ^ d := by
  have hp := pow_pos' d
  unfold Layer.centerXY
  simp only [nside_eq]
  set xi : ℤ := (i : ℤ) - (j : ℤ) + (((b % 4 * 2 : ℕ) : ℤ) + (if b / 4 = 1 then 0 else 1)) * ((2 ^ d : ℕ) : ℤ) with hxi
  have key : (xi : ℝ) = cellCx d b i j * 2 ^ d := by
    rw [hxi]; unfold cellCx baseX
    generalize b % 4 = r
    by_cases h : b / 4 = 1 <;> simp only [h, if_true, if_false] <;> push_cast <;> field_simp <;> ring
  constructor
  · unfold norm8
    by_cases h : xi < 0
    · have : cellCx d b i j < 0 := by
        have : (xi : ℝ) < 0 := by exact_mod_cast h
        rw [key] at this
        exact (mul_neg_iff.mp this).elim (fun h => absurd h.2 (by linarith)) (fun h => h.1)
      simp only [h, this, if_true]
      push_cast; rw [key]; ring
    · have : ¬ cellCx d b i j < 0 := by
        intro hc
        have : (xi : ℝ) < 0 := by rw [key]; exact mul_neg_of_neg_of_pos hc hp
        exact h (by exact_mod_cast this)
      simp only [h, this, if_false]
      exact key
  · unfold cellCy baseY
    generalize b / 4 = q
    push_cast; field_simp; ring

/-- **`center_plane_spec`**: for a valid cell `(b, i, j)` of depth `d`, `center_of_projected_cell` returns `(x, y)` with
    `y = cy`, `x = cx` reduced modulo 8 (`cx + 8` exactly when `cx < 0`, i.e. `b = 4` and `i < j`), both multiples of
    `1/n` with `0 ≤ x ≤ 8 − 1/n`, `|y| ≤ 2 − 1/n`; they are the integer coordinates `Layer.centerXY` divided by `n`. -/
theorem center_plane_spec (cfg : Cfg) (d hash b i j : ℕ) (hh : hash < Layer.nHash d)
    (hdec : Layer.decodeHash cfg d hash = some ⟨b, i, j⟩) (hb : b < 12) (hi : i < 2 ^ d) (hj : j < 2 ^ d) :
    ∃ x y : ℝ, centerOfProjectedCell (α := ℝ) cfg d hash = some (x, y) ∧
      y = cellCy d b i j ∧
      ((¬ (b = 4 ∧ i < j) ∧ x = cellCx d b i j) ∨ ((b = 4 ∧ i < j) ∧ x = cellCx d b i j + 8)) ∧
      0 ≤ x ∧ x ≤ 8 - 1 / (2 : ℝ) ^ d ∧ -2 + 1 / (2 : ℝ) ^ d ≤ y ∧ y ≤ 2 - 1 / (2 : ℝ) ^ d ∧
      x = (((Layer.centerXY d ⟨b, i, j⟩).1 : ℤ) : ℝ) / 2 ^ d ∧ y = (((Layer.centerXY d ⟨b, i, j⟩).2 : ℤ) : ℝ) / 2 ^ d := by
  obtain ⟨c1, c2, c3, c4, c5⟩ := center_ranges d b i j hb hi hj
  obtain ⟨k1, k2⟩ := centerXY_real d b i j
  have hp := pow_pos' d
  have ho : 0 < 1 / (2 : ℝ) ^ d := by positivity
  refine ⟨norm8 (cellCx d b i j), cellCy d b i j, center_eq cfg d hash b i j hh hdec hb, rfl, ?_, ?_, ?_, c4, c5, ?_, ?_⟩
  · unfold norm8
    by_cases h : cellCx d b i j < 0
    · right; exact ⟨c3.mp h, by simp [h]⟩
    · left; exact ⟨fun hc => h (c3.mpr hc), by simp [h]⟩
  · unfold norm8; split_ifs <;> linarith
  · unfold norm8; split_ifs with h
    · have := cellCx_neg_le d b i j hb hi hj h; linarith
    · linarith
  · rw [k1]; field_simp
  · rw [k2]; field_simp

/-! ## `unproj` as a total function on `|y| ≤ 2` -/

/-- the body of `unproj` after its `check_y` assertion -/
noncomputable def unprojT (x y : ℝ) : ℝ × ℝ :=
  let xAbs := Num.abs x; let xSign := Num.signBit x
  let yAbs := Num.abs y; let ySign := Num.signBit y
  let (off, pm1) := pm1OffsetDecompose xAbs
  let ll := if Num.le yAbs (Num.one : ℝ) then deprojCea (pm1, yAbs) else deprojCollignon (pm1, yAbs)
  let r := applyOffsetAndSigns ll off xSign ySign
  (r.1 * Num.piOverFour, r.2)

theorem unproj_eq (x y : ℝ) (h1 : -2 ≤ y) (h2 : y ≤ 2) : unproj x y = some (unprojT x y) := by
  have hchk : checkY (α := ℝ) y = true := by
    unfold checkY; rw [r_le, r_le, r_two]; simp [h1, h2]
  unfold unproj unprojT
  simp only [hchk, Bool.not_true, Bool.false_eq_true, if_false]

theorem unproj_none (x y : ℝ) (h : y < -2 ∨ 2 < y) : unproj x y = none := by
  have hchk : checkY (α := ℝ) y = false := by
    unfold checkY; rw [r_le, r_le, r_two]
    rcases h with h | h
    · have : ¬ (-2 ≤ y) := by linarith
      simp [this]
    · have : ¬ (y ≤ 2) := by linarith
      simp [this]
  unfold unproj
  simp [hchk]

/-- a `mapM` in `Option` whose steps all succeed -/
theorem mapM_some {α β : Type} (f : α → Option β) (g : α → β) (l : List α) (h : ∀ a ∈ l, f a = some (g a)) :
    l.mapM f = some (l.map g) := by
  induction l with
  | nil => rfl
  | cons a l ih =>
    rw [List.mapM_cons, h a (by simp), ih (fun x hx => h x (by simp [hx]))]
    rfl

/-! ## 2. the four vertices -/

theorem norm8_norm8_add (x δ : ℝ) (h : x < 0 → x + δ < 0 ∧ 0 ≤ x + 8 + δ) : norm8 (norm8 x + δ) = norm8 (x + δ) := by
  unfold norm8
  by_cases hx : x < 0
  · obtain ⟨h1, h2⟩ := h hx
    have : ¬ (x + 8 + δ < 0) := by linarith
    simp only [hx, h1, this, if_true, if_false]; ring
  · simp only [hx, if_false]

theorem norm8_of_nonneg (x : ℝ) (h : 0 ≤ x) : norm8 x = x := by
  unfold norm8; simp [not_lt.mpr h]

/-- the plane point of the vertex of direction `k` (`S = 0, E = 1, N = 2, W = 3`) of the cell `(b, i, j)`:
    `(cx, cy − 1/n)`, `(cx + 1/n, cy)`, `(cx, cy + 1/n)`, `(cx − 1/n, cy)` with the abscissa reduced modulo 8; for the east
    vertex the reduction is applied to the centre, so that its abscissa lies in `(0, 8]` (it is `8`, not `0`, for the cells
    `j = i + 1` of base cell 4) -/
noncomputable def vtx (d b i j k : ℕ) : ℝ × ℝ :=
  match k with
  | 0 => (norm8 (cellCx d b i j), cellCy d b i j - 1 / 2 ^ d)
  | 1 => (norm8 (cellCx d b i j) + 1 / 2 ^ d, cellCy d b i j)
  | 2 => (norm8 (cellCx d b i j), cellCy d b i j + 1 / 2 ^ d)
  | _ => (norm8 (cellCx d b i j - 1 / 2 ^ d), cellCy d b i j)

/-- offsets of the code, over ℝ -/
noncomputable def offWe (k : ℕ) (o : ℝ) : ℝ := if k = 3 then -o else if k = 1 then o else 0
noncomputable def offSn (k : ℕ) (o : ℝ) : ℝ := if k = 0 then -o else if k = 2 then o else 0

theorem r_offsetWe (k : ℕ) (o : ℝ) : offsetWe k o = offWe k o := by
  unfold offsetWe offWe; simp only [beq_iff_eq, r_zero]
theorem r_offsetSn (k : ℕ) (o : ℝ) : offsetSn k o = offSn k o := by
  unfold offsetSn offSn; simp only [beq_iff_eq, r_zero]

theorem r_oon (d : ℕ) : (Num.one : ℝ) / Num.ofNat (Layer.nside d) = 1 / 2 ^ d := by
  rw [r_one, r_ofNat, nside_real]

/-- vertex `k` relative to a centre `c`, abscissa not reduced -/
noncomputable def rawVtx (c : ℝ × ℝ) (o : ℝ) (k : ℕ) : ℝ × ℝ := (c.1 + offWe k o, c.2 + offSn k o)

/-- reducing the raw vertices around the reduced centre gives the vertices `vtx` -/
theorem rawVtx_norm (d b i j k : ℕ) (hb : b < 12) (hi : i < 2 ^ d) (hj : j < 2 ^ d) (hk : k < 4) :
    (norm8 (rawVtx (norm8 (cellCx d b i j), cellCy d b i j) (1 / 2 ^ d) k).1,
      (rawVtx (norm8 (cellCx d b i j), cellCy d b i j) (1 / 2 ^ d) k).2) = vtx d b i j k := by
  obtain ⟨c1, c2, c3, c4, c5⟩ := center_ranges d b i j hb hi hj
  have ho : 0 < 1 / (2 : ℝ) ^ d := by positivity
  have hn0 : 0 ≤ norm8 (cellCx d b i j) := by unfold norm8; split_ifs <;> linarith
  have w0 : ∀ o : ℝ, offWe 0 o = 0 := fun o => by simp [offWe]
  have w1 : ∀ o : ℝ, offWe 1 o = o := fun o => by simp [offWe]
  have w2 : ∀ o : ℝ, offWe 2 o = 0 := fun o => by simp [offWe]
  have w3 : ∀ o : ℝ, offWe 3 o = -o := fun o => by simp [offWe]
  have s0 : ∀ o : ℝ, offSn 0 o = -o := fun o => by simp [offSn]
  have s1 : ∀ o : ℝ, offSn 1 o = 0 := fun o => by simp [offSn]
  have s2 : ∀ o : ℝ, offSn 2 o = o := fun o => by simp [offSn]
  have s3 : ∀ o : ℝ, offSn 3 o = 0 := fun o => by simp [offSn]
  unfold rawVtx
  interval_cases k
  · simp only [w0, s0, vtx, add_zero, norm8_of_nonneg _ hn0, sub_eq_add_neg]
  · simp only [w1, s1, vtx, add_zero]
    rw [norm8_of_nonneg _ (by positivity)]
  · simp only [w2, s2, vtx, add_zero, norm8_of_nonneg _ hn0]
  · simp only [w3, s3, vtx, add_zero]
    have := norm8_norm8_add (cellCx d b i j) (-(1 / 2 ^ d)) (fun h => by
      have := cellCx_neg_le d b i j hb hi hj h
      constructor <;> linarith)
    rw [this, sub_eq_add_neg]

theorem vtx_y_range (d b i j k : ℕ) (hb : b < 12) (hi : i < 2 ^ d) (hj : j < 2 ^ d) :
    -2 ≤ (vtx d b i j k).2 ∧ (vtx d b i j k).2 ≤ 2 := by
  obtain ⟨c1, c2, c3, c4, c5⟩ := center_ranges d b i j hb hi hj
  have ho : 0 < 1 / (2 : ℝ) ^ d := by positivity
  unfold vtx
  split <;> constructor <;> simp only <;> linarith

/-- abscissas of the vertices: S, N, W in `[0, 8)`, E in `(0, 8]` -/
theorem vtx_x_range (d b i j k : ℕ) (hb : b < 12) (hi : i < 2 ^ d) (hj : j < 2 ^ d) :
    0 ≤ (vtx d b i j k).1 ∧ (vtx d b i j k).1 ≤ 8 ∧ (k ≠ 1 → (vtx d b i j k).1 < 8) := by
  obtain ⟨c1, c2, c3, c4, c5⟩ := center_ranges d b i j hb hi hj
  have ho : 0 < 1 / (2 : ℝ) ^ d := by positivity
  have hn0 : 0 ≤ norm8 (cellCx d b i j) ∧ norm8 (cellCx d b i j) ≤ 8 - 1 / 2 ^ d := by
    unfold norm8; split_ifs with h
    · have := cellCx_neg_le d b i j hb hi hj h
      constructor <;> linarith
    · constructor <;> linarith
  have hw := norm8_range (cellCx d b i j - 1 / 2 ^ d) (by linarith) (by linarith)
  unfold vtx
  split
  · exact ⟨hn0.1, by linarith, fun _ => by linarith⟩
  · exact ⟨by linarith, by linarith, fun h => absurd rfl h⟩
  · exact ⟨hn0.1, by linarith, fun _ => by linarith⟩
  · exact ⟨hw.1, by linarith, fun _ => hw.2⟩

/-- **`vertices` in the plane**: `vertices` un-projects the four plane points `vtx 0..3` -/
theorem vertices_plane (cfg : Cfg) (d hash b i j : ℕ) (hh : hash < Layer.nHash d)
    (hdec : Layer.decodeHash cfg d hash = some ⟨b, i, j⟩) (hb : b < 12) (hi : i < 2 ^ d) (hj : j < 2 ^ d) :
    vertices (α := ℝ) cfg d hash =
      some [unprojT (vtx d b i j 0).1 (vtx d b i j 0).2, unprojT (vtx d b i j 1).1 (vtx d b i j 1).2,
            unprojT (vtx d b i j 2).1 (vtx d b i j 2).2, unprojT (vtx d b i j 3).1 (vtx d b i j 3).2] := by
  unfold vertices
  rw [center_eq cfg d hash b i j hh hdec hb]
  simp only [Option.bind_some, r_oon, r_ensures]
  have h3 := rawVtx_norm d b i j 3 hb hi hj (by decide)
  simp only [rawVtx, offWe, offSn] at h3
  norm_num at h3
  have e3 : norm8 (norm8 (cellCx d b i j) - 1 / 2 ^ d) = (vtx d b i j 3).1 := by
    rw [← h3]; simp [sub_eq_add_neg]
  rw [e3]
  have hy := fun k => vtx_y_range d b i j k hb hi hj
  have u0 := unproj_eq (vtx d b i j 0).1 (vtx d b i j 0).2 (hy 0).1 (hy 0).2
  have u1 := unproj_eq (vtx d b i j 1).1 (vtx d b i j 1).2 (hy 1).1 (hy 1).2
  have u2 := unproj_eq (vtx d b i j 2).1 (vtx d b i j 2).2 (hy 2).1 (hy 2).2
  have u3 := unproj_eq (vtx d b i j 3).1 (vtx d b i j 3).2 (hy 3).1 (hy 3).2
  simp only [vtx] at u0 u1 u2 u3 ⊢
  rw [u0, u1, u2, u3]
  rfl

/-- **`vertex` in the plane**: `vertex … k` un-projects the plane point `vtx k` -/
theorem vertex_plane (cfg : Cfg) (d hash b i j k : ℕ) (hh : hash < Layer.nHash d)
    (hdec : Layer.decodeHash cfg d hash = some ⟨b, i, j⟩) (hb : b < 12) (hi : i < 2 ^ d) (hj : j < 2 ^ d) (hk : k < 4) :
    vertex (α := ℝ) cfg d hash k = some (unprojT (vtx d b i j k).1 (vtx d b i j k).2) := by
  unfold vertex vertexLonLat
  rw [center_eq cfg d hash b i j hh hdec hb]
  simp only [Option.bind_some, r_oon, r_ensures, r_offsetWe, r_offsetSn]
  have h := rawVtx_norm d b i j k hb hi hj hk
  simp only [rawVtx] at h
  have hy := vtx_y_range d b i j k hb hi hj
  rw [← h] at hy ⊢
  exact unproj_eq _ _ hy.1 hy.2

/-- **`vertices_agree`**: the four vertices are the same whichever accessor returns them — `vertices` is the list of
    the four `vertex … k` (same plane points given to the same `unproj`), and none of them fails -/
theorem vertices_agree (cfg : Cfg) (d hash b i j : ℕ) (hh : hash < Layer.nHash d)
    (hdec : Layer.decodeHash cfg d hash = some ⟨b, i, j⟩) (hb : b < 12) (hi : i < 2 ^ d) (hj : j < 2 ^ d) :
    ∃ s e n w : ℝ × ℝ, vertices (α := ℝ) cfg d hash = some [s, e, n, w] ∧
      vertex (α := ℝ) cfg d hash 0 = some s ∧ vertex (α := ℝ) cfg d hash 1 = some e ∧
      vertex (α := ℝ) cfg d hash 2 = some n ∧ vertex (α := ℝ) cfg d hash 3 = some w :=
  ⟨_, _, _, _, vertices_plane cfg d hash b i j hh hdec hb hi hj,
    vertex_plane cfg d hash b i j 0 hh hdec hb hi hj (by decide), vertex_plane cfg d hash b i j 1 hh hdec hb hi hj (by decide),
    vertex_plane cfg d hash b i j 2 hh hdec hb hi hj (by decide), vertex_plane cfg d hash b i j 3 hh hdec hb hi hj (by decide)⟩

/-! ## 3. `center` and `sph_coo` -/

theorem norm8_center_range (d b i j : ℕ) (hb : b < 12) (hi : i < 2 ^ d) (hj : j < 2 ^ d) :
    0 ≤ norm8 (cellCx d b i j) ∧ norm8 (cellCx d b i j) ≤ 8 - 1 / 2 ^ d := by
  obtain ⟨c1, c2, c3, c4, c5⟩ := center_ranges d b i j hb hi hj
  have ho : 0 < 1 / (2 : ℝ) ^ d := by positivity
  unfold norm8; split_ifs with h
  · have := cellCx_neg_le d b i j hb hi hj h
    constructor <;> linarith
  · constructor <;> linarith

/-- `center` un-projects the centre of the specification -/
theorem center_plane (cfg : Cfg) (d hash b i j : ℕ) (hh : hash < Layer.nHash d)
    (hdec : Layer.decodeHash cfg d hash = some ⟨b, i, j⟩) (hb : b < 12) (hi : i < 2 ^ d) (hj : j < 2 ^ d) :
    center (α := ℝ) cfg d hash = some (unprojT (norm8 (cellCx d b i j)) (cellCy d b i j)) := by
  obtain ⟨c1, c2, c3, c4, c5⟩ := center_ranges d b i j hb hi hj
  have ho : 0 < 1 / (2 : ℝ) ^ d := by positivity
  unfold center
  rw [center_eq cfg d hash b i j hh hdec hb]
  exact unproj_eq _ _ (by linarith) (by linarith)

/-- the plane point of the position `(dx, dy)` (offsets along the south-east and south-west axes, in cell units) -/
noncomputable def cooPt (d b i j : ℕ) (dx dy : ℝ) : ℝ × ℝ :=
  (norm8 (cellCx d b i j + (dx - dy) / 2 ^ d), cellCy d b i j + (dx + dy - 1) / 2 ^ d)

theorem abs_diamond_unit (x y : ℝ) (hx0 : 0 ≤ x) (hx1 : x ≤ 1) (hy0 : 0 ≤ y) (hy1 : y ≤ 1) :
    |x - y| + |x + y - 1| ≤ 1 := by
  rcases abs_cases (x - y) with ⟨e1, _⟩ | ⟨e1, _⟩ <;> rcases abs_cases (x + y - 1) with ⟨e2, _⟩ | ⟨e2, _⟩ <;>
    rw [e1, e2] <;> linarith

/-- **`sph_coo_plane`**: for `dx, dy ∈ [0, 1)`, `sph_coo` un-projects the plane point
    `(cx + (dx − dy)/n mod 8, cy + (dx + dy − 1)/n)`; this point is in `[0, 8) × [-2, 2]` and, before the reduction
    modulo 8, in the closed diamond of the cell -/
theorem sph_coo_plane (cfg : Cfg) (d hash b i j : ℕ) (dx dy : ℝ) (hh : hash < Layer.nHash d)
    (hdec : Layer.decodeHash cfg d hash = some ⟨b, i, j⟩) (hb : b < 12) (hi : i < 2 ^ d) (hj : j < 2 ^ d)
    (hx0 : 0 ≤ dx) (hx1 : dx < 1) (hy0 : 0 ≤ dy) (hy1 : dy < 1) :
    sphCoo (α := ℝ) cfg d hash dx dy = some (unprojT (cooPt d b i j dx dy).1 (cooPt d b i j dx dy).2) ∧
    0 ≤ (cooPt d b i j dx dy).1 ∧ (cooPt d b i j dx dy).1 < 8 ∧
    InDiamond (cellCx d b i j) (cellCy d b i j) (1 / 2 ^ d)
      (cellCx d b i j + (dx - dy) / 2 ^ d) (cellCy d b i j + (dx + dy - 1) / 2 ^ d) := by
  obtain ⟨c1, c2, c3, c4, c5⟩ := center_ranges d b i j hb hi hj
  have hp := pow_pos' d
  have ho : 0 < 1 / (2 : ℝ) ^ d := by positivity
  have hdia := abs_diamond_unit dx dy hx0 hx1.le hy0 hy1.le
  -- the two offsets, bounded by the half-diagonal
  have hl : |(dx - dy) / 2 ^ d| < 1 / 2 ^ d := by
    rw [abs_div, abs_of_pos hp, div_lt_div_iff_of_pos_right hp, abs_lt]; constructor <;> linarith
  have hh' : |(dx + dy - 1) / 2 ^ d| ≤ 1 / 2 ^ d := by
    rw [abs_div, abs_of_pos hp, div_le_div_iff_of_pos_right hp, abs_le]; constructor <;> linarith
  obtain ⟨hl1, hl2⟩ := abs_lt.mp hl
  obtain ⟨hh1, hh2⟩ := abs_le.mp hh'
  have hin : InDiamond (cellCx d b i j) (cellCy d b i j) (1 / 2 ^ d)
      (cellCx d b i j + (dx - dy) / 2 ^ d) (cellCy d b i j + (dx + dy - 1) / 2 ^ d) := by
    unfold InDiamond
    rw [add_sub_cancel_left, add_sub_cancel_left, abs_div, abs_div, abs_of_pos hp, ← add_div,
      div_le_div_iff_of_pos_right hp]
    exact hdia
  have hnorm : norm8 (norm8 (cellCx d b i j) + (dx - dy) / 2 ^ d) = norm8 (cellCx d b i j + (dx - dy) / 2 ^ d) :=
    norm8_norm8_add _ _ (fun h => by
      have := cellCx_neg_le d b i j hb hi hj h
      constructor <;> linarith)
  have hr := norm8_range (cellCx d b i j + (dx - dy) / 2 ^ d) (by linarith) (by linarith)
  refine ⟨?_, hr.1, hr.2, hin⟩
  unfold sphCoo
  have g1 : (Num.le (Num.zero : ℝ) dx && Num.lt dx (Num.one : ℝ)) = true := by
    rw [r_le, r_lt, r_zero, r_one]; simp [hx0, hx1]
  have g2 : (Num.le (Num.zero : ℝ) dy && Num.lt dy (Num.one : ℝ)) = true := by
    rw [r_le, r_lt, r_zero, r_one]; simp [hy0, hy1]
  simp only [g1, g2, Bool.not_true, Bool.false_eq_true, if_false]
  rw [center_eq cfg d hash b i j hh hdec hb]
  simp only [Option.bind_some, r_ensures, r_one, r_ofNat, nside_real]
  have e1 : (dx - dy) * (1 / (2 : ℝ) ^ d) = (dx - dy) / 2 ^ d := by ring
  have e2 : (dx + dy - 1) * (1 / (2 : ℝ) ^ d) = (dx + dy - 1) / 2 ^ d := by ring
  rw [e1, e2, hnorm]
  exact unproj_eq _ _ (by linarith) (by linarith)

/-- the middle of the cell is its centre: `sph_coo(h, 1/2, 1/2) = center(h)` -/
theorem sph_coo_half (cfg : Cfg) (d hash b i j : ℕ) (hh : hash < Layer.nHash d)
    (hdec : Layer.decodeHash cfg d hash = some ⟨b, i, j⟩) (hb : b < 12) (hi : i < 2 ^ d) (hj : j < 2 ^ d) :
    sphCoo (α := ℝ) cfg d hash (1 / 2) (1 / 2) = center (α := ℝ) cfg d hash := by
  rw [(sph_coo_plane cfg d hash b i j (1 / 2) (1 / 2) hh hdec hb hi hj (by norm_num) (by norm_num) (by norm_num)
    (by norm_num)).1, center_plane cfg d hash b i j hh hdec hb hi hj]
  unfold cooPt
  norm_num

/-! ## 4. paths along the sides and the grid -/

/-- point number `t` of the path from vertex `f` to vertex `g` in `nseg` steps, around the centre `c`:
    `F + (t/nseg)·(G − F)`, abscissa not reduced -/
noncomputable def sidePt (c : ℝ × ℝ) (o : ℝ) (f g nseg t : ℕ) : ℝ × ℝ :=
  ((rawVtx c o f).1 + (t : ℝ) / nseg * ((rawVtx c o g).1 - (rawVtx c o f).1),
   (rawVtx c o f).2 + (t : ℝ) / nseg * ((rawVtx c o g).2 - (rawVtx c o f).2))

theorem offWe_abs (k : ℕ) (o : ℝ) (ho : 0 ≤ o) : -o ≤ offWe k o ∧ offWe k o ≤ o := by
  unfold offWe; split_ifs <;> constructor <;> linarith
theorem offSn_abs (k : ℕ) (o : ℝ) (ho : 0 ≤ o) : -o ≤ offSn k o ∧ offSn k o ≤ o := by
  unfold offSn; split_ifs <;> constructor <;> linarith

theorem lam_range (nseg t : ℕ) (ht : t ≤ nseg) : 0 ≤ (t : ℝ) / nseg ∧ (t : ℝ) / nseg ≤ 1 := by
  have h0 : (0 : ℝ) ≤ t := Nat.cast_nonneg t
  have h1 : (t : ℝ) ≤ nseg := by exact_mod_cast ht
  exact ⟨div_nonneg h0 (Nat.cast_nonneg _), div_le_one_of_le₀ h1 (Nat.cast_nonneg _)⟩

/-- `path_along_cell_side_internal` un-projects the points `sidePt`, abscissa reduced -/
theorem pathSide_plane (d : ℕ) (c : ℝ × ℝ) (f g : ℕ) (incl : Bool) (nseg : ℕ) :
    pathSideInternal (α := ℝ) d c f g incl nseg =
      (List.range (if incl then nseg + 1 else nseg)).mapM fun t =>
        unproj (norm8 (sidePt c (1 / 2 ^ d) f g nseg t).1) (sidePt c (1 / 2 ^ d) f g nseg t).2 := by
  unfold pathSideInternal
  simp only [r_one, r_ofNat, nside_real, r_ensures, r_offsetWe, r_offsetSn]
  congr 1
  funext t
  unfold sidePt rawVtx
  congr 1 <;> ring_nf

theorem sidePt_zero (c : ℝ × ℝ) (o : ℝ) (f g nseg : ℕ) : sidePt c o f g nseg 0 = rawVtx c o f := by
  unfold sidePt; simp

theorem sidePt_last (c : ℝ × ℝ) (o : ℝ) (f g nseg : ℕ) (h : 0 < nseg) : sidePt c o f g nseg nseg = rawVtx c o g := by
  have : (nseg : ℝ) ≠ 0 := by exact_mod_cast (Nat.pos_iff_ne_zero.mp h)
  unfold sidePt; rw [div_self this]; ext <;> simp

/-- the points are on the segment between the two (raw) vertices: parameter `t/nseg ∈ [0, 1]` -/
theorem sidePt_on_segment (c : ℝ × ℝ) (o : ℝ) (f g nseg t : ℕ) (ht : t ≤ nseg) :
    ∃ lam : ℝ, 0 ≤ lam ∧ lam ≤ 1 ∧
      sidePt c o f g nseg t = ((1 - lam) * (rawVtx c o f).1 + lam * (rawVtx c o g).1,
                               (1 - lam) * (rawVtx c o f).2 + lam * (rawVtx c o g).2) := by
  obtain ⟨h0, h1⟩ := lam_range nseg t ht
  refine ⟨(t : ℝ) / nseg, h0, h1, ?_⟩
  unfold sidePt; ext <;> simp only <;> ring

theorem sidePt_rel (c : ℝ × ℝ) (o : ℝ) (f g nseg t : ℕ) :
    (sidePt c o f g nseg t).1 - c.1 = (1 - (t : ℝ) / nseg) * offWe f o + (t : ℝ) / nseg * offWe g o ∧
    (sidePt c o f g nseg t).2 - c.2 = (1 - (t : ℝ) / nseg) * offSn f o + (t : ℝ) / nseg * offSn g o := by
  unfold sidePt rawVtx; constructor <;> simp only <;> ring

theorem off_l1 (k : ℕ) (o : ℝ) (ho : 0 ≤ o) : |offWe k o| + |offSn k o| ≤ o := by
  unfold offWe offSn
  split_ifs <;> simp [abs_of_nonneg ho] <;> omega

/-- every point of a path lies in the closed diamond of centre `c` and half-diagonal `o`, whatever the two directions -/
theorem sidePt_in_diamond (c : ℝ × ℝ) (o : ℝ) (ho : 0 ≤ o) (f g nseg t : ℕ) (ht : t ≤ nseg) :
    InDiamond c.1 c.2 o (sidePt c o f g nseg t).1 (sidePt c o f g nseg t).2 := by
  obtain ⟨h0, h1⟩ := lam_range nseg t ht
  obtain ⟨e1, e2⟩ := sidePt_rel c o f g nseg t
  unfold InDiamond
  rw [e1, e2]
  set lam := (t : ℝ) / nseg
  have hf := off_l1 f o ho
  have hg := off_l1 g o ho
  have a1 := abs_add_le ((1 - lam) * offWe f o) (lam * offWe g o)
  have a2 := abs_add_le ((1 - lam) * offSn f o) (lam * offSn g o)
  rw [abs_mul, abs_mul, abs_of_nonneg (sub_nonneg.mpr h1), abs_of_nonneg h0] at a1 a2
  nlinarith [mul_le_mul_of_nonneg_left hf (sub_nonneg.mpr h1), mul_le_mul_of_nonneg_left hg h0]

/-- **`path_points_on_border`**: when the two directions are adjacent cardinal points, every point of the path lies on
    the border of the diamond of centre `c` and half-diagonal `o` -/
theorem sidePt_on_border (c : ℝ × ℝ) (o : ℝ) (ho : 0 ≤ o) (f g nseg t : ℕ) (ht : t ≤ nseg) (hf : f < 4) (hg : g < 4)
    (hadj : (f + g) % 2 = 1) : OnDiamond c.1 c.2 o (sidePt c o f g nseg t).1 (sidePt c o f g nseg t).2 := by
  obtain ⟨h0, h1⟩ := lam_range nseg t ht
  obtain ⟨e1, e2⟩ := sidePt_rel c o f g nseg t
  unfold OnDiamond
  rw [e1, e2]
  set lam := (t : ℝ) / nseg
  have h1' : 0 ≤ 1 - lam := sub_nonneg.mpr h1
  have hno : |-o| = o := by rw [abs_neg, abs_of_nonneg ho]
  have hpo : |o| = o := abs_of_nonneg ho
  have hcases : (f = 0 ∨ f = 2) ∧ (g = 1 ∨ g = 3) ∨ (f = 1 ∨ f = 3) ∧ (g = 0 ∨ g = 2) := by omega
  rcases hcases with ⟨hf | hf, hg | hg⟩ | ⟨hf | hf, hg | hg⟩ <;> subst hf <;> subst hg <;>
    simp [offWe, offSn, abs_mul, abs_of_nonneg h0, abs_of_nonneg h1', hpo] <;> ring

/-- the list of sphere points of a side path: un-projections of `sidePt`, abscissa reduced modulo 8 -/
noncomputable def sideList (d : ℕ) (c : ℝ × ℝ) (f g npts nseg : ℕ) : List (ℝ × ℝ) :=
  (List.range npts).map fun t =>
    unprojT (norm8 (sidePt c (1 / 2 ^ d) f g nseg t).1) (sidePt c (1 / 2 ^ d) f g nseg t).2

theorem pathSide_some (d : ℕ) (c : ℝ × ℝ) (f g : ℕ) (incl : Bool) (nseg : ℕ)
    (hc1 : -2 + 1 / 2 ^ d ≤ c.2) (hc2 : c.2 ≤ 2 - 1 / 2 ^ d) :
    pathSideInternal (α := ℝ) d c f g incl nseg = some (sideList d c f g (if incl then nseg + 1 else nseg) nseg) := by
  have ho : 0 < 1 / (2 : ℝ) ^ d := by positivity
  rw [pathSide_plane]
  apply mapM_some
  intro t ht
  have ht' : t ≤ nseg := by
    have := List.mem_range.mp ht
    cases incl <;> simp at this <;> omega
  have hin := sidePt_in_diamond c (1 / 2 ^ d) ho.le f g nseg t ht'
  unfold InDiamond at hin
  have hy : |(sidePt c (1 / 2 ^ d) f g nseg t).2 - c.2| ≤ 1 / 2 ^ d := by
    have := abs_nonneg ((sidePt c (1 / 2 ^ d) f g nseg t).1 - c.1)
    linarith
  obtain ⟨y1, y2⟩ := abs_le.mp hy
  exact unproj_eq _ _ (by linarith) (by linarith)

/-- `path_along_cell_side` for a valid cell: all points succeed; they are the un-projections of the points `sidePt`
    around the centre of the cell (abscissa reduced modulo 8), which start at vertex `f` (`sidePt_zero`), end at
    vertex `g` when it is included (`sidePt_last`), all lie on the segment between them (`sidePt_on_segment`), and on
    the border of the cell when the two vertices are adjacent (`sidePt_on_border`). -/
theorem path_side_plane (cfg : Cfg) (d hash b i j f g : ℕ) (incl : Bool) (nseg : ℕ) (hh : hash < Layer.nHash d)
    (hdec : Layer.decodeHash cfg d hash = some ⟨b, i, j⟩) (hb : b < 12) (hi : i < 2 ^ d) (hj : j < 2 ^ d) :
    pathAlongCellSide (α := ℝ) cfg d hash f g incl nseg =
      some (sideList d (norm8 (cellCx d b i j), cellCy d b i j) f g (if incl then nseg + 1 else nseg) nseg) := by
  obtain ⟨c1, c2, c3, c4, c5⟩ := center_ranges d b i j hb hi hj
  unfold pathAlongCellSide
  rw [center_eq cfg d hash b i j hh hdec hb, Option.bind_some]
  exact pathSide_some d _ f g incl nseg c4 c5

/-- end points of a side path are the vertices returned by `vertex` (same plane points given to `unproj`) -/
theorem path_side_endpoints (cfg : Cfg) (d hash b i j f g : ℕ) (nseg : ℕ) (hh : hash < Layer.nHash d)
    (hdec : Layer.decodeHash cfg d hash = some ⟨b, i, j⟩) (hb : b < 12) (hi : i < 2 ^ d) (hj : j < 2 ^ d)
    (hf : f < 4) (hg : g < 4) (hn : 0 < nseg) :
    ∃ l, pathAlongCellSide (α := ℝ) cfg d hash f g true nseg = some l ∧ l.length = nseg + 1 ∧
      l[0]? = vertex (α := ℝ) cfg d hash f ∧ l[nseg]? = vertex (α := ℝ) cfg d hash g := by
  refine ⟨_, path_side_plane cfg d hash b i j f g true nseg hh hdec hb hi hj, ?_, ?_, ?_⟩
  · simp [sideList]
  · rw [vertex_plane cfg d hash b i j f hh hdec hb hi hj hf, ← rawVtx_norm d b i j f hb hi hj hf]
    simp [sideList, sidePt_zero]
  · rw [vertex_plane cfg d hash b i j g hh hdec hb hi hj hg, ← rawVtx_norm d b i j g hb hi hj hg]
    simp [sideList, sidePt_last _ _ _ _ _ hn]

/-- **`path_along_cell_edge`** for a valid cell: the concatenation of the four side paths (end vertex excluded)
    through the cycle of vertices starting at `start`, clockwise or counter-clockwise -/
theorem path_edge_plane (cfg : Cfg) (d hash b i j start : ℕ) (cw : Bool) (nseg : ℕ) (hh : hash < Layer.nHash d)
    (hdec : Layer.decodeHash cfg d hash = some ⟨b, i, j⟩) (hb : b < 12) (hi : i < 2 ^ d) (hj : j < 2 ^ d) :
    let nx := if cw then nextClockwise else nextCounterClockwise
    let c : ℝ × ℝ := (norm8 (cellCx d b i j), cellCy d b i j)
    pathAlongCellEdge (α := ℝ) cfg d hash start cw nseg =
      some (sideList d c start (nx start) nseg nseg ++ sideList d c (nx start) (nx (nx start)) nseg nseg ++
            sideList d c (nx (nx start)) (nx (nx (nx start))) nseg nseg ++
            sideList d c (nx (nx (nx start))) start nseg nseg) := by
  obtain ⟨c1, c2, c3, c4, c5⟩ := center_ranges d b i j hb hi hj
  have hs := fun f g => pathSide_some d (norm8 (cellCx d b i j), cellCy d b i j) f g false nseg c4 c5
  simp only [Bool.false_eq_true, if_false] at hs
  intro nx c
  unfold pathAlongCellEdge
  rw [center_eq cfg d hash b i j hh hdec hb, Option.bind_some]
  simp only [hs]
  rfl

theorem sideList_length (d : ℕ) (c : ℝ × ℝ) (f g n nseg : ℕ) : (sideList d c f g n nseg).length = n := by
  simp [sideList]

theorem sideList_head (d : ℕ) (c : ℝ × ℝ) (f g n nseg : ℕ) (hn : 0 < n) :
    (sideList d c f g n nseg)[0]? = some (unprojT (norm8 (rawVtx c (1 / 2 ^ d) f).1) (rawVtx c (1 / 2 ^ d) f).2) := by
  simp [sideList, sidePt_zero, hn]

theorem next_lt (cw : Bool) (k : ℕ) : (if cw then nextClockwise else nextCounterClockwise) k < 4 := by
  cases cw
  · simp only [Bool.false_eq_true, if_false]; unfold nextCounterClockwise; split <;> decide
  · simp only [if_true]; unfold nextClockwise; split <;> decide

/-- the path along the whole edge passes through the four vertices returned by `vertex`, at the indices
    `0, nseg, 2·nseg, 3·nseg`, in the order of the cycle -/
theorem path_edge_vertices (cfg : Cfg) (d hash b i j start : ℕ) (cw : Bool) (nseg : ℕ) (hh : hash < Layer.nHash d)
    (hdec : Layer.decodeHash cfg d hash = some ⟨b, i, j⟩) (hb : b < 12) (hi : i < 2 ^ d) (hj : j < 2 ^ d)
    (hs : start < 4) (hn : 0 < nseg) :
    let nx := if cw then nextClockwise else nextCounterClockwise
    ∃ l, pathAlongCellEdge (α := ℝ) cfg d hash start cw nseg = some l ∧ l.length = 4 * nseg ∧
      l[0]? = vertex (α := ℝ) cfg d hash start ∧ l[nseg]? = vertex (α := ℝ) cfg d hash (nx start) ∧
      l[2 * nseg]? = vertex (α := ℝ) cfg d hash (nx (nx start)) ∧
      l[3 * nseg]? = vertex (α := ℝ) cfg d hash (nx (nx (nx start))) := by
  intro nx
  have hv := fun k hk => vertex_plane cfg d hash b i j k hh hdec hb hi hj hk
  have hr := fun k hk => rawVtx_norm d b i j k hb hi hj hk
  have h1 : nx start < 4 := next_lt cw _
  have h2 : nx (nx start) < 4 := next_lt cw _
  have h3 : nx (nx (nx start)) < 4 := next_lt cw _
  refine ⟨_, path_edge_plane cfg d hash b i j start cw nseg hh hdec hb hi hj, ?_, ?_, ?_, ?_, ?_⟩
  · simp only [List.length_append, sideList_length]; omega
  · rw [hv _ hs, ← hr _ hs]
    rw [List.append_assoc, List.append_assoc, List.getElem?_append_left (by rw [sideList_length]; exact hn)]
    exact sideList_head _ _ _ _ _ _ hn
  · rw [hv _ h1, ← hr _ h1]
    rw [List.append_assoc, List.append_assoc, List.getElem?_append_right (by rw [sideList_length]),
      sideList_length, Nat.sub_self, List.getElem?_append_left (by rw [sideList_length]; exact hn)]
    exact sideList_head _ _ _ _ _ _ hn
  · rw [hv _ h2, ← hr _ h2]
    rw [List.append_assoc, List.append_assoc, List.getElem?_append_right (by rw [sideList_length]; omega),
      sideList_length, List.getElem?_append_right (by rw [sideList_length]; omega), sideList_length,
      show 2 * nseg - nseg - nseg = 0 by omega, List.getElem?_append_left (by rw [sideList_length]; exact hn)]
    exact sideList_head _ _ _ _ _ _ hn
  · rw [hv _ h3, ← hr _ h3]
    rw [List.append_assoc, List.append_assoc, List.getElem?_append_right (by rw [sideList_length]; omega),
      sideList_length, List.getElem?_append_right (by rw [sideList_length]; omega), sideList_length,
      List.getElem?_append_right (by rw [sideList_length]; omega), sideList_length,
      show 3 * nseg - nseg - nseg - nseg = 0 by omega]
    exact sideList_head _ _ _ _ _ _ hn

/-- plane point number `t` of the grid: `(c.1 + (x − y)·o, c.2 + (x + y − 1)·o)` with `x = (t / (nseg+1)) / nseg`,
    `y = (t % (nseg+1)) / nseg`; the abscissa is **not** reduced modulo 8 by the code -/
noncomputable def gridPt (c : ℝ × ℝ) (o : ℝ) (nseg t : ℕ) : ℝ × ℝ :=
  (c.1 + (((t / (nseg + 1) : ℕ) : ℝ) / nseg - ((t % (nseg + 1) : ℕ) : ℝ) / nseg) * o,
   c.2 + (((t / (nseg + 1) : ℕ) : ℝ) / nseg + ((t % (nseg + 1) : ℕ) : ℝ) / nseg - 1) * o)

/-- **`grid_points_in_closed_cell`**: every plane point of the grid lies in the closed diamond -/
theorem gridPt_in_diamond (c : ℝ × ℝ) (o : ℝ) (ho : 0 ≤ o) (nseg t : ℕ) (ht : t < (nseg + 1) * (nseg + 1)) :
    InDiamond c.1 c.2 o (gridPt c o nseg t).1 (gridPt c o nseg t).2 := by
  have hi : t / (nseg + 1) ≤ nseg := by
    have := (Nat.div_lt_iff_lt_mul (by omega : 0 < nseg + 1)).mpr ht
    omega
  have hj : t % (nseg + 1) ≤ nseg := by
    have := Nat.mod_lt t (by omega : 0 < nseg + 1)
    omega
  obtain ⟨x0, x1⟩ := lam_range nseg _ hi
  obtain ⟨y0, y1⟩ := lam_range nseg _ hj
  have h := abs_diamond_unit _ _ x0 x1 y0 y1
  unfold InDiamond gridPt
  simp only [add_sub_cancel_left]
  rw [abs_mul, abs_mul, abs_of_nonneg ho, ← add_mul]
  nlinarith

/-- `grid` for a valid cell: all points succeed and are the un-projections of the plane points `gridPt` around the
    centre of the cell -/
theorem grid_plane (cfg : Cfg) (d hash b i j nseg : ℕ) (hh : hash < Layer.nHash d)
    (hdec : Layer.decodeHash cfg d hash = some ⟨b, i, j⟩) (hb : b < 12) (hi : i < 2 ^ d) (hj : j < 2 ^ d) :
    grid (α := ℝ) cfg d hash nseg =
      some ((List.range ((nseg + 1) * (nseg + 1))).map fun t =>
        unprojT (gridPt (norm8 (cellCx d b i j), cellCy d b i j) (1 / 2 ^ d) nseg t).1
          (gridPt (norm8 (cellCx d b i j), cellCy d b i j) (1 / 2 ^ d) nseg t).2) := by
  obtain ⟨c1, c2, c3, c4, c5⟩ := center_ranges d b i j hb hi hj
  have ho : 0 < 1 / (2 : ℝ) ^ d := by positivity
  unfold grid
  rw [center_eq cfg d hash b i j hh hdec hb, Option.bind_some]
  simp only [r_one, r_ofNat, nside_real]
  apply mapM_some
  intro t ht
  have ht' := List.mem_range.mp ht
  have hin := gridPt_in_diamond (norm8 (cellCx d b i j), cellCy d b i j) (1 / 2 ^ d) ho.le nseg t ht'
  unfold InDiamond at hin
  have hy : |(gridPt (norm8 (cellCx d b i j), cellCy d b i j) (1 / 2 ^ d) nseg t).2 - cellCy d b i j| ≤ 1 / 2 ^ d := by
    have := abs_nonneg ((gridPt (norm8 (cellCx d b i j), cellCy d b i j) (1 / 2 ^ d) nseg t).1 - norm8 (cellCx d b i j))
    simp only at hin
    linarith
  obtain ⟨y1, y2⟩ := abs_le.mp hy
  change unproj (gridPt (norm8 (cellCx d b i j), cellCy d b i j) (1 / 2 ^ d) nseg t).1
    (gridPt (norm8 (cellCx d b i j), cellCy d b i j) (1 / 2 ^ d) nseg t).2 = _
  exact unproj_eq _ _ (by linarith) (by linarith)

/-- the four corners of the grid are the four raw vertices: indices `0` (S), `nseg` (W), `nseg·(nseg+1)` (E),
    `nseg·(nseg+1) + nseg` (N) -/
theorem gridPt_corners (c : ℝ × ℝ) (o : ℝ) (nseg : ℕ) (hn : 0 < nseg) :
    gridPt c o nseg 0 = rawVtx c o 0 ∧ gridPt c o nseg nseg = rawVtx c o 3 ∧
    gridPt c o nseg (nseg * (nseg + 1)) = rawVtx c o 1 ∧ gridPt c o nseg (nseg * (nseg + 1) + nseg) = rawVtx c o 2 := by
  have hne : (nseg : ℝ) ≠ 0 := by exact_mod_cast (Nat.pos_iff_ne_zero.mp hn)
  have d1 : nseg / (nseg + 1) = 0 := Nat.div_eq_of_lt (by omega)
  have m1 : nseg % (nseg + 1) = nseg := Nat.mod_eq_of_lt (by omega)
  have d2 : nseg * (nseg + 1) / (nseg + 1) = nseg := Nat.mul_div_cancel _ (by omega)
  have m2 : nseg * (nseg + 1) % (nseg + 1) = 0 := Nat.mul_mod_left _ _
  have d3 : (nseg * (nseg + 1) + nseg) / (nseg + 1) = nseg := by
    rw [Nat.add_comm, Nat.add_mul_div_right _ _ (by omega), d1, Nat.zero_add]
  have m3 : (nseg * (nseg + 1) + nseg) % (nseg + 1) = nseg := by
    rw [Nat.add_comm, Nat.add_mul_mod_self_right, m1]
  have w0 : ∀ o : ℝ, offWe 0 o = 0 := fun o => by simp [offWe]
  have w1 : ∀ o : ℝ, offWe 1 o = o := fun o => by simp [offWe]
  have w2 : ∀ o : ℝ, offWe 2 o = 0 := fun o => by simp [offWe]
  have w3 : ∀ o : ℝ, offWe 3 o = -o := fun o => by simp [offWe]
  have s0 : ∀ o : ℝ, offSn 0 o = -o := fun o => by simp [offSn]
  have s1 : ∀ o : ℝ, offSn 1 o = 0 := fun o => by simp [offSn]
  have s2 : ∀ o : ℝ, offSn 2 o = o := fun o => by simp [offSn]
  have s3 : ∀ o : ℝ, offSn 3 o = 0 := fun o => by simp [offSn]
  unfold gridPt rawVtx
  refine ⟨?_, ?_, ?_, ?_⟩
  · simp only [Nat.zero_div, Nat.zero_mod, w0, s0]; ext <;> simp
  · simp only [d1, m1, w3, s3, div_self hne]; ext <;> simp
  · simp only [d2, m2, w1, s1, div_self hne]; ext <;> simp
  · simp only [d3, m3, w2, s2, div_self hne]; ext <;> simp

/-- the corners of `grid` and the vertices of `vertex`/`vertices`: S, E, N are the same plane points given to
    `unproj`; W is the same plane point **unless the centre of the cell has abscissa 0** (`b = 4`, `i = j`), where
    `grid` un-projects `(−1/n, cy)` and `vertex`/`vertices` un-project `(8 − 1/n, cy)` (same point modulo 8). -/
theorem grid_corners_agree (cfg : Cfg) (d hash b i j nseg : ℕ) (hh : hash < Layer.nHash d)
    (hdec : Layer.decodeHash cfg d hash = some ⟨b, i, j⟩) (hb : b < 12) (hi : i < 2 ^ d) (hj : j < 2 ^ d) (hn : 0 < nseg) :
    ∃ l, grid (α := ℝ) cfg d hash nseg = some l ∧ l.length = (nseg + 1) * (nseg + 1) ∧
      l[0]? = vertex (α := ℝ) cfg d hash 0 ∧
      l[nseg * (nseg + 1)]? = vertex (α := ℝ) cfg d hash 1 ∧
      l[nseg * (nseg + 1) + nseg]? = vertex (α := ℝ) cfg d hash 2 ∧
      (¬ (b = 4 ∧ i = j) → l[nseg]? = vertex (α := ℝ) cfg d hash 3) ∧
      (b = 4 ∧ i = j → l[nseg]? = some (unprojT (-(1 / 2 ^ d)) (cellCy d b i j)) ∧
        vertex (α := ℝ) cfg d hash 3 = some (unprojT (8 - 1 / 2 ^ d) (cellCy d b i j))) := by
  obtain ⟨g0, g3, g1, g2⟩ := gridPt_corners (norm8 (cellCx d b i j), cellCy d b i j) (1 / 2 ^ d) nseg hn
  obtain ⟨c1, c2, c3, c4, c5⟩ := center_ranges d b i j hb hi hj
  obtain ⟨n0, n8⟩ := norm8_center_range d b i j hb hi hj
  have hp := pow_pos' d
  have ho : 0 < 1 / (2 : ℝ) ^ d := by positivity
  have lt0 : 0 < (nseg + 1) * (nseg + 1) := Nat.mul_pos (by omega) (by omega)
  have lt1 : nseg * (nseg + 1) + nseg < (nseg + 1) * (nseg + 1) := by
    have : (nseg + 1) * (nseg + 1) = nseg * (nseg + 1) + nseg + 1 := by ring
    omega
  have lt2 : nseg * (nseg + 1) < (nseg + 1) * (nseg + 1) := by omega
  have lt3 : nseg < (nseg + 1) * (nseg + 1) := by
    have : nseg + 1 ≤ (nseg + 1) * (nseg + 1) := Nat.le_mul_of_pos_left _ (by omega)
    omega
  have hv := fun k hk => vertex_plane cfg d hash b i j k hh hdec hb hi hj hk
  have hr := fun k hk => rawVtx_norm d b i j k hb hi hj hk
  refine ⟨_, grid_plane cfg d hash b i j nseg hh hdec hb hi hj, by simp, ?_, ?_, ?_, ?_, ?_⟩
  · rw [hv 0 (by decide), ← hr 0 (by decide)]
    simp only [List.getElem?_map, List.getElem?_range lt0, Option.map_some, g0]
    have : norm8 (rawVtx (norm8 (cellCx d b i j), cellCy d b i j) (1 / 2 ^ d) 0).1
        = (rawVtx (norm8 (cellCx d b i j), cellCy d b i j) (1 / 2 ^ d) 0).1 := by
      apply norm8_of_nonneg; simp [rawVtx, offWe, n0]
    rw [this]
  · rw [hv 1 (by decide), ← hr 1 (by decide)]
    simp only [List.getElem?_map, List.getElem?_range lt2, Option.map_some, g1]
    have : norm8 (rawVtx (norm8 (cellCx d b i j), cellCy d b i j) (1 / 2 ^ d) 1).1
        = (rawVtx (norm8 (cellCx d b i j), cellCy d b i j) (1 / 2 ^ d) 1).1 := by
      apply norm8_of_nonneg; simp only [rawVtx, offWe]; norm_num; positivity
    rw [this]
  · rw [hv 2 (by decide), ← hr 2 (by decide)]
    simp only [List.getElem?_map, List.getElem?_range lt1, Option.map_some, g2]
    have : norm8 (rawVtx (norm8 (cellCx d b i j), cellCy d b i j) (1 / 2 ^ d) 2).1
        = (rawVtx (norm8 (cellCx d b i j), cellCy d b i j) (1 / 2 ^ d) 2).1 := by
      apply norm8_of_nonneg; simp [rawVtx, offWe, n0]
    rw [this]
  · intro hne
    rw [hv 3 (by decide), ← hr 3 (by decide)]
    simp only [List.getElem?_map, List.getElem?_range lt3, Option.map_some, g3]
    have : norm8 (rawVtx (norm8 (cellCx d b i j), cellCy d b i j) (1 / 2 ^ d) 3).1
        = (rawVtx (norm8 (cellCx d b i j), cellCy d b i j) (1 / 2 ^ d) 3).1 := by
      apply norm8_of_nonneg
      simp only [rawVtx, offWe]; norm_num
      -- the centre abscissa is a positive multiple of `1/n`
      obtain ⟨k1, _⟩ := centerXY_real d b i j
      set X := (Layer.centerXY d ⟨b, i, j⟩).1 with hX
      have hXne : X ≠ 0 := by
        intro h0
        rw [h0] at k1
        have hz : norm8 (cellCx d b i j) = 0 := by
          have : norm8 (cellCx d b i j) * 2 ^ d = 0 := by rw [← k1]; simp
          exact (mul_eq_zero.mp this).resolve_right (ne_of_gt hp)
        -- then `cx = 0`, hence `b = 4`, `i = j`
        have hcx : cellCx d b i j = 0 := by
          unfold norm8 at hz; split_ifs at hz with hneg
          · have := cellCx_neg_le d b i j hb hi hj hneg; linarith
          · exact hz
        rcases baseX_cases b hb with ⟨h4, hx0⟩ | ⟨hx1, _⟩
        · apply hne; refine ⟨h4, ?_⟩
          unfold cellCx at hcx; rw [hx0, zero_add, div_eq_zero_iff] at hcx
          rcases hcx with h | h
          · exact_mod_cast sub_eq_zero.mp h
          · exact absurd h (ne_of_gt hp)
        · have hi' := cast_lt_pow hi
          have hj' := cast_lt_pow hj
          have hi0 : (0 : ℝ) ≤ i := Nat.cast_nonneg i
          obtain ⟨fx1, _⟩ := frac_bounds d ((i : ℝ) - j) (by linarith) (by linarith)
          unfold cellCx at hcx; linarith
      have hXpos : (1 : ℝ) ≤ (X : ℝ) := by
        have h0 : (0 : ℝ) ≤ (X : ℝ) := by rw [k1]; positivity
        have : (0 : ℤ) ≤ X := by exact_mod_cast h0
        have : (1 : ℤ) ≤ X := by omega
        exact_mod_cast this
      have : norm8 (cellCx d b i j) = (X : ℝ) / 2 ^ d := by rw [k1]; field_simp
      rw [this, ← one_div, div_le_div_iff_of_pos_right hp]
      exact hXpos
    rw [this]
  · rintro ⟨h4, hij⟩
    subst h4; subst hij
    have hcx : cellCx d 4 i i = 0 := by unfold cellCx baseX; norm_num
    constructor
    · simp only [List.getElem?_map, List.getElem?_range lt3, Option.map_some, g3]
      simp only [rawVtx, offWe, offSn, hcx]
      norm_num [norm8]
    · rw [hv 3 (by decide)]
      simp only [vtx, hcx]
      have : norm8 (0 - 1 / 2 ^ d) = 8 - 1 / 2 ^ d := by
        unfold norm8
        have : (0 : ℝ) - 1 / 2 ^ d < 0 := by linarith
        simp only [this, if_true]; ring
      rw [this]

/-- longitude returned by `unproj` in the equatorial band: `x·π/4`, for every `|x| < 8` (negative for `x < 0`) -/
theorem unprojT_lon_cea (x y : ℝ) (hx : |x| < 8) (hy : |y| ≤ 1) : (unprojT x y).1 = x * (Real.pi / 4) := by
  obtain ⟨k, hk, hdec, hm1, hp1⟩ := pm1OffsetDecompose_real |x| (abs_nonneg x) hx
  unfold unprojT
  simp only [r_abs, hdec, r_le, r_one, hy, decide_true, if_true, r_signBit]
  unfold deprojCea applyOffsetAndSigns
  simp only [r_ofNat, r_pi4]
  have e : |x| - ((2 * k + 1 : ℕ) : ℝ) + ((2 * k + 1 : ℕ) : ℝ) = |x| := by ring
  rw [e]
  by_cases h : x < 0
  · simp only [h, decide_true]
    show (if true = true then -|(|x|)| else |x|) * (Real.pi / 4) = _
    rw [if_pos rfl, abs_abs, abs_of_neg h, neg_neg]
  · simp only [h, decide_false]
    rw [r_orSign_false, abs_of_nonneg (not_lt.mp h)]

/-- **the west corner of `grid` for the cells `(4, i, i)`** (centre on the meridian 0): `grid` returns the longitude
    `−π/(4n)` where `vertex`/`vertices` return `2π − π/(4n)` (`grid` does not call `ensures_x_is_positive`). -/
theorem grid_corner_W_base4 (cfg : Cfg) (d hash i nseg : ℕ) (hh : hash < Layer.nHash d)
    (hdec : Layer.decodeHash cfg d hash = some ⟨4, i, i⟩) (hi : i < 2 ^ d) (hn : 0 < nseg) :
    ∃ l pg pv, grid (α := ℝ) cfg d hash nseg = some l ∧ l[nseg]? = some pg ∧ vertex (α := ℝ) cfg d hash 3 = some pv ∧
      pg.1 = -(Real.pi / 4 / 2 ^ d) ∧ pv.1 = 2 * Real.pi - Real.pi / 4 / 2 ^ d := by
  obtain ⟨l, hl, _, _, _, _, _, hw⟩ := grid_corners_agree cfg d hash 4 i i nseg hh hdec (by decide) hi hi hn
  obtain ⟨h1, h2⟩ := hw ⟨rfl, rfl⟩
  obtain ⟨c1, c2, c3, c4, c5⟩ := center_ranges d 4 i i (by decide) hi hi
  have hp := pow_pos' d
  have ho : 0 < 1 / (2 : ℝ) ^ d := by positivity
  have ho1 : 1 / (2 : ℝ) ^ d ≤ 1 := by
    rw [div_le_one hp]; exact one_le_pow₀ (by norm_num)
  have hcy : |cellCy d 4 i i| ≤ 1 := by
    have hi' := cast_lt_pow hi
    have hi0 : (0 : ℝ) ≤ i := Nat.cast_nonneg i
    obtain ⟨f1, f2⟩ := frac_bounds d ((i : ℝ) + i + 1 - 2 ^ d) (by linarith) (by linarith)
    unfold cellCy baseY
    norm_num
    rw [abs_le]; constructor <;> linarith
  refine ⟨l, _, _, hl, h1, h2, ?_, ?_⟩
  · rw [unprojT_lon_cea _ _ (by rw [abs_neg, abs_of_pos ho]; linarith) hcy]; ring
  · rw [unprojT_lon_cea _ _ (by rw [abs_of_nonneg (by linarith)]; linarith) hcy]; ring

/-! ## examples (the hypotheses are satisfiable) -/

/-- depth 2, cell 73 = base cell 4, `(i, j) = (1, 2)`: `cx = −1/4 < 0`, the centre is `(7.75, 0)` -/
example : centerOfProjectedCell (α := ℝ) {} 2 73 = some (31 / 4, 0) := by
  have hd : Layer.decodeHash {} 2 73 = some ⟨4, 1, 2⟩ := by decide +kernel
  rw [center_eq {} 2 73 4 1 2 (by decide) hd (by decide)]
  unfold cellCx cellCy baseX baseY norm8
  norm_num

/-- depth 2, cell 77 = base cell 4, `(i, j) = (3, 2)`: all accessors succeed -/
example : ∃ s e n w : ℝ × ℝ, vertices (α := ℝ) {} 2 77 = some [s, e, n, w] ∧ vertex (α := ℝ) {} 2 77 0 = some s ∧
    vertex (α := ℝ) {} 2 77 1 = some e ∧ vertex (α := ℝ) {} 2 77 2 = some n ∧ vertex (α := ℝ) {} 2 77 3 = some w :=
  vertices_agree {} 2 77 4 3 2 (by decide) (by decide +kernel) (by decide) (by decide) (by decide)

/-- depth 0, cell 4 (`i = j = 0`): the west corner of the grid has longitude `−π/4`, the west vertex `7π/4` -/
example : ∃ l pg pv, grid (α := ℝ) {} 0 4 1 = some l ∧ l[1]? = some pg ∧ vertex (α := ℝ) {} 0 4 3 = some pv ∧
    pg.1 = -(Real.pi / 4 / 2 ^ 0) ∧ pv.1 = 2 * Real.pi - Real.pi / 4 / 2 ^ 0 :=
  grid_corner_W_base4 {} 0 4 0 1 (by decide) (by decide +kernel) (by decide) (by decide)

#print axioms center_plane_spec
#print axioms vertices_agree
#print axioms sph_coo_plane
#print axioms sph_coo_half
#print axioms path_side_plane
#print axioms path_side_endpoints
#print axioms path_edge_plane
#print axioms path_edge_vertices
#print axioms sidePt_on_border
#print axioms grid_plane
#print axioms grid_corners_agree
#print axioms grid_corner_W_base4

end Hpx.CellReal
