/-
`xor`: three-valued semantics and well-formedness of the unpacked output of the merge loop, for all pairs of well-formed,
in-range operands (C07, C08, C09).  Layer 1: cell relations (`is_in`), `consume_while_overlapped`,
`not_in_cell_4_xor` (= complement inside a full low-resolution cell, reusing the `not` machinery).
The merge loop itself and the lift through `pack` are in `BmocXor2.lean`.
-/
import HpxVerif.Lemmas.BmocNot
import HpxVerif.Lemmas.BmocAnd

namespace Hpx.Bmoc

/-! ## the table -/

@[simp] theorem Tri.xor_abs_left (t : Tri) : Tri.xor .abs t = t := by cases t <;> rfl
@[simp] theorem Tri.xor_abs_right (t : Tri) : Tri.xor t .abs = t := by cases t <;> rfl
@[simp] theorem Tri.xor_part_left (t : Tri) : Tri.xor .part t = .part := by cases t <;> rfl
@[simp] theorem Tri.xor_part_right (t : Tri) : Tri.xor t .part = .part := by cases t <;> rfl
theorem Tri.xor_full_left (t : Tri) : Tri.xor .full t = Tri.not t := by cases t <;> rfl
theorem Tri.xor_full_right (t : Tri) : Tri.xor t .full = Tri.not t := by cases t <;> rfl
theorem Tri.xor_comm (s t : Tri) : Tri.xor s t = Tri.xor t s := by cases s <;> cases t <;> rfl

/-! ## cell relations (helpers live in `Hpx.Bmoc.XorP` to keep the shared namespace clean) -/

namespace XorP

theorem shl1 (n : Nat) : n <<< 1 = 2 * n := by rw [Nat.shiftLeft_eq]; omega

/-- `is_in low c`: `c` is not coarser than `low` and lies inside it -/
theorem isIn_spec {D : Nat} {low c : Cell} (hc : c.depth ≤ D) (h : isIn low c = true) :
    low.depth ≤ c.depth ∧ low.hash = c.hash >>> ((c.depth - low.depth) <<< 1) ∧
    lo D low ≤ lo D c ∧ hi D c ≤ hi D low := by
  unfold isIn at h
  simp only [Bool.and_eq_true, decide_eq_true_eq, beq_iff_eq] at h
  obtain ⟨h1, h2⟩ := h
  have := (cmp_eq_iff (D := D) h1 hc).1 h2
  exact ⟨h1, h2, this.1, this.2⟩

/-- a cell that starts strictly after the start of `low` and is not inside `low` starts at or after the end of `low` -/
theorem isIn_false_after {D : Nat} {low c : Cell} (hlow : low.depth ≤ D) (hc : c.depth ≤ D)
    (h : isIn low c = false) (hlt : lo D low < lo D c) : hi D low ≤ lo D c := by
  have hlc := lo_lt_hi D c
  have hll := lo_lt_hi D low
  by_cases hd : low.depth ≤ c.depth
  · have hne : low.hash ≠ c.hash >>> ((c.depth - low.depth) <<< 1) := by
      intro he
      have : isIn low c = true := by
        unfold isIn; simp only [Bool.and_eq_true, decide_eq_true_eq, beq_iff_eq]; exact ⟨hd, he⟩
      rw [this] at h; exact Bool.noConfusion h
    rcases Nat.lt_or_gt_of_ne hne with h1 | h1
    · exact (cmp_lt_iff (D := D) hd hc).1 h1
    · have := (cmp_gt_iff (D := D) hd hc).1 h1
      omega
  · have hd' : c.depth ≤ low.depth := by omega
    rcases Nat.lt_trichotomy c.hash (low.hash >>> ((low.depth - c.depth) <<< 1)) with h1 | h1 | h1
    · have := (cmp_lt_iff (D := D) hd' hlow).1 h1
      omega
    · have := (cmp_eq_iff (D := D) hd' hlow).1 h1
      omega
    · exact (cmp_gt_iff (D := D) hd' hlow).1 h1

/-! ## `Option Cell × iterator` pairs as lists -/

/-- the cells still to be read: the current cell (if any) followed by the rest of the iterator -/
def tl : Option Cell → List Cell → List Cell
  | none, _ => []
  | some c, l => c :: l

@[simp] theorem tl_none (l : List Cell) : tl none l = [] := rfl
@[simp] theorem tl_some (c : Cell) (l : List Cell) : tl (some c) l = c :: l := rfl
@[simp] theorem tl_head_tail (l : List Cell) : tl l.head? l.tail = l := by cases l <;> rfl

theorem stOf_ge_cons {D : Nat} {c : Cell} {l : List Cell} {x : Nat} (h : hi D c ≤ x) : stOf D (c :: l) x = stOf D l x := by
  rw [stOf_cons]
  have : ¬ (lo D c ≤ x ∧ x < hi D c) := by omega
  simp [this]

theorem stOf_in_cons {D : Nat} {c : Cell} {l : List Cell} {x : Nat} (h1 : lo D c ≤ x) (h2 : x < hi D c) :
    stOf D (c :: l) x = Tri.ofFlag c.full := by
  rw [stOf_cons]; simp [h1, h2]

/-! ## `consume_while_overlapped` -/

/-- what is left after skipping the cells inside `low`: a well-formed sub-list lying after `low`, with the same states
    there -/
theorem cwo_spec (D : Nat) (low : Cell) (hlow : low.depth ≤ D) : ∀ (it : List Cell), WF D it →
    (∀ c ∈ it, lo D low < lo D c) →
    WF D (tl (consumeWhileOverlapped low it).1 (consumeWhileOverlapped low it).2) ∧
    (∀ c ∈ tl (consumeWhileOverlapped low it).1 (consumeWhileOverlapped low it).2, c ∈ it) ∧
    (∀ c ∈ tl (consumeWhileOverlapped low it).1 (consumeWhileOverlapped low it).2, hi D low ≤ lo D c) ∧
    (∀ x, hi D low ≤ x →
      stOf D it x = stOf D (tl (consumeWhileOverlapped low it).1 (consumeWhileOverlapped low it).2) x) ∧
    (tl (consumeWhileOverlapped low it).1 (consumeWhileOverlapped low it).2).length ≤ it.length := by
  intro it
  induction it with
  | nil =>
    intro _ _
    refine ⟨trivial, ?_, ?_, ?_, ?_⟩ <;> simp [consumeWhileOverlapped]
  | cons c rest ih =>
    intro hw hlt
    have hcd : c.depth ≤ D := hw.1
    by_cases hin : isIn low c = true
    · have e : consumeWhileOverlapped low (c :: rest) = consumeWhileOverlapped low rest := by
        simp only [consumeWhileOverlapped, hin, if_true]
      rw [e]
      obtain ⟨i1, i2, i3, i4, i5⟩ := ih hw.tail (fun c' hc' => hlt c' (by simp [hc']))
      refine ⟨i1, fun c' hc' => List.mem_cons_of_mem _ (i2 c' hc'), i3, ?_, Nat.le_trans i5 (by simp)⟩
      intro x hx
      obtain ⟨_, _, _, h4⟩ := isIn_spec hcd hin
      rw [stOf_ge_cons (by omega)]
      exact i4 x hx
    · have hin' : isIn low c = false := by simpa using hin
      have e : consumeWhileOverlapped low (c :: rest) = (some c, rest) := by
        simp only [consumeWhileOverlapped, hin', Bool.false_eq_true, if_false]
      rw [e]
      simp only [tl_some]
      have hc := isIn_false_after hlow hcd hin' (hlt c (by simp))
      refine ⟨hw, fun c' hc' => hc', ?_, fun _ _ => trivial, Nat.le_refl _⟩
      intro c' hc'
      rcases List.mem_cons.1 hc' with rfl | hc'
      · exact hc
      · have := hw.2.1 c' hc'
        have := lo_lt_hi D c
        omega

/-! ## `not_in_cell_4_xor` -/

theorem keep_eq (c : Cell) : (if c.full then [] else [{ c with full := false }]) = (if c.full then [] else [c]) := by
  cases c with
  | mk d h f => cases f <;> rfl

theorem hi_eq_P' (D d h : Nat) (f : Bool) : hi D ⟨d, h, f⟩ = P D d (h + 1) := rfl
theorem lo_eq_P' (D d h : Nat) (f : Bool) : lo D ⟨d, h, f⟩ = P D d h := rfl

/-- **the loop of `not_in_cell_4_xor`**: from cursor `(d, h)` (a cell inside `low`), over the cells of `it` that are inside
    `low`: the emitted cells denote the complement of `it` from the end of the cursor to the end of the new cursor, which is
    again inside `low`; what is left of the iterator lies after `low` -/
theorem xorInLoop_spec (D : Nat) (hD : D ≤ 29) (low : Cell) (hlow : low.depth ≤ D) :
    ∀ (it : List Cell) (d h : Nat), d ≤ D → h < 12 * 4 ^ d → WF D it → (∀ c ∈ it, InR c) →
    (∀ c ∈ it, P D d (h + 1) ≤ lo D c) → isIn low ⟨d, h, true⟩ = true →
    (notInCell4XorLoop low it d h).2.1 ≤ D ∧
    isIn low ⟨(notInCell4XorLoop low it d h).2.1, (notInCell4XorLoop low it d h).2.2.1, true⟩ = true ∧
    P D d (h + 1) ≤ P D (notInCell4XorLoop low it d h).2.1 ((notInCell4XorLoop low it d h).2.2.1 + 1) ∧
    WF D (tl (notInCell4XorLoop low it d h).2.2.2.1 (notInCell4XorLoop low it d h).2.2.2.2) ∧
    (∀ c ∈ tl (notInCell4XorLoop low it d h).2.2.2.1 (notInCell4XorLoop low it d h).2.2.2.2, c ∈ it) ∧
    (∀ c ∈ tl (notInCell4XorLoop low it d h).2.2.2.1 (notInCell4XorLoop low it d h).2.2.2.2, hi D low ≤ lo D c) ∧
    (∀ x, P D (notInCell4XorLoop low it d h).2.1 ((notInCell4XorLoop low it d h).2.2.1 + 1) ≤ x →
      stOf D it x = stOf D (tl (notInCell4XorLoop low it d h).2.2.2.1 (notInCell4XorLoop low it d h).2.2.2.2) x) ∧
    (tl (notInCell4XorLoop low it d h).2.2.2.1 (notInCell4XorLoop low it d h).2.2.2.2).length ≤ it.length ∧
    Seg D (notInCell4XorLoop low it d h).1 (P D d (h + 1))
      (P D (notInCell4XorLoop low it d h).2.1 ((notInCell4XorLoop low it d h).2.2.1 + 1))
      (fun x => Tri.not (stOf D it x)) := by
  intro it
  induction it with
  | nil =>
    intro d h hd hh _ _ _ hcur
    have e : notInCell4XorLoop low [] d h = ([], d, h, none, []) := rfl
    rw [e]
    exact ⟨hd, hcur, Nat.le_refl _, trivial, fun c hc => by simp at hc, fun c hc => by simp at hc, fun _ _ => rfl,
      Nat.le_refl _, Seg.nil D _ _⟩
  | cons c rest ih =>
    intro d h hd hh hw hr hb hcur
    have hcd : c.depth ≤ D := hw.1
    have hrc : InR c := hr c (by simp)
    have hlc := lo_lt_hi D c
    obtain ⟨_, _, k3', k4'⟩ := isIn_spec (D := D) (c := ⟨d, h, true⟩) hd hcur
    have k3 : lo D low ≤ P D d h := k3'
    have k4 : P D d (h + 1) ≤ hi D low := k4'
    have hPlt : P D d h < P D d (h + 1) := by
      have := lo_lt_hi D ⟨d, h, true⟩
      rwa [lo_eq_P', hi_eq_P'] at this
    have hb0 := hb c (by simp)
    have hic : hi D c = P D c.depth (c.hash + 1) := rfl
    by_cases hin : isIn low c = true
    · have ih' := ih c.depth c.hash hcd hrc hw.tail
        (fun c' hc' => hr c' (by simp [hc'])) (fun c' hc' => hw.2.1 c' hc') (by unfold isIn at hin ⊢; exact hin)
      have step := Seg.notStep D hD d h c rest hd hh hw hrc hb0
      obtain ⟨_, _, _, h4⟩ := isIn_spec hcd hin
      have hnl : (!isIn low c) = false := by simp [hin]
      simp only [notInCell4XorLoop, hnl, Bool.false_eq_true, if_false, keep_eq]
      generalize notInCell4XorLoop low rest c.depth c.hash = res at ih' ⊢
      obtain ⟨o, d2, h2, cell, it'⟩ := res
      simp only at ih' ⊢
      obtain ⟨i1, i2, i3, i4, i5, i6, i7, i8, i9⟩ := ih'
      refine ⟨i1, i2, by omega, i4, fun c' hc' => List.mem_cons_of_mem _ (i5 c' hc'), i6, ?_,
        Nat.le_trans i8 (by simp), ?_⟩
      · intro x hx
        rw [stOf_ge_cons (by omega)]
        exact i7 x hx
      · have htail : Seg D o (hi D c) (P D d2 (h2 + 1)) (fun x => Tri.not (stOf D (c :: rest) x)) := by
          refine i9.mono_g ?_
          intro x h1 _
          rw [stOf_ge_cons (by omega)]
        have hab : P D d (h + 1) ≤ hi D c := by omega
        have := Seg.append hab (by omega) step htail
        simpa [List.append_assoc] using this
    · have hin' : isIn low c = false := by simpa using hin
      have hnl : (!isIn low c) = true := by simp [hin']
      have e : notInCell4XorLoop low (c :: rest) d h = ([], d, h, some c, rest) := by
        simp only [notInCell4XorLoop, hnl, if_true]
      rw [e]
      simp only [tl_some]
      have hc := isIn_false_after hlow hcd hin' (by omega)
      refine ⟨hd, hcur, Nat.le_refl _, hw, fun c' hc' => hc', ?_, fun _ _ => trivial, Nat.le_refl _, Seg.nil D _ _⟩
      intro c' hc'
      rcases List.mem_cons.1 hc' with rfl | hc'
      · exact hc
      · have := hw.2.1 c' hc'
        omega

/-- **`not_in_cell_4_xor`** for a cell `c` inside `low` followed by `it`: the pushed cells are the complement of `c :: it`
    inside `low` (full ↦ absent, partial ↦ partial, absent ↦ full), exactly over `[lo low, hi low)`; what is left of
    the iterator lies after `low` -/
theorem notInCell4Xor_spec (D : Nat) (hD : D ≤ 29) (low c : Cell) (it : List Cell) (hlow : low.depth ≤ D)
    (hw : WF D (c :: it)) (hr : ∀ c' ∈ c :: it, InR c') (hin : isIn low c = true) :
    WF D (tl (notInCell4Xor low c it).2.1 (notInCell4Xor low c it).2.2) ∧
    (∀ c' ∈ tl (notInCell4Xor low c it).2.1 (notInCell4Xor low c it).2.2, c' ∈ it) ∧
    (∀ c' ∈ tl (notInCell4Xor low c it).2.1 (notInCell4Xor low c it).2.2, hi D low ≤ lo D c') ∧
    (∀ x, hi D low ≤ x →
      stOf D (c :: it) x = stOf D (tl (notInCell4Xor low c it).2.1 (notInCell4Xor low c it).2.2) x) ∧
    (tl (notInCell4Xor low c it).2.1 (notInCell4Xor low c it).2.2).length ≤ it.length ∧
    Seg D (notInCell4Xor low c it).1 (lo D low) (hi D low) (fun x => Tri.not (stOf D (c :: it) x)) := by
  have hcd : c.depth ≤ D := hw.1
  have hrc : InR c := hr c (by simp)
  obtain ⟨k1, k2, k3, k4⟩ := isIn_spec hcd hin
  have hcur : isIn low ⟨c.depth, c.hash, true⟩ = true := by unfold isIn at hin ⊢; exact hin
  have key := xorInLoop_spec D hD low hlow it c.depth c.hash hcd hrc hw.tail
    (fun c' hc' => hr c' (by simp [hc'])) (fun c' hc' => hw.2.1 c' hc') hcur
  simp only [notInCell4Xor, keep_eq]
  generalize notInCell4XorLoop low it c.depth c.hash = res at key ⊢
  obtain ⟨mid, d, h, cell, it'⟩ := res
  simp only at key ⊢
  obtain ⟨i1, i2, i3, i4, i5, i6, i7, i8, i9⟩ := key
  obtain ⟨j1, j2, j3, j4'⟩ := isIn_spec (D := D) (c := ⟨d, h, true⟩) i1 i2
  simp only at j1 j2
  have j4 : P D d (h + 1) ≤ hi D low := j4'
  have hlohi := lo_lt_hi D c
  have hic : hi D c = P D c.depth (c.hash + 1) := rfl
  obtain ⟨u1, u2, u3⟩ := Seg.goUp D true (d - low.depth) d h (by omega) i1
  have e1 : d - (d - low.depth) = low.depth := by omega
  have e2 : h >>> (2 * (d - low.depth)) = low.hash := by rw [j2, shl1]
  rw [e1] at u1 u3
  rw [e2] at u2 u3
  generalize goUp (d - low.depth) d h true = gu at u1 u2 u3 ⊢
  obtain ⟨up, d1, h1⟩ := gu
  simp only at u1 u2 u3 ⊢
  subst u1 u2
  refine ⟨i4, i5, i6, ?_, i8, ?_⟩
  · intro x hx
    rw [stOf_ge_cons (by omega)]
    exact i7 x (by omega)
  -- the pieces
  have gBefore : ∀ x, x < lo D c → Tri.not (stOf D (c :: it) x) = Tri.ofFlag true := by
    intro x hx
    rw [(st_facts hw x).1 hx]; rfl
  have q1 : Seg D (goDown low.depth low.hash c.depth c.hash true) (lo D low) (lo D c)
      (fun x => Tri.not (stOf D (c :: it) x)) := by
    have := Seg.goDown D low.depth low.hash c.depth c.hash true k1 hcd (by rw [k2, shl1])
    exact this.mono_g (fun x _ hx => (gBefore x hx).symm)
  have q2 : Seg D (if c.full then [] else [c]) (lo D c) (hi D c) (fun x => Tri.not (stOf D (c :: it) x)) := by
    by_cases hf : c.full = true
    · simp only [hf, if_true]
      apply Seg.empty_abs
      intro x h1 h2
      rw [stOf_in_cons h1 h2, hf]; rfl
    · have hf' : c.full = false := by simpa using hf
      simp only [hf', Bool.false_eq_true, if_false]
      have hs := Seg.single D c.depth c.hash false hcd
      have hc : (⟨c.depth, c.hash, false⟩ : Cell) = c := by cases c; simp_all
      rw [hc] at hs
      refine ⟨hs.wf, hs.inside, ?_⟩
      intro x h1 h2
      rw [hs.sem x h1 h2, stOf_in_cons h1 h2, hf']; rfl
  have q3 : Seg D mid (hi D c) (P D d (h + 1)) (fun x => Tri.not (stOf D (c :: it) x)) := by
    refine i9.mono_g ?_
    intro x h1 _
    rw [stOf_ge_cons (by omega)]
  have q4 : Seg D up (P D d (h + 1)) (hi D low) (fun x => Tri.not (stOf D (c :: it) x)) := by
    refine u3.mono_g ?_
    intro x hx hx2
    have hx3 : x < hi D low := hx2
    have : stOf D (c :: it) x = .abs := by
      rw [stOf_ge_cons (by omega), i7 x hx]
      exact stOf_absent_of_lt (fun c' hc' => by have := i6 c' hc'; omega)
    rw [this]; rfl
  have hdown : goDown low.depth (low.hash + 1) low.depth (low.hash + 1) true = [] := by
    simp only [goDown, Nat.sub_self, goDownAux]
    exact pushRange_empty _ _ _ _ (Nat.le_refl _)
  rw [hdown, List.append_nil]
  have r1 := Seg.append k3 (Nat.le_of_lt hlohi) q1 q2
  have r2 := Seg.append (by omega) (by omega) r1 q3
  have r3 := Seg.append (by omega) j4 r2 q4
  simpa [List.append_assoc] using r3

end XorP

end Hpx.Bmoc
