/-
C04 — gluing lemmas, base cells of the north polar cap (generated text, one lemma per ordered pair of base cells):
the keys of two lattice corners are equal iff the corners are glued (`Glue`).
-/
import HpxVerif.Lemmas.TopoNeigh

namespace Hpx.TopoNeigh
open Hpx Hpx.TopoSpec

section
variable (n a c a' c' : Int) (hn : 0 < n) (ha : 0 ≤ a) (ha' : a ≤ n) (hc : 0 ≤ c) (hc' : c ≤ n)
  (hd : 0 ≤ a') (hd' : a' ≤ n) (he : 0 ≤ c') (he' : c' ≤ n)
include hn ha ha' hc hc' hd hd' he he'

local macro "glue_tac" k1:ident k2:ident : tactic =>
  `(tactic| (rw [$k1:ident n a c hn ha ha' hc hc', $k2:ident n a' c' hn hd hd' he he']
             simp only [Prod.mk.injEq, KXn, KXe, KXs, wr, wl, Glue, Nat.reduceDiv, Nat.reduceMod, Nat.reduceAdd,
               Nat.reduceSub]
             constructor <;> intro h <;> first | exact False.elim h | omega))

theorem glue_0_0 : Kp n 0 a c = Kp n 0 a' c' ↔ Glue n 0 0 a c a' c' := by glue_tac Kp_0 Kp_0
theorem glue_0_1 : Kp n 0 a c = Kp n 1 a' c' ↔ Glue n 0 1 a c a' c' := by glue_tac Kp_0 Kp_1
theorem glue_0_2 : Kp n 0 a c = Kp n 2 a' c' ↔ Glue n 0 2 a c a' c' := by glue_tac Kp_0 Kp_2
theorem glue_0_3 : Kp n 0 a c = Kp n 3 a' c' ↔ Glue n 0 3 a c a' c' := by glue_tac Kp_0 Kp_3
theorem glue_0_4 : Kp n 0 a c = Kp n 4 a' c' ↔ Glue n 0 4 a c a' c' := by glue_tac Kp_0 Kp_4
theorem glue_0_5 : Kp n 0 a c = Kp n 5 a' c' ↔ Glue n 0 5 a c a' c' := by glue_tac Kp_0 Kp_5
theorem glue_0_6 : Kp n 0 a c = Kp n 6 a' c' ↔ Glue n 0 6 a c a' c' := by glue_tac Kp_0 Kp_6
theorem glue_0_7 : Kp n 0 a c = Kp n 7 a' c' ↔ Glue n 0 7 a c a' c' := by glue_tac Kp_0 Kp_7
theorem glue_0_8 : Kp n 0 a c = Kp n 8 a' c' ↔ Glue n 0 8 a c a' c' := by glue_tac Kp_0 Kp_8
theorem glue_0_9 : Kp n 0 a c = Kp n 9 a' c' ↔ Glue n 0 9 a c a' c' := by glue_tac Kp_0 Kp_9
theorem glue_0_10 : Kp n 0 a c = Kp n 10 a' c' ↔ Glue n 0 10 a c a' c' := by glue_tac Kp_0 Kp_10
theorem glue_0_11 : Kp n 0 a c = Kp n 11 a' c' ↔ Glue n 0 11 a c a' c' := by glue_tac Kp_0 Kp_11
theorem glue_1_0 : Kp n 1 a c = Kp n 0 a' c' ↔ Glue n 1 0 a c a' c' := by glue_tac Kp_1 Kp_0
theorem glue_1_1 : Kp n 1 a c = Kp n 1 a' c' ↔ Glue n 1 1 a c a' c' := by glue_tac Kp_1 Kp_1
theorem glue_1_2 : Kp n 1 a c = Kp n 2 a' c' ↔ Glue n 1 2 a c a' c' := by glue_tac Kp_1 Kp_2
theorem glue_1_3 : Kp n 1 a c = Kp n 3 a' c' ↔ Glue n 1 3 a c a' c' := by glue_tac Kp_1 Kp_3
theorem glue_1_4 : Kp n 1 a c = Kp n 4 a' c' ↔ Glue n 1 4 a c a' c' := by glue_tac Kp_1 Kp_4
theorem glue_1_5 : Kp n 1 a c = Kp n 5 a' c' ↔ Glue n 1 5 a c a' c' := by glue_tac Kp_1 Kp_5
theorem glue_1_6 : Kp n 1 a c = Kp n 6 a' c' ↔ Glue n 1 6 a c a' c' := by glue_tac Kp_1 Kp_6
theorem glue_1_7 : Kp n 1 a c = Kp n 7 a' c' ↔ Glue n 1 7 a c a' c' := by glue_tac Kp_1 Kp_7
theorem glue_1_8 : Kp n 1 a c = Kp n 8 a' c' ↔ Glue n 1 8 a c a' c' := by glue_tac Kp_1 Kp_8
theorem glue_1_9 : Kp n 1 a c = Kp n 9 a' c' ↔ Glue n 1 9 a c a' c' := by glue_tac Kp_1 Kp_9
theorem glue_1_10 : Kp n 1 a c = Kp n 10 a' c' ↔ Glue n 1 10 a c a' c' := by glue_tac Kp_1 Kp_10
theorem glue_1_11 : Kp n 1 a c = Kp n 11 a' c' ↔ Glue n 1 11 a c a' c' := by glue_tac Kp_1 Kp_11
theorem glue_2_0 : Kp n 2 a c = Kp n 0 a' c' ↔ Glue n 2 0 a c a' c' := by glue_tac Kp_2 Kp_0
theorem glue_2_1 : Kp n 2 a c = Kp n 1 a' c' ↔ Glue n 2 1 a c a' c' := by glue_tac Kp_2 Kp_1
theorem glue_2_2 : Kp n 2 a c = Kp n 2 a' c' ↔ Glue n 2 2 a c a' c' := by glue_tac Kp_2 Kp_2
theorem glue_2_3 : Kp n 2 a c = Kp n 3 a' c' ↔ Glue n 2 3 a c a' c' := by glue_tac Kp_2 Kp_3
theorem glue_2_4 : Kp n 2 a c = Kp n 4 a' c' ↔ Glue n 2 4 a c a' c' := by glue_tac Kp_2 Kp_4
theorem glue_2_5 : Kp n 2 a c = Kp n 5 a' c' ↔ Glue n 2 5 a c a' c' := by glue_tac Kp_2 Kp_5
theorem glue_2_6 : Kp n 2 a c = Kp n 6 a' c' ↔ Glue n 2 6 a c a' c' := by glue_tac Kp_2 Kp_6
theorem glue_2_7 : Kp n 2 a c = Kp n 7 a' c' ↔ Glue n 2 7 a c a' c' := by glue_tac Kp_2 Kp_7
theorem glue_2_8 : Kp n 2 a c = Kp n 8 a' c' ↔ Glue n 2 8 a c a' c' := by glue_tac Kp_2 Kp_8
theorem glue_2_9 : Kp n 2 a c = Kp n 9 a' c' ↔ Glue n 2 9 a c a' c' := by glue_tac Kp_2 Kp_9
theorem glue_2_10 : Kp n 2 a c = Kp n 10 a' c' ↔ Glue n 2 10 a c a' c' := by glue_tac Kp_2 Kp_10
theorem glue_2_11 : Kp n 2 a c = Kp n 11 a' c' ↔ Glue n 2 11 a c a' c' := by glue_tac Kp_2 Kp_11
theorem glue_3_0 : Kp n 3 a c = Kp n 0 a' c' ↔ Glue n 3 0 a c a' c' := by glue_tac Kp_3 Kp_0
theorem glue_3_1 : Kp n 3 a c = Kp n 1 a' c' ↔ Glue n 3 1 a c a' c' := by glue_tac Kp_3 Kp_1
theorem glue_3_2 : Kp n 3 a c = Kp n 2 a' c' ↔ Glue n 3 2 a c a' c' := by glue_tac Kp_3 Kp_2
theorem glue_3_3 : Kp n 3 a c = Kp n 3 a' c' ↔ Glue n 3 3 a c a' c' := by glue_tac Kp_3 Kp_3
theorem glue_3_4 : Kp n 3 a c = Kp n 4 a' c' ↔ Glue n 3 4 a c a' c' := by glue_tac Kp_3 Kp_4
theorem glue_3_5 : Kp n 3 a c = Kp n 5 a' c' ↔ Glue n 3 5 a c a' c' := by glue_tac Kp_3 Kp_5
theorem glue_3_6 : Kp n 3 a c = Kp n 6 a' c' ↔ Glue n 3 6 a c a' c' := by glue_tac Kp_3 Kp_6
theorem glue_3_7 : Kp n 3 a c = Kp n 7 a' c' ↔ Glue n 3 7 a c a' c' := by glue_tac Kp_3 Kp_7
theorem glue_3_8 : Kp n 3 a c = Kp n 8 a' c' ↔ Glue n 3 8 a c a' c' := by glue_tac Kp_3 Kp_8
theorem glue_3_9 : Kp n 3 a c = Kp n 9 a' c' ↔ Glue n 3 9 a c a' c' := by glue_tac Kp_3 Kp_9
theorem glue_3_10 : Kp n 3 a c = Kp n 10 a' c' ↔ Glue n 3 10 a c a' c' := by glue_tac Kp_3 Kp_10
theorem glue_3_11 : Kp n 3 a c = Kp n 11 a' c' ↔ Glue n 3 11 a c a' c' := by glue_tac Kp_3 Kp_11

end

/-- all pairs `(b, b')` with `b` in the north polar cap -/
theorem glue_row0 (n : Int) (b b' : Nat) (a c a' c' : Int) (hn : 0 < n) (hb : b / 4 = 0) (hb' : b' < 12)
    (ha : 0 ≤ a) (ha' : a ≤ n) (hc : 0 ≤ c) (hc' : c ≤ n) (hd : 0 ≤ a') (hd' : a' ≤ n) (he : 0 ≤ c') (he' : c' ≤ n) :
    Kp n b a c = Kp n b' a' c' ↔ Glue n b b' a c a' c' := by
  have hb4 : b = 0 ∨ b = 1 ∨ b = 2 ∨ b = 3 := by omega
  rcases hb4 with rfl | rfl | rfl | rfl
  · exact b12 (P := fun b' => Kp n 0 a c = Kp n b' a' c' ↔ Glue n 0 b' a c a' c') b' hb'
      (glue_0_0 n a c a' c' hn ha ha' hc hc' hd hd' he he') (glue_0_1 n a c a' c' hn ha ha' hc hc' hd hd' he he') (glue_0_2 n a c a' c' hn ha ha' hc hc' hd hd' he he') (glue_0_3 n a c a' c' hn ha ha' hc hc' hd hd' he he')
      (glue_0_4 n a c a' c' hn ha ha' hc hc' hd hd' he he') (glue_0_5 n a c a' c' hn ha ha' hc hc' hd hd' he he') (glue_0_6 n a c a' c' hn ha ha' hc hc' hd hd' he he') (glue_0_7 n a c a' c' hn ha ha' hc hc' hd hd' he he')
      (glue_0_8 n a c a' c' hn ha ha' hc hc' hd hd' he he') (glue_0_9 n a c a' c' hn ha ha' hc hc' hd hd' he he') (glue_0_10 n a c a' c' hn ha ha' hc hc' hd hd' he he') (glue_0_11 n a c a' c' hn ha ha' hc hc' hd hd' he he')
  · exact b12 (P := fun b' => Kp n 1 a c = Kp n b' a' c' ↔ Glue n 1 b' a c a' c') b' hb'
      (glue_1_0 n a c a' c' hn ha ha' hc hc' hd hd' he he') (glue_1_1 n a c a' c' hn ha ha' hc hc' hd hd' he he') (glue_1_2 n a c a' c' hn ha ha' hc hc' hd hd' he he') (glue_1_3 n a c a' c' hn ha ha' hc hc' hd hd' he he')
      (glue_1_4 n a c a' c' hn ha ha' hc hc' hd hd' he he') (glue_1_5 n a c a' c' hn ha ha' hc hc' hd hd' he he') (glue_1_6 n a c a' c' hn ha ha' hc hc' hd hd' he he') (glue_1_7 n a c a' c' hn ha ha' hc hc' hd hd' he he')
      (glue_1_8 n a c a' c' hn ha ha' hc hc' hd hd' he he') (glue_1_9 n a c a' c' hn ha ha' hc hc' hd hd' he he') (glue_1_10 n a c a' c' hn ha ha' hc hc' hd hd' he he') (glue_1_11 n a c a' c' hn ha ha' hc hc' hd hd' he he')
  · exact b12 (P := fun b' => Kp n 2 a c = Kp n b' a' c' ↔ Glue n 2 b' a c a' c') b' hb'
      (glue_2_0 n a c a' c' hn ha ha' hc hc' hd hd' he he') (glue_2_1 n a c a' c' hn ha ha' hc hc' hd hd' he he') (glue_2_2 n a c a' c' hn ha ha' hc hc' hd hd' he he') (glue_2_3 n a c a' c' hn ha ha' hc hc' hd hd' he he')
      (glue_2_4 n a c a' c' hn ha ha' hc hc' hd hd' he he') (glue_2_5 n a c a' c' hn ha ha' hc hc' hd hd' he he') (glue_2_6 n a c a' c' hn ha ha' hc hc' hd hd' he he') (glue_2_7 n a c a' c' hn ha ha' hc hc' hd hd' he he')
      (glue_2_8 n a c a' c' hn ha ha' hc hc' hd hd' he he') (glue_2_9 n a c a' c' hn ha ha' hc hc' hd hd' he he') (glue_2_10 n a c a' c' hn ha ha' hc hc' hd hd' he he') (glue_2_11 n a c a' c' hn ha ha' hc hc' hd hd' he he')
  · exact b12 (P := fun b' => Kp n 3 a c = Kp n b' a' c' ↔ Glue n 3 b' a c a' c') b' hb'
      (glue_3_0 n a c a' c' hn ha ha' hc hc' hd hd' he he') (glue_3_1 n a c a' c' hn ha ha' hc hc' hd hd' he he') (glue_3_2 n a c a' c' hn ha ha' hc hc' hd hd' he he') (glue_3_3 n a c a' c' hn ha ha' hc hc' hd hd' he he')
      (glue_3_4 n a c a' c' hn ha ha' hc hc' hd hd' he he') (glue_3_5 n a c a' c' hn ha ha' hc hc' hd hd' he he') (glue_3_6 n a c a' c' hn ha ha' hc hc' hd hd' he he') (glue_3_7 n a c a' c' hn ha ha' hc hc' hd hd' he he')
      (glue_3_8 n a c a' c' hn ha ha' hc hc' hd hd' he he') (glue_3_9 n a c a' c' hn ha ha' hc hc' hd hd' he he') (glue_3_10 n a c a' c' hn ha ha' hc hc' hd hd' he he') (glue_3_11 n a c a' c' hn ha ha' hc hc' hd hd' he he')

end Hpx.TopoNeigh
