import HpxVerif.Model.Layer
import Mathlib.Tactic.Ring
import Mathlib.Tactic.Linarith

/-!
# NESTED <-> RING conversion, level of parts (`HashParts`): basic facts and the `to_ring` direction

`ns = nside d = 2^d`.  A `HashParts` is *valid* at depth `d` when `d0h < 12 ∧ i < 2^d ∧ j < 2^d`.
-/

namespace Hpx.RingBij
open Hpx Hpx.Layer

/-! ## rewriting the shifts of the model into arithmetic over `nside d` -/

theorem nside_eq (d : Nat) : nside d = 2 ^ d := by
  unfold nside; rw [Nat.shiftLeft_eq]; omega

theorem nside_pos (d : Nat) : 0 < nside d := by rw [nside_eq]; exact Nat.pow_pos (by decide)

theorem nside_par (d : Nat) : nside d = 1 ∨ nside d % 2 = 0 := by
  rw [nside_eq]
  cases d with
  | zero => left; rfl
  | succ n => right; rw [Nat.pow_succ]; omega

theorem four_pow_eq (d : Nat) : 4 ^ d = nside d * nside d := by
  rw [nside_eq, ← Nat.pow_add, show (4 : Nat) = 2 ^ 2 from rfl, ← Nat.pow_mul]; congr 1; omega

theorem shl2d (a d : Nat) : a <<< (d <<< 1) = a * (nside d * nside d) := by
  rw [Nat.shiftLeft_eq, Nat.shiftLeft_eq, ← four_pow_eq, show (4 : Nat) = 2 ^ 2 from rfl, ← Nat.pow_mul]
  congr 2; omega

theorem nHash_eq (d : Nat) : nHash d = 12 * (nside d * nside d) := by
  unfold nHash; rw [shl2d]

theorem fe_eq (d : Nat) : firstHashInEqr d = 2 * (nside d * nside d) + 2 * nside d := by
  unfold firstHashInEqr; rw [shl2d, Nat.shiftLeft_eq]; omega

theorem shl_d2 (a d : Nat) : a <<< (d + 2) = 4 * (a * nside d) := by
  rw [Nat.shiftLeft_eq, nside_eq, Nat.pow_add]; ring

theorem shr_d2 (a d : Nat) : a >>> (d + 2) = a / (4 * nside d) := by
  rw [Nat.shiftRight_eq_div_pow, nside_eq, Nat.pow_add]; congr 1; ring

theorem shr_d (a d : Nat) : a >>> d = a / nside d := by
  rw [Nat.shiftRight_eq_div_pow, nside_eq]

theorem shl_1 (a : Nat) : a <<< 1 = 2 * a := by rw [Nat.shiftLeft_eq]; omega
theorem shl_2 (a : Nat) : a <<< 2 = 4 * a := by rw [Nat.shiftLeft_eq]; omega

theorem tri4_eq (n : Nat) : tri4 n = 2 * (n * n) + 2 * n := by
  unfold tri4; rw [Nat.shiftLeft_eq]; ring

theorem tri4_succ (n : Nat) : tri4 (n + 1) = tri4 n + 4 * (n + 1) := by
  rw [tri4_eq, tri4_eq]; ring

theorem tri4_mono {a b : Nat} (h : a ≤ b) : tri4 a ≤ tri4 b := by
  rw [tri4_eq, tri4_eq]
  have : a * a ≤ b * b := Nat.mul_le_mul h h
  omega

theorem tri4_lt_of_lt {a b : Nat} (h : tri4 a < tri4 b) : a < b := by
  apply Nat.lt_of_not_le; intro hle
  have := tri4_mono hle; omega

theorem fe_tri4 (d : Nat) : firstHashInEqr d = tri4 (nside d) := by rw [fe_eq, tri4_eq]

/-- an exact ring-index function -/
def ExactRI (RI : Nat → Nat) : Prop := ∀ x, tri4 (RI x) ≤ x ∧ x < tri4 (RI x + 1)

theorem ExactRI.eq {RI : Nat → Nat} (h : ExactRI RI) {x t : Nat} (h1 : tri4 t ≤ x) (h2 : x < tri4 (t + 1)) :
    RI x = t := by
  obtain ⟨a, b⟩ := h x
  have h3 : RI x < t + 1 := tri4_lt_of_lt (by omega)
  have h4 : t < RI x + 1 := tri4_lt_of_lt (by omega)
  omega

/-- `(k + n·q) / n = q` and `(k + n·q) % n = k` for `k < n` -/
theorem div_of_lt {n k : Nat} (q : Nat) (h : k < n) : (k + n * q) / n = q := by
  rw [Nat.add_mul_div_left _ _ (by omega), Nat.div_eq_of_lt h]; omega

theorem mod_of_lt {n k : Nat} (q : Nat) (h : k < n) : (k + n * q) % n = k := by
  rw [Nat.add_mul_mod_self_left, Nat.mod_eq_of_lt h]

/-- valid parts at depth `d` -/
def Valid (d : Nat) (p : HashParts) : Prop := p.d0h < 12 ∧ p.i < 2 ^ d ∧ p.j < 2 ^ d

instance (d : Nat) (p : HashParts) : Decidable (Valid d p) := by unfold Valid; infer_instance

/-! ## `to_ring` on parts, region by region -/

/-- ring number (0-based, from the north pole) of a cell given by its parts -/
def ringOf (ns : Nat) (p : HashParts) : Nat := (p.d0h / 4 + 2) * ns - (p.i + p.j + 2)

/-- the abscissa `X ∈ [0, 8·ns)` of the centre of a cell, as a natural number -/
def xNat (ns : Nat) (p : HashParts) : Nat :=
  let off := (2 * (p.d0h % 4) + (if p.d0h / 4 = 1 then 0 else 1)) * ns
  if p.i + off < p.j then p.i + off + 8 * ns - p.j else p.i + off - p.j

theorem toRing_north (d m i j : Nat) (hm : m < 4) (hi : i < nside d) (hj : j < nside d)
    (hh : nside d ≤ i + j + 1) :
    toRingParts d ⟨m, i, j⟩ =
      some (tri4 (2 * nside d - 2 - (i + j)) + (nside d - 1 - j) + (2 * nside d - 1 - (i + j)) * m) := by
  unfold toRingParts idiv2
  dsimp only
  generalize nside d = ns at *
  have h1 : m % 4 = m := Nat.mod_eq_of_lt hm
  have h2 : m / 4 = 0 := Nat.div_eq_of_lt hm
  rw [h1, h2, if_neg (by omega), if_pos (by omega)]
  have e1 : (0 + 2) * ns - (i + j + 2) = 2 * ns - 2 - (i + j) := by omega
  have e2 : 2 * ns - 1 - (i + j) = 2 * ns - 2 - (i + j) + 1 := by omega
  rw [e1, e2]
  generalize ht : 2 * ns - 2 - (i + j) = t
  generalize tri4 t = T
  have hm' : m = 0 ∨ m = 1 ∨ m = 2 ∨ m = 3 := by omega
  rcases hm' with rfl | rfl | rfl | rfl <;>
  · rw [if_neg (by omega)]
    simp only [Option.some.injEq]
    omega

theorem toRing_south (d m i j : Nat) (hm : m < 4) (hh : i + j + 1 ≤ nside d) :
    toRingParts d ⟨8 + m, i, j⟩ = some (nHash d - tri4 (i + j + 1) + i + (i + j + 1) * m) ∧
    tri4 (i + j + 1) ≤ nHash d := by
  have hT : tri4 (i + j + 1) ≤ nHash d := by
    have := tri4_mono hh
    rw [nHash_eq]; rw [tri4_eq (nside d)] at this
    have := Nat.le_mul_self (nside d)
    omega
  refine ⟨?_, hT⟩
  unfold toRingParts idiv2
  dsimp only
  generalize nside d = ns at *
  have h1 : (8 + m) % 4 = m := by omega
  have h2 : (8 + m) / 4 = 2 := by omega
  rw [h1, h2, if_neg (by omega), if_neg (by omega), if_pos (by omega), if_neg (by omega)]
  generalize tri4 (i + j + 1) = T at *
  generalize nHash d = H at *
  have hm' : m = 0 ∨ m = 1 ∨ m = 2 ∨ m = 3 := by omega
  rcases hm' with rfl | rfl | rfl | rfl <;>
  · rw [if_neg (by omega)]
    simp only [Option.some.injEq]
    omega

theorem toRing_eq (d k m i j t : Nat) (hk : k < 3) (hm : m < 4) (hi : i < nside d) (hj : j < nside d)
    (ht : t + (i + j + 2) = (k + 2) * nside d) (h1 : nside d ≤ t) (h2 : t + 2 ≤ 3 * nside d) :
    toRingParts d ⟨4 * k + m, i, j⟩ =
      some (xNat (nside d) ⟨4 * k + m, i, j⟩ / 2 + (firstHashInEqr d + 4 * ((t - nside d) * nside d))) ∧
    xNat (nside d) ⟨4 * k + m, i, j⟩ % 2 = (t - nside d) % 2 ∧
    xNat (nside d) ⟨4 * k + m, i, j⟩ < 8 * nside d := by
  have hpar := nside_par d
  unfold toRingParts idiv2 xNat
  dsimp only
  rw [shl_d2]
  generalize firstHashInEqr d = fe
  generalize nside d = ns at *
  have h1 : (4 * k + m) % 4 = m := by omega
  have h2 : (4 * k + m) / 4 = k := by omega
  rw [h1, h2, if_neg (by omega)]
  have e : (k + 2) * ns - (i + j + 2) = t := by omega
  rw [e, if_neg (by omega), if_neg (by omega)]
  generalize (t - ns) * ns = P
  have hm' : m = 0 ∨ m = 1 ∨ m = 2 ∨ m = 3 := by omega
  have hk' : k = 0 ∨ k = 1 ∨ k = 2 := by omega
  rcases hk' with rfl | rfl | rfl <;> rcases hm' with rfl | rfl | rfl | rfl
  all_goals simp only [Nat.reduceMul, Nat.reduceAdd, Nat.reduceMod, Nat.reduceBEq, Nat.reduceEqDiff, Bool.false_and, Bool.true_and, if_false, if_true, Bool.false_eq_true, decide_eq_true_eq]
  all_goals refine ⟨?_, ?_, ?_⟩
  all_goals (repeat' split)
  all_goals first | omega | (simp only [Option.some.injEq]; omega)

/-! ## `from_ring` on parts, region by region -/

theorem fromRing_north (d : Nat) (RI : Nat → Nat) (hRI : ExactRI RI) (t k m : Nat) (hd : nside d ≤ 2 ^ 32)
    (ht : t < nside d) (hk : k ≤ t) (hm : m < 4) :
    fromRingParts d RI (tri4 t + k + (t + 1) * m) = some ⟨m, nside d - 1 - t + k, nside d - 1 - k⟩ := by
  have hfe := fe_tri4 d
  have hnh := nHash_eq d
  have h0 := tri4_eq (nside d)
  have h1 : tri4 (t + 1) ≤ tri4 (nside d) := tri4_mono ht
  have h2 := tri4_succ t
  have h3 := Nat.le_mul_self (nside d)
  have hm' : m = 0 ∨ m = 1 ∨ m = 2 ∨ m = 3 := by omega
  have hr : RI (tri4 t + k + (t + 1) * m) = t := by
    apply hRI.eq
    · omega
    · rcases hm' with rfl | rfl | rfl | rfl <;> omega
  unfold fromRingParts idiv2
  dsimp only
  rw [hr, shl_1]
  have e : tri4 t + k + (t + 1) * m - tri4 t = k + (t + 1) * m := by omega
  rw [e, div_of_lt m (by omega)]
  generalize nside d = ns at *
  generalize tri4 t = T at *
  generalize tri4 (t + 1) = T1 at *
  generalize tri4 ns = Tn at *
  generalize nHash d = H at *
  generalize firstHashInEqr d = fe at *
  rw [if_neg (by omega), if_pos (by rcases hm' with rfl | rfl | rfl | rfl <;> omega), if_neg (by omega)]
  simp only [Option.some.injEq, HashParts.mk.injEq]
  refine ⟨by omega, ?_, ?_⟩ <;> omega

theorem fromRing_south (d : Nat) (RI : Nat → Nat) (hRI : ExactRI RI) (h k m : Nat) (hd : nside d ≤ 2 ^ 32)
    (ht : h < nside d) (hk : k ≤ h) (hm : m < 4) :
    fromRingParts d RI (nHash d - tri4 (h + 1) + k + (h + 1) * m) = some ⟨8 + m, k, h - k⟩ := by
  have hfe := fe_tri4 d
  have hnh := nHash_eq d
  have h0 := tri4_eq (nside d)
  have h1 : tri4 (h + 1) ≤ tri4 (nside d) := tri4_mono ht
  have h2 := tri4_succ h
  have h3 := Nat.le_mul_self (nside d)
  have hm' : m = 0 ∨ m = 1 ∨ m = 2 ∨ m = 3 := by omega
  have hx : nHash d - 1 - (nHash d - tri4 (h + 1) + k + (h + 1) * m) = tri4 h + (4 * (h + 1) - 1 - (k + (h + 1) * m)) := by
    rcases hm' with rfl | rfl | rfl | rfl <;> omega
  have hr : RI (tri4 h + (4 * (h + 1) - 1 - (k + (h + 1) * m))) = h := by
    apply hRI.eq
    · omega
    · rcases hm' with rfl | rfl | rfl | rfl <;> omega
  unfold fromRingParts idiv2
  dsimp only
  rw [hx, hr, shl_2]
  have e : 4 * (h + 1) - 1 - (tri4 h + (4 * (h + 1) - 1 - (k + (h + 1) * m)) - tri4 h) = k + (h + 1) * m := by
    rcases hm' with rfl | rfl | rfl | rfl <;> omega
  rw [e, div_of_lt m (by omega)]
  generalize nside d = ns at *
  generalize tri4 h = T at *
  generalize tri4 (h + 1) = T1 at *
  generalize tri4 ns = Tn at *
  generalize nHash d = H at *
  generalize firstHashInEqr d = fe at *
  rw [if_neg (by omega), if_neg (by rcases hm' with rfl | rfl | rfl | rfl <;> omega),
    if_pos (by rcases hm' with rfl | rfl | rfl | rfl <;> omega),
    if_neg (by rcases hm' with rfl | rfl | rfl | rfl <;> omega), if_neg (by omega),
    if_neg (by rcases hm' with rfl | rfl | rfl | rfl <;> omega)]
  simp only [Option.some.injEq, HashParts.mk.injEq]
  refine ⟨by omega, ?_, ?_⟩ <;> omega

theorem shr_1 (a : Nat) : a >>> 1 = a / 2 := by rw [Nat.shiftRight_eq_div_pow]

theorem fromRing_eq (d : Nat) (RI : Nat → Nat) (t' iin I0 J0 i j : Nat)
    (ht' : t' + 2 ≤ 2 * nside d) (hiin : iin < 4 * nside d) (hi : i < nside d) (hj : j < nside d)
    (hI0 : I0 < 256) (hJ0 : J0 < 256)
    (hI : 2 * nside d - 2 - t' + (2 * iin + t' % 2) = 2 * (i + nside d * I0))
    (hJ : 2 * nside d - 2 - t' + 8 * nside d = (2 * iin + t' % 2) + 2 * (j + nside d * J0)) :
    fromRingParts d RI (iin + (firstHashInEqr d + 4 * (t' * nside d))) = some ⟨depth0HashUnsafe I0 J0, i, j⟩ := by
  have hfe := fe_eq d
  have hnh := nHash_eq d
  have h3 := Nat.le_mul_self (nside d)
  have h4 : t' * nside d + 2 * nside d ≤ 2 * (nside d * nside d) := by
    have := Nat.mul_le_mul_right (nside d) ht'
    rw [Nat.add_mul, Nat.mul_assoc] at this; exact this
  have e1 : iin + (firstHashInEqr d + 4 * (t' * nside d)) - firstHashInEqr d = iin + 4 * nside d * t' := by
    have : 4 * nside d * t' = 4 * (t' * nside d) := by ring
    omega
  unfold fromRingParts idiv2
  dsimp only
  rw [e1]
  simp only [shl_1, shl_2, shr_1, shr_d2 _ d, shl_d2 _ d, shr_d _ d]
  rw [div_of_lt t' hiin]
  have e2 : iin + 4 * nside d * t' - 4 * (t' * nside d) = iin := by
    have : 4 * nside d * t' = 4 * (t' * nside d) := by ring
    omega
  rw [e2]
  generalize nside d = ns at *
  generalize nHash d = H at *
  generalize firstHashInEqr d = fe at *
  rw [if_neg (by omega), if_neg (by omega), if_neg (by omega), if_neg (by omega)]
  have eI : (2 * ns - 2 - t' + (2 * iin + t' % 2)) / 2 = i + ns * I0 := by omega
  have eJ : ((((2 * ns - 2 - t' : Nat) : Int) - ((2 * iin + t' % 2 : Nat) : Int)) / 2 + ((4 * ns : Nat) : Int)).toNat
      = j + ns * J0 := by omega
  rw [eI, eJ, div_of_lt _ hi, div_of_lt _ hj, mod_of_lt _ hi, mod_of_lt _ hj, Nat.mod_eq_of_lt hI0,
    Nat.mod_eq_of_lt hJ0, if_neg (by omega)]

end Hpx.RingBij
