import HpxVerif.Lemmas.Tightness2
import HpxVerif.Lemmas.EConeEq3

/-!
# C13 (tightness clause) — every cell reported by the elliptical-cone coverage has its centre within `a + 2·Mtrue depth`

`a` is the semi-major axis (`0 < b ≤ a < π/2`), the centre of the ellipse is `(ProjSIN.new lon lat).c0` (the position
`(lon, lat)` itself, normalised: `adist_new_c0`).

* `oriented_contains_norm`: a point inside an ellipse of semi-axes `A ≥ B > 0` (any orientation) has norm `≤ A`;
* `econe_contains_near`, `containsCone_near`, `overlapCone_true_near`: over ℝ, the three tests of the classifier bound the
  angular distance of the tested position to the centre of the ellipse by `a`, `a`, `a + D`;
* **`econe_tight_rec`**: every cell emitted by the recursion has its centre within `a + 2·Mtrue depth` of the centre;
* **`ellInternal_tight`**: the same on the cell list of `elliptical_cone_coverage_internal` (its branches);
* **`ellipticalConeCoverage_tight`**: on the BMOC returned with `delta_depth = 0`: every non-full entry is tight;
* `PolyKept`, `polyClassifier_kept`, **`poly_emit_rule`**: the structural half of the clause for polygons (C12).
-/

namespace Hpx.Tightness
open Hpx Hpx.Hash Hpx.Proj Hpx.Cover Hpx.C2V Hpx.C2VReal Hpx.EnvelopeReal Hpx.CellReal Hpx.TopoLift
  Hpx.CellExtent Hpx.Bmoc Hpx.Sph Hpx.EConeEq Real

/-- a point inside the ellipse of semi-axes `A ≥ B > 0` and any orientation `(c, s)` is in the disc of radius `A` -/
theorem oriented_contains_norm (A B s c x y : ℝ) (hB : 0 < B) (hBA : B ≤ A) (hsc : s * s + c * c = 1)
    (h : (Ellipse.fromOriented (α := ℝ) A B s c).contains x y = true) : x ^ 2 + y ^ 2 ≤ A ^ 2 := by
  have hA : 0 < A := lt_of_lt_of_le hB hBA
  rw [ellipse_contains_real A B s c x y (ne_of_gt hA) (ne_of_gt hB) hsc] at h
  have h1 : ((x * s - y * c) / A) ^ 2 ≤ ((x * s - y * c) / B) ^ 2 := by
    rw [div_pow, div_pow]
    exact div_le_div_of_nonneg_left (sq_nonneg _) (by positivity) (pow_le_pow_left₀ hB.le hBA 2)
  have h2 : ((x * c + y * s) / A) ^ 2 + ((x * s - y * c) / A) ^ 2 = (x ^ 2 + y ^ 2) / A ^ 2 := by
    field_simp
    linear_combination (x ^ 2 + y ^ 2) * hsc
  have h3 : (x ^ 2 + y ^ 2) / A ^ 2 ≤ 1 := by linarith
  rwa [div_le_one (by positivity)] at h3

/-- **inside the elliptical cone ⇒ within `a` of its centre** (`0 < b ≤ a < π/2`, any position angle) -/
theorem econe_contains_near (lon lat a b pa l φ : ℝ) (hb : 0 < b) (hba : b ≤ a) (ha : a < π / 2)
    (h : (ECone.new (α := ℝ) lon lat a b pa).contains l φ = true) :
    adist (l, φ) (ProjSIN.new lon lat).c0 ≤ a := by
  unfold ECone.contains ECone.new at h
  simp only [num_sin, num_cos] at h
  rw [proj_sin_spec _ (ProjSIN.new_coherent lon lat)] at h
  have h0 := adist_nonneg (l, φ) (ProjSIN.new lon lat).c0
  have hpi := adist_le_pi (l, φ) (ProjSIN.new lon lat).c0
  have hsb : 0 < sin b := sin_pos_of_pos_of_lt_pi hb (by linarith [pi_pos])
  have hsab : sin b ≤ sin a := sin_le_sin_of_le_of_le_pi_div_two (by linarith) ha.le hba
  by_cases hc : 0 < cos (adist (l, φ) (ProjSIN.new lon lat).c0)
  · have hd : adist (l, φ) (ProjSIN.new lon lat).c0 < π / 2 := by
      by_contra hge
      have := cos_nonpos_of_pi_div_two_le_of_le (not_lt.mp hge) (by linarith)
      linarith
    rw [if_pos hc] at h
    simp only at h
    have := oriented_contains_norm _ _ _ _ _ _ hsb hsab (theta_unit pa) h
    rw [sinXY_norm] at this
    exact (sin_sq_le_iff _ _ ⟨h0, hd.le⟩ ⟨by linarith, ha.le⟩).mp this
  · rw [if_neg hc] at h
    simp at h

/-- **`contains_cone` ⇒ within `a` of the centre** (`0 < b ≤ a < π/2`, `0 ≤ D`) -/
theorem containsCone_near (lon lat a b pa l φ D : ℝ) (hb : 0 < b) (hba : b ≤ a) (ha : a < π / 2) (hD : 0 ≤ D)
    (h : (ECone.new (α := ℝ) lon lat a b pa).containsCone l φ D = true) :
    adist (l, φ) (ProjSIN.new lon lat).c0 ≤ a := by
  unfold ECone.containsCone ECone.new at h
  simp only [num_sin, num_cos, num_ge] at h
  by_cases hDb : b ≤ D
  · simp [hDb] at h
  · have hDb' : D < b := not_le.mp hDb
    simp only [hDb, decide_false, Bool.false_eq_true, if_false] at h
    rw [proj_sin_spec _ (ProjSIN.new_coherent lon lat)] at h
    have h0 := adist_nonneg (l, φ) (ProjSIN.new lon lat).c0
    have hpi := adist_le_pi (l, φ) (ProjSIN.new lon lat).c0
    have hsb : 0 < sin (b - D) := sin_pos_of_pos_of_lt_pi (by linarith) (by linarith [pi_pos])
    have hsab : sin (b - D) ≤ sin (a - D) := sin_le_sin_of_le_of_le_pi_div_two (by linarith) (by linarith) (by linarith)
    by_cases hc : 0 < cos (adist (l, φ) (ProjSIN.new lon lat).c0)
    · have hd : adist (l, φ) (ProjSIN.new lon lat).c0 < π / 2 := by
        by_contra hge
        have := cos_nonpos_of_pi_div_two_le_of_le (not_lt.mp hge) (by linarith)
        linarith
      rw [if_pos hc] at h
      simp only at h
      have := oriented_contains_norm _ _ _ _ _ _ hsb hsab (theta_unit pa) h
      rw [sinXY_norm] at this
      have h1 := (sin_sq_le_iff _ _ ⟨h0, hd.le⟩ ⟨by linarith, by linarith⟩).mp this
      linarith
    · rw [if_neg hc] at h
      simp at h

/-- **`overlap_cone = true` ⇒ within `a + D` of the centre** (the quick rejection `a + D < distance` did not fire) -/
theorem overlapCone_true_near (lon lat a b pa l φ D : ℝ)
    (h : (ECone.new (α := ℝ) lon lat a b pa).overlapCone l φ D = some true) :
    adist (l, φ) (ProjSIN.new lon lat).c0 ≤ a + D := by
  have hD := overlapCone_some_pos _ _ _ _ _ h
  by_contra hcon
  rw [not_le] at hcon
  have := overlapCone_far (ECone.new (α := ℝ) lon lat a b pa) (ProjSIN.new_coherent lon lat) l φ D hD hcon
  rw [this] at h
  simp at h

section
variable {α : Type} [Num α]

/-- a cell that the elliptical classifier sends down has its centre inside the ellipse, or `overlap_cone` answered `true` -/
theorem ellClassifier_descend_keep (cfg : Cfg) (target : Nat) (e : ECone α) (dists : List α) (d h l : Nat) (fl : Bool)
    (hk : ellClassifier cfg target e dists d h l = some (.descend fl)) :
    ∃ c dist, Hash.center (α := α) cfg d h = some c ∧ dists[l]? = some dist ∧
      (e.contains c.1 c.2 = true ∨ e.overlapCone c.1 c.2 dist = some true) := by
  unfold ellClassifier at hk
  split at hk
  · simp at hk
  · rename_i c hc
    split at hk
    · simp at hk
    · rename_i dist hdist
      refine ⟨c, dist, hc, hdist, ?_⟩
      split at hk
      · simp at hk
      · simp only at hk
        by_cases hin : e.contains c.1 c.2 = true
        · exact Or.inl hin
        · simp only [hin, Bool.false_eq_true, if_false] at hk
          right
          cases ho : e.overlapCone c.1 c.2 dist with
          | none => simp [ho] at hk
          | some v =>
            cases v with
            | true => rfl
            | false => simp [ho] at hk
end

/-- **`econe_tight_rec`** (ℝ, release profile).  Elliptical cone of centre `(lon, lat)`, semi-axes `0 < b ≤ a < π/2`, any
    position angle; `dists` the list `largest_center_to_vertex_distances_with_radius(ds, target + 1, lon, lat, a)`.
    Every cell of the output of the descent has a centre, which is within `a + 2·Mtrue depth` of the centre of the ellipse. -/
theorem econe_tight_rec (cfg : Cfg) (lon lat a b pa : ℝ) (hb : 0 < b) (hba : b ≤ a) (ha : a < π / 2)
    (ds target : ℕ) (hdt : ds ≤ target) (ht : target ≤ 29) (dists : List ℝ)
    (hdists : largestC2VsWithRadius false ds (target + 1) lon lat a = some dists) (fuel root : ℕ) (out : List Cell)
    (h : coverRec target (ellClassifier (α := ℝ) cfg target (ECone.new lon lat a b pa) dists) fuel ds root 0 = some out)
    (c : Cell) (hc : c ∈ out) :
    ∃ ctr, center (α := ℝ) cfg c.depth c.hash = some ctr ∧
      adist ctr (lon, lat) ≤ a + valR c.depth lon lat a ∧ adist ctr (lon, lat) ≤ a + 2 * Mtrue c.depth := by
  obtain ⟨l, ⟨hds, hl⟩, hrule⟩ := coverRec_emit_inv (fun d l => ds ≤ d ∧ l = d - ds) target _
    (fun d l ⟨h1, h2⟩ => ⟨by omega, by omega⟩) fuel ds root 0 out ⟨Nat.le_refl _, by omega⟩ h c hc
  have ha0 : 0 ≤ a := by linarith
  have hv0 := valR_nonneg_of_radius c.depth lon lat a ha0
  have hv2 := valR_le_twice c.depth lon lat a ha0
  have key : ∀ D, dists[l]? = some D → D = valR c.depth lon lat a := by
    intro D hdl
    exact (dists_getElem_gen ds target hdt ht lon lat a dists hdists c.depth hds D (by rw [← hl]; exact hdl)).2
  rcases hrule with hk | ⟨_, fl, hk⟩
  · obtain ⟨ctr, D, hctr, hdl, hcc⟩ := ellClassifier_full cfg target _ dists _ _ l hk
    rw [key D hdl] at hcc
    have := containsCone_near lon lat a b pa ctr.1 ctr.2 _ hb hba ha hv0 hcc
    rw [adist_new_c0] at this
    exact ⟨ctr, hctr, by linarith, by linarith [Mtrue_pos c.depth]⟩
  · obtain ⟨ctr, D, hctr, hdl, hkeep⟩ := ellClassifier_descend_keep cfg target _ dists _ _ l fl hk
    rw [key D hdl] at hkeep
    rcases hkeep with hin | hov
    · have := econe_contains_near lon lat a b pa ctr.1 ctr.2 hb hba ha hin
      rw [adist_new_c0] at this
      exact ⟨ctr, hctr, by linarith, by linarith [Mtrue_pos c.depth]⟩
    · have := overlapCone_true_near lon lat a b pa ctr.1 ctr.2 _ hov
      rw [adist_new_c0] at this
      exact ⟨ctr, hctr, this, by linarith⟩

/-- **`ellInternal_tight`** (ℝ, both profiles): every cell `c` of the list that
    `elliptical_cone_coverage_internal(depth, lon, lat, a, b, pa)` hands to the builder (`0 < b ≤ a < π/2`) satisfies
    * (twelve base cells + recursion, start depth `ds < depth` + recursion, small ellipse with `ds = depth`) its centre is
      within `a + 2·Mtrue c.depth` of the centre of the ellipse; or
    * (small ellipse, `ds = best_starting_depth(a) > depth`) `c` is the (partial) ancestor at `depth` of a cell `e` of depth
      `ds` whose centre is within `a + 2·Mtrue ds` of the centre of the ellipse. -/
theorem ellInternal_tight (cfg : Cfg) (depth : ℕ) (hd : depth ≤ 29) (lon lat a b pa : ℝ) (hb : 0 < b) (hba : b ≤ a)
    (ha : a < π / 2) (cells : List Cell) (h : ellInternal (α := ℝ) cfg depth lon lat a b pa = some cells) (c : Cell)
    (hc : c ∈ cells) :
    (∃ ctr, center (α := ℝ) cfg c.depth c.hash = some ctr ∧ adist ctr (lon, lat) ≤ a + 2 * Mtrue c.depth) ∨
    (∃ ds e ctr, C2V.bestStartingDepth a = some ds ∧ depth < ds ∧ c.depth = depth ∧ c.full = false ∧
      c.hash = e >>> ((ds - depth) <<< 1) ∧ center (α := ℝ) cfg ds e = some ctr ∧
      adist ctr (lon, lat) ≤ a + 2 * Mtrue ds) := by
  have ha0 : 0 ≤ a := by linarith
  have hrel : ∀ f t vs, largestC2VsWithRadius cfg.debug f t lon lat a = some vs →
      largestC2VsWithRadius false f t lon lat a = some vs := by
    intro f t vs hvs
    cases hb : cfg.debug
    · rwa [hb] at hvs
    · rw [hb] at hvs; exact largestC2VsWithRadius_debug f t lon lat a vs hvs
  have hrel1 : ∀ d v, largestC2VWithRadius cfg.debug d lon lat a = some v →
      largestC2VWithRadius false d lon lat a = some v := by
    intro d v hv
    cases hb : cfg.debug
    · rwa [hb] at hv
    · rw [hb] at hv; exact largestC2VWithRadius_debug d lon lat a v hv
  unfold ellInternal at h
  have e1 : Num.ge a (Num.halfPi : ℝ) = false := by rw [num_ge, num_halfPi]; simpa using ha
  have e2 : Num.ge b (Num.pi : ℝ) = false := by
    rw [num_ge, num_pi]; simpa using (by linarith [pi_pos] : b < π)
  simp only [e1, e2, Bool.false_eq_true, if_false] at h
  split at h
  · -- twelve base cells
    split at h
    · simp at h
    · rename_i dists hdists
      rcases foldlM_append_members _ _ _ _ h c hc with h1 | ⟨root, _, o, ho, hco⟩
      · simp at h1
      · obtain ⟨ctr, hctr, _, hb'⟩ := econe_tight_rec cfg lon lat a b pa hb hba ha 0 depth (by omega) hd dists
          (hrel _ _ _ hdists) _ root o ho c hco
        exact Or.inl ⟨ctr, hctr, hb'⟩
  · split at h
    · simp at h
    · rename_i ds hds
      have hd29 := CoverAll.bestDepth_le a ds hds
      split at h
      · simp at h
      · rename_i h0 hh0
        split at h
        · -- small ellipse
          rename_i hge
          split at h
          · rename_i dist nm hdist hnm
            simp only [Option.map_eq_some_iff] at h
            obtain ⟨l, hl, rfl⟩ := h
            simp only [List.mem_map] at hc
            obtain ⟨v, hv, rfl⟩ := hc
            rw [Builder.mem_dedup_sort] at hv
            have hval : dist = valR ds lon lat a := by
              have := valR_spec ds hd29 lon lat a
              rw [hrel1 _ _ hdist] at this
              exact Option.some.inj this
            have hv2 := valR_le_twice ds lon lat a ha0
            have key := foldlM_members_pred (fun e : MW × Nat => e.2 >>> ((ds - depth) <<< 1))
                (fun e => ∃ ctr, center (α := ℝ) cfg ds e.2 = some ctr ∧ adist ctr (lon, lat) ≤ a + dist) _ ?hs nm [] l hl v hv
            rcases key with h1 | ⟨e, he, rfl, ctr, hctr, hnear⟩
            · simp at h1
            · rcases Nat.lt_or_ge depth ds with hlt | hge'
              · exact Or.inr ⟨ds, e.2, ctr, hds, hlt, rfl, rfl, rfl, hctr, by linarith⟩
              · have hds' : ds = depth := by omega
                subst hds'
                refine Or.inl ⟨ctr, ?_, by linarith⟩
                show center (α := ℝ) cfg ds (e.2 >>> ((ds - ds) <<< 1)) = some ctr
                rw [Nat.sub_self, Nat.zero_shiftLeft, Nat.shiftRight_zero]
                exact hctr
            · intro acc e acc' hs
              split at hs
              · simp at hs
              · rename_i ctr hctr
                simp only [Option.map_eq_some_iff] at hs
                obtain ⟨k, hk, hacc⟩ := hs
                cases k with
                | false => simp at hacc; exact Or.inl hacc.symm
                | true =>
                  simp only [if_true] at hacc
                  refine Or.inr ⟨hacc.symm, ctr, hctr, ?_⟩
                  by_cases hin : (ECone.new (α := ℝ) lon lat a b pa).contains ctr.1 ctr.2 = true
                  · have := econe_contains_near lon lat a b pa ctr.1 ctr.2 hb hba ha hin
                    rw [adist_new_c0] at this
                    have := valR_nonneg_of_radius ds lon lat a ha0
                    rw [hval]; linarith
                  · simp only [hin, Bool.false_eq_true, if_false] at hk
                    have := overlapCone_true_near lon lat a b pa ctr.1 ctr.2 _ hk
                    rwa [adist_new_c0] at this
          · simp at h
        · -- start depth + recursion
          rename_i hlt
          split at h
          · rename_i dists nm hdists hnm
            rcases foldlM_append_members _ _ _ _ h c hc with h1 | ⟨root, _, o, ho, hco⟩
            · simp at h1
            · obtain ⟨ctr, hctr, _, hb'⟩ := econe_tight_rec cfg lon lat a b pa hb hba ha ds depth (by omega) hd dists
                (hrel _ _ _ hdists) _ root o ho c hco
              exact Or.inl ⟨ctr, hctr, hb'⟩
          · simp at h

/-! ## polygons (C12): the structural half of the tightness clause, every numeric instance

A cell is reported by the polygon descent only if (i) it contains (the cell number at the target depth of) a vertex of the
polygon, or (ii) at least one of its four vertices is declared inside the polygon, or (iii) one of its four edges is
declared to cross an edge of the polygon.  What remains for "a reported cell is within one cell size of the polygon" is
geometric and NOT attempted here: soundness over ℝ of `Polygon::contains` (a `true` answer at a cell vertex means that
vertex belongs to the polygon), of `intersect_great_circle_arc` (a `true` answer gives a common point of the cell edge and
the polygon boundary), the meaning of `is_in_list` (`hash` maps the polygon vertex into that cell: C01 over ℝ), and the
extent of a cell (every point of a cell within the largest centre-to-vertex distance of its depth from `center`: proved only
for the strictly equatorial cells, `CellExtent4.inCellEq_extent`). -/

section
variable {α : Type} [Num α]

/-- what the polygon classifier saw on a cell that it did not skip -/
def PolyKept (cfg : Cfg) (target : Nat) (poly : Polygon α) (sortedHashs : List Nat) (d h : Nat) : Prop :=
  isInList d h target sortedHashs = true ∨
  ∃ vs cs, Hash.vertices (α := α) cfg d h = some vs ∧ vs.mapM (fun v => fromSphCoo cfg.debug v.1 v.2) = some cs ∧
    (0 < (cs.filter fun c => poly.contains c).length ∨
      ∃ s e nn w, cs = [s, e, nn, w] ∧
        (poly.intersectGreatCircleArc nn e || poly.intersectGreatCircleArc s e ||
          poly.intersectGreatCircleArc w nn || poly.intersectGreatCircleArc w s) = true)

theorem polyClassifier_kept (cfg : Cfg) (target : Nat) (poly : Polygon α) (sortedHashs : List Nat) (d h l : Nat)
    (v : Verdict) (hk : polyClassifier cfg target poly sortedHashs d h l = some v) (hv : v ≠ .skip) :
    PolyKept cfg target poly sortedHashs d h := by
  unfold polyClassifier at hk
  split at hk
  · rename_i hin; exact Or.inl hin
  · split at hk
    · simp at hk
    · rename_i vs hvs
      split at hk
      · simp at hk
      · rename_i cs hcs
        refine Or.inr ⟨vs, cs, hvs, hcs, ?_⟩
        dsimp only at hk
        split at hk
        · rename_i h4
          left
          have : (cs.filter fun c => poly.contains c).length = 4 := by simpa using h4
          omega
        · split at hk
          · rename_i hpos; left; simpa using hpos
          · split at hk
            · rename_i s e nn w _ _
              split at hk
              · rename_i harc; exact Or.inr ⟨s, e, nn, w, rfl, harc⟩
              · cases hk; exact absurd rfl hv
            · simp at hk

/-- **polygon descent, emit rule** (every numeric instance, every build): every cell of the output of the descent was
    kept for one of the three reasons of `PolyKept` -/
theorem poly_emit_rule (cfg : Cfg) (target : Nat) (poly : Polygon α) (sortedHashs : List Nat)
    (fuel depth hash level : Nat) (out : List Cell)
    (h : coverRec target (polyClassifier cfg target poly sortedHashs) fuel depth hash level = some out)
    (c : Cell) (hc : c ∈ out) : PolyKept cfg target poly sortedHashs c.depth c.hash := by
  obtain ⟨l, _, hrule⟩ := coverRec_emit_inv (fun _ _ => True) target _ (fun _ _ _ => trivial) fuel depth hash level out
    trivial h c hc
  rcases hrule with hk | ⟨_, fl, hk⟩
  · exact polyClassifier_kept cfg target poly sortedHashs _ _ l _ hk (by simp)
  · exact polyClassifier_kept cfg target poly sortedHashs _ _ l _ hk (by simp)
end

/-- **`elliptical_cone_coverage` (`delta_depth = 0`), on the returned BMOC** (ℝ, both profiles, `0 < b ≤ a < π/2`): every
    entry is either a FULL cell, or a cell of the internal list, for which `ellInternal_tight` holds -/
theorem ellipticalConeCoverage_tight (cfg : Cfg) (depth : ℕ) (lon lat a b pa : ℝ) (hb : 0 < b) (hba : b ≤ a)
    (ha : a < π / 2) (m : BMOC) (h : ellipticalConeCoverageCustom (α := ℝ) cfg depth 0 lon lat a b pa = some m) (e : ℕ)
    (he : e ∈ m.entries) :
    (decode e depth).full = true ∨
    (∃ ctr, center (α := ℝ) cfg (decode e depth).depth (decode e depth).hash = some ctr ∧
      adist ctr (lon, lat) ≤ a + 2 * Mtrue (decode e depth).depth) ∨
    (∃ ds e' ctr, C2V.bestStartingDepth a = some ds ∧ depth < ds ∧ (decode e depth).depth = depth ∧
      (decode e depth).hash = e' >>> ((ds - depth) <<< 1) ∧ center (α := ℝ) cfg ds e' = some ctr ∧
      adist ctr (lon, lat) ≤ a + 2 * Mtrue ds) := by
  unfold ellipticalConeCoverageCustom at h
  split at h
  · simp at h
  · rename_i hd
    have hd29 : depth ≤ 29 := by omega
    simp only [beq_self_eq_true, if_true, Option.map_eq_some_iff] at h
    obtain ⟨cells, hcells, rfl⟩ := h
    obtain ⟨hw, hrange⟩ := CoverAll.ellInternal_wf cfg depth lon lat a b pa cells hcells
    rcases pack_origin depth _ e he with h1 | ⟨d, hh, rfl⟩
    · obtain ⟨c, hc, rfl⟩ := List.mem_map.mp h1
      rw [decode_encode (hw.depth_le c hc) hd29 (hrange c hc)]
      rcases ellInternal_tight cfg depth hd29 lon lat a b pa hb hba ha cells hcells c hc with
        h2 | ⟨ds, e', ctr, a1, a2, a3, _, a5, a6, a7⟩
      · exact Or.inr (Or.inl h2)
      · exact Or.inr (Or.inr ⟨ds, e', ctr, a1, a2, a3, a5, a6, a7⟩)
    · exact Or.inl (decode_full_buildRaw d hh depth)

end Hpx.Tightness

#print axioms Hpx.Tightness.econe_tight_rec
#print axioms Hpx.Tightness.ellInternal_tight
#print axioms Hpx.Tightness.poly_emit_rule
#print axioms Hpx.Tightness.ellipticalConeCoverage_tight
