/-
`or`: three-valued semantics and well-formedness (C07, C08, C09).  Layer 2: the 9-way merge loop, the unpacked result,
`pack` on top, the public operator, and the corollaries (plain MOCs, operands carrying one and the same flag).
-/
import HpxVerif.Lemmas.BmocOr
import HpxVerif.Lemmas.BmocPack
import HpxVerif.Lemmas.CoverWF

namespace Hpx.Bmoc

/-! ## generic steps of the merge -/

theorem Seg.padLeft {D : Nat} {l : List Cell} {a a' b : Nat} {g : Nat → Tri} (s : Seg D l a' b g) (ha : a ≤ a')
    (hab : a' ≤ b) (h0 : ∀ x, a ≤ x → x < a' → g x = .abs) : Seg D l a b g := by
  have := Seg.append ha hab (Seg.empty_abs D a a' g h0) s
  simpa using this

theorem hi_le_of_inR {D : Nat} {c : Cell} (hd : c.depth ≤ D) (hr : InR c) : hi D c ≤ 12 * 4 ^ D := by
  unfold hi
  unfold InR at hr
  have e : 4 ^ D = 4 ^ c.depth * 4 ^ (D - c.depth) := by rw [← Nat.pow_add]; congr 1; omega
  rw [e, ← Nat.mul_assoc]
  exact Nat.mul_le_mul_right _ hr

/-- one step of the merge: `out1` covers `[a, m)`, the rest of the operands (`LA'`, `LB'`) agree with the operands from `m` on -/
theorem Seg.orStep {D a m N : Nat} {out1 out2 LA LB LA' LB' : List Cell} (ham : a ≤ m) (hmN : m ≤ N)
    (s1 : Seg D out1 a m (fun x => Tri.max (stOf D LA x) (stOf D LB x)))
    (hA : ∀ x, m ≤ x → stOf D LA x = stOf D LA' x) (hB : ∀ x, m ≤ x → stOf D LB x = stOf D LB' x)
    (s2 : Seg D out2 m N (fun x => Tri.max (stOf D LA' x) (stOf D LB' x))) :
    Seg D (out1 ++ out2) a N (fun x => Tri.max (stOf D LA x) (stOf D LB x)) :=
  Seg.append ham hmN s1 (s2.mono_g (fun x hx _ => by rw [hA x hx, hB x hx]))

theorem stOf_tail_of_ge {D : Nat} {c : Cell} {l : List Cell} {x : Nat} (hx : hi D c ≤ x) :
    stOf D (c :: l) x = stOf D l x := by
  rw [stOf_cons]
  have : ¬ (lo D c ≤ x ∧ x < hi D c) := by omega
  simp [this]

/-- push the current left cell `l` (lying entirely before everything left in the right operand), advance left -/
theorem Seg.pushLeft {D a N : Nat} (l : Cell) (lit LB out' : List Cell) (hwA : WF D (l :: lit)) (hN : hi D l ≤ N)
    (haA : a ≤ lo D l) (hB : ∀ c ∈ LB, hi D l ≤ lo D c)
    (ih : Seg D out' (hi D l) N (fun x => Tri.max (stOf D lit x) (stOf D LB x))) :
    Seg D (l :: out') a N (fun x => Tri.max (stOf D (l :: lit) x) (stOf D LB x)) := by
  have hlh := lo_lt_hi D l
  have s1 : Seg D [l] a (hi D l) (fun x => Tri.max (stOf D (l :: lit) x) (stOf D LB x)) := by
    refine Seg.padLeft ((Seg.single D l.depth l.hash l.full hwA.1).mono_g ?_) haA (Nat.le_of_lt hlh) ?_
    · intro x hx1 hx2
      have h1 : lo D l ≤ x ∧ x < hi D l := ⟨hx1, hx2⟩
      have hb : stOf D LB x = .abs := stOf_absent_of_lt (fun c hc => Nat.lt_of_lt_of_le hx2 (hB c hc))
      rw [stOf_cons, hb]; simp [h1]
    · intro x _ hx2
      have hb : stOf D LB x = .abs :=
        stOf_absent_of_lt (fun c hc => Nat.lt_of_lt_of_le (Nat.lt_trans hx2 hlh) (hB c hc))
      rw [(st_facts hwA x).1 hx2, hb]; rfl
  exact Seg.orStep (Nat.le_trans haA (Nat.le_of_lt hlh)) hN s1 (fun x hx => stOf_tail_of_ge hx) (fun _ _ => rfl) ih

/-- push the current right cell, advance right -/
theorem Seg.pushRight {D a N : Nat} (r : Cell) (rit LA out' : List Cell) (hwB : WF D (r :: rit)) (hN : hi D r ≤ N)
    (haB : a ≤ lo D r) (hA : ∀ c ∈ LA, hi D r ≤ lo D c)
    (ih : Seg D out' (hi D r) N (fun x => Tri.max (stOf D LA x) (stOf D rit x))) :
    Seg D (r :: out') a N (fun x => Tri.max (stOf D LA x) (stOf D (r :: rit) x)) := by
  have := Seg.pushLeft r rit LA out' hwB hN haB hA (ih.mono_g (fun x _ _ => tri_max_comm _ _))
  exact this.mono_g (fun x _ _ => tri_max_comm _ _)

/-- same cell on both sides: push it with the `or` of the flags, advance both -/
theorem Seg.pushBoth {D a N : Nat} (l r : Cell) (lit rit out' : List Cell) (hwA : WF D (l :: lit)) (hwB : WF D (r :: rit))
    (hN : hi D l ≤ N) (haA : a ≤ lo D l) (hde : l.depth = r.depth) (he : l.hash = r.hash)
    (ih : Seg D out' (hi D l) N (fun x => Tri.max (stOf D lit x) (stOf D rit x))) :
    Seg D ({ depth := l.depth, hash := l.hash, full := r.full || l.full } :: out') a N
      (fun x => Tri.max (stOf D (l :: lit) x) (stOf D (r :: rit) x)) := by
  have hlh := lo_lt_hi D l
  have e3 : hi D l = hi D r := by unfold hi; rw [hde, he]
  have e4 : lo D l = lo D r := by unfold lo; rw [hde, he]
  have s1 : Seg D [{ depth := l.depth, hash := l.hash, full := r.full || l.full }] a (hi D l)
      (fun x => Tri.max (stOf D (l :: lit) x) (stOf D (r :: rit) x)) := by
    refine Seg.padLeft ((Seg.single D l.depth l.hash (r.full || l.full) hwA.1).mono_g ?_) haA (Nat.le_of_lt hlh) ?_
    · intro x hx1 hx2
      have h1 : lo D l ≤ x ∧ x < hi D l := ⟨hx1, hx2⟩
      have h2 : lo D r ≤ x ∧ x < hi D r := by rw [← e3, ← e4]; exact h1
      rw [stOf_cons, stOf_cons]
      simp only [h1, h2, and_self, if_true, tri_max_flags]
    · intro x _ hx2
      rw [(st_facts hwA x).1 hx2, (st_facts hwB x).1 (by rw [← e4]; exact hx2)]; rfl
  exact Seg.orStep (Nat.le_trans haA (Nat.le_of_lt hlh)) hN s1 (fun x hx => stOf_tail_of_ge hx)
    (fun x hx => stOf_tail_of_ge (by rw [← e3]; exact hx)) ih

/-- the coarse-cell branch inside the merge: `low` is the current cell of one operand (`low :: lowRest`), the other operand
    is `HB = c0 :: … = sk ++ rest` with `sk` inside `low` and `rest` after it -/
theorem Seg.pushCoarse {D a N : Nat} (low : Cell) (lowRest HB sk rest pushed out' : List Cell)
    (hwA : WF D (low :: lowRest)) (hN : hi D low ≤ N) (haA : a ≤ lo D low)
    (hHB : HB = sk ++ rest) (hlo : ∀ c ∈ HB, lo D low ≤ lo D c) (hsk : ∀ c ∈ sk, hi D c ≤ hi D low)
    (hp : Seg D pushed (lo D low) (hi D low) (fun x => Tri.max (Tri.ofFlag low.full) (stOf D HB x)))
    (ih : Seg D out' (hi D low) N (fun x => Tri.max (stOf D lowRest x) (stOf D rest x))) :
    Seg D (pushed ++ out') a N (fun x => Tri.max (stOf D (low :: lowRest) x) (stOf D HB x)) := by
  have hlh := lo_lt_hi D low
  have s1 : Seg D pushed a (hi D low) (fun x => Tri.max (stOf D (low :: lowRest) x) (stOf D HB x)) := by
    refine Seg.padLeft (hp.mono_g ?_) haA (Nat.le_of_lt hlh) ?_
    · intro x hx1 hx2
      have h1 : lo D low ≤ x ∧ x < hi D low := ⟨hx1, hx2⟩
      rw [stOf_cons]; simp [h1]
    · intro x _ hx2
      have hb : stOf D HB x = .abs := stOf_absent_of_lt (fun c hc => Nat.lt_of_lt_of_le hx2 (hlo c hc))
      rw [(st_facts hwA x).1 hx2, hb]; rfl
  refine Seg.orStep (Nat.le_trans haA (Nat.le_of_lt hlh)) hN s1 (fun x hx => stOf_tail_of_ge hx) ?_ ih
  intro x hx
  rw [hHB]
  exact stOf_append_of_ge (fun c hc => Nat.le_trans (hsk c hc) hx)

theorem WF.all_ge {D : Nat} {c : Cell} {l : List Cell} {m : Nat} (hw : WF D (c :: l)) (h : m ≤ lo D c) :
    ∀ c' ∈ c :: l, m ≤ lo D c' := by
  intro c' hc'
  rcases List.mem_cons.1 hc' with rfl | hc'
  · exact h
  · have := hw.lo_lt c' hc'; omega

/-! ## the merge loop -/

/-- **the merge loop of `or`**: with enough fuel it never returns `none` (no panic), and its output is a well-formed list
    within `[a, 12·4^D)` denoting the pointwise maximum of what is left of the two operands -/
theorem orLoop_spec (D : Nat) (hD : D ≤ 29) : ∀ (fuel : Nat) (left : Option Cell) (lit : List Cell) (right : Option Cell)
    (rit : List Cell) (a : Nat),
    (rem left lit).length + (rem right rit).length < fuel →
    WF D (rem left lit) → WF D (rem right rit) → (∀ c ∈ rem left lit, InR c) → (∀ c ∈ rem right rit, InR c) →
    (∀ c ∈ rem left lit, a ≤ lo D c) → (∀ c ∈ rem right rit, a ≤ lo D c) → a ≤ 12 * 4 ^ D →
    ∃ out, orLoop fuel left lit right rit = some out ∧
      Seg D out a (12 * 4 ^ D) (fun x => Tri.max (stOf D (rem left lit) x) (stOf D (rem right rit) x)) := by
  intro fuel
  induction fuel with
  | zero => intro left lit right rit a hf; omega
  | succ fuel ih =>
    intro left lit right rit a hf hwA hwB hrA hrB haA haB haN
    -- the induction hypothesis with the remaining lists named
    have IH : ∀ (left' : Option Cell) (lit' : List Cell) (right' : Option Cell) (rit' LA LB : List Cell) (a' : Nat),
        rem left' lit' = LA → rem right' rit' = LB → LA.length + LB.length < fuel → WF D LA → WF D LB →
        (∀ c ∈ LA, InR c) → (∀ c ∈ LB, InR c) → (∀ c ∈ LA, a' ≤ lo D c) → (∀ c ∈ LB, a' ≤ lo D c) → a' ≤ 12 * 4 ^ D →
        ∃ out, orLoop fuel left' lit' right' rit' = some out ∧
          Seg D out a' (12 * 4 ^ D) (fun x => Tri.max (stOf D LA x) (stOf D LB x)) := by
      intro left' lit' right' rit' LA LB a' e1 e2
      subst e1; subst e2
      exact ih left' lit' right' rit' a'
    cases left with
    | none =>
      cases right with
      | none =>
        refine ⟨[], by simp only [orLoop], Seg.empty_abs D _ _ _ (fun x _ _ => rfl)⟩
      | some r =>
        simp only [rem_some, rem_none] at hf hwB hrB haB ⊢
        have hNr := hi_le_of_inR hwB.1 (hrB r (by simp))
        obtain ⟨out', e', s'⟩ := IH none [] rit.head? rit.tail [] rit (hi D r) rfl (rem_head_tail _)
          (by simp only [List.length_cons, List.length_nil] at hf ⊢; omega) trivial hwB.tail (by simp)
          (fun c hc => hrB c (by simp [hc])) (by simp) hwB.2.1 hNr
        refine ⟨r :: out', by simp only [orLoop, e', Option.map_some], ?_⟩
        exact Seg.pushRight r rit [] out' hwB hNr (haB r (by simp)) (by simp) s'
    | some l =>
      simp only [rem_some] at hf hwA hrA haA ⊢
      have hNl := hi_le_of_inR hwA.1 (hrA l (by simp))
      have hrlit : ∀ c ∈ lit, InR c := fun c hc => hrA c (by simp [hc])
      have hal : a ≤ lo D l := haA l (by simp)
      cases right with
      | none =>
        simp only [rem_none] at hf ⊢
        obtain ⟨out', e', s'⟩ := IH lit.head? lit.tail none [] lit [] (hi D l) (rem_head_tail _) rfl
          (by simp only [List.length_cons, List.length_nil] at hf ⊢; omega) hwA.tail trivial hrlit (by simp)
          hwA.2.1 (by simp) hNl
        refine ⟨l :: out', by simp only [orLoop, e', Option.map_some], ?_⟩
        exact Seg.pushLeft l lit [] out' hwA hNl hal (by simp) s'
      | some r =>
        simp only [rem_some] at hf hwB hrB haB ⊢
        have hNr := hi_le_of_inR hwB.1 (hrB r (by simp))
        have hrrit : ∀ c ∈ rit, InR c := fun c hc => hrB c (by simp [hc])
        have har : a ≤ lo D r := haB r (by simp)
        have hlen := hf
        simp only [List.length_cons] at hlen
        -- "l lies before r": push l, advance left
        have pushL : hi D l ≤ lo D r → ∃ out', orLoop fuel lit.head? lit.tail (some r) rit = some out' ∧
            Seg D (l :: out') a (12 * 4 ^ D) (fun x => Tri.max (stOf D (l :: lit) x) (stOf D (r :: rit) x)) := by
          intro hb
          obtain ⟨out', e', s'⟩ := IH lit.head? lit.tail (some r) rit lit (r :: rit) (hi D l) (rem_head_tail _) rfl
            (by simp only [List.length_cons]; omega) hwA.tail hwB hrlit hrB hwA.2.1 (hwB.all_ge hb) hNl
          exact ⟨out', e', Seg.pushLeft l lit (r :: rit) out' hwA hNl hal (hwB.all_ge hb) s'⟩
        have pushR : hi D r ≤ lo D l → ∃ out', orLoop fuel (some l) lit rit.head? rit.tail = some out' ∧
            Seg D (r :: out') a (12 * 4 ^ D) (fun x => Tri.max (stOf D (l :: lit) x) (stOf D (r :: rit) x)) := by
          intro hb
          obtain ⟨out', e', s'⟩ := IH (some l) lit rit.head? rit.tail (l :: lit) rit (hi D r) rfl (rem_head_tail _)
            (by simp only [List.length_cons]; omega) hwA hwB.tail hrA hrrit (hwA.all_ge hb) hwB.2.1 hNr
          exact ⟨out', e', Seg.pushRight r rit (l :: lit) out' hwB hNr har (hwA.all_ge hb) s'⟩
        rcases Nat.lt_trichotomy l.depth r.depth with hd | hd | hd
        · -- `l` is the low-resolution cell
          have hdl : l.depth ≤ r.depth := Nat.le_of_lt hd
          rcases Nat.lt_trichotomy l.hash (r.hash >>> ((r.depth - l.depth) <<< 1)) with hh | hh | hh
          · obtain ⟨out', e', s'⟩ := pushL ((cmp_lt_iff (D := D) hdl hwB.1).1 hh)
            refine ⟨l :: out', ?_, s'⟩
            rw [orLoop]; simp only [hd, hh, if_true, e', Option.map_some]
          · rw [orLoop_coarse_left fuel l r lit rit hd hh]
            have hin : Inside D l r := ⟨hdl, (cmp_eq_iff (D := D) hdl hwB.1).1 hh⟩
            obtain ⟨pushed, cell, it', q0, ⟨sk, e, k⟩, q2, q3⟩ := orCoarse_spec D hD l r rit hwA.1 hin hwB hrB
            rw [q0]
            simp only
            have hwt : WF D (sk ++ rem cell it') := e ▸ hwB.tail
            have hl2 : rit.length = sk.length + (rem cell it').length := by rw [e, List.length_append]
            obtain ⟨out', e', s'⟩ := IH lit.head? lit.tail cell it' lit (rem cell it') (hi D l) (rem_head_tail _) rfl
              (by omega) hwA.tail (WF_append_iff.1 hwt).2.1 hrlit
              (fun c hc => hrrit c (by rw [e]; simp [hc])) hwA.2.1 q2 hNl
            rw [e']
            refine ⟨pushed ++ out', rfl, ?_⟩
            refine Seg.pushCoarse l lit (r :: rit) (r :: sk) (rem cell it') pushed out' hwA hNl hal
              (by rw [e]; rfl) (hwB.all_ge hin.2.1) ?_ q3 s'
            intro c hc
            rcases List.mem_cons.1 hc with rfl | hc
            · exact hin.2.2
            · exact k c hc
          · obtain ⟨out', e', s'⟩ := pushR ((cmp_gt_iff (D := D) hdl hwB.1).1 hh)
            refine ⟨r :: out', ?_, s'⟩
            have h1 : ¬ (l.hash < r.hash >>> ((r.depth - l.depth) <<< 1)) := by omega
            rw [orLoop]; simp only [hd, h1, hh, gt_iff_lt, if_true, if_false, e', Option.map_some]
        · -- same depth
          have hc := cmp_same (D := D) hd hwB.1
          have h0 : ¬ (l.depth < r.depth) := by omega
          have h0' : ¬ (l.depth > r.depth) := by omega
          rcases Nat.lt_trichotomy l.hash r.hash with hh | hh | hh
          · obtain ⟨out', e', s'⟩ := pushL (hc.1.1 hh)
            refine ⟨l :: out', ?_, s'⟩
            rw [orLoop]; simp only [h0, h0', hh, if_true, if_false, e', Option.map_some]
          · have h1 : ¬ (l.hash < r.hash) := by omega
            have h2 : ¬ (l.hash > r.hash) := by omega
            obtain ⟨out', e', s'⟩ := IH lit.head? lit.tail rit.head? rit.tail lit rit (hi D l) (rem_head_tail _)
              (rem_head_tail _) (by omega) hwA.tail hwB.tail hrlit hrrit hwA.2.1
              (by
                have e3 : hi D l = hi D r := by unfold hi; rw [hd, hh]
                rw [e3]; exact hwB.2.1) hNl
            refine ⟨_ :: out', ?_, Seg.pushBoth l r lit rit out' hwA hwB hNl hal hd hh s'⟩
            rw [orLoop]; simp only [h0, h0', h1, h2, if_false, e', Option.map_some]
          · obtain ⟨out', e', s'⟩ := pushR (hc.2.1.1 hh)
            refine ⟨r :: out', ?_, s'⟩
            have h1 : ¬ (l.hash < r.hash) := by omega
            rw [orLoop]; simp only [h0, h0', h1, hh, gt_iff_lt, if_true, if_false, e', Option.map_some]
        · -- `r` is the low-resolution cell
          have hdl : r.depth ≤ l.depth := Nat.le_of_lt hd
          have h0 : ¬ (l.depth < r.depth) := by omega
          rcases Nat.lt_trichotomy (l.hash >>> ((l.depth - r.depth) <<< 1)) r.hash with hh | hh | hh
          · obtain ⟨out', e', s'⟩ := pushL ((cmp_gt_iff (D := D) hdl hwA.1).1 hh)
            refine ⟨l :: out', ?_, s'⟩
            rw [orLoop]; simp only [h0, hd, gt_iff_lt, hh, if_true, if_false, e', Option.map_some]
          · rw [orLoop_coarse_right fuel l r lit rit hd hh.symm]
            have hin : Inside D r l := ⟨hdl, (cmp_eq_iff (D := D) hdl hwA.1).1 hh.symm⟩
            obtain ⟨pushed, cell, it', q0, ⟨sk, e, k⟩, q2, q3⟩ := orCoarse_spec D hD r l lit hwB.1 hin hwA hrA
            rw [q0]
            simp only
            have hwt : WF D (sk ++ rem cell it') := e ▸ hwA.tail
            have hl2 : lit.length = sk.length + (rem cell it').length := by rw [e, List.length_append]
            obtain ⟨out', e', s'⟩ := IH cell it' rit.head? rit.tail (rem cell it') rit (hi D r) rfl (rem_head_tail _)
              (by omega) (WF_append_iff.1 hwt).2.1 hwB.tail
              (fun c hc => hrlit c (by rw [e]; simp [hc])) hrrit q2 hwB.2.1 hNr
            rw [e']
            refine ⟨pushed ++ out', rfl, ?_⟩
            have := Seg.pushCoarse r rit (l :: lit) (l :: sk) (rem cell it') pushed out' hwB hNr har
              (by rw [e]; rfl) (hwA.all_ge hin.2.1) (by
                intro c hc
                rcases List.mem_cons.1 hc with rfl | hc
                · exact hin.2.2
                · exact k c hc) q3 (s'.mono_g (fun x _ _ => tri_max_comm _ _))
            exact this.mono_g (fun x _ _ => tri_max_comm _ _)
          · obtain ⟨out', e', s'⟩ := pushR ((cmp_lt_iff (D := D) hdl hwA.1).1 hh)
            refine ⟨r :: out', ?_, s'⟩
            have h1 : ¬ (l.hash >>> ((l.depth - r.depth) <<< 1) < r.hash) := by omega
            rw [orLoop]; simp only [h0, hd, gt_iff_lt, h1, hh, if_true, if_false, e', Option.map_some]

/-! ## the unpacked result of `or` -/

/-- everything at once: no panic, and the output is a well-formed tiling within `[0, 12·4^D)` denoting the maximum -/
theorem orCells_spec (D : Nat) (hD : D ≤ 29) (a b : List Cell) (ha : WF D a) (hb : WF D b)
    (hra : ∀ c ∈ a, InR c) (hrb : ∀ c ∈ b, InR c) :
    ∃ l, orCellsUnpacked a b = some l ∧
      Seg D l 0 (12 * 4 ^ D) (fun x => Tri.max (stOf D a x) (stOf D b x)) := by
  have := orLoop_spec D hD (a.length + b.length + 2) a.head? a.tail b.head? b.tail 0
    (by rw [rem_head_tail, rem_head_tail]; omega) (by rw [rem_head_tail]; exact ha) (by rw [rem_head_tail]; exact hb)
    (by rw [rem_head_tail]; exact hra) (by rw [rem_head_tail]; exact hrb) (fun _ _ => Nat.zero_le _)
    (fun _ _ => Nat.zero_le _) (Nat.zero_le _)
  rw [rem_head_tail, rem_head_tail] at this
  exact this

/-- **1. `or` never panics** on well-formed in-range operands (the fuel of the model suffices and the `unwrap` in
    `not_in_cell_4_or` never fails) -/
theorem orCells_some (D : Nat) (hD : D ≤ 29) (a b : List Cell) (ha : WF D a) (hb : WF D b)
    (hra : ∀ c ∈ a, InR c) (hrb : ∀ c ∈ b, InR c) : ∃ l, orCellsUnpacked a b = some l := by
  obtain ⟨l, e, _⟩ := orCells_spec D hD a b ha hb hra hrb
  exact ⟨l, e⟩

/-- **3. the result of `or` is well formed and in range** -/
theorem or_wf (D : Nat) (hD : D ≤ 29) (a b : List Cell) (ha : WF D a) (hb : WF D b)
    (hra : ∀ c ∈ a, InR c) (hrb : ∀ c ∈ b, InR c) (l : List Cell) (hl : orCellsUnpacked a b = some l) :
    WF D l ∧ ∀ c ∈ l, InR c := by
  obtain ⟨l', e, s⟩ := orCells_spec D hD a b ha hb hra hrb
  rw [hl] at e
  cases e
  exact ⟨s.wf, fun c hc => inR_of_hi D c (s.wf.depth_le c hc) (s.inside c hc).2⟩

theorem stOf_abs_beyond {D : Nat} {l : List Cell} (hw : WF D l) (hr : ∀ c ∈ l, InR c) {x : Nat} (hx : 12 * 4 ^ D ≤ x) :
    stOf D l x = .abs :=
  stOf_absent_of_ge (fun c hc => Nat.le_trans (hi_le_of_inR (hw.depth_le c hc) (hr c hc)) hx)

/-- **2. three-valued semantics of `or`**: the state of every cell of depth `D` is the maximum of its states in the operands
    (stated for every `x`; beyond `12·4^D` everything is absent) -/
theorem or3_sem_all (D : Nat) (hD : D ≤ 29) (a b : List Cell) (ha : WF D a) (hb : WF D b)
    (hra : ∀ c ∈ a, InR c) (hrb : ∀ c ∈ b, InR c) (l : List Cell) (hl : orCellsUnpacked a b = some l) (x : Nat) :
    stOf D l x = Tri.max (stOf D a x) (stOf D b x) := by
  obtain ⟨l', e, s⟩ := orCells_spec D hD a b ha hb hra hrb
  rw [hl] at e
  cases e
  by_cases hx : x < 12 * 4 ^ D
  · exact s.sem x (Nat.zero_le _) hx
  · have hx' : 12 * 4 ^ D ≤ x := by omega
    obtain ⟨w, r⟩ := or_wf D hD a b ha hb hra hrb l hl
    rw [stOf_abs_beyond w r hx', stOf_abs_beyond ha hra hx', stOf_abs_beyond hb hrb hx']; rfl

theorem or3_sem (D : Nat) (hD : D ≤ 29) (a b : List Cell) (ha : WF D a) (hb : WF D b)
    (hra : ∀ c ∈ a, InR c) (hrb : ∀ c ∈ b, InR c) (l : List Cell) (hl : orCellsUnpacked a b = some l) :
    ∀ x, x < 12 * 4 ^ D → stOf D l x = Tri.max (stOf D a x) (stOf D b x) :=
  fun x _ => or3_sem_all D hD a b ha hb hra hrb l hl x

/-! ## flags from the semantics -/

theorem ofFlag_inj {f g : Bool} (h : Tri.ofFlag f = Tri.ofFlag g) : f = g := by
  cases f <;> cases g <;> simp [Tri.ofFlag] at h ⊢

theorem ofFlag_ne_abs (f : Bool) : Tri.ofFlag f ≠ .abs := by cases f <;> simp [Tri.ofFlag]

/-- in a well-formed list, the state at the first depth-`D` cell of a member is that member's flag -/
theorem WF.stOf_self {D : Nat} {l : List Cell} (hw : WF D l) {c : Cell} (hc : c ∈ l) :
    stOf D l (lo D c) = Tri.ofFlag c.full := by
  induction l with
  | nil => simp at hc
  | cons c0 l ih =>
    rw [stOf_cons]
    rcases List.mem_cons.1 hc with rfl | hc
    · have := lo_lt_hi D c
      simp [this]
    · have h1 := hw.2.1 c hc
      have : ¬ (lo D c0 ≤ lo D c ∧ lo D c < hi D c0) := by omega
      simp only [this, if_false]
      exact ih hw.tail hc

theorem stOf_of_all_flag {D : Nat} {l : List Cell} {f : Bool} (h : ∀ c ∈ l, c.full = f) (x : Nat) :
    stOf D l x = .abs ∨ stOf D l x = Tri.ofFlag f := by
  induction l with
  | nil => exact Or.inl rfl
  | cons c l ih =>
    rw [stOf_cons]
    split
    · exact Or.inr (by rw [h c (by simp)])
    · exact ih (fun c' hc' => h c' (by simp [hc']))

/-- a well-formed list whose states are only `absent` or the state of flag `f` has flag `f` on every cell -/
theorem flags_of_sem {D : Nat} {l : List Cell} {f : Bool} (hw : WF D l)
    (h : ∀ x, stOf D l x = .abs ∨ stOf D l x = Tri.ofFlag f) : ∀ c ∈ l, c.full = f := by
  intro c hc
  have h1 := hw.stOf_self hc
  rcases h (lo D c) with h2 | h2
  · rw [h1] at h2; exact absurd h2 (ofFlag_ne_abs _)
  · rw [h1] at h2; exact ofFlag_inj h2

theorem tri_max_of_flag {f : Bool} {s t : Tri} (hs : s = .abs ∨ s = Tri.ofFlag f) (ht : t = .abs ∨ t = Tri.ofFlag f) :
    Tri.max s t = .abs ∨ Tri.max s t = Tri.ofFlag f := by
  rcases hs with rfl | rfl <;> rcases ht with rfl | rfl <;> cases f <;> simp [Tri.max, Tri.ofFlag]

/-- **equal-flag corollary** (what the fixed-depth builder needs): if every cell of both operands carries the flag `f`, so
    does every cell of the result, and the covered set is the union of the covered sets -/
theorem or_same_flag (D : Nat) (hD : D ≤ 29) (a b : List Cell) (ha : WF D a) (hb : WF D b)
    (hra : ∀ c ∈ a, InR c) (hrb : ∀ c ∈ b, InR c) (f : Bool) (hfa : ∀ c ∈ a, c.full = f) (hfb : ∀ c ∈ b, c.full = f)
    (l : List Cell) (hl : orCellsUnpacked a b = some l) :
    (∀ c ∈ l, c.full = f) ∧ ∀ x, stOf D l x ≠ .abs ↔ (stOf D a x ≠ .abs ∨ stOf D b x ≠ .abs) := by
  have hs := or3_sem_all D hD a b ha hb hra hrb l hl
  refine ⟨flags_of_sem (or_wf D hD a b ha hb hra hrb l hl).1 ?_, ?_⟩
  · intro x
    rw [hs x]
    exact tri_max_of_flag (stOf_of_all_flag hfa x) (stOf_of_all_flag hfb x)
  · intro x
    rw [hs x, ne_eq, tri_max_eq_abs]
    tauto

/-- **plain-MOC corollary**: if all flags are `full`, the result is a plain MOC (all flags `full`) and a depth-`D` cell is in
    the result iff it is in one of the operands -/
theorem or_moc (D : Nat) (hD : D ≤ 29) (a b : List Cell) (ha : WF D a) (hb : WF D b)
    (hra : ∀ c ∈ a, InR c) (hrb : ∀ c ∈ b, InR c) (hfa : ∀ c ∈ a, c.full = true) (hfb : ∀ c ∈ b, c.full = true)
    (l : List Cell) (hl : orCellsUnpacked a b = some l) :
    (∀ c ∈ l, c.full = true) ∧ ∀ x, stOf D l x = .full ↔ (stOf D a x = .full ∨ stOf D b x = .full) := by
  refine ⟨(or_same_flag D hD a b ha hb hra hrb true hfa hfb l hl).1, ?_⟩
  intro x
  rw [or3_sem_all D hD a b ha hb hra hrb l hl x, tri_max_eq_full]

/-! ## the public operator: `pack` on top, raw entries -/

theorem cells_eq_cellsOf (b : BMOC) : b.cells = cellsOf b.dmax b.entries := rfl

theorem inR_of_validRaw {dm : Nat} (hdm : dm ≤ 29) {l : List Nat} (hv : ∀ r ∈ l, ValidRaw dm r) :
    ∀ c ∈ cellsOf dm l, InR c := by
  intro c hc
  obtain ⟨r, hr, rfl⟩ := List.mem_map.1 hc
  exact (raw_of_decode hdm (hv r hr) rfl).2.2

/-- **4. `BMOC::or`** on two BMOCs whose cell lists are well formed w.r.t. `D = max(depth_max)` and in range: it does not
    panic; the result has depth `D`, valid and strictly increasing raw entries, a well-formed in-range cell list, and the
    state of every depth-`D` cell is the maximum of its states in the operands -/
theorem bmoc_or_spec (A B : BMOC) (D : Nat) (hmax : max A.dmax B.dmax = D) (hD : D ≤ 29)
    (hwA : WF D A.cells) (hwB : WF D B.cells) (hrA : ∀ c ∈ A.cells, InR c) (hrB : ∀ c ∈ B.cells, InR c) :
    ∃ R, BMOC.or A B = some R ∧ R.dmax = D ∧ (∀ r ∈ R.entries, ValidRaw D r) ∧ WF D R.cells ∧
      (∀ c ∈ R.cells, InR c) ∧ R.entries.Pairwise (· < ·) ∧
      ∀ x, stOf D R.cells x = Tri.max (stOf D A.cells x) (stOf D B.cells x) := by
  subst hmax
  obtain ⟨l, hl⟩ := orCells_some _ hD _ _ hwA hwB hrA hrB
  obtain ⟨wl, rl⟩ := or_wf _ hD _ _ hwA hwB hrA hrB l hl
  have hs := or3_sem_all _ hD _ _ hwA hwB hrA hrB l hl
  obtain ⟨g1, g2, g3, g4⟩ := Hpx.Cover.packed_bmoc_wf (max A.dmax B.dmax) hD l wl rl
  refine ⟨{ dmax := max A.dmax B.dmax, entries := pack (max A.dmax B.dmax) (l.map (encode (max A.dmax B.dmax))) }, ?_,
    rfl, g1, g2, inR_of_validRaw hD g1, g3, fun x => ?_⟩
  · unfold BMOC.or
    simp only [hl, Option.map_some]
  · rw [cells_eq_cellsOf]
    exact (g4 x).trans (hs x)

/-- `BMOC::or` for operands carrying one and the same flag `f`: so does the result; covered set = union -/
theorem bmoc_or_same_flag (A B : BMOC) (D : Nat) (hmax : max A.dmax B.dmax = D) (hD : D ≤ 29)
    (hwA : WF D A.cells) (hwB : WF D B.cells) (hrA : ∀ c ∈ A.cells, InR c) (hrB : ∀ c ∈ B.cells, InR c)
    (f : Bool) (hfA : ∀ c ∈ A.cells, c.full = f) (hfB : ∀ c ∈ B.cells, c.full = f) (R : BMOC) (hR : BMOC.or A B = some R) :
    (∀ c ∈ R.cells, c.full = f) ∧ ∀ x, stOf D R.cells x ≠ .abs ↔ (stOf D A.cells x ≠ .abs ∨ stOf D B.cells x ≠ .abs) := by
  obtain ⟨R', e, _, _, w, _, _, hs⟩ := bmoc_or_spec A B D hmax hD hwA hwB hrA hrB
  rw [hR] at e
  cases e
  refine ⟨flags_of_sem w ?_, ?_⟩
  · intro x
    rw [hs x]
    exact tri_max_of_flag (stOf_of_all_flag hfA x) (stOf_of_all_flag hfB x)
  · intro x
    rw [hs x, ne_eq, tri_max_eq_abs]
    tauto

/-- `BMOC::or` on plain MOCs (all flags `full`) is the union, and the result is a plain MOC -/
theorem bmoc_or_moc (A B : BMOC) (D : Nat) (hmax : max A.dmax B.dmax = D) (hD : D ≤ 29)
    (hwA : WF D A.cells) (hwB : WF D B.cells) (hrA : ∀ c ∈ A.cells, InR c) (hrB : ∀ c ∈ B.cells, InR c)
    (hfA : ∀ c ∈ A.cells, c.full = true) (hfB : ∀ c ∈ B.cells, c.full = true) (R : BMOC) (hR : BMOC.or A B = some R) :
    (∀ c ∈ R.cells, c.full = true) ∧ ∀ x, stOf D R.cells x = .full ↔ (stOf D A.cells x = .full ∨ stOf D B.cells x = .full) := by
  refine ⟨(bmoc_or_same_flag A B D hmax hD hwA hwB hrA hrB true hfA hfB R hR).1, ?_⟩
  obtain ⟨R', e, _, _, _, _, _, hs⟩ := bmoc_or_spec A B D hmax hD hwA hwB hrA hrB
  rw [hR] at e
  cases e
  intro x
  rw [hs x, tri_max_eq_full]

/-- the specification of `or` in the shape used by the fixed-depth builder (`OrSpec` of `Lemmas/BmocBuilder.lean`):
    operands of the same depth with valid entries and well-formed cell lists -/
theorem bmoc_or_good (A B : BMOC) (D : Nat) (hD : D ≤ 29) (hA : A.dmax = D) (hB : B.dmax = D)
    (gA : (∀ r ∈ A.entries, ValidRaw D r) ∧ WF D A.cells) (gB : (∀ r ∈ B.entries, ValidRaw D r) ∧ WF D B.cells) :
    ∃ R, BMOC.or A B = some R ∧ R.dmax = D ∧ ((∀ r ∈ R.entries, ValidRaw D r) ∧ WF D R.cells) ∧
      ∀ x, x < 12 * 4 ^ D → stOf D R.cells x = Tri.max (stOf D A.cells x) (stOf D B.cells x) := by
  have hrA : ∀ c ∈ A.cells, InR c := by
    rw [cells_eq_cellsOf, hA]; exact inR_of_validRaw hD gA.1
  have hrB : ∀ c ∈ B.cells, InR c := by
    rw [cells_eq_cellsOf, hB]; exact inR_of_validRaw hD gB.1
  obtain ⟨R, e, h1, h2, h3, _, _, h6⟩ := bmoc_or_spec A B D (by rw [hA, hB, Nat.max_self]) hD gA.2 gB.2 hrA hrB
  exact ⟨R, e, h1, ⟨h2, h3⟩, fun x _ => h6 x⟩

/-! ## operands of different `depth_max`: change of reference depth -/

theorem lo_rebase {d D : Nat} (h : d ≤ D) {c : Cell} (hc : c.depth ≤ d) : lo D c = lo d c * 4 ^ (D - d) := by
  unfold lo
  rw [Nat.mul_assoc, ← Nat.pow_add]
  congr 2; omega

theorem hi_rebase {d D : Nat} (h : d ≤ D) {c : Cell} (hc : c.depth ≤ d) : hi D c = hi d c * 4 ^ (D - d) := by
  unfold hi
  rw [Nat.mul_assoc, ← Nat.pow_add]
  congr 2; omega

/-- a list well formed w.r.t. its own depth is well formed w.r.t. every larger reference depth -/
theorem WF_rebase {d D : Nat} (h : d ≤ D) {l : List Cell} (hw : WF d l) : WF D l := by
  induction l with
  | nil => trivial
  | cons c l ih =>
    refine ⟨Nat.le_trans hw.1 h, ?_, ih hw.tail⟩
    intro c' hc'
    rw [hi_rebase h hw.1, lo_rebase h (hw.tail.depth_le c' hc')]
    exact Nat.mul_le_mul_right _ (hw.2.1 c' hc')

/-- the state of a depth-`D` cell is the state of its ancestor at the list's own reference depth -/
theorem stOf_rebase {d D : Nat} (h : d ≤ D) {l : List Cell} (hdep : ∀ c ∈ l, c.depth ≤ d) (x : Nat) :
    stOf D l x = stOf d l (x / 4 ^ (D - d)) := by
  have hk : 0 < 4 ^ (D - d) := Nat.pow_pos (by decide)
  induction l with
  | nil => rfl
  | cons c l ih =>
    have hc := hdep c (by simp)
    rw [stOf_cons, stOf_cons, ih (fun c' hc' => hdep c' (by simp [hc'])), lo_rebase h hc, hi_rebase h hc]
    simp only [Nat.le_div_iff_mul_le hk, Nat.div_lt_iff_lt_mul hk]

/-- **`BMOC::or` for two well-formed BMOCs of any depths `≤ 29`** (each with valid entries and a cell list well formed
    w.r.t. its own `depth_max`): no panic; the result is a well-formed BMOC of depth `D = max`, and the state of a depth-`D`
    cell is the maximum of the states of its ancestors in the operands -/
theorem bmoc_or_general (A B : BMOC) (hA : A.dmax ≤ 29) (hB : B.dmax ≤ 29)
    (gA : (∀ r ∈ A.entries, ValidRaw A.dmax r) ∧ WF A.dmax A.cells)
    (gB : (∀ r ∈ B.entries, ValidRaw B.dmax r) ∧ WF B.dmax B.cells) :
    ∃ R, BMOC.or A B = some R ∧ R.dmax = max A.dmax B.dmax ∧ (∀ r ∈ R.entries, ValidRaw (max A.dmax B.dmax) r) ∧
      WF (max A.dmax B.dmax) R.cells ∧ R.entries.Pairwise (· < ·) ∧
      ∀ x, stOf (max A.dmax B.dmax) R.cells x =
        Tri.max (stOf A.dmax A.cells (x / 4 ^ (max A.dmax B.dmax - A.dmax)))
          (stOf B.dmax B.cells (x / 4 ^ (max A.dmax B.dmax - B.dmax))) := by
  have hD : max A.dmax B.dmax ≤ 29 := Nat.max_le.2 ⟨hA, hB⟩
  have hrA : ∀ c ∈ A.cells, InR c := inR_of_validRaw hA gA.1
  have hrB : ∀ c ∈ B.cells, InR c := inR_of_validRaw hB gB.1
  obtain ⟨R, e, h1, h2, h3, _, h5, h6⟩ := bmoc_or_spec A B _ rfl hD (WF_rebase (Nat.le_max_left _ _) gA.2)
    (WF_rebase (Nat.le_max_right _ _) gB.2) hrA hrB
  refine ⟨R, e, h1, h2, h3, h5, fun x => ?_⟩
  rw [h6 x, stOf_rebase (Nat.le_max_left _ _) gA.2.depth_le, stOf_rebase (Nat.le_max_right _ _) gB.2.depth_le]

/-! ## the model on concrete operands (depth 2), and satisfiability of the hypotheses -/

/-- a partial depth-0 cell over a full depth-1 and a full depth-2 cell (then a further cell): partial cells are pushed around
    the full ones -/
example : orCellsUnpacked [⟨0, 0, false⟩, ⟨1, 4, true⟩] [⟨1, 1, true⟩, ⟨2, 12, true⟩, ⟨0, 2, false⟩] =
    some [⟨1, 0, false⟩, ⟨1, 1, true⟩, ⟨1, 2, false⟩, ⟨2, 12, true⟩, ⟨2, 13, false⟩, ⟨2, 14, false⟩, ⟨2, 15, false⟩,
      ⟨1, 4, true⟩, ⟨0, 2, false⟩] := by decide +kernel

/-- partial sub-cells only: the partial low-resolution cell is kept -/
example : orCellsUnpacked [⟨0, 0, false⟩] [⟨2, 1, false⟩, ⟨2, 5, false⟩, ⟨0, 1, false⟩] =
    some [⟨0, 0, false⟩, ⟨0, 1, false⟩] := by decide +kernel

/-- a full low-resolution cell absorbs its sub-cells -/
example : orCellsUnpacked [⟨2, 1, false⟩, ⟨2, 5, true⟩, ⟨0, 1, false⟩] [⟨0, 0, true⟩] =
    some [⟨0, 0, true⟩, ⟨0, 1, false⟩] := by decide +kernel

/-- the hypotheses of `orCells_some`, `or3_sem`, `or_wf` hold for these operands (`D = 2`) -/
example : WF 2 [⟨0, 0, false⟩, ⟨1, 4, true⟩] ∧ WF 2 [⟨1, 1, true⟩, ⟨2, 12, true⟩, ⟨0, 2, false⟩] ∧
    (∀ c ∈ [(⟨0, 0, false⟩ : Cell), ⟨1, 4, true⟩], InR c) ∧
    (∀ c ∈ [(⟨1, 1, true⟩ : Cell), ⟨2, 12, true⟩, ⟨0, 2, false⟩], InR c) := by
  simp [WF, InR, lo, hi]

end Hpx.Bmoc

#print axioms Hpx.Bmoc.orCells_some
#print axioms Hpx.Bmoc.or3_sem
#print axioms Hpx.Bmoc.or3_sem_all
#print axioms Hpx.Bmoc.or_wf
#print axioms Hpx.Bmoc.or_same_flag
#print axioms Hpx.Bmoc.or_moc
#print axioms Hpx.Bmoc.bmoc_or_spec
#print axioms Hpx.Bmoc.bmoc_or_same_flag
#print axioms Hpx.Bmoc.bmoc_or_moc
#print axioms Hpx.Bmoc.bmoc_or_good
#print axioms Hpx.Bmoc.bmoc_or_general
