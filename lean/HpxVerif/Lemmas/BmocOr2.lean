/-
`or`: three-valued semantics and well-formedness (C07, C08, C09).  Layer 2: the 9-way merge loop, the unpacked result,
`pack` on top, the public operator, and the corollaries (plain MOCs, operands carrying one and the same flag).
-/
import HpxVerif.Lemmas.BmocOr
import HpxVerif.Lemmas.BmocPack

namespace Hpx.Bmoc

/-! ## generic steps of the merge -/

theorem Seg.padLeft {D : Nat} {l : List Cell} {a a' b : Nat} {g : Nat → Tri} (s : Seg D l a' b g) (ha : a ≤ a')
    (hab : a' ≤ b) (h0 : ∀ x, a ≤ x → x < a' → g x = .abs) : Seg D l a b g := by
  have := Seg.append ha hab (Seg.empty_abs D a a' g h0) s
  simpa using this

theorem hi_le_of_inR {D : Nat} {c : Cell} (hd : c.depth ≤ D) (hr : InR c) : hi D c ≤ 12 * 4 ^ D := by
  unfold hi
  unfold InR at hr
  have e : 4 ^ D = 4 ^ c.depth * 4 ^ (D - c.depth) := by rw [← Nat.pow_add]; congr 1; omega
  rw [e, ← Nat.mul_assoc]
  exact Nat.mul_le_mul_right _ hr

/-- one step of the merge: `out1` covers `[a, m)`, the rest of the operands (`LA'`, `LB'`) agree with the operands from `m` on -/
theorem Seg.orStep {D a m N : Nat} {out1 out2 LA LB LA' LB' : List Cell} (ham : a ≤ m) (hmN : m ≤ N)
    (s1 : Seg D out1 a m (fun x => Tri.max (stOf D LA x) (stOf D LB x)))
    (hA : ∀ x, m ≤ x → stOf D LA x = stOf D LA' x) (hB : ∀ x, m ≤ x → stOf D LB x = stOf D LB' x)
    (s2 : Seg D out2 m N (fun x => Tri.max (stOf D LA' x) (stOf D LB' x))) :
    Seg D (out1 ++ out2) a N (fun x => Tri.max (stOf D LA x) (stOf D LB x)) :=
  Seg.append ham hmN s1 (s2.mono_g (fun x hx _ => by rw [hA x hx, hB x hx]))

theorem stOf_tail_of_ge {D : Nat} {c : Cell} {l : List Cell} {x : Nat} (hx : hi D c ≤ x) :
    stOf D (c :: l) x = stOf D l x := by
  rw [stOf_cons]
  have : ¬ (lo D c ≤ x ∧ x < hi D c) := by omega
  simp [this]

/-- push the current left cell `l` (lying entirely before everything left in the right operand), advance left -/
theorem Seg.pushLeft {D a N : Nat} (l : Cell) (lit LB out' : List Cell) (hwA : WF D (l :: lit)) (hN : hi D l ≤ N)
    (haA : a ≤ lo D l) (hB : ∀ c ∈ LB, hi D l ≤ lo D c)
    (ih : Seg D out' (hi D l) N (fun x => Tri.max (stOf D lit x) (stOf D LB x))) :
    Seg D (l :: out') a N (fun x => Tri.max (stOf D (l :: lit) x) (stOf D LB x)) := by
  have hlh := lo_lt_hi D l
  have s1 : Seg D [l] a (hi D l) (fun x => Tri.max (stOf D (l :: lit) x) (stOf D LB x)) := by
    refine Seg.padLeft ((Seg.single D l.depth l.hash l.full hwA.1).mono_g ?_) haA (Nat.le_of_lt hlh) ?_
    · intro x hx1 hx2
      have h1 : lo D l ≤ x ∧ x < hi D l := ⟨hx1, hx2⟩
      have hb : stOf D LB x = .abs := stOf_absent_of_lt (fun c hc => Nat.lt_of_lt_of_le hx2 (hB c hc))
      rw [stOf_cons, hb]; simp [h1]
    · intro x _ hx2
      have hb : stOf D LB x = .abs :=
        stOf_absent_of_lt (fun c hc => Nat.lt_of_lt_of_le (Nat.lt_trans hx2 hlh) (hB c hc))
      rw [(st_facts hwA x).1 hx2, hb]; rfl
  exact Seg.orStep (Nat.le_trans haA (Nat.le_of_lt hlh)) hN s1 (fun x hx => stOf_tail_of_ge hx) (fun _ _ => rfl) ih

/-- push the current right cell, advance right -/
theorem Seg.pushRight {D a N : Nat} (r : Cell) (rit LA out' : List Cell) (hwB : WF D (r :: rit)) (hN : hi D r ≤ N)
    (haB : a ≤ lo D r) (hA : ∀ c ∈ LA, hi D r ≤ lo D c)
    (ih : Seg D out' (hi D r) N (fun x => Tri.max (stOf D LA x) (stOf D rit x))) :
    Seg D (r :: out') a N (fun x => Tri.max (stOf D LA x) (stOf D (r :: rit) x)) := by
  have := Seg.pushLeft r rit LA out' hwB hN haB hA (ih.mono_g (fun x _ _ => tri_max_comm _ _))
  exact this.mono_g (fun x _ _ => tri_max_comm _ _)

/-- same cell on both sides: push it with the `or` of the flags, advance both -/
theorem Seg.pushBoth {D a N : Nat} (l r : Cell) (lit rit out' : List Cell) (hwA : WF D (l :: lit)) (hwB : WF D (r :: rit))
    (hN : hi D l ≤ N) (haA : a ≤ lo D l) (hde : l.depth = r.depth) (he : l.hash = r.hash)
    (ih : Seg D out' (hi D l) N (fun x => Tri.max (stOf D lit x) (stOf D rit x))) :
    Seg D ({ depth := l.depth, hash := l.hash, full := r.full || l.full } :: out') a N
      (fun x => Tri.max (stOf D (l :: lit) x) (stOf D (r :: rit) x)) := by
  have hlh := lo_lt_hi D l
  have e3 : hi D l = hi D r := by unfold hi; rw [hde, he]
  have e4 : lo D l = lo D r := by unfold lo; rw [hde, he]
  have s1 : Seg D [{ depth := l.depth, hash := l.hash, full := r.full || l.full }] a (hi D l)
      (fun x => Tri.max (stOf D (l :: lit) x) (stOf D (r :: rit) x)) := by
    refine Seg.padLeft ((Seg.single D l.depth l.hash (r.full || l.full) hwA.1).mono_g ?_) haA (Nat.le_of_lt hlh) ?_
    · intro x hx1 hx2
      have h1 : lo D l ≤ x ∧ x < hi D l := ⟨hx1, hx2⟩
      have h2 : lo D r ≤ x ∧ x < hi D r := by rw [← e3, ← e4]; exact h1
      rw [stOf_cons, stOf_cons]
      simp only [h1, h2, and_self, if_true, tri_max_flags]
    · intro x _ hx2
      rw [(st_facts hwA x).1 hx2, (st_facts hwB x).1 (by rw [← e4]; exact hx2)]; rfl
  exact Seg.orStep (Nat.le_trans haA (Nat.le_of_lt hlh)) hN s1 (fun x hx => stOf_tail_of_ge hx)
    (fun x hx => stOf_tail_of_ge (by rw [← e3]; exact hx)) ih

/-- the coarse-cell branch inside the merge: `low` is the current cell of one operand (`low :: lowRest`), the other operand
    is `HB = c0 :: … = sk ++ rest` with `sk` inside `low` and `rest` after it -/
theorem Seg.pushCoarse {D a N : Nat} (low : Cell) (lowRest HB sk rest pushed out' : List Cell)
    (hwA : WF D (low :: lowRest)) (hN : hi D low ≤ N) (haA : a ≤ lo D low)
    (hHB : HB = sk ++ rest) (hlo : ∀ c ∈ HB, lo D low ≤ lo D c) (hsk : ∀ c ∈ sk, hi D c ≤ hi D low)
    (hp : Seg D pushed (lo D low) (hi D low) (fun x => Tri.max (Tri.ofFlag low.full) (stOf D HB x)))
    (ih : Seg D out' (hi D low) N (fun x => Tri.max (stOf D lowRest x) (stOf D rest x))) :
    Seg D (pushed ++ out') a N (fun x => Tri.max (stOf D (low :: lowRest) x) (stOf D HB x)) := by
  have hlh := lo_lt_hi D low
  have s1 : Seg D pushed a (hi D low) (fun x => Tri.max (stOf D (low :: lowRest) x) (stOf D HB x)) := by
    refine Seg.padLeft (hp.mono_g ?_) haA (Nat.le_of_lt hlh) ?_
    · intro x hx1 hx2
      have h1 : lo D low ≤ x ∧ x < hi D low := ⟨hx1, hx2⟩
      rw [stOf_cons]; simp [h1]
    · intro x _ hx2
      have hb : stOf D HB x = .abs := stOf_absent_of_lt (fun c hc => Nat.lt_of_lt_of_le hx2 (hlo c hc))
      rw [(st_facts hwA x).1 hx2, hb]; rfl
  refine Seg.orStep (Nat.le_trans haA (Nat.le_of_lt hlh)) hN s1 (fun x hx => stOf_tail_of_ge hx) ?_ ih
  intro x hx
  rw [hHB]
  exact stOf_append_of_ge (fun c hc => Nat.le_trans (hsk c hc) hx)

theorem WF.all_ge {D : Nat} {c : Cell} {l : List Cell} {m : Nat} (hw : WF D (c :: l)) (h : m ≤ lo D c) :
    ∀ c' ∈ c :: l, m ≤ lo D c' := by
  intro c' hc'
  rcases List.mem_cons.1 hc' with rfl | hc'
  · exact h
  · have := hw.lo_lt c' hc'; omega

/-! ## the merge loop -/

/-- **the merge loop of `or`**: with enough fuel it never returns `none` (no panic), and its output is a well-formed list
    within `[a, 12·4^D)` denoting the pointwise maximum of what is left of the two operands -/
theorem orLoop_spec (D : Nat) (hD : D ≤ 29) : ∀ (fuel : Nat) (left : Option Cell) (lit : List Cell) (right : Option Cell)
    (rit : List Cell) (a : Nat),
    (rem left lit).length + (rem right rit).length < fuel →
    WF D (rem left lit) → WF D (rem right rit) → (∀ c ∈ rem left lit, InR c) → (∀ c ∈ rem right rit, InR c) →
    (∀ c ∈ rem left lit, a ≤ lo D c) → (∀ c ∈ rem right rit, a ≤ lo D c) → a ≤ 12 * 4 ^ D →
    ∃ out, orLoop fuel left lit right rit = some out ∧
      Seg D out a (12 * 4 ^ D) (fun x => Tri.max (stOf D (rem left lit) x) (stOf D (rem right rit) x)) := by
  intro fuel
  induction fuel with
  | zero => intro left lit right rit a hf; omega
  | succ fuel ih =>
    intro left lit right rit a hf hwA hwB hrA hrB haA haB haN
    -- the induction hypothesis with the remaining lists named
    have IH : ∀ (left' : Option Cell) (lit' : List Cell) (right' : Option Cell) (rit' LA LB : List Cell) (a' : Nat),
        rem left' lit' = LA → rem right' rit' = LB → LA.length + LB.length < fuel → WF D LA → WF D LB →
        (∀ c ∈ LA, InR c) → (∀ c ∈ LB, InR c) → (∀ c ∈ LA, a' ≤ lo D c) → (∀ c ∈ LB, a' ≤ lo D c) → a' ≤ 12 * 4 ^ D →
        ∃ out, orLoop fuel left' lit' right' rit' = some out ∧
          Seg D out a' (12 * 4 ^ D) (fun x => Tri.max (stOf D LA x) (stOf D LB x)) := by
      intro left' lit' right' rit' LA LB a' e1 e2
      subst e1; subst e2
      exact ih left' lit' right' rit' a'
    cases left with
    | none =>
      cases right with
      | none =>
        refine ⟨[], by simp only [orLoop], Seg.empty_abs D _ _ _ (fun x _ _ => rfl)⟩
      | some r =>
        simp only [rem_some, rem_none] at hf hwB hrB haB ⊢
        have hNr := hi_le_of_inR hwB.1 (hrB r (by simp))
        obtain ⟨out', e', s'⟩ := IH none [] rit.head? rit.tail [] rit (hi D r) rfl (rem_head_tail _)
          (by simp only [List.length_cons, List.length_nil] at hf ⊢; omega) trivial hwB.tail (by simp)
          (fun c hc => hrB c (by simp [hc])) (by simp) hwB.2.1 hNr
        refine ⟨r :: out', by simp only [orLoop, e', Option.map_some], ?_⟩
        exact Seg.pushRight r rit [] out' hwB hNr (haB r (by simp)) (by simp) s'
    | some l =>
      simp only [rem_some] at hf hwA hrA haA ⊢
      have hNl := hi_le_of_inR hwA.1 (hrA l (by simp))
      have hrlit : ∀ c ∈ lit, InR c := fun c hc => hrA c (by simp [hc])
      have hal : a ≤ lo D l := haA l (by simp)
      cases right with
      | none =>
        simp only [rem_none] at hf ⊢
        obtain ⟨out', e', s'⟩ := IH lit.head? lit.tail none [] lit [] (hi D l) (rem_head_tail _) rfl
          (by simp only [List.length_cons, List.length_nil] at hf ⊢; omega) hwA.tail trivial hrlit (by simp)
          hwA.2.1 (by simp) hNl
        refine ⟨l :: out', by simp only [orLoop, e', Option.map_some], ?_⟩
        exact Seg.pushLeft l lit [] out' hwA hNl hal (by simp) s'
      | some r =>
        simp only [rem_some] at hf hwB hrB haB ⊢
        have hNr := hi_le_of_inR hwB.1 (hrB r (by simp))
        have hrrit : ∀ c ∈ rit, InR c := fun c hc => hrB c (by simp [hc])
        have har : a ≤ lo D r := haB r (by simp)
        have hlen := hf
        simp only [List.length_cons] at hlen
        -- "l lies before r": push l, advance left
        have pushL : hi D l ≤ lo D r → ∃ out', orLoop fuel lit.head? lit.tail (some r) rit = some out' ∧
            Seg D (l :: out') a (12 * 4 ^ D) (fun x => Tri.max (stOf D (l :: lit) x) (stOf D (r :: rit) x)) := by
          intro hb
          obtain ⟨out', e', s'⟩ := IH lit.head? lit.tail (some r) rit lit (r :: rit) (hi D l) (rem_head_tail _) rfl
            (by simp only [List.length_cons]; omega) hwA.tail hwB hrlit hrB hwA.2.1 (hwB.all_ge hb) hNl
          exact ⟨out', e', Seg.pushLeft l lit (r :: rit) out' hwA hNl hal (hwB.all_ge hb) s'⟩
        have pushR : hi D r ≤ lo D l → ∃ out', orLoop fuel (some l) lit rit.head? rit.tail = some out' ∧
            Seg D (r :: out') a (12 * 4 ^ D) (fun x => Tri.max (stOf D (l :: lit) x) (stOf D (r :: rit) x)) := by
          intro hb
          obtain ⟨out', e', s'⟩ := IH (some l) lit rit.head? rit.tail (l :: lit) rit (hi D r) rfl (rem_head_tail _)
            (by simp only [List.length_cons]; omega) hwA hwB.tail hrA hrrit (hwA.all_ge hb) hwB.2.1 hNr
          exact ⟨out', e', Seg.pushRight r rit (l :: lit) out' hwB hNr har (hwA.all_ge hb) s'⟩
        rcases Nat.lt_trichotomy l.depth r.depth with hd | hd | hd
        · -- `l` is the low-resolution cell
          have hdl : l.depth ≤ r.depth := Nat.le_of_lt hd
          rcases Nat.lt_trichotomy l.hash (r.hash >>> ((r.depth - l.depth) <<< 1)) with hh | hh | hh
          · obtain ⟨out', e', s'⟩ := pushL ((cmp_lt_iff (D := D) hdl hwB.1).1 hh)
            refine ⟨l :: out', ?_, s'⟩
            rw [orLoop]; simp only [hd, hh, if_true, e', Option.map_some]
          · rw [orLoop_coarse_left fuel l r lit rit hd hh]
            have hin : Inside D l r := ⟨hdl, (cmp_eq_iff (D := D) hdl hwB.1).1 hh⟩
            obtain ⟨pushed, cell, it', q0, ⟨sk, e, k⟩, q2, q3⟩ := orCoarse_spec D hD l r rit hwA.1 hin hwB hrB
            rw [q0]
            simp only
            have hwt : WF D (sk ++ rem cell it') := e ▸ hwB.tail
            have hl2 : rit.length = sk.length + (rem cell it').length := by rw [e, List.length_append]
            obtain ⟨out', e', s'⟩ := IH lit.head? lit.tail cell it' lit (rem cell it') (hi D l) (rem_head_tail _) rfl
              (by omega) hwA.tail (WF_append_iff.1 hwt).2.1 hrlit
              (fun c hc => hrrit c (by rw [e]; simp [hc])) hwA.2.1 q2 hNl
            rw [e']
            refine ⟨pushed ++ out', rfl, ?_⟩
            refine Seg.pushCoarse l lit (r :: rit) (r :: sk) (rem cell it') pushed out' hwA hNl hal
              (by rw [e]; rfl) (hwB.all_ge hin.2.1) ?_ q3 s'
            intro c hc
            rcases List.mem_cons.1 hc with rfl | hc
            · exact hin.2.2
            · exact k c hc
          · obtain ⟨out', e', s'⟩ := pushR ((cmp_gt_iff (D := D) hdl hwB.1).1 hh)
            refine ⟨r :: out', ?_, s'⟩
            have h1 : ¬ (l.hash < r.hash >>> ((r.depth - l.depth) <<< 1)) := by omega
            rw [orLoop]; simp only [hd, h1, hh, gt_iff_lt, if_true, if_false, e', Option.map_some]
        · -- same depth
          have hc := cmp_same (D := D) hd hwB.1
          have h0 : ¬ (l.depth < r.depth) := by omega
          have h0' : ¬ (l.depth > r.depth) := by omega
          rcases Nat.lt_trichotomy l.hash r.hash with hh | hh | hh
          · obtain ⟨out', e', s'⟩ := pushL (hc.1.1 hh)
            refine ⟨l :: out', ?_, s'⟩
            rw [orLoop]; simp only [h0, h0', hh, if_true, if_false, e', Option.map_some]
          · have h1 : ¬ (l.hash < r.hash) := by omega
            have h2 : ¬ (l.hash > r.hash) := by omega
            obtain ⟨out', e', s'⟩ := IH lit.head? lit.tail rit.head? rit.tail lit rit (hi D l) (rem_head_tail _)
              (rem_head_tail _) (by omega) hwA.tail hwB.tail hrlit hrrit hwA.2.1
              (by
                have e3 : hi D l = hi D r := by unfold hi; rw [hd, hh]
                rw [e3]; exact hwB.2.1) hNl
            refine ⟨_ :: out', ?_, Seg.pushBoth l r lit rit out' hwA hwB hNl hal hd hh s'⟩
            rw [orLoop]; simp only [h0, h0', h1, h2, if_false, e', Option.map_some]
          · obtain ⟨out', e', s'⟩ := pushR (hc.2.1.1 hh)
            refine ⟨r :: out', ?_, s'⟩
            have h1 : ¬ (l.hash < r.hash) := by omega
            rw [orLoop]; simp only [h0, h0', h1, hh, gt_iff_lt, if_true, if_false, e', Option.map_some]
        · -- `r` is the low-resolution cell
          have hdl : r.depth ≤ l.depth := Nat.le_of_lt hd
          have h0 : ¬ (l.depth < r.depth) := by omega
          rcases Nat.lt_trichotomy (l.hash >>> ((l.depth - r.depth) <<< 1)) r.hash with hh | hh | hh
          · obtain ⟨out', e', s'⟩ := pushL ((cmp_gt_iff (D := D) hdl hwA.1).1 hh)
            refine ⟨l :: out', ?_, s'⟩
            rw [orLoop]; simp only [h0, hd, gt_iff_lt, hh, if_true, if_false, e', Option.map_some]
          · rw [orLoop_coarse_right fuel l r lit rit hd hh.symm]
            have hin : Inside D r l := ⟨hdl, (cmp_eq_iff (D := D) hdl hwA.1).1 hh.symm⟩
            obtain ⟨pushed, cell, it', q0, ⟨sk, e, k⟩, q2, q3⟩ := orCoarse_spec D hD r l lit hwB.1 hin hwA hrA
            rw [q0]
            simp only
            have hwt : WF D (sk ++ rem cell it') := e ▸ hwA.tail
            have hl2 : lit.length = sk.length + (rem cell it').length := by rw [e, List.length_append]
            obtain ⟨out', e', s'⟩ := IH cell it' rit.head? rit.tail (rem cell it') rit (hi D r) rfl (rem_head_tail _)
              (by omega) (WF_append_iff.1 hwt).2.1 hwB.tail
              (fun c hc => hrlit c (by rw [e]; simp [hc])) hrrit q2 hwB.2.1 hNr
            rw [e']
            refine ⟨pushed ++ out', rfl, ?_⟩
            have := Seg.pushCoarse r rit (l :: lit) (l :: sk) (rem cell it') pushed out' hwB hNr har
              (by rw [e]; rfl) (hwA.all_ge hin.2.1) (by
                intro c hc
                rcases List.mem_cons.1 hc with rfl | hc
                · exact hin.2.2
                · exact k c hc) q3 (s'.mono_g (fun x _ _ => tri_max_comm _ _))
            exact this.mono_g (fun x _ _ => tri_max_comm _ _)
          · obtain ⟨out', e', s'⟩ := pushR ((cmp_lt_iff (D := D) hdl hwA.1).1 hh)
            refine ⟨r :: out', ?_, s'⟩
            have h1 : ¬ (l.hash >>> ((l.depth - r.depth) <<< 1) < r.hash) := by omega
            rw [orLoop]; simp only [h0, hd, gt_iff_lt, h1, hh, if_true, if_false, e', Option.map_some]

end Hpx.Bmoc
