/-
`or`: three-valued semantics and well-formedness (C07, C08, C09).  Layer 2: the 9-way merge loop, the unpacked result,
`pack` on top, the public operator, and the corollaries (plain MOCs, operands carrying one and the same flag).
-/
import HpxVerif.Lemmas.BmocOr
import HpxVerif.Lemmas.BmocPack

namespace Hpx.Bmoc

/-! ## generic steps of the merge -/

theorem Seg.padLeft {D : Nat} {l : List Cell} {a a' b : Nat} {g : Nat → Tri} (s : Seg D l a' b g) (ha : a ≤ a')
    (hab : a' ≤ b) (h0 : ∀ x, a ≤ x → x < a' → g x = .abs) : Seg D l a b g := by
  have := Seg.append ha hab (Seg.empty_abs D a a' g h0) s
  simpa using this

theorem hi_le_of_inR {D : Nat} {c : Cell} (hd : c.depth ≤ D) (hr : InR c) : hi D c ≤ 12 * 4 ^ D := by
  unfold hi
  unfold InR at hr
  have e : 4 ^ D = 4 ^ c.depth * 4 ^ (D - c.depth) := by rw [← Nat.pow_add]; congr 1; omega
  rw [e, ← Nat.mul_assoc]
  exact Nat.mul_le_mul_right _ hr

/-- one step of the merge: `out1` covers `[a, m)`, the rest of the operands (`LA'`, `LB'`) agree with the operands from `m` on -/
theorem Seg.orStep {D a m N : Nat} {out1 out2 LA LB LA' LB' : List Cell} (ham : a ≤ m) (hmN : m ≤ N)
    (s1 : Seg D out1 a m (fun x => Tri.max (stOf D LA x) (stOf D LB x)))
    (hA : ∀ x, m ≤ x → stOf D LA x = stOf D LA' x) (hB : ∀ x, m ≤ x → stOf D LB x = stOf D LB' x)
    (s2 : Seg D out2 m N (fun x => Tri.max (stOf D LA' x) (stOf D LB' x))) :
    Seg D (out1 ++ out2) a N (fun x => Tri.max (stOf D LA x) (stOf D LB x)) :=
  Seg.append ham hmN s1 (s2.mono_g (fun x hx _ => by rw [hA x hx, hB x hx]))

theorem stOf_tail_of_ge {D : Nat} {c : Cell} {l : List Cell} {x : Nat} (hx : hi D c ≤ x) :
    stOf D (c :: l) x = stOf D l x := by
  rw [stOf_cons]
  have : ¬ (lo D c ≤ x ∧ x < hi D c) := by omega
  simp [this]

/-- push the current left cell `l` (lying entirely before everything left in the right operand), advance left -/
theorem Seg.pushLeft {D a N : Nat} (l : Cell) (lit LB out' : List Cell) (hwA : WF D (l :: lit)) (hN : hi D l ≤ N)
    (haA : a ≤ lo D l) (hB : ∀ c ∈ LB, hi D l ≤ lo D c)
    (ih : Seg D out' (hi D l) N (fun x => Tri.max (stOf D lit x) (stOf D LB x))) :
    Seg D (l :: out') a N (fun x => Tri.max (stOf D (l :: lit) x) (stOf D LB x)) := by
  have hlh := lo_lt_hi D l
  have s1 : Seg D [l] a (hi D l) (fun x => Tri.max (stOf D (l :: lit) x) (stOf D LB x)) := by
    refine Seg.padLeft ((Seg.single D l.depth l.hash l.full hwA.1).mono_g ?_) haA (Nat.le_of_lt hlh) ?_
    · intro x hx1 hx2
      have h1 : lo D l ≤ x ∧ x < hi D l := ⟨hx1, hx2⟩
      have hb : stOf D LB x = .abs := stOf_absent_of_lt (fun c hc => Nat.lt_of_lt_of_le hx2 (hB c hc))
      rw [stOf_cons, hb]; simp [h1]
    · intro x _ hx2
      have hb : stOf D LB x = .abs :=
        stOf_absent_of_lt (fun c hc => Nat.lt_of_lt_of_le (Nat.lt_trans hx2 hlh) (hB c hc))
      rw [(st_facts hwA x).1 hx2, hb]; rfl
  exact Seg.orStep (Nat.le_trans haA (Nat.le_of_lt hlh)) hN s1 (fun x hx => stOf_tail_of_ge hx) (fun _ _ => rfl) ih

/-- push the current right cell, advance right -/
theorem Seg.pushRight {D a N : Nat} (r : Cell) (rit LA out' : List Cell) (hwB : WF D (r :: rit)) (hN : hi D r ≤ N)
    (haB : a ≤ lo D r) (hA : ∀ c ∈ LA, hi D r ≤ lo D c)
    (ih : Seg D out' (hi D r) N (fun x => Tri.max (stOf D LA x) (stOf D rit x))) :
    Seg D (r :: out') a N (fun x => Tri.max (stOf D LA x) (stOf D (r :: rit) x)) := by
  have := Seg.pushLeft r rit LA out' hwB hN haB hA (ih.mono_g (fun x _ _ => tri_max_comm _ _))
  exact this.mono_g (fun x _ _ => tri_max_comm _ _)

/-- same cell on both sides: push it with the `or` of the flags, advance both -/
theorem Seg.pushBoth {D a N : Nat} (l r : Cell) (lit rit out' : List Cell) (hwA : WF D (l :: lit)) (hwB : WF D (r :: rit))
    (hN : hi D l ≤ N) (haA : a ≤ lo D l) (hde : l.depth = r.depth) (he : l.hash = r.hash)
    (ih : Seg D out' (hi D l) N (fun x => Tri.max (stOf D lit x) (stOf D rit x))) :
    Seg D ({ depth := l.depth, hash := l.hash, full := r.full || l.full } :: out') a N
      (fun x => Tri.max (stOf D (l :: lit) x) (stOf D (r :: rit) x)) := by
  have hlh := lo_lt_hi D l
  have e3 : hi D l = hi D r := by unfold hi; rw [hde, he]
  have e4 : lo D l = lo D r := by unfold lo; rw [hde, he]
  have s1 : Seg D [{ depth := l.depth, hash := l.hash, full := r.full || l.full }] a (hi D l)
      (fun x => Tri.max (stOf D (l :: lit) x) (stOf D (r :: rit) x)) := by
    refine Seg.padLeft ((Seg.single D l.depth l.hash (r.full || l.full) hwA.1).mono_g ?_) haA (Nat.le_of_lt hlh) ?_
    · intro x hx1 hx2
      have h1 : lo D l ≤ x ∧ x < hi D l := ⟨hx1, hx2⟩
      have h2 : lo D r ≤ x ∧ x < hi D r := by rw [← e3, ← e4]; exact h1
      rw [stOf_cons, stOf_cons]
      simp only [h1, h2, and_self, if_true, tri_max_flags]
    · intro x _ hx2
      rw [(st_facts hwA x).1 hx2, (st_facts hwB x).1 (by omega)]; rfl
  exact Seg.orStep (Nat.le_trans haA (Nat.le_of_lt hlh)) hN s1 (fun x hx => stOf_tail_of_ge hx)
    (fun x hx => stOf_tail_of_ge (by omega)) ih

/-- the coarse-cell branch inside the merge: `low` is the current cell of one operand (`low :: lowRest`), the other operand
    is `HB = c0 :: … = sk ++ rest` with `sk` inside `low` and `rest` after it -/
theorem Seg.pushCoarse {D a N : Nat} (low : Cell) (lowRest HB sk rest pushed out' : List Cell)
    (hwA : WF D (low :: lowRest)) (hN : hi D low ≤ N) (haA : a ≤ lo D low)
    (hHB : HB = sk ++ rest) (hlo : ∀ c ∈ HB, lo D low ≤ lo D c) (hsk : ∀ c ∈ sk, hi D c ≤ hi D low)
    (hp : Seg D pushed (lo D low) (hi D low) (fun x => Tri.max (Tri.ofFlag low.full) (stOf D HB x)))
    (ih : Seg D out' (hi D low) N (fun x => Tri.max (stOf D lowRest x) (stOf D rest x))) :
    Seg D (pushed ++ out') a N (fun x => Tri.max (stOf D (low :: lowRest) x) (stOf D HB x)) := by
  have hlh := lo_lt_hi D low
  have s1 : Seg D pushed a (hi D low) (fun x => Tri.max (stOf D (low :: lowRest) x) (stOf D HB x)) := by
    refine Seg.padLeft (hp.mono_g ?_) haA (Nat.le_of_lt hlh) ?_
    · intro x hx1 hx2
      have h1 : lo D low ≤ x ∧ x < hi D low := ⟨hx1, hx2⟩
      rw [stOf_cons]; simp [h1]
    · intro x _ hx2
      have hb : stOf D HB x = .abs := stOf_absent_of_lt (fun c hc => Nat.lt_of_lt_of_le hx2 (hlo c hc))
      rw [(st_facts hwA x).1 hx2, hb]; rfl
  refine Seg.orStep (Nat.le_trans haA (Nat.le_of_lt hlh)) hN s1 (fun x hx => stOf_tail_of_ge hx) ?_ ih
  intro x hx
  rw [hHB]
  exact stOf_append_of_ge (fun c hc => Nat.le_trans (hsk c hc) hx)

end Hpx.Bmoc
