/-
C17 over the reals, part 2: the model of `proj`/`unproj` (`Model/Proj.lean` at `α := ℝ`) against an independent
statement of the Calabretta & Roukema (2007) HEALPix projection (H = 4, K = 3), in every sign quadrant.

This file: symmetry of the model through the sign bits, explicit forms on non-negative arguments, the specification
`projSpec` and `proj_eq_spec`.
-/
import HpxVerif.Lemmas.ProjReal
import Mathlib.Data.Real.Sign
import Mathlib.Tactic.Positivity
namespace Hpx.Proj
open Real

/-- the sign transfer `from_bits(to_bits(v) | sign_bit(s))` over ℝ -/
noncomputable def sgn (s v : ℝ) : ℝ := if s < 0 then -|v| else v

theorem r_orSign (x : ℝ) (b : Bool) : Num.orSign x b = if b = true then -|x| else x := rfl
theorem r_orSign_sgn (s x : ℝ) : Num.orSign x (Num.signBit s) = sgn s x := by
  rw [r_orSign, r_signBit, sgn]; simp

theorem checkLat_iff (lat : ℝ) : checkLat (α := ℝ) lat = true ↔ -(π / 2) ≤ lat ∧ lat ≤ π / 2 := by
  unfold checkLat; rw [r_le, r_le, r_hpi]; simp
theorem checkY_iff (y : ℝ) : checkY (α := ℝ) y = true ↔ -2 ≤ y ∧ y ≤ 2 := by
  unfold checkY; rw [r_le, r_le, r_two]; simp

theorem checkLat_abs (lat : ℝ) : checkLat (α := ℝ) |lat| = checkLat (α := ℝ) lat := by
  rw [Bool.eq_iff_iff, checkLat_iff, checkLat_iff]
  constructor
  · rintro ⟨_, h⟩; exact ⟨by linarith [neg_abs_le lat], le_trans (le_abs_self _) h⟩
  · rintro ⟨h1, h2⟩; exact ⟨by linarith [abs_nonneg lat, pi_pos], abs_le.mpr ⟨h1, h2⟩⟩

theorem checkY_abs (y : ℝ) : checkY (α := ℝ) |y| = checkY (α := ℝ) y := by
  rw [Bool.eq_iff_iff, checkY_iff, checkY_iff]
  constructor
  · rintro ⟨_, h⟩; exact ⟨by linarith [neg_abs_le y], le_trans (le_abs_self _) h⟩
  · rintro ⟨h1, h2⟩; exact ⟨by linarith [abs_nonneg y], abs_le.mpr ⟨h1, h2⟩⟩

theorem signBit_abs (x : ℝ) : Num.signBit |x| = false := by
  rw [r_signBit]; simp

/-- `proj` is odd in both arguments through the sign bits -/
theorem proj_sym (lon lat : ℝ) :
    proj (α := ℝ) lon lat = (proj (α := ℝ) |lon| |lat|).map (fun p => (sgn lon p.1, sgn lat p.2)) := by
  unfold proj
  simp only [checkLat_abs, r_abs, abs_abs, signBit_abs]
  cases checkLat (α := ℝ) lat
  · simp
  · simp only [Bool.not_true, Bool.false_eq_true, if_false, Option.map_some, applyOffsetAndSigns, r_orSign_false,
      r_orSign_sgn]

theorem unproj_sym (x y : ℝ) :
    unproj (α := ℝ) x y = (unproj (α := ℝ) |x| |y|).map (fun p => (sgn x p.1, sgn y p.2)) := by
  unfold unproj
  simp only [checkY_abs, r_abs, abs_abs, signBit_abs]
  cases checkY (α := ℝ) y
  · simp
  · simp only [Bool.not_true, Bool.false_eq_true, if_false, Option.map_some, applyOffsetAndSigns, r_orSign_false,
      r_orSign_sgn, r_pi4]
    congr 2
    unfold sgn
    split
    · rw [abs_mul, abs_of_pos (by positivity : (0:ℝ) < π / 4)]; ring
    · rfl
theorem or_one_eq (n : ℕ) : (n ||| 1) = 2 * (n / 2) + 1 := by
  have h1 : (n ||| 1) / 2 = n / 2 := by rw [Nat.or_div_two]; simp
  have h2 : (n ||| 1) % 2 = 1 := by rw [Nat.or_mod_two_eq_one]; right; rfl
  omega

/-- `pm1_offset_decompose` over ℝ on `[0, 256)`: `k` is the index of the width-2 interval containing `x` -/
theorem pm1Dec (x : ℝ) (k : ℕ) (hk : k < 128) (h1 : (2 * k : ℝ) ≤ x) (h2 : x < 2 * k + 2) :
    pm1OffsetDecompose (α := ℝ) x = ((2 * k + 1) % 8, x - (2 * k + 1)) := by
  have h0 : 0 ≤ x := le_trans (by positivity) h1
  unfold pm1OffsetDecompose
  show ((min ⌊max x 0⌋₊ 255 ||| 1) &&& 7, x - (((min ⌊max x 0⌋₊ 255 ||| 1 : ℕ)) : ℝ)) = _
  rw [max_eq_left h0]
  have hle : (⌊x⌋₊ : ℝ) ≤ x := Nat.floor_le h0
  have hlt : x < (⌊x⌋₊ : ℝ) + 1 := Nat.lt_floor_add_one x
  have ha : 2 * k < ⌊x⌋₊ + 1 := by
    have : ((2 * k : ℕ) : ℝ) < ((⌊x⌋₊ + 1 : ℕ) : ℝ) := by push_cast; linarith
    exact_mod_cast this
  have hb : ⌊x⌋₊ < 2 * k + 2 := by
    have : ((⌊x⌋₊ : ℕ) : ℝ) < ((2 * k + 2 : ℕ) : ℝ) := by push_cast; linarith
    exact_mod_cast this
  generalize ⌊x⌋₊ = n at *
  have hmin : min n 255 = n := min_eq_left (by omega)
  rw [hmin]
  have e1 : n ||| 1 = 2 * k + 1 := by
    have := or_one_eq n
    omega
  rw [e1, show (7 : ℕ) = 2 ^ 3 - 1 by norm_num, Nat.and_two_pow_sub_one_eq_mod]
  norm_num

theorem facet_exists (x : ℝ) (h0 : 0 ≤ x) (n : ℕ) (h8 : x < 2 * n) : ∃ k : ℕ, k < n ∧ (2 * k : ℝ) ≤ x ∧ x < 2 * k + 2 := by
  refine ⟨⌊x / 2⌋₊, ?_, ?_, ?_⟩
  · rw [Nat.floor_lt (by positivity)]; linarith
  · have := Nat.floor_le (show 0 ≤ x / 2 by positivity); linarith
  · have := Nat.lt_floor_add_one (x / 2); linarith

/-- the Collignon factor `√6·cos(lat/2 + π/4)` of `proj_collignon` -/
noncomputable def sig (lat : ℝ) : ℝ := Real.sqrt 6 * Real.cos (1 / 2 * lat + π / 4)

/-- `deal_with_numerical_approx_in_edges` -/
noncomputable def clamp1 (l : ℝ) : ℝ := if 1 < l then 1 else if l < -1 then -1 else l

/-- explicit form of `proj` on non-negative arguments (`k` = index of the quarter `[kπ/2, (k+1)π/2)` containing `lon`) -/
theorem proj_pos (lon lat : ℝ) (k : ℕ) (hk : k < 128) (hlon : 0 ≤ lon) (h1 : (2 * k : ℝ) ≤ lon * (4 / π))
    (h2 : lon * (4 / π) < 2 * k + 2) (hlat0 : 0 ≤ lat) (hlat1 : lat ≤ π / 2) :
    proj (α := ℝ) lon lat = some
      (if lat ≤ Real.arcsin (2 / 3) then (lon * (4 / π) - (2 * k + 1) + ((2 * k + 1) % 8 : ℕ), Real.sin lat * (3 / 2))
       else ((lon * (4 / π) - (2 * k + 1)) * sig lat + ((2 * k + 1) % 8 : ℕ), 2 - sig lat)) := by
  have hchk : checkLat (α := ℝ) lat = true := by rw [checkLat_iff]; constructor <;> linarith [pi_pos]
  have hs_lon : Num.signBit lon = false := by rw [r_signBit]; simpa using hlon
  have hs_lat : Num.signBit lat = false := by rw [r_signBit]; simpa using hlat0
  unfold proj
  simp only [hchk, Bool.not_true, Bool.false_eq_true, if_false, r_abs, abs_of_nonneg hlon, abs_of_nonneg hlat0,
    hs_lon, hs_lat, r_fourOverPi, pm1Dec _ k hk h1 h2, isInEquatorialRegion, r_le, r_transitionLat,
    applyOffsetAndSigns, r_orSign_false, r_ofNat]
  by_cases h : lat ≤ Real.arcsin (2 / 3)
  · simp only [h, decide_true, if_true, projCea, r_sin, r_ootz]
  · simp only [h, decide_false, Bool.false_eq_true, if_false, projCollignon, r_sqrt6, r_cos, r_half, r_pi4, r_two, sig]

/-- explicit form of `unproj` on non-negative arguments -/
theorem unproj_pos (x y : ℝ) (k : ℕ) (hk : k < 128) (h1 : (2 * k : ℝ) ≤ x) (h2 : x < 2 * k + 2) (hy0 : 0 ≤ y) (hy2 : y ≤ 2) :
    unproj (α := ℝ) x y = some
      (if y ≤ 1 then ((x - (2 * k + 1) + ((2 * k + 1) % 8 : ℕ)) * (π / 4), Real.arcsin (y * (2 / 3)))
       else (((if (Num.epsPole : ℝ) < 2 - y then clamp1 ((x - (2 * k + 1)) / (2 - y)) else x - (2 * k + 1))
                + ((2 * k + 1) % 8 : ℕ)) * (π / 4),
             2 * Real.arccos ((2 - y) * (1 / Real.sqrt 6)) - π / 2)) := by
  have hx : 0 ≤ x := le_trans (by positivity) h1
  have hchk : checkY (α := ℝ) y = true := by rw [checkY_iff]; constructor <;> linarith
  have hs_x : Num.signBit x = false := by rw [r_signBit]; simpa using hx
  have hs_y : Num.signBit y = false := by rw [r_signBit]; simpa using hy0
  unfold unproj
  simp only [hchk, Bool.not_true, Bool.false_eq_true, if_false, r_abs, abs_of_nonneg hx, abs_of_nonneg hy0,
    hs_x, hs_y, pm1Dec _ k hk h1 h2, r_le, r_one,
    applyOffsetAndSigns, r_orSign_false, r_ofNat, r_pi4]
  by_cases h : y ≤ 1
  · simp only [h, decide_true, if_true, deprojCea, r_asin, r_tz]
  · simp only [h, decide_false, Bool.false_eq_true, if_false, deprojCollignon, r_two, r_one, r_oos6, r_acos, r_hpi,
      Num.gt, r_lt, clamp1, decide_eq_true_eq]

/-! ## The Collignon factor -/

theorem sig_nonneg (lat : ℝ) (h1 : -(3 * π / 2) ≤ lat) (h2 : lat ≤ π / 2) : 0 ≤ sig lat :=
  mul_nonneg (Real.sqrt_nonneg 6)
    (Real.cos_nonneg_of_neg_pi_div_two_le_of_le (by linarith) (by linarith))

theorem sig_sq (lat : ℝ) : sig lat ^ 2 = 3 * (1 - Real.sin lat) := by
  unfold sig
  rw [mul_pow, Real.sq_sqrt (by norm_num : (0 : ℝ) ≤ 6), Real.cos_sq,
    show 2 * (1 / 2 * lat + π / 4) = lat + π / 2 by ring, Real.cos_add_pi_div_two]
  ring

/-- **the half-angle identity behind `proj_collignon`**: `√6·cos(lat/2 + π/4) = √(3(1 − sin lat))` -/
theorem sqrt6_cos_eq (lat : ℝ) (h1 : -(3 * π / 2) ≤ lat) (h2 : lat ≤ π / 2) :
    Real.sqrt 6 * Real.cos (lat / 2 + π / 4) = Real.sqrt (3 * (1 - Real.sin lat)) := by
  have h := sig_sq lat
  have h0 := sig_nonneg lat h1 h2
  unfold sig at h h0
  rw [show lat / 2 = 1 / 2 * lat by ring, ← h, Real.sqrt_sq h0]

theorem sig_eq_sqrt (lat : ℝ) (h1 : -(3 * π / 2) ≤ lat) (h2 : lat ≤ π / 2) :
    sig lat = Real.sqrt (3 * (1 - Real.sin lat)) := by
  rw [← sqrt6_cos_eq lat h1 h2, sig]; ring_nf

theorem sin_of_sig (lat : ℝ) : Real.sin lat = 1 - sig lat ^ 2 / 3 := by rw [sig_sq]; ring

theorem sin_arcsin_two_thirds : Real.sin (Real.arcsin (2 / 3)) = 2 / 3 :=
  Real.sin_arcsin (by norm_num) (by norm_num)

/-- on `[-π/2, π/2]`: `lat ≤ asin(2/3) ↔ sin lat ≤ 2/3` -/
theorem le_transition_iff (lat : ℝ) (h1 : -(π / 2) ≤ lat) (h2 : lat ≤ π / 2) :
    lat ≤ Real.arcsin (2 / 3) ↔ Real.sin lat ≤ 2 / 3 :=
  Real.le_arcsin_iff_sin_le ⟨h1, h2⟩ ⟨by norm_num, by norm_num⟩

theorem sig_lt_one_iff (lat : ℝ) (h1 : -(π / 2) ≤ lat) (h2 : lat ≤ π / 2) :
    sig lat < 1 ↔ ¬ lat ≤ Real.arcsin (2 / 3) := by
  rw [le_transition_iff lat h1 h2, sin_of_sig]
  have h0 := sig_nonneg lat (by linarith [pi_pos]) h2
  constructor
  · intro h; nlinarith
  · intro h; by_contra h'; rw [not_lt] at h'; apply h; nlinarith

theorem sig_le_sqrt3 (lat : ℝ) (h0 : 0 ≤ lat) (h2 : lat ≤ π / 2) : sig lat ^ 2 ≤ 3 := by
  rw [sig_sq]; have := Real.sin_nonneg_of_nonneg_of_le_pi h0 (by linarith); linarith

theorem sig_half_pi : sig (π / 2) = 0 := by
  unfold sig; rw [show 1 / 2 * (π / 2) + π / 4 = π / 2 by ring, Real.cos_pi_div_two, mul_zero]

/-! ## The specification -/

/-- **Calabretta & Roukema (2007), HEALPix projection with H = 4, K = 3**, scaled by `4/π` (so that `x ∈ [0, 8)` for
    `lon ∈ [0, 2π)` and `y ∈ [-2, 2]`).  Written from the paper (eq. 1–2 equatorial zone, eq. 4–6 polar caps with
    `σ = √(K(1 − |sin θ|))`, `φ_c` the centre of the facet), independently of the code. -/
noncomputable def projSpec (lon lat : ℝ) : ℝ × ℝ :=
  let z := Real.sin lat
  if |z| ≤ 2 / 3 then (lon * 4 / π, 3 / 2 * z)
  else
    let σ := Real.sqrt (3 * (1 - |z|))
    let xc : ℝ := 2 * (⌊lon * 2 / π⌋ : ℝ) + 1
    (xc + (lon * 4 / π - xc) * σ, Real.sign lat * (2 - σ))

theorem abs_sin_eq (lat : ℝ) (h1 : -(π / 2) ≤ lat) (h2 : lat ≤ π / 2) : |Real.sin lat| = Real.sin |lat| :=
  Real.abs_sin_eq_sin_abs_of_abs_le_pi (abs_le.mpr ⟨by linarith [pi_pos], by linarith [pi_pos]⟩)

/-- the model on `0 ≤ lon < 2π`, any latitude sign -/
theorem proj_eq_spec_pos (lon lat : ℝ) (hlon0 : 0 ≤ lon) (hlon1 : lon < 2 * π) (hlat0 : -(π / 2) ≤ lat)
    (hlat1 : lat ≤ π / 2) : proj (α := ℝ) lon lat = some (projSpec lon lat) := by
  have hpi := pi_pos
  have hx0 : 0 ≤ lon * (4 / π) := mul_nonneg hlon0 (by positivity)
  have hx8 : lon * (4 / π) < 2 * (4 : ℕ) := by
    rw [← sub_pos]
    have : ((2 * (4 : ℕ) : ℝ)) - lon * (4 / π) = (2 * π - lon) * (4 / π) := by field_simp; ring
    rw [this]; exact mul_pos (by linarith) (by positivity)
  obtain ⟨k, hk, h1, h2⟩ := facet_exists _ hx0 4 hx8
  have habs0 : 0 ≤ |lat| := abs_nonneg lat
  have habs1 : |lat| ≤ π / 2 := abs_le.mpr ⟨hlat0, hlat1⟩
  rw [proj_sym, abs_of_nonneg hlon0, proj_pos lon |lat| k (by omega) hlon0 h1 h2 habs0 habs1, Option.map_some]
  have hmod : (2 * k + 1) % 8 = 2 * k + 1 := Nat.mod_eq_of_lt (by omega)
  have hsl : sgn lon = fun v => v := by funext v; unfold sgn; rw [if_neg (not_lt.mpr hlon0)]
  have hfl : ⌊lon * 2 / π⌋ = (k : ℤ) := by
    rw [Int.floor_eq_iff]
    have e : lon * 2 / π = lon * (4 / π) / 2 := by field_simp; ring
    rw [e]; push_cast; constructor <;> linarith
  unfold projSpec
  simp only [abs_sin_eq lat hlat0 hlat1, hfl, hsl, hmod]
  have hiff := le_transition_iff |lat| (by linarith) habs1
  by_cases h : |lat| ≤ Real.arcsin (2 / 3)
  · simp only [h, hiff.mp h, if_true]
    congr 1; ext
    · show _ = lon * 4 / π; push_cast; ring
    · show sgn lat (Real.sin |lat| * (3 / 2)) = 3 / 2 * Real.sin lat
      unfold sgn
      split
      · next hn =>
        have hs0 : Real.sin lat ≤ 0 := Real.sin_nonpos_of_nonpos_of_neg_pi_le (le_of_lt hn) (by linarith)
        rw [abs_of_neg hn, Real.sin_neg, abs_of_nonneg (by nlinarith)]
        ring
      · next hn => rw [abs_of_nonneg (not_lt.mp hn)]; ring
  · simp only [h, mt hiff.mpr h, if_false]
    have hs : sig |lat| = Real.sqrt (3 * (1 - Real.sin |lat|)) := sig_eq_sqrt _ (by linarith) habs1
    have hlt : sig |lat| < 1 := (sig_lt_one_iff _ (by linarith) habs1).mpr h
    rw [← hs]
    congr 1; ext
    · show _ = _; push_cast; ring
    · show sgn lat (2 - sig |lat|) = Real.sign lat * (2 - sig |lat|)
      unfold sgn
      split
      · next hn => rw [Real.sign_of_neg hn, abs_of_pos (by linarith)]; ring
      · next hn =>
        have hne : lat ≠ 0 := by
          rintro rfl
          apply h; rw [abs_zero]; exact Real.arcsin_nonneg.mpr (by norm_num)
        rw [Real.sign_of_pos (lt_of_le_of_ne (not_lt.mp hn) (Ne.symm hne))]; ring

theorem sgn_of_nonneg {s : ℝ} (h : 0 ≤ s) (v : ℝ) : sgn s v = v := by unfold sgn; rw [if_neg (not_lt.mpr h)]
theorem sgn_of_neg {s : ℝ} (h : s < 0) (v : ℝ) : sgn s v = -|v| := by unfold sgn; rw [if_pos h]

/-- **`proj` is the Calabretta–Roukema projection** (every sign quadrant): the projection of `(|lon|, lat)`, with the sign
    bit of `lon` copied onto `x` -/
theorem proj_eq_spec_sgn (lon lat : ℝ) (hlon : |lon| < 2 * π) (hlat0 : -(π / 2) ≤ lat) (hlat1 : lat ≤ π / 2) :
    proj (α := ℝ) lon lat = some (sgn lon (projSpec |lon| lat).1, (projSpec |lon| lat).2) := by
  have h1 := proj_eq_spec_pos |lon| lat (abs_nonneg _) hlon hlat0 hlat1
  rw [proj_sym, abs_abs] at h1
  rw [proj_sym]
  cases hp : proj (α := ℝ) |lon| |lat| with
  | none => rw [hp] at h1; simp at h1
  | some p =>
    rw [hp, Option.map_some, Option.some.injEq, sgn_of_nonneg (abs_nonneg lon)] at h1
    rw [Option.map_some, ← h1]

theorem projSpec_x_nonneg (lon lat : ℝ) (hlon0 : 0 ≤ lon) : 0 ≤ (projSpec lon lat).1 := by
  have hpi := pi_pos
  unfold projSpec
  simp only
  split
  · show 0 ≤ lon * 4 / π; positivity
  · next h =>
    rw [not_le] at h
    show 0 ≤ 2 * (⌊lon * 2 / π⌋ : ℝ) + 1 + (lon * 4 / π - (2 * (⌊lon * 2 / π⌋ : ℝ) + 1)) * Real.sqrt (3 * (1 - |Real.sin lat|))
    have hs0 := Real.sqrt_nonneg (3 * (1 - |Real.sin lat|))
    have hs1 : Real.sqrt (3 * (1 - |Real.sin lat|)) ≤ 1 := by
      rw [Real.sqrt_le_iff]; constructor <;> linarith
    have hf0 : (0 : ℝ) ≤ (⌊lon * 2 / π⌋ : ℝ) := by
      have : 0 ≤ ⌊lon * 2 / π⌋ := Int.floor_nonneg.mpr (by positivity)
      exact_mod_cast this
    have hf1 : (⌊lon * 2 / π⌋ : ℝ) ≤ lon * 2 / π := Int.floor_le _
    have e : lon * 4 / π = 2 * (lon * 2 / π) := by ring
    nlinarith

/-- `proj_eq_spec`, first half: `0 ≤ lon < 2π` -/
theorem proj_eq_spec (lon lat : ℝ) (hlon0 : 0 ≤ lon) (hlon1 : lon < 2 * π) (hlat0 : -(π / 2) ≤ lat)
    (hlat1 : lat ≤ π / 2) : proj (α := ℝ) lon lat = some (projSpec lon lat) :=
  proj_eq_spec_pos lon lat hlon0 hlon1 hlat0 hlat1

/-- `proj_eq_spec`, second half: for `-2π < lon < 0`, `x` carries the sign of the longitude.
    (`lon = 0` belongs to the first half: over ℝ there is no `-0.0`; at `Float` the input `-0.0` has its sign bit set and
    `x` is negated.) -/
theorem proj_eq_spec_neg (lon lat : ℝ) (hlon0 : -(2 * π) < lon) (hlon1 : lon < 0) (hlat0 : -(π / 2) ≤ lat)
    (hlat1 : lat ≤ π / 2) :
    proj (α := ℝ) lon lat = some (-(projSpec (-lon) lat).1, (projSpec (-lon) lat).2) := by
  rw [proj_eq_spec_sgn lon lat (by rw [abs_of_neg hlon1]; linarith) hlat0 hlat1, abs_of_neg hlon1, sgn_of_neg hlon1,
    abs_of_nonneg (projSpec_x_nonneg _ lat (by linarith))]

example : (0 : ℝ) ≤ 1 ∧ (1 : ℝ) < 2 * π ∧ -(π / 2) ≤ (1 / 2 : ℝ) ∧ (1 / 2 : ℝ) ≤ π / 2 := by
  have := Real.two_le_pi
  refine ⟨by norm_num, by linarith, by linarith, by linarith⟩
example : -(2 * π) < (-1 : ℝ) ∧ (-1 : ℝ) < 0 ∧ -(π / 2) ≤ (-1 : ℝ) ∧ (-1 : ℝ) ≤ π / 2 := by
  have := Real.two_le_pi
  refine ⟨by linarith, by norm_num, by linarith, by linarith⟩

#print axioms proj_eq_spec
#print axioms proj_eq_spec_neg
#print axioms proj_eq_spec_sgn
#print axioms sqrt6_cos_eq
#print axioms proj_sym
#print axioms unproj_sym
end Hpx.Proj
