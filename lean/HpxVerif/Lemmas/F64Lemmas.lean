import HpxVerif.Model.F64

/-! Bit-level lemmas: the exponent trick commutes with truncation (hierarchy of cell numbers, C02). -/

namespace Hpx.F64

theorem expAdd_nonneg (b : Nat) (k : Nat) : expAdd b (k : Int) = (b + k * 2 ^ 52) % 2 ^ 64 := by
  unfold expAdd
  omega

/-- patterns whose value is negative, NaN, zero/subnormal, or a positive number below 8 -/
def Small (b : Nat) : Prop := b < 2 ^ 64 ∧ (sgnF b = 1 ∨ (expF b = 2047 ∧ manF b ≠ 0) ∨ (sgnF b = 0 ∧ expF b ≤ 1025))

theorem shr_zero_of_lt {x s : Nat} (h : x < 2 ^ s) : x >>> s = 0 := by
  rw [Nat.shiftRight_eq_div_pow]; exact Nat.div_eq_of_lt h

/-- fields of `b + k·2^52` when the exponent field does not overflow -/
theorem fields_add {b k : Nat} (hb : b < 2 ^ 64) (hk : expF b + k ≤ 2047) :
    (b + k * 2 ^ 52) % 2 ^ 64 = b + k * 2 ^ 52 ∧ expF (b + k * 2 ^ 52) = expF b + k ∧
    manF (b + k * 2 ^ 52) = manF b ∧ sgnF (b + k * 2 ^ 52) = sgnF b := by
  unfold expF manF sgnF at *
  simp only [Nat.shiftRight_eq_div_pow] at *
  omega

end Hpx.F64

namespace Hpx.F64

theorem sig_shr_zero (m s : Nat) (hm : m < 2 ^ 52) (hs : 53 ≤ s) : (2 ^ 52 + m) >>> s = 0 := by
  apply shr_zero_of_lt
  calc 2 ^ 52 + m < 2 ^ 53 := by omega
    _ ≤ 2 ^ s := Nat.pow_le_pow_right (by decide) hs

theorem sig_shr_lt (m s : Nat) (hm : m < 2 ^ 52) (hs : 22 ≤ s) : (2 ^ 52 + m) >>> s < 2 ^ 31 := by
  rw [Nat.shiftRight_eq_div_pow]
  have h1 : 2 ^ 22 ≤ 2 ^ s := Nat.pow_le_pow_right (by decide) hs
  have h2 : (2 ^ 52 + m) / 2 ^ s ≤ (2 ^ 52 + m) / 2 ^ 22 := Nat.div_le_div_left h1 (by decide)
  have h3 : (2 ^ 52 + m) / 2 ^ 22 < 2 ^ 31 := by omega
  omega

theorem manF_lt (b : Nat) : manF b < 2 ^ 52 := by unfold manF; omega

/-- `truncU 32` of a pattern given by its fields, when it is not a huge positive number -/
theorem truncU_of_fields {q : Nat} (hs : sgnF q = 0) (he : expF q ≤ 1053) :
    truncU 32 q = if expF q = 0 then 0 else (2 ^ 52 + manF q) >>> (1075 - expF q) := by
  unfold truncU floorPos
  have h1 : ¬ (sgnF q = 1) := by omega
  have h2 : ¬ (expF q = 2047) := by omega
  have h3 : ¬ (expF q ≥ 1075) := by omega
  simp only [h1, h2, h3, if_false]
  by_cases h0 : expF q = 0
  · simp [h0]
  · simp only [h0, if_false]
    have := sig_shr_lt (manF q) (1075 - expF q) (manF_lt q) (by omega)
    omega

theorem truncU_neg {q : Nat} (hs : sgnF q = 1) : truncU 32 q = 0 := by
  unfold truncU; simp [hs]

/-- value of `truncU 32 (expAdd b k)` for a small pattern: 0 unless the pattern is a positive normal number, in
    which case it is the significand shifted right -/
theorem truncU_expAdd_small {b : Nat} (hb : Small b) (k : Nat) (hk : k ≤ 28) :
    truncU 32 (expAdd b k) =
      if sgnF b = 0 ∧ 1 ≤ expF b ∧ expF b ≤ 1025 then (2 ^ 52 + manF b) >>> (1075 - expF b - k) else 0 := by
  obtain ⟨hlt, hcase⟩ := hb
  have hE : expF b < 2048 := by unfold expF; omega
  rw [expAdd_nonneg]
  rcases hcase with hs | ⟨he, hm⟩ | ⟨hs, he⟩
  · -- negative
    have hrhs : ¬ (sgnF b = 0 ∧ 1 ≤ expF b ∧ expF b ≤ 1025) := by omega
    simp only [hrhs, if_false]
    by_cases hov : expF b + k ≤ 2047
    · obtain ⟨e1, _, _, e4⟩ := fields_add hlt hov
      rw [e1]; exact truncU_neg (by omega)
    · -- wraps: small positive
      have hq : sgnF ((b + k * 2 ^ 52) % 2 ^ 64) = 0 ∧ expF ((b + k * 2 ^ 52) % 2 ^ 64) = expF b + k - 2048 := by
        unfold expF sgnF at *
        simp only [Nat.shiftRight_eq_div_pow] at *
        omega
      rw [truncU_of_fields hq.1 (by rw [hq.2]; omega)]
      split
      · rfl
      · exact sig_shr_zero _ _ (manF_lt _) (by rw [hq.2]; omega)
  · -- positive NaN
    have hs : sgnF b = 0 ∨ sgnF b = 1 := by unfold sgnF; omega
    have hrhs : ¬ (sgnF b = 0 ∧ 1 ≤ expF b ∧ expF b ≤ 1025) := by omega
    simp only [hrhs, if_false]
    by_cases hk0 : k = 0
    · subst hk0
      simp only [Nat.zero_mul, Nat.add_zero, Nat.mod_eq_of_lt hlt]
      unfold truncU
      rcases hs with hs | hs
      · simp [hs, he, hm]
      · simp [hs]
    · rcases hs with hs | hs
      · have hq : sgnF ((b + k * 2 ^ 52) % 2 ^ 64) = 1 := by
          unfold expF sgnF at *
          simp only [Nat.shiftRight_eq_div_pow] at *
          omega
        exact truncU_neg hq
      · by_cases hov : expF b + k ≤ 2047
        · omega
        · have hq : sgnF ((b + k * 2 ^ 52) % 2 ^ 64) = 0 ∧ expF ((b + k * 2 ^ 52) % 2 ^ 64) = expF b + k - 2048 := by
            unfold expF sgnF at *
            simp only [Nat.shiftRight_eq_div_pow] at *
            omega
          rw [truncU_of_fields hq.1 (by rw [hq.2]; omega)]
          split
          · rfl
          · exact sig_shr_zero _ _ (manF_lt _) (by rw [hq.2]; omega)
  · -- positive, below 8
    obtain ⟨e1, e2, e3, e4⟩ := fields_add hlt (by omega : expF b + k ≤ 2047)
    rw [e1, truncU_of_fields (by omega) (by omega), e2, e3]
    by_cases h0 : expF b = 0
    · have hrhs : ¬ (sgnF b = 0 ∧ 1 ≤ expF b ∧ expF b ≤ 1025) := by omega
      simp only [hrhs, if_false]
      split
      · rfl
      · exact sig_shr_zero _ _ (manF_lt _) (by omega)
    · have hrhs : (sgnF b = 0 ∧ 1 ≤ expF b ∧ expF b ≤ 1025) := by omega
      have : ¬ (expF b + k = 0) := by omega
      simp only [hrhs, this, if_false, and_self, if_true]
      congr 1
      omega

/-- **the exponent trick is hierarchical**: truncating at a deeper scale and shifting right gives the truncation
    at the coarser scale, for every small bit pattern -/
theorem truncU_expAdd_prefix {b : Nat} (hb : Small b) (k k' : Nat) (hkk : k ≤ k') (hk' : k' ≤ 28) :
    truncU 32 (expAdd b k') >>> (k' - k) = truncU 32 (expAdd b k) := by
  rw [truncU_expAdd_small hb k' hk', truncU_expAdd_small hb k (by omega)]
  split
  · rename_i h
    rw [← Nat.shiftRight_add]
    congr 1
    omega
  · simp

end Hpx.F64
