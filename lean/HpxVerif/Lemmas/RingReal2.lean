/-
RING scheme over the reals, for every `nside` (C11), part 2: `hash_with_dldh = hashPlane ∘ proj`, the integer tail of
the hash function inverts the ring decomposition (`hashTail_ring`), hashing the centre of a cell returns the cell
(`ring_hash_center`).
-/
import HpxVerif.Lemmas.RingReal
import Mathlib.Algebra.Order.Floor.Semiring

namespace Hpx.RingReal
open Hpx Hpx.Ring Hpx.Proj

/-- the integer tail of `hash_with_dldh`, after `deal_with_1x1_box`: verbatim copy of the model -/
def hashTail {α : Type} [Num α] (debug : Bool) (nside : Nat) (dl dh : α) (iRing1 iInRing1 : Nat) : Option (Nat × α × α) :=
    if iRing1 ≥ 5 * nside then
      if nside = 0 then none else some (iInRing1 / nside, Num.one, Num.one)
    else
      match sub64 debug (5 * nside) 1 with
      | none => none
      | some a =>
      match sub64 debug a iRing1 with
      | none => none
      | some iRing =>
        if nside = 0 then none else
        if iRing < nside then
          match sub64 debug nside 1 with
          | none => none
          | some b =>
          match sub64 debug b iRing with
          | none => none
          | some off =>
            match sub64 debug iInRing1 ((off >>> 1) + (off &&& 1) + off * (iInRing1 / nside)) with
            | none => none
            | some iin => some ((tri4 iRing + iin) % 2 ^ 64, dl, dh)
        else if iRing ≥ 3 * nside then
          match sub64 debug (iRing + 1) (3 * nside) with
          | none => none
          | some off =>
            match sub64 debug iInRing1 ((off >>> 1) + (off &&& 1) + off * (iInRing1 / nside)) with
            | none => none
            | some iin =>
              match sub64 debug (nIsolatitudeRings nside) iRing with
              | none => none
              | some k =>
                match sub64 debug (nHash nside) (tri4 k) with
                | none => none
                | some base => some ((base + iin) % 2 ^ 64, dl, dh)
        else
          some (tri4 nside + (iRing - nside) * (nside <<< 2) + (if iInRing1 == nside <<< 2 then 0 else iInRing1), dl, dh)

/-- the PLANE part of `hash_with_dldh`: everything after `proj`, as a function of the projected point -/
def hashPlane {α : Type} [Num α] (debug : Bool) (nside : Nat) (X Y : α) : Option (Nat × α × α) :=
    let halfNside : α := Num.half * Num.ofNat nside
    let x := ensuresXIsPositive X
    let dl0 := halfNside * x
    if debug && !(Num.le (Num.zero : α) dl0 && Num.lt dl0 (Num.ofNat 4 * Num.ofNat nside)) then none else
    let dh0 := halfNside * (Y + Num.ofNat 3)
    if debug && !(Num.le (Num.zero : α) dh0 && Num.le dh0 (Num.lit 0x4004000000000000 * Num.ofNat nside)) then none else
    let iRing0 := ((Num.truncU64 dh0) <<< 1) % 2 ^ 64
    let iInRing0 := Num.truncU64 dl0
    let dl := dl0 - Num.ofNat iInRing0
    if debug && !(Num.le (Num.zero : α) dl && Num.lt dl (Num.one : α)) then none else
    let dh := dh0 - Num.ofNat (iRing0 >>> 1)
    if debug && !(Num.le (Num.zero : α) dh && Num.lt dh (Num.one : α)) then none else
    let b := dealWith1x1Box dl dh iRing0 iInRing0
    hashTail debug nside dl dh b.1 b.2

/-- `hash_with_dldh` is `proj` followed by the plane function -/
theorem hashWithDlDh_eq {α : Type} [Num α] (debug : Bool) (nside : Nat) (lon lat : α) :
    hashWithDlDh debug nside lon lat = (proj lon lat).bind (fun xy => hashPlane debug nside xy.1 xy.2) := by
  unfold hashWithDlDh
  cases proj lon lat with
  | none => rfl
  | some xy => rfl

/-- the plane function only sees `x` modulo 8 (through `ensures_x_is_positive`) -/
theorem hashPlane_neg (debug : Bool) (n : Nat) (X Y : ℝ) (hX : X < 0) (hX8 : -8 ≤ X) :
    hashPlane debug n X Y = hashPlane debug n (X + 8) Y := by
  have h1 : ensuresXIsPositive X = X + 8 := by
    unfold ensuresXIsPositive
    have : Num.lt X (Num.zero : ℝ) = true := by rw [r_lt, r_zero]; simpa using hX
    rw [if_pos this, r_ofNat]; norm_num
  have h2 : ensuresXIsPositive (X + 8) = X + 8 := by
    unfold ensuresXIsPositive
    have : Num.lt (X + 8) (Num.zero : ℝ) = false := by rw [r_lt, r_zero]; simp; linarith
    rw [this]; simp
  unfold hashPlane
  rw [h1, h2]

/-! ## the integer tail inverts the ring decomposition -/

theorem shr_and_one (off : Nat) : (off >>> 1) + (off &&& 1) = (off + 1) / 2 := by
  rw [Nat.shiftRight_eq_div_pow, Nat.and_one_is_mod]; omega

/-- the index correction of the polar caps: facet `q`, `j`-th cell of a ring of `m = n − off` cells per facet -/
theorem cap_index {n off q j : Nat} (hoff : off < n) (hj : j < n - off) :
    (n * q + j + (off + 1) / 2) / n = q ∧
    (off + 1) / 2 + off * q ≤ n * q + j + (off + 1) / 2 ∧
    n * q + j + (off + 1) / 2 - ((off + 1) / 2 + off * q) = q * (n - off) + j := by
  have e : n * q = off * q + q * (n - off) := by
    have : n = off + (n - off) := by omega
    calc n * q = (off + (n - off)) * q := by rw [← this]
      _ = off * q + q * (n - off) := by ring
  refine ⟨?_, by omega, by omega⟩
  have hlt : j + (off + 1) / 2 < n := by omega
  rw [Nat.add_assoc, Nat.mul_add_div (by omega), Nat.div_eq_of_lt hlt]; rfl

/-- in a ring with `n − off` cells per facet whose first centre sits `off + 1` half-steps east of the facet corner,
    the index correction of the code recovers the index in the ring -/
theorem cap_sub {n r off i : Nat} (debug : Bool) (hoff : off < n) (hm : perFacet n r = n - off)
    (hc : cxOff n r = off + 1) (hi : i < 4 * perFacet n r) :
    sub64 debug (cxI n r i / 2) ((off >>> 1) + (off &&& 1) + off * (cxI n r i / 2 / n)) = some i := by
  have hp : 0 < perFacet n r := by omega
  have hdm := Nat.div_add_mod i (perFacet n r)
  have hj : i % perFacet n r < perFacet n r := Nat.mod_lt _ hp
  have ecx : cxI n r i / 2 = n * (i / perFacet n r) + i % perFacet n r + (off + 1) / 2 := by
    unfold cxI; rw [hc, Nat.mul_assoc]; omega
  obtain ⟨c1, c2, c3⟩ := cap_index (n := n) (off := off) (q := i / perFacet n r) (j := i % perFacet n r) hoff
    (by omega)
  rw [shr_and_one, ecx, c1, sub64_of_le c2, c3, ← hm, Nat.mul_comm]
  rw [hdm]

theorem hashTail_ring {α : Type} [Num α] (debug : Bool) {n r i : Nat} (dl dh : α) (hn : 1 ≤ n) (hn30 : n < 2 ^ 30)
    (hr : r < 4 * n - 1) (hi : i < 4 * perFacet n r) :
    hashTail debug n dl dh (5 * n - 1 - r) (cxI n r i / 2) = some (ringStart n r + i, dl, dh) := by
  have hlt64 : ringStart n r + i < 2 ^ 64 := by
    have := ringStart_add_lt hn hr hi
    have h2 : n * n ≤ 2 ^ 30 * 2 ^ 30 := Nat.mul_le_mul (by omega) (by omega)
    have : 12 * n * n = 12 * (n * n) := by ring
    omega
  unfold hashTail
  rw [if_neg (by omega), sub64_of_le (by omega : 1 ≤ 5 * n)]
  simp only []
  rw [sub64_of_le (by omega : 5 * n - 1 - r ≤ 5 * n - 1)]
  simp only []
  have ek : 5 * n - 1 - (5 * n - 1 - r) = r := by omega
  rw [ek, if_neg (by omega)]
  by_cases h1 : r < n
  · rw [if_pos h1, sub64_of_le (by omega : 1 ≤ n)]
    simp only []
    rw [sub64_of_le (by omega : r ≤ n - 1)]
    simp only []
    have hm : perFacet n r = n - (n - 1 - r) := by
      unfold perFacet; split
      · omega
      · rw [if_pos (by omega)]; omega
    have hc : cxOff n r = (n - 1 - r) + 1 := by
      unfold cxOff; split
      · omega
      · rw [if_pos (by omega)]; omega
    have hs : ringStart n r = tri4 r := by
      unfold ringStart; split
      · rfl
      · rw [if_pos (by omega)]
        have : r = n - 1 := by omega
        rw [this]; have : n - 1 + 1 - n = 0 := by omega
        rw [this]; omega
    rw [cap_sub debug (by omega) hm hc hi]
    simp only []
    rw [← hs, Nat.mod_eq_of_lt hlt64]
  · rw [if_neg h1]
    by_cases h2 : r ≥ 3 * n
    · rw [if_pos h2, sub64_of_le (by omega : 3 * n ≤ r + 1)]
      simp only []
      have hm : perFacet n r = n - (r + 1 - 3 * n) := by
        unfold perFacet; rw [if_neg (by omega), if_neg (by omega)]; omega
      have hc : cxOff n r = (r + 1 - 3 * n) + 1 := by
        unfold cxOff; rw [if_neg (by omega), if_neg (by omega)]; omega
      rw [cap_sub debug (by omega) hm hc hi]
      simp only []
      have e4 : nIsolatitudeRings n = 4 * n - 1 := by unfold nIsolatitudeRings; rw [Nat.shiftLeft_eq]; omega
      rw [e4, sub64_of_le (by omega : r ≤ 4 * n - 1)]
      simp only []
      have hs : ringStart n r = 12 * n * n - tri4 (4 * n - 1 - r) := by
        unfold ringStart; rw [if_neg (by omega), if_neg (by omega)]
      have hb := tri4_le_sq (t := 4 * n - 1 - r) (n := n) (by omega)
      have e12 : nHash n = 12 * n * n := rfl
      have e12' : 12 * n * n = 12 * (n * n) := by ring
      rw [e12, sub64_of_le (by omega)]
      simp only []
      rw [← hs, Nat.mod_eq_of_lt hlt64]
    · rw [if_neg h2]
      have hm : perFacet n r = n := by unfold perFacet; rw [if_neg (by omega), if_pos (by omega)]
      have hc : cxOff n r = (r + n) % 2 := by unfold cxOff; rw [if_neg (by omega), if_pos (by omega)]
      have hdm := Nat.div_add_mod i n
      have ecx : cxI n r i / 2 = i := by
        unfold cxI; rw [hm, hc, Nat.mul_assoc]; omega
      have hs : ringStart n r = tri4 (n - 1) + (r + 1 - n) * (4 * n) := by
        unfold ringStart; rw [if_neg (by omega), if_pos (by omega)]
      have e4 : n <<< 2 = 4 * n := by rw [Nat.shiftLeft_eq]; omega
      have hne : (i == 4 * n) = false := by
        rw [hm] at hi; simp; omega
      rw [ecx, e4, hne, hs]
      have : tri4 n = tri4 (n - 1) + 4 * n := by
        have := tri4_succ (n - 1)
        rw [show n - 1 + 1 = n by omega] at this; omega
      have e2 : (r + 1 - n) * (4 * n) = (r - n) * (4 * n) + 4 * n := by
        have : r + 1 - n = (r - n) + 1 := by omega
        rw [this, Nat.add_mul]; omega
      simp only [Bool.false_eq_true, if_false]
      rw [this, e2]
      generalize (r - n) * (4 * n) = z
      rw [show tri4 (n - 1) + 4 * n + z + i = tri4 (n - 1) + (z + 4 * n) + i by omega]

/-! ## from the plane to the 1×1 box -/

theorem lit_250 : (Num.lit (α := ℝ) 0x4004000000000000) = 5 / 2 := by
  show ((F64.toRat 0x4004000000000000 : ℚ) : ℝ) = 5 / 2
  rw [toRat_of_fields _ 1024 0x4000000000000 (by decide) (by decide) (by decide) (by decide)]
  norm_num

theorem r_truncU64 (x : ℝ) : Num.truncU64 x = min ⌊max x 0⌋₊ (2 ^ 64 - 1) := rfl

theorem truncU64_of_floor {x : ℝ} {a : ℕ} (h1 : (a : ℝ) ≤ x) (h2 : x < a + 1) (ha : a < 2 ^ 64) :
    Num.truncU64 x = a := by
  have h0 : 0 ≤ x := le_trans (Nat.cast_nonneg a) h1
  rw [r_truncU64, max_eq_left h0, (Nat.floor_eq_iff h0).mpr ⟨h1, h2⟩]
  omega

/-- the real-number prelude of `hash_with_dldh`: for a point of the projection plane (`0 ≤ x < 8`, `−2 ≤ y ≤ 2`) no
    debug assertion fails and the integer tail is entered with the box `(a, b)` (integer parts of `n·x/2` and
    `n·(y+3)/2`) corrected by `deal_with_1x1_box` on the fractional parts -/
theorem hashPlane_box (debug : Bool) {n : Nat} (hn : 1 ≤ n) (hn30 : n < 2 ^ 30) {X Y : ℝ} (hX0 : 0 ≤ X) (hX8 : X < 8)
    (hY0 : -2 ≤ Y) (hY2 : Y ≤ 2) (a b : ℕ) (ha1 : (a : ℝ) ≤ 1 / 2 * n * X) (ha2 : 1 / 2 * n * X < a + 1)
    (hb1 : (b : ℝ) ≤ 1 / 2 * n * (Y + 3)) (hb2 : 1 / 2 * n * (Y + 3) < b + 1) :
    hashPlane debug n X Y =
      hashTail debug n (1 / 2 * n * X - a) (1 / 2 * n * (Y + 3) - b)
        (dealWith1x1Box (1 / 2 * (n : ℝ) * X - a) (1 / 2 * n * (Y + 3) - b) (2 * b) a).1
        (dealWith1x1Box (1 / 2 * (n : ℝ) * X - a) (1 / 2 * n * (Y + 3) - b) (2 * b) a).2 := by
  have hn0 : (0 : ℝ) < n := by exact_mod_cast hn
  have hnr : (n : ℝ) < 2 ^ 30 := by exact_mod_cast hn30
  have hx : ensuresXIsPositive X = X := by
    unfold ensuresXIsPositive
    have : Num.lt X (Num.zero : ℝ) = false := by rw [r_lt, r_zero]; simpa using hX0
    rw [this]; simp
  have hdl0 : 1 / 2 * (n : ℝ) * X < 4 * n := by nlinarith
  have hdl00 : 0 ≤ 1 / 2 * (n : ℝ) * X := by positivity
  have hdh0 : 1 / 2 * (n : ℝ) * (Y + 3) ≤ 5 / 2 * n := by nlinarith
  have hdh00 : 0 ≤ 1 / 2 * (n : ℝ) * (Y + 3) := by
    have : 0 ≤ Y + 3 := by linarith
    positivity
  have ha : a < 2 ^ 32 := by
    have : (a : ℝ) < 2 ^ 32 := by linarith
    exact_mod_cast this
  have hb : b < 2 ^ 32 := by
    have : (b : ℝ) < 2 ^ 32 := by linarith
    exact_mod_cast this
  unfold hashPlane
  simp only [hx, r_half, r_ofNat, r_zero, r_one, r_le, r_lt, lit_250, Nat.cast_ofNat]
  rw [truncU64_of_floor ha1 ha2 (by omega), truncU64_of_floor hb1 hb2 (by omega)]
  have e1 : b <<< 1 % 2 ^ 64 = 2 * b := by rw [Nat.shiftLeft_eq]; omega
  have e2 : (2 * b) >>> 1 = b := by rw [Nat.shiftRight_eq_div_pow]; omega
  simp only [e1, e2]
  have d1 : decide (0 ≤ 1 / 2 * (n : ℝ) * X) = true := decide_eq_true hdl00
  have d2 : decide (1 / 2 * (n : ℝ) * X < 4 * n) = true := decide_eq_true hdl0
  have d3 : decide (0 ≤ 1 / 2 * (n : ℝ) * (Y + 3)) = true := decide_eq_true hdh00
  have d4 : decide (1 / 2 * (n : ℝ) * (Y + 3) ≤ 5 / 2 * n) = true := decide_eq_true hdh0
  have d5 : decide (0 ≤ 1 / 2 * (n : ℝ) * X - a) = true := decide_eq_true (by linarith)
  have d6 : decide (1 / 2 * (n : ℝ) * X - a < 1) = true := decide_eq_true (by linarith)
  have d7 : decide (0 ≤ 1 / 2 * (n : ℝ) * (Y + 3) - b) = true := decide_eq_true (by linarith)
  have d8 : decide (1 / 2 * (n : ℝ) * (Y + 3) - b < 1) = true := decide_eq_true (by linarith)
  simp only [d1, d2, d3, d4, d5, d6, d7, d8, Bool.and_self, Bool.not_true, Bool.and_false, Bool.false_eq_true, if_false]

/-! ## hashing a centre -/

theorem cxI_parity {n r i : Nat} (hr : r < 4 * n - 1) : cxI n r i % 2 = (5 * n - r) % 2 := by
  unfold cxI cxOff
  rw [Nat.mul_assoc]
  split
  · omega
  · split <;> omega

theorem r_ge (x y : ℝ) : Num.ge x y = decide (y ≤ x) := rfl

/-- hashing the centre of cell `i` of ring `r` gives back the cell, with box offsets `(dl, dh) = (1/2, 0)` when the
    centre sits in the middle of the bottom edge of its 1×1 box (`5n − 1 − r` even), `(0, 1/2)` when it sits in the
    middle of the left edge -/
theorem hashPlane_center (debug : Bool) {n r i : Nat} (hn : 1 ≤ n) (hn30 : n < 2 ^ 30) (hr : r < 4 * n - 1)
    (hi : i < 4 * perFacet n r) :
    hashPlane debug n ((cxI n r i : ℝ) / n) ((cyI n r : ℝ) / n) =
      some (ringStart n r + i, if (5 * n - 1 - r) % 2 = 0 then ((1 / 2 : ℝ), (0 : ℝ)) else (0, 1 / 2)) := by
  have hn0 : (0 : ℝ) < n := by exact_mod_cast hn
  have hn0' : (n : ℝ) ≠ 0 := ne_of_gt hn0
  have hcx := cxI_lt hn hr hi
  have hpar := cxI_parity (n := n) (r := r) (i := i) hr
  have hX0 : (0 : ℝ) ≤ (cxI n r i : ℝ) / n := by positivity
  have hX8 : (cxI n r i : ℝ) / n < 8 := by
    rw [div_lt_iff₀ hn0]; exact_mod_cast hcx
  have hY0 : -2 ≤ (cyI n r : ℝ) / n := by
    rw [le_div_iff₀ hn0]
    have : -2 * (n : ℤ) ≤ cyI n r := by unfold cyI; omega
    exact_mod_cast this
  have hY2 : (cyI n r : ℝ) / n ≤ 2 := by
    rw [div_le_iff₀ hn0]
    have : cyI n r ≤ 2 * (n : ℤ) := by unfold cyI; omega
    exact_mod_cast this
  have eX : 1 / 2 * (n : ℝ) * ((cxI n r i : ℝ) / n) = (cxI n r i : ℝ) / 2 := by field_simp
  have ek : (cyI n r : ℝ) = ((5 * n - 1 - r : ℕ) : ℝ) - 3 * n := by
    have : cyI n r = ((5 * n - 1 - r : ℕ) : ℤ) - 3 * (n : ℤ) := by unfold cyI; omega
    rw [this]; push_cast; ring
  have eY : 1 / 2 * (n : ℝ) * ((cyI n r : ℝ) / n + 3) = ((5 * n - 1 - r : ℕ) : ℝ) / 2 := by
    rw [ek]; field_simp; ring
  have half_floor : ∀ c : ℕ, ((c / 2 : ℕ) : ℝ) = (c : ℝ) / 2 - ((c % 2 : ℕ) : ℝ) / 2 := by
    intro c
    have := Nat.div_add_mod c 2
    have h2 : ((2 * (c / 2) + c % 2 : ℕ) : ℝ) = c := by rw [this]
    push_cast at h2; linarith
  have hmod : ∀ c : ℕ, ((c % 2 : ℕ) : ℝ) = 0 ∨ ((c % 2 : ℕ) : ℝ) = 1 := by
    intro c; rcases Nat.mod_two_eq_zero_or_one c with h | h <;> simp [h]
  rw [hashPlane_box debug hn hn30 hX0 hX8 hY0 hY2 (cxI n r i / 2) ((5 * n - 1 - r) / 2)
    (by rw [eX, half_floor]; rcases hmod (cxI n r i) with h | h <;> rw [h] <;> linarith)
    (by rw [eX, half_floor]; rcases hmod (cxI n r i) with h | h <;> rw [h] <;> linarith)
    (by rw [eY, half_floor]; rcases hmod (5 * n - 1 - r) with h | h <;> rw [h] <;> linarith)
    (by rw [eY, half_floor]; rcases hmod (5 * n - 1 - r) with h | h <;> rw [h] <;> linarith)]
  rw [eX, eY, half_floor, half_floor]
  unfold dealWith1x1Box
  simp only [r_le, r_ge, r_one]
  rcases Nat.mod_two_eq_zero_or_one (5 * n - 1 - r) with hk | hk
  · have hc : cxI n r i % 2 = 1 := by omega
    have e1 : (cxI n r i : ℝ) / 2 - ((cxI n r i : ℝ) / 2 - ((cxI n r i % 2 : ℕ) : ℝ) / 2) = 1 / 2 := by
      rw [hc]; push_cast; ring
    have e2 : ((5 * n - 1 - r : ℕ) : ℝ) / 2 - (((5 * n - 1 - r : ℕ) : ℝ) / 2 - (((5 * n - 1 - r) % 2 : ℕ) : ℝ) / 2) = 0 := by
      rw [hk]; push_cast; ring
    rw [e1, e2, if_pos hk]
    have d1 : decide ((1 / 2 : ℝ) ≤ 0) = false := by simp
    have d2 : decide ((1 : ℝ) - 0 ≤ 1 / 2) = false := by norm_num
    simp only [d1, d2, Bool.false_eq_true, if_false, Nat.add_zero, Nat.shiftRight_zero]
    have : 2 * ((5 * n - 1 - r) / 2) = 5 * n - 1 - r := by omega
    rw [this]
    exact hashTail_ring debug _ _ hn hn30 hr hi
  · have hc : cxI n r i % 2 = 0 := by omega
    have e1 : (cxI n r i : ℝ) / 2 - ((cxI n r i : ℝ) / 2 - ((cxI n r i % 2 : ℕ) : ℝ) / 2) = 0 := by
      rw [hc]; push_cast; ring
    have e2 : ((5 * n - 1 - r : ℕ) : ℝ) / 2 - (((5 * n - 1 - r : ℕ) : ℝ) / 2 - (((5 * n - 1 - r) % 2 : ℕ) : ℝ) / 2) = 1 / 2 := by
      rw [hk]; push_cast; ring
    rw [e1, e2, if_neg (by omega : ¬ (5 * n - 1 - r) % 2 = 0)]
    have d1 : decide ((0 : ℝ) ≤ 1 / 2) = true := by simp
    have d2 : decide ((1 : ℝ) - 1 / 2 ≤ 0) = false := by norm_num
    simp only [d1, d2, Bool.false_eq_true, if_false, if_true, Nat.add_zero]
    have : 2 * ((5 * n - 1 - r) / 2) + 1 = 5 * n - 1 - r := by omega
    rw [this]
    have : cxI n r i / 2 + 0 >>> 1 = cxI n r i / 2 := by simp
    rw [this]
    exact hashTail_ring debug _ _ hn hn30 hr hi

theorem dldhToDxDy_center : dldhToDxDy ((1 : ℝ) / 2) 0 = (1 / 2, 1 / 2) ∧ dldhToDxDy (0 : ℝ) (1 / 2) = (1 / 2, 1 / 2) := by
  unfold dldhToDxDy
  simp only [r_lt, r_one, r_zero]
  constructor <;> norm_num

/-- `ring_hash_center` (task item 3): for every `nside = n ≥ 1` and every cell `h < 12 n²`, hashing the centre of `h`
    (in the plane) returns `h` in both profiles; the box offsets returned are `(dl, dh) = (1/2, 0)` or `(0, 1/2)`, which
    `dldh_to_dxdy` maps to the centre `(dx, dy) = (1/2, 1/2)` of the cell -/
theorem ring_hash_center (debug : Bool) {n : Nat} (hn : 1 ≤ n) (hn30 : n < 2 ^ 30) (hRI : RingIndexExact n)
    (h : Nat) (hh : h < 12 * n * n) :
    ∃ cx cy dl dh : ℝ, centerOfProjectedCell (α := ℝ) debug n h = some (cx, cy) ∧
      hashPlane debug n cx cy = some (h, dl, dh) ∧ ((dl, dh) = (1 / 2, 0) ∨ (dl, dh) = (0, 1 / 2)) ∧
      dldhToDxDy dl dh = (1 / 2, 1 / 2) := by
  obtain ⟨r, i, hr, hi, e⟩ := ring_decompose hn h hh
  have hc := center_eq debug hn hn30 hRI hr hi
  have hp := hashPlane_center debug hn hn30 hr hi
  rw [← e] at hc hp
  by_cases hk : (5 * n - 1 - r) % 2 = 0
  · rw [if_pos hk] at hp
    exact ⟨_, _, _, _, hc, hp, Or.inl rfl, dldhToDxDy_center.1⟩
  · rw [if_neg hk] at hp
    exact ⟨_, _, _, _, hc, hp, Or.inr rfl, dldhToDxDy_center.2⟩

end Hpx.RingReal
