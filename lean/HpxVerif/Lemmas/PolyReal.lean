/-
Point-in-polygon over the reals (C12), part 1 of 6: the model functions of `Model/SphGeom.lean` at `α := ℝ`
(`isInLonRange`, the crossing test of `oddNumIntersectGoingSouth`), against their geometric meaning.

* `is_in_lon_range_spec`    : the longitude-range predicate, exact statement (`LonRange`: which end is closed, `|Δlon| = π`,
                              `lon = 0`), for every triple of reals;
* `lonRange_iff_sign`       : for a longitude that is not a vertex longitude, the range test is a sign condition on three sines;
* `lonRange_iff_arcMeets`   : ... which says exactly that the (shorter) great-circle arc `v1 v2` meets the meridian of `p`;
* `crossing_test_geometric` : the complete test of one edge is true iff the arc crosses the meridian of `p` strictly south of `p`.

Files: `PolyReal2` (the loop is a parity: `contains_parity`), `PolyReal3` (counting argument for convex polygons),
`PolyReal4` (`contains_convex`: generic points), `PolyReal5` (`contains_convex_final`: every point off the boundary),
`PolyReal6` (examples and counter-examples).
-/
import HpxVerif.Model.SphGeom
import HpxVerif.Lemmas.NumReal
import HpxVerif.Lemmas.ProjReal
import Mathlib.Tactic.Positivity
import Mathlib.Tactic.LinearCombination
import Mathlib.Analysis.SpecialFunctions.Trigonometric.Arctan

namespace Hpx.Sph
open Real Hpx.Proj

/-! ## the instance, unfolded -/

theorem r_zero : (Num.zero : ℝ) = 0 := by show ((0 : ℕ) : ℝ) = 0; norm_num
theorem r_pi : (Num.pi : ℝ) = π := rfl
theorem r_twicePi : (Num.twicePi : ℝ) = 2 * π := rfl
theorem r_gt (x y : ℝ) : Num.gt x y = decide (y < x) := rfl
theorem r_ge (x y : ℝ) : Num.ge x y = decide (y ≤ x) := rfl

/-! ## signs of the sine on `(-2π, 2π)` -/

theorem sin_pos_iff_of_abs_lt (x : ℝ) (h1 : -(2 * π) < x) (h2 : x < 2 * π) :
    0 < sin x ↔ (0 < x ∧ x < π) ∨ x < -π := by
  have hpi := pi_pos
  constructor
  · intro h
    by_contra hc
    push Not at hc
    rcases le_or_gt x 0 with hx | hx
    · -- `-π ≤ x ≤ 0`
      have : sin x ≤ 0 := sin_nonpos_of_nonpos_of_neg_pi_le hx hc.2
      linarith
    · have hx' := hc.1 hx
      have : sin (x - 2 * π) ≤ 0 := sin_nonpos_of_nonpos_of_neg_pi_le (by linarith) (by linarith)
      rw [sin_sub_two_pi] at this
      linarith
  · rintro (⟨h0, h3⟩ | h)
    · exact sin_pos_of_pos_of_lt_pi h0 h3
    · have : 0 < sin (x + 2 * π) := sin_pos_of_pos_of_lt_pi (by linarith) (by linarith)
      rwa [sin_add_two_pi] at this

theorem sin_neg_iff_of_abs_lt (x : ℝ) (h1 : -(2 * π) < x) (h2 : x < 2 * π) :
    sin x < 0 ↔ (-π < x ∧ x < 0) ∨ π < x := by
  have h := sin_pos_iff_of_abs_lt (-x) (by linarith) (by linarith)
  rw [sin_neg] at h
  constructor
  · intro hs
    rcases h.mp (by linarith) with ⟨a, b⟩ | c
    · left; constructor <;> linarith
    · right; linarith
  · rintro (⟨a, b⟩ | c)
    · have := h.mpr (Or.inl ⟨by linarith, by linarith⟩); linarith
    · have := h.mpr (Or.inr (by linarith)); linarith

/-! ## 1. `is_in_lon_range` -/

/-- the range of longitudes selected by an edge whose end points have longitudes `a` and `b`: the half-open interval
    that goes the SHORTER way round from one to the other, closed at its western end and open at its eastern end:
    * `|b − a| ≤ π` (no wrap; `|b − a| = π` is treated as "no wrap"): `min a b ≤ l < max a b`;
    * `|b − a| > π` (the shorter way crosses `lon = 0`): `max a b ≤ l` or `l < min a b`, i.e. for longitudes of
      `[0, 2π)` the set `[max, 2π) ∪ [0, min)`; `l = 0` belongs to it iff `0 < min a b`.
    `a = b` gives the empty set. -/
def LonRange (a b l : ℝ) : Prop :=
  if |b - a| ≤ π then min a b ≤ l ∧ l < max a b else l < min a b ∨ max a b ≤ l

/-- **`is_in_lon_range`, exactly** (every triple of reals, no hypothesis): symmetric in the two vertices. -/
theorem is_in_lon_range_spec (coo v1 v2 : Coo ℝ) :
    isInLonRange coo v1 v2 = true ↔ LonRange v1.lon v2.lon coo.lon := by
  unfold isInLonRange LonRange
  simp only [r_lt, r_le, r_ge, r_zero, r_pi]
  generalize v1.lon = a; generalize v2.lon = b; generalize coo.lon = l
  have hpi := pi_pos
  by_cases hd : b - a < 0
  · have hba : b < a := by linarith
    rw [min_eq_right hba.le, max_eq_left hba.le, abs_of_neg hd]
    by_cases hw : -π ≤ b - a
    · rw [if_pos (by linarith : -(b - a) ≤ π)]
      simp [hd, hw]
    · rw [if_neg (by intro h; apply hw; linarith : ¬ -(b - a) ≤ π)]
      simp only [hd, hw, decide_true, decide_false, if_true]
      by_cases h1 : b ≤ l <;> by_cases h2 : l < a <;> simp [h1, h2] <;> first | linarith | (left; linarith) | (right; linarith)
  · have hab : a ≤ b := by linarith
    rw [min_eq_left hab, max_eq_right hab, abs_of_nonneg (by linarith)]
    by_cases hw : b - a ≤ π
    · rw [if_pos hw]
      simp [hd, hw]
    · rw [if_neg hw]
      simp only [hd, hw, decide_false]
      by_cases h1 : a ≤ l <;> by_cases h2 : l < b <;> simp [h1, h2] <;> first | linarith | (left; linarith) | (right; linarith)

theorem lonRange_comm (a b l : ℝ) : LonRange a b l ↔ LonRange b a l := by
  unfold LonRange
  rw [abs_sub_comm, min_comm, max_comm]

theorem lonRange_self (a l : ℝ) : ¬ LonRange a a l := by
  unfold LonRange
  simp [pi_pos.le]

/-- at `|Δlon| = π` exactly: the interval `[min, max)` (not the other half) -/
theorem lonRange_of_abs_eq_pi (a b l : ℝ) (h : |b - a| = π) : LonRange a b l ↔ min a b ≤ l ∧ l < max a b := by
  unfold LonRange; simp [h]

/-- `lon = 0` is selected iff one of the two vertices has longitude 0 and the other one a longitude in `(0, π]`, or the
    edge wraps (`|Δlon| > π`) with both longitudes `> 0` -/
theorem lonRange_zero (a b : ℝ) (ha : 0 ≤ a) (hb : 0 ≤ b) :
    LonRange a b 0 ↔ (min a b = 0 ∧ 0 < max a b ∧ max a b ≤ π) ∨ (π < |b - a| ∧ 0 < min a b) := by
  unfold LonRange
  have hpi := pi_pos
  rcases le_total a b with hab | hab
  · rw [min_eq_left hab, max_eq_right hab, abs_of_nonneg (by linarith)]
    split
    · constructor
      · rintro ⟨h1, h2⟩; left; exact ⟨le_antisymm h1 ha, h2, by linarith⟩
      · rintro (⟨h1, h2, _⟩ | ⟨h1, _⟩)
        · exact ⟨h1.le, h2⟩
        · linarith
    · constructor
      · rintro (h | h)
        · right; exact ⟨by linarith, h⟩
        · exfalso; linarith
      · rintro (⟨h1, h2, h3⟩ | ⟨_, h⟩)
        · exfalso; linarith
        · left; exact h
  · rw [min_eq_right hab, max_eq_left hab, abs_of_nonpos (by linarith)]
    split
    · constructor
      · rintro ⟨h1, h2⟩; left; exact ⟨le_antisymm h1 hb, h2, by linarith⟩
      · rintro (⟨h1, h2, _⟩ | ⟨h1, _⟩)
        · exact ⟨h1.le, h2⟩
        · linarith
    · constructor
      · rintro (h | h)
        · right; exact ⟨by linarith, h⟩
        · exfalso; linarith
      · rintro (⟨h1, h2, h3⟩ | ⟨_, h⟩)
        · exfalso; linarith
        · left; exact h

/-- For a longitude `l` different from both vertex longitudes, and vertices neither on the same meridian nor on opposite
    meridians, the range test is: `sin (l − a)`, `sin (b − l)` and `sin (b − a)` have the same sign. -/
theorem lonRange_iff_sign (a b l : ℝ) (ha0 : 0 ≤ a) (ha1 : a < 2 * π) (hb0 : 0 ≤ b) (hb1 : b < 2 * π)
    (hl0 : 0 ≤ l) (hl1 : l < 2 * π) (hla : l ≠ a) (hlb : l ≠ b) :
    LonRange a b l ∧ sin (b - a) ≠ 0 ↔ 0 < sin (l - a) * sin (b - a) ∧ 0 < sin (b - l) * sin (b - a) := by
  have hpi := pi_pos
  have P1 := sin_pos_iff_of_abs_lt (l - a) (by linarith) (by linarith)
  have P2 := sin_pos_iff_of_abs_lt (b - l) (by linarith) (by linarith)
  have P3 := sin_pos_iff_of_abs_lt (b - a) (by linarith) (by linarith)
  have N1 := sin_neg_iff_of_abs_lt (l - a) (by linarith) (by linarith)
  have N2 := sin_neg_iff_of_abs_lt (b - l) (by linarith) (by linarith)
  have N3 := sin_neg_iff_of_abs_lt (b - a) (by linarith) (by linarith)
  have hla' : l < a ∨ a < l := lt_or_gt_of_ne hla
  have hlb' : l < b ∨ b < l := lt_or_gt_of_ne hlb
  unfold LonRange
  rw [mul_pos_iff, mul_pos_iff]
  constructor
  · rintro ⟨hR, hs⟩
    rcases lt_or_gt_of_ne hs with hs | hs
    · -- sin (b - a) < 0
      have hs3 := N3.mp hs
      have g1 : sin (l - a) < 0 ∧ sin (b - l) < 0 := by
        rw [N1, N2]
        rcases hs3 with ⟨h1, h2⟩ | h1
        · rw [if_pos (by rw [abs_le]; constructor <;> linarith), min_eq_right (by linarith), max_eq_left (by linarith)] at hR
          constructor
          · left; constructor <;> [linarith; (rcases hla' with h | h <;> linarith)]
          · left; constructor <;> [linarith; (rcases hlb' with h | h <;> linarith)]
        · rw [if_neg (by rw [abs_le]; intro h; linarith), min_eq_left (by linarith), max_eq_right (by linarith)] at hR
          rcases hR with hR | hR
          · constructor
            · left; constructor <;> linarith
            · right; linarith
          · constructor
            · right; rcases hlb' with h | h <;> linarith
            · left; constructor <;> [linarith; (rcases hlb' with h | h <;> linarith)]
      exact ⟨Or.inr ⟨g1.1, hs⟩, Or.inr ⟨g1.2, hs⟩⟩
    · have hs3 := P3.mp hs
      have g1 : 0 < sin (l - a) ∧ 0 < sin (b - l) := by
        rw [P1, P2]
        rcases hs3 with ⟨h1, h2⟩ | h1
        · rw [if_pos (by rw [abs_le]; constructor <;> linarith), min_eq_left (by linarith), max_eq_right (by linarith)] at hR
          constructor
          · left; constructor <;> [(rcases hla' with h | h <;> linarith); linarith]
          · left; constructor <;> linarith
        · rw [if_neg (by rw [abs_le]; intro h; linarith), min_eq_right (by linarith), max_eq_left (by linarith)] at hR
          rcases hR with hR | hR
          · constructor
            · right; linarith
            · left; constructor <;> linarith
          · constructor
            · left; constructor <;> [(rcases hla' with h | h <;> linarith); linarith]
            · right; rcases hla' with h | h <;> linarith
      exact ⟨Or.inl ⟨g1.1, hs⟩, Or.inl ⟨g1.2, hs⟩⟩
  · rintro ⟨h1 | h1, h2 | h2⟩
    · -- all positive
      refine ⟨?_, h1.2.ne'⟩
      have q1 := P1.mp h1.1; have q2 := P2.mp h2.1; have q3 := P3.mp h1.2
      rcases q3 with ⟨c1, c2⟩ | c1
      · rw [if_pos (by rw [abs_le]; constructor <;> linarith), min_eq_left (by linarith), max_eq_right (by linarith)]
        rcases q1 with ⟨d1, d2⟩ | d1 <;> rcases q2 with ⟨e1, e2⟩ | e1 <;> (constructor <;> linarith)
      · rw [if_neg (by rw [abs_le]; intro h; linarith), min_eq_right (by linarith), max_eq_left (by linarith)]
        rcases q1 with ⟨d1, d2⟩ | d1 <;> rcases q2 with ⟨e1, e2⟩ | e1 <;>
          first | (left; linarith) | (right; linarith)
    · exfalso; linarith [h1.2, h2.2]
    · exfalso; linarith [h1.2, h2.2]
    · refine ⟨?_, h1.2.ne⟩
      have q1 := N1.mp h1.1; have q2 := N2.mp h2.1; have q3 := N3.mp h1.2
      rcases q3 with ⟨c1, c2⟩ | c1
      · rw [if_pos (by rw [abs_le]; constructor <;> linarith), min_eq_right (by linarith), max_eq_left (by linarith)]
        rcases q1 with ⟨d1, d2⟩ | d1 <;> rcases q2 with ⟨e1, e2⟩ | e1 <;> (constructor <;> linarith)
      · rw [if_neg (by rw [abs_le]; intro h; linarith), min_eq_left (by linarith), max_eq_right (by linarith)]
        rcases q1 with ⟨d1, d2⟩ | d1 <;> rcases q2 with ⟨e1, e2⟩ | e1 <;>
          first | (left; linarith) | (right; linarith)

/-! ## 2. the crossing test of one edge -/

/-- the fields of a `Coo` are consistent: unit vector of `(lon, lat)`, `lon ∈ [0, 2π)`, `lat ∈ [-π/2, π/2]`
    (what `Coo3D::from_sph_coo` builds) -/
structure Coo.Valid (c : Coo ℝ) : Prop where
  hx : c.x = cos c.lat * cos c.lon
  hy : c.y = cos c.lat * sin c.lon
  hz : c.z = sin c.lat
  lon0 : 0 ≤ c.lon
  lon1 : c.lon < 2 * π
  lat0 : -(π / 2) ≤ c.lat
  lat1 : c.lat ≤ π / 2

/-- not a pole -/
def Coo.NonPole (c : Coo ℝ) : Prop := -(π / 2) < c.lat ∧ c.lat < π / 2

theorem Coo.NonPole.cos_pos {c : Coo ℝ} (h : c.NonPole) : 0 < cos c.lat := cos_pos_of_mem_Ioo ⟨h.1, h.2⟩

/-- the normal stored by `Polygon::new` for the edge `u → w`: `u × w`, replaced by its opposite when it points south -/
noncomputable def npCross (u w : Coo ℝ) : ℝ × ℝ × ℝ :=
  if (cross u w).2.2 < 0 then (-(cross u w).1, -(cross u w).2.1, -(cross u w).2.2) else cross u w

/-- `z` component of `u × w` from the spherical coordinates -/
theorem cross_z_eq {u w : Coo ℝ} (hu : u.Valid) (hw : w.Valid) :
    (cross u w).2.2 = cos u.lat * cos w.lat * sin (w.lon - u.lon) := by
  unfold cross
  simp only
  rw [hu.hx, hu.hy, hw.hx, hw.hy, sin_sub]; ring

/-- The open great-circle arc from `u` to `w` (the shorter one: the positive combinations of the two vectors) meets the
    meridian of longitude `l` at the latitude `β`. -/
def ArcMeets (u w : Coo ℝ) (l β : ℝ) : Prop :=
  ∃ s t ρ : ℝ, 0 < s ∧ 0 < t ∧ 0 < ρ ∧ s * u.x + t * w.x = ρ * (cos β * cos l) ∧
    s * u.y + t * w.y = ρ * (cos β * sin l) ∧ s * u.z + t * w.z = ρ * sin β

/-- the arc `u w` crosses the meridian of `p` at a point strictly south of `p` (between `p` and the south pole) -/
def CrossesSouth (u w p : Coo ℝ) : Prop :=
  ∃ β : ℝ, -(π / 2) < β ∧ β < π / 2 ∧ ArcMeets u w p.lon β ∧ β < p.lat

theorem exists_polar (c z : ℝ) (hc : 0 < c) :
    ∃ ρ β : ℝ, 0 < ρ ∧ -(π / 2) < β ∧ β < π / 2 ∧ c = ρ * cos β ∧ z = ρ * sin β := by
  have hs : 0 < Real.sqrt (1 + (z / c) ^ 2) := Real.sqrt_pos.mpr (by positivity)
  refine ⟨c * Real.sqrt (1 + (z / c) ^ 2), Real.arctan (z / c), mul_pos hc hs, Real.neg_pi_div_two_lt_arctan _,
    Real.arctan_lt_pi_div_two _, ?_, ?_⟩
  · rw [Real.cos_arctan]; field_simp
  · rw [Real.sin_arctan]; field_simp

theorem sin_eq_zero_cos {x : ℝ} (h1 : -(2 * π) < x) (h2 : x < 2 * π) (hs : sin x = 0) (hx : x ≠ 0) : cos x = -1 := by
  have P := sin_pos_iff_of_abs_lt x h1 h2
  have N := sin_neg_iff_of_abs_lt x h1 h2
  have hpi := pi_pos
  rcases lt_trichotomy x 0 with h | h | h
  · rcases lt_trichotomy x (-π) with g | g | g
    · have := P.mpr (Or.inr g); linarith
    · rw [g, cos_neg, cos_pi]
    · have := N.mpr (Or.inl ⟨g, h⟩); linarith
  · exact absurd h hx
  · rcases lt_trichotomy x π with g | g | g
    · have := P.mpr (Or.inl ⟨h, g⟩); linarith
    · rw [g, cos_pi]
    · have := N.mpr (Or.inr g); linarith

/-- **the longitude test is the meeting test**: for a meridian that passes through neither end point, the arc `u w`
    meets the meridian `l` iff `l` is in the longitude range of the edge (and the edge is not in a meridian plane). -/
theorem lonRange_iff_arcMeets {u w : Coo ℝ} (hu : u.Valid) (hw : w.Valid) (hun : u.NonPole) (hwn : w.NonPole)
    (l : ℝ) (hl0 : 0 ≤ l) (hl1 : l < 2 * π) (hlu : l ≠ u.lon) (hlw : l ≠ w.lon) :
    LonRange u.lon w.lon l ∧ sin (w.lon - u.lon) ≠ 0 ↔ ∃ β : ℝ, -(π / 2) < β ∧ β < π / 2 ∧ ArcMeets u w l β := by
  have hcu := hun.cos_pos
  have hcw := hwn.cos_pos
  rw [lonRange_iff_sign u.lon w.lon l hu.lon0 hu.lon1 hw.lon0 hw.lon1 hl0 hl1 hlu hlw]
  set a := u.lon with ha
  set b := w.lon with hb
  set σ := sin (b - a) with hσ
  have hσe : σ = sin (b - l) * cos (l - a) + cos (b - l) * sin (l - a) := by
    rw [hσ, show b - a = (b - l) + (l - a) by ring, sin_add]
  constructor
  · rintro ⟨h1, h2⟩
    have hσ2 : 0 < σ ^ 2 := by
      have : σ ≠ 0 := by rintro h; rw [h] at h1; simp at h1
      positivity
    obtain ⟨ρ, β, hρ, hβ1, hβ2, hc, hz⟩ := exists_polar (cos u.lat * cos w.lat * σ ^ 2)
      (cos w.lat * (sin (b - l) * σ) * u.z + cos u.lat * (sin (l - a) * σ) * w.z) (by positivity)
    refine ⟨β, hβ1, hβ2, cos w.lat * (sin (b - l) * σ), cos u.lat * (sin (l - a) * σ), ρ, by positivity, by positivity, hρ,
      ?_, ?_, ?_⟩
    · have key : sin (b - l) * cos a + sin (l - a) * cos b = σ * cos l := by
        rw [hσ, sin_sub, sin_sub, sin_sub]; ring
      rw [hu.hx, hw.hx]
      linear_combination (cos u.lat * cos w.lat * σ) * key + cos l * hc
    · have key : sin (b - l) * sin a + sin (l - a) * sin b = σ * sin l := by
        rw [hσ, sin_sub, sin_sub, sin_sub]; ring
      rw [hu.hy, hw.hy]
      linear_combination (cos u.lat * cos w.lat * σ) * key + sin l * hc
    · rw [← hz]
  · rintro ⟨β, hβ1, hβ2, s, t, ρ, hs, ht, hρ, ex, ey, _⟩
    have hcβ : 0 < cos β := cos_pos_of_mem_Ioo ⟨hβ1, hβ2⟩
    rw [hu.hx, hw.hx] at ex
    rw [hu.hy, hw.hy] at ey
    set S := s * cos u.lat with hS
    set T := t * cos w.lat with hT
    have hSp : 0 < S := by positivity
    have hTp : 0 < T := by positivity
    set C := ρ * cos β with hC
    have hCp : 0 < C := by positivity
    -- the two relations
    have r1 : S * sin (l - a) = T * sin (b - l) := by
      rw [sin_sub, sin_sub]
      linear_combination (sin l) * ex - cos l * ey
    have r2 : S * cos (l - a) + T * cos (b - l) = C := by
      rw [cos_sub, cos_sub]
      have e3 := sin_sq_add_cos_sq l
      linear_combination cos l * ex + sin l * ey + C * e3
    have k1 : T * σ = C * sin (l - a) := by rw [hσe]; linear_combination (sin (l - a)) * r2 - cos (l - a) * r1
    have k2 : S * σ = C * sin (b - l) := by rw [hσe]; linear_combination (sin (b - l)) * r2 + cos (b - l) * r1
    have hσ0 : σ ≠ 0 := by
      intro h0
      have z1 : sin (l - a) = 0 := by
        have : C * sin (l - a) = 0 := by rw [← k1, h0]; ring
        rcases mul_eq_zero.mp this with h | h
        · exact absurd h hCp.ne'
        · exact h
      have z2 : sin (b - l) = 0 := by
        have : C * sin (b - l) = 0 := by rw [← k2, h0]; ring
        rcases mul_eq_zero.mp this with h | h
        · exact absurd h hCp.ne'
        · exact h
      have c1 := sin_eq_zero_cos (x := l - a) (by linarith [hu.lon1]) (by linarith [hu.lon0]) z1 (sub_ne_zero.mpr hlu)
      have c2 := sin_eq_zero_cos (x := b - l) (by linarith [hw.lon0]) (by linarith [hw.lon1]) z2
        (sub_ne_zero.mpr (Ne.symm hlw))
      rw [c1, c2] at r2
      linarith
    have hσ2 : 0 < σ ^ 2 := by positivity
    constructor
    · have : C * (sin (l - a) * σ) = T * σ ^ 2 := by linear_combination (-σ) * k1
      have h3 : 0 < C * (sin (l - a) * σ) := by rw [this]; positivity
      exact (mul_pos_iff_of_pos_left hCp).mp h3
    · have : C * (sin (b - l) * σ) = S * σ ^ 2 := by linear_combination (-σ) * k2
      have h3 : 0 < C * (sin (b - l) * σ) := by rw [this]; positivity
      exact (mul_pos_iff_of_pos_left hCp).mp h3

/-- a plane through the origin whose normal `N` points north (`N.z > 0`), the point `(l, β)` of that plane, and a
    point `(l, φ)` of the same meridian: `(l, φ) · N > 0` iff the plane passes strictly south of the point -/
theorem plane_crossing (N : ℝ × ℝ × ℝ) (hN : 0 < N.2.2) (l β φ : ℝ) (hβ1 : -(π / 2) < β) (hβ2 : β < π / 2)
    (hφ1 : -(π / 2) ≤ φ) (hφ2 : φ ≤ π / 2)
    (hq : cos β * cos l * N.1 + cos β * sin l * N.2.1 + sin β * N.2.2 = 0) :
    0 < cos φ * cos l * N.1 + cos φ * sin l * N.2.1 + sin φ * N.2.2 ↔ β < φ := by
  have hcβ : 0 < cos β := cos_pos_of_mem_Ioo ⟨hβ1, hβ2⟩
  have hpi := pi_pos
  have key : cos β * (cos φ * cos l * N.1 + cos φ * sin l * N.2.1 + sin φ * N.2.2) = N.2.2 * sin (φ - β) := by
    rw [sin_sub]; linear_combination cos φ * hq
  have P := sin_pos_iff_of_abs_lt (φ - β) (by linarith) (by linarith)
  constructor
  · intro h
    have : 0 < N.2.2 * sin (φ - β) := by rw [← key]; positivity
    have h2 : 0 < sin (φ - β) := (mul_pos_iff_of_pos_left hN).mp this
    rcases P.mp h2 with ⟨g, _⟩ | g <;> linarith
  · intro h
    have h2 : 0 < sin (φ - β) := P.mpr (Or.inl ⟨by linarith, by linarith⟩)
    have : 0 < cos β * (cos φ * cos l * N.1 + cos φ * sin l * N.2.1 + sin φ * N.2.2) := by rw [key]; positivity
    exact (mul_pos_iff_of_pos_left hcβ).mp this

theorem npCross_z_nonneg (u w : Coo ℝ) : 0 ≤ (npCross u w).2.2 := by
  unfold npCross; split
  · simp only; linarith
  · linarith

/-- the arc point is in the plane of the edge -/
theorem arcMeets_dot {u w : Coo ℝ} {l β : ℝ} (h : ArcMeets u w l β) :
    cos β * cos l * (npCross u w).1 + cos β * sin l * (npCross u w).2.1 + sin β * (npCross u w).2.2 = 0 := by
  obtain ⟨s, t, ρ, _, _, hρ, ex, ey, ez⟩ := h
  have : ρ * (cos β * cos l * (npCross u w).1 + cos β * sin l * (npCross u w).2.1 + sin β * (npCross u w).2.2) = 0 := by
    unfold npCross; split
    · simp only [cross] at *
      linear_combination (u.y * w.z - u.z * w.y) * ex + (u.z * w.x - u.x * w.z) * ey + (u.x * w.y - u.y * w.x) * ez
    · simp only [cross] at *
      linear_combination (-(u.y * w.z - u.z * w.y)) * ex - (u.z * w.x - u.x * w.z) * ey - (u.x * w.y - u.y * w.x) * ez
  rcases mul_eq_zero.mp this with h | h
  · exact absurd h hρ.ne'
  · exact h

/-- **the test made on one edge by `odd_num_intersect_going_south`, geometrically.**  For an edge `u → w` between two
    points that are not poles, and a point `p` whose meridian passes through neither end point: the longitude-range test
    and the sign test `p · N > 0` on the north-pointing normal `N = ±(u × w)` are both true iff the great-circle arc `u w`
    (the shorter one) crosses the meridian of `p` at a point strictly SOUTH of `p`.  The only edges excluded are those
    whose end points are on opposite meridians (`|Δlon| = π`: the arc passes over a pole); an edge along a meridian is
    included (both sides false).  The orientation rule: the sign of `p · (u × w)` is flipped exactly when the edge goes
    westwards (`(u × w).z < 0`, i.e. `sin Δlon < 0`). -/
theorem crossing_test_geometric {u w p : Coo ℝ} (hu : u.Valid) (hw : w.Valid) (hp : p.Valid) (hun : u.NonPole)
    (hwn : w.NonPole) (hopp : |w.lon - u.lon| ≠ π) (hlu : p.lon ≠ u.lon) (hlw : p.lon ≠ w.lon) :
    (isInLonRange p u w && Num.gt (dot p (npCross u w)) (Num.zero : ℝ)) = true ↔ CrossesSouth u w p := by
  have hpi := pi_pos
  rw [Bool.and_eq_true, is_in_lon_range_spec, r_gt, r_zero, decide_eq_true_iff]
  have hdot : dot p (npCross u w) = cos p.lat * cos p.lon * (npCross u w).1 + cos p.lat * sin p.lon * (npCross u w).2.1 +
      sin p.lat * (npCross u w).2.2 := by
    unfold dot; rw [hp.hx, hp.hy, hp.hz]
  have hmeet := lonRange_iff_arcMeets hu hw hun hwn p.lon hp.lon0 hp.lon1 hlu hlw
  have hzpos : sin (w.lon - u.lon) ≠ 0 → 0 < (npCross u w).2.2 := by
    intro h
    have hz := cross_z_eq hu hw
    have : (cross u w).2.2 ≠ 0 := by
      rw [hz]; exact mul_ne_zero (mul_ne_zero hun.cos_pos.ne' hwn.cos_pos.ne') h
    unfold npCross; split
    · simp only; linarith
    · rename_i h2; exact lt_of_le_of_ne (not_lt.mp h2) (Ne.symm this)
  constructor
  · rintro ⟨hR, hd⟩
    have hs : sin (w.lon - u.lon) ≠ 0 := by
      intro h0
      by_cases hab : w.lon - u.lon = 0
      · have : w.lon = u.lon := by linarith
        rw [this] at hR; exact lonRange_self _ _ hR
      · have hc := sin_eq_zero_cos (x := w.lon - u.lon) (by linarith [hu.lon1, hw.lon0]) (by linarith [hu.lon0, hw.lon1]) h0 hab
        have P := sin_pos_iff_of_abs_lt (w.lon - u.lon) (by linarith [hu.lon1, hw.lon0]) (by linarith [hu.lon0, hw.lon1])
        have N := sin_neg_iff_of_abs_lt (w.lon - u.lon) (by linarith [hu.lon1, hw.lon0]) (by linarith [hu.lon0, hw.lon1])
        apply hopp
        rcases lt_trichotomy (w.lon - u.lon) 0 with g | g | g
        · rw [abs_of_neg g]
          rcases lt_trichotomy (w.lon - u.lon) (-π) with g2 | g2 | g2
          · have := P.mpr (Or.inr g2); linarith
          · linarith
          · have := N.mpr (Or.inl ⟨g2, g⟩); linarith
        · exact absurd g hab
        · rw [abs_of_pos g]
          rcases lt_trichotomy (w.lon - u.lon) π with g2 | g2 | g2
          · have := P.mpr (Or.inl ⟨g, g2⟩); linarith
          · exact g2
          · have := N.mpr (Or.inr g2); linarith
    obtain ⟨β, hβ1, hβ2, hm⟩ := hmeet.mp ⟨hR, hs⟩
    refine ⟨β, hβ1, hβ2, hm, ?_⟩
    rw [hdot] at hd
    exact (plane_crossing _ (hzpos hs) p.lon β p.lat hβ1 hβ2 hp.lat0 hp.lat1 (arcMeets_dot hm)).mp hd
  · rintro ⟨β, hβ1, hβ2, hm, hlt⟩
    obtain ⟨hR, hs⟩ := hmeet.mpr ⟨β, hβ1, hβ2, hm⟩
    refine ⟨hR, ?_⟩
    rw [hdot]
    exact (plane_crossing _ (hzpos hs) p.lon β p.lat hβ1 hβ2 hp.lat0 hp.lat1 (arcMeets_dot hm)).mpr hlt

end Hpx.Sph
