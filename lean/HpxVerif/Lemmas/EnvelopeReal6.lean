import HpxVerif.Lemmas.EnvelopeReal5
import HpxVerif.Lemmas.EnvelopeReal3
import HpxVerif.Lemmas.ProjReal4

/-!
# C16 — the limit of the equatorial envelope: cells centred ON the transition latitude (part 6)

`envelope_dominates_eqr` / `c2v_dominates_in_cell` cover the cells whose four vertices are in the equatorial region.
The cells of the transition ring (centre ordinate `±1`, centre latitude `= tl`, north vertex in the polar cap) are handled
by the polar-cap branch when the function is evaluated AT THEIR CENTRE (`tl ≤ |lat|`).  But the southern half of such a
cell lies below the transition latitude: for a position there the function uses the equatorial line, whose value tends to
`dMax2` at `tl`, and `dMax2` (= distance centre → SOUTH vertex of that cell) is strictly smaller than the distance
centre → NORTH vertex:

* `npc_gt_dMax2`: `dMax2 δ < capLat (1 + δ) − tl` for every `0 < δ ≤ 1`
  (`81·(sin² gap) = (t − 1)²·(9t² + 14t + 1)`, `t = 1 − δ`);
* `c2v_near_tl`: just below `tl` the value of `largest_center_to_vertex_distance` is below any `G > dMax2`;
* `adist_ge_lat_diff`: an angular distance is at least the latitude difference;
* **`c2v_below_true_on_transition_ring`** (every depth `1 … 29`, every cell of the north transition ring): for the
  positions of the cell on the meridian of its centre, close enough below the transition latitude, the value returned by
  `largest_center_to_vertex_distance(d, lon, lat)` is STRICTLY SMALLER than the distance from the centre of that cell
  (`center`) to its north vertex (`vertex … 2`).
  Float model, depth 1, cell 2: value `0.3925` at the position, true distance centre → N vertex `0.4815` (−18 %);
  depth 6, cell 1365: `0.013891` against `0.016653` (−17 %).

So the sentence "an upper limit on the distance between a cell center around the given position and its furthest vertex"
holds when the position is the cell centre (parts 2, 3) or lies in a cell whose vertices are in the equatorial region
(part 5), not for every position.
-/

namespace Hpx.EnvelopeReal
open Hpx Hpx.Hash Hpx.C2V Hpx.C2VReal Hpx.Proj Hpx.Cover Hpx.CellReal Real

/-! ## the distance to the north vertex of a transition-ring cell exceeds `dMax2` -/

theorem sin_capLat (y : ℝ) (hy1 : 1 < y) (hy2 : y ≤ 2) : sin (capLat y) = 1 - (2 - y) ^ 2 / 3 := by
  rw [sin_of_sig, (capLat_props y hy1 hy2).2.2.2]

/-- **`dMax2 δ < capLat(1 + δ) − tl`**: on the meridian of the centre of a transition-ring cell the north vertex is
    strictly farther than the south vertex -/
theorem npc_gt_dMax2 (δ : ℝ) (h0 : 0 < δ) (h1 : δ ≤ 1) : dMax2 δ < capLat (1 + δ) - tl := by
  have hpi := Real.pi_gt_three
  obtain ⟨_, hN0, hN1, _⟩ := capLat_props (1 + δ) (by linarith) (by linarith)
  have hsN : sin (capLat (1 + δ)) = 1 - (1 - δ) ^ 2 / 3 := by
    rw [sin_capLat _ (by linarith) (by linarith)]; ring
  unfold dMax2
  set t := 1 - δ with ht
  set a := tl with ha
  set b := Real.arcsin (t * (2 / 3)) with hb
  have ht0 : 0 ≤ t := by linarith
  have ht1 : t < 1 := by linarith
  have ha1 : a ≤ 74 / 100 := tl_le
  have ha0 : 0 < a := tl_pos
  have hb0 : 0 ≤ b := Real.arcsin_nonneg.mpr (by positivity)
  have hba : b ≤ a := Real.arcsin_le_arcsin (by nlinarith)
  have hsa : sin a = 2 / 3 := Real.sin_arcsin (by norm_num) (by norm_num)
  have hsb : sin b = t * (2 / 3) := Real.sin_arcsin (by nlinarith) (by nlinarith)
  have hca0 : 0 ≤ cos a := Real.cos_nonneg_of_neg_pi_div_two_le_of_le (by linarith) (by linarith)
  have hcb0 : 0 ≤ cos b := Real.cos_nonneg_of_neg_pi_div_two_le_of_le (by linarith) (by linarith)
  have hca2 : cos a ^ 2 = 5 / 9 := by rw [Real.cos_sq', hsa]; norm_num
  have hcb2 : cos b ^ 2 = 1 - 4 * t ^ 2 / 9 := by rw [Real.cos_sq', hsb]; ring
  -- `sin(2a − b)`
  have hsθ : sin (2 * a - b) = 4 / 3 * (cos a * cos b) - 2 * t / 27 := by
    rw [Real.sin_sub, Real.sin_two_mul, Real.cos_two_mul_eq_one_sub, hsa, hsb]; ring
  set L := 1 - t ^ 2 / 3 + 2 * t / 27 with hL
  have hLpos : 0 < L := by rw [hL]; nlinarith
  have hpoly : L ^ 2 - 80 / 81 * (1 - 4 * t ^ 2 / 9) = (t - 1) ^ 2 * (9 * t ^ 2 + 14 * t + 1) / 81 := by
    rw [hL]; ring
  have hgap : 0 < (t - 1) ^ 2 * (9 * t ^ 2 + 14 * t + 1) / 81 := by
    have : 0 < (t - 1) ^ 2 := by
      have : t - 1 ≠ 0 := by linarith
      positivity
    positivity
  have hsq : (4 / 3 * (cos a * cos b)) ^ 2 < L ^ 2 := by
    have : (4 / 3 * (cos a * cos b)) ^ 2 = 80 / 81 * (1 - 4 * t ^ 2 / 9) := by
      rw [mul_pow, mul_pow, hca2, hcb2]; ring
    rw [this]; linarith
  have hlt : 4 / 3 * (cos a * cos b) < L := lt_of_pow_lt_pow_left₀ 2 hLpos.le hsq
  have hsin : sin (2 * a - b) < sin (capLat (1 + δ)) := by
    rw [hsθ, hsN]; rw [hL] at hlt; linarith
  have hθ : 2 * a - b < capLat (1 + δ) := by
    rwa [Real.strictMonoOn_sin.lt_iff_lt ⟨by linarith, by linarith⟩ ⟨by linarith, hN1⟩] at hsin
  linarith

/-! ## just below `tl` the function is as close to `dMax2` as wanted -/

theorem dMax2_lt_dMin2 (δ : ℝ) (h0 : 0 < δ) (h1 : δ ≤ 1) : dMax2 δ < dMin2 δ := by
  have := dMax2_lt δ h0 h1
  have := dMin2_gt δ h0
  linarith

theorem c2v_near_tl (d : Nat) (G : ℝ) (hG : dMax2 (1 / 2 ^ d) < G) :
    ∃ lat0, lsc ≤ lat0 ∧ lat0 < tl ∧ ∀ lon lat, lat0 < lat → lat < tl → c2v (Csts.new d) lon lat < G := by
  obtain ⟨hδ0, hδ1⟩ := distCw_range d
  have hD := dMax2_lt_dMin2 _ hδ0 hδ1
  have h4 := lsc_pos
  have h5 := lsc_lt_tl
  set D := dMin2 (1 / 2 ^ d) - dMax2 (1 / 2 ^ d) with hDdef
  have hDpos : 0 < D := by linarith
  set ρ := min 1 ((G - dMax2 (1 / 2 ^ d)) / (2 * D)) with hρ
  have hρ0 : 0 < ρ := lt_min one_pos (div_pos (by linarith) (by linarith))
  have hρ1 : ρ ≤ 1 := min_le_left _ _
  have hρ2 : ρ * (2 * D) ≤ G - dMax2 (1 / 2 ^ d) := by
    have : ρ ≤ (G - dMax2 (1 / 2 ^ d)) / (2 * D) := min_le_right _ _
    rwa [le_div_iff₀ (by linarith)] at this
  refine ⟨tl - ρ * (tl - lsc), by nlinarith, by nlinarith, ?_⟩
  intro lon lat hl1 hl2
  have hlsc : lsc ≤ lat := by nlinarith
  have hlat0 : 0 ≤ lat := by linarith
  unfold c2v
  rw [abs_of_nonneg hlat0, if_neg (not_le.mpr hl2), if_pos hlsc, new_topEnv_bary]
  have hr : (tl - lat) / (tl - lsc) < ρ := by
    rw [div_lt_iff₀ (by linarith)]; linarith
  have hr0 : 0 ≤ (tl - lat) / (tl - lsc) := div_nonneg (by linarith) (by linarith)
  have : D * ((tl - lat) / (tl - lsc)) < D * ρ := mul_lt_mul_of_pos_left hr hDpos
  nlinarith

/-! ## an angular distance is at least the latitude difference -/

theorem adist_ge_lat_diff (l1 l2 a b : ℝ) (ha : |a| ≤ π / 2) (hb : |b| ≤ π / 2) : |a - b| ≤ adist (l1, a) (l2, b) := by
  have hpi := Real.pi_pos
  obtain ⟨a1, a2⟩ := abs_le.mp ha
  obtain ⟨b1, b2⟩ := abs_le.mp hb
  have hca : 0 ≤ cos a := Real.cos_nonneg_of_neg_pi_div_two_le_of_le a1 a2
  have hcb : 0 ≤ cos b := Real.cos_nonneg_of_neg_pi_div_two_le_of_le b1 b2
  have hcos : cos (adist (l1, a) (l2, b)) ≤ cos |a - b| := by
    rw [cos_adist]
    simp only
    have hcab : cos |a - b| = cos a * cos b + sin a * sin b := by rw [cos_abs, cos_sub]
    rw [hcab]
    have := Real.cos_le_one (l1 - l2)
    have := mul_nonneg hca hcb
    nlinarith
  by_contra hcon
  rw [not_le] at hcon
  have := Real.cos_lt_cos_of_nonneg_of_le_pi (adist_nonneg _ _) (by rw [abs_le]; constructor <;> linarith) hcon
  linarith

/-! ## the cells of the north transition ring -/

/-- `unproj` of a point of the north polar cap (`0 ≤ x < 8`, `1 < y ≤ 2`): the latitude is `capLat y` -/
theorem unproj_cap_lat (x y : ℝ) (hx0 : 0 ≤ x) (hx8 : x < 8) (hy1 : 1 < y) (hy2 : y ≤ 2) :
    ∃ p : ℝ × ℝ, unproj (α := ℝ) x y = some p ∧ p.2 = capLat y := by
  obtain ⟨k, hk, h1, h2⟩ := facet_exists x hx0 4 (by norm_num; linarith)
  have := unproj_pos x y k (by omega) h1 h2 (by linarith) hy2
  rw [if_neg (not_le.mpr hy1)] at this
  exact ⟨_, this, rfl⟩

/-- **`c2v_below_true_on_transition_ring`** (ℝ, release profile, every depth `1 … 29`, every valid cell `(b, i, j)` whose
    centre ordinate is `1`, i.e. whose centre is on the north transition latitude).  `center` returns a position `c` of
    latitude `tl`, `vertex … 2` the north vertex `n`, and there is an ordinate `y0 < 1` such that for every `yp ∈ (y0, 1)`
    the plane point `(x_c, yp)` — which is inside the cell: same abscissa as the centre, `|yp − 1| < 1/n` — un-projects to a
    position `p` of latitude `< tl` where `largest_center_to_vertex_distance(d, p)` is strictly smaller than the angular
    distance from `c` to `n`. -/
theorem c2v_below_true_on_transition_ring (cfg : Cfg) (d hash b i j : ℕ) (hd1 : 1 ≤ d) (hd2 : d ≤ 29)
    (hh : hash < Layer.nHash d) (hdec : Layer.decodeHash cfg d hash = some ⟨b, i, j⟩) (hb : b < 12) (hi : i < 2 ^ d)
    (hj : j < 2 ^ d) (hring : cellCy d b i j = 1) :
    ∃ (c n : ℝ × ℝ) (y0 : ℝ), center (α := ℝ) cfg d hash = some c ∧ vertex (α := ℝ) cfg d hash 2 = some n ∧
      c.2 = tl ∧ y0 < 1 ∧
      ∀ yp, y0 < yp → yp < 1 →
        |yp - cellCy d b i j| < 1 / 2 ^ d ∧
        ∃ (p : ℝ × ℝ) (v : ℝ), unproj (α := ℝ) (norm8 (cellCx d b i j)) yp = some p ∧ |p.2| < tl ∧
          largestC2V false d p.1 p.2 = some v ∧ v < adist c n := by
  have hpi := Real.pi_pos
  obtain ⟨n0, n8⟩ := norm8_center_range d b i j hb hi hj
  obtain ⟨hδ0, hδ1⟩ := distCw_range d
  set X := norm8 (cellCx d b i j) with hX
  set δ : ℝ := 1 / 2 ^ d with hδ
  -- the centre
  have hc2 : (1 : ℝ) * (2 / 3) = 2 / 3 := one_mul _
  have uc := unproj_band X 1 n0 (by linarith) (by norm_num)
  rw [hc2] at uc
  have ec : center (α := ℝ) cfg d hash = some ((if X < 8 then X else X - 8) * (π / 4), Real.arcsin (2 / 3)) := by
    rw [center_plane cfg d hash b i j hh hdec hb hi hj, hring, ← uc]
    exact (unproj_eq X 1 (by norm_num) (by norm_num)).symm
  -- the north vertex
  obtain ⟨pn, un, hpn⟩ := unproj_cap_lat X (1 + δ) n0 (by linarith) (by linarith) (by linarith)
  have en : vertex (α := ℝ) cfg d hash 2 = some pn := by
    rw [vertex_plane cfg d hash b i j 2 hh hdec hb hi hj (by decide), ← un]
    simp only [vtx, hring]
    exact (unproj_eq X (1 + δ) (by linarith) (by linarith)).symm
  obtain ⟨hreg, hN0, hN1, _⟩ := capLat_props (1 + δ) (by linarith) (by linarith)
  have htl_lt : tl < capLat (1 + δ) := not_le.mp hreg
  -- the gap
  have hgap := npc_gt_dMax2 δ hδ0 hδ1
  -- the function just below `tl`
  have hdist : capLat (1 + δ) - tl ≤
      adist ((if X < 8 then X else X - 8) * (π / 4), Real.arcsin (2 / 3)) pn := by
    have h := adist_ge_lat_diff ((if X < 8 then X else X - 8) * (π / 4)) pn.1 (Real.arcsin (2 / 3)) pn.2
      (abs_le.mpr ⟨Real.neg_pi_div_two_le_arcsin _, Real.arcsin_le_pi_div_two _⟩)
      (by rw [hpn]; exact abs_le.mpr ⟨by linarith, hN1⟩)
    have e : |Real.arcsin (2 / 3) - pn.2| = capLat (1 + δ) - tl := by
      rw [hpn, abs_sub_comm]; exact abs_of_pos (by linarith)
    rw [e] at h
    exact h
  have hlsc := lsc_pos
  have hlt := lsc_lt_tl
  have htl2 := tl_le_pi3
  obtain ⟨lat0, hl0, hl1, hnear⟩ := c2v_near_tl d (capLat (1 + δ) - tl) hgap
  have hs0 : sin lat0 < 2 / 3 := by
    have := Real.strictMonoOn_sin (a := lat0) (b := tl) ⟨by linarith, by linarith⟩ ⟨by linarith, by linarith⟩ hl1
    rwa [show sin tl = 2 / 3 from Real.sin_arcsin (by norm_num) (by norm_num)] at this
  -- ordinate threshold
  refine ⟨_, pn, max (1 - δ) (3 / 2 * sin lat0), ec, en, rfl, max_lt (by linarith) (by linarith), ?_⟩
  intro yp hy0 hy1
  have hyδ : 1 - δ < yp := lt_of_le_of_lt (le_max_left _ _) hy0
  have hys : 3 / 2 * sin lat0 < yp := lt_of_le_of_lt (le_max_right _ _) hy0
  have hyp0 : 0 ≤ yp := by linarith
  refine ⟨by rw [hring, abs_lt]; constructor <;> linarith, ?_⟩
  have up := unproj_band X yp n0 (by linarith) (abs_le.mpr ⟨by linarith, hy1.le⟩)
  have hplat : lat0 < Real.arcsin (yp * (2 / 3)) := by
    rw [Real.lt_arcsin_iff_sin_lt ⟨by linarith, by linarith⟩ ⟨by nlinarith, by nlinarith⟩]; linarith
  have hptl : Real.arcsin (yp * (2 / 3)) < tl := latOf_lt_tl yp hyp0 hy1
  refine ⟨_, c2v (Csts.new d) ((if X < 8 then X else X - 8) * (π / 4)) (Real.arcsin (yp * (2 / 3))), up, ?_, ?_, ?_⟩
  · show |Real.arcsin (yp * (2 / 3))| < tl
    rw [abs_of_nonneg (by linarith)]; exact hptl
  · rw [c2v_region_choice, if_neg (by omega), if_neg (by omega)]
  · exact lt_of_lt_of_le (hnear _ _ hplat hptl) hdist

/-! ## example: such cells exist -/

/-- depth 1, cell 2 = base cell 0, `(i, j) = (0, 1)`: plane centre `(1/2, 1)` -/
example : ∃ (c n : ℝ × ℝ) (y0 : ℝ), center (α := ℝ) {} 1 2 = some c ∧ vertex (α := ℝ) {} 1 2 2 = some n ∧
      c.2 = tl ∧ y0 < 1 ∧
      ∀ yp, y0 < yp → yp < 1 →
        |yp - cellCy 1 0 0 1| < 1 / 2 ^ 1 ∧
        ∃ (p : ℝ × ℝ) (v : ℝ), unproj (α := ℝ) (norm8 (cellCx 1 0 0 1)) yp = some p ∧ |p.2| < tl ∧
          largestC2V false 1 p.1 p.2 = some v ∧ v < adist c n :=
  c2v_below_true_on_transition_ring {} 1 2 0 0 1 (by decide) (by decide) (by decide) (by decide +kernel) (by decide)
    (by decide) (by decide) (by unfold cellCy baseY; norm_num)

end Hpx.EnvelopeReal

#print axioms Hpx.EnvelopeReal.npc_gt_dMax2
#print axioms Hpx.EnvelopeReal.c2v_near_tl
#print axioms Hpx.EnvelopeReal.adist_ge_lat_diff
#print axioms Hpx.EnvelopeReal.c2v_below_true_on_transition_ring
