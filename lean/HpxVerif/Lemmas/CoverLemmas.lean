import HpxVerif.Model.Cover
import HpxVerif.Lemmas.BmocSem
import Mathlib.Tactic.Ring
import Mathlib.Tactic.Linarith

/-!
Structure of the generic coverage descent: **for every classifier** (whatever the floating-point tests answer) the
output of `coverRec` is a well-formed cell list lying inside the root cell, with depths between the root's and the
target's.
-/

namespace Hpx.Cover
open Hpx.Bmoc

theorem WF_append {D : Nat} {a b : List Cell} (ha : WF D a) (hb : WF D b)
    (hab : ∀ x ∈ a, ∀ y ∈ b, hi D x ≤ lo D y) : WF D (a ++ b) := by
  induction a with
  | nil => simpa using hb
  | cons c l ih =>
    simp only [List.cons_append]
    refine ⟨ha.1, ?_, ih ha.tail (fun x hx y hy => hab x (by simp [hx]) y hy)⟩
    intro c' hc'
    rcases List.mem_append.1 hc' with h | h
    · exact ha.2.1 c' h
    · exact hab c (by simp) c' h

theorem shl2_or (h k : Nat) (hk : k < 4) : (h <<< 2) ||| k = 4 * h + k := by
  have := Nat.shiftLeft_add_eq_or_of_lt (i := 2) (b := k) (by omega) h
  rw [← this, Nat.shiftLeft_eq]; omega

/-- a child cell lies inside its parent; the four children tile the parent in z-order -/
theorem child_bounds (D d h k : Nat) (f g : Bool) (hd : d + 1 ≤ D) (hk : k < 4) :
    lo D ⟨d, h, f⟩ ≤ lo D ⟨d + 1, 4 * h + k, g⟩ ∧ hi D ⟨d + 1, 4 * h + k, g⟩ ≤ hi D ⟨d, h, f⟩ ∧
    hi D ⟨d + 1, 4 * h + k, g⟩ = (4 * h + k + 1) * 4 ^ (D - (d + 1)) ∧ lo D ⟨d + 1, 4 * h + k, g⟩ = (4 * h + k) * 4 ^ (D - (d + 1)) := by
  unfold lo hi
  show h * 4 ^ (D - d) ≤ (4 * h + k) * 4 ^ (D - (d + 1)) ∧ (4 * h + k + 1) * 4 ^ (D - (d + 1)) ≤ (h + 1) * 4 ^ (D - d) ∧
    (4 * h + k + 1) * 4 ^ (D - (d + 1)) = (4 * h + k + 1) * 4 ^ (D - (d + 1)) ∧
    (4 * h + k) * 4 ^ (D - (d + 1)) = (4 * h + k) * 4 ^ (D - (d + 1))
  have e : 4 ^ (D - d) = 4 * 4 ^ (D - (d + 1)) := by
    rw [show D - d = (D - (d + 1)) + 1 by omega, Nat.pow_succ]; ring
  rw [e]
  generalize 4 ^ (D - (d + 1)) = w
  refine ⟨?_, ?_, rfl, rfl⟩ <;> nlinarith

/-- everything produced below `(depth, hash)` -/
def Below (D target depth hash : Nat) (out : List Cell) : Prop :=
  WF D out ∧ ∀ c ∈ out, lo D ⟨depth, hash, true⟩ ≤ lo D c ∧ hi D c ≤ hi D ⟨depth, hash, true⟩ ∧
    depth ≤ c.depth ∧ c.depth ≤ target

/-- **structure of the descent, for every classifier** -/
theorem coverRec_below (target : Nat) (κ : Nat → Nat → Nat → Option Verdict) (D : Nat) (hD : target ≤ D) :
    ∀ (fuel depth hash level : Nat) (out : List Cell), depth ≤ target →
      coverRec target κ fuel depth hash level = some out → Below D target depth hash out := by
  intro fuel
  induction fuel with
  | zero => intro depth hash level out _ h; simp [coverRec] at h
  | succ fuel ih =>
    intro depth hash level out hdt h
    unfold coverRec at h
    cases hk : κ depth hash level with
    | none => simp [hk] at h
    | some v =>
      simp only [hk] at h
      cases v with
      | full =>
        cases h
        refine ⟨⟨by simp; omega, by simp, trivial⟩, ?_⟩
        intro c hc; simp at hc; subst hc
        exact ⟨Nat.le_refl _, Nat.le_refl _, Nat.le_refl _, hdt⟩
      | skip => cases h; exact ⟨trivial, by simp⟩
      | descend fl =>
        by_cases heq : depth = target
        · simp only [heq, beq_self_eq_true, if_true] at h
          cases h
          subst heq
          refine ⟨⟨by simp; omega, by simp, trivial⟩, ?_⟩
          intro c hc; simp at hc; subst hc
          exact ⟨Nat.le_refl _, Nat.le_refl _, Nat.le_refl _, Nat.le_refl _⟩
        · have hne : (depth == target) = false := by simp [heq]
          simp only [hne, Bool.false_eq_true, if_false] at h
          have hd1 : depth + 1 ≤ target := by omega
          -- the four recursive calls
          cases h0 : coverRec target κ fuel (depth + 1) (hash <<< 2) (level + 1) with
          | none => simp [h0] at h
          | some a =>
          cases h1 : coverRec target κ fuel (depth + 1) (hash <<< 2 ||| 1) (level + 1) with
          | none => simp [h0, h1] at h
          | some b =>
          cases h2 : coverRec target κ fuel (depth + 1) (hash <<< 2 ||| 2) (level + 1) with
          | none => simp [h0, h1, h2] at h
          | some c =>
          cases h3 : coverRec target κ fuel (depth + 1) (hash <<< 2 ||| 3) (level + 1) with
          | none => simp [h0, h1, h2, h3] at h
          | some d =>
          simp only [h0, h1, h2, h3] at h
          cases h
          have e0 : hash <<< 2 = 4 * hash + 0 := by rw [Nat.shiftLeft_eq]; omega
          have e1 := shl2_or hash 1 (by omega)
          have e2 := shl2_or hash 2 (by omega)
          have e3 := shl2_or hash 3 (by omega)
          rw [e0] at h0; rw [e1] at h1; rw [e2] at h2; rw [e3] at h3
          have A := ih _ _ _ _ hd1 h0
          have B := ih _ _ _ _ hd1 h1
          have C := ih _ _ _ _ hd1 h2
          have E := ih _ _ _ _ hd1 h3
          have hdD : depth + 1 ≤ D := by omega
          have cb0 := child_bounds D depth hash 0 true true hdD (by omega)
          have cb1 := child_bounds D depth hash 1 true true hdD (by omega)
          have cb2 := child_bounds D depth hash 2 true true hdD (by omega)
          have cb3 := child_bounds D depth hash 3 true true hdD (by omega)
          -- ordering between the children's outputs
          have ord : ∀ {k k' : Nat} {x y : List Cell}, k < k' → k' < 4 →
              Below D target (depth + 1) (4 * hash + k) x → Below D target (depth + 1) (4 * hash + k') y →
              ∀ u ∈ x, ∀ v ∈ y, hi D u ≤ lo D v := by
            intro k k' x y hkk hk4 hx hy u hu v hv
            have hu' := (hx.2 u hu).2.1
            have hv' := (hy.2 v hv).1
            have cbk := child_bounds D depth hash k true true hdD (by omega)
            have cbk' := child_bounds D depth hash k' true true hdD hk4
            rw [cbk.2.2.1] at hu'
            rw [cbk'.2.2.2] at hv'
            have : (4 * hash + k + 1) * 4 ^ (D - (depth + 1)) ≤ (4 * hash + k') * 4 ^ (D - (depth + 1)) :=
              Nat.mul_le_mul_right _ (by omega)
            omega
          have inside : ∀ {k : Nat} {x : List Cell}, k < 4 → Below D target (depth + 1) (4 * hash + k) x →
              ∀ u ∈ x, lo D ⟨depth, hash, true⟩ ≤ lo D u ∧ hi D u ≤ hi D ⟨depth, hash, true⟩ ∧ depth ≤ u.depth ∧ u.depth ≤ target := by
            intro k x hk hx u hu
            have := hx.2 u hu
            have cb := child_bounds D depth hash k true true hdD hk
            exact ⟨Nat.le_trans cb.1 this.1, Nat.le_trans this.2.1 cb.2.1, by omega, this.2.2.2⟩
          refine ⟨?_, ?_⟩
          · apply WF_append
            · apply WF_append
              · apply WF_append A.1 B.1 (ord (by omega) (by omega) A B)
              · exact C.1
              · intro u hu v hv
                rcases List.mem_append.1 hu with hu | hu
                · exact ord (k := 0) (k' := 2) (by omega) (by omega) A C u hu v hv
                · exact ord (k := 1) (k' := 2) (by omega) (by omega) B C u hu v hv
            · exact E.1
            · intro u hu v hv
              rcases List.mem_append.1 hu with hu | hu
              · rcases List.mem_append.1 hu with hu | hu
                · exact ord (k := 0) (k' := 3) (by omega) (by omega) A E u hu v hv
                · exact ord (k := 1) (k' := 3) (by omega) (by omega) B E u hu v hv
              · exact ord (k := 2) (k' := 3) (by omega) (by omega) C E u hu v hv
          · intro u hu
            rcases List.mem_append.1 hu with hu | hu
            · rcases List.mem_append.1 hu with hu | hu
              · rcases List.mem_append.1 hu with hu | hu
                · exact inside (k := 0) (by omega) A u hu
                · exact inside (k := 1) (by omega) B u hu
              · exact inside (k := 2) (by omega) C u hu
            · exact inside (k := 3) (by omega) E u hu

end Hpx.Cover

namespace Hpx.Cover
open Hpx.Bmoc

/-- **no miss, relative to the classifier**: `inCell d h q` = "the point `q` belongs to cell `(d, h)`", children cover
    their parent.  If the classifier never skips a cell containing a point of the region `R`, every point of `R` lying
    in the root cell lies in a cell of the output.  `I d l` is any relation between depth and recursion level that the
    descent preserves (e.g. `l = d − d_start`): the classifier needs to be sound only where it holds. -/
theorem coverRec_no_miss_inv {P : Type} (inCell : Nat → Nat → P → Prop) (R : P → Prop) (I : Nat → Nat → Prop)
    (target : Nat) (κ : Nat → Nat → Nat → Option Verdict)
    (hI : ∀ d l, I d l → I (d + 1) (l + 1))
    (hcover : ∀ d h q, d ≠ target → inCell d h q → inCell (d + 1) (h <<< 2) q ∨ inCell (d + 1) (h <<< 2 ||| 1) q ∨
      inCell (d + 1) (h <<< 2 ||| 2) q ∨ inCell (d + 1) (h <<< 2 ||| 3) q)
    (hskip : ∀ d h l, I d l → κ d h l = some .skip → ∀ q, inCell d h q → ¬ R q) :
    ∀ (fuel depth hash level : Nat) (out : List Cell), I depth level →
      coverRec target κ fuel depth hash level = some out →
      ∀ q, inCell depth hash q → R q → ∃ c ∈ out, inCell c.depth c.hash q := by
  intro fuel
  induction fuel with
  | zero => intro depth hash level out _ h; simp [coverRec] at h
  | succ fuel ih =>
    intro depth hash level out hinv h q hq hR
    unfold coverRec at h
    cases hk : κ depth hash level with
    | none => simp [hk] at h
    | some v =>
      simp only [hk] at h
      cases v with
      | full => cases h; exact ⟨⟨depth, hash, true⟩, by simp, hq⟩
      | skip => exact absurd hR (hskip _ _ _ hinv hk q hq)
      | descend fl =>
        by_cases heq : (depth == target) = true
        · simp only [heq, if_true] at h; cases h; exact ⟨⟨depth, hash, fl⟩, by simp, hq⟩
        · simp only [heq, Bool.false_eq_true, if_false] at h
          cases h0 : coverRec target κ fuel (depth + 1) (hash <<< 2) (level + 1) with
          | none => simp [h0] at h
          | some a =>
          cases h1 : coverRec target κ fuel (depth + 1) (hash <<< 2 ||| 1) (level + 1) with
          | none => simp [h0, h1] at h
          | some b =>
          cases h2 : coverRec target κ fuel (depth + 1) (hash <<< 2 ||| 2) (level + 1) with
          | none => simp [h0, h1, h2] at h
          | some c =>
          cases h3 : coverRec target κ fuel (depth + 1) (hash <<< 2 ||| 3) (level + 1) with
          | none => simp [h0, h1, h2, h3] at h
          | some d =>
          simp only [h0, h1, h2, h3] at h
          cases h
          have hinv' := hI _ _ hinv
          rcases hcover depth hash q (by simpa using heq) hq with hc | hc | hc | hc
          · obtain ⟨x, hx, hin⟩ := ih _ _ _ _ hinv' h0 q hc hR; exact ⟨x, by simp [hx], hin⟩
          · obtain ⟨x, hx, hin⟩ := ih _ _ _ _ hinv' h1 q hc hR; exact ⟨x, by simp [hx], hin⟩
          · obtain ⟨x, hx, hin⟩ := ih _ _ _ _ hinv' h2 q hc hR; exact ⟨x, by simp [hx], hin⟩
          · obtain ⟨x, hx, hin⟩ := ih _ _ _ _ hinv' h3 q hc hR; exact ⟨x, by simp [hx], hin⟩

theorem coverRec_no_miss {P : Type} (inCell : Nat → Nat → P → Prop) (R : P → Prop)
    (target : Nat) (κ : Nat → Nat → Nat → Option Verdict)
    (hcover : ∀ d h q, d ≠ target → inCell d h q → inCell (d + 1) (h <<< 2) q ∨ inCell (d + 1) (h <<< 2 ||| 1) q ∨
      inCell (d + 1) (h <<< 2 ||| 2) q ∨ inCell (d + 1) (h <<< 2 ||| 3) q)
    (hskip : ∀ d h l, κ d h l = some .skip → ∀ q, inCell d h q → ¬ R q) :
    ∀ (fuel depth hash level : Nat) (out : List Cell),
      coverRec target κ fuel depth hash level = some out →
      ∀ q, inCell depth hash q → R q → ∃ c ∈ out, inCell c.depth c.hash q := by
  intro fuel depth hash level out h
  exact coverRec_no_miss_inv inCell R (fun _ _ => True) target κ (fun _ _ _ => trivial) hcover
    (fun d hh l _ => hskip d hh l) fuel depth hash level out trivial h

/-- **flags, relative to the classifier**: a cell of the output flagged full was classified `full` -/
theorem coverRec_full_rule_inv (I : Nat → Nat → Prop) (target : Nat) (κ : Nat → Nat → Nat → Option Verdict)
    (hI : ∀ d l, I d l → I (d + 1) (l + 1)) :
    ∀ (fuel depth hash level : Nat) (out : List Cell), I depth level →
      coverRec target κ fuel depth hash level = some out →
      ∀ c ∈ out, c.full = true → ∃ l, I c.depth l ∧ (κ c.depth c.hash l = some .full ∨
        (c.depth = target ∧ κ c.depth c.hash l = some (.descend true))) := by
  intro fuel
  induction fuel with
  | zero => intro depth hash level out _ h; simp [coverRec] at h
  | succ fuel ih =>
    intro depth hash level out hinv h c hc hf
    unfold coverRec at h
    cases hk : κ depth hash level with
    | none => simp [hk] at h
    | some v =>
      simp only [hk] at h
      cases v with
      | full => cases h; simp at hc; subst hc; exact ⟨level, hinv, Or.inl hk⟩
      | skip => cases h; simp at hc
      | descend fl =>
        by_cases heq : (depth == target) = true
        · simp only [heq, if_true] at h; cases h; simp at hc; subst hc
          simp only [] at hf; subst hf
          exact ⟨level, hinv, Or.inr ⟨by simpa using heq, hk⟩⟩
        · simp only [heq, Bool.false_eq_true, if_false] at h
          cases h0 : coverRec target κ fuel (depth + 1) (hash <<< 2) (level + 1) with
          | none => simp [h0] at h
          | some a =>
          cases h1 : coverRec target κ fuel (depth + 1) (hash <<< 2 ||| 1) (level + 1) with
          | none => simp [h0, h1] at h
          | some b =>
          cases h2 : coverRec target κ fuel (depth + 1) (hash <<< 2 ||| 2) (level + 1) with
          | none => simp [h0, h1, h2] at h
          | some e =>
          cases h3 : coverRec target κ fuel (depth + 1) (hash <<< 2 ||| 3) (level + 1) with
          | none => simp [h0, h1, h2, h3] at h
          | some d =>
          simp only [h0, h1, h2, h3] at h
          cases h
          simp only [List.mem_append] at hc
          rcases hc with ((hc | hc) | hc) | hc
          · exact ih _ _ _ _ (hI _ _ hinv) h0 c hc hf
          · exact ih _ _ _ _ (hI _ _ hinv) h1 c hc hf
          · exact ih _ _ _ _ (hI _ _ hinv) h2 c hc hf
          · exact ih _ _ _ _ (hI _ _ hinv) h3 c hc hf

theorem coverRec_full_rule (target : Nat) (κ : Nat → Nat → Nat → Option Verdict) :
    ∀ (fuel depth hash level : Nat) (out : List Cell),
      coverRec target κ fuel depth hash level = some out →
      ∀ c ∈ out, c.full = true → ∃ l, κ c.depth c.hash l = some .full ∨
        (c.depth = target ∧ κ c.depth c.hash l = some (.descend true)) := by
  intro fuel depth hash level out h c hc hf
  obtain ⟨l, _, hl⟩ := coverRec_full_rule_inv (fun _ _ => True) target κ (fun _ _ _ => trivial) fuel depth hash level out
    trivial h c hc hf
  exact ⟨l, hl⟩

end Hpx.Cover

namespace Hpx.Cover
open Hpx.Bmoc

/-- **the loop over the root cells, for every classifier**: with strictly increasing roots of depth `ds`, the
    concatenation of the per-root outputs is well formed, consists exactly of the per-root outputs, and every root's
    descent succeeded. -/
theorem rootsFold (target : Nat) (κ : Nat → Nat → Nat → Option Verdict) (D : Nat) (hD : target ≤ D)
    (fuel ds : Nat) (hds : ds ≤ target) :
    ∀ (roots : List Nat) (init out : List Cell),
      roots.Pairwise (· < ·) → WF D init → (∀ c ∈ init, ∀ h ∈ roots, hi D c ≤ lo D ⟨ds, h, true⟩) →
      roots.foldlM (fun acc h => (coverRec target κ fuel ds h 0).map (acc ++ ·)) init = some out →
      WF D out ∧
      (∀ c ∈ out, c ∈ init ∨ ∃ h ∈ roots, ∃ o, coverRec target κ fuel ds h 0 = some o ∧ c ∈ o) ∧
      (∀ h ∈ roots, ∃ o, coverRec target κ fuel ds h 0 = some o ∧ ∀ c ∈ o, c ∈ out) ∧
      (∀ c ∈ init, c ∈ out) := by
  intro roots
  induction roots with
  | nil =>
    intro init out _ hw _ h
    simp only [List.foldlM_nil] at h
    cases h
    exact ⟨hw, fun c hc => Or.inl hc, fun h hh => by simp at hh, fun c hc => hc⟩
  | cons r rs ih =>
    intro init out hp hw hsep h
    simp only [List.foldlM_cons] at h
    cases ho : coverRec target κ fuel ds r 0 with
    | none => simp [ho] at h
    | some o =>
      simp only [ho, Option.map_some, Option.bind_eq_bind, Option.bind_some] at h
      have hb := coverRec_below target κ D hD fuel ds r 0 o hds ho
      have hp' := List.pairwise_cons.mp hp
      have hw' : WF D (init ++ o) := by
        refine WF_append hw hb.1 ?_
        intro x hx y hy
        exact Nat.le_trans (hsep x hx r (by simp)) (hb.2 y hy).1
      have hsep' : ∀ c ∈ init ++ o, ∀ h' ∈ rs, hi D c ≤ lo D ⟨ds, h', true⟩ := by
        intro c hc h' hh'
        rcases List.mem_append.mp hc with hc | hc
        · exact hsep c hc h' (by simp [hh'])
        · have h1 := (hb.2 c hc).2.1
          have h2 : r < h' := hp'.1 h' hh'
          have : hi D ⟨ds, r, true⟩ ≤ lo D ⟨ds, h', true⟩ := by
            unfold hi lo
            exact Nat.mul_le_mul_right _ h2
          exact Nat.le_trans h1 this
      obtain ⟨g1, g2, g3, g4⟩ := ih (init ++ o) out hp'.2 hw' hsep' h
      refine ⟨g1, ?_, ?_, ?_⟩
      · intro c hc
        rcases g2 c hc with hc' | ⟨h', hh', o', ho', hco'⟩
        · rcases List.mem_append.mp hc' with hc' | hc'
          · exact Or.inl hc'
          · exact Or.inr ⟨r, by simp, o, ho, hc'⟩
        · exact Or.inr ⟨h', by simp [hh'], o', ho', hco'⟩
      · intro h' hh'
        rcases List.mem_cons.mp hh' with rfl | hh'
        · exact ⟨o, ho, fun c hc => g4 c (by simp [hc])⟩
        · exact g3 h' hh'
      · intro c hc; exact g4 c (by simp [hc])

end Hpx.Cover
