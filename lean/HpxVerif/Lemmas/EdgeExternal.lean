/-
C14 — external edges, part 1 (parts level): the direction `from_` computed by `external_edge_generic` /
`external_edge_struct` (`direction.opposite()` inside a base cell, `direction_from_neighbour` at depth 0,
`edge_cell_direction_from_neighbour(d0h, direction_in_base_cell_border, direction)` on a base-cell border) IS the
direction from which the neighbour sees the cell: `from_dir_spec`.  For every grid side `1 ≤ n ≤ 2^32`
(`n = 2^depth` in the code), every cell, every direction in which there is a neighbour; the table lookups never fail
(no panic) and `from_` is cardinal iff `dir` is.
Continued in `EdgeExternal2.lean` (refinement of the neighbour relation), `EdgeExternal3.lean` (the model functions on
cell numbers), `EdgeExternal4.lean` (set, no duplicates, order).
-/
import HpxVerif.Lemmas.TopoLift2
import HpxVerif.Lemmas.EdgeInternal3

namespace Hpx.EdgeExternal
open Hpx Hpx.Topo Hpx.TopoSpec Hpx.TopoNeigh Hpx.TopoLift MW

/-- position class of a coordinate in its base cell: `0` first, `2` last, `1` otherwise (as computed by
    `direction_in_base_cell_border`: the test `= 0` comes first) -/
def cls (n c : Nat) : Nat := if c = 0 then 0 else if c + 1 = n then 2 else 1

/-- `direction_in_base_cell_border` on coordinates -/
def innerDir (n i j : Nat) : Option MW := MW.ofIndex (3 * cls n j + cls n i)

/-- the direction `from_` computed by `external_edge_generic`, on parts -/
def fromDir (n : Nat) (p : HashParts) (dir : MW) (q : HashParts) : Option MW :=
  if p.d0h = q.d0h then some dir.opposite
  else if n = 1 then directionFromNeighbour p.d0h dir
  else (innerDir n p.i p.j).bind fun inner => edgeCellDirectionFromNeighbour p.d0h inner dir

/-- the computed direction leads back from `q` to the cell `(b, i, j)` and has the kind (cardinal / ordinal) of `dir` -/
def RevOK (n b i j : Nat) (dir : MW) (q : HashParts) : Prop :=
  match fromDir n ⟨b, i, j⟩ dir q with
  | none => False
  | some f => nbAt n q.d0h ((q.i : Int) + f.offsetSe) ((q.j : Int) + f.offsetSw) = some ⟨b, i, j⟩ ∧
      f.isCardinal = dir.isCardinal ∧ f ≠ C

theorem cls_cases (n c : Nat) (_hn : 2 ≤ n) (hc : c < n) :
    (c = 0 ∧ cls n c = 0) ∨ (0 < c ∧ c + 1 < n ∧ cls n c = 1) ∨ (c + 1 = n ∧ cls n c = 2) := by
  unfold cls
  by_cases h0 : c = 0
  · left; simp [h0]
  · by_cases h1 : c + 1 = n
    · right; right; simp [h0, h1]
    · right; left; simp [h0, h1]; omega

theorem nbAt_some' (n b : Nat) (X Y : Int) (r : HashParts)
    (h : ∀ zx zy : Int, ((X < 0 ∧ zx = -1) ∨ (0 ≤ X ∧ X < n ∧ zx = 0) ∨ (0 ≤ X ∧ (n : Int) ≤ X ∧ zx = 1)) →
      ((Y < 0 ∧ zy = -1) ∨ (0 ≤ Y ∧ Y < n ∧ zy = 0) ∨ (0 ≤ Y ∧ (n : Int) ≤ Y ∧ zy = 1)) →
      nbZ n b zx zy X Y = some r) : nbAt n b X Y = some r := by
  unfold nbAt
  apply h
  · rcases zone_cases n X with ⟨h1, hz⟩ | ⟨h1, h2, hz⟩ | ⟨h1, h2, hz⟩
    · exact Or.inl ⟨h1, hz⟩
    · exact Or.inr (Or.inl ⟨h1, h2, hz⟩)
    · exact Or.inr (Or.inr ⟨h1, h2, hz⟩)
  · rcases zone_cases n Y with ⟨h1, hz⟩ | ⟨h1, h2, hz⟩ | ⟨h1, h2, hz⟩
    · exact Or.inl ⟨h1, hz⟩
    · exact Or.inr (Or.inl ⟨h1, h2, hz⟩)
    · exact Or.inr (Or.inr ⟨h1, h2, hz⟩)

/-- the neighbour stays in the base cell: the way back is the opposite direction -/
theorem rev_interior (n b i j : Nat) (dir : MW) (q : HashParts) (hi : i < n) (hj : j < n) (hdir : dir ≠ C)
    (h1 : 0 ≤ (i : Int) + dir.offsetSe) (h2 : (i : Int) + dir.offsetSe < n)
    (h3 : 0 ≤ (j : Int) + dir.offsetSw) (h4 : (j : Int) + dir.offsetSw < n)
    (h : nbZ n b 0 0 ((i : Int) + dir.offsetSe) ((j : Int) + dir.offsetSw) = some q) : RevOK n b i j dir q := by
  simp only [nbZ, ofOffsets, ofIndex] at h
  simp at h
  subst h
  simp only [RevOK, fromDir, if_true]
  refine ⟨?_, by cases dir <;> rfl, by cases dir <;> simp_all [opposite]⟩
  apply nbAt_some'
  intro zx zy hx hy
  cases dir <;> simp only [offsetSe, offsetSw, opposite] at * <;>
  rcases hx with ⟨a1, rfl⟩ | ⟨a1, a2, rfl⟩ | ⟨a1, a2, rfl⟩ <;>
  rcases hy with ⟨a3, rfl⟩ | ⟨a3, a4, rfl⟩ | ⟨a3, a4, rfl⟩ <;>
  (try omega) <;>
  simp [nbZ, ofOffsets, ofIndex] <;> omega



local macro "rev_tac" n:ident b:ident i:ident j:ident q:ident D:ident I:term:max J:term:max hb:ident hi:ident hj:ident hn:ident P:term : tactic =>
  `(tactic| (
    intro h
    revert h
    unfold nbAt
    have hn1 : ¬ ($n = 1) := by omega
    rcases cls_cases $n $i $hn $hi with ⟨ci0, ci⟩ | ⟨ci0, ci1, ci⟩ | ⟨ci0, ci⟩ <;>
    rcases cls_cases $n $j $hn $hj with ⟨cj0, cj⟩ | ⟨cj0, cj1, cj⟩ | ⟨cj0, cj⟩ <;>
    rcases zone_cases $n $I with ⟨h1, hz⟩ | ⟨h1, h2, hz⟩ | ⟨h1, h2, hz⟩ <;>
    rcases zone_cases $n $J with ⟨h3, hz'⟩ | ⟨h3, h4, hz'⟩ | ⟨h3, h4, hz'⟩ <;>
    (try omega) <;>
    rw [hz, hz'] <;>
    first
    | exact fun h => rev_interior $n $b $i $j $D $q $hi $hj (by decide) h1 h2 h3 h4 h
    | (refine b12 (P := $P) $b $hb ?_ ?_ ?_ ?_ ?_ ?_ ?_ ?_ ?_ ?_ ?_ ?_ <;>
       simp only [nbZ, ofOffsets, ofIndex, seamRule, ncpRule, eqrRule, spcRule, baseCell, next, prev, oppo, Src.eval] <;>
       simp <;>
       · intro hq; subst hq
         simp only [RevOK, fromDir, innerDir, ci, cj, ofIndex, edgeCellDirectionFromNeighbour, npcEdgeDirFromNeighbour,
           spcEdgeDirFromNeighbour, opposite, Nat.reduceDiv, Nat.reduceMul, Nat.reduceAdd, Nat.reduceEqDiff,
           if_false, if_true, Option.bind_some, hn1, reduceCtorEq, offsetSe, offsetSw, isCardinal,
           BEq.rfl, Bool.or_true, Bool.true_or, beq_iff_eq, Bool.or_false, Bool.false_or,
           ne_eq, not_false_eq_true, and_true]
         apply nbAt_some'
         intro zx zy hx hy
         rcases hx with ⟨a1, e1⟩ | ⟨a1, a2, e1⟩ | ⟨a1, a2, e1⟩ <;>
         rcases hy with ⟨a3, e2⟩ | ⟨a3, a4, e2⟩ | ⟨a3, a4, e2⟩ <;>
         (try omega) <;>
         subst e1 e2 <;>
         simp only [nbZ, ofOffsets, ofIndex, seamRule, ncpRule, eqrRule, spcRule, baseCell, next, prev, oppo, Src.eval] <;>
         simp <;> omega)))

section
variable (n b i j : Nat) (q : HashParts) (hn : 2 ≤ n) (hn2 : n ≤ 4294967296) (hb : b < 12) (hi : i < n) (hj : j < n)
include hn hn2 hb hi hj
set_option linter.unusedSimpArgs false

set_option maxHeartbeats 400000 in
theorem rev_S : nbAt n b ((i : Int) + (-1)) ((j : Int) + (-1)) = some q → RevOK n b i j S q := by
  rev_tac n b i j q S ((i : Int) + (-1)) ((j : Int) + (-1)) hb hi hj hn
    (fun b => nbZ n b _ _ _ _ = some q → RevOK n b i j S q)

set_option maxHeartbeats 400000 in
theorem rev_SE : nbAt n b ((i : Int) + (0)) ((j : Int) + (-1)) = some q → RevOK n b i j SE q := by
  rev_tac n b i j q SE ((i : Int) + (0)) ((j : Int) + (-1)) hb hi hj hn
    (fun b => nbZ n b _ _ _ _ = some q → RevOK n b i j SE q)

set_option maxHeartbeats 400000 in
theorem rev_E : nbAt n b ((i : Int) + (1)) ((j : Int) + (-1)) = some q → RevOK n b i j E q := by
  rev_tac n b i j q E ((i : Int) + (1)) ((j : Int) + (-1)) hb hi hj hn
    (fun b => nbZ n b _ _ _ _ = some q → RevOK n b i j E q)

set_option maxHeartbeats 400000 in
theorem rev_SW : nbAt n b ((i : Int) + (-1)) ((j : Int) + (0)) = some q → RevOK n b i j SW q := by
  rev_tac n b i j q SW ((i : Int) + (-1)) ((j : Int) + (0)) hb hi hj hn
    (fun b => nbZ n b _ _ _ _ = some q → RevOK n b i j SW q)

set_option maxHeartbeats 400000 in
theorem rev_NE : nbAt n b ((i : Int) + (1)) ((j : Int) + (0)) = some q → RevOK n b i j NE q := by
  rev_tac n b i j q NE ((i : Int) + (1)) ((j : Int) + (0)) hb hi hj hn
    (fun b => nbZ n b _ _ _ _ = some q → RevOK n b i j NE q)

set_option maxHeartbeats 400000 in
theorem rev_W : nbAt n b ((i : Int) + (-1)) ((j : Int) + (1)) = some q → RevOK n b i j W q := by
  rev_tac n b i j q W ((i : Int) + (-1)) ((j : Int) + (1)) hb hi hj hn
    (fun b => nbZ n b _ _ _ _ = some q → RevOK n b i j W q)

set_option maxHeartbeats 400000 in
theorem rev_NW : nbAt n b ((i : Int) + (0)) ((j : Int) + (1)) = some q → RevOK n b i j NW q := by
  rev_tac n b i j q NW ((i : Int) + (0)) ((j : Int) + (1)) hb hi hj hn
    (fun b => nbZ n b _ _ _ _ = some q → RevOK n b i j NW q)

set_option maxHeartbeats 400000 in
theorem rev_N : nbAt n b ((i : Int) + (1)) ((j : Int) + (1)) = some q → RevOK n b i j N q := by
  rev_tac n b i j q N ((i : Int) + (1)) ((j : Int) + (1)) hb hi hj hn
    (fun b => nbZ n b _ _ _ _ = some q → RevOK n b i j N q)

end

instance (n b i j : Nat) (dir : MW) (q : HashParts) : Decidable (RevOK n b i j dir q) := by
  unfold RevOK; split <;> infer_instance

/-- depth 0 (`n = 1`): the table `direction_from_neighbour` -/
def RevOne (b : Nat) (dir : MW) : Prop :=
  match nbAt 1 b (((0 : Nat) : Int) + dir.offsetSe) (((0 : Nat) : Int) + dir.offsetSw) with
  | none => True
  | some q => RevOK 1 b 0 0 dir q

instance (b : Nat) (dir : MW) : Decidable (RevOne b dir) := by
  unfold RevOne; split <;> infer_instance

theorem rev_one : ∀ b, b < 12 → ∀ dir ∈ dirs8, RevOne b dir := by decide +kernel

theorem rev_all (n b i j : Nat) (dir : MW) (q : HashParts) (hn : 1 ≤ n) (hn2 : n ≤ 4294967296) (hb : b < 12)
    (hi : i < n) (hj : j < n) (hdir : dir ≠ C)
    (h : nbAt n b ((i : Int) + dir.offsetSe) ((j : Int) + dir.offsetSw) = some q) : RevOK n b i j dir q := by
  by_cases h1 : n = 1
  · subst h1
    have hi0 : i = 0 := by omega
    have hj0 : j = 0 := by omega
    subst hi0 hj0
    have := rev_one b hb dir (mem_dirs8 dir hdir)
    unfold RevOne at this
    rw [h] at this
    exact this
  · have hn' : 2 ≤ n := by omega
    cases dir
    case C => exact absurd rfl hdir
    case S => exact rev_S n b i j q hn' hn2 hb hi hj h
    case SE => exact rev_SE n b i j q hn' hn2 hb hi hj h
    case E => exact rev_E n b i j q hn' hn2 hb hi hj h
    case SW => exact rev_SW n b i j q hn' hn2 hb hi hj h
    case NE => exact rev_NE n b i j q hn' hn2 hb hi hj h
    case W => exact rev_W n b i j q hn' hn2 hb hi hj h
    case NW => exact rev_NW n b i j q hn' hn2 hb hi hj h
    case N => exact rev_N n b i j q hn' hn2 hb hi hj h

/-- **C14, `from_dir_spec`** (the heart of the external edge): if `q` is the neighbour of the cell `p` in direction
    `dir`, the direction computed by the code (`fromDir`: `dir.opposite` inside a base cell, the table
    `direction_from_neighbour` at `n = 1`, the table `edge_cell_direction_from_neighbour` applied to the position of
    `p` on the border of its base cell otherwise) exists (no table lookup fails), leads back from `q` to `p`, and is
    cardinal iff `dir` is.  Every `1 ≤ n ≤ 2^32`. -/
theorem from_dir_spec (n : Nat) (p q : HashParts) (dir : MW) (hn : 1 ≤ n) (hn2 : n ≤ 4294967296) (hp : Valid n p)
    (hdir : dir ≠ C) (h : neighbourParts n p dir = some q) :
    ∃ f, fromDir n p dir q = some f ∧ neighbourParts n q f = some p ∧ f.isCardinal = dir.isCardinal ∧ f ≠ C := by
  obtain ⟨b, i, j⟩ := p
  obtain ⟨hb, hi, hj⟩ := hp
  simp only at hb hi hj
  rw [neighbourParts_eq_nbAt] at h
  have := rev_all n b i j dir q hn hn2 hb hi hj hdir h
  unfold RevOK at this
  split at this
  · exact this.elim
  · rename_i f hf
    exact ⟨f, hf, by rw [neighbourParts_eq_nbAt]; exact this.1, this.2.1, this.2.2⟩

/-- the way back is unique: it is the direction `dir'` with `neighbourParts n q dir' = some p`, and the vertices of `q`
    shared with `p` are those of its side / corner `from_` -/
theorem from_dir_unique (n : Nat) (p q : HashParts) (dir f f' : MW) (hn : 1 ≤ n) (hn2 : n ≤ 4294967296)
    (hp : Valid n p) (hdir : dir ≠ C) (h : neighbourParts n p dir = some q) (hf : fromDir n p dir q = some f)
    (hf' : neighbourParts n q f' = some p) : f' = f ∧ shared n q p = edgeOf f := by
  obtain ⟨g, hg, hg2, _, _⟩ := from_dir_spec n p q dir hn hn2 hp hdir h
  rw [hf] at hg
  cases hg
  have hq := neighbourParts_valid n p q dir hn hn2 hp h
  exact ⟨neighbours_distinct n q p f' f hn hn2 hq hf' hg2, neighbour_labelled n q p f hn hn2 hq hg2⟩

/-- non-vacuity and a concrete instance: depth 1 (`n = 2`), the cell `(2, 0, 1)` (number 10) and its `N` neighbour
    `(1, 1, 1)` (number 7), seen from there in direction `E` -/
example : Valid 2 ⟨2, 0, 1⟩ ∧ neighbourParts 2 ⟨2, 0, 1⟩ N = some ⟨1, 1, 1⟩ ∧ fromDir 2 ⟨2, 0, 1⟩ N ⟨1, 1, 1⟩ = some E ∧
    neighbourParts 2 ⟨1, 1, 1⟩ E = some ⟨2, 0, 1⟩ := by decide

end Hpx.EdgeExternal

#print axioms Hpx.EdgeExternal.from_dir_spec
#print axioms Hpx.EdgeExternal.from_dir_unique
