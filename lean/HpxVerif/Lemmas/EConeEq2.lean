import HpxVerif.Lemmas.EConeEq
import HpxVerif.Lemmas.PolyLemmas

/-!
# The equatorial elliptical-cone theorems on the output of `elliptical_cone_coverage_internal` (part 2)

`Lemmas/EConeEq.lean` states the three C13 statements for one run of the descent (`coverRec … ellClassifier …`) with the
list of radii given by `hdists`.  Here they are transported to the model function `Sph.ellInternal` itself (release
profile `cfg.debug = false`), branch `ds = best_starting_depth(a) < depth`:

* `foldlM_append_spec`: the fold over the start cells is the concatenation of the runs;
* `ellInternal_start_branch`: what `ellInternal` computes in that branch (the list of radii is
  `largest_center_to_vertex_distances_with_radius(ds, depth + 1, lon, lat, a)`: semi-major axis as radius);
* `table_zero_gt`, `band_has_start_depth`: `|lat| + a < tl` forces `a < 0.74 < 0.841 = T₀`: the all-sky branch (12 base cells,
  no starting depth) is never taken for these ellipses;
* **`ellInternal_circular_no_miss_equatorial`**, **`ellInternal_circular_full_inside_equatorial`**,
  **`ellInternal_centre_cell_kept_equatorial`**;
* `best_starting_depth_ex` and an `example` on `lon = 1`, `lat = 0.2`, `a = b = 0.05`, depth 6 (`ds = 3`);
* `econe_scheme_*_equatorial`: the same instantiations for the statements of `Lemmas/EConeReal2.lean` phrased with the stored
  centre `ProjSIN::new(lon, lat).c0`.

The branch `depth ≤ ds` is in `Lemmas/EConeEq3.lean`.  Not covered (as in the cone corollaries of `CellExtent3/4`): that the
neighbourhood of the cell of the centre at depth `ds` covers the disc, and the start cells that are not strictly equatorial.
-/

namespace Hpx.EConeEq
open Hpx Hpx.Hash Hpx.C2V Hpx.C2VReal Hpx.Proj Hpx.Cover Hpx.CellReal Hpx.EnvelopeReal Hpx.TopoLift Hpx.CellExtent
open Hpx.Sph Hpx.Bmoc Real

/-! ## the fold over the start cells -/

theorem foldlM_append_spec (f : ℕ → Option (List Cell)) : ∀ (roots : List ℕ) (init out : List Cell),
    roots.foldlM (fun acc r => (f r).map (acc ++ ·)) init = some out →
    (∀ c ∈ init, c ∈ out) ∧ (∀ r ∈ roots, ∃ o, f r = some o ∧ ∀ c ∈ o, c ∈ out) ∧
    (∀ c ∈ out, c ∈ init ∨ ∃ r ∈ roots, ∃ o, f r = some o ∧ c ∈ o) := by
  intro roots
  induction roots with
  | nil =>
    intro init out h
    simp only [List.foldlM_nil] at h
    cases h
    exact ⟨fun c hc => hc, fun r hr => by simp at hr, fun c hc => Or.inl hc⟩
  | cons r rs ih =>
    intro init out h
    simp only [List.foldlM_cons] at h
    cases ho : f r with
    | none => simp [ho] at h
    | some o =>
      simp only [ho, Option.map_some, Option.bind_eq_bind, Option.bind_some] at h
      obtain ⟨g1, g2, g3⟩ := ih (init ++ o) out h
      refine ⟨fun c hc => g1 c (List.mem_append_left _ hc), ?_, ?_⟩
      · intro r' hr'
        rcases List.mem_cons.mp hr' with rfl | hr'
        · exact ⟨o, ho, fun c hc => g1 c (List.mem_append_right _ hc)⟩
        · exact g2 r' hr'
      · intro c hc
        rcases g3 c hc with h1 | ⟨r', hr', o', ho', hco'⟩
        · rcases List.mem_append.mp h1 with h2 | h2
          · exact Or.inl h2
          · exact Or.inr ⟨r, List.mem_cons_self, o, ho, h2⟩
        · exact Or.inr ⟨r', List.mem_cons_of_mem _ hr', o', ho', hco'⟩

/-! ## the two descent branches of `elliptical_cone_coverage_internal` -/

/-- the branch with a starting depth `ds < depth`: the output is the fold of the descent over the sorted neighbourhood of
    the cell of the centre, with the radii `largest_center_to_vertex_distances_with_radius(ds, depth + 1, lon, lat, a)` -/
theorem ellInternal_start_branch (cfg : Cfg) (depth : ℕ) (lon lat a b pa : ℝ) (ha2 : a < π / 2) (hb : b < π)
    (hbest : hasBestStartingDepth a = true) (ds : ℕ) (hds : bestStartingDepth a = some ds) (hlt : ds < depth)
    (cells : List Cell) (h : ellInternal cfg depth lon lat a b pa = some cells) :
    ∃ h0 nm dists, Hash.hashV2 cfg ds lon lat = some h0 ∧ Topo.neighbours cfg ds h0 true = some nm ∧
      largestC2VsWithRadius cfg.debug ds (depth + 1) lon lat a = some dists ∧
      (sortNat (nm.map (·.2))).foldlM (fun acc r =>
        (coverRec depth (ellClassifier cfg depth (ECone.new lon lat a b pa) dists) (depth + 2) ds r 0).map (acc ++ ·)) []
        = some cells := by
  unfold ellInternal at h
  have e1 : Num.ge a (Num.halfPi : ℝ) = false := by rw [num_ge, num_halfPi]; simpa using ha2
  have e2 : Num.ge b (Num.pi : ℝ) = false := by rw [num_ge, num_pi]; simpa using hb
  simp only [e1, e2, hbest, hds, Bool.false_eq_true, if_false, Bool.not_true] at h
  cases hh0 : Hash.hashV2 cfg ds lon lat with
  | none => simp [hh0] at h
  | some h0 =>
    simp only [hh0, ge_iff_le, if_neg (show ¬ depth ≤ ds by omega)] at h
    cases hdl : largestC2VsWithRadius cfg.debug ds (depth + 1) lon lat a with
    | none => simp [hdl] at h
    | some dists =>
      cases hnm : Topo.neighbours cfg ds h0 true with
      | none => simp [hdl, hnm] at h
      | some nm =>
        simp only [hdl, hnm] at h
        exact ⟨h0, nm, dists, rfl, hnm, rfl, h⟩

/-! ## the ellipses of the equatorial band always have a starting depth -/

/-- the first entry of the table of `best_starting_depth` (`0x3FEAEA08D83905AD ≈ 0.841069`) exceeds `3/4` -/
theorem table_zero_gt : (3 / 4 : ℝ) < table (α := ℝ) 0 := by
  have e : Gen.smallerEdge2OpEdgeDistBits.getD 0 0 = 0x3FEAEA08D83905AD := by decide
  unfold table
  rw [e]
  show (3 / 4 : ℝ) < ((F64.toRat 0x3FEAEA08D83905AD : ℚ) : ℝ)
  rw [toRat_of_fields _ 1022 0xAEA08D83905AD (by decide) (by decide) (by decide) (by decide)]
  norm_num

/-- every radius `a` with `|lat| + a < tl` (`a < 0.74`) has a best starting depth: the all-sky branch of the coverage (no
    starting depth, the 12 base cells) is never taken for the ellipses of the equatorial band -/
theorem band_has_start_depth (lat a : ℝ) (hA : |lat| + a < tl) :
    hasBestStartingDepth a = true ∧ ∃ ds, bestStartingDepth a = some ds := by
  have h1 := table_zero_gt
  have h2 := tl_le
  have h3 := abs_nonneg lat
  have hlt : Num.lt a (table (α := ℝ) 0) = true := by rw [num_lt]; simpa using (by linarith : a < table (α := ℝ) 0)
  constructor
  · unfold hasBestStartingDepth
    exact hlt
  · unfold bestStartingDepth
    rw [show Gen.bestStartingDepthGuardIdx = 0 from rfl, hlt]
    exact ⟨_, rfl⟩

/-! ## the statements on the output of `elliptical_cone_coverage_internal` (branch `ds < depth`) -/

/-- **no miss, on the output of the model** (ℝ, release profile `cfg.debug = false`): circular ellipse `a = b`, `0 < a`,
    `|lat| + a < tl`, `sin a > 2^-1024`, `depth ≤ 29`, starting depth `ds = best_starting_depth(a) < depth`.  If
    `elliptical_cone_coverage_internal` returns `cells`, then the hash `h0` of the centre at depth `ds` and its neighbourhood
    `nm` are defined, and every position `q` of the disc that lies in a strictly equatorial cell of that neighbourhood lies in
    a cell of `cells`. -/
theorem ellInternal_circular_no_miss_equatorial (cfg : Cfg) (hcfg : cfg.debug = false) (depth : ℕ) (hd : depth ≤ 29)
    (lon lat a pa : ℝ) (ha : 0 < a) (hA : |lat| + a < tl) (hmin : 1 / 2 ^ 1024 < sin a) (ds : ℕ)
    (hds : bestStartingDepth a = some ds) (hlt : ds < depth) (cells : List Cell)
    (h : ellInternal cfg depth lon lat a a pa = some cells) :
    ∃ h0 nm, Hash.hashV2 cfg ds lon lat = some h0 ∧ Topo.neighbours cfg ds h0 true = some nm ∧
      ∀ root ∈ nm.map (·.2), ∀ q, InCellEq ds root q → adist q (lon, lat) ≤ a →
        ∃ c ∈ cells, InCellEq c.depth c.hash q := by
  have ha2 := lt_halfPi_of_band lat a hA
  have hpi := Real.pi_gt_three
  obtain ⟨h0, nm, dists, hh0, hnm, hdists, hfold⟩ := ellInternal_start_branch cfg depth lon lat a a pa ha2 (by linarith)
    (band_has_start_depth lat a hA).1 ds hds hlt cells h
  rw [hcfg] at hdists
  refine ⟨h0, nm, hh0, hnm, ?_⟩
  intro root hroot q hq hin
  obtain ⟨_, g2, _⟩ := foldlM_append_spec _ _ _ _ hfold
  obtain ⟨o, ho, hsub⟩ := g2 root ((Hpx.Sph.mem_sortNat root _).mpr hroot)
  obtain ⟨c, hc, hcq⟩ := econe_circular_no_miss_equatorial cfg lon lat a pa ha hA hmin ds depth hlt.le hd dists hdists
    (depth + 2) root o ho q hq hin
  exact ⟨c, hsub c hc, hcq⟩

/-- **`full` flags are truthful, on the output of the model**: under the same assumptions every cell of `cells` flagged FULL
    either has all its positions (as a strictly equatorial cell) within `a` of `(lon, lat)`, or is at depth `depth` with its
    four vertices within `a` of `(lon, lat)` -/
theorem ellInternal_circular_full_inside_equatorial (cfg : Cfg) (hcfg : cfg.debug = false) (depth : ℕ) (hd : depth ≤ 29)
    (lon lat a pa : ℝ) (ha : 0 < a) (hA : |lat| + a < tl) (ds : ℕ)
    (hds : bestStartingDepth a = some ds) (hlt : ds < depth) (cells : List Cell)
    (h : ellInternal cfg depth lon lat a a pa = some cells) (c : Cell) (hc : c ∈ cells) (hf : c.full = true) :
    (∀ q, InCellEq c.depth c.hash q → adist q (lon, lat) ≤ a) ∨
    (c.depth = depth ∧ ∃ vs, Hash.vertices (α := ℝ) cfg c.depth c.hash = some vs ∧
      ∀ v ∈ vs, adist v (lon, lat) ≤ a) := by
  have ha2 := lt_halfPi_of_band lat a hA
  have hpi := Real.pi_gt_three
  obtain ⟨h0, nm, dists, hh0, hnm, hdists, hfold⟩ := ellInternal_start_branch cfg depth lon lat a a pa ha2 (by linarith)
    (band_has_start_depth lat a hA).1 ds hds hlt cells h
  rw [hcfg] at hdists
  obtain ⟨_, _, g3⟩ := foldlM_append_spec _ _ _ _ hfold
  rcases g3 c hc with h1 | ⟨root, _, o, ho, hco⟩
  · simp at h1
  · exact econe_circular_full_inside_equatorial cfg lon lat a pa ha hA ds depth hlt.le hd dists hdists (depth + 2) root o ho
      c hco hf

/-- **the cell of the centre is kept, on the output of the model**: general ellipse `0 < b ≤ a`, any position angle,
    `|lat| + a < tl`, `sin b > 2^-1024`, `ds = best_starting_depth(a) < depth ≤ 29`.  If the centre `(lon, lat)` is a position
    of a strictly equatorial cell of the neighbourhood of its hash at depth `ds`, it is a position of a cell of `cells`. -/
theorem ellInternal_centre_cell_kept_equatorial (cfg : Cfg) (hcfg : cfg.debug = false) (depth : ℕ) (hd : depth ≤ 29)
    (lon lat a b pa : ℝ) (hb : 0 < b) (hba : b ≤ a) (hA : |lat| + a < tl) (hmin : 1 / 2 ^ 1024 < sin b) (ds : ℕ)
    (hds : bestStartingDepth a = some ds) (hlt : ds < depth) (cells : List Cell)
    (h : ellInternal cfg depth lon lat a b pa = some cells) :
    ∃ h0 nm, Hash.hashV2 cfg ds lon lat = some h0 ∧ Topo.neighbours cfg ds h0 true = some nm ∧
      ∀ root ∈ nm.map (·.2), InCellEq ds root (lon, lat) → ∃ c ∈ cells, InCellEq c.depth c.hash (lon, lat) := by
  have ha2 := lt_halfPi_of_band lat a hA
  have hpi := Real.pi_gt_three
  obtain ⟨h0, nm, dists, hh0, hnm, hdists, hfold⟩ := ellInternal_start_branch cfg depth lon lat a b pa ha2 (by linarith)
    (band_has_start_depth lat a hA).1 ds hds hlt cells h
  rw [hcfg] at hdists
  refine ⟨h0, nm, hh0, hnm, ?_⟩
  intro root hroot hq
  obtain ⟨_, g2, _⟩ := foldlM_append_spec _ _ _ _ hfold
  obtain ⟨o, ho, hsub⟩ := g2 root ((Hpx.Sph.mem_sortNat root _).mpr hroot)
  obtain ⟨c, hc, hcq⟩ := econe_centre_cell_kept_equatorial cfg lon lat a b pa hb hba hA hmin ds depth hlt.le hd dists
    hdists (depth + 2) root o ho hq
  exact ⟨c, hsub c hc, hcq⟩

/-! ## example: `lon = 1`, `lat = 0.2`, `a = b = 0.05`, depth 6 -/

theorem table_eq (k b e m : ℕ) (hb : Gen.smallerEdge2OpEdgeDistBits.getD k 0 = b) (he : F64.expF b = e)
    (hm : F64.manF b = m) (hs : F64.sgnF b = 0) (he0 : e ≠ 0) :
    table (α := ℝ) k = (((2 ^ 52 + m) * (2 : ℚ) ^ ((e : ℤ) - 1075) : ℚ) : ℝ) := by
  unfold table
  rw [hb]
  show ((F64.toRat b : ℚ) : ℝ) = _
  rw [toRat_of_fields b e m he hm hs he0]

/-- `best_starting_depth(0.05) = 3` over the reals (the unrolled binary search of the crate: `T₃ ≈ 0.0900 > 0.05 ≥ T₄ ≈ 0.0447`) -/
theorem best_starting_depth_ex : bestStartingDepth (1 / 20 : ℝ) = some 3 := by
  have t0 := table_eq 0 0x3FEAEA08D83905AD 1022 0xAEA08D83905AD (by decide) (by decide) (by decide) (by decide) (by decide)
  have t29 := table_eq 29 0x3E16BE84763852D1 993 0x6BE84763852D1 (by decide) (by decide) (by decide) (by decide) (by decide)
  have t15 := table_eq 15 0x3EF6BE8911339427 1007 0x6BE8911339427 (by decide) (by decide) (by decide) (by decide) (by decide)
  have t7 := table_eq 7 0x3F76C31163ACF399 1015 0x6C31163ACF399 (by decide) (by decide) (by decide) (by decide) (by decide)
  have t3 := table_eq 3 0x3FB70A86005503BD 1019 0x70A86005503BD (by decide) (by decide) (by decide) (by decide) (by decide)
  have t5 := table_eq 5 0x3F96D0DF233825B0 1017 0x6D0DF233825B0 (by decide) (by decide) (by decide) (by decide) (by decide)
  have t4 := table_eq 4 0x3FA6E3A4EC0B299B 1018 0x6E3A4EC0B299B (by decide) (by decide) (by decide) (by decide) (by decide)
  have c0 : Num.lt (1 / 20 : ℝ) (table (α := ℝ) 0) = true := by rw [num_lt, t0]; norm_num
  have c29 : Num.lt (1 / 20 : ℝ) (table (α := ℝ) 29) = false := by rw [num_lt, t29]; norm_num
  have c15 : Num.lt (1 / 20 : ℝ) (table (α := ℝ) 15) = false := by rw [num_lt, t15]; norm_num
  have c7 : Num.lt (1 / 20 : ℝ) (table (α := ℝ) 7) = false := by rw [num_lt, t7]; norm_num
  have c3 : Num.lt (1 / 20 : ℝ) (table (α := ℝ) 3) = true := by rw [num_lt, t3]; norm_num
  have c5 : Num.lt (1 / 20 : ℝ) (table (α := ℝ) 5) = false := by rw [num_lt, t5]; norm_num
  have c4 : Num.lt (1 / 20 : ℝ) (table (α := ℝ) 4) = false := by rw [num_lt, t4]; norm_num
  unfold bestStartingDepth Gen.bestStartingDepthTree
  rw [show Gen.bestStartingDepthGuardIdx = 0 from rfl]
  simp only [c0, c29, c15, c7, c3, c5, c4, Bool.not_true, Bool.false_eq_true, if_false, if_true]

/-- **the three statements on the output of the model for the concrete ellipse** `lon = 1`, `lat = 0.2`, `a = b = 0.05`,
    depth 6, release profile: the starting depth is 3 (`best_starting_depth_ex`), and the centre is a position of the
    strictly equatorial cell `3/4` (`ex_centre_in_cell`) -/
example (cfg : Cfg) (hcfg : cfg.debug = false) (pa : ℝ) (cells : List Cell)
    (h : ellInternal cfg 6 (1 : ℝ) (1 / 5) (1 / 20) (1 / 20) pa = some cells) :
    (∃ h0 nm, Hash.hashV2 cfg 3 (1 : ℝ) (1 / 5) = some h0 ∧ Topo.neighbours cfg 3 h0 true = some nm ∧
      (∀ root ∈ nm.map (·.2), ∀ q, InCellEq 3 root q → adist q (1, 1 / 5) ≤ 1 / 20 →
        ∃ c ∈ cells, InCellEq c.depth c.hash q) ∧
      (∀ root ∈ nm.map (·.2), InCellEq 3 root (1, 1 / 5) → ∃ c ∈ cells, InCellEq c.depth c.hash ((1 : ℝ), (1 / 5 : ℝ)))) ∧
    (∀ c ∈ cells, c.full = true → (∀ q, InCellEq c.depth c.hash q → adist q (1, 1 / 5) ≤ 1 / 20) ∨
      (c.depth = 6 ∧ ∃ vs, Hash.vertices (α := ℝ) cfg c.depth c.hash = some vs ∧ ∀ v ∈ vs, adist v (1, 1 / 5) ≤ 1 / 20)) := by
  obtain ⟨h1, h2, h3⟩ := ex_hyps
  obtain ⟨h0, nm, e1, e2, g1⟩ := ellInternal_circular_no_miss_equatorial cfg hcfg 6 (by decide) 1 (1 / 5) (1 / 20) pa h1 h2 h3
    3 best_starting_depth_ex (by decide) cells h
  obtain ⟨h0', nm', e1', e2', g2⟩ := ellInternal_centre_cell_kept_equatorial cfg hcfg 6 (by decide) 1 (1 / 5) (1 / 20) (1 / 20)
    pa h1 le_rfl h2 h3 3 best_starting_depth_ex (by decide) cells h
  rw [e1] at e1'
  cases Option.some.inj e1'
  rw [e2] at e2'
  cases Option.some.inj e2'
  exact ⟨⟨h0, nm, e1, e2, g1, g2⟩, fun c hc hf => ellInternal_circular_full_inside_equatorial cfg hcfg 6 (by decide) 1
    (1 / 5) (1 / 20) pa h1 h2 3 best_starting_depth_ex (by decide) cells h c hc hf⟩

/-! ## the shapes of `Lemmas/EConeReal2.lean` (centre of the projection `ProjSIN::new(lon, lat).c0`) -/

/-- `Sph.econe_scheme_circular_no_miss` with `H1`, `hcover` and `hD` discharged -/
theorem econe_scheme_circular_no_miss_equatorial (cfg : Cfg) (lon lat a pa : ℝ) (ha : 0 < a) (hA : |lat| + a < tl)
    (hmin : 1 / 2 ^ 1024 < sin a) (ds target : ℕ) (hdt : ds ≤ target) (ht : target ≤ 29) (dists : List ℝ)
    (hdists : largestC2VsWithRadius false ds (target + 1) lon lat a = some dists) (fuel root : ℕ) (out : List Cell)
    (h : coverRec target (ellClassifier (α := ℝ) cfg target (ECone.new lon lat a a pa) dists) fuel ds root 0 = some out)
    (q : ℝ × ℝ) (hq : InCellEq ds root q) (hin : adist q (ProjSIN.new lon lat).c0 ≤ a) :
    ∃ c ∈ out, InCellEq c.depth c.hash q :=
  econe_circular_no_miss_equatorial cfg lon lat a pa ha hA hmin ds target hdt ht dists hdists fuel root out h q hq
    (by rwa [adist_new_c0] at hin)

/-- `Sph.econe_scheme_circular_full_inside` with `H1` and `hD` discharged -/
theorem econe_scheme_circular_full_inside_equatorial (cfg : Cfg) (lon lat a pa : ℝ) (ha : 0 < a) (hA : |lat| + a < tl)
    (ds target : ℕ) (hdt : ds ≤ target) (ht : target ≤ 29) (dists : List ℝ)
    (hdists : largestC2VsWithRadius false ds (target + 1) lon lat a = some dists) (fuel root : ℕ) (out : List Cell)
    (h : coverRec target (ellClassifier (α := ℝ) cfg target (ECone.new lon lat a a pa) dists) fuel ds root 0 = some out)
    (c : Cell) (hc : c ∈ out) (hf : c.full = true) :
    (∀ q, InCellEq c.depth c.hash q → adist q (ProjSIN.new lon lat).c0 ≤ a) ∨
    (c.depth = target ∧ ∃ vs, Hash.vertices (α := ℝ) cfg c.depth c.hash = some vs ∧
      ∀ v ∈ vs, adist v (ProjSIN.new lon lat).c0 ≤ a) := by
  have := econe_circular_full_inside_equatorial cfg lon lat a pa ha hA ds target hdt ht dists hdists fuel root out h c hc hf
  simpa only [adist_new_c0] using this

/-- `Sph.econe_scheme_centre_kept` with `H1`, `hcover` and `hD` discharged (`H1` at the stored centre `c0`, which is at
    distance 0 of `(lon, lat)`) -/
theorem econe_scheme_centre_kept_equatorial (cfg : Cfg) (lon lat a b pa : ℝ) (hb : 0 < b) (hba : b ≤ a)
    (hA : |lat| + a < tl) (hmin : 1 / 2 ^ 1024 < sin b) (ds target : ℕ) (hdt : ds ≤ target) (ht : target ≤ 29)
    (dists : List ℝ) (hdists : largestC2VsWithRadius false ds (target + 1) lon lat a = some dists) (fuel root : ℕ)
    (out : List Cell)
    (h : coverRec target (ellClassifier (α := ℝ) cfg target (ECone.new lon lat a b pa) dists) fuel ds root 0 = some out)
    (hq : InCellEq ds root (ProjSIN.new lon lat).c0) :
    ∃ c ∈ out, InCellEq c.depth c.hash (ProjSIN.new lon lat).c0 := by
  have ha0 : 0 < a := lt_of_lt_of_le hb hba
  have ha2 := lt_halfPi_of_band lat a hA
  have hpi := Real.pi_gt_three
  obtain ⟨c, hc, _, hcq, _⟩ := econe_scheme_centre_kept cfg lon lat a b pa hb hba ha2 hmin dists
    (fun D hD => by
      have := (dists_bounds ds target hdt ht lon lat a ha0.le hA dists hdists D hD).2
      linarith)
    (fun d h q => d ≤ target ∧ InCellEq d h q ∧ True) target ds (hcover_eq target ht _)
    (fun d hh c D hd hc hD ⟨_, hq, _⟩ =>
      H1_equatorial_cone cfg lon lat a hA ds target hdt ht dists hdists d hh c D _ hd hc hD
        ⟨hq, by rw [adist_new_c0, adist_self]; exact ha0.le⟩)
    fuel root out h ⟨hdt, hq, trivial⟩
  exact ⟨c, hc, hcq⟩

end Hpx.EConeEq

#print axioms Hpx.EConeEq.ellInternal_circular_no_miss_equatorial
#print axioms Hpx.EConeEq.ellInternal_circular_full_inside_equatorial
#print axioms Hpx.EConeEq.ellInternal_centre_cell_kept_equatorial
#print axioms Hpx.EConeEq.best_starting_depth_ex
#print axioms Hpx.EConeEq.econe_scheme_centre_kept_equatorial
