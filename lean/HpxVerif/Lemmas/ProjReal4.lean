/-
C17 over the reals, part 4: `proj ∘ unproj = id` on the projected domain (every sign quadrant), what `unproj` does outside
the Collignon triangles, and the range of `proj`.
-/
import HpxVerif.Lemmas.ProjReal3
namespace Hpx.Proj
open Real

/-- lifting a first-quadrant evaluation of `proj` to the quadrant given by the signs of `s₁`, `s₂` -/
theorem proj_sgn_lift (s₁ s₂ L B X Y : ℝ) (hL : 0 ≤ L) (hB : 0 ≤ B) (h : proj (α := ℝ) L B = some (X, Y))
    (hL' : s₁ < 0 → 0 < L) (hB' : s₂ < 0 → 0 < B) :
    proj (α := ℝ) (sgn s₁ L) (sgn s₂ B) = some (sgn s₁ X, sgn s₂ Y) := by
  rw [proj_sym, abs_sgn, abs_sgn, abs_of_nonneg hL, abs_of_nonneg hB, h, Option.map_some]
  congr 2
  · by_cases hs : s₁ < 0
    · have : sgn s₁ L < 0 := by rw [sgn_of_neg hs, abs_of_nonneg hL]; linarith [hL' hs]
      rw [sgn_of_neg this, sgn_of_neg hs]
    · have : 0 ≤ sgn s₁ L := by rw [sgn_of_nonneg (not_lt.mp hs)]; exact hL
      rw [sgn_of_nonneg this, sgn_of_nonneg (not_lt.mp hs)]
  · by_cases hs : s₂ < 0
    · have : sgn s₂ B < 0 := by rw [sgn_of_neg hs, abs_of_nonneg hB]; linarith [hB' hs]
      rw [sgn_of_neg this, sgn_of_neg hs]
    · have : 0 ≤ sgn s₂ B := by rw [sgn_of_nonneg (not_lt.mp hs)]; exact hB
      rw [sgn_of_nonneg this, sgn_of_nonneg (not_lt.mp hs)]

theorem scaled_back (x : ℝ) : x * (π / 4) * (4 / π) = x := by
  have := pi_pos; field_simp

/-! ## Equatorial band, first quadrant -/

theorem unproj_eq_pos (k : ℕ) (hk : k < 4) (x y : ℝ) (h1 : (2 * k : ℝ) ≤ x) (h2 : x < 2 * k + 2) (hy0 : 0 ≤ y) (hy1 : y ≤ 1) :
    unproj (α := ℝ) x y = some (x * (π / 4), Real.arcsin (y * (2 / 3))) := by
  rw [unproj_pos x y k (by omega) h1 h2 hy0 (by linarith), if_pos hy1, Nat.mod_eq_of_lt (by omega)]
  congr 3; push_cast; ring

theorem proj_eq_pos (k : ℕ) (hk : k < 4) (x y : ℝ) (h1 : (2 * k : ℝ) ≤ x) (h2 : x < 2 * k + 2) (hy0 : 0 ≤ y) (hy1 : y ≤ 1) :
    0 ≤ Real.arcsin (y * (2 / 3)) ∧ Real.arcsin (y * (2 / 3)) ≤ π / 2 ∧ (0 < y → 0 < Real.arcsin (y * (2 / 3))) ∧
    proj (α := ℝ) (x * (π / 4)) (Real.arcsin (y * (2 / 3))) = some (x, y) := by
  have hpi := pi_pos
  have hx0 : 0 ≤ x := le_trans (by positivity) h1
  have ha0 : 0 ≤ Real.arcsin (y * (2 / 3)) := Real.arcsin_nonneg.mpr (by positivity)
  have ha1 := Real.arcsin_le_pi_div_two (y * (2 / 3))
  refine ⟨ha0, ha1, fun h => Real.arcsin_pos.mpr (by positivity), ?_⟩
  rw [proj_pos' _ _ k (by omega) (by positivity) (by rw [scaled_back]; exact h1) (by rw [scaled_back]; exact h2) ha0 ha1,
    scaled_back]
  unfold projQ
  rw [if_pos (Real.arcsin_le_arcsin (by linarith)), Real.sin_arcsin (by linarith) (by linarith),
    Nat.mod_eq_of_lt (by omega)]
  congr 2
  · push_cast; ring
  · ring

/-! ## Polar caps, first quadrant -/

/-- latitude returned by `deproj_collignon` for the ordinate `y` -/
noncomputable def capLat (y : ℝ) : ℝ := 2 * Real.arccos ((2 - y) * (1 / Real.sqrt 6)) - π / 2

theorem capLat_props (y : ℝ) (hy1 : 1 < y) (hy2 : y ≤ 2) :
    ¬ capLat y ≤ Real.arcsin (2 / 3) ∧ 0 < capLat y ∧ capLat y ≤ π / 2 ∧ sig (capLat y) = 2 - y := by
  have hpi := pi_pos
  have h6 : 0 < Real.sqrt 6 := Real.sqrt_pos.mpr (by norm_num)
  have h61 : 1 < Real.sqrt 6 := by
    rw [show (1 : ℝ) = Real.sqrt 1 by simp]; exact Real.sqrt_lt_sqrt (by norm_num) (by norm_num)
  have hq0 : 0 ≤ (2 - y) * (1 / Real.sqrt 6) := mul_nonneg (by linarith) (by positivity)
  have hq1 : (2 - y) * (1 / Real.sqrt 6) ≤ 1 := by
    rw [mul_one_div, div_le_one h6]; linarith
  have ha0 := Real.arccos_nonneg ((2 - y) * (1 / Real.sqrt 6))
  have ha1 : Real.arccos ((2 - y) * (1 / Real.sqrt 6)) ≤ π / 2 := Real.arccos_le_pi_div_two.mpr hq0
  have hsig : sig (capLat y) = 2 - y := by
    unfold sig capLat
    rw [show 1 / 2 * (2 * Real.arccos ((2 - y) * (1 / Real.sqrt 6)) - π / 2) + π / 4 =
      Real.arccos ((2 - y) * (1 / Real.sqrt 6)) by ring, Real.cos_arccos (by linarith) hq1]
    field_simp
  have hl1 : capLat y ≤ π / 2 := by unfold capLat; linarith
  have hl0 : -(π / 2) ≤ capLat y := by unfold capLat; linarith
  have hreg : ¬ capLat y ≤ Real.arcsin (2 / 3) := (sig_lt_one_iff _ hl0 hl1).mp (by rw [hsig]; linarith)
  exact ⟨hreg, lt_of_le_of_lt (Real.arcsin_nonneg.mpr (by norm_num)) (not_le.mp hreg), hl1, hsig⟩

theorem unproj_cap_pos (k : ℕ) (hk : k < 4) (x y : ℝ) (h1 : (2 * k : ℝ) ≤ x) (h2 : x < 2 * k + 2) (hy1 : 1 < y) (hy2 : y ≤ 2)
    (hpole : (Num.epsPole : ℝ) < 2 - y) :
    unproj (α := ℝ) x y = some ((clamp1 ((x - (2 * k + 1)) / (2 - y)) + (2 * k + 1)) * (π / 4), capLat y) := by
  rw [unproj_pos x y k (by omega) h1 h2 (by linarith) hy2, if_neg (not_le.mpr hy1), if_pos hpole,
    Nat.mod_eq_of_lt (by omega)]
  congr 3; push_cast; ring

/-- `proj` of a cap position given by its facet index `k` and its offset `l ∈ [-1, 1)` (units of `π/4`) -/
theorem proj_cap_pos (k : ℕ) (hk : k < 128) (l lat : ℝ) (hl1 : -1 ≤ l) (hl2 : l < 1) (hreg : ¬ lat ≤ Real.arcsin (2 / 3))
    (hlat : lat ≤ π / 2) :
    proj (α := ℝ) ((l + (2 * k + 1)) * (π / 4)) lat = some (l * sig lat + ((2 * k + 1) % 8 : ℕ), 2 - sig lat) := by
  have hpi := pi_pos
  have hlat0 : 0 ≤ lat := le_trans (Real.arcsin_nonneg.mpr (by norm_num)) (le_of_lt (not_le.mp hreg))
  have hk0 : (0 : ℝ) ≤ k := Nat.cast_nonneg k
  rw [proj_pos' _ _ k hk (mul_nonneg (by linarith) (by positivity))
    (by rw [scaled_back]; linarith) (by rw [scaled_back]; linarith) hlat0 hlat, scaled_back]
  unfold projQ
  rw [if_neg hreg]
  congr 3; ring

/-- **`proj ∘ unproj = id` inside a Collignon triangle** (first quadrant): `-(2-y) ≤ x - (2k+1) < 2-y` -/
theorem proj_unproj_cap_pos (k : ℕ) (hk : k < 4) (x y : ℝ) (hy1 : 1 < y) (hy2 : y ≤ 2)
    (hpole : (Num.epsPole : ℝ) < 2 - y) (ht1 : -(2 - y) ≤ x - (2 * k + 1)) (ht2 : x - (2 * k + 1) < 2 - y) :
    ∃ lon lat, unproj (α := ℝ) x y = some (lon, lat) ∧ 0 ≤ lon ∧ lon < 2 * π ∧ (x ≠ y - 1 → 0 < lon) ∧ 0 < lat ∧
      lat ≤ π / 2 ∧ proj (α := ℝ) lon lat = some (x, y) := by
  have hpi := pi_pos
  have ht : 0 < 2 - y := lt_trans epsPole_pos hpole
  obtain ⟨hreg, hl0, hl1, hsig⟩ := capLat_props y hy1 hy2
  have hk0 : (0 : ℝ) ≤ k := Nat.cast_nonneg k
  set l := (x - (2 * k + 1)) / (2 - y) with hl
  have hlt : l * (2 - y) = x - (2 * k + 1) := by rw [hl]; field_simp
  have hm1 : -1 ≤ l := by rw [hl, le_div_iff₀ ht]; linarith
  have hp1 : l < 1 := by rw [hl, div_lt_one ht]; linarith
  have hcl : clamp1 l = l := by unfold clamp1; rw [if_neg (by linarith), if_neg (by linarith)]
  have hk3 : (k : ℝ) ≤ 3 := by
    have : k ≤ 3 := by omega
    exact_mod_cast this
  refine ⟨(l + (2 * k + 1)) * (π / 4), capLat y, ?_, ?_, ?_, ?_, hl0, hl1, ?_⟩
  · rw [unproj_cap_pos k hk x y (by linarith) (by linarith) hy1 hy2 hpole, hcl]
  · exact mul_nonneg (by linarith) (by positivity)
  · rw [show 2 * π = 8 * (π / 4) by ring]
    exact mul_lt_mul_of_pos_right (by linarith) (by positivity)
  · intro hne
    have : 0 < l + (2 * k + 1) := by
      rcases Nat.eq_zero_or_pos k with rfl | hkp
      · have : l ≠ -1 := by
          intro h; apply hne; rw [h] at hlt; push_cast at hlt; linarith
        have : -1 < l := lt_of_le_of_ne hm1 (Ne.symm this)
        push_cast; linarith
      · have : (1 : ℝ) ≤ k := by exact_mod_cast hkp
        linarith
    positivity
  · rw [proj_cap_pos k (by omega) l (capLat y) hm1 hp1 hreg hl1, hsig, hlt, Nat.mod_eq_of_lt (by omega)]
    congr 2
    · push_cast; ring
    · ring

/-! ## The projected domain -/

/-- the image of the sphere in the projection plane, as the code parametrises it: `|x| < 8`, `|y| ≤ 2` and, in the caps
    (`|y| > 1`), `|x|` inside one of the four Collignon triangles `-(2-|y|) ≤ |x| - (2k+1) < 2-|y|` (left edge included,
    right edge — the same points of the sphere as the left edge of the next triangle — excluded) -/
def InProjDomain (x y : ℝ) : Prop :=
  |x| < 8 ∧ |y| ≤ 2 ∧
    (1 < |y| → ∃ k : ℕ, k < 4 ∧ -(2 - |y|) ≤ |x| - (2 * k + 1) ∧ |x| - (2 * k + 1) < 2 - |y|)

/-- first quadrant -/
theorem proj_unproj_pos (x y : ℝ) (hx : 0 ≤ x) (hy : 0 ≤ y) (hd : InProjDomain x y)
    (hpole : (Num.epsPole : ℝ) < 2 - y) :
    ∃ lon lat, unproj (α := ℝ) x y = some (lon, lat) ∧ 0 ≤ lon ∧ lon < 2 * π ∧ ((1 < y → x ≠ y - 1) → 0 < x → 0 < lon) ∧
      0 ≤ lat ∧ (0 < y → 0 < lat) ∧ lat ≤ π / 2 ∧ proj (α := ℝ) lon lat = some (x, y) := by
  have hpi := pi_pos
  obtain ⟨hx8, hy2, hcap⟩ := hd
  rw [abs_of_nonneg hx] at hx8 hcap
  rw [abs_of_nonneg hy] at hy2 hcap
  by_cases hy1 : y ≤ 1
  · obtain ⟨k, hk, h1, h2⟩ := facet_exists x hx 4 (by push_cast; linarith)
    obtain ⟨a0, a1, a2, a3⟩ := proj_eq_pos k hk x y h1 h2 hy hy1
    exact ⟨_, _, unproj_eq_pos k hk x y h1 h2 hy hy1, by positivity, by nlinarith, fun _ h => by positivity, a0, a2, a1, a3⟩
  · rw [not_le] at hy1
    obtain ⟨k, hk, t1, t2⟩ := hcap hy1
    obtain ⟨lon, lat, hu, l0, l2, l1, b0, b1, hp⟩ := proj_unproj_cap_pos k hk x y hy1 hy2 hpole t1 t2
    exact ⟨lon, lat, hu, l0, l2, fun h _ => l1 (h hy1), le_of_lt b0, fun _ => b0, b1, hp⟩

/-- **`proj ∘ unproj = id` over ℝ on the projected domain, every sign quadrant**, away from the pole threshold.
    The last hypothesis excludes, for negative `x` only, the left edge of the first triangle (`|x| = |y| - 1`, longitude 0):
    there `unproj` returns the longitude `-0.0`, which does not exist over ℝ (see `proj_unproj_neg_zero`). -/
theorem proj_unproj (x y : ℝ) (hd : InProjDomain x y) (hpole : (Num.epsPole : ℝ) < 2 - |y|)
    (hneg : x < 0 → 1 < |y| → |x| ≠ |y| - 1) :
    ∃ lon lat, unproj (α := ℝ) x y = some (lon, lat) ∧ -(π / 2) ≤ lat ∧ lat ≤ π / 2 ∧ |lon| < 2 * π ∧
      proj (α := ℝ) lon lat = some (x, y) := by
  have hpi := pi_pos
  have hd' : InProjDomain |x| |y| := by unfold InProjDomain; rw [abs_abs, abs_abs]; exact hd
  obtain ⟨L, B, hu, l0, l2, l1, b0, b1, b2, hp⟩ := proj_unproj_pos |x| |y| (abs_nonneg x) (abs_nonneg y) hd' hpole
  refine ⟨sgn x L, sgn y B, ?_, ?_, ?_, ?_, ?_⟩
  · rw [unproj_sym, hu, Option.map_some]
  · unfold sgn; split
    · rw [abs_of_nonneg b0]; linarith
    · linarith
  · unfold sgn; split
    · rw [abs_of_nonneg b0]; linarith
    · linarith
  · rw [abs_sgn, abs_of_nonneg l0]; exact l2
  · have := proj_sgn_lift x y L B |x| |y| l0 b0 hp
      (fun h => l1 (fun h1 => hneg h h1) (abs_pos.mpr (ne_of_lt h))) (fun h => b1 (abs_pos.mpr (ne_of_lt h)))
    rw [this, sgn_abs_self, sgn_abs_self]

theorem epsPole_lt_small : (Num.epsPole : ℝ) < 1 / 1000 := by
  show ((F64.toRat Gen.cEpsPole : ℚ) : ℝ) < 1 / 1000
  rw [show Gen.cEpsPole = 0x3D3C25C268497682 from rfl,
    toRat_of_fields _ 979 0xC25C268497682 (by decide) (by decide) (by decide) (by decide)]
  norm_num

/-- the hypotheses of `proj_unproj` are satisfiable in the equatorial band and in a (south-west) cap -/
example : InProjDomain (1 / 2) (1 / 2) ∧ (Num.epsPole : ℝ) < 2 - |(1 / 2 : ℝ)| ∧
    ((1 / 2 : ℝ) < 0 → 1 < |(1 / 2 : ℝ)| → |(1 / 2 : ℝ)| ≠ |(1 / 2 : ℝ)| - 1) := by
  have := epsPole_lt_small
  refine ⟨⟨by norm_num [abs_of_pos], by norm_num [abs_of_pos], ?_⟩, by norm_num [abs_of_pos]; linarith, by norm_num⟩
  intro h; norm_num [abs_of_pos] at h
example : InProjDomain (-5 / 2) (-3 / 2) ∧ (Num.epsPole : ℝ) < 2 - |(-3 / 2 : ℝ)| ∧
    ((-5 / 2 : ℝ) < 0 → 1 < |(-3 / 2 : ℝ)| → |(-5 / 2 : ℝ)| ≠ |(-3 / 2 : ℝ)| - 1) := by
  have := epsPole_lt_small
  have e1 : |(-5 / 2 : ℝ)| = 5 / 2 := by rw [abs_of_neg (by norm_num)]; norm_num
  have e2 : |(-3 / 2 : ℝ)| = 3 / 2 := by rw [abs_of_neg (by norm_num)]; norm_num
  rw [InProjDomain, e1, e2]
  refine ⟨⟨by norm_num, by norm_num, fun _ => ⟨1, by norm_num, by norm_num, by norm_num⟩⟩, by linarith, ?_⟩
  intro _ _; norm_num

/-- **real/float difference** (not a defect): for `x < 0` on the left edge of the first Collignon triangle (`|x| = |y| - 1`,
    the meridian `lon = 0`), `unproj` over ℝ returns the longitude `-|0| = 0`, whose sign bit is lost, and `proj` sends it
    to `(+|x|, y)`.  At `Float` the longitude is `-0.0`, the sign bit survives and `proj (unproj (x, y)) = (x, y)`. -/
theorem proj_unproj_neg_zero (x y : ℝ) (hx : x < 0) (hy1 : 1 < |y|) (hy2 : |y| ≤ 2) (hedge : |x| = |y| - 1)
    (hpole : (Num.epsPole : ℝ) < 2 - |y|) :
    ∃ lat, unproj (α := ℝ) x y = some (0, lat) ∧ proj (α := ℝ) 0 lat = some (-x, y) := by
  have ht : 0 < 2 - |y| := lt_trans epsPole_pos hpole
  obtain ⟨hreg, hl0, hl1, hsig⟩ := capLat_props |y| hy1 hy2
  have hu := unproj_cap_pos 0 (by norm_num) |x| |y| (by push_cast; linarith [abs_nonneg x]) (by push_cast; linarith) hy1 hy2 hpole
  have hr : (|x| - (2 * ((0 : ℕ) : ℝ) + 1)) / (2 - |y|) = -1 := by
    rw [div_eq_iff (ne_of_gt ht), hedge]; push_cast; ring
  have hc : clamp1 (-1) = -1 := by unfold clamp1; norm_num
  rw [hr, hc] at hu
  have hu0 : unproj (α := ℝ) |x| |y| = some (0, capLat |y|) := by rw [hu]; congr 2; push_cast; ring
  refine ⟨sgn y (capLat |y|), ?_, ?_⟩
  · rw [unproj_sym, hu0, Option.map_some]; congr 2; unfold sgn; simp
  · have hp := proj_cap_pos 0 (by norm_num) (-1) (capLat |y|) (le_refl _) (by norm_num) hreg hl1
    rw [hsig] at hp
    have hp0 : proj (α := ℝ) 0 (capLat |y|) = some (|x|, |y|) := by
      have e : ((-1 : ℝ) + (2 * ((0 : ℕ) : ℝ) + 1)) * (π / 4) = 0 := by push_cast; ring
      rw [e] at hp; rw [hp, hedge]; congr 2
      · norm_num; ring
      · ring
    have := proj_sgn_lift 0 y 0 (capLat |y|) |x| |y| (le_refl _) (le_of_lt hl0) hp0 (fun h => absurd h (lt_irrefl _))
      (fun _ => hl0)
    rw [sgn_of_nonneg (le_refl (0 : ℝ)), sgn_of_nonneg (le_refl (0 : ℝ)), sgn_abs_self, abs_of_neg hx] at this
    exact this

example : ((-1 / 2 : ℝ) < 0) ∧ 1 < |(3 / 2 : ℝ)| ∧ |(3 / 2 : ℝ)| ≤ 2 ∧ |(-1 / 2 : ℝ)| = |(3 / 2 : ℝ)| - 1 := by
  have e1 : |(-1 / 2 : ℝ)| = 1 / 2 := by rw [abs_of_neg (by norm_num)]; norm_num
  have e2 : |(3 / 2 : ℝ)| = 3 / 2 := abs_of_pos (by norm_num)
  rw [e1, e2]; norm_num

/-- **the boundary `|x| = 8`** is identified with `x = 0`: `pm1_offset_decompose 8 = (1, -1)`, so in the equatorial band
    `unproj (±8, y) = (0, lat)` and `proj` brings it back to `(0, y)`, not to `(±8, y)`: the domain of `proj_unproj` is
    `|x| < 8` -/
theorem proj_unproj_at_eight (y : ℝ) (hy : |y| ≤ 1) :
    ∃ lat, unproj (α := ℝ) 8 y = some (0, lat) ∧ unproj (α := ℝ) (-8) y = some (0, lat) ∧
      proj (α := ℝ) 0 lat = some (0, y) := by
  have hpi := pi_pos
  have h8 : unproj (α := ℝ) 8 |y| = some (0, Real.arcsin (|y| * (2 / 3))) := by
    rw [unproj_pos 8 |y| 4 (by norm_num) (by norm_num) (by norm_num) (abs_nonneg y) (by linarith), if_pos hy]
    congr 2; norm_num
  obtain ⟨a0, a1, a2, a3⟩ := proj_eq_pos 0 (by norm_num) 0 |y| (by norm_num) (by norm_num) (abs_nonneg y) hy
  rw [zero_mul] at a3
  refine ⟨sgn y (Real.arcsin (|y| * (2 / 3))), ?_, ?_, ?_⟩
  · rw [unproj_sym, abs_of_pos (by norm_num : (0 : ℝ) < 8), h8, Option.map_some]; congr 2; unfold sgn; simp
  · rw [unproj_sym, abs_neg, abs_of_pos (by norm_num : (0 : ℝ) < 8), h8, Option.map_some]; congr 2; unfold sgn; simp
  · have := proj_sgn_lift 0 y 0 _ 0 |y| (le_refl _) a0 a3 (fun h => absurd h (lt_irrefl _))
      (fun h => a2 (abs_pos.mpr (ne_of_lt h)))
    rw [sgn_of_nonneg (le_refl (0 : ℝ)), sgn_abs_self] at this
    exact this

/-! ## Outside the Collignon triangles and beyond the pole threshold (first quadrant) -/

/-- right of the triangle of facet `k` (right edge included): the ratio is clamped to `+1`, `unproj` returns the meridian
    `(2k+2)·π/4` between the two facets and `proj` maps it to the left edge of the next triangle (same parallel) -/
theorem proj_unproj_clamped_right (k : ℕ) (hk : k < 4) (x y : ℝ) (h2 : x < 2 * k + 2) (hy1 : 1 < y) (hy2 : y ≤ 2)
    (hpole : (Num.epsPole : ℝ) < 2 - y) (ht : 2 - y ≤ x - (2 * k + 1)) :
    ∃ lat, unproj (α := ℝ) x y = some ((2 * k + 2) * (π / 4), lat) ∧
      proj (α := ℝ) ((2 * k + 2) * (π / 4)) lat = some ((((2 * k + 3) % 8 : ℕ) : ℝ) - (2 - y), y) := by
  have ht0 : 0 < 2 - y := lt_trans epsPole_pos hpole
  obtain ⟨hreg, hl0, hl1, hsig⟩ := capLat_props y hy1 hy2
  have hr : 1 ≤ (x - (2 * k + 1)) / (2 - y) := by rw [le_div_iff₀ ht0]; linarith
  have hc : clamp1 ((x - (2 * k + 1)) / (2 - y)) = 1 := by
    unfold clamp1
    rcases lt_or_eq_of_le hr with h | h
    · rw [if_pos h]
    · rw [← h]; norm_num
  refine ⟨capLat y, ?_, ?_⟩
  · rw [unproj_cap_pos k hk x y (by linarith) h2 hy1 hy2 hpole, hc]; congr 2; ring
  · have := proj_cap_pos (k + 1) (by omega) (-1) (capLat y) (le_refl _) (by norm_num) hreg hl1
    rw [hsig] at this
    rw [show ((2 * k + 2 : ℝ)) * (π / 4) = (-1 + (2 * ((k + 1 : ℕ) : ℝ) + 1)) * (π / 4) by push_cast; ring, this]
    congr 2
    · rw [show 2 * (k + 1) + 1 = 2 * k + 3 by ring]; ring
    · ring

/-- left of the triangle of facet `k`: the ratio is clamped to `-1`, `unproj` returns the meridian `2k·π/4` and `proj` maps
    it to the left edge of the same triangle -/
theorem proj_unproj_clamped_left (k : ℕ) (hk : k < 4) (x y : ℝ) (h1 : (2 * k : ℝ) ≤ x) (hy1 : 1 < y) (hy2 : y ≤ 2)
    (hpole : (Num.epsPole : ℝ) < 2 - y) (ht : x - (2 * k + 1) < -(2 - y)) :
    ∃ lat, unproj (α := ℝ) x y = some (2 * k * (π / 4), lat) ∧
      proj (α := ℝ) (2 * k * (π / 4)) lat = some ((2 * k + 1 : ℝ) - (2 - y), y) := by
  have ht0 : 0 < 2 - y := lt_trans epsPole_pos hpole
  obtain ⟨hreg, hl0, hl1, hsig⟩ := capLat_props y hy1 hy2
  have hr : (x - (2 * k + 1)) / (2 - y) < -1 := by rw [div_lt_iff₀ ht0]; linarith
  have hc : clamp1 ((x - (2 * k + 1)) / (2 - y)) = -1 := by
    unfold clamp1; rw [if_neg (by linarith), if_pos hr]
  refine ⟨capLat y, ?_, ?_⟩
  · rw [unproj_cap_pos k hk x y h1 (by linarith) hy1 hy2 hpole, hc]; congr 2; ring
  · have := proj_cap_pos k (by omega) (-1) (capLat y) (le_refl _) (by norm_num) hreg hl1
    rw [hsig, Nat.mod_eq_of_lt (by omega)] at this
    rw [show (2 * k : ℝ) * (π / 4) = (-1 + (2 * (k : ℝ) + 1)) * (π / 4) by ring, this]
    congr 2
    · push_cast; ring
    · ring

/-- beyond the pole threshold (`2 - y ≤ EPS_POLE`, the pole `y = 2` included) `unproj` does not divide: it returns
    `lon = x·π/4`, and `proj` contracts the abscissa towards the facet centre: `(xc + (x - xc)·(2 - y), y)` -/
theorem proj_unproj_near_pole (k : ℕ) (hk : k < 4) (x y : ℝ) (h1 : (2 * k : ℝ) ≤ x) (h2 : x < 2 * k + 2) (hy2 : y ≤ 2)
    (hpole : 2 - y ≤ (Num.epsPole : ℝ)) :
    ∃ lat, unproj (α := ℝ) x y = some (x * (π / 4), lat) ∧
      proj (α := ℝ) (x * (π / 4)) lat = some ((2 * k + 1 : ℝ) + (x - (2 * k + 1)) * (2 - y), y) := by
  have hy1 : 1 < y := by linarith [epsPole_lt_small]
  obtain ⟨hreg, hl0, hl1, hsig⟩ := capLat_props y hy1 hy2
  refine ⟨capLat y, ?_, ?_⟩
  · rw [unproj_pos x y k (by omega) h1 h2 (by linarith) hy2, if_neg (not_le.mpr hy1), if_neg (not_lt.mpr hpole),
      Nat.mod_eq_of_lt (by omega)]
    congr 3; push_cast; ring
  · have := proj_cap_pos k (by omega) (x - (2 * k + 1)) (capLat y) (by linarith) (by linarith) hreg hl1
    rw [hsig, Nat.mod_eq_of_lt (by omega)] at this
    rw [show x * (π / 4) = (x - (2 * k + 1) + (2 * (k : ℝ) + 1)) * (π / 4) by ring, this]
    congr 2
    · push_cast; ring
    · ring

/-! ## Range of `proj` -/

/-- **range of `proj`** for every latitude and every longitude with `|lon|·4/π < 256` (`|lon| < 64π`, the range on which the
    `as u8` of `pm1_offset_decompose` does not saturate): `|x| < 8` (the value 8 is never produced), `|y| ≤ 2`, `x` carries
    the sign of `lon`, `y` the sign of `lat` -/
theorem proj_range (lon lat : ℝ) (hlon : |lon| * (4 / π) < 256) (hlat0 : -(π / 2) ≤ lat) (hlat1 : lat ≤ π / 2) :
    ∃ X Y, proj (α := ℝ) lon lat = some (X, Y) ∧ |X| < 8 ∧ |Y| ≤ 2 ∧ (0 ≤ lon → 0 ≤ X) ∧ (lon < 0 → X ≤ 0) ∧
      (0 ≤ lat → 0 ≤ Y) ∧ (lat < 0 → Y < 0) ∧ (lon < 0 → |lon| < 2 * π → X < 0) := by
  have hpi := pi_pos
  have ha0 := abs_nonneg lon
  have hb0 := abs_nonneg lat
  have hb1 : |lat| ≤ π / 2 := abs_le.mpr ⟨hlat0, hlat1⟩
  have hx0 : 0 ≤ |lon| * (4 / π) := by positivity
  obtain ⟨k, hk, h1, h2⟩ := facet_exists _ hx0 128 (by push_cast; linarith)
  have hq := proj_pos' |lon| |lat| k hk ha0 h1 h2 hb0 hb1
  obtain ⟨b1, b2, b3, b4, b5, b6, _⟩ := projQ_bounds k _ |lat| h1 h2 hb0 hb1
  set X' := (projQ k (|lon| * (4 / π)) |lat|).1
  set Y' := (projQ k (|lon| * (4 / π)) |lat|).2
  refine ⟨sgn lon X', sgn lat Y', by rw [proj_sym, hq, Option.map_some], ?_, ?_, ?_, ?_, ?_, ?_, ?_⟩
  · rw [abs_sgn, abs_of_nonneg b1]; exact b2
  · rw [abs_sgn, abs_of_nonneg b3]; exact b4
  · intro h; rw [sgn_of_nonneg h]; exact b1
  · intro h; rw [sgn_of_neg h]; simp
  · intro h; rw [sgn_of_nonneg h]; exact b3
  · intro h; rw [sgn_of_neg h, abs_of_nonneg b3]; linarith [b5 (abs_pos.mpr (ne_of_lt h))]
  · intro h h2π
    have hk4 : k < 4 := by
      have : (2 * k : ℝ) < 2 * 4 := by
        have := (lon_scaled_bounds |lon| ha0 h2π).2
        push_cast at this; linarith
      have : (k : ℝ) < 4 := by linarith
      exact_mod_cast this
    rw [sgn_of_neg h, abs_of_nonneg b1]
    linarith [b6 hk4 (mul_pos (abs_pos.mpr (ne_of_lt h)) (by positivity))]

example : |(1 : ℝ)| * (4 / π) < 256 := by
  have := Real.two_le_pi
  rw [abs_one, one_mul, div_lt_iff₀ (by positivity)]; linarith

/-- `proj` has period `2π` in the longitude (as long as `as u8` does not saturate) -/
theorem proj_periodic (lon lat : ℝ) (hlon0 : 0 ≤ lon) (hlon : (lon + 2 * π) * (4 / π) < 256) :
    proj (α := ℝ) (lon + 2 * π) lat = proj (α := ℝ) lon lat := by
  have hpi := pi_pos
  by_cases hc : checkLat (α := ℝ) lat = true
  · obtain ⟨hlat0, hlat1⟩ := (checkLat_iff lat).mp hc
    have hb0 := abs_nonneg lat
    have hb1 : |lat| ≤ π / 2 := abs_le.mpr ⟨hlat0, hlat1⟩
    have e8 : (lon + 2 * π) * (4 / π) = lon * (4 / π) + 8 := by field_simp; ring
    have hx0 : 0 ≤ lon * (4 / π) := by positivity
    obtain ⟨k, hk, h1, h2⟩ := facet_exists _ hx0 124 (by push_cast; linarith)
    have hq := proj_pos' lon |lat| k (by omega) hlon0 h1 h2 hb0 hb1
    have hq' := proj_pos' (lon + 2 * π) |lat| (k + 4) (by omega) (by positivity) (by rw [e8]; push_cast; linarith)
      (by rw [e8]; push_cast; linarith) hb0 hb1
    have hQ : projQ (k + 4) ((lon + 2 * π) * (4 / π)) |lat| = projQ k (lon * (4 / π)) |lat| := by
      unfold projQ
      rw [e8, show (2 * (k + 4) + 1) % 8 = (2 * k + 1) % 8 by omega]
      push_cast
      rw [show lon * (4 / π) + 8 - (2 * ((k : ℝ) + 4) + 1) = lon * (4 / π) - (2 * k + 1) by ring]
    rw [proj_sym, proj_sym lon, abs_of_nonneg hlon0, abs_of_nonneg (by positivity : 0 ≤ lon + 2 * π), hq, hq', hQ,
      Option.map_some, Option.map_some, sgn_of_nonneg hlon0, sgn_of_nonneg (by positivity : 0 ≤ lon + 2 * π)]
  · rw [Bool.not_eq_true] at hc
    unfold proj; simp [hc]

/-- **at `lon = 2π` exactly** the model gives the same point as at `lon = 0` (`8 as u8 = 8`, odd floor 9, offset
    `9 & 7 = 1`, `pm1 = -1`): `x = 0` in the equatorial band, never `8` -/
theorem proj_two_pi (lat : ℝ) : proj (α := ℝ) (2 * π) lat = proj (α := ℝ) 0 lat := by
  have hpi := pi_pos
  have := proj_periodic 0 lat (le_refl _) (by
    rw [zero_add, show 2 * π * (4 / π) = 8 by field_simp; ring]; norm_num)
  rwa [zero_add] at this

theorem proj_zero_equatorial (lat : ℝ) (h : |lat| ≤ Real.arcsin (2 / 3)) :
    proj (α := ℝ) 0 lat = some (0, 3 / 2 * Real.sin lat) := by
  have hpi := pi_pos
  have ha := Real.arcsin_le_pi_div_two (2 / 3)
  obtain ⟨h1, h2⟩ := abs_le.mp h
  have := proj_eq_spec 0 lat (le_refl _) (by positivity) (by linarith) (by linarith)
  rw [this]; unfold projSpec
  have hs : |Real.sin lat| ≤ 2 / 3 := by
    rw [abs_sin_eq lat (by linarith) (by linarith)]
    exact (le_transition_iff |lat| (by linarith [abs_nonneg lat]) (by linarith)).mp h
  simp only [hs, if_true]; congr 2; simp

/-- beyond `|lon|·4/π ≥ 256` the conversion `as u8` saturates at 255 and the range property is lost (`lon > 200 rad`;
    the documentation of `proj` only promises "reasonably large" longitudes) -/
theorem pm1OffsetDecompose_saturated (x : ℝ) (h : 256 ≤ x) :
    pm1OffsetDecompose (α := ℝ) x = (7, x - 255) := by
  unfold pm1OffsetDecompose
  show ((min ⌊max x 0⌋₊ 255 ||| 1) &&& 7, x - (((min ⌊max x 0⌋₊ 255 ||| 1 : ℕ)) : ℝ)) = _
  rw [max_eq_left (by linarith)]
  have : 255 ≤ ⌊x⌋₊ := Nat.le_floor (by push_cast; linarith)
  rw [min_eq_right this, show (255 ||| 1 : ℕ) = 255 by decide, show (255 &&& 7 : ℕ) = 7 by decide]
  norm_num

/-- consequence: on the equator, for `lon ≥ 64π`, `proj` returns `x = lon·4/π − 248 ≥ 8`, outside the range -/
theorem proj_saturated (lon : ℝ) (h : 256 ≤ lon * (4 / π)) :
    proj (α := ℝ) lon 0 = some (lon * (4 / π) - 248, 0) ∧ 8 ≤ lon * (4 / π) - 248 := by
  have hpi := pi_pos
  have hlon : 0 ≤ lon := by
    by_contra hn; rw [not_le] at hn
    have : lon * (4 / π) < 0 := mul_neg_of_neg_of_pos hn (by positivity)
    linarith
  have hchk : checkLat (α := ℝ) 0 = true := by rw [checkLat_iff]; constructor <;> linarith
  have hs_lon : Num.signBit lon = false := by rw [r_signBit]; simpa using hlon
  have hs_lat : Num.signBit (0 : ℝ) = false := by rw [r_signBit]; simp
  have hreg : (0 : ℝ) ≤ Real.arcsin (2 / 3) := Real.arcsin_nonneg.mpr (by norm_num)
  refine ⟨?_, by linarith⟩
  unfold proj
  simp only [hchk, Bool.not_true, Bool.false_eq_true, if_false, r_abs, abs_of_nonneg hlon, abs_zero,
    hs_lon, hs_lat, r_fourOverPi, pm1OffsetDecompose_saturated _ h, isInEquatorialRegion, r_le, r_transitionLat,
    applyOffsetAndSigns, r_orSign_false, r_ofNat, hreg, decide_true, if_true, projCea, r_sin, r_ootz, Real.sin_zero]
  congr 2
  · push_cast; ring
  · ring

#print axioms proj_unproj
#print axioms proj_unproj_neg_zero
#print axioms proj_unproj_at_eight
#print axioms proj_unproj_clamped_right
#print axioms proj_unproj_clamped_left
#print axioms proj_unproj_near_pole
#print axioms proj_range
#print axioms proj_periodic
#print axioms proj_two_pi
#print axioms proj_zero_equatorial
#print axioms proj_saturated
end Hpx.Proj
