/-
C17 over the reals, part 4: `proj ∘ unproj = id` on the projected domain (every sign quadrant), what `unproj` does outside
the Collignon triangles, and the range of `proj`.
-/
import HpxVerif.Lemmas.ProjReal3
namespace Hpx.Proj
open Real

/-- lifting a first-quadrant evaluation of `proj` to the quadrant given by the signs of `s₁`, `s₂` -/
theorem proj_sgn_lift (s₁ s₂ L B X Y : ℝ) (hL : 0 ≤ L) (hB : 0 ≤ B) (h : proj (α := ℝ) L B = some (X, Y))
    (hL' : s₁ < 0 → 0 < L) (hB' : s₂ < 0 → 0 < B) :
    proj (α := ℝ) (sgn s₁ L) (sgn s₂ B) = some (sgn s₁ X, sgn s₂ Y) := by
  rw [proj_sym, abs_sgn, abs_sgn, abs_of_nonneg hL, abs_of_nonneg hB, h, Option.map_some]
  congr 2
  · by_cases hs : s₁ < 0
    · have : sgn s₁ L < 0 := by rw [sgn_of_neg hs, abs_of_nonneg hL]; linarith [hL' hs]
      rw [sgn_of_neg this, sgn_of_neg hs]
    · have : 0 ≤ sgn s₁ L := by rw [sgn_of_nonneg (not_lt.mp hs)]; exact hL
      rw [sgn_of_nonneg this, sgn_of_nonneg (not_lt.mp hs)]
  · by_cases hs : s₂ < 0
    · have : sgn s₂ B < 0 := by rw [sgn_of_neg hs, abs_of_nonneg hB]; linarith [hB' hs]
      rw [sgn_of_neg this, sgn_of_neg hs]
    · have : 0 ≤ sgn s₂ B := by rw [sgn_of_nonneg (not_lt.mp hs)]; exact hB
      rw [sgn_of_nonneg this, sgn_of_nonneg (not_lt.mp hs)]

theorem scaled_back (x : ℝ) : x * (π / 4) * (4 / π) = x := by
  have := pi_pos; field_simp

/-! ## Equatorial band, first quadrant -/

theorem unproj_eq_pos (k : ℕ) (hk : k < 4) (x y : ℝ) (h1 : (2 * k : ℝ) ≤ x) (h2 : x < 2 * k + 2) (hy0 : 0 ≤ y) (hy1 : y ≤ 1) :
    unproj (α := ℝ) x y = some (x * (π / 4), Real.arcsin (y * (2 / 3))) := by
  rw [unproj_pos x y k (by omega) h1 h2 hy0 (by linarith), if_pos hy1, Nat.mod_eq_of_lt (by omega)]
  congr 3; push_cast; ring

theorem proj_eq_pos (k : ℕ) (hk : k < 4) (x y : ℝ) (h1 : (2 * k : ℝ) ≤ x) (h2 : x < 2 * k + 2) (hy0 : 0 ≤ y) (hy1 : y ≤ 1) :
    0 ≤ Real.arcsin (y * (2 / 3)) ∧ Real.arcsin (y * (2 / 3)) ≤ π / 2 ∧ (0 < y → 0 < Real.arcsin (y * (2 / 3))) ∧
    proj (α := ℝ) (x * (π / 4)) (Real.arcsin (y * (2 / 3))) = some (x, y) := by
  have hpi := pi_pos
  have hx0 : 0 ≤ x := le_trans (by positivity) h1
  have ha0 : 0 ≤ Real.arcsin (y * (2 / 3)) := Real.arcsin_nonneg.mpr (by positivity)
  have ha1 := Real.arcsin_le_pi_div_two (y * (2 / 3))
  refine ⟨ha0, ha1, fun h => Real.arcsin_pos.mpr (by positivity), ?_⟩
  rw [proj_pos' _ _ k (by omega) (by positivity) (by rw [scaled_back]; exact h1) (by rw [scaled_back]; exact h2) ha0 ha1,
    scaled_back]
  unfold projQ
  rw [if_pos (Real.arcsin_le_arcsin (by linarith)), Real.sin_arcsin (by linarith) (by linarith),
    Nat.mod_eq_of_lt (by omega)]
  congr 2
  · push_cast; ring
  · ring

/-! ## Polar caps, first quadrant -/

/-- latitude returned by `deproj_collignon` for the ordinate `y` -/
noncomputable def capLat (y : ℝ) : ℝ := 2 * Real.arccos ((2 - y) * (1 / Real.sqrt 6)) - π / 2

theorem capLat_props (y : ℝ) (hy1 : 1 < y) (hy2 : y ≤ 2) :
    ¬ capLat y ≤ Real.arcsin (2 / 3) ∧ 0 < capLat y ∧ capLat y ≤ π / 2 ∧ sig (capLat y) = 2 - y := by
  have hpi := pi_pos
  have h6 : 0 < Real.sqrt 6 := Real.sqrt_pos.mpr (by norm_num)
  have h61 : 1 < Real.sqrt 6 := by
    rw [show (1 : ℝ) = Real.sqrt 1 by simp]; exact Real.sqrt_lt_sqrt (by norm_num) (by norm_num)
  have hq0 : 0 ≤ (2 - y) * (1 / Real.sqrt 6) := mul_nonneg (by linarith) (by positivity)
  have hq1 : (2 - y) * (1 / Real.sqrt 6) ≤ 1 := by
    rw [mul_one_div, div_le_one h6]; linarith
  have ha0 := Real.arccos_nonneg ((2 - y) * (1 / Real.sqrt 6))
  have ha1 : Real.arccos ((2 - y) * (1 / Real.sqrt 6)) ≤ π / 2 := Real.arccos_le_pi_div_two.mpr hq0
  have hsig : sig (capLat y) = 2 - y := by
    unfold sig capLat
    rw [show 1 / 2 * (2 * Real.arccos ((2 - y) * (1 / Real.sqrt 6)) - π / 2) + π / 4 =
      Real.arccos ((2 - y) * (1 / Real.sqrt 6)) by ring, Real.cos_arccos (by linarith) hq1]
    field_simp
  have hl1 : capLat y ≤ π / 2 := by unfold capLat; linarith
  have hl0 : -(π / 2) ≤ capLat y := by unfold capLat; linarith
  have hreg : ¬ capLat y ≤ Real.arcsin (2 / 3) := (sig_lt_one_iff _ hl0 hl1).mp (by rw [hsig]; linarith)
  exact ⟨hreg, lt_of_le_of_lt (Real.arcsin_nonneg.mpr (by norm_num)) (not_le.mp hreg), hl1, hsig⟩

theorem unproj_cap_pos (k : ℕ) (hk : k < 4) (x y : ℝ) (h1 : (2 * k : ℝ) ≤ x) (h2 : x < 2 * k + 2) (hy1 : 1 < y) (hy2 : y ≤ 2)
    (hpole : (Num.epsPole : ℝ) < 2 - y) :
    unproj (α := ℝ) x y = some ((clamp1 ((x - (2 * k + 1)) / (2 - y)) + (2 * k + 1)) * (π / 4), capLat y) := by
  rw [unproj_pos x y k (by omega) h1 h2 (by linarith) hy2, if_neg (not_le.mpr hy1), if_pos hpole,
    Nat.mod_eq_of_lt (by omega)]
  congr 3; push_cast; ring

/-- `proj` of a cap position given by its facet index `k` and its offset `l ∈ [-1, 1)` (units of `π/4`) -/
theorem proj_cap_pos (k : ℕ) (hk : k < 128) (l lat : ℝ) (hl1 : -1 ≤ l) (hl2 : l < 1) (hreg : ¬ lat ≤ Real.arcsin (2 / 3))
    (hlat : lat ≤ π / 2) :
    proj (α := ℝ) ((l + (2 * k + 1)) * (π / 4)) lat = some (l * sig lat + ((2 * k + 1) % 8 : ℕ), 2 - sig lat) := by
  have hpi := pi_pos
  have hlat0 : 0 ≤ lat := le_trans (Real.arcsin_nonneg.mpr (by norm_num)) (le_of_lt (not_le.mp hreg))
  have hk0 : (0 : ℝ) ≤ k := Nat.cast_nonneg k
  rw [proj_pos' _ _ k hk (mul_nonneg (by linarith) (by positivity))
    (by rw [scaled_back]; linarith) (by rw [scaled_back]; linarith) hlat0 hlat, scaled_back]
  unfold projQ
  rw [if_neg hreg]
  congr 3; ring

/-- **`proj ∘ unproj = id` inside a Collignon triangle** (first quadrant): `-(2-y) ≤ x - (2k+1) < 2-y` -/
theorem proj_unproj_cap_pos (k : ℕ) (hk : k < 4) (x y : ℝ) (hy1 : 1 < y) (hy2 : y ≤ 2)
    (hpole : (Num.epsPole : ℝ) < 2 - y) (ht1 : -(2 - y) ≤ x - (2 * k + 1)) (ht2 : x - (2 * k + 1) < 2 - y) :
    ∃ lon lat, unproj (α := ℝ) x y = some (lon, lat) ∧ 0 ≤ lon ∧ lon < 2 * π ∧ (x ≠ y - 1 → 0 < lon) ∧ 0 < lat ∧
      lat ≤ π / 2 ∧ proj (α := ℝ) lon lat = some (x, y) := by
  have hpi := pi_pos
  have ht : 0 < 2 - y := lt_trans epsPole_pos hpole
  obtain ⟨hreg, hl0, hl1, hsig⟩ := capLat_props y hy1 hy2
  have hk0 : (0 : ℝ) ≤ k := Nat.cast_nonneg k
  set l := (x - (2 * k + 1)) / (2 - y) with hl
  have hlt : l * (2 - y) = x - (2 * k + 1) := by rw [hl]; field_simp
  have hm1 : -1 ≤ l := by rw [hl, le_div_iff₀ ht]; linarith
  have hp1 : l < 1 := by rw [hl, div_lt_one ht]; linarith
  have hcl : clamp1 l = l := by unfold clamp1; rw [if_neg (by linarith), if_neg (by linarith)]
  have hk3 : (k : ℝ) ≤ 3 := by
    have : k ≤ 3 := by omega
    exact_mod_cast this
  refine ⟨(l + (2 * k + 1)) * (π / 4), capLat y, ?_, ?_, ?_, ?_, hl0, hl1, ?_⟩
  · rw [unproj_cap_pos k hk x y (by linarith) (by linarith) hy1 hy2 hpole, hcl]
  · exact mul_nonneg (by linarith) (by positivity)
  · rw [show 2 * π = 8 * (π / 4) by ring]
    exact mul_lt_mul_of_pos_right (by linarith) (by positivity)
  · intro hne
    have : 0 < l + (2 * k + 1) := by
      rcases Nat.eq_zero_or_pos k with rfl | hkp
      · have : l ≠ -1 := by
          intro h; apply hne; rw [h] at hlt; push_cast at hlt; linarith
        have : -1 < l := lt_of_le_of_ne hm1 (Ne.symm this)
        push_cast; linarith
      · have : (1 : ℝ) ≤ k := by exact_mod_cast hkp
        linarith
    positivity
  · rw [proj_cap_pos k (by omega) l (capLat y) hm1 hp1 hreg hl1, hsig, hlt, Nat.mod_eq_of_lt (by omega)]
    congr 2
    · push_cast; ring
    · ring
end Hpx.Proj
