/-
The hand-written finite tables of `Model/Topo.lean` / `Model/Hash.lean` equal the tables that the translator tabulates
from the source text (`Gen/TopoTables.lean`, regenerated on every run).  Every statement is over a finite domain and
is decided by the kernel.  A change of any arm of `ncp_/eqr_/spc_neighbour`, of the `lib.rs` base-cell tables, of the
direction tables or of `MainWind`'s methods changes the generated table and breaks the corresponding theorem here.
-/
import HpxVerif.Model.Hash
import HpxVerif.Gen.TopoTables

namespace Hpx.TopoGen
open Hpx Hpx.Topo

def lk {α : Type} (l : List α) (k : Nat) : Option α := l[k]?
def lk2 {α : Type} (l : List (List α)) (a b : Nat) : Option α := (l[a]?).bind (·[b]?)
def lk3 {α : Type} (l : List (List (List α))) (a b c : Nat) : Option α := ((l[a]?).bind (·[b]?)).bind (·[c]?)

def srcOfCode : Nat → Option Src
  | 0 => some .i | 1 => some .j | 2 => some .zero | 3 => some .m | _ => none

def decodeSeam (e : Option (Nat × Nat × Nat)) : Option (Nat × Src × Src) :=
  match e with
  | none => none
  | some (b, si, sj) => match srcOfCode si, srcOfCode sj with
    | some a, some c => some (b, a, c)
    | _, _ => none

theorem mem_all (w : MW) : w ∈ MW.all := by cases w <;> decide

/-- lift a decidable statement over `MW.all` to all of `MW` -/
theorem forall_mw {P : MW → Prop} (h : ∀ w ∈ MW.all, P w) (w : MW) : P w := h w (mem_all w)

theorem mw_index_roundtrip : ∀ w : MW, MW.ofIndex w.index = some w := forall_mw (by decide)

theorem mw_from_index : ∀ k, k < 9 → (lk Gen.mwFromIndex k).bind MW.ofIndex = MW.ofIndex k := by decide

theorem mw_opposite : ∀ w : MW, (lk Gen.mwOpposite w.index).bind MW.ofIndex = some w.opposite := forall_mw (by decide)

theorem mw_offsets : ∀ w : MW, lk Gen.mwOffsetSe w.index = some w.offsetSe ∧ lk Gen.mwOffsetSw w.index = some w.offsetSw :=
  forall_mw (by decide)

theorem mw_kinds : ∀ w : MW, lk Gen.mwIsCardinal w.index = some w.isCardinal ∧ lk Gen.mwIsOrdinal w.index = some w.isOrdinal :=
  forall_mw (by decide)

theorem mw_from_offsets : ∀ se sw : Fin 3,
    MW.ofOffsets ((se.val : Int) - 1) ((sw.val : Int) - 1) = (lk Gen.mwFromOffsets (3 * sw.val + se.val)).bind MW.ofIndex := by
  decide

theorem cardinal_cycles : ∀ c, c < 4 →
    lk Gen.cardNextClockwise c = some (Hash.nextClockwise c) ∧
    lk Gen.cardNextCounterClockwise c = some (Hash.nextCounterClockwise c) := by decide

/-- the three seam-rule functions of `nested/mod.rs` (through their dispatcher) are the model's `seamRule` -/
theorem seam_rules : ∀ b, b < 12 → ∀ w : MW, w ≠ .C →
    seamRule b w = decodeSeam ((lk2 Gen.seamRules b w.index).bind id) := by
  have h : ∀ b, b < 12 → ∀ w ∈ MW.all, w ≠ .C → seamRule b w = decodeSeam ((lk2 Gen.seamRules b w.index).bind id) := by
    decide
  exact fun b hb w => h b hb w (mem_all w)

/-- the base cell reached through a seam rule is `lib::neighbour` of the base cell (the two tables of the crate agree) -/
theorem seam_rules_base : ∀ b, b < 12 → ∀ w : MW, w ≠ .C →
    (seamRule b w).map (·.1) = (lk2 Gen.baseNeighbour b w.index).bind id := by
  have h : ∀ b, b < 12 → ∀ w ∈ MW.all, w ≠ .C →
      (seamRule b w).map (·.1) = (lk2 Gen.baseNeighbour b w.index).bind id := by decide
  exact fun b hb w => h b hb w (mem_all w)

theorem direction_from_neighbour : ∀ b, b < 12 → ∀ w : MW,
    directionFromNeighbour b w = ((lk2 Gen.directionFromNeighbour b w.index).bind id).bind MW.ofIndex := by
  have h : ∀ b, b < 12 → ∀ w ∈ MW.all,
      directionFromNeighbour b w = ((lk2 Gen.directionFromNeighbour b w.index).bind id).bind MW.ofIndex := by decide
  exact fun b hb w => h b hb w (mem_all w)

theorem edge_cell_direction_from_neighbour : ∀ b, b < 12 → ∀ inner nd : MW,
    edgeCellDirectionFromNeighbour b inner nd =
      ((lk3 Gen.edgeCellDirectionFromNeighbour b inner.index nd.index).bind id).bind MW.ofIndex := by
  have h : ∀ b, b < 12 → ∀ inner ∈ MW.all, ∀ nd ∈ MW.all,
      edgeCellDirectionFromNeighbour b inner nd =
        ((lk3 Gen.edgeCellDirectionFromNeighbour b inner.index nd.index).bind id).bind MW.ofIndex := by decide +kernel
  exact fun b hb i n => h b hb i (mem_all i) n (mem_all n)

end Hpx.TopoGen
