/-
`CellReal.hashBack` (the back end of `hash_with_dxdy` on plane coordinates) is independent of `cfg.bmi`.
-/
import HpxVerif.Lemmas.NoBmi
import HpxVerif.Lemmas.CellReal4

set_option autoImplicit false

namespace Hpx.BmiTransfer
open Hpx Hpx.Hash Hpx.LayerBmi
section
variable {α : Type} [Num α]
theorem hashBack_noBmi (cfg : Cfg) (d : Nat) (xy : α × α) :
    CellReal.hashBack cfg d xy = CellReal.hashBack (noBmi cfg) d xy := by
  unfold CellReal.hashBack
  simp only [zoc_eq cfg, ij2h_eq cfg]
  rfl

end
end Hpx.BmiTransfer
