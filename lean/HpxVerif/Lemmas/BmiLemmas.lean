import HpxVerif.Lemmas.BitsLemmas

/-!
Lemmas for C18, BMI2 build: the `pdep`/`pext` variants of the z-order curve (`Bmi.*` in `Model/Bits.lean`) compute
the bit interleaving and its inverse, for every input, and agree with the look-up-table variants (`Lut.*`).
Core Lean only.
-/

namespace Hpx

/-! ## the masks -/

/-- the number whose set bits are the even positions below `2k` (`0x5555…`) -/
def evenMask : Nat → Nat
  | 0 => 0
  | k + 1 => 1 + 4 * evenMask k

/-- "bit `p` of `m` is set iff `p` is even and `p < 2k`" -/
def IsEvenMask (k m : Nat) : Prop := ∀ p, m.testBit p = (p % 2 == 0 && decide (p < 2 * k))

/-- "bit `p` of `m` is set iff `p` is odd and `p < 2k`" -/
def IsOddMask (k m : Nat) : Prop := ∀ p, m.testBit p = (p % 2 == 1 && decide (p < 2 * k))

theorem evenMask_eq_spreadN (k : Nat) : evenMask k = spreadN k (2 ^ k - 1) := by
  induction k with
  | zero => rfl
  | succ k ih =>
    have hp : 0 < 2 ^ k := Nat.two_pow_pos k
    have h1 : (2 ^ (k + 1) - 1) % 2 = 1 := by rw [Nat.pow_succ]; omega
    have h2 : (2 ^ (k + 1) - 1) / 2 = 2 ^ k - 1 := by rw [Nat.pow_succ]; omega
    simp only [evenMask, spreadN, h1, h2, ih]

theorem testBit_evenMask (k p : Nat) : (evenMask k).testBit p = (p % 2 == 0 && decide (p < 2 * k)) := by
  rw [evenMask_eq_spreadN, testBit_spreadN, Nat.testBit_two_pow_sub_one]
  by_cases h : p < 2 * k
  · have : p / 2 < k := by omega
    simp [h, this]
  · have : ¬ p / 2 < k := by omega
    simp [h, this]

theorem testBit_two_mul_evenMask (k p : Nat) :
    (2 * evenMask k).testBit p = (p % 2 == 1 && decide (p < 2 * k)) := by
  match p with
  | 0 => simp [Nat.testBit_zero]
  | p + 1 =>
    rw [Nat.testBit_succ, show 2 * evenMask k / 2 = evenMask k by omega, testBit_evenMask]
    have h1 : ((p + 1) % 2 == 1) = (p % 2 == 0) := by
      rcases Nat.mod_two_eq_zero_or_one p with h | h <;> simp [h, Nat.add_mod]
    rw [h1]
    by_cases h0 : p % 2 = 0
    · by_cases h : p < 2 * k
      · have : p + 1 < 2 * k := by omega
        simp [h0, h, this]
      · have : ¬ p + 1 < 2 * k := by omega
        simp [h0, h, this]
    · have h0' : p % 2 = 1 := by omega
      simp [h0']

theorem isEvenMask_iff (k m : Nat) : IsEvenMask k m ↔ m = evenMask k := by
  constructor
  · intro h; apply Nat.eq_of_testBit_eq; intro p; rw [h p, testBit_evenMask]
  · rintro rfl p; exact testBit_evenMask k p

theorem isOddMask_iff (k m : Nat) : IsOddMask k m ↔ m = 2 * evenMask k := by
  constructor
  · intro h; apply Nat.eq_of_testBit_eq; intro p; rw [h p, testBit_two_mul_evenMask]
  · rintro rfl p; exact testBit_two_mul_evenMask k p

/-! ## `pdep` / `pext` with an even or odd mask: induction on the recursion of the SDM pseudo-code -/

theorem pdepAux_zero_mask (w src pos : Nat) : pdepAux w src 0 pos = 0 := by
  induction w generalizing pos with
  | zero => rfl
  | succ w ih => simp [pdepAux, ih]

theorem pextAux_zero_mask (w src : Nat) : pextAux w src 0 = 0 := by
  induction w generalizing src with
  | zero => rfl
  | succ w ih => simp [pextAux, ih]

theorem pdepAux_evenMask (k : Nat) : ∀ w src pos, 2 * k ≤ w + 1 →
    pdepAux w src (evenMask k) pos = 2 ^ pos * spreadN k src := by
  induction k with
  | zero => intro w src pos _; simp [evenMask, pdepAux_zero_mask, spreadN]
  | succ k ih =>
    intro w src pos hw
    have h1 : (1 + 4 * evenMask k) % 2 = 1 := by omega
    have h2 : (1 + 4 * evenMask k) / 2 = 2 * evenMask k := by omega
    have h3 : (2 * evenMask k) % 2 ≠ 1 := by omega
    have h4 : 2 * evenMask k / 2 = evenMask k := by omega
    match w, hw with
    | 0, hw => omega
    | 1, hw =>
      have : k = 0 := by omega
      subst this
      simp [pdepAux, evenMask, spreadN, Nat.mul_comm]
    | w + 2, hw =>
      simp only [evenMask, spreadN, pdepAux, h1, h2, h3, h4, if_true, if_false]
      rw [ih w (src / 2) (pos + 1 + 1) (by omega), Nat.pow_succ, Nat.pow_succ, Nat.mul_add,
        Nat.mul_comm (src % 2), Nat.mul_assoc, Nat.mul_assoc]
      congr 2; omega

theorem pdepAux_oddMask (k w src pos : Nat) (hw : 2 * k ≤ w) :
    pdepAux w src (2 * evenMask k) pos = 2 ^ (pos + 1) * spreadN k src := by
  match w, hw with
  | 0, hw =>
    have : k = 0 := by omega
    subst this; simp [pdepAux, spreadN]
  | w + 1, hw =>
    have h3 : (2 * evenMask k) % 2 ≠ 1 := by omega
    have h4 : 2 * evenMask k / 2 = evenMask k := by omega
    simp only [pdepAux, h3, h4, if_false]
    exact pdepAux_evenMask k w src (pos + 1) (by omega)

theorem pextAux_evenMask (k : Nat) : ∀ w src, 2 * k ≤ w + 1 →
    pextAux w src (evenMask k) = squeezeN k src := by
  induction k with
  | zero => intro w src _; simp [evenMask, pextAux_zero_mask, squeezeN]
  | succ k ih =>
    intro w src hw
    have h1 : (1 + 4 * evenMask k) % 2 = 1 := by omega
    have h2 : (1 + 4 * evenMask k) / 2 = 2 * evenMask k := by omega
    have h3 : (2 * evenMask k) % 2 ≠ 1 := by omega
    have h4 : 2 * evenMask k / 2 = evenMask k := by omega
    match w, hw with
    | 0, hw => omega
    | 1, hw =>
      have : k = 0 := by omega
      subst this
      simp [pextAux, evenMask, squeezeN]
    | w + 2, hw =>
      simp only [evenMask, squeezeN, pextAux, h1, h2, h3, h4, if_true, if_false]
      rw [ih w (src / 2 / 2) (by omega), Nat.div_div_eq_div_mul]

theorem pextAux_oddMask (k w src : Nat) (hw : 2 * k ≤ w) :
    pextAux w src (2 * evenMask k) = squeezeN k (src / 2) := by
  match w, hw with
  | 0, hw =>
    have : k = 0 := by omega
    subst this; simp [pextAux, squeezeN]
  | w + 1, hw =>
    have h3 : (2 * evenMask k) % 2 ≠ 1 := by omega
    have h4 : 2 * evenMask k / 2 = evenMask k := by omega
    simp only [pextAux, h3, h4, if_false]
    exact pextAux_evenMask k w (src / 2) (by omega)

theorem spreadN_mod_ge {k w : Nat} (hkw : k ≤ w) (n : Nat) : spreadN k (n % 2 ^ w) = spreadN k n := by
  rw [← spreadN_mod k (n % 2 ^ w), Nat.mod_mod_of_dvd _ (Nat.pow_dvd_pow 2 hkw), spreadN_mod]

theorem squeezeN_mod_ge {k w : Nat} (hkw : 2 * k ≤ w + 1) (h : Nat) : squeezeN k (h % 2 ^ w) = squeezeN k h := by
  apply Nat.eq_of_testBit_eq; intro q
  simp only [testBit_squeezeN, Nat.testBit_mod_two_pow]
  by_cases hq : q < k
  · have : 2 * q < w := by omega
    simp [hq, this]
  · simp [hq]

theorem squeezeN_half_mod_ge {k w : Nat} (hkw : 2 * k ≤ w) (h : Nat) :
    squeezeN k (h % 2 ^ w / 2) = squeezeN k (h / 2) := by
  apply Nat.eq_of_testBit_eq; intro q
  simp only [testBit_squeezeN, ← Nat.testBit_succ, Nat.testBit_mod_two_pow]
  by_cases hq : q < k
  · have : 2 * q + 1 < w := by omega
    simp [hq, this]
  · simp [hq]

/-- **`pdep` with the even mask spreads**: for every operand width `w` that contains the mask, every `src`
    (the bits of `src` from position `k` on are ignored, as in the instruction) -/
theorem pdep_even {k w m : Nat} (hm : IsEvenMask k m) (hw : 2 * k ≤ w + 1) (src : Nat) :
    pdep w src m = spreadN k src := by
  rw [(isEvenMask_iff k m).1 hm, pdep, pdepAux_evenMask k w _ 0 hw, Nat.pow_zero, Nat.one_mul,
    spreadN_mod_ge (by omega)]

/-- **`pdep` with the odd mask spreads and shifts by one** -/
theorem pdep_odd {k w m : Nat} (hm : IsOddMask k m) (hw : 2 * k ≤ w) (src : Nat) :
    pdep w src m = spreadN k src <<< 1 := by
  rw [(isOddMask_iff k m).1 hm, pdep, pdepAux_oddMask k w _ 0 hw, spreadN_mod_ge (by omega), Nat.shiftLeft_eq,
    Nat.mul_comm]

/-- **`pext` with the even mask squeezes the even bits** -/
theorem pext_even {k w m : Nat} (hm : IsEvenMask k m) (hw : 2 * k ≤ w + 1) (h : Nat) :
    pext w h m = squeezeN k h := by
  rw [(isEvenMask_iff k m).1 hm, pext, pextAux_evenMask k w _ hw, squeezeN_mod_ge hw]

/-- **`pext` with the odd mask squeezes the odd bits** -/
theorem pext_odd {k w m : Nat} (hm : IsOddMask k m) (hw : 2 * k ≤ w) (h : Nat) :
    pext w h m = squeezeN k (h / 2) := by
  rw [(isOddMask_iff k m).1 hm, pext, pextAux_oddMask k w _ hw, squeezeN_half_mod_ge hw]

/-- the forms asked for: `src < 2^k`, `2k ≤ w` -/
theorem pdep_even' {k w m src : Nat} (hm : IsEvenMask k m) (hw : 2 * k ≤ w) (_ : src < 2 ^ k) :
    pdep w src m = spreadN k src := pdep_even hm (by omega) src

/-! ## the literal masks of `Gen/ZocTables.lean` satisfy the predicates -/

theorem mask_small_even : IsEvenMask 8 0x5555 := (isEvenMask_iff _ _).2 (by decide)
theorem mask_small_odd : IsOddMask 8 0xAAAA := (isOddMask_iff _ _).2 (by decide)
theorem mask_mediu_even : IsEvenMask 16 0x55555555 := (isEvenMask_iff _ _).2 (by decide)
theorem mask_mediu_odd : IsOddMask 16 0xAAAAAAAA := (isOddMask_iff _ _).2 (by decide)
theorem mask_large_even : IsEvenMask 32 0x5555555555555555 := (isEvenMask_iff _ _).2 (by decide)
theorem mask_large_odd : IsOddMask 32 0xAAAAAAAAAAAAAAAA := (isOddMask_iff _ _).2 (by decide)

/-! ## the BMI2 implementations, for every input -/

theorem bmi_i02h_eq (c : ZocClass) (i : Nat) : Bmi.i02h c i = spreadN c.bits i := by
  cases c
  · simp [Bmi.i02h, ZocClass.bits, spreadN]
  · simp only [Bmi.i02h, Bmi.call, Bmi.nth, Bmi.callsI02h, Gen.bmi_small_i02h, List.getD_cons_zero, if_true,
      ZocClass.bits]
    rw [pdep_even mask_small_even (by decide), show (4294967296 : Nat) = 2 ^ 32 by decide, spreadN_mod_ge (by decide)]
  · simp only [Bmi.i02h, Bmi.call, Bmi.nth, Bmi.callsI02h, Gen.bmi_mediu_i02h, List.getD_cons_zero, if_true,
      ZocClass.bits]
    rw [pdep_even mask_mediu_even (by decide), show (4294967296 : Nat) = 2 ^ 32 by decide, spreadN_mod_ge (by decide)]
  · simp only [Bmi.i02h, Bmi.call, Bmi.nth, Bmi.callsI02h, Gen.bmi_large_i02h, List.getD_cons_zero, if_true,
      ZocClass.bits]
    rw [pdep_even mask_large_even (by decide), show (4294967296 : Nat) = 2 ^ 32 by decide, spreadN_mod_ge (by decide)]

theorem bmi_oj2h_eq (c : ZocClass) (j : Nat) : Bmi.oj2h c j = spreadN c.bits j <<< 1 := by
  cases c
  · simp [Bmi.oj2h, ZocClass.bits, spreadN]
  · simp only [Bmi.oj2h, Bmi.call, Bmi.nth, Bmi.callsOj2h, Gen.bmi_small_oj2h, List.getD_cons_zero, if_true,
      ZocClass.bits]
    rw [pdep_odd mask_small_odd (by decide), show (4294967296 : Nat) = 2 ^ 32 by decide, spreadN_mod_ge (by decide)]
  · simp only [Bmi.oj2h, Bmi.call, Bmi.nth, Bmi.callsOj2h, Gen.bmi_mediu_oj2h, List.getD_cons_zero, if_true,
      ZocClass.bits]
    rw [pdep_odd mask_mediu_odd (by decide), show (4294967296 : Nat) = 2 ^ 32 by decide, spreadN_mod_ge (by decide)]
  · simp only [Bmi.oj2h, Bmi.call, Bmi.nth, Bmi.callsOj2h, Gen.bmi_large_oj2h, List.getD_cons_zero, if_true,
      ZocClass.bits]
    rw [pdep_odd mask_large_odd (by decide), show (4294967296 : Nat) = 2 ^ 32 by decide, spreadN_mod_ge (by decide)]

theorem bmi_ij2h_eq (c : ZocClass) (i j : Nat) :
    Bmi.ij2h c i j = spreadN c.bits i ||| (spreadN c.bits j <<< 1) := by
  cases c
  · simp [Bmi.ij2h, ZocClass.bits, spreadN]
  · simp only [Bmi.ij2h, Bmi.call, Bmi.nth, Bmi.callsIj2h, Gen.bmi_small_ij2h, List.getD_cons_zero,
      List.getD_cons_succ, if_true, ZocClass.bits]
    rw [pdep_even mask_small_even (by decide), pdep_odd mask_small_odd (by decide),
      show (4294967296 : Nat) = 2 ^ 32 by decide, spreadN_mod_ge (by decide), spreadN_mod_ge (by decide)]
  · simp only [Bmi.ij2h, Bmi.call, Bmi.nth, Bmi.callsIj2h, Gen.bmi_mediu_ij2h, List.getD_cons_zero,
      List.getD_cons_succ, if_true, ZocClass.bits]
    rw [pdep_even mask_mediu_even (by decide), pdep_odd mask_mediu_odd (by decide),
      show (4294967296 : Nat) = 2 ^ 32 by decide, spreadN_mod_ge (by decide), spreadN_mod_ge (by decide)]
  · simp only [Bmi.ij2h, Bmi.call, Bmi.nth, Bmi.callsIj2h, Gen.bmi_large_ij2h, List.getD_cons_zero,
      List.getD_cons_succ, if_true, ZocClass.bits]
    rw [pdep_even mask_large_even (by decide), pdep_odd mask_large_odd (by decide),
      show (4294967296 : Nat) = 2 ^ 32 by decide, spreadN_mod_ge (by decide), spreadN_mod_ge (by decide)]

theorem squeezeN_shl_lt (k x : Nat) : squeezeN k x <<< k < 2 ^ (2 * k) := by
  have := squeezeN_lt k x
  rw [Nat.shiftLeft_eq, Nat.two_mul, Nat.pow_add]
  exact Nat.mul_lt_mul_of_lt_of_le this (Nat.le_refl _) (Nat.two_pow_pos k)

theorem bmi_h2ij_eq (c : ZocClass) (h : Nat) :
    Bmi.h2ij c h = squeezeN c.bits h ||| (squeezeN c.bits (h / 2) <<< c.bits) := by
  cases c
  · simp [Bmi.h2ij, ZocClass.bits, squeezeN]
  · simp only [Bmi.h2ij, Bmi.call, Bmi.nth, Bmi.callsH2ij, Bmi.shiftH2ij, Gen.bmi_small_h2ij,
      Gen.bmi_small_h2ij_shift, List.getD_cons_zero, List.getD_cons_succ, ZocClass.bits]
    simp only [show ((1 : Nat) = 0) = False by simp, if_false]
    rw [pext_even mask_small_even (by decide), pext_odd mask_small_odd (by decide),
      squeezeN_mod_ge (by decide), squeezeN_half_mod_ge (by decide)]
    rw [Nat.mod_eq_of_lt (Nat.lt_of_lt_of_le (squeezeN_shl_lt 8 _) (by decide))]
  · simp only [Bmi.h2ij, Bmi.call, Bmi.nth, Bmi.callsH2ij, Bmi.shiftH2ij, Gen.bmi_mediu_h2ij,
      Gen.bmi_mediu_h2ij_shift, List.getD_cons_zero, List.getD_cons_succ, ZocClass.bits]
    simp only [show ((1 : Nat) = 0) = False by simp, if_false]
    rw [pext_even mask_mediu_even (by decide), pext_odd mask_mediu_odd (by decide),
      squeezeN_mod_ge (by decide), squeezeN_half_mod_ge (by decide)]
    rw [Nat.mod_eq_of_lt (Nat.lt_of_lt_of_le (squeezeN_shl_lt 16 _) (by decide))]
  · simp only [Bmi.h2ij, Bmi.call, Bmi.nth, Bmi.callsH2ij, Bmi.shiftH2ij, Gen.bmi_large_h2ij,
      Gen.bmi_large_h2ij_shift, List.getD_cons_zero, List.getD_cons_succ, ZocClass.bits]
    simp only [show ((1 : Nat) = 0) = False by simp, if_false]
    rw [pext_even mask_large_even (by decide), pext_odd mask_large_odd (by decide),
      squeezeN_mod_ge (by decide), squeezeN_half_mod_ge (by decide)]
    rw [Nat.mod_eq_of_lt (Nat.lt_of_lt_of_le (squeezeN_shl_lt 32 _) (by decide))]

/-! ## the LUT `h2ij` in closed form (needed to compare the two builds) -/

theorem cases_lt_64 (q : Nat) (h : q < 64) : q = 0 ∨ q = 1 ∨ q = 2 ∨ q = 3 ∨ q = 4 ∨ q = 5 ∨ q = 6 ∨ q = 7 ∨ q = 8 ∨ q = 9 ∨ q = 10 ∨ q = 11 ∨ q = 12 ∨ q = 13 ∨ q = 14 ∨ q = 15 ∨ q = 16 ∨ q = 17 ∨ q = 18 ∨ q = 19 ∨ q = 20 ∨ q = 21 ∨ q = 22 ∨ q = 23 ∨ q = 24 ∨ q = 25 ∨ q = 26 ∨ q = 27 ∨ q = 28 ∨ q = 29 ∨ q = 30 ∨ q = 31 ∨ q = 32 ∨ q = 33 ∨ q = 34 ∨ q = 35 ∨ q = 36 ∨ q = 37 ∨ q = 38 ∨ q = 39 ∨ q = 40 ∨ q = 41 ∨ q = 42 ∨ q = 43 ∨ q = 44 ∨ q = 45 ∨ q = 46 ∨ q = 47 ∨ q = 48 ∨ q = 49 ∨ q = 50 ∨ q = 51 ∨ q = 52 ∨ q = 53 ∨ q = 54 ∨ q = 55 ∨ q = 56 ∨ q = 57 ∨ q = 58 ∨ q = 59 ∨ q = 60 ∨ q = 61 ∨ q = 62 ∨ q = 63 := by omega

theorem cases_lt_16 (q : Nat) (h : q < 16) : q = 0 ∨ q = 1 ∨ q = 2 ∨ q = 3 ∨ q = 4 ∨ q = 5 ∨ q = 6 ∨ q = 7 ∨ q = 8 ∨ q = 9 ∨ q = 10 ∨ q = 11 ∨ q = 12 ∨ q = 13 ∨ q = 14 ∨ q = 15 := by omega

theorem lut_h2ij_eq_small (h : Nat) :
    Lut.h2ij .small h = squeezeN 8 h ||| (squeezeN 8 (h / 2) <<< 8) := by
  simp only [Lut.h2ij, lk_lutIjByte]
  rw [show h / 2 = h / 2 ^ 1 by simp]
  apply Nat.eq_of_testBit_eq; intro q
  simp only [show (256:Nat) = 2^8 by decide, show (65536:Nat) = 2^16 by decide]
  simp only [Nat.testBit_or, Nat.testBit_mod_two_pow, Nat.testBit_shiftLeft, testBit_squeezeN,
    Nat.testBit_div_two_pow]
  by_cases hq : q < 16
  · rcases cases_lt_16 q hq with rfl | rfl | rfl | rfl | rfl | rfl | rfl | rfl | rfl | rfl | rfl | rfl | rfl | rfl | rfl | rfl
    all_goals simp
  · have e : ∀ s b, s + b ≤ 16 → decide (q - s < b) = false := by
      intro s b hs; simp only [decide_eq_false_iff_not]; omega
    have e0 : ∀ b, b ≤ 16 → decide (q < b) = false := by
      intro b hb; simp only [decide_eq_false_iff_not]; omega
    simp [e, e0]

theorem lut_h2ij_eq_mediu (h : Nat) :
    Lut.h2ij .mediu h = squeezeN 16 h ||| (squeezeN 16 (h / 2) <<< 16) := by
  simp only [Lut.h2ij, lk_lutIjShort]
  rw [show h / 2 = h / 2 ^ 1 by simp]
  apply Nat.eq_of_testBit_eq; intro q
  simp only [show (256:Nat) = 2^8 by decide, show (65536:Nat) = 2^16 by decide,
    show (16777216:Nat) = 2^24 by decide, show (4294967296:Nat) = 2^32 by decide]
  simp only [Nat.testBit_or, Nat.testBit_mod_two_pow, Nat.testBit_shiftLeft, testBit_squeezeN,
    Nat.testBit_div_two_pow]
  by_cases hq : q < 32
  · rcases cases_lt_32 q hq with rfl | rfl | rfl | rfl | rfl | rfl | rfl | rfl | rfl | rfl | rfl | rfl | rfl | rfl | rfl | rfl | rfl | rfl | rfl | rfl | rfl | rfl | rfl | rfl | rfl | rfl | rfl | rfl | rfl | rfl | rfl | rfl
    all_goals simp
  · have e : ∀ s b, s + b ≤ 32 → decide (q - s < b) = false := by
      intro s b hs; simp only [decide_eq_false_iff_not]; omega
    have e0 : ∀ b, b ≤ 32 → decide (q < b) = false := by
      intro b hb; simp only [decide_eq_false_iff_not]; omega
    simp [e, e0]

theorem lut_h2ij_eq_large (h : Nat) :
    Lut.h2ij .large h = squeezeN 32 h ||| (squeezeN 32 (h / 2) <<< 32) := by
  simp only [Lut.h2ij, lk_lutIjInt]
  rw [show h / 2 = h / 2 ^ 1 by simp]
  apply Nat.eq_of_testBit_eq; intro q
  simp only [Nat.testBit_or, Nat.testBit_mod_two_pow, Nat.testBit_shiftLeft, testBit_squeezeN,
    Nat.testBit_div_two_pow]
  by_cases hq : q < 64
  · rcases cases_lt_64 q hq with rfl | rfl | rfl | rfl | rfl | rfl | rfl | rfl | rfl | rfl | rfl | rfl | rfl | rfl | rfl | rfl | rfl | rfl | rfl | rfl | rfl | rfl | rfl | rfl | rfl | rfl | rfl | rfl | rfl | rfl | rfl | rfl | rfl | rfl | rfl | rfl | rfl | rfl | rfl | rfl | rfl | rfl | rfl | rfl | rfl | rfl | rfl | rfl | rfl | rfl | rfl | rfl | rfl | rfl | rfl | rfl | rfl | rfl | rfl | rfl | rfl | rfl | rfl | rfl
    all_goals simp
  · have e : ∀ s b, s + b ≤ 64 → decide (q - s < b) = false := by
      intro s b hs; simp only [decide_eq_false_iff_not]; omega
    have e0 : ∀ b, b ≤ 64 → decide (q < b) = false := by
      intro b hb; simp only [decide_eq_false_iff_not]; omega
    simp [e, e0]

theorem lut_h2ij_eq (c : ZocClass) (h : Nat) :
    Lut.h2ij c h = squeezeN c.bits h ||| (squeezeN c.bits (h / 2) <<< c.bits) := by
  cases c
  · simp [Lut.h2ij, ZocClass.bits, squeezeN]
  · exact lut_h2ij_eq_small h
  · exact lut_h2ij_eq_mediu h
  · exact lut_h2ij_eq_large h

/-! ## property statements (C18, BMI2 build) -/

/-- BMI2 classes: `ij2h` is the interleaving, for every `i, j` below `2^bits` of the class -/
theorem bmi_ij2h_spec (c : ZocClass) (i j : Nat) (hi : i < 2 ^ c.bits) (hj : j < 2 ^ c.bits) :
    Bmi.ij2h c i j = interleave i j := by
  have hb : c.bits ≤ 32 := by cases c <;> decide
  rw [bmi_ij2h_eq, interleave, ← spreadN_of_lt hi hb, ← spreadN_of_lt hj hb]

/-- the one-coordinate restrictions, for every `i`, `j` -/
theorem bmi_i02h_spec (c : ZocClass) (i : Nat) : Bmi.i02h c i = Bmi.ij2h c i 0 := by
  rw [bmi_i02h_eq, bmi_ij2h_eq]; simp

theorem bmi_oj2h_spec (c : ZocClass) (j : Nat) : Bmi.oj2h c j = Bmi.ij2h c 0 j := by
  rw [bmi_oj2h_eq, bmi_ij2h_eq]; simp

/-- the two halves of the packed `ij` returned by the BMI2 `h2ij`, for every `h` -/
theorem bmi_h2ij_i (c : ZocClass) (h : Nat) : Lut.ij2i c (Bmi.h2ij c h) = squeezeN c.bits h := by
  rw [bmi_h2ij_eq, ← lut_h2ij_eq, lut_h2ij_i]

theorem bmi_h2ij_j (c : ZocClass) (h : Nat) : Lut.ij2j c (Bmi.h2ij c h) = squeezeN c.bits (h / 2) := by
  rw [bmi_h2ij_eq, ← lut_h2ij_eq, lut_h2ij_j]

/-- **every implementation the crate can select agrees**, for every input (in range or not) -/
theorem bmi_eq_lut_i02h (c : ZocClass) (i : Nat) : Bmi.i02h c i = Lut.i02h c i := by
  rw [bmi_i02h_eq, lut_i02h_spec]

theorem spreadN_shl_mod {b : Nat} (hb : b ≤ 32) (j : Nat) : (spreadN b j <<< 1) % 2 ^ 64 = spreadN b j <<< 1 := by
  have h3 := three_spreadN_lt b j
  have h4 : (4 : Nat) ^ b ≤ 4 ^ 32 := Nat.pow_le_pow_right (by decide) hb
  rw [Nat.mod_eq_of_lt]
  rw [Nat.shiftLeft_eq]; omega

theorem bmi_eq_lut_oj2h (c : ZocClass) (j : Nat) : Bmi.oj2h c j = Lut.oj2h c j := by
  have hb : c.bits ≤ 32 := by cases c <;> decide
  rw [bmi_oj2h_eq]
  cases c
  · simp [Lut.oj2h, ZocClass.bits, spreadN]
  all_goals
    simp only [Lut.oj2h, lut_i02h_spec]
    exact (spreadN_shl_mod hb j).symm

theorem bmi_eq_lut_ij2h (c : ZocClass) (i j : Nat) : Bmi.ij2h c i j = Lut.ij2h c i j := by
  have h1 := bmi_eq_lut_i02h c i
  have h2 := bmi_eq_lut_oj2h c j
  rw [bmi_i02h_eq] at h1
  rw [bmi_oj2h_eq] at h2
  rw [bmi_ij2h_eq, h1, h2]
  cases c
  · simp [Lut.ij2h, Lut.i02h, Lut.oj2h]
  all_goals rfl

theorem bmi_eq_lut_h2ij (c : ZocClass) (h : Nat) : Bmi.h2ij c h = Lut.h2ij c h := by
  rw [bmi_h2ij_eq, lut_h2ij_eq]

/-- the form asked for (in-range arguments); the unconditional equalities above are stronger -/
theorem bmi_eq_lut (c : ZocClass) :
    (∀ i j, i < 2 ^ c.bits → j < 2 ^ c.bits → Bmi.ij2h c i j = Lut.ij2h c i j) ∧
    (∀ h, h < 4 ^ c.bits → Bmi.h2ij c h = Lut.h2ij c h) ∧
    (∀ i, i < 2 ^ c.bits → Bmi.i02h c i = Lut.i02h c i) ∧
    (∀ j, j < 2 ^ c.bits → Bmi.oj2h c j = Lut.oj2h c j) :=
  ⟨fun i j _ _ => bmi_eq_lut_ij2h c i j, fun h _ => bmi_eq_lut_h2ij c h, fun i _ => bmi_eq_lut_i02h c i,
    fun j _ => bmi_eq_lut_oj2h c j⟩

/-- `h2ij` with `ij2i`/`ij2j` inverts `ij2h` (BMI2 build) -/
theorem bmi_h2ij_inverts (c : ZocClass) (i j : Nat) (hi : i < 2 ^ c.bits) (hj : j < 2 ^ c.bits) :
    Lut.ij2i c (Bmi.h2ij c (Bmi.ij2h c i j)) = i ∧ Lut.ij2j c (Bmi.h2ij c (Bmi.ij2h c i j)) = j := by
  have hb : c.bits ≤ 32 := by cases c <;> decide
  rw [bmi_ij2h_spec c i j hi hj, bmi_h2ij_i, bmi_h2ij_j]
  constructor
  · apply Nat.eq_of_testBit_eq; intro q
    rw [testBit_squeezeN, testBit_interleave_even]
    by_cases h : q < c.bits
    · have : q < 32 := by omega
      simp [h, this]
    · have : i.testBit q = false :=
        Nat.testBit_lt_two_pow (Nat.lt_of_lt_of_le hi (Nat.pow_le_pow_right (by decide) (by omega)))
      simp [h, this]
  · apply Nat.eq_of_testBit_eq; intro q
    rw [testBit_squeezeN, ← Nat.testBit_succ, testBit_interleave_odd]
    by_cases h : q < c.bits
    · have : q < 32 := by omega
      simp [h, this]
    · have : j.testBit q = false :=
        Nat.testBit_lt_two_pow (Nat.lt_of_lt_of_le hj (Nat.pow_le_pow_right (by decide) (by omega)))
      simp [h, this]

/-- `get_zoc` (BMI2 build) rejects `depth > 29` (panic) -/
theorem get_zoc_bmi_guard (d : Nat) (h : d > 29) : getZocBmi d = none := by
  simp [getZocBmi, getZocFrom, h]

/-- for every depth `≤ 29`, `get_zoc` (BMI2 build) selects an implementation with enough bits for `2^depth`
    coordinates -/
theorem get_zoc_bmi_sufficient : ∀ d, d ≤ 29 → ∃ c, getZocBmi d = some c ∧ d ≤ c.bits := by
  decide +kernel

/-- the two builds select the same class at every depth -/
theorem get_zoc_bmi_eq_lut (d : Nat) : getZocBmi d = getZoc d := by
  by_cases h : d > 29
  · simp [getZoc, getZocBmi, getZocFrom, h]
  · have : ∀ d, d ≤ 29 → getZocBmi d = getZoc d := by decide +kernel
    exact this d (by omega)

/-- **main statement (BMI2 build)**: for every depth `d ≤ 29` and all `i, j < 2^d`, the implementation selected by
    `get_zoc d` computes the interleaving, which is below `4^d`, `h2ij`/`ij2i`/`ij2j` recover `(i, j)`, the
    one-coordinate variants are its restrictions, and all four methods return what the LUT build returns -/
theorem zoc_bmi_correct (d i j : Nat) (hd : d ≤ 29) (hi : i < 2 ^ d) (hj : j < 2 ^ d) :
    ∃ c, getZocBmi d = some c ∧ Bmi.ij2h c i j = interleave i j ∧ interleave i j < 4 ^ d ∧
      Lut.ij2i c (Bmi.h2ij c (Bmi.ij2h c i j)) = i ∧ Lut.ij2j c (Bmi.h2ij c (Bmi.ij2h c i j)) = j ∧
      Bmi.i02h c i = Bmi.ij2h c i 0 ∧ Bmi.oj2h c j = Bmi.ij2h c 0 j ∧
      getZoc d = some c ∧ Bmi.ij2h c i j = Lut.ij2h c i j ∧
      Bmi.h2ij c (Bmi.ij2h c i j) = Lut.h2ij c (Lut.ij2h c i j) ∧
      Bmi.i02h c i = Lut.i02h c i ∧ Bmi.oj2h c j = Lut.oj2h c j := by
  obtain ⟨c, hc, hdc⟩ := get_zoc_bmi_sufficient d hd
  have hi' : i < 2 ^ c.bits := Nat.lt_of_lt_of_le hi (Nat.pow_le_pow_right (by decide) hdc)
  have hj' : j < 2 ^ c.bits := Nat.lt_of_lt_of_le hj (Nat.pow_le_pow_right (by decide) hdc)
  refine ⟨c, hc, bmi_ij2h_spec c i j hi' hj', interleave_lt (by omega) hi hj,
    (bmi_h2ij_inverts c i j hi' hj').1, (bmi_h2ij_inverts c i j hi' hj').2, bmi_i02h_spec c i, bmi_oj2h_spec c j,
    ?_, bmi_eq_lut_ij2h c i j, ?_, bmi_eq_lut_i02h c i, bmi_eq_lut_oj2h c j⟩
  · rw [← get_zoc_bmi_eq_lut, hc]
  · rw [bmi_eq_lut_ij2h, bmi_eq_lut_h2ij]

/-- non-vacuity: concrete instances at depths 8, 16 and 29 (one per non-empty class) -/
example : getZocBmi 29 = some .large ∧
    Bmi.ij2h .large 0x1FFFFFFF 0x10000001 = interleave 0x1FFFFFFF 0x10000001 ∧
    Lut.ij2i .large (Bmi.h2ij .large (Bmi.ij2h .large 0x1FFFFFFF 0x10000001)) = 0x1FFFFFFF ∧
    Lut.ij2j .large (Bmi.h2ij .large (Bmi.ij2h .large 0x1FFFFFFF 0x10000001)) = 0x10000001 := by
  decide +kernel
example : getZocBmi 16 = some .mediu ∧ Bmi.ij2h .mediu 0xFFFF 0x8001 = interleave 0xFFFF 0x8001 ∧
    getZocBmi 8 = some .small ∧ Bmi.ij2h .small 0xFF 0x81 = interleave 0xFF 0x81 := by
  decide +kernel
example : IsEvenMask 2 5 ∧ IsOddMask 2 10 ∧ pdep 8 0b111 5 = 5 ∧ pdep 8 0b10 10 = 8 ∧ pext 8 0b1101 5 = 0b11 ∧
    pext 8 0b1101 10 = 0b10 :=
  ⟨(isEvenMask_iff _ _).2 (by decide), (isOddMask_iff _ _).2 (by decide), by decide, by decide, by decide, by decide⟩

#print axioms zoc_bmi_correct
#print axioms bmi_eq_lut
#print axioms bmi_h2ij_inverts
#print axioms pdep_even
#print axioms pdep_odd
#print axioms pext_even
#print axioms pext_odd

end Hpx
