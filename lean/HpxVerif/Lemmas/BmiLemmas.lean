import HpxVerif.Lemmas.BitsLemmas

/-!
Lemmas for C18, BMI2 build: the `pdep`/`pext` variants of the z-order curve (`Bmi.*` in `Model/Bits.lean`) compute
the bit interleaving and its inverse, for every input, and agree with the look-up-table variants (`Lut.*`).
Core Lean only.
-/

namespace Hpx

/-! ## the masks -/

/-- the number whose set bits are the even positions below `2k` (`0x5555…`) -/
def evenMask : Nat → Nat
  | 0 => 0
  | k + 1 => 1 + 4 * evenMask k

/-- "bit `p` of `m` is set iff `p` is even and `p < 2k`" -/
def IsEvenMask (k m : Nat) : Prop := ∀ p, m.testBit p = (p % 2 == 0 && decide (p < 2 * k))

/-- "bit `p` of `m` is set iff `p` is odd and `p < 2k`" -/
def IsOddMask (k m : Nat) : Prop := ∀ p, m.testBit p = (p % 2 == 1 && decide (p < 2 * k))

theorem evenMask_eq_spreadN (k : Nat) : evenMask k = spreadN k (2 ^ k - 1) := by
  induction k with
  | zero => rfl
  | succ k ih =>
    have hp : 0 < 2 ^ k := Nat.two_pow_pos k
    have h1 : (2 ^ (k + 1) - 1) % 2 = 1 := by rw [Nat.pow_succ]; omega
    have h2 : (2 ^ (k + 1) - 1) / 2 = 2 ^ k - 1 := by rw [Nat.pow_succ]; omega
    simp only [evenMask, spreadN, h1, h2, ih]

theorem testBit_evenMask (k p : Nat) : (evenMask k).testBit p = (p % 2 == 0 && decide (p < 2 * k)) := by
  rw [evenMask_eq_spreadN, testBit_spreadN, Nat.testBit_two_pow_sub_one]
  by_cases h : p < 2 * k
  · have : p / 2 < k := by omega
    simp [h, this]
  · have : ¬ p / 2 < k := by omega
    simp [h, this]

theorem testBit_two_mul_evenMask (k p : Nat) :
    (2 * evenMask k).testBit p = (p % 2 == 1 && decide (p < 2 * k)) := by
  match p with
  | 0 => simp [Nat.testBit_zero]
  | p + 1 =>
    rw [Nat.testBit_succ, show 2 * evenMask k / 2 = evenMask k by omega, testBit_evenMask]
    have h1 : ((p + 1) % 2 == 1) = (p % 2 == 0) := by
      rcases Nat.mod_two_eq_zero_or_one p with h | h <;> simp [h, Nat.add_mod]
    rw [h1]
    by_cases h0 : p % 2 = 0
    · by_cases h : p < 2 * k
      · have : p + 1 < 2 * k := by omega
        simp [h0, h, this]
      · have : ¬ p + 1 < 2 * k := by omega
        simp [h0, h, this]
    · have h0' : p % 2 = 1 := by omega
      simp [h0']

theorem isEvenMask_iff (k m : Nat) : IsEvenMask k m ↔ m = evenMask k := by
  constructor
  · intro h; apply Nat.eq_of_testBit_eq; intro p; rw [h p, testBit_evenMask]
  · rintro rfl p; exact testBit_evenMask k p

theorem isOddMask_iff (k m : Nat) : IsOddMask k m ↔ m = 2 * evenMask k := by
  constructor
  · intro h; apply Nat.eq_of_testBit_eq; intro p; rw [h p, testBit_two_mul_evenMask]
  · rintro rfl p; exact testBit_two_mul_evenMask k p

/-! ## `pdep` / `pext` with an even or odd mask: induction on the recursion of the SDM pseudo-code -/

theorem pdepAux_zero_mask (w src pos : Nat) : pdepAux w src 0 pos = 0 := by
  induction w generalizing pos with
  | zero => rfl
  | succ w ih => simp [pdepAux, ih]

theorem pextAux_zero_mask (w src : Nat) : pextAux w src 0 = 0 := by
  induction w generalizing src with
  | zero => rfl
  | succ w ih => simp [pextAux, ih]

theorem pdepAux_evenMask (k : Nat) : ∀ w src pos, 2 * k ≤ w + 1 →
    pdepAux w src (evenMask k) pos = 2 ^ pos * spreadN k src := by
  induction k with
  | zero => intro w src pos _; simp [evenMask, pdepAux_zero_mask, spreadN]
  | succ k ih =>
    intro w src pos hw
    have h1 : (1 + 4 * evenMask k) % 2 = 1 := by omega
    have h2 : (1 + 4 * evenMask k) / 2 = 2 * evenMask k := by omega
    have h3 : (2 * evenMask k) % 2 ≠ 1 := by omega
    have h4 : 2 * evenMask k / 2 = evenMask k := by omega
    match w, hw with
    | 0, hw => omega
    | 1, hw =>
      have : k = 0 := by omega
      subst this
      simp [pdepAux, evenMask, spreadN, Nat.mul_comm]
    | w + 2, hw =>
      simp only [evenMask, spreadN, pdepAux, h1, h2, h3, h4, if_true, if_false]
      rw [ih w (src / 2) (pos + 1 + 1) (by omega), Nat.pow_succ, Nat.pow_succ, Nat.mul_add,
        Nat.mul_comm (src % 2), Nat.mul_assoc, Nat.mul_assoc]
      congr 2; omega

theorem pdepAux_oddMask (k w src pos : Nat) (hw : 2 * k ≤ w) :
    pdepAux w src (2 * evenMask k) pos = 2 ^ (pos + 1) * spreadN k src := by
  match w, hw with
  | 0, hw =>
    have : k = 0 := by omega
    subst this; simp [pdepAux, spreadN]
  | w + 1, hw =>
    have h3 : (2 * evenMask k) % 2 ≠ 1 := by omega
    have h4 : 2 * evenMask k / 2 = evenMask k := by omega
    simp only [pdepAux, h3, h4, if_false]
    exact pdepAux_evenMask k w src (pos + 1) (by omega)

theorem pextAux_evenMask (k : Nat) : ∀ w src, 2 * k ≤ w + 1 →
    pextAux w src (evenMask k) = squeezeN k src := by
  induction k with
  | zero => intro w src _; simp [evenMask, pextAux_zero_mask, squeezeN]
  | succ k ih =>
    intro w src hw
    have h1 : (1 + 4 * evenMask k) % 2 = 1 := by omega
    have h2 : (1 + 4 * evenMask k) / 2 = 2 * evenMask k := by omega
    have h3 : (2 * evenMask k) % 2 ≠ 1 := by omega
    have h4 : 2 * evenMask k / 2 = evenMask k := by omega
    match w, hw with
    | 0, hw => omega
    | 1, hw =>
      have : k = 0 := by omega
      subst this
      simp [pextAux, evenMask, squeezeN]
    | w + 2, hw =>
      simp only [evenMask, squeezeN, pextAux, h1, h2, h3, h4, if_true, if_false]
      rw [ih w (src / 2 / 2) (by omega), Nat.div_div_eq_div_mul]

theorem pextAux_oddMask (k w src : Nat) (hw : 2 * k ≤ w) :
    pextAux w src (2 * evenMask k) = squeezeN k (src / 2) := by
  match w, hw with
  | 0, hw =>
    have : k = 0 := by omega
    subst this; simp [pextAux, squeezeN]
  | w + 1, hw =>
    have h3 : (2 * evenMask k) % 2 ≠ 1 := by omega
    have h4 : 2 * evenMask k / 2 = evenMask k := by omega
    simp only [pextAux, h3, h4, if_false]
    exact pextAux_evenMask k w (src / 2) (by omega)

theorem spreadN_mod_ge {k w : Nat} (hkw : k ≤ w) (n : Nat) : spreadN k (n % 2 ^ w) = spreadN k n := by
  rw [← spreadN_mod k (n % 2 ^ w), Nat.mod_mod_of_dvd _ (Nat.pow_dvd_pow 2 hkw), spreadN_mod]

theorem squeezeN_mod_ge {k w : Nat} (hkw : 2 * k ≤ w + 1) (h : Nat) : squeezeN k (h % 2 ^ w) = squeezeN k h := by
  apply Nat.eq_of_testBit_eq; intro q
  simp only [testBit_squeezeN, Nat.testBit_mod_two_pow]
  by_cases hq : q < k
  · have : 2 * q < w := by omega
    simp [hq, this]
  · simp [hq]

theorem squeezeN_half_mod_ge {k w : Nat} (hkw : 2 * k ≤ w) (h : Nat) :
    squeezeN k (h % 2 ^ w / 2) = squeezeN k (h / 2) := by
  apply Nat.eq_of_testBit_eq; intro q
  simp only [testBit_squeezeN, ← Nat.testBit_succ, Nat.testBit_mod_two_pow]
  by_cases hq : q < k
  · have : 2 * q + 1 < w := by omega
    simp [hq, this]
  · simp [hq]

/-- **`pdep` with the even mask spreads**: for every operand width `w` that contains the mask, every `src`
    (the bits of `src` from position `k` on are ignored, as in the instruction) -/
theorem pdep_even {k w m : Nat} (hm : IsEvenMask k m) (hw : 2 * k ≤ w + 1) (src : Nat) :
    pdep w src m = spreadN k src := by
  rw [(isEvenMask_iff k m).1 hm, pdep, pdepAux_evenMask k w _ 0 hw, Nat.pow_zero, Nat.one_mul,
    spreadN_mod_ge (by omega)]

/-- **`pdep` with the odd mask spreads and shifts by one** -/
theorem pdep_odd {k w m : Nat} (hm : IsOddMask k m) (hw : 2 * k ≤ w) (src : Nat) :
    pdep w src m = spreadN k src <<< 1 := by
  rw [(isOddMask_iff k m).1 hm, pdep, pdepAux_oddMask k w _ 0 hw, spreadN_mod_ge (by omega), Nat.shiftLeft_eq,
    Nat.mul_comm]

/-- **`pext` with the even mask squeezes the even bits** -/
theorem pext_even {k w m : Nat} (hm : IsEvenMask k m) (hw : 2 * k ≤ w + 1) (h : Nat) :
    pext w h m = squeezeN k h := by
  rw [(isEvenMask_iff k m).1 hm, pext, pextAux_evenMask k w _ hw, squeezeN_mod_ge hw]

/-- **`pext` with the odd mask squeezes the odd bits** -/
theorem pext_odd {k w m : Nat} (hm : IsOddMask k m) (hw : 2 * k ≤ w) (h : Nat) :
    pext w h m = squeezeN k (h / 2) := by
  rw [(isOddMask_iff k m).1 hm, pext, pextAux_oddMask k w _ hw, squeezeN_half_mod_ge hw]

/-- the forms asked for: `src < 2^k`, `2k ≤ w` -/
theorem pdep_even' {k w m src : Nat} (hm : IsEvenMask k m) (hw : 2 * k ≤ w) (_ : src < 2 ^ k) :
    pdep w src m = spreadN k src := pdep_even hm (by omega) src

/-! ## the literal masks of `Gen/ZocTables.lean` satisfy the predicates -/

theorem mask_small_even : IsEvenMask 8 0x5555 := (isEvenMask_iff _ _).2 (by decide)
theorem mask_small_odd : IsOddMask 8 0xAAAA := (isOddMask_iff _ _).2 (by decide)
theorem mask_mediu_even : IsEvenMask 16 0x55555555 := (isEvenMask_iff _ _).2 (by decide)
theorem mask_mediu_odd : IsOddMask 16 0xAAAAAAAA := (isOddMask_iff _ _).2 (by decide)
theorem mask_large_even : IsEvenMask 32 0x5555555555555555 := (isEvenMask_iff _ _).2 (by decide)
theorem mask_large_odd : IsOddMask 32 0xAAAAAAAAAAAAAAAA := (isOddMask_iff _ _).2 (by decide)

/-! ## the BMI2 implementations, for every input -/

theorem bmi_i02h_eq (c : ZocClass) (i : Nat) : Bmi.i02h c i = spreadN c.bits i := by
  cases c
  · simp [Bmi.i02h, ZocClass.bits, spreadN]
  · simp only [Bmi.i02h, Bmi.call, Bmi.nth, Bmi.callsI02h, Gen.bmi_small_i02h, List.getD_cons_zero, if_true,
      ZocClass.bits]
    rw [pdep_even mask_small_even (by decide), show (4294967296 : Nat) = 2 ^ 32 by decide, spreadN_mod_ge (by decide)]
  · simp only [Bmi.i02h, Bmi.call, Bmi.nth, Bmi.callsI02h, Gen.bmi_mediu_i02h, List.getD_cons_zero, if_true,
      ZocClass.bits]
    rw [pdep_even mask_mediu_even (by decide), show (4294967296 : Nat) = 2 ^ 32 by decide, spreadN_mod_ge (by decide)]
  · simp only [Bmi.i02h, Bmi.call, Bmi.nth, Bmi.callsI02h, Gen.bmi_large_i02h, List.getD_cons_zero, if_true,
      ZocClass.bits]
    rw [pdep_even mask_large_even (by decide), show (4294967296 : Nat) = 2 ^ 32 by decide, spreadN_mod_ge (by decide)]

theorem bmi_oj2h_eq (c : ZocClass) (j : Nat) : Bmi.oj2h c j = spreadN c.bits j <<< 1 := by
  cases c
  · simp [Bmi.oj2h, ZocClass.bits, spreadN]
  · simp only [Bmi.oj2h, Bmi.call, Bmi.nth, Bmi.callsOj2h, Gen.bmi_small_oj2h, List.getD_cons_zero, if_true,
      ZocClass.bits]
    rw [pdep_odd mask_small_odd (by decide), show (4294967296 : Nat) = 2 ^ 32 by decide, spreadN_mod_ge (by decide)]
  · simp only [Bmi.oj2h, Bmi.call, Bmi.nth, Bmi.callsOj2h, Gen.bmi_mediu_oj2h, List.getD_cons_zero, if_true,
      ZocClass.bits]
    rw [pdep_odd mask_mediu_odd (by decide), show (4294967296 : Nat) = 2 ^ 32 by decide, spreadN_mod_ge (by decide)]
  · simp only [Bmi.oj2h, Bmi.call, Bmi.nth, Bmi.callsOj2h, Gen.bmi_large_oj2h, List.getD_cons_zero, if_true,
      ZocClass.bits]
    rw [pdep_odd mask_large_odd (by decide), show (4294967296 : Nat) = 2 ^ 32 by decide, spreadN_mod_ge (by decide)]

theorem bmi_ij2h_eq (c : ZocClass) (i j : Nat) :
    Bmi.ij2h c i j = spreadN c.bits i ||| (spreadN c.bits j <<< 1) := by
  cases c
  · simp [Bmi.ij2h, ZocClass.bits, spreadN]
  · simp only [Bmi.ij2h, Bmi.call, Bmi.nth, Bmi.callsIj2h, Gen.bmi_small_ij2h, List.getD_cons_zero,
      List.getD_cons_succ, if_true, ZocClass.bits]
    rw [pdep_even mask_small_even (by decide), pdep_odd mask_small_odd (by decide),
      show (4294967296 : Nat) = 2 ^ 32 by decide, spreadN_mod_ge (by decide), spreadN_mod_ge (by decide)]
  · simp only [Bmi.ij2h, Bmi.call, Bmi.nth, Bmi.callsIj2h, Gen.bmi_mediu_ij2h, List.getD_cons_zero,
      List.getD_cons_succ, if_true, ZocClass.bits]
    rw [pdep_even mask_mediu_even (by decide), pdep_odd mask_mediu_odd (by decide),
      show (4294967296 : Nat) = 2 ^ 32 by decide, spreadN_mod_ge (by decide), spreadN_mod_ge (by decide)]
  · simp only [Bmi.ij2h, Bmi.call, Bmi.nth, Bmi.callsIj2h, Gen.bmi_large_ij2h, List.getD_cons_zero,
      List.getD_cons_succ, if_true, ZocClass.bits]
    rw [pdep_even mask_large_even (by decide), pdep_odd mask_large_odd (by decide),
      show (4294967296 : Nat) = 2 ^ 32 by decide, spreadN_mod_ge (by decide), spreadN_mod_ge (by decide)]

theorem squeezeN_shl_lt (k x : Nat) : squeezeN k x <<< k < 2 ^ (2 * k) := by
  have := squeezeN_lt k x
  rw [Nat.shiftLeft_eq, Nat.two_mul, Nat.pow_add]
  exact Nat.mul_lt_mul_of_lt_of_le this (Nat.le_refl _) (Nat.two_pow_pos k)

theorem bmi_h2ij_eq (c : ZocClass) (h : Nat) :
    Bmi.h2ij c h = squeezeN c.bits h ||| (squeezeN c.bits (h / 2) <<< c.bits) := by
  cases c
  · simp [Bmi.h2ij, ZocClass.bits, squeezeN]
  · simp only [Bmi.h2ij, Bmi.call, Bmi.nth, Bmi.callsH2ij, Bmi.shiftH2ij, Gen.bmi_small_h2ij,
      Gen.bmi_small_h2ij_shift, List.getD_cons_zero, List.getD_cons_succ, ZocClass.bits]
    simp only [show ((1 : Nat) = 0) = False by simp, if_false]
    rw [pext_even mask_small_even (by decide), pext_odd mask_small_odd (by decide),
      squeezeN_mod_ge (by decide), squeezeN_half_mod_ge (by decide)]
    rw [Nat.mod_eq_of_lt (Nat.lt_of_lt_of_le (squeezeN_shl_lt 8 _) (by decide))]
  · simp only [Bmi.h2ij, Bmi.call, Bmi.nth, Bmi.callsH2ij, Bmi.shiftH2ij, Gen.bmi_mediu_h2ij,
      Gen.bmi_mediu_h2ij_shift, List.getD_cons_zero, List.getD_cons_succ, ZocClass.bits]
    simp only [show ((1 : Nat) = 0) = False by simp, if_false]
    rw [pext_even mask_mediu_even (by decide), pext_odd mask_mediu_odd (by decide),
      squeezeN_mod_ge (by decide), squeezeN_half_mod_ge (by decide)]
    rw [Nat.mod_eq_of_lt (Nat.lt_of_lt_of_le (squeezeN_shl_lt 16 _) (by decide))]
  · simp only [Bmi.h2ij, Bmi.call, Bmi.nth, Bmi.callsH2ij, Bmi.shiftH2ij, Gen.bmi_large_h2ij,
      Gen.bmi_large_h2ij_shift, List.getD_cons_zero, List.getD_cons_succ, ZocClass.bits]
    simp only [show ((1 : Nat) = 0) = False by simp, if_false]
    rw [pext_even mask_large_even (by decide), pext_odd mask_large_odd (by decide),
      squeezeN_mod_ge (by decide), squeezeN_half_mod_ge (by decide)]
    rw [Nat.mod_eq_of_lt (Nat.lt_of_lt_of_le (squeezeN_shl_lt 32 _) (by decide))]

end Hpx
