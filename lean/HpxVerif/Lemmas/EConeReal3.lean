/-
Real-valued meaning of the elliptical-cone tests of `elliptical_cone_coverage` (C13), part 3:
the normalisation of `ProjSIN::new` keeps the centre, so every statement of parts 1–2 holds for *any* input centre
`(lon, lat)`; headline statements in terms of `(lon, lat)`; instances showing that the hypotheses are satisfiable.
-/
import HpxVerif.Lemmas.EConeReal2

namespace Hpx.Sph
open Hpx Hpx.Cover Hpx.Bmoc Real

/-! ## the normalisation of the centre -/

theorem norm_mk' (x y : ℝ) : ‖(⟨x, y⟩ : ℂ)‖ = √(x * x + y * y) := by
  rw [Complex.norm_def, Complex.normSq_mk]

/-- polar decomposition: `(cos, sin)` of `atan2 y x` -/
theorem cos_sin_arg_mk (x y : ℝ) :
    √(x * x + y * y) * cos (Complex.arg ⟨x, y⟩) = x ∧ √(x * x + y * y) * sin (Complex.arg ⟨x, y⟩) = y := by
  by_cases h0 : (⟨x, y⟩ : ℂ) = 0
  · have hx : x = 0 := by simpa using congrArg Complex.re h0
    have hy : y = 0 := by simpa using congrArg Complex.im h0
    subst hx; subst hy; simp
  · have hn : √(x * x + y * y) ≠ 0 := by rw [← norm_mk']; exact norm_ne_zero_iff.mpr h0
    rw [Complex.cos_arg h0, Complex.sin_arg, norm_mk']
    constructor
    · show √(x * x + y * y) * (x / √(x * x + y * y)) = x
      rw [mul_div_assoc', mul_div_cancel_left₀ _ hn]
    · show √(x * x + y * y) * (y / √(x * x + y * y)) = y
      rw [mul_div_assoc', mul_div_cancel_left₀ _ hn]

/-- **the normalisation of `ProjSIN::new` does not move the centre**: whatever `(lon, lat)` (any real numbers), the
    stored centre is the same point of the sphere -/
theorem ProjSIN.new_vec (lon lat : ℝ) :
    vec (ProjSIN.new lon lat).c0.1 (ProjSIN.new lon lat).c0.2 = vec lon lat := by
  unfold ProjSIN.new ProjSIN.c0
  split
  rename_i lon' lat' heq
  split at heq
  · simp only [num_cos, num_sin, num_atan2, num_sqrt, pow2, Prod.mk.injEq] at heq
    obtain ⟨h1, h2⟩ := heq
    set x := cos lat * cos lon
    set y := cos lat * sin lon
    have hxy : x * x + y * y = cos lat * cos lat := by
      have := sin_sq_add_cos_sq lon
      simp only [x, y]; nlinarith [this]
    have hnorm : √(x * x + y * y) * √(x * x + y * y) + sin lat * sin lat = 1 := by
      rw [Real.mul_self_sqrt (by rw [hxy]; exact mul_self_nonneg _), hxy]
      have := sin_sq_add_cos_sq lat; nlinarith [this]
    have hone : √(√(x * x + y * y) * √(x * x + y * y) + sin lat * sin lat) = 1 := by rw [hnorm]; exact Real.sqrt_one
    obtain ⟨c1, s1⟩ := cos_sin_arg_mk x y
    obtain ⟨c2, s2⟩ := cos_sin_arg_mk (√(x * x + y * y)) (sin lat)
    rw [hone, one_mul] at c2 s2
    have hcl : cos lon' = cos (Complex.arg ⟨x, y⟩) := by
      rw [← h1]; split
      · rw [num_twicePi]; exact cos_add_two_pi _
      · rfl
    have hsl : sin lon' = sin (Complex.arg ⟨x, y⟩) := by
      rw [← h1]; split
      · rw [num_twicePi]; exact sin_add_two_pi _
      · rfl
    simp only [vec]
    rw [← h2, hcl, hsl, c2, s2, c1, s1]
  · simp only [Prod.mk.injEq] at heq
    rw [← heq.1, ← heq.2]

theorem adist_new_c0 (lon lat : ℝ) (q : ℝ × ℝ) : adist q (ProjSIN.new lon lat).c0 = adist q (lon, lat) := by
  unfold adist
  rw [ProjSIN.new_vec]

/-! ## headline statements, for an arbitrary centre `(lon, lat)` -/

/-- `ProjSIN::proj` is defined exactly at less than `π/2` of `(lon, lat)` -/
theorem proj_defined_iff (lon lat l φ : ℝ) :
    ((ProjSIN.new lon lat).proj l φ).isSome = true ↔ adist (l, φ) (lon, lat) < π / 2 := by
  rw [proj_isSome_iff _ (ProjSIN.new_coherent lon lat), adist_new_c0]

/-- `forced_proj_and_distance` returns the angular distance to `(lon, lat)`, for every point of the sphere -/
theorem forced_distance (lon lat l φ : ℝ) :
    ((ProjSIN.new lon lat).forcedProjAndDistance l φ).2 = adist (l, φ) (lon, lat) := by
  rw [forcedProjAndDistance_spec _ (ProjSIN.new_coherent lon lat), adist_new_c0]

/-- circular case: membership is `angular distance to (lon, lat) ≤ a`, for every real `lon`, `lat`, `pa` -/
theorem econe_contains_circular_iff (lon lat a pa l φ : ℝ) (ha : 0 < a ∧ a < π / 2) :
    (ECone.new (α := ℝ) lon lat a a pa).contains l φ = true ↔ adist (l, φ) (lon, lat) ≤ a := by
  rw [econe_contains_circular' lon lat a pa l φ ha, adist_new_c0]

/-- circular case: `contains_cone` is exactly `r < a ∧ distance + r ≤ a` -/
theorem contains_cone_circular_iff (lon lat a pa l φ r : ℝ) (ha : 0 < a ∧ a < π / 2) (hr : 0 ≤ r) :
    (ECone.new (α := ℝ) lon lat a a pa).containsCone l φ r = true ↔ r < a ∧ adist (l, φ) (lon, lat) + r ≤ a := by
  rw [contains_cone_circular lon lat a pa l φ r ha hr, adist_new_c0]

/-- circular case: `overlap_cone` is sound outside the special case -/
theorem overlap_cone_circular_sound' (lon lat a pa l φ r : ℝ) (ha : 0 < a ∧ a < π / 2) (hr : 0 < r ∧ r ≤ π / 2)
    (hfin : 1 / 2 ^ 1024 < sin (adist (l, φ) (lon, lat))) (hd : adist (l, φ) (lon, lat) ≤ a + r) :
    (ECone.new (α := ℝ) lon lat a a pa).overlapCone l φ r = some true :=
  overlap_cone_circular_sound lon lat a pa l φ r ha hr (by rwa [adist_new_c0]) (by rwa [adist_new_c0])

/-- circular case: the skip test `¬contains ∧ overlap_cone = false` is sound -/
theorem circular_skip_sound (lon lat a pa l φ r : ℝ) (ha : 0 < a ∧ a < π / 2) (hmin : 1 / 2 ^ 1024 < sin a)
    (hr : r ≤ π / 2) (har : a + r ≤ 3)
    (hc : (ECone.new (α := ℝ) lon lat a a pa).contains l φ = false)
    (ho : (ECone.new (α := ℝ) lon lat a a pa).overlapCone l φ r = some false) :
    a + r < adist (l, φ) (lon, lat) := by
  by_contra hle
  have hpos := overlapCone_some_pos _ _ _ _ _ ho
  rcases circular_keep_sound lon lat a pa l φ r ha hmin ⟨hpos, hr⟩ har (by rw [adist_new_c0]; exact not_lt.mp hle) with h | h
  · rw [h] at hc; exact absurd hc (by simp)
  · rw [h] at ho; exact absurd ho (by simp)

/-- general `0 < b ≤ a < π/2`: a cone skipped by the descent does not contain the centre of the ellipse -/
theorem centre_skip_sound (lon lat a b pa l φ r : ℝ) (hb : 0 < b) (hba : b ≤ a) (ha : a < π / 2)
    (hmin : 1 / 2 ^ 1024 < sin b) (hr : r ≤ π / 2)
    (hc : (ECone.new (α := ℝ) lon lat a b pa).contains l φ = false)
    (ho : (ECone.new (α := ℝ) lon lat a b pa).overlapCone l φ r = some false) :
    r < adist (l, φ) (lon, lat) := by
  by_contra hle
  have hpos := overlapCone_some_pos _ _ _ _ _ ho
  rcases centre_cone_kept lon lat a b pa l φ r hb hba ha hmin ⟨hpos, hr⟩ (by rw [adist_new_c0]; exact not_lt.mp hle) with h | h
  · rw [h] at hc; exact absurd hc (by simp)
  · rw [h] at ho; exact absurd ho (by simp)

/-- **C13, the centre cell is kept** (relative to the envelope hypothesis `H1` at the centre): for every centre
    `(lon, lat)`, `0 < b ≤ a < π/2` (`sin b > 2^-1024`), position angle, target depth, start depth and start cell: if the
    descent returns `out` and `(lon, lat)` lies in the start cell, it lies in a cell of `out` -/
theorem centre_cell_kept (cfg : Cfg) (lon lat a b pa : ℝ) (hb : 0 < b) (hba : b ≤ a) (ha : a < π / 2)
    (hmin : 1 / 2 ^ 1024 < sin b) (dists : List ℝ) (hD : ∀ D ∈ dists, D ≤ π / 2)
    (inCell : Nat → Nat → ℝ × ℝ → Prop) (target ds : Nat)
    (hcover : ∀ d h q, d ≠ target → inCell d h q → inCell (d + 1) (h <<< 2) q ∨ inCell (d + 1) (h <<< 2 ||| 1) q ∨
      inCell (d + 1) (h <<< 2 ||| 2) q ∨ inCell (d + 1) (h <<< 2 ||| 3) q)
    (hext : ∀ d h q q', vec q.1 q.2 = vec q'.1 q'.2 → inCell d h q → inCell d h q')
    (H1 : ∀ d h c D, ds ≤ d → Hash.center (α := ℝ) cfg d h = some c → dists[d - ds]? = some D →
      inCell d h (lon, lat) → adist c (lon, lat) ≤ D)
    (fuel root : Nat) (out : List Cell)
    (h : coverRec target (ellClassifier (α := ℝ) cfg target (ECone.new lon lat a b pa) dists) fuel ds root 0 = some out)
    (hq : inCell ds root (lon, lat)) :
    ∃ c ∈ out, inCell c.depth c.hash (lon, lat) := by
  have hv := ProjSIN.new_vec lon lat
  obtain ⟨c, hc, hin⟩ := econe_scheme_centre_kept cfg lon lat a b pa hb hba ha hmin dists hD inCell target ds hcover
    (fun d hh c D h1 h2 h3 h4 => by
      rw [adist_new_c0]; exact H1 d hh c D h1 h2 h3 (hext d hh (ProjSIN.new lon lat).c0 (lon, lat) hv h4))
    fuel root out h (hext ds root (lon, lat) (ProjSIN.new lon lat).c0 hv.symm hq)
  exact ⟨c, hc, hext c.depth c.hash (ProjSIN.new lon lat).c0 (lon, lat) hv hin⟩

/-- **C13, circular case: nothing is missed** (relative to the envelope hypothesis `H1`): for `a = b`, every point within
    `a` of `(lon, lat)` lying in the start cell lies in a cell of the output -/
theorem circular_no_miss (cfg : Cfg) (lon lat a pa : ℝ) (ha : 0 < a ∧ a < π / 2)
    (hmin : 1 / 2 ^ 1024 < sin a) (dists : List ℝ) (hD : ∀ D ∈ dists, D ≤ π / 2 ∧ a + D ≤ 3)
    (inCell : Nat → Nat → ℝ × ℝ → Prop) (target ds : Nat)
    (hcover : ∀ d h q, d ≠ target → inCell d h q → inCell (d + 1) (h <<< 2) q ∨ inCell (d + 1) (h <<< 2 ||| 1) q ∨
      inCell (d + 1) (h <<< 2 ||| 2) q ∨ inCell (d + 1) (h <<< 2 ||| 3) q)
    (H1 : ∀ d h c D q, ds ≤ d → Hash.center (α := ℝ) cfg d h = some c → dists[d - ds]? = some D → inCell d h q →
      adist c q ≤ D)
    (fuel root : Nat) (out : List Cell)
    (h : coverRec target (ellClassifier (α := ℝ) cfg target (ECone.new lon lat a a pa) dists) fuel ds root 0 = some out)
    (q : ℝ × ℝ) (hq : inCell ds root q) (hin : adist q (lon, lat) ≤ a) :
    ∃ c ∈ out, inCell c.depth c.hash q :=
  econe_scheme_circular_no_miss cfg lon lat a pa ha hmin dists hD inCell target ds hcover H1 fuel root out h q hq
    (by rwa [adist_new_c0])

/-- **C13, circular case: `full` flags are truthful** (relative to `H1`) -/
theorem circular_full_inside (cfg : Cfg) (lon lat a pa : ℝ) (ha : 0 < a ∧ a < π / 2)
    (dists : List ℝ) (hD : ∀ D ∈ dists, 0 ≤ D)
    (inCell : Nat → Nat → ℝ × ℝ → Prop) (target ds : Nat)
    (H1 : ∀ d h c D q, ds ≤ d → Hash.center (α := ℝ) cfg d h = some c → dists[d - ds]? = some D → inCell d h q →
      adist c q ≤ D)
    (fuel root : Nat) (out : List Cell)
    (h : coverRec target (ellClassifier (α := ℝ) cfg target (ECone.new lon lat a a pa) dists) fuel ds root 0 = some out)
    (c : Cell) (hc : c ∈ out) (hf : c.full = true) :
    (∀ q, inCell c.depth c.hash q → adist q (lon, lat) ≤ a) ∨
    (c.depth = target ∧ ∃ vs, Hash.vertices (α := ℝ) cfg c.depth c.hash = some vs ∧
      ∀ v ∈ vs, adist v (lon, lat) ≤ a) := by
  have := econe_scheme_circular_full_inside cfg lon lat a pa ha dists hD inCell target ds H1 fuel root out h c hc hf
  simpa only [adist_new_c0] using this

/-- the centre cell is kept, normalised centre (`0 ≤ lon < 2π`, `|lat| ≤ π/2`): no extensionality hypothesis on `inCell` -/
theorem centre_cell_kept_normalised (cfg : Cfg) (lon lat a b pa : ℝ) (hlon : 0 ≤ lon ∧ lon < 2 * π)
    (hlat : -(π / 2) ≤ lat ∧ lat ≤ π / 2) (hb : 0 < b) (hba : b ≤ a) (ha : a < π / 2)
    (hmin : 1 / 2 ^ 1024 < sin b) (dists : List ℝ) (hD : ∀ D ∈ dists, D ≤ π / 2)
    (inCell : Nat → Nat → ℝ × ℝ → Prop) (target ds : Nat)
    (hcover : ∀ d h q, d ≠ target → inCell d h q → inCell (d + 1) (h <<< 2) q ∨ inCell (d + 1) (h <<< 2 ||| 1) q ∨
      inCell (d + 1) (h <<< 2 ||| 2) q ∨ inCell (d + 1) (h <<< 2 ||| 3) q)
    (H1 : ∀ d h c D, ds ≤ d → Hash.center (α := ℝ) cfg d h = some c → dists[d - ds]? = some D →
      inCell d h (lon, lat) → adist c (lon, lat) ≤ D)
    (fuel root : Nat) (out : List Cell)
    (h : coverRec target (ellClassifier (α := ℝ) cfg target (ECone.new lon lat a b pa) dists) fuel ds root 0 = some out)
    (hq : inCell ds root (lon, lat)) :
    ∃ c ∈ out, inCell c.depth c.hash (lon, lat) := by
  have hc0 := ProjSIN.new_c0 lon lat hlon hlat
  have := econe_scheme_centre_kept cfg lon lat a b pa hb hba ha hmin dists hD inCell target ds hcover
    (by rw [hc0]; exact H1) fuel root out h (by rw [hc0]; exact hq)
  rwa [hc0] at this

/-! ## the hypotheses are satisfiable -/

theorem tiny_lt_milli : (1 : ℝ) / 2 ^ 1024 < 1 / 1000 := by
  have : (2 : ℝ) ^ 10 ≤ 2 ^ 1024 := pow_le_pow_right₀ (by norm_num) (by norm_num)
  calc (1 : ℝ) / 2 ^ 1024 ≤ 1 / 2 ^ 10 := one_div_le_one_div_of_le (by positivity) this
    _ < 1 / 1000 := by norm_num

/-- `sin x > 2^-1024` as soon as `1/100 ≤ x ≤ π/2` -/
theorem tiny_lt_sin (x : ℝ) (h0 : 1 / 100 ≤ x) (h1 : x ≤ π / 2) : 1 / 2 ^ 1024 < sin x := by
  have hj := mul_le_sin (x := x) (by linarith) h1
  have h2 : (1 : ℝ) / 2 ≤ 2 / π := by rw [div_le_div_iff₀ (by norm_num) pi_pos]; linarith [pi_lt_four]
  have h3 : (1 : ℝ) / 2 * (1 / 100) ≤ 2 / π * x := mul_le_mul h2 h0 (by norm_num) (by positivity)
  have h4 : (1 : ℝ) / 1000 < sin x := by linarith
  exact lt_trans tiny_lt_milli h4

/-- circular case, a cone that meets the circle without containing its centre: centre `(0, 0)`, `a = b = 1/2`, the cone of
    radius `3/5` around `(0, 1)` (at distance `1 ≤ 1/2 + 3/5`): `overlap_cone` answers `true` -/
example : (ECone.new (α := ℝ) 0 0 (1 / 2) (1 / 2) 0).overlapCone 0 1 (3 / 5) = some true := by
  have hd : adist (0, 1) ((0 : ℝ), (0 : ℝ)) = 1 := adist_same_lon 0 1 (by norm_num) (by linarith [pi_gt_three])
  have h3 := pi_gt_three
  apply overlap_cone_circular_sound' 0 0 (1 / 2) 0 0 1 (3 / 5) ⟨by norm_num, by linarith⟩ ⟨by norm_num, by linarith⟩
  · rw [hd]; exact tiny_lt_sin 1 (by norm_num) (by linarith)
  · rw [hd]; norm_num

/-- general case: centre `(0, 0)`, `a = 1/2`, `b = 1/10`, position angle `1`; the cone of radius `3/5` around `(0, 1/2)`
    contains the centre: the cell is not skipped -/
example : (ECone.new (α := ℝ) 0 0 (1 / 2) (1 / 10) 1).contains 0 (1 / 2) = true ∨
    (ECone.new (α := ℝ) 0 0 (1 / 2) (1 / 10) 1).overlapCone 0 (1 / 2) (3 / 5) = some true := by
  have h3 := pi_gt_three
  have hd : adist (0, 1 / 2) ((0 : ℝ), (0 : ℝ)) = 1 / 2 := adist_same_lon 0 (1 / 2) (by norm_num) (by linarith)
  apply centre_cone_kept 0 0 (1 / 2) (1 / 10) 1 0 (1 / 2) (3 / 5) (by norm_num) (by norm_num) (by linarith)
    (tiny_lt_sin _ (by norm_num) (by linarith)) ⟨by norm_num, by linarith⟩
  rw [adist_new_c0, hd]; norm_num

/-- the numeric hypotheses of `circular_no_miss` / `centre_cell_kept` hold for the radii the coverage uses
    (the largest centre-to-vertex distance is `π/2 − asin(2/3) ≈ 0.841` at depth 0, decreasing with the depth) -/
example : ∀ D ∈ [(85 : ℝ) / 100, 54 / 100, 27 / 100], D ≤ π / 2 ∧ (3 / 2 : ℝ) + D ≤ 3 := by
  have h3 := pi_gt_three
  intro D hD
  simp only [List.mem_cons, List.not_mem_nil, or_false] at hD
  rcases hD with rfl | rfl | rfl <;> constructor <;> linarith

end Hpx.Sph
