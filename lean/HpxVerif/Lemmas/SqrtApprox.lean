import HpxVerif.Model.Layer
import Mathlib.Tactic.Ring
import Mathlib.Tactic.Linarith

/-!
# The `f64` square root used by `from_ring` (C10/C11): Lean's logical model of `Float`

`Float.ofNat`, `Float.sqrt` and `Float.toUInt64` have a logical model (`Float.Model`, an IEEE `binary64` bit pattern that is
unpacked into sign / mantissa / exponent, operated on with `Nat` arithmetic and `Nat.sqrt`, rounded and packed again).
This file proves the facts about that model that are needed to bound the error of
`isqrtF64 y = (Float.sqrt (Float.ofNat y)).toUInt64.toNat`:

* `roundWithAccuracy_cases`, `roundWithAccuracy_spec` : rounding in the normal range of `binary64` yields a 53-bit mantissa that is the truncated
  mantissa or its successor (faithful rounding), and is exact when no non-zero bit is dropped;
* `unpack_pack_normal` : a normal number survives `pack`/`unpack`.

The float-level consequences are in `SqrtApprox2.lean`.
-/

open Float.Model Float.Model.UnpackedFloat

namespace Hpx.SqrtApprox

/-! ## extended mantissas -/

theorem shiftRight_zero (em : ExtendedMantissa) : em >>> 0 = em := rfl

theorem shiftRight_succ (em : ExtendedMantissa) (n : Nat) : em >>> (n + 1) = (em >>> n).shiftRightOne := rfl

theorem shiftRight_mantissa (em : ExtendedMantissa) (n : Nat) : (em >>> n).mantissa = em.mantissa / 2 ^ n := by
  induction n with
  | zero => simp [shiftRight_zero]
  | succ n ih =>
    rw [shiftRight_succ]
    simp only [ExtendedMantissa.shiftRightOne, ih, Nat.div_div_eq_div_mul, Nat.pow_succ]

/-- shifting out zero bits of an exact mantissa keeps it exact -/
theorem shiftRight_exact (m n : Nat) (h : 2 ^ n ∣ m) :
    (⟨m, false, false⟩ : ExtendedMantissa) >>> n = ⟨m / 2 ^ n, false, false⟩ := by
  induction n with
  | zero => simp [shiftRight_zero]
  | succ n ih =>
    have h' : 2 ^ n ∣ m := Dvd.dvd.trans ⟨2, by rw [Nat.pow_succ]⟩ h
    rw [shiftRight_succ, ih h']
    obtain ⟨c, rfl⟩ := h
    have e : 2 ^ (n + 1) * c / 2 ^ n = 2 * c := by
      rw [Nat.pow_succ, Nat.mul_assoc, Nat.mul_div_cancel_left _ (Nat.pow_pos (by decide))]
    simp only [ExtendedMantissa.shiftRightOne, e]
    have e2 : 2 ^ (n + 1) * c / 2 ^ (n + 1) = c := Nat.mul_div_cancel_left _ (Nat.pow_pos (by decide))
    rw [e2]
    simp

theorem roundedMantissa_bounds (em : ExtendedMantissa) :
    em.mantissa ≤ em.roundedMantissa ∧ em.roundedMantissa ≤ em.mantissa + 1 := by
  obtain ⟨m, r, s⟩ := em
  cases r <;> cases s <;>
    simp [ExtendedMantissa.roundedMantissa, ExtendedMantissa.accuracy, Accuracy.roundToNearestEven]
  omega

theorem ofMA_mantissa (m : Nat) (acc : Accuracy) :
    (ExtendedMantissa.ofMantissaAndAccuracy m acc).mantissa = m := by
  rcases acc with _ | o
  · rfl
  · cases o <;> rfl

/-! ## `binary64` constants, target exponent -/

theorem b64_mantissaBits : Format.binary64.mantissaBits = 53 := rfl
theorem b64_minExponent : Format.binary64.minExponent = -1074 := by decide
theorem b64_exponentBias : Format.binary64.exponentBias = 1023 := by decide

/-- target exponent in the normal range -/
theorem targetExponent_normal (m : Nat) (e : Int) (he : -1022 ≤ (m.log2 : Int) + e) :
    Format.binary64.targetExponent (totalExponent m e) = (m.log2 : Int) + e - 52 := by
  unfold Format.targetExponent totalExponent
  rw [b64_mantissaBits, b64_minExponent]
  omega

/-- the first shift of `roundWithAccuracy` in the normal range: drop `log2 m - 52` bits -/
theorem shiftToTarget_normal (m : Nat) (e : Int) (acc : Accuracy) (h1 : 2 ^ 52 ≤ m)
    (he : -1022 ≤ (m.log2 : Int) + e) :
    shiftToTargetExponent Format.binary64 m e acc =
      (ExtendedMantissa.ofMantissaAndAccuracy m acc >>> (m.log2 - 52), e + ((m.log2 - 52 : Nat) : Int)) := by
  have hl : 52 ≤ m.log2 := (Nat.le_log2 (by omega)).2 h1
  unfold shiftToTargetExponent shiftToExponent
  rw [targetExponent_normal m e he]
  have : ((m.log2 : Int) + e - 52 - e).toNat = m.log2 - 52 := by omega
  simp only [this]

/-- the truncated mantissa `m / 2^(log2 m - 52)` has 53 bits -/
theorem trunc_bounds (m : Nat) (h1 : 2 ^ 52 ≤ m) :
    2 ^ 52 ≤ m / 2 ^ (m.log2 - 52) ∧ m / 2 ^ (m.log2 - 52) < 2 ^ 53 := by
  have hm0 : m ≠ 0 := by omega
  have hl : 52 ≤ m.log2 := (Nat.le_log2 hm0).2 h1
  generalize hsh : m.log2 - 52 = sh
  have hL : m.log2 = sh + 52 := by omega
  constructor
  · rw [Nat.le_div_iff_mul_le (Nat.pow_pos (by decide)), ← Nat.pow_add, Nat.add_comm, ← hL]
    exact Nat.log2_self_le hm0
  · rw [Nat.div_lt_iff_lt_mul (Nat.pow_pos (by decide)), ← Nat.pow_add]
    have := @Nat.lt_log2_self m
    rw [hL] at this
    rwa [show 53 + sh = sh + 52 + 1 by omega]

/-- **`roundWithAccuracy` in the normal range of `binary64`** (positive sign), first form: with
    `R = roundedMantissa (m, acc >>> (log2 m - 52))` the rounded 53-bit (or `2^53`) mantissa, the result is `R` at the
    shifted exponent, renormalised when `R = 2^53`. -/
theorem roundWithAccuracy_cases (m : Nat) (e : Int) (acc : Accuracy) (h1 : 2 ^ 52 ≤ m)
    (he : -1022 ≤ (m.log2 : Int) + e) :
    ∃ m' e' h, roundWithAccuracy Format.binary64 .positive m e acc = .finite .positive m' e' h ∧
      2 ^ 52 ≤ m' ∧ m' < 2 ^ 53 ∧
      ((m' = (ExtendedMantissa.ofMantissaAndAccuracy m acc >>> (m.log2 - 52)).roundedMantissa ∧
          e' = e + ((m.log2 - 52 : Nat) : Int)) ∨
       ((ExtendedMantissa.ofMantissaAndAccuracy m acc >>> (m.log2 - 52)).roundedMantissa = 2 ^ 53 ∧ m' = 2 ^ 52 ∧
          e' = e + ((m.log2 - 52 : Nat) : Int) + 1)) := by
  have hm0 : m ≠ 0 := by omega
  have hl : 52 ≤ m.log2 := (Nat.le_log2 hm0).2 h1
  obtain ⟨hq1, hq2⟩ := trunc_bounds m h1
  generalize hsh : m.log2 - 52 = sh at hq1 hq2
  have hL : m.log2 = sh + 52 := by omega
  generalize hq : m / 2 ^ sh = q at hq1 hq2
  unfold roundWithAccuracy
  rw [shiftToTarget_normal m e acc h1 he, hsh]
  dsimp only
  generalize hem : ExtendedMantissa.ofMantissaAndAccuracy m acc >>> sh = em
  have hemm : em.mantissa = q := by rw [← hem, shiftRight_mantissa, ofMA_mantissa, hq]
  have hb := roundedMantissa_bounds em
  rw [hemm] at hb
  generalize hr : em.roundedMantissa = r at hb
  by_cases hr53 : r < 2 ^ 53
  · -- no renormalisation
    have hl2 : r.log2 = 52 := (Nat.log2_eq_iff (by omega)).2 ⟨by omega, hr53⟩
    have hs2 : shiftToTargetExponent Format.binary64 r (e + (sh : Int)) .exact =
        (⟨r, false, false⟩, e + (sh : Int)) := by
      rw [shiftToTarget_normal r _ _ (by omega) (by omega), hl2]
      simp [shiftRight_zero, ExtendedMantissa.ofMantissaAndAccuracy]
    rw [hs2]
    dsimp only
    rw [dif_neg (by omega)]
    exact ⟨r, e + sh, by omega, rfl, by omega, hr53, Or.inl ⟨rfl, rfl⟩⟩
  · -- the rounded mantissa is `2^53`: one more (exact) shift
    have hr' : r = 2 ^ 53 := by omega
    have hl2 : r.log2 = 53 := by rw [hr', Nat.log2_two_pow]
    have hs2 : shiftToTargetExponent Format.binary64 r (e + (sh : Int)) .exact =
        (⟨2 ^ 52, false, false⟩, e + (sh : Int) + 1) := by
      rw [shiftToTarget_normal r _ _ (by omega) (by omega), hl2]
      have : (ExtendedMantissa.ofMantissaAndAccuracy r Accuracy.exact) = ⟨r, false, false⟩ := rfl
      rw [this, shiftRight_exact r _ (by rw [hr']; decide), hr']
      simp
    rw [hs2]
    dsimp only
    rw [dif_neg (by decide)]
    exact ⟨2 ^ 52, e + sh + 1, by decide, rfl, by omega, by omega, Or.inr ⟨hr', rfl, rfl⟩⟩

/-- **`roundWithAccuracy` in the normal range of `binary64`** (positive sign): the result has a 53-bit mantissa, equal
    to the truncated mantissa `q = m / 2^(log2 m - 52)` or to `q + 1` (renormalised when `q + 1 = 2^53`); it is `q` when
    the input is exact and no non-zero bit is dropped. -/
theorem roundWithAccuracy_spec (m : Nat) (e : Int) (acc : Accuracy) (h1 : 2 ^ 52 ≤ m)
    (he : -1022 ≤ (m.log2 : Int) + e) :
    ∃ m' e' h, roundWithAccuracy Format.binary64 .positive m e acc = .finite .positive m' e' h ∧
      2 ^ 52 ≤ m' ∧ m' < 2 ^ 53 ∧
      ((m' = m / 2 ^ (m.log2 - 52) ∧ e' = e + ((m.log2 - 52 : Nat) : Int)) ∨
       (m' = m / 2 ^ (m.log2 - 52) + 1 ∧ e' = e + ((m.log2 - 52 : Nat) : Int)) ∨
       (m / 2 ^ (m.log2 - 52) + 1 = 2 ^ 53 ∧ m' = 2 ^ 52 ∧ e' = e + ((m.log2 - 52 : Nat) : Int) + 1)) ∧
      (acc = .exact → 2 ^ (m.log2 - 52) ∣ m → m' = m / 2 ^ (m.log2 - 52) ∧ e' = e + ((m.log2 - 52 : Nat) : Int)) := by
  obtain ⟨m', e', h, heq, hb1, hb2, hcase⟩ := roundWithAccuracy_cases m e acc h1 he
  obtain ⟨hq1, hq2⟩ := trunc_bounds m h1
  have hb := roundedMantissa_bounds (ExtendedMantissa.ofMantissaAndAccuracy m acc >>> (m.log2 - 52))
  rw [shiftRight_mantissa, ofMA_mantissa] at hb
  have hexact : acc = .exact → 2 ^ (m.log2 - 52) ∣ m →
      (ExtendedMantissa.ofMantissaAndAccuracy m acc >>> (m.log2 - 52)).roundedMantissa = m / 2 ^ (m.log2 - 52) := by
    intro ha hd
    subst ha
    have : ExtendedMantissa.ofMantissaAndAccuracy m .exact = ⟨m, false, false⟩ := rfl
    rw [this, shiftRight_exact m _ hd]; rfl
  generalize (ExtendedMantissa.ofMantissaAndAccuracy m acc >>> (m.log2 - 52)).roundedMantissa = r at hcase hb hexact
  refine ⟨m', e', h, heq, hb1, hb2, ?_, ?_⟩
  · rcases hcase with ⟨rfl, rfl⟩ | ⟨hr, rfl, rfl⟩
    · rcases Nat.lt_or_ge (m / 2 ^ (m.log2 - 52)) m' with h | h
      · right; left; exact ⟨by omega, rfl⟩
      · left; exact ⟨by omega, rfl⟩
    · right; right; exact ⟨by omega, rfl, rfl⟩
  · intro ha hd
    have := hexact ha hd
    rcases hcase with ⟨rfl, rfl⟩ | ⟨hr, rfl, rfl⟩
    · exact ⟨this, rfl⟩
    · omega

/-! ## `pack` / `unpack` -/

theorem unpackSign_packComponents {spec : Format} {sign exponent mantissa} :
    unpackSign (packComponents spec sign exponent mantissa) = sign.toBitVec := by
  ext i hi
  have : i = 0 := by omega
  subst this
  simp [unpackSign, packComponents, BitVec.getLsbD_eq_getElem, BitVec.getLsbD_append, BitVec.getElem_append]

theorem finite_congr {s : Sign} {m m' : Nat} {e e' : Int} {h : 0 < m} (hm : m = m') (he : e = e') :
    UnpackedFloat.finite s m e h = UnpackedFloat.finite s m' e' (hm ▸ h) := by
  subst hm; subst he; rfl

/-- a normal positive `binary64` number survives packing and unpacking -/
theorem unpack_pack_normal (m : Nat) (e : Int) (h : 0 < m) (h1 : 2 ^ 52 ≤ m) (h2 : m < 2 ^ 53)
    (he1 : -1074 ≤ e) (he2 : e ≤ 971) :
    UnpackedFloat.unpack Format.binary64 (UnpackedFloat.pack Format.binary64 (.finite .positive m e h)) =
      .finite .positive m e h := by
  have hl : m.log2 = 52 := (Nat.log2_eq_iff (by omega)).2 ⟨h1, h2⟩
  unfold UnpackedFloat.pack
  simp only [b64_exponentBias, hl]
  rw [if_neg (by simp; omega), if_pos (by rfl)]
  unfold UnpackedFloat.unpack
  simp only [unpackMantissa_packComponents, unpackExponent_packComponents, unpackSign_packComponents]
  obtain ⟨k, hk⟩ : ∃ k : Nat, (e + (1023 : Nat) + (52 : Nat)).toNat = k := ⟨_, rfl⟩
  have hk1 : 1 ≤ k := by omega
  have hk2 : k ≤ 2046 := by omega
  have hke : (k : Int) = e + 1075 := by omega
  rw [hk]
  have hn1 : BitVec.ofNat 11 k ≠ -1#11 := by
    intro hc
    have := congrArg BitVec.toNat hc
    simp at this
    omega
  have hn0 : BitVec.ofNat 11 k ≠ 0#11 := by
    intro hc
    have := congrArg BitVec.toNat hc
    simp at this
    omega
  rw [if_neg hn1, if_neg hn0]
  have hm : (1#1 ++ BitVec.ofNat 52 m).toNat = m := by
    rw [BitVec.toNat_append]
    simp only [BitVec.toNat_ofNat]
    rw [← Nat.shiftLeft_add_eq_or_of_lt (Nat.mod_lt _ (by decide))]
    simp only [Nat.shiftLeft_eq]
    omega
  have he : ((BitVec.ofNat 11 k).toNat : Int) - ((Format.binary64.exponentBias : Int) + (52 : Nat)) = e := by
    rw [b64_exponentBias]
    simp only [BitVec.toNat_ofNat]
    omega
  rw [finite_congr hm he]
  rfl

/-- the same at the level of `Float.Model` -/
theorem model_unpack_pack (m : Nat) (e : Int) (h : 0 < m) (h1 : 2 ^ 52 ≤ m) (h2 : m < 2 ^ 53)
    (he1 : -1074 ≤ e) (he2 : e ≤ 971) :
    (Float.Model.pack (.finite .positive m e h)).unpack = .finite .positive m e h :=
  unpack_pack_normal m e h h1 h2 he1 he2

end Hpx.SqrtApprox
