/-
C04 — `neighbour_labelled`, `neighbours_distinct`: the cell returned by `neighbourParts n p dir` shares with `p`
exactly the vertices of the side (ordinal `dir`) / the corner (cardinal `dir`) of `p` in direction `dir`.
-/
import HpxVerif.Lemmas.TopoGlueN
import HpxVerif.Lemmas.TopoGlueE
import HpxVerif.Lemmas.TopoGlueS

namespace Hpx.TopoNeigh
open Hpx Hpx.Topo Hpx.TopoSpec MW

/-- equality of corner keys is the gluing relation (all 144 pairs of base cells) -/
theorem glue (n : Int) (b b' : Nat) (a c a' c' : Int) (hn : 0 < n) (hb : b < 12) (hb' : b' < 12)
    (ha : 0 ≤ a) (ha' : a ≤ n) (hc : 0 ≤ c) (hc' : c ≤ n) (hd : 0 ≤ a') (hd' : a' ≤ n) (he : 0 ≤ c') (he' : c' ≤ n) :
    Kp n b a c = Kp n b' a' c' ↔ Glue n b b' a c a' c' := by
  rcases (by omega : b / 4 = 0 ∨ b / 4 = 1 ∨ b / 4 = 2) with h | h | h
  · exact glue_row0 n b b' a c a' c' hn h hb' ha ha' hc hc' hd hd' he he'
  · exact glue_row1 n b b' a c a' c' hn h hb' ha ha' hc hc' hd hd' he he'
  · exact glue_row2 n b b' a c a' c' hn h hb' ha ha' hc hc' hd hd' he he'

/-- the vertex `v` of cell `(b, i, j)` is a vertex of `q` -/
def InQ (n : Nat) (b : Nat) (i j : Nat) (q : HashParts) (v : MW) : Prop :=
  ∃ w ∈ cardinals, Glue n b q.d0h (i + dA v) (j + dC v) (q.i + dA w) (q.j + dC w)

theorem dA_range (v : MW) : 0 ≤ dA v ∧ dA v ≤ 1 := by cases v <;> simp [dA]
theorem dC_range (v : MW) : 0 ≤ dC v ∧ dC v ≤ 1 := by cases v <;> simp [dC]

/-- bridge from the specification to the gluing relation -/
theorem mem_keys_iff (n : Nat) (p q : HashParts) (v : MW) (hn : 1 ≤ n) (hp : Valid n p) (hq : Valid n q)
    (hv : v ∈ cardinals) : vkey n p v ∈ keys n q ↔ InQ n p.d0h p.i p.j q v := by
  unfold keys InQ
  rw [List.mem_map]
  have h1 := dA_range v; have h2 := dC_range v
  obtain ⟨hpb, hpi, hpj⟩ := hp
  constructor
  · rintro ⟨w, hw, e⟩
    refine ⟨w, hw, ?_⟩
    have h3 := dA_range w; have h4 := dC_range w
    rw [vkey_eq n q w hn hq hw, vkey_eq n p v hn ⟨hpb, hpi, hpj⟩ hv] at e
    obtain ⟨hqb, hqi, hqj⟩ := hq
    exact (glue n _ _ _ _ _ _ (by omega) hpb hqb (by omega) (by omega) (by omega) (by omega) (by omega) (by omega)
      (by omega) (by omega)).1 e.symm
  · rintro ⟨w, hw, e⟩
    refine ⟨w, hw, ?_⟩
    have h3 := dA_range w; have h4 := dC_range w
    rw [vkey_eq n q w hn hq hw, vkey_eq n p v hn ⟨hpb, hpi, hpj⟩ hv]
    obtain ⟨hqb, hqi, hqj⟩ := hq
    exact ((glue n _ _ _ _ _ _ (by omega) hpb hqb (by omega) (by omega) (by omega) (by omega) (by omega) (by omega)
      (by omega) (by omega)).2 e).symm

/-! ## the shared vertices, direction by direction (12 base cells × zones of the shifted coordinates) -/

local macro "lab_tac" n:ident b:ident I:term:max J:term:max hb:ident P:term : tactic =>
  `(tactic| (
    intro h
    revert h
    unfold nbAt
    rcases zone_cases $n $I with ⟨h1, hz⟩ | ⟨h1, h2, hz⟩ | ⟨h1, h2, hz⟩ <;>
    rcases zone_cases $n $J with ⟨h3, hz'⟩ | ⟨h3, h4, hz'⟩ | ⟨h3, h4, hz'⟩ <;>
    (try omega) <;>
    rw [hz, hz'] <;>
    refine b12 (P := $P) $b $hb ?_ ?_ ?_ ?_ ?_ ?_ ?_ ?_ ?_ ?_ ?_ ?_ <;>
    simp only [nbZ, ofOffsets, ofIndex, seamRule, ncpRule, eqrRule, spcRule, baseCell, next, prev, oppo, Src.eval] <;>
    simp <;>
    · intro hq; subst hq
      refine ⟨?_, ?_, ?_, ?_⟩ <;>
      simp only [InQ, cardinals, dA, dC, List.mem_cons, List.not_mem_nil, or_false, exists_eq_or_imp, exists_eq_left,
        Glue, Nat.reduceDiv, Nat.reduceMod, Nat.reduceAdd, Nat.reduceSub, true_and, and_true, false_and, and_false,
        false_or, true_or, or_true, not_true_eq_false, not_false_eq_true] <;>
      omega))

section
variable (n b i j : Nat) (q : HashParts) (hn : 1 ≤ n) (hn2 : n ≤ 4294967296) (hb : b < 12) (hi : i < n) (hj : j < n)
include hn hn2 hb hi hj
set_option linter.unusedSimpArgs false

set_option maxHeartbeats 400000 in
theorem lab_S : nbAt n b ((i : Int) + (-1)) ((j : Int) + (-1)) = some q →
    InQ n b i j q S ∧ ¬ InQ n b i j q E ∧ ¬ InQ n b i j q N ∧ ¬ InQ n b i j q W := by
  lab_tac n b ((i : Int) + (-1)) ((j : Int) + (-1)) hb
    (fun b => nbZ n b _ _ _ _ = some q → InQ n b i j q S ∧ ¬ InQ n b i j q E ∧ ¬ InQ n b i j q N ∧ ¬ InQ n b i j q W)

set_option maxHeartbeats 400000 in
theorem lab_SE : nbAt n b ((i : Int) + (0)) ((j : Int) + (-1)) = some q →
    InQ n b i j q S ∧ InQ n b i j q E ∧ ¬ InQ n b i j q N ∧ ¬ InQ n b i j q W := by
  lab_tac n b ((i : Int) + (0)) ((j : Int) + (-1)) hb
    (fun b => nbZ n b _ _ _ _ = some q → InQ n b i j q S ∧ InQ n b i j q E ∧ ¬ InQ n b i j q N ∧ ¬ InQ n b i j q W)

set_option maxHeartbeats 400000 in
theorem lab_E : nbAt n b ((i : Int) + (1)) ((j : Int) + (-1)) = some q →
    ¬ InQ n b i j q S ∧ InQ n b i j q E ∧ ¬ InQ n b i j q N ∧ ¬ InQ n b i j q W := by
  lab_tac n b ((i : Int) + (1)) ((j : Int) + (-1)) hb
    (fun b => nbZ n b _ _ _ _ = some q → ¬ InQ n b i j q S ∧ InQ n b i j q E ∧ ¬ InQ n b i j q N ∧ ¬ InQ n b i j q W)

set_option maxHeartbeats 400000 in
theorem lab_SW : nbAt n b ((i : Int) + (-1)) ((j : Int) + (0)) = some q →
    InQ n b i j q S ∧ ¬ InQ n b i j q E ∧ ¬ InQ n b i j q N ∧ InQ n b i j q W := by
  lab_tac n b ((i : Int) + (-1)) ((j : Int) + (0)) hb
    (fun b => nbZ n b _ _ _ _ = some q → InQ n b i j q S ∧ ¬ InQ n b i j q E ∧ ¬ InQ n b i j q N ∧ InQ n b i j q W)

set_option maxHeartbeats 400000 in
theorem lab_NE : nbAt n b ((i : Int) + (1)) ((j : Int) + (0)) = some q →
    ¬ InQ n b i j q S ∧ InQ n b i j q E ∧ InQ n b i j q N ∧ ¬ InQ n b i j q W := by
  lab_tac n b ((i : Int) + (1)) ((j : Int) + (0)) hb
    (fun b => nbZ n b _ _ _ _ = some q → ¬ InQ n b i j q S ∧ InQ n b i j q E ∧ InQ n b i j q N ∧ ¬ InQ n b i j q W)

set_option maxHeartbeats 400000 in
theorem lab_W : nbAt n b ((i : Int) + (-1)) ((j : Int) + (1)) = some q →
    ¬ InQ n b i j q S ∧ ¬ InQ n b i j q E ∧ ¬ InQ n b i j q N ∧ InQ n b i j q W := by
  lab_tac n b ((i : Int) + (-1)) ((j : Int) + (1)) hb
    (fun b => nbZ n b _ _ _ _ = some q → ¬ InQ n b i j q S ∧ ¬ InQ n b i j q E ∧ ¬ InQ n b i j q N ∧ InQ n b i j q W)

set_option maxHeartbeats 400000 in
theorem lab_NW : nbAt n b ((i : Int) + (0)) ((j : Int) + (1)) = some q →
    ¬ InQ n b i j q S ∧ ¬ InQ n b i j q E ∧ InQ n b i j q N ∧ InQ n b i j q W := by
  lab_tac n b ((i : Int) + (0)) ((j : Int) + (1)) hb
    (fun b => nbZ n b _ _ _ _ = some q → ¬ InQ n b i j q S ∧ ¬ InQ n b i j q E ∧ InQ n b i j q N ∧ InQ n b i j q W)

set_option maxHeartbeats 400000 in
theorem lab_N : nbAt n b ((i : Int) + (1)) ((j : Int) + (1)) = some q →
    ¬ InQ n b i j q S ∧ ¬ InQ n b i j q E ∧ InQ n b i j q N ∧ ¬ InQ n b i j q W := by
  lab_tac n b ((i : Int) + (1)) ((j : Int) + (1)) hb
    (fun b => nbZ n b _ _ _ _ = some q → ¬ InQ n b i j q S ∧ ¬ InQ n b i j q E ∧ InQ n b i j q N ∧ ¬ InQ n b i j q W)

end

/-- the vertices of `(b, i, j)` that are vertices of its neighbour in direction `dir` are those of the side / corner
    `dir` -/
theorem nb_InQ (n b i j : Nat) (dir : MW) (q : HashParts) (hn : 1 ≤ n) (hn2 : n ≤ 4294967296) (hb : b < 12)
    (hi : i < n) (hj : j < n) (hdir : dir ≠ C)
    (h : nbAt n b ((i : Int) + dir.offsetSe) ((j : Int) + dir.offsetSw) = some q) :
    ∀ v ∈ cardinals, (InQ n b i j q v ↔ v ∈ edgeOf dir) := by
  cases dir
  case C => exact absurd rfl hdir
  case S =>
    obtain ⟨h1, h2, h3, h4⟩ := lab_S n b i j q hn hn2 hb hi hj h
    simp [cardinals, edgeOf, h1, h2, h3, h4]
  case SE =>
    obtain ⟨h1, h2, h3, h4⟩ := lab_SE n b i j q hn hn2 hb hi hj h
    simp [cardinals, edgeOf, h1, h2, h3, h4]
  case E =>
    obtain ⟨h1, h2, h3, h4⟩ := lab_E n b i j q hn hn2 hb hi hj h
    simp [cardinals, edgeOf, h1, h2, h3, h4]
  case SW =>
    obtain ⟨h1, h2, h3, h4⟩ := lab_SW n b i j q hn hn2 hb hi hj h
    simp [cardinals, edgeOf, h1, h2, h3, h4]
  case NE =>
    obtain ⟨h1, h2, h3, h4⟩ := lab_NE n b i j q hn hn2 hb hi hj h
    simp [cardinals, edgeOf, h1, h2, h3, h4]
  case W =>
    obtain ⟨h1, h2, h3, h4⟩ := lab_W n b i j q hn hn2 hb hi hj h
    simp [cardinals, edgeOf, h1, h2, h3, h4]
  case NW =>
    obtain ⟨h1, h2, h3, h4⟩ := lab_NW n b i j q hn hn2 hb hi hj h
    simp [cardinals, edgeOf, h1, h2, h3, h4]
  case N =>
    obtain ⟨h1, h2, h3, h4⟩ := lab_N n b i j q hn hn2 hb hi hj h
    simp [cardinals, edgeOf, h1, h2, h3, h4]

/-- direction `C` is the cell itself -/
theorem neighbourParts_C (n : Nat) (p : HashParts) (hp : Valid n p) : neighbourParts n p C = some p := by
  obtain ⟨hb, hi, hj⟩ := hp
  show nbZ n p.d0h (zone n ((p.i : Int) + 0)) (zone n ((p.j : Int) + 0)) ((p.i : Int) + 0) ((p.j : Int) + 0) = some p
  rcases zone_cases n ((p.i : Int) + 0) with ⟨h1, hz⟩ | ⟨h1, h2, hz⟩ | ⟨h1, h2, hz⟩ <;>
  rcases zone_cases n ((p.j : Int) + 0) with ⟨h3, hz'⟩ | ⟨h3, h4, hz'⟩ | ⟨h3, h4, hz'⟩ <;>
  (try omega)
  rw [hz, hz']
  simp [nbZ, ofOffsets, ofIndex]

theorem filter_edgeOf (dir : MW) : cardinals.filter (fun v => decide (v ∈ edgeOf dir)) = edgeOf dir := by
  cases dir <;> decide

theorem edgeOf_injective {d1 d2 : MW} (h : edgeOf d1 = edgeOf d2) : d1 = d2 := by
  cases d1 <;> cases d2 <;> first | rfl | exact absurd h (by decide)

/-- inside one closed base cell the gluing is the identity -/
theorem glue_self (n : Int) (b : Nat) (a c a' c' : Int) (hb : b < 12) :
    Glue n b b a c a' c' ↔ a = a' ∧ c = c' := by
  refine b12 (P := fun b => Glue n b b a c a' c' ↔ a = a' ∧ c = c') b hb ?_ ?_ ?_ ?_ ?_ ?_ ?_ ?_ ?_ ?_ ?_ ?_ <;>
  simp [Glue]

/-- the four vertices of a cell are four different points of the sphere (so "`p` and `q` share exactly the vertices
    `shared n p q`" counts points of the sphere).  Holds for every `n ≥ 1`. -/
theorem vkey_injective (n : Nat) (p : HashParts) (v w : MW) (hn : 1 ≤ n) (hp : Valid n p) (hv : v ∈ cardinals)
    (hw : w ∈ cardinals) (e : vkey n p v = vkey n p w) : v = w := by
  rw [vkey_eq n p v hn hp hv, vkey_eq n p w hn hp hw] at e
  have h1 := dA_range v; have h2 := dC_range v; have h3 := dA_range w; have h4 := dC_range w
  obtain ⟨hb, hi, hj⟩ := hp
  have hG := (glue n _ _ _ _ _ _ (by omega) hb hb (by omega) (by omega) (by omega) (by omega) (by omega) (by omega)
      (by omega) (by omega)).1 e
  rw [glue_self n _ _ _ _ _ hb] at hG
  simp only [cardinals, List.mem_cons, List.not_mem_nil, or_false] at hv hw
  rcases hv with rfl | rfl | rfl | rfl <;> rcases hw with rfl | rfl | rfl | rfl <;>
  first | rfl | (simp only [dA, dC] at hG; omega)

/-- **C04, `neighbour_labelled`**: the cell returned for direction `dir` shares with `p` exactly the vertices of the
    side `dir` of `p` (two vertices, `dir` ordinal), exactly the corner `dir` of `p` (one vertex, `dir` cardinal); for
    `dir = C` it is `p` itself (four vertices).  Holds for every `n ≥ 1`, including `n = 1` (depth 0). -/
theorem neighbour_labelled (n : Nat) (p q : HashParts) (dir : MW) (hn : 1 ≤ n) (hn2 : n ≤ 4294967296)
    (hp : Valid n p) (h : neighbourParts n p dir = some q) : shared n p q = edgeOf dir := by
  have hq := neighbourParts_valid n p q dir hn hn2 hp h
  by_cases hdir : dir = C
  · subst hdir
    rw [neighbourParts_C n p hp] at h
    cases h
    unfold shared
    rw [List.filter_eq_self.2]
    · rfl
    · intro v hv
      exact decide_eq_true (List.mem_map_of_mem hv)
  · rw [← filter_edgeOf dir]
    unfold shared
    apply List.filter_congr
    intro v hv
    rw [neighbourParts_eq_nbAt] at h
    have := nb_InQ n p.d0h p.i p.j dir q hn hn2 hp.1 hp.2.1 hp.2.2 hdir h v hv
    rw [decide_eq_decide, mem_keys_iff n p q v hn hp hq hv]
    exact this

/-- **C04, `neighbours_distinct`**: two different directions (the centre included) never give the same cell; in
    particular the (up to 8) neighbours are pairwise distinct.  Holds for every `n ≥ 1`. -/
theorem neighbours_distinct (n : Nat) (p q : HashParts) (d1 d2 : MW) (hn : 1 ≤ n) (hn2 : n ≤ 4294967296)
    (hp : Valid n p) (h1 : neighbourParts n p d1 = some q) (h2 : neighbourParts n p d2 = some q) : d1 = d2 :=
  edgeOf_injective ((neighbour_labelled n p q d1 hn hn2 hp h1).symm.trans (neighbour_labelled n p q d2 hn hn2 hp h2))

/-- a neighbour (direction other than `C`) is never the cell itself.  Holds for every `n ≥ 1`. -/
theorem neighbour_ne_self (n : Nat) (p q : HashParts) (dir : MW) (hn : 1 ≤ n) (hn2 : n ≤ 4294967296)
    (hp : Valid n p) (hdir : dir ≠ C) (h : neighbourParts n p dir = some q) : q ≠ p := by
  rintro rfl
  exact hdir (neighbours_distinct n q q dir C hn hn2 hp h (neighbourParts_C n q hp))

end Hpx.TopoNeigh
