/-
C04 — `neighbour_labelled`, `neighbours_distinct`: the cell returned by `neighbourParts n p dir` shares with `p`
exactly the vertices of the side (ordinal `dir`) / the corner (cardinal `dir`) of `p` in direction `dir`.
-/
import HpxVerif.Lemmas.TopoGlueN
import HpxVerif.Lemmas.TopoGlueE
import HpxVerif.Lemmas.TopoGlueS

namespace Hpx.TopoNeigh
open Hpx Hpx.Topo Hpx.TopoSpec MW

/-- equality of corner keys is the gluing relation (all 144 pairs of base cells) -/
theorem glue (n : Int) (b b' : Nat) (a c a' c' : Int) (hn : 0 < n) (hb : b < 12) (hb' : b' < 12)
    (ha : 0 ≤ a) (ha' : a ≤ n) (hc : 0 ≤ c) (hc' : c ≤ n) (hd : 0 ≤ a') (hd' : a' ≤ n) (he : 0 ≤ c') (he' : c' ≤ n) :
    Kp n b a c = Kp n b' a' c' ↔ Glue n b b' a c a' c' := by
  rcases (by omega : b / 4 = 0 ∨ b / 4 = 1 ∨ b / 4 = 2) with h | h | h
  · exact glue_row0 n b b' a c a' c' hn h hb' ha ha' hc hc' hd hd' he he'
  · exact glue_row1 n b b' a c a' c' hn h hb' ha ha' hc hc' hd hd' he he'
  · exact glue_row2 n b b' a c a' c' hn h hb' ha ha' hc hc' hd hd' he he'

/-- the vertex `v` of cell `(b, i, j)` is a vertex of `q` -/
def InQ (n : Nat) (b : Nat) (i j : Nat) (q : HashParts) (v : MW) : Prop :=
  ∃ w ∈ cardinals, Glue n b q.d0h (i + dA v) (j + dC v) (q.i + dA w) (q.j + dC w)

theorem dA_range (v : MW) : 0 ≤ dA v ∧ dA v ≤ 1 := by cases v <;> simp [dA]
theorem dC_range (v : MW) : 0 ≤ dC v ∧ dC v ≤ 1 := by cases v <;> simp [dC]

/-- bridge from the specification to the gluing relation -/
theorem mem_keys_iff (n : Nat) (p q : HashParts) (v : MW) (hn : 1 ≤ n) (hp : Valid n p) (hq : Valid n q)
    (hv : v ∈ cardinals) : vkey n p v ∈ keys n q ↔ InQ n p.d0h p.i p.j q v := by
  unfold keys InQ
  rw [List.mem_map]
  have h1 := dA_range v; have h2 := dC_range v
  obtain ⟨hpb, hpi, hpj⟩ := hp
  constructor
  · rintro ⟨w, hw, e⟩
    refine ⟨w, hw, ?_⟩
    have h3 := dA_range w; have h4 := dC_range w
    rw [vkey_eq n q w hn hq hw, vkey_eq n p v hn ⟨hpb, hpi, hpj⟩ hv] at e
    obtain ⟨hqb, hqi, hqj⟩ := hq
    exact (glue n _ _ _ _ _ _ (by omega) hpb hqb (by omega) (by omega) (by omega) (by omega) (by omega) (by omega)
      (by omega) (by omega)).1 e.symm
  · rintro ⟨w, hw, e⟩
    refine ⟨w, hw, ?_⟩
    have h3 := dA_range w; have h4 := dC_range w
    rw [vkey_eq n q w hn hq hw, vkey_eq n p v hn ⟨hpb, hpi, hpj⟩ hv]
    obtain ⟨hqb, hqi, hqj⟩ := hq
    exact ((glue n _ _ _ _ _ _ (by omega) hpb hqb (by omega) (by omega) (by omega) (by omega) (by omega) (by omega)
      (by omega) (by omega)).2 e).symm

/-! ## the shared vertices, direction by direction (12 base cells × zones of the shifted coordinates) -/

local macro "lab_tac" n:ident b:ident I:term:max J:term:max q:ident hb:ident P:term : tactic =>
  `(tactic| (
    intro h
    revert h
    unfold nbAt
    rcases zone_cases $n $I with ⟨h1, hz⟩ | ⟨h1, h2, hz⟩ | ⟨h1, h2, hz⟩ <;>
    rcases zone_cases $n $J with ⟨h3, hz'⟩ | ⟨h3, h4, hz'⟩ | ⟨h3, h4, hz'⟩ <;>
    (try omega) <;>
    rw [hz, hz'] <;>
    refine b12 (P := $P) $b $hb ?_ ?_ ?_ ?_ ?_ ?_ ?_ ?_ ?_ ?_ ?_ ?_ <;>
    simp only [nbZ, ofOffsets, ofIndex, seamRule, ncpRule, eqrRule, spcRule, baseCell, next, prev, oppo, Src.eval] <;>
    simp <;>
    · intro hq; subst hq
      refine ⟨?_, ?_, ?_, ?_⟩ <;>
      simp only [InQ, cardinals, dA, dC, List.mem_cons, List.not_mem_nil, or_false, exists_eq_or_imp, exists_eq_left,
        Glue, Nat.reduceDiv, Nat.reduceMod, Nat.reduceAdd, Nat.reduceSub, true_and, and_true, false_and, and_false,
        false_or, true_or, or_true, not_true_eq_false, not_false_eq_true] <;>
      omega))

section
variable (n b i j : Nat) (q : HashParts) (hn : 1 ≤ n) (hn2 : n ≤ 4294967296) (hb : b < 12) (hi : i < n) (hj : j < n)
include hn hn2 hb hi hj
set_option linter.unusedSimpArgs false

set_option maxHeartbeats 1000000 in
theorem lab_S : nbAt n b ((i : Int) + (-1)) ((j : Int) + (-1)) = some q →
    InQ n b i j q S ∧ ¬ InQ n b i j q E ∧ ¬ InQ n b i j q N ∧ ¬ InQ n b i j q W := by
  lab_tac n b ((i : Int) + (-1)) ((j : Int) + (-1)) q hb
    (fun b => nbZ n b _ _ _ _ = some q → InQ n b i j q S ∧ ¬ InQ n b i j q E ∧ ¬ InQ n b i j q N ∧ ¬ InQ n b i j q W)

set_option maxHeartbeats 1000000 in
theorem lab_SE : nbAt n b ((i : Int) + (0)) ((j : Int) + (-1)) = some q →
    InQ n b i j q S ∧ InQ n b i j q E ∧ ¬ InQ n b i j q N ∧ ¬ InQ n b i j q W := by
  lab_tac n b ((i : Int) + (0)) ((j : Int) + (-1)) q hb
    (fun b => nbZ n b _ _ _ _ = some q → InQ n b i j q S ∧ InQ n b i j q E ∧ ¬ InQ n b i j q N ∧ ¬ InQ n b i j q W)

set_option maxHeartbeats 1000000 in
theorem lab_E : nbAt n b ((i : Int) + (1)) ((j : Int) + (-1)) = some q →
    ¬ InQ n b i j q S ∧ InQ n b i j q E ∧ ¬ InQ n b i j q N ∧ ¬ InQ n b i j q W := by
  lab_tac n b ((i : Int) + (1)) ((j : Int) + (-1)) q hb
    (fun b => nbZ n b _ _ _ _ = some q → ¬ InQ n b i j q S ∧ InQ n b i j q E ∧ ¬ InQ n b i j q N ∧ ¬ InQ n b i j q W)

set_option maxHeartbeats 1000000 in
theorem lab_SW : nbAt n b ((i : Int) + (-1)) ((j : Int) + (0)) = some q →
    InQ n b i j q S ∧ ¬ InQ n b i j q E ∧ ¬ InQ n b i j q N ∧ InQ n b i j q W := by
  lab_tac n b ((i : Int) + (-1)) ((j : Int) + (0)) q hb
    (fun b => nbZ n b _ _ _ _ = some q → InQ n b i j q S ∧ ¬ InQ n b i j q E ∧ ¬ InQ n b i j q N ∧ InQ n b i j q W)

set_option maxHeartbeats 1000000 in
theorem lab_NE : nbAt n b ((i : Int) + (1)) ((j : Int) + (0)) = some q →
    ¬ InQ n b i j q S ∧ InQ n b i j q E ∧ InQ n b i j q N ∧ ¬ InQ n b i j q W := by
  lab_tac n b ((i : Int) + (1)) ((j : Int) + (0)) q hb
    (fun b => nbZ n b _ _ _ _ = some q → ¬ InQ n b i j q S ∧ InQ n b i j q E ∧ InQ n b i j q N ∧ ¬ InQ n b i j q W)

set_option maxHeartbeats 1000000 in
theorem lab_W : nbAt n b ((i : Int) + (-1)) ((j : Int) + (1)) = some q →
    ¬ InQ n b i j q S ∧ ¬ InQ n b i j q E ∧ ¬ InQ n b i j q N ∧ InQ n b i j q W := by
  lab_tac n b ((i : Int) + (-1)) ((j : Int) + (1)) q hb
    (fun b => nbZ n b _ _ _ _ = some q → ¬ InQ n b i j q S ∧ ¬ InQ n b i j q E ∧ ¬ InQ n b i j q N ∧ InQ n b i j q W)

set_option maxHeartbeats 1000000 in
theorem lab_NW : nbAt n b ((i : Int) + (0)) ((j : Int) + (1)) = some q →
    ¬ InQ n b i j q S ∧ ¬ InQ n b i j q E ∧ InQ n b i j q N ∧ InQ n b i j q W := by
  lab_tac n b ((i : Int) + (0)) ((j : Int) + (1)) q hb
    (fun b => nbZ n b _ _ _ _ = some q → ¬ InQ n b i j q S ∧ ¬ InQ n b i j q E ∧ InQ n b i j q N ∧ InQ n b i j q W)

set_option maxHeartbeats 1000000 in
theorem lab_N : nbAt n b ((i : Int) + (1)) ((j : Int) + (1)) = some q →
    ¬ InQ n b i j q S ∧ ¬ InQ n b i j q E ∧ InQ n b i j q N ∧ ¬ InQ n b i j q W := by
  lab_tac n b ((i : Int) + (1)) ((j : Int) + (1)) q hb
    (fun b => nbZ n b _ _ _ _ = some q → ¬ InQ n b i j q S ∧ ¬ InQ n b i j q E ∧ InQ n b i j q N ∧ ¬ InQ n b i j q W)

end

end Hpx.TopoNeigh
