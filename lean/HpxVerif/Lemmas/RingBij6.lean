import HpxVerif.Lemmas.RingBij3

/-!
# NESTED -> RING on parts is injective at *every* depth

`from_ring ∘ to_ring = id` (`fromRing_toRing_parts`) needs `d ≤ 32` because `from_ring` truncates `i`, `j` to `u32`;
injectivity of `to_ring` itself does not.  With `toRing_surj` and `toRingParts_lt`: `to_ring` is a bijection from the
valid parts onto `[0, 12·4^d)` for every `d`.
-/

namespace Hpx.RingBij
open Hpx Hpx.Layer

/-- equatorial region: the frame coordinates `(I, J) = (i + ns·I0, j + ns·J0)` used by `from_ring` are determined by
    the ring and the abscissa -/
theorem eq_frame (d k m i j t : Nat) (hk : k < 3) (hm : m < 4) (hi : i < nside d) (hj : j < nside d)
    (ht : t + (i + j + 2) = (k + 2) * nside d) (h1 : nside d ≤ t) (h2 : t + 2 ≤ 3 * nside d) :
    3 * nside d - 2 - t + xNat (nside d) ⟨4 * k + m, i, j⟩ = 2 * (i + nside d * eqI0 k m (decide (i < j))) ∧
    3 * nside d - 2 - t + 8 * nside d =
      xNat (nside d) ⟨4 * k + m, i, j⟩ + 2 * (j + nside d * eqJ0 k m (decide (i < j))) := by
  obtain ⟨-, hp, hx⟩ := toRing_eq d k m i j t hk hm hi hj ht h1 h2
  have hX := xNat_spec (nside d) k m i j hk hm hj
  have hpar := nside_par d
  generalize xNat (nside d) ⟨4 * k + m, i, j⟩ = X at *
  generalize nside d = ns at *
  have hm' : m = 0 ∨ m = 1 ∨ m = 2 ∨ m = 3 := by omega
  have hk' : k = 0 ∨ k = 1 ∨ k = 2 := by omega
  rcases hk' with rfl | rfl | rfl <;> rcases hm' with rfl | rfl | rfl | rfl
  all_goals simp only [eqI0, eqJ0, Nat.reduceMul, Nat.reduceAdd, Nat.reduceEqDiff, Nat.reduceSub, Bool.false_and,
    Bool.true_and, if_false, if_true, Bool.false_eq_true, decide_eq_true_eq, false_and, true_and, false_or,
    not_false_eq_true, and_false, decide_true, decide_false] at hX ⊢
  all_goals (try split)
  all_goals omega

theorem add_mul_inj {n a b q q' : Nat} (ha : a < n) (hb : b < n) (e : a + n * q = b + n * q') : a = b ∧ q = q' := by
  have h1 := mod_of_lt q ha
  have h2 := mod_of_lt q' hb
  have h3 := div_of_lt q ha
  have h4 := div_of_lt q' hb
  rw [e] at h1 h3
  exact ⟨by omega, by omega⟩

/-- the ring and the rank in the ring determine the parts -/
theorem spec_inj (d k m i j k' m' i' j' : Nat) (hk : k < 3) (hm : m < 4) (hi : i < nside d) (hj : j < nside d)
    (hk' : k' < 3) (hm' : m' < 4) (hi' : i' < nside d) (hj' : j' < nside d)
    (ht : ringOf (nside d) ⟨4 * k + m, i, j⟩ = ringOf (nside d) ⟨4 * k' + m', i', j'⟩)
    (hr : inRing (nside d) ⟨4 * k + m, i, j⟩ = inRing (nside d) ⟨4 * k' + m', i', j'⟩) :
    (⟨4 * k + m, i, j⟩ : HashParts) = ⟨4 * k' + m', i', j'⟩ := by
  have hns := nside_pos d
  have e1 : (4 * k + m) % 4 = m := by omega
  have e1' : (4 * k' + m') % 4 = m' := by omega
  have hK : k = 0 ∨ k = 1 ∨ k = 2 := by omega
  have hK' : k' = 0 ∨ k' = 1 ∨ k' = 2 := by omega
  have hM : m = 0 ∨ m = 1 ∨ m = 2 ∨ m = 3 := by omega
  have hM' : m' = 0 ∨ m' = 1 ∨ m' = 2 ∨ m' = 3 := by omega
  unfold inRing at hr
  dsimp only at hr
  rw [← ht, e1, e1'] at hr
  have hr1 := ringOf_mk (nside d) k m i j hm
  have hr1' := ringOf_mk (nside d) k' m' i' j' hm'
  rw [← ht] at hr1'
  by_cases c1 : ringOf (nside d) ⟨4 * k + m, i, j⟩ < nside d
  · rw [if_pos c1, if_pos c1] at hr
    generalize ringOf (nside d) ⟨4 * k + m, i, j⟩ = t at *
    have : k = 0 := by rcases hK with rfl | rfl | rfl <;> omega
    subst this
    have : k' = 0 := by rcases hK' with rfl | rfl | rfl <;> omega
    subst this
    simp only [HashParts.mk.injEq]
    generalize nside d = ns at *
    rcases hM with rfl | rfl | rfl | rfl <;> rcases hM' with rfl | rfl | rfl | rfl <;> omega
  by_cases c2 : ringOf (nside d) ⟨4 * k + m, i, j⟩ + 1 < 3 * nside d
  · rw [if_neg c1, if_pos c2, if_neg c1, if_pos c2] at hr
    obtain ⟨t, hte⟩ : ∃ t, t = ringOf (nside d) ⟨4 * k + m, i, j⟩ := ⟨_, rfl⟩
    rw [← hte] at hr1 hr1' c1 c2
    have g : t + (i + j + 2) = (k + 2) * nside d := by rcases hK with rfl | rfl | rfl <;> omega
    have g' : t + (i' + j' + 2) = (k' + 2) * nside d := by rcases hK' with rfl | rfl | rfl <;> omega
    have p := (toRing_eq d k m i j t hk hm hi hj g (by omega) (by omega)).2.1
    have p' := (toRing_eq d k' m' i' j' t hk' hm' hi' hj' g' (by omega) (by omega)).2.1
    obtain ⟨f1, f2⟩ := eq_frame d k m i j t hk hm hi hj g (by omega) (by omega)
    obtain ⟨f1', f2'⟩ := eq_frame d k' m' i' j' t hk' hm' hi' hj' g' (by omega) (by omega)
    have hX : xNat (nside d) ⟨4 * k + m, i, j⟩ = xNat (nside d) ⟨4 * k' + m', i', j'⟩ := by omega
    rw [hX] at f1 f2
    obtain ⟨a1, a2⟩ := add_mul_inj hi hi' (by omega : i + nside d * eqI0 k m (decide (i < j)) =
      i' + nside d * eqI0 k' m' (decide (i' < j')))
    obtain ⟨b1, b2⟩ := add_mul_inj hj hj' (by omega : j + nside d * eqJ0 k m (decide (i < j)) =
      j' + nside d * eqJ0 k' m' (decide (i' < j')))
    have z := depth0_eq k hk m hm (decide (i < j))
    have z' := depth0_eq k' hk' m' hm' (decide (i' < j'))
    rw [a2, b2, z'] at z
    rw [a1, b1, z]
  · rw [if_neg c1, if_neg c2, if_neg c1, if_neg c2] at hr
    generalize ringOf (nside d) ⟨4 * k + m, i, j⟩ = t at *
    have : k = 2 := by rcases hK with rfl | rfl | rfl <;> omega
    subst this
    have : k' = 2 := by rcases hK' with rfl | rfl | rfl <;> omega
    subst this
    simp only [HashParts.mk.injEq]
    generalize nside d = ns at *
    rcases hM with rfl | rfl | rfl | rfl <;> rcases hM' with rfl | rfl | rfl | rfl <;> omega

/-- `to_ring` on parts is injective on the valid parts, at every depth -/
theorem toRingParts_injective (d : Nat) (p q : HashParts) (hp : Valid d p) (hq : Valid d q)
    (e : toRingParts d p = toRingParts d q) : p = q := by
  have hns := nside_pos d
  obtain ⟨k, m, hk, hm, ep, hi, hj⟩ := valid_mk hp
  obtain ⟨k', m', hk', hm', eq', hi', hj'⟩ := valid_mk hq
  obtain ⟨s1, s2, s3⟩ := toRing_spec d p hp
  obtain ⟨s1', s2', s3'⟩ := toRing_spec d q hq
  rw [e, s1'] at s1
  have s := Option.some.inj s1
  have ht : ringOf (nside d) p = ringOf (nside d) q := by
    rcases Nat.lt_trichotomy (ringOf (nside d) p) (ringOf (nside d) q) with h | h | h
    · have := ringStart_next (nside d) hns h (by omega); omega
    · exact h
    · have := ringStart_next (nside d) hns h (by omega); omega
  have hr : inRing (nside d) p = inRing (nside d) q := by rw [ht] at s; omega
  rw [ep, eq'] at ht hr ⊢
  exact spec_inj d k m p.i p.j k' m' q.i q.j hk hm hi hj hk' hm' hi' hj' ht hr

/-- **bijection at every depth**: `to_ring` maps the valid parts one-to-one onto `[0, 12·4^d)` -/
theorem toRingParts_bijective (d : Nat) :
    (∀ p, Valid d p → ∃ r, toRingParts d p = some r ∧ r < 12 * 4 ^ d) ∧
    (∀ p q, Valid d p → Valid d q → toRingParts d p = toRingParts d q → p = q) ∧
    (∀ r, r < 12 * 4 ^ d → ∃ p, Valid d p ∧ toRingParts d p = some r) :=
  ⟨toRingParts_lt d, fun p q hp hq e => toRingParts_injective d p q hp hq e, toRing_surj d⟩

#print axioms toRingParts_bijective

end Hpx.RingBij
