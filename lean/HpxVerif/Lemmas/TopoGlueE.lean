/-
C04 — gluing lemmas, base cells of the equatorial region (generated text, one lemma per ordered pair of base cells):
the keys of two lattice corners are equal iff the corners are glued (`Glue`).
-/
import HpxVerif.Lemmas.TopoNeigh

namespace Hpx.TopoNeigh
open Hpx Hpx.TopoSpec

section
variable (n a c a' c' : Int) (hn : 0 < n) (ha : 0 ≤ a) (ha' : a ≤ n) (hc : 0 ≤ c) (hc' : c ≤ n)
  (hd : 0 ≤ a') (hd' : a' ≤ n) (he : 0 ≤ c') (he' : c' ≤ n)
include hn ha ha' hc hc' hd hd' he he'

local macro "glue_tac" k1:ident k2:ident : tactic =>
  `(tactic| (rw [$k1:ident n a c hn ha ha' hc hc', $k2:ident n a' c' hn hd hd' he he']
             simp only [Prod.mk.injEq, KXn, KXe, KXs, wr, wl, Glue, Nat.reduceDiv, Nat.reduceMod, Nat.reduceAdd,
               Nat.reduceSub]
             constructor <;> intro h <;> first | exact False.elim h | omega))

theorem glue_4_0 : Kp n 4 a c = Kp n 0 a' c' ↔ Glue n 4 0 a c a' c' := by glue_tac Kp_4 Kp_0
theorem glue_4_1 : Kp n 4 a c = Kp n 1 a' c' ↔ Glue n 4 1 a c a' c' := by glue_tac Kp_4 Kp_1
theorem glue_4_2 : Kp n 4 a c = Kp n 2 a' c' ↔ Glue n 4 2 a c a' c' := by glue_tac Kp_4 Kp_2
theorem glue_4_3 : Kp n 4 a c = Kp n 3 a' c' ↔ Glue n 4 3 a c a' c' := by glue_tac Kp_4 Kp_3
theorem glue_4_4 : Kp n 4 a c = Kp n 4 a' c' ↔ Glue n 4 4 a c a' c' := by glue_tac Kp_4 Kp_4
theorem glue_4_5 : Kp n 4 a c = Kp n 5 a' c' ↔ Glue n 4 5 a c a' c' := by glue_tac Kp_4 Kp_5
theorem glue_4_6 : Kp n 4 a c = Kp n 6 a' c' ↔ Glue n 4 6 a c a' c' := by glue_tac Kp_4 Kp_6
theorem glue_4_7 : Kp n 4 a c = Kp n 7 a' c' ↔ Glue n 4 7 a c a' c' := by glue_tac Kp_4 Kp_7
theorem glue_4_8 : Kp n 4 a c = Kp n 8 a' c' ↔ Glue n 4 8 a c a' c' := by glue_tac Kp_4 Kp_8
theorem glue_4_9 : Kp n 4 a c = Kp n 9 a' c' ↔ Glue n 4 9 a c a' c' := by glue_tac Kp_4 Kp_9
theorem glue_4_10 : Kp n 4 a c = Kp n 10 a' c' ↔ Glue n 4 10 a c a' c' := by glue_tac Kp_4 Kp_10
theorem glue_4_11 : Kp n 4 a c = Kp n 11 a' c' ↔ Glue n 4 11 a c a' c' := by glue_tac Kp_4 Kp_11
theorem glue_5_0 : Kp n 5 a c = Kp n 0 a' c' ↔ Glue n 5 0 a c a' c' := by glue_tac Kp_5 Kp_0
theorem glue_5_1 : Kp n 5 a c = Kp n 1 a' c' ↔ Glue n 5 1 a c a' c' := by glue_tac Kp_5 Kp_1
theorem glue_5_2 : Kp n 5 a c = Kp n 2 a' c' ↔ Glue n 5 2 a c a' c' := by glue_tac Kp_5 Kp_2
theorem glue_5_3 : Kp n 5 a c = Kp n 3 a' c' ↔ Glue n 5 3 a c a' c' := by glue_tac Kp_5 Kp_3
theorem glue_5_4 : Kp n 5 a c = Kp n 4 a' c' ↔ Glue n 5 4 a c a' c' := by glue_tac Kp_5 Kp_4
theorem glue_5_5 : Kp n 5 a c = Kp n 5 a' c' ↔ Glue n 5 5 a c a' c' := by glue_tac Kp_5 Kp_5
theorem glue_5_6 : Kp n 5 a c = Kp n 6 a' c' ↔ Glue n 5 6 a c a' c' := by glue_tac Kp_5 Kp_6
theorem glue_5_7 : Kp n 5 a c = Kp n 7 a' c' ↔ Glue n 5 7 a c a' c' := by glue_tac Kp_5 Kp_7
theorem glue_5_8 : Kp n 5 a c = Kp n 8 a' c' ↔ Glue n 5 8 a c a' c' := by glue_tac Kp_5 Kp_8
theorem glue_5_9 : Kp n 5 a c = Kp n 9 a' c' ↔ Glue n 5 9 a c a' c' := by glue_tac Kp_5 Kp_9
theorem glue_5_10 : Kp n 5 a c = Kp n 10 a' c' ↔ Glue n 5 10 a c a' c' := by glue_tac Kp_5 Kp_10
theorem glue_5_11 : Kp n 5 a c = Kp n 11 a' c' ↔ Glue n 5 11 a c a' c' := by glue_tac Kp_5 Kp_11
theorem glue_6_0 : Kp n 6 a c = Kp n 0 a' c' ↔ Glue n 6 0 a c a' c' := by glue_tac Kp_6 Kp_0
theorem glue_6_1 : Kp n 6 a c = Kp n 1 a' c' ↔ Glue n 6 1 a c a' c' := by glue_tac Kp_6 Kp_1
theorem glue_6_2 : Kp n 6 a c = Kp n 2 a' c' ↔ Glue n 6 2 a c a' c' := by glue_tac Kp_6 Kp_2
theorem glue_6_3 : Kp n 6 a c = Kp n 3 a' c' ↔ Glue n 6 3 a c a' c' := by glue_tac Kp_6 Kp_3
theorem glue_6_4 : Kp n 6 a c = Kp n 4 a' c' ↔ Glue n 6 4 a c a' c' := by glue_tac Kp_6 Kp_4
theorem glue_6_5 : Kp n 6 a c = Kp n 5 a' c' ↔ Glue n 6 5 a c a' c' := by glue_tac Kp_6 Kp_5
theorem glue_6_6 : Kp n 6 a c = Kp n 6 a' c' ↔ Glue n 6 6 a c a' c' := by glue_tac Kp_6 Kp_6
theorem glue_6_7 : Kp n 6 a c = Kp n 7 a' c' ↔ Glue n 6 7 a c a' c' := by glue_tac Kp_6 Kp_7
theorem glue_6_8 : Kp n 6 a c = Kp n 8 a' c' ↔ Glue n 6 8 a c a' c' := by glue_tac Kp_6 Kp_8
theorem glue_6_9 : Kp n 6 a c = Kp n 9 a' c' ↔ Glue n 6 9 a c a' c' := by glue_tac Kp_6 Kp_9
theorem glue_6_10 : Kp n 6 a c = Kp n 10 a' c' ↔ Glue n 6 10 a c a' c' := by glue_tac Kp_6 Kp_10
theorem glue_6_11 : Kp n 6 a c = Kp n 11 a' c' ↔ Glue n 6 11 a c a' c' := by glue_tac Kp_6 Kp_11
theorem glue_7_0 : Kp n 7 a c = Kp n 0 a' c' ↔ Glue n 7 0 a c a' c' := by glue_tac Kp_7 Kp_0
theorem glue_7_1 : Kp n 7 a c = Kp n 1 a' c' ↔ Glue n 7 1 a c a' c' := by glue_tac Kp_7 Kp_1
theorem glue_7_2 : Kp n 7 a c = Kp n 2 a' c' ↔ Glue n 7 2 a c a' c' := by glue_tac Kp_7 Kp_2
theorem glue_7_3 : Kp n 7 a c = Kp n 3 a' c' ↔ Glue n 7 3 a c a' c' := by glue_tac Kp_7 Kp_3
theorem glue_7_4 : Kp n 7 a c = Kp n 4 a' c' ↔ Glue n 7 4 a c a' c' := by glue_tac Kp_7 Kp_4
theorem glue_7_5 : Kp n 7 a c = Kp n 5 a' c' ↔ Glue n 7 5 a c a' c' := by glue_tac Kp_7 Kp_5
theorem glue_7_6 : Kp n 7 a c = Kp n 6 a' c' ↔ Glue n 7 6 a c a' c' := by glue_tac Kp_7 Kp_6
theorem glue_7_7 : Kp n 7 a c = Kp n 7 a' c' ↔ Glue n 7 7 a c a' c' := by glue_tac Kp_7 Kp_7
theorem glue_7_8 : Kp n 7 a c = Kp n 8 a' c' ↔ Glue n 7 8 a c a' c' := by glue_tac Kp_7 Kp_8
theorem glue_7_9 : Kp n 7 a c = Kp n 9 a' c' ↔ Glue n 7 9 a c a' c' := by glue_tac Kp_7 Kp_9
theorem glue_7_10 : Kp n 7 a c = Kp n 10 a' c' ↔ Glue n 7 10 a c a' c' := by glue_tac Kp_7 Kp_10
theorem glue_7_11 : Kp n 7 a c = Kp n 11 a' c' ↔ Glue n 7 11 a c a' c' := by glue_tac Kp_7 Kp_11

end

/-- all pairs `(b, b')` with `b` in the equatorial region -/
theorem glue_row1 (n : Int) (b b' : Nat) (a c a' c' : Int) (hn : 0 < n) (hb : b / 4 = 1) (hb' : b' < 12)
    (ha : 0 ≤ a) (ha' : a ≤ n) (hc : 0 ≤ c) (hc' : c ≤ n) (hd : 0 ≤ a') (hd' : a' ≤ n) (he : 0 ≤ c') (he' : c' ≤ n) :
    Kp n b a c = Kp n b' a' c' ↔ Glue n b b' a c a' c' := by
  have hb4 : b = 4 ∨ b = 5 ∨ b = 6 ∨ b = 7 := by omega
  rcases hb4 with rfl | rfl | rfl | rfl
  · exact b12 (P := fun b' => Kp n 4 a c = Kp n b' a' c' ↔ Glue n 4 b' a c a' c') b' hb'
      (glue_4_0 n a c a' c' hn ha ha' hc hc' hd hd' he he') (glue_4_1 n a c a' c' hn ha ha' hc hc' hd hd' he he') (glue_4_2 n a c a' c' hn ha ha' hc hc' hd hd' he he') (glue_4_3 n a c a' c' hn ha ha' hc hc' hd hd' he he')
      (glue_4_4 n a c a' c' hn ha ha' hc hc' hd hd' he he') (glue_4_5 n a c a' c' hn ha ha' hc hc' hd hd' he he') (glue_4_6 n a c a' c' hn ha ha' hc hc' hd hd' he he') (glue_4_7 n a c a' c' hn ha ha' hc hc' hd hd' he he')
      (glue_4_8 n a c a' c' hn ha ha' hc hc' hd hd' he he') (glue_4_9 n a c a' c' hn ha ha' hc hc' hd hd' he he') (glue_4_10 n a c a' c' hn ha ha' hc hc' hd hd' he he') (glue_4_11 n a c a' c' hn ha ha' hc hc' hd hd' he he')
  · exact b12 (P := fun b' => Kp n 5 a c = Kp n b' a' c' ↔ Glue n 5 b' a c a' c') b' hb'
      (glue_5_0 n a c a' c' hn ha ha' hc hc' hd hd' he he') (glue_5_1 n a c a' c' hn ha ha' hc hc' hd hd' he he') (glue_5_2 n a c a' c' hn ha ha' hc hc' hd hd' he he') (glue_5_3 n a c a' c' hn ha ha' hc hc' hd hd' he he')
      (glue_5_4 n a c a' c' hn ha ha' hc hc' hd hd' he he') (glue_5_5 n a c a' c' hn ha ha' hc hc' hd hd' he he') (glue_5_6 n a c a' c' hn ha ha' hc hc' hd hd' he he') (glue_5_7 n a c a' c' hn ha ha' hc hc' hd hd' he he')
      (glue_5_8 n a c a' c' hn ha ha' hc hc' hd hd' he he') (glue_5_9 n a c a' c' hn ha ha' hc hc' hd hd' he he') (glue_5_10 n a c a' c' hn ha ha' hc hc' hd hd' he he') (glue_5_11 n a c a' c' hn ha ha' hc hc' hd hd' he he')
  · exact b12 (P := fun b' => Kp n 6 a c = Kp n b' a' c' ↔ Glue n 6 b' a c a' c') b' hb'
      (glue_6_0 n a c a' c' hn ha ha' hc hc' hd hd' he he') (glue_6_1 n a c a' c' hn ha ha' hc hc' hd hd' he he') (glue_6_2 n a c a' c' hn ha ha' hc hc' hd hd' he he') (glue_6_3 n a c a' c' hn ha ha' hc hc' hd hd' he he')
      (glue_6_4 n a c a' c' hn ha ha' hc hc' hd hd' he he') (glue_6_5 n a c a' c' hn ha ha' hc hc' hd hd' he he') (glue_6_6 n a c a' c' hn ha ha' hc hc' hd hd' he he') (glue_6_7 n a c a' c' hn ha ha' hc hc' hd hd' he he')
      (glue_6_8 n a c a' c' hn ha ha' hc hc' hd hd' he he') (glue_6_9 n a c a' c' hn ha ha' hc hc' hd hd' he he') (glue_6_10 n a c a' c' hn ha ha' hc hc' hd hd' he he') (glue_6_11 n a c a' c' hn ha ha' hc hc' hd hd' he he')
  · exact b12 (P := fun b' => Kp n 7 a c = Kp n b' a' c' ↔ Glue n 7 b' a c a' c') b' hb'
      (glue_7_0 n a c a' c' hn ha ha' hc hc' hd hd' he he') (glue_7_1 n a c a' c' hn ha ha' hc hc' hd hd' he he') (glue_7_2 n a c a' c' hn ha ha' hc hc' hd hd' he he') (glue_7_3 n a c a' c' hn ha ha' hc hc' hd hd' he he')
      (glue_7_4 n a c a' c' hn ha ha' hc hc' hd hd' he he') (glue_7_5 n a c a' c' hn ha ha' hc hc' hd hd' he he') (glue_7_6 n a c a' c' hn ha ha' hc hc' hd hd' he he') (glue_7_7 n a c a' c' hn ha ha' hc hc' hd hd' he he')
      (glue_7_8 n a c a' c' hn ha ha' hc hc' hd hd' he he') (glue_7_9 n a c a' c' hn ha ha' hc hc' hd hd' he he') (glue_7_10 n a c a' c' hn ha ha' hc hc' hd hd' he he') (glue_7_11 n a c a' c' hn ha ha' hc hc' hd hd' he he')

end Hpx.TopoNeigh
