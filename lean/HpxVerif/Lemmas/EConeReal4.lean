/-
Real-valued meaning of the elliptical-cone tests of `elliptical_cone_coverage` (C13), part 4:
**for `a ≠ b` the skip test of the descent (`¬contains(centre) ∧ overlap_cone = false`) is not sound**, over the reals
(no rounding involved): an explicit configuration with rational sines and cosines in which a cone contains a point of the
elliptical cone, yet its centre is outside the ellipse and `overlap_cone` answers `false`.

Reason: `Ellipse::overlap` tests the centre of the projected cone against the ellipse whose covariance entries are
`(√σx₁² + √σx₂²)²`, `(√σy₁² + √σy₂²)²`, `ρ₁ + ρ₂` (`extended_geom`, "formula to be verified" in the source).  That ellipse is
*inside* the Minkowski sum of the two ellipses (Minkowski's inequality on the support functions) and coincides with it
only along the common axes; the test is therefore too strict as soon as the centre of the projected cone is off the axes of
the sum — which never happens when `a = b` (`overlap_cone_circular_sound`), and does happen for elongated ellipses.

C13 only states "contains the cell of the centre" and "for `a = b` contains every cell touched by the cone", both proved
(relative to the envelope hypothesis) in parts 2–3; this file documents that the restriction to `a = b` cannot be lifted.
-/
import HpxVerif.Lemmas.EConeReal3

namespace Hpx.Sph
open Hpx Hpx.Cover Real

theorem cos_arcsin_of_sq (x c : ℝ) (hc : 0 ≤ c) (h : c ^ 2 = 1 - x ^ 2) : cos (arcsin x) = c := by
  rw [cos_arcsin, ← h]; exact Real.sqrt_sq hc

theorem arcsin_pos_lt (x : ℝ) (h0 : 0 < x) (h1 : x < 1) : 0 < arcsin x ∧ arcsin x < π / 2 :=
  ⟨arcsin_pos.mpr h0, arcsin_lt_pi_div_two.mpr h1⟩

/-- membership at the centre `(0, 0)` in terms of the sines and cosines of the point -/
theorem contains_origin (a b pa l φ : ℝ) (hsa : sin a ≠ 0) (hsb : sin b ≠ 0) (hw : 0 < cos φ * cos l) :
    (ECone.new (α := ℝ) 0 0 a b pa).contains l φ = true ↔
      ((cos φ * sin l * cos (π / 2 - pa) + sin φ * sin (π / 2 - pa)) / sin a) ^ 2 +
      ((cos φ * sin l * sin (π / 2 - pa) - sin φ * cos (π / 2 - pa)) / sin b) ^ 2 ≤ 1 := by
  have hc0 : (ProjSIN.new (α := ℝ) 0 0).c0 = (0, 0) :=
    ProjSIN.new_c0 0 0 ⟨le_refl _, by positivity⟩ ⟨by linarith [pi_pos], by linarith [pi_pos]⟩
  unfold ECone.contains ECone.new
  simp only [num_sin, num_cos]
  rw [proj_sin_spec _ (ProjSIN.new_coherent 0 0), hc0, cos_adist']
  simp only [sin_zero, cos_zero, zero_mul, one_mul, zero_add, sub_zero, sinX, sinY]
  rw [if_pos hw, ellipse_contains_real _ _ _ _ _ _ hsa hsb (theta_unit pa), num_halfPi]

/-! ### the configuration -/
noncomputable def cxA : ℝ := arcsin (19 / 20)
noncomputable def cxB : ℝ := arcsin (1 / 100)
noncomputable def cxPa : ℝ := π / 2 - arcsin (24 / 25)
noncomputable def cxD : ℝ := arcsin (84 / 85)
noncomputable def cxR : ℝ := arcsin (5 / 13)
noncomputable def cxL : ℝ := arcsin (3 / 5)
noncomputable def cxPhi : ℝ := arcsin (80 / 89)

theorem cx_sinA : sin cxA = 19 / 20 := sin_arcsin (by norm_num) (by norm_num)
theorem cx_sinB : sin cxB = 1 / 100 := sin_arcsin (by norm_num) (by norm_num)
theorem cx_sinT : sin (π / 2 - cxPa) = 24 / 25 := by
  unfold cxPa; rw [sub_sub_cancel]; exact sin_arcsin (by norm_num) (by norm_num)
theorem cx_cosT : cos (π / 2 - cxPa) = 7 / 25 := by
  unfold cxPa; rw [sub_sub_cancel]; exact cos_arcsin_of_sq _ _ (by norm_num) (by norm_num)
theorem cx_sinD : sin cxD = 84 / 85 := sin_arcsin (by norm_num) (by norm_num)
theorem cx_cosD : cos cxD = 13 / 85 := cos_arcsin_of_sq _ _ (by norm_num) (by norm_num)
theorem cx_sinR : sin cxR = 5 / 13 := sin_arcsin (by norm_num) (by norm_num)
theorem cx_cosR : cos cxR = 12 / 13 := cos_arcsin_of_sq _ _ (by norm_num) (by norm_num)
theorem cx_sinL : sin cxL = 3 / 5 := sin_arcsin (by norm_num) (by norm_num)
theorem cx_cosL : cos cxL = 4 / 5 := cos_arcsin_of_sq _ _ (by norm_num) (by norm_num)
theorem cx_sinPhi : sin cxPhi = 80 / 89 := sin_arcsin (by norm_num) (by norm_num)
theorem cx_cosPhi : cos cxPhi = 39 / 89 := cos_arcsin_of_sq _ _ (by norm_num) (by norm_num)

theorem cx_ranges : 0 < cxB ∧ cxB ≤ cxA ∧ cxA < π / 2 ∧ 0 < cxR ∧ cxR ≤ π / 2 ∧ 0 < cxD ∧ cxD < π / 2 := by
  refine ⟨(arcsin_pos_lt _ (by norm_num) (by norm_num)).1, arcsin_le_arcsin (by norm_num),
    (arcsin_pos_lt _ (by norm_num) (by norm_num)).2, (arcsin_pos_lt _ (by norm_num) (by norm_num)).1,
    (arcsin_pos_lt _ (by norm_num) (by norm_num)).2.le, (arcsin_pos_lt _ (by norm_num) (by norm_num)).1,
    (arcsin_pos_lt _ (by norm_num) (by norm_num)).2⟩

/-- the point `q` is inside the elliptical cone -/
theorem cx_q_inside : (ECone.new (α := ℝ) 0 0 cxA cxB cxPa).contains cxL cxPhi = true := by
  rw [contains_origin _ _ _ _ _ (by rw [cx_sinA]; norm_num) (by rw [cx_sinB]; norm_num)
    (by rw [cx_cosPhi, cx_cosL]; norm_num)]
  rw [cx_sinA, cx_sinB, cx_sinT, cx_cosT, cx_sinL, cx_sinPhi, cx_cosPhi]
  norm_num

/-- the centre `p = (0, d)` of the cone is outside -/
theorem cx_p_outside : (ECone.new (α := ℝ) 0 0 cxA cxB cxPa).contains 0 cxD = false := by
  have := contains_origin cxA cxB cxPa 0 cxD (by rw [cx_sinA]; norm_num) (by rw [cx_sinB]; norm_num)
    (by rw [cx_cosD, cos_zero]; norm_num)
  rw [cx_sinA, cx_sinB, cx_sinT, cx_cosT, cx_sinD, cx_cosD, sin_zero] at this
  by_contra h
  have h' := this.mp (by simpa using h)
  norm_num at h'

/-- `q` is within `r` of `p` -/
theorem cx_q_in_cone : adist (0, cxD) (cxL, cxPhi) ≤ cxR := by
  have hr := cx_ranges
  have hc : cos cxR ≤ cos (adist (0, cxD) (cxL, cxPhi)) := by
    rw [cos_adist]
    simp only
    rw [zero_sub, cos_neg, cx_sinD, cx_cosD, cx_sinPhi, cx_cosPhi, cx_cosL, cx_cosR]
    norm_num
  by_contra hlt
  have := cos_lt_cos_of_nonneg_of_le_pi hr.2.2.2.1.le (adist_le_pi _ _) (not_le.mp hlt)
  linarith

/-- sufficient condition for the covariance-form test to fail -/
theorem cov_not_contains_of (Sx Sy ρ X Y : ℝ) (hdet : 0 < Sx * Sy - ρ * ρ)
    (h : Sx * Sy - ρ * ρ < X * X * Sy - 2 * (ρ * X * Y) + Y * Y * Sx) :
    (Ellipse.fromCov (α := ℝ) Sx Sy ρ).contains X Y = false := by
  unfold Ellipse.contains Ellipse.fromCov pow2
  rw [num_le, num_one, num_two, decide_eq_false_iff_not, not_le]
  simp only
  rw [one_div, lt_inv_mul_iff₀ hdet]; linarith

theorem cx_overlap_false : (ECone.new (α := ℝ) 0 0 cxA cxB cxPa).overlapCone 0 cxD cxR = some false := by
  have hr := cx_ranges
  have hc0 : (ProjSIN.new (α := ℝ) 0 0).c0 = (0, 0) :=
    ProjSIN.new_c0 0 0 ⟨le_refl _, by positivity⟩ ⟨by linarith [pi_pos], by linarith [pi_pos]⟩
  have hd : adist (0, cxD) (ProjSIN.new (α := ℝ) 0 0).c0 = cxD := by
    rw [hc0]; exact adist_same_lon 0 cxD hr.2.2.2.2.2.1.le (by linarith [pi_pos])
  by_cases hfar : cxA + cxR < adist (0, cxD) (ProjSIN.new (α := ℝ) 0 0).c0
  · exact overlapCone_far (ECone.new (α := ℝ) 0 0 cxA cxB cxPa) (ProjSIN.new_coherent 0 0) 0 cxD cxR hr.2.2.2.1 hfar
  · have hfin : |1 / sin (adist (0, cxD) (ProjSIN.new (α := ℝ) 0 0).c0)| < 2 ^ 1024 := by
      rw [hd, cx_sinD, inv_finite_iff _ (by norm_num)]
      exact lt_trans tiny_lt_milli (by norm_num)
    have key := overlapCone_main (ECone.new (α := ℝ) 0 0 cxA cxB cxPa) (ProjSIN.new_coherent 0 0) 0 cxD cxR
      hr.2.2.2.1 hfar hfin
    rw [key]
    simp only [ECone.new]
    rw [hd, hc0]
    have hX : sinX (0, 0) (0, cxD) = 0 := by simp [sinX]
    have hY : sinY (0, 0) (0, cxD) = 84 / 85 := by simp [sinY, cx_sinD]
    have hB : 1 / 2 * |sin (cxD + cxR) - sin (cxD - cxR)| = 1 / 17 := by
      rw [sin_add_sub, cx_cosD, cx_sinR]; norm_num
    have hDD : 1 / 2 * (sin (cxD + cxR) + sin (cxD - cxR)) = 1008 / 1105 := by
      rw [sin_add_add, cx_sinD, cx_cosR]; norm_num
    rw [hX, hY, hB, hDD, cx_sinD, cx_sinR]
    congr 1
    unfold Ellipse.extendedGeom
    have hσ1 : √(5 / 13 * (5 / 13) * (84 / 85 * (1 / (84 / 85)) * (84 / 85 * (1 / (84 / 85)))) +
        1 / 17 * (1 / 17) * (-(0 * (1 / (84 / 85))) * -(0 * (1 / (84 / 85))))) = (5 / 13 : ℝ) := by
      rw [show (5 / 13 * (5 / 13) * (84 / 85 * (1 / (84 / 85)) * (84 / 85 * (1 / (84 / 85)))) +
        1 / 17 * (1 / 17) * (-(0 * (1 / (84 / 85))) * -(0 * (1 / (84 / 85)))) : ℝ) = (5 / 13) ^ 2 by norm_num]
      exact Real.sqrt_sq (by norm_num)
    have hσ2 : √(5 / 13 * (5 / 13) * (-(0 * (1 / (84 / 85))) * -(0 * (1 / (84 / 85)))) +
        1 / 17 * (1 / 17) * (84 / 85 * (1 / (84 / 85)) * (84 / 85 * (1 / (84 / 85))))) = (1 / 17 : ℝ) := by
      rw [show (5 / 13 * (5 / 13) * (-(0 * (1 / (84 / 85))) * -(0 * (1 / (84 / 85)))) +
        1 / 17 * (1 / 17) * (84 / 85 * (1 / (84 / 85)) * (84 / 85 * (1 / (84 / 85)))) : ℝ) = (1 / 17) ^ 2 by norm_num]
      exact Real.sqrt_sq (by norm_num)
    have h1u : √(19 / 20 * (19 / 20) * (7 / 25 * (7 / 25)) + 1 / 100 * (1 / 100) * (24 / 25 * (24 / 25))) ≤
        (2662 / 10000 : ℝ) := by
      calc _ ≤ √((2662 / 10000 : ℝ) ^ 2) := Real.sqrt_le_sqrt (by norm_num)
        _ = 2662 / 10000 := Real.sqrt_sq (by norm_num)
    have h1l : (2661 / 10000 : ℝ) ≤
        √(19 / 20 * (19 / 20) * (7 / 25 * (7 / 25)) + 1 / 100 * (1 / 100) * (24 / 25 * (24 / 25))) := by
      calc (2661 / 10000 : ℝ) = √((2661 / 10000 : ℝ) ^ 2) := (Real.sqrt_sq (by norm_num)).symm
        _ ≤ _ := Real.sqrt_le_sqrt (by norm_num)
    have h2u : √(19 / 20 * (19 / 20) * (24 / 25 * (24 / 25)) + 1 / 100 * (1 / 100) * (7 / 25 * (7 / 25))) ≤
        (91201 / 100000 : ℝ) := by
      calc _ ≤ √((91201 / 100000 : ℝ) ^ 2) := Real.sqrt_le_sqrt (by norm_num)
        _ = 91201 / 100000 := Real.sqrt_sq (by norm_num)
    have h2l : (912 / 1000 : ℝ) ≤
        √(19 / 20 * (19 / 20) * (24 / 25 * (24 / 25)) + 1 / 100 * (1 / 100) * (7 / 25 * (7 / 25))) := by
      calc (912 / 1000 : ℝ) = √((912 / 1000 : ℝ) ^ 2) := (Real.sqrt_sq (by norm_num)).symm
        _ ≤ _ := Real.sqrt_le_sqrt (by norm_num)
    apply cov_not_contains_of
    · simp only [Ellipse.fromOriented, Ellipse.fromCov, pow2, num_sqrt, num_sin, num_cos, num_halfPi]
      rw [cx_sinA, cx_sinB, cx_sinT, cx_cosT, hσ1, hσ2]
      generalize √(19 / 20 * (19 / 20) * (7 / 25 * (7 / 25)) + 1 / 100 * (1 / 100) * (24 / 25 * (24 / 25))) = s1 at *
      generalize √(19 / 20 * (19 / 20) * (24 / 25 * (24 / 25)) + 1 / 100 * (1 / 100) * (7 / 25 * (7 / 25))) = s2 at *
      have hx : (2661 / 10000 + 5 / 13 : ℝ) * (2661 / 10000 + 5 / 13) ≤ (s1 + 5 / 13) * (s1 + 5 / 13) :=
        mul_le_mul (by linarith) (by linarith) (by norm_num) (by linarith)
      have hy : (912 / 1000 + 1 / 17 : ℝ) * (912 / 1000 + 1 / 17) ≤ (s2 + 1 / 17) * (s2 + 1 / 17) :=
        mul_le_mul (by linarith) (by linarith) (by norm_num) (by linarith)
      have hxy := mul_le_mul hx hy (by norm_num) (by nlinarith)
      norm_num at hxy ⊢
      linarith
    · simp only [Ellipse.fromOriented, Ellipse.fromCov, pow2, num_sqrt, num_sin, num_cos, num_halfPi]
      rw [cx_sinA, cx_sinB, cx_sinT, cx_cosT, hσ1, hσ2]
      generalize √(19 / 20 * (19 / 20) * (7 / 25 * (7 / 25)) + 1 / 100 * (1 / 100) * (24 / 25 * (24 / 25))) = s1 at *
      generalize √(19 / 20 * (19 / 20) * (24 / 25 * (24 / 25)) + 1 / 100 * (1 / 100) * (7 / 25 * (7 / 25))) = s2 at *
      have hx : (s1 + 5 / 13) * (s1 + 5 / 13) ≤ (2662 / 10000 + 5 / 13 : ℝ) * (2662 / 10000 + 5 / 13) :=
        mul_le_mul (by linarith) (by linarith) (by linarith) (by norm_num)
      have hx0 : 0 ≤ (s1 + 5 / 13) * (s1 + 5 / 13) := mul_self_nonneg _
      have hy : (s2 + 1 / 17) * (s2 + 1 / 17) ≤ (91201 / 100000 + 1 / 17 : ℝ) * (91201 / 100000 + 1 / 17) :=
        mul_le_mul (by linarith) (by linarith) (by linarith) (by norm_num)
      have hyl : (912 / 1000 + 1 / 17 : ℝ) * (912 / 1000 + 1 / 17) ≤ (s2 + 1 / 17) * (s2 + 1 / 17) :=
        mul_le_mul (by linarith) (by linarith) (by norm_num) (by linarith)
      -- Mx * (My − D²) ≤ Mxu * (Myu − D²) < ρ²
      have hgap : 0 ≤ (s2 + 1 / 17) * (s2 + 1 / 17) - (1008 / 1105 : ℝ) * (1008 / 1105) := by
        norm_num at hyl ⊢; linarith
      have hprod : (s1 + 5 / 13) * (s1 + 5 / 13) * ((s2 + 1 / 17) * (s2 + 1 / 17) - (1008 / 1105 : ℝ) * (1008 / 1105)) ≤
          (2662 / 10000 + 5 / 13 : ℝ) * (2662 / 10000 + 5 / 13) *
            ((91201 / 100000 + 1 / 17 : ℝ) * (91201 / 100000 + 1 / 17) - (1008 / 1105 : ℝ) * (1008 / 1105)) :=
        mul_le_mul hx (by linarith) hgap (by norm_num)
      norm_num at hprod ⊢
      linarith


/-- **the skip test is unsound for `a ≠ b`, over the reals**: centre `(0, 0)`, `sin a = 19/20`, `sin b = 1/100`, major axis
    at `asin(24/25)` from the east; the cone of radius `r = asin(5/13)` around `p = (0, asin(84/85))` contains the point
    `q = (asin(3/5), asin(80/89))` of the elliptical cone, `p` is outside the ellipse and `overlap_cone(p, r) = false`:
    a cell of centre `p` whose bounding radius is `r` is skipped although it may contain `q`.
    (At `f64`: `a = 1.2532`, `b = 0.0100`, `pa = 0.2838`, `p = (0, 1.41725)`, `r = 0.39479`, `q = (0.6435, 1.1172)`: same
    answers, the test fails by 3.5 %.) -/
theorem overlap_cone_noncircular_unsound :
    ∃ (a b pa r : ℝ) (p q : ℝ × ℝ), 0 < b ∧ b ≤ a ∧ a < π / 2 ∧ 0 < r ∧ r ≤ π / 2 ∧ 1 / 2 ^ 1024 < sin b ∧
      (ECone.new (α := ℝ) 0 0 a b pa).contains q.1 q.2 = true ∧ adist p q ≤ r ∧
      (ECone.new (α := ℝ) 0 0 a b pa).contains p.1 p.2 = false ∧
      (ECone.new (α := ℝ) 0 0 a b pa).overlapCone p.1 p.2 r = some false := by
  have hr := cx_ranges
  refine ⟨cxA, cxB, cxPa, cxR, (0, cxD), (cxL, cxPhi), hr.1, hr.2.1, hr.2.2.1, hr.2.2.2.1, hr.2.2.2.2.1, ?_,
    cx_q_inside, cx_q_in_cone, cx_p_outside, cx_overlap_false⟩
  rw [cx_sinB]; exact lt_trans tiny_lt_milli (by norm_num)

/-- consequence for the classifier: a cell whose centre is `p` and whose level radius is `r` is skipped -/
theorem ellClassifier_skips_cx (cfg : Cfg) (target d h l : Nat) (dists : List ℝ)
    (hc : Hash.center (α := ℝ) cfg d h = some (0, cxD)) (hl : dists[l]? = some cxR) :
    ellClassifier (α := ℝ) cfg target (ECone.new 0 0 cxA cxB cxPa) dists d h l = some .skip := by
  unfold ellClassifier
  simp only [hc, hl]
  have h1 : (ECone.new (α := ℝ) 0 0 cxA cxB cxPa).containsCone 0 cxD cxR = false := by
    unfold ECone.containsCone
    have : Num.ge cxR (ECone.new (α := ℝ) 0 0 cxA cxB cxPa).b = true := by
      show decide (cxB ≤ cxR) = true
      rw [decide_eq_true_eq]; exact arcsin_le_arcsin (by norm_num)
    simp [this]
  simp [h1, cx_p_outside, cx_overlap_false]

end Hpx.Sph
