import HpxVerif.Lemmas.CellExtent4
import HpxVerif.Lemmas.EConeReal4

/-!
# The envelope hypothesis `H1` of the elliptical-cone theorems of C13, discharged for the equatorial cells

`Sph.centre_cell_kept`, `Sph.circular_no_miss`, `Sph.circular_full_inside` (`Lemmas/EConeReal2/3.lean`, wrapped in
`Props/C13.lean`) are relative to `H1` ("every position of a visited cell is within the radius of its level of the cell
centre"), to `hcover` ("the four children cover the parent") and to numeric side conditions on the list of radii.

Here `inCell := CellExtent.InCellEq` (positions of the strictly equatorial cells of the NESTED scheme) and `dists` is the
list the model of `elliptical_cone_coverage_internal` really computes, `largest_center_to_vertex_distances_with_radius(ds,
depth + 1, lon, lat, a)` with the SEMI-MAJOR axis `a` as radius (`Model/SphGeom.lean`, `ellInternal`; release profile
`cfg.debug = false`), for the ellipses whose bounding disc stays in the equatorial band: `|lat| + a < tl`.

* `c2vR_le_dMax3`, `valR_le`, `dists_bounds`: every radius of the list is in `[0, 0.86]` (so `D ≤ π/2`, `a + D ≤ 3`);
* **`H1_equatorial_meet`**: `H1` for every position of a strictly equatorial cell that contains SOME position of the disc,
  every depth `0 … 29` (generalises `CellExtent.H1_equatorial_cone`; the centre of a `full` cell is such a position);
* **`econe_circular_no_miss_equatorial`** (`a = b`), **`econe_circular_full_inside_equatorial`** (`a = b`),
  **`econe_centre_cell_kept_equatorial`** (`0 < b ≤ a`): no geometric hypothesis left, EVERY starting depth `ds ≤ target ≤ 29`
  (the restriction `2 ≤ ds` of `CellExtent.H1_equatorial` is not needed: each use of `H1` is for a cell that meets the disc),
  any real longitude of the centre (no normalisation, no `hext`);
* examples on the ellipse `lon = 1`, `lat = 0.2`, `a = b = 0.05`, depth 6 (starting depth 3, start cell `3/4`).

`Lemmas/EConeEq2.lean` transports these statements to the output of `ellInternal` itself.
-/

namespace Hpx.EConeEq
open Hpx Hpx.Hash Hpx.C2V Hpx.C2VReal Hpx.Proj Hpx.Cover Hpx.CellReal Hpx.EnvelopeReal Hpx.TopoLift Hpx.CellExtent
open Hpx.Sph Hpx.Bmoc Real

/-! ## upper bound of the radii -/

theorem dMin2_le_dMax3 (δ : ℝ) (h0 : 0 ≤ δ) : dMin2 δ ≤ dMax3 δ := by
  unfold dMin2 dMax3
  have h1 := cosLsc_lt_one
  have h2 : 0 ≤ 4 / π * δ := by positivity
  nlinarith

theorem new_topEnv_le (d : ℕ) (x : ℝ) (hx : lsc ≤ x) : topEnv (Csts.new d : Csts ℝ) x ≤ dMin2 (1 / 2 ^ d) := by
  rw [← new_topEnv_lsc]
  have := new_slopeEqr_neg d
  unfold topEnv
  nlinarith

theorem new_botEnv_le (d : ℕ) (x : ℝ) : botEnv (Csts.new d : Csts ℝ) x ≤ dMax3 (1 / 2 ^ d) := by
  rw [← new_botEnv_zero]
  have := new_coeffX2Eqr_neg d
  unfold botEnv
  nlinarith [mul_self_nonneg x]

theorem c2vR_le_dMax3 (d : ℕ) (lon lat r : ℝ) (hr : 0 ≤ r) (hA : |lat| + r < tl) :
    c2vR (Csts.new d) lon lat r ≤ dMax3 (1 / 2 ^ d) := by
  obtain ⟨hδ0, hδ1⟩ := distCw_range d
  have h32 := dMin2_le_dMax3 (1 / 2 ^ d) hδ0.le
  unfold c2vR
  rw [if_neg (not_le.mpr hA), min_eq_left hA.le]
  split_ifs with h1 h2
  · exact (new_topEnv_le d _ (by linarith)).trans h32
  · exact new_botEnv_le d _
  · exact max_le ((new_topEnv_le d _ (by linarith)).trans h32) (new_botEnv_le d _)

/-- every value of `largest_center_to_vertex_distance_with_radius` (depth `≤ 29`, release profile) for a cone of the
    equatorial band is at most `0.86` (`π/2 − tl ≈ 0.841` at depth 0, at most `2/π` below) -/
theorem valR_le (d : ℕ) (lon lat r : ℝ) (hr : 0 ≤ r) (hA : |lat| + r < tl) : valR d lon lat r ≤ 86 / 100 := by
  unfold valR
  have hpi := Real.pi_gt_three
  split_ifs with h0
  · have := tl_ge
    have := Real.pi_lt_d2
    linarith
  · obtain ⟨hδ0, hδ1⟩ := half_pow_range d (by omega)
    refine (c2vR_le_dMax3 d lon lat r hr hA).trans ?_
    unfold dMax3
    have h1 : 4 / π * (1 / 2 ^ d) ≤ 4 / π * (1 / 2) := mul_le_mul_of_nonneg_left hδ1 (by positivity)
    have h2 : 4 / π * (1 / 2) ≤ 2 / 3 := by
      rw [show (4 : ℝ) / π * (1 / 2) = 2 / π by ring, div_le_div_iff₀ (by positivity) (by norm_num)]
      linarith
    linarith

/-- the entries of the list of radii: non-negative and at most `0.86` -/
theorem dists_bounds (ds target : ℕ) (hdt : ds ≤ target) (ht : target ≤ 29) (lon lat r : ℝ) (hr : 0 ≤ r)
    (hA : |lat| + r < tl) (dists : List ℝ)
    (hdists : largestC2VsWithRadius false ds (target + 1) lon lat r = some dists) :
    ∀ D ∈ dists, 0 ≤ D ∧ D ≤ 86 / 100 := by
  intro D hD
  obtain ⟨k, hk⟩ := List.mem_iff_getElem?.mp hD
  obtain ⟨_, rfl⟩ := dists_getElem_gen ds target hdt ht lon lat r dists hdists (ds + k) (by omega) D
    (by rw [show ds + k - ds = k by omega]; exact hk)
  exact ⟨valR_nonneg _ lon lat r hA, valR_le _ lon lat r hr hA⟩

/-- the list exists (no panic) for every `ds ≤ target ≤ 29` -/
theorem dists_exists_gen (ds target : ℕ) (hdt : ds ≤ target) (ht : target ≤ 29) (lon lat r : ℝ) :
    ∃ dists, largestC2VsWithRadius false ds (target + 1) lon lat r = some dists := by
  rw [c2vs_with_radius_agree, depthsOf_eq_range' ds _ (by omega)]
  have hall : ∀ d' ∈ List.range' ds (target + 1 - ds),
      largestC2VWithRadius false d' lon lat r = some (valR d' lon lat r) := by
    intro d' hd'
    rw [List.mem_range'_1] at hd'
    exact valR_spec d' (by omega) lon lat r
  rw [mapM_congr' _ _ _ hall, mapM_some_eq]
  exact ⟨_, rfl⟩

/-! ## `H1` for the cells that meet the cone -/

/-- **`H1_equatorial_meet`**: the envelope inequality for EVERY position `q` of a strictly equatorial cell `(d, h)` as soon
    as the cell contains SOME position `q'` of the cone (`adist (lon, lat) q' ≤ r`), every `ds ≤ d ≤ target ≤ 29` (depths 0
    and 1 included), `|lat| + r < tl`.  (`CellExtent.H1_equatorial_cone` is the case `q' = q`; the case `q' =` centre of
    the cell is what the `full` verdicts need.) -/
theorem H1_equatorial_meet (cfg : Cfg) (lon lat r : ℝ) (hA : |lat| + r < tl) (ds target : ℕ) (hdt : ds ≤ target)
    (ht : target ≤ 29) (dists : List ℝ)
    (hdists : largestC2VsWithRadius false ds (target + 1) lon lat r = some dists) :
    ∀ d h c D q q', ds ≤ d → Hash.center (α := ℝ) cfg d h = some c → dists[d - ds]? = some D →
      InCellEq d h q → InCellEq d h q' → adist (lon, lat) q' ≤ r → adist c q ≤ D := by
  intro d h c D q q' hd hc hD hq hq' hcone
  obtain ⟨_, rfl⟩ := dists_getElem_gen ds target hdt ht lon lat r dists hdists d hd D hD
  have hext := inCellEq_extent cfg d h c q hc hq
  obtain ⟨hd29, hh, hband, x', y', m, hin, rfl⟩ := hq'
  obtain ⟨hb, hi, hj⟩ := partsOf_valid d h hh
  have hy := cellCy_band d _ _ _ hband
  set cy := cellCy d (partsOf d h).d0h (partsOf d h).i (partsOf d h).j with hcy
  refine hext.trans ?_
  unfold valR
  rcases Nat.lt_or_ge d 2 with hd2 | hd2
  · rcases Nat.eq_zero_or_pos d with h0 | h0
    · -- depth 0
      subst h0
      rw [if_pos rfl]
      rw [pow_zero_one] at hy ⊢
      have : cy = 0 := by
        have := abs_nonneg cy
        exact abs_eq_zero.mp (by linarith)
      rw [this]
      exact base_cell_extent
    · -- depth 1
      have hd1 : d = 1 := by omega
      subst hd1
      rw [if_neg (by omega)]
      obtain ⟨hN, hS⟩ := dN_dS_le_dMax2 _ cy (by positivity) hy
      have h1 := c2vR_ge_dMax2 1 lon lat r hA
      refine max_le (hN.trans h1) (max_le (hS.trans h1) ?_)
      rw [pow_one_half]
      have hr0 : 0 ≤ r := (adist_nonneg _ _).trans hcone
      have hlat : |lat| ≤ π / 2 := by
        have := tl_le_pi3
        have := Real.pi_pos
        linarith
      have hdiff := adist_ge_lat_diff lon (x' * (π / 4) + 2 * π * m) lat (latOf y') hlat (latOf_abs_le y')
      have hq'' : |lat| - r ≤ |latOf y'| := by
        have := abs_sub_abs_le_abs_sub lat (latOf y')
        linarith
      unfold InDiamond at hin
      rw [pow_one_half] at hin
      exact depth1_dE_le lon lat r cy y' hA (cellCy_depth1 _ _ _ hb hi hj hband)
        (by linarith [abs_nonneg (x' - cellCx 1 (partsOf 1 h).d0h (partsOf 1 h).i (partsOf 1 h).j)]) hq''
  · rw [if_neg (by omega)]
    exact c2vR_dominates_eqr d hd2 lon lat r hA cy hy

theorem adist_self (p : ℝ × ℝ) : adist p p = 0 := by
  unfold adist
  exact InnerProductGeometry.angle_self (norm_ne_zero_iff.mp (by rw [norm_vec]; norm_num))

theorem lt_halfPi_of_band (lat a : ℝ) (hA : |lat| + a < tl) : a < π / 2 := by
  have := tl_le
  have := Real.pi_gt_three
  have := abs_nonneg lat
  linarith

/-- `hcover` for `inCell d h q := d ≤ target ∧ InCellEq d h q ∧ P q` -/
theorem hcover_eq (target : ℕ) (ht : target ≤ 29) (P : ℝ × ℝ → Prop) :
    ∀ d h q, d ≠ target → (d ≤ target ∧ InCellEq d h q ∧ P q) →
      (d + 1 ≤ target ∧ InCellEq (d + 1) (h <<< 2) q ∧ P q) ∨ (d + 1 ≤ target ∧ InCellEq (d + 1) (h <<< 2 ||| 1) q ∧ P q) ∨
      (d + 1 ≤ target ∧ InCellEq (d + 1) (h <<< 2 ||| 2) q ∧ P q) ∨
      (d + 1 ≤ target ∧ InCellEq (d + 1) (h <<< 2 ||| 3) q ∧ P q) := by
  intro d h q hne ⟨hle, hq, hP⟩
  have hd1 : d + 1 ≤ target := by omega
  rcases inCellEq_children d h q (by omega) hq with h0 | h1 | h2 | h3
  · exact Or.inl ⟨hd1, h0, hP⟩
  · exact Or.inr (Or.inl ⟨hd1, h1, hP⟩)
  · exact Or.inr (Or.inr (Or.inl ⟨hd1, h2, hP⟩))
  · exact Or.inr (Or.inr (Or.inr ⟨hd1, h3, hP⟩))

/-! ## the elliptical-cone descent on the strictly equatorial cells: nothing left to assume -/

/-- **`econe_circular_no_miss_equatorial`** (ℝ, release profile; C13 `circular_no_miss` with `H1`, `hcover` and the numeric
    side conditions discharged).  Circular elliptical cone `a = b`, centre `(lon, lat)` (any real longitude), `0 < a`,
    `|lat| + a < tl` (its latitude band stays below the transition latitude), `sin a > 2^-1024`, any position angle;
    EVERY starting depth `ds ≤ target ≤ 29`; `dists` the list `largest_center_to_vertex_distances_with_radius(ds,
    target + 1, lon, lat, a)` that `elliptical_cone_coverage_internal` computes (radius = semi-major axis).  If the descent
    of the model from a start cell `root` returns `out`, every position `q` of the disc that lies in `root`, a strictly
    equatorial cell, lies in a cell of `out`. -/
theorem econe_circular_no_miss_equatorial (cfg : Cfg) (lon lat a pa : ℝ) (ha : 0 < a) (hA : |lat| + a < tl)
    (hmin : 1 / 2 ^ 1024 < sin a) (ds target : ℕ) (hdt : ds ≤ target) (ht : target ≤ 29) (dists : List ℝ)
    (hdists : largestC2VsWithRadius false ds (target + 1) lon lat a = some dists) (fuel root : ℕ) (out : List Cell)
    (h : coverRec target (ellClassifier (α := ℝ) cfg target (ECone.new lon lat a a pa) dists) fuel ds root 0 = some out)
    (q : ℝ × ℝ) (hq : InCellEq ds root q) (hin : adist q (lon, lat) ≤ a) :
    ∃ c ∈ out, InCellEq c.depth c.hash q := by
  have ha2 := lt_halfPi_of_band lat a hA
  have hpi := Real.pi_gt_three
  have htl := tl_le
  have hlat0 := abs_nonneg lat
  obtain ⟨c, hc, _, hcq, _⟩ := Sph.circular_no_miss cfg lon lat a pa ⟨ha, ha2⟩ hmin dists
    (fun D hD => by
      obtain ⟨_, h2⟩ := dists_bounds ds target hdt ht lon lat a ha.le hA dists hdists D hD
      constructor <;> linarith)
    (fun d h q => d ≤ target ∧ InCellEq d h q ∧ adist (lon, lat) q ≤ a) target ds
    (hcover_eq target ht _)
    (fun d h c D q hd hc hD ⟨_, hq⟩ =>
      H1_equatorial_cone cfg lon lat a hA ds target hdt ht dists hdists d h c D q hd hc hD hq)
    fuel root out h q ⟨hdt, hq, by rw [adist_comm]; exact hin⟩ hin
  exact ⟨c, hc, hcq⟩

/-- **`econe_circular_full_inside_equatorial`** (ℝ, release profile; C13 `circular_full_inside` with `H1` discharged), EVERY
    starting depth `ds ≤ target ≤ 29` (no `2 ≤ ds`: a `full` verdict needs the centre of the cell inside the disc, so the cell
    meets the disc and `H1_equatorial_meet` applies at depths 0 and 1 too).  Under the assumptions of
    `econe_circular_no_miss_equatorial`, a cell of the output flagged FULL either has all its positions (as a strictly
    equatorial cell) within `a` of `(lon, lat)`, or is at the target depth with its four vertices within `a`. -/
theorem econe_circular_full_inside_equatorial (cfg : Cfg) (lon lat a pa : ℝ) (ha : 0 < a) (hA : |lat| + a < tl)
    (ds target : ℕ) (hdt : ds ≤ target) (ht : target ≤ 29) (dists : List ℝ)
    (hdists : largestC2VsWithRadius false ds (target + 1) lon lat a = some dists) (fuel root : ℕ) (out : List Cell)
    (h : coverRec target (ellClassifier (α := ℝ) cfg target (ECone.new lon lat a a pa) dists) fuel ds root 0 = some out)
    (c : Cell) (hc : c ∈ out) (hf : c.full = true) :
    (∀ q, InCellEq c.depth c.hash q → adist q (lon, lat) ≤ a) ∨
    (c.depth = target ∧ ∃ vs, Hash.vertices (α := ℝ) cfg c.depth c.hash = some vs ∧
      ∀ v ∈ vs, adist v (lon, lat) ≤ a) := by
  have ha2 := lt_halfPi_of_band lat a hA
  obtain ⟨l, ⟨hds, hl⟩, hrule⟩ := coverRec_full_rule_inv (fun d l => ds ≤ d ∧ l = d - ds) target _
    (fun d l ⟨h1, h2⟩ => ⟨by omega, by omega⟩) fuel ds root 0 out ⟨Nat.le_refl _, by omega⟩ h c hc hf
  rcases hrule with hk | ⟨_, hk⟩
  · left
    obtain ⟨ctr, D, hctr, hdl, hcc⟩ := ellClassifier_full cfg target _ dists _ _ l hk
    intro q hq
    have hD0 : 0 ≤ D := (dists_bounds ds target hdt ht lon lat a ha.le hA dists hdists D (List.mem_of_getElem? hdl)).1
    obtain ⟨_, hsum⟩ := (contains_cone_circular_iff lon lat a pa ctr.1 ctr.2 D ⟨ha, ha2⟩ hD0).mp hcc
    rw [Prod.mk.eta] at hsum
    obtain ⟨c', hc', hcin⟩ := center_inCellEq cfg c.depth c.hash hq.1 hq.2.1 hq.2.2.1
    rw [hctr] at hc'
    rw [← Option.some.inj hc'] at hcin
    have hle := H1_equatorial_meet cfg lon lat a hA ds target hdt ht dists hdists c.depth c.hash ctr D q ctr hds hctr
      (by rw [← hl]; exact hdl) hq hcin (by rw [adist_comm]; linarith)
    have htri := adist_triangle q ctr (lon, lat)
    rw [adist_comm q ctr] at htri
    linarith
  · right
    obtain ⟨hdt', vs, hvs, hall⟩ := ellClassifier_descend_full cfg target _ dists _ _ l hk
    refine ⟨hdt', vs, hvs, ?_⟩
    intro v hv
    have := List.all_eq_true.mp hall v hv
    exact (econe_contains_circular_iff lon lat a pa v.1 v.2 ⟨ha, ha2⟩).mp this

/-- **`econe_centre_cell_kept_equatorial`** (ℝ, release profile; C13 `centre_cell_kept` with `H1`, `hcover`, `hext` and the
    numeric side condition discharged).  General ellipse `0 < b ≤ a`, any position angle, centre `(lon, lat)` (any real
    longitude) with `|lat| + a < tl`, `sin b > 2^-1024`; EVERY starting depth `ds ≤ target ≤ 29`; `dists` the list computed by
    the crate (radius `a`).  If the descent from a start cell `root` returns `out` and `(lon, lat)` is a position of `root`, a
    strictly equatorial cell, then `(lon, lat)` is a position of a cell of `out`. -/
theorem econe_centre_cell_kept_equatorial (cfg : Cfg) (lon lat a b pa : ℝ) (hb : 0 < b) (hba : b ≤ a)
    (hA : |lat| + a < tl) (hmin : 1 / 2 ^ 1024 < sin b) (ds target : ℕ) (hdt : ds ≤ target) (ht : target ≤ 29)
    (dists : List ℝ) (hdists : largestC2VsWithRadius false ds (target + 1) lon lat a = some dists) (fuel root : ℕ)
    (out : List Cell)
    (h : coverRec target (ellClassifier (α := ℝ) cfg target (ECone.new lon lat a b pa) dists) fuel ds root 0 = some out)
    (hq : InCellEq ds root (lon, lat)) :
    ∃ c ∈ out, InCellEq c.depth c.hash (lon, lat) := by
  have ha0 : 0 < a := lt_of_lt_of_le hb hba
  have ha2 := lt_halfPi_of_band lat a hA
  have hpi := Real.pi_gt_three
  have hskip : ∀ d hh l, (ds ≤ d ∧ l = d - ds) →
      ellClassifier (α := ℝ) cfg target (ECone.new lon lat a b pa) dists d hh l = some .skip →
      ∀ q, (d ≤ target ∧ InCellEq d hh q ∧ True) → ¬ q = (lon, lat) := by
    intro d hh l ⟨hds, hl⟩ hk q' ⟨_, hq', _⟩ hR
    subst hR
    obtain ⟨c, D, hc, hdl, hnc, hov⟩ := ellClassifier_skip cfg target _ dists d hh l hk
    obtain ⟨_, hD2⟩ := dists_bounds ds target hdt ht lon lat a ha0.le hA dists hdists D (List.mem_of_getElem? hdl)
    have hlt := centre_skip_sound lon lat a b pa c.1 c.2 D hb hba ha2 hmin (by linarith) hnc hov
    rw [Prod.mk.eta] at hlt
    have hle := H1_equatorial_cone cfg lon lat a hA ds target hdt ht dists hdists d hh c D (lon, lat) hds hc
      (by rw [← hl]; exact hdl) ⟨hq', by rw [adist_self]; exact ha0.le⟩
    linarith
  obtain ⟨c, hc, _, hcq, _⟩ := coverRec_no_miss_inv
    (fun d h q => d ≤ target ∧ InCellEq d h q ∧ True) (fun q => q = (lon, lat)) (fun d l => ds ≤ d ∧ l = d - ds)
    target _ (fun d l ⟨h1, h2⟩ => ⟨by omega, by omega⟩) (hcover_eq target ht _) hskip fuel ds root 0 out
    ⟨Nat.le_refl _, by omega⟩ h (lon, lat) ⟨hdt, hq, trivial⟩ rfl
  exact ⟨c, hc, hcq⟩

/-- the shape of `H1` of `centre_cell_kept` (no `q`): at the centre of the ellipse -/
theorem H1_equatorial_centre (cfg : Cfg) (lon lat a : ℝ) (ha : 0 ≤ a) (hA : |lat| + a < tl) (ds target : ℕ)
    (hdt : ds ≤ target) (ht : target ≤ 29) (dists : List ℝ)
    (hdists : largestC2VsWithRadius false ds (target + 1) lon lat a = some dists) :
    ∀ d h c D, ds ≤ d → Hash.center (α := ℝ) cfg d h = some c → dists[d - ds]? = some D →
      InCellEq d h (lon, lat) → adist c (lon, lat) ≤ D :=
  fun d h c D hd hc hD hq => H1_equatorial_cone cfg lon lat a hA ds target hdt ht dists hdists d h c D (lon, lat) hd hc hD
    ⟨hq, by rw [adist_self]; exact ha⟩

/-! ## example: the ellipse `lon = 1`, `lat = 0.2`, `a = b = 0.05`, depth 6 (the crate starts at depth 3) -/

/-- the numeric hypotheses for `lon = 1`, `lat = 1/5`, `a = 1/20` -/
theorem ex_hyps : (0 : ℝ) < 1 / 20 ∧ |(1 / 5 : ℝ)| + 1 / 20 < tl ∧ 1 / 2 ^ 1024 < sin (1 / 20 : ℝ) := by
  have := tl_ge
  have hpi := Real.pi_gt_three
  refine ⟨by norm_num, ?_, tiny_lt_sin _ (by norm_num) (by linarith)⟩
  rw [abs_of_pos (by norm_num)]
  linarith

/-- the centre `(1, 1/5)` is a position of cell 4 of depth 3 (base cell 0, `(i, j) = (2, 0)`, centre `(5/4, 3/8)` in the
    projection plane), a strictly equatorial cell: the hash the crate computes at its starting depth 3 -/
theorem ex_centre_in_cell : InCellEq 3 4 ((1 : ℝ), (1 / 5 : ℝ)) := by
  have e : partsOf 3 4 = ⟨0, 2, 0⟩ := by decide +kernel
  have hpi := Real.pi_gt_d2
  have hpi' := Real.pi_lt_d2
  have hs1 : sin (1 / 5 : ℝ) ≤ 1 / 5 := (Real.sin_lt (by norm_num)).le
  have hs2 : (1 / 5 : ℝ) - (1 / 5) ^ 3 / 6 < sin (1 / 5) := Real.sin_gt_sub_cube (by norm_num)
  have h4 : (4 : ℝ) / π ≤ 128 / 100 := by rw [div_le_div_iff₀ (by positivity) (by norm_num)]; linarith
  have h4' : (125 : ℝ) / 100 ≤ 4 / π := by rw [div_le_div_iff₀ (by norm_num) (by positivity)]; linarith
  refine ⟨by decide, by decide, ?_, 4 / π, 3 / 2 * sin (1 / 5), 0, ?_, ?_⟩
  · rw [e]; unfold cellCy baseY; norm_num [abs_lt]
  · rw [e]; unfold InDiamond cellCx cellCy baseX baseY
    norm_num
    rw [abs_of_nonneg (by linarith), abs_of_nonpos (by linarith)]
    linarith
  · unfold latOf
    rw [show (3 : ℝ) / 2 * sin (1 / 5) * (2 / 3) = sin (1 / 5) by ring,
      Real.arcsin_sin (by linarith) (by linarith)]
    ext <;> simp

/-- **the circular no-miss theorem on the concrete ellipse** `lon = 1`, `lat = 0.2`, `a = b = 0.05`, target depth 6, starting
    depth 3 (`best_starting_depth(0.05) = 3`): the list of radii exists, the centre is a position of the start cell `3/4`,
    and every position of the disc in a strictly equatorial start cell is in a returned cell, whatever the position angle -/
example : (∃ dists, largestC2VsWithRadius false 3 (6 + 1) (1 : ℝ) (1 / 5) (1 / 20) = some dists) ∧
    InCellEq 3 4 ((1 : ℝ), (1 / 5 : ℝ)) ∧
    ∀ (cfg : Cfg) (pa : ℝ) (dists : List ℝ),
      largestC2VsWithRadius false 3 (6 + 1) (1 : ℝ) (1 / 5) (1 / 20) = some dists →
      ∀ (fuel root : ℕ) (out : List Cell),
        coverRec 6 (ellClassifier (α := ℝ) cfg 6 (ECone.new 1 (1 / 5) (1 / 20) (1 / 20) pa) dists) fuel 3 root 0 = some out →
        (∀ q, InCellEq 3 root q → adist q (1, 1 / 5) ≤ 1 / 20 → ∃ c ∈ out, InCellEq c.depth c.hash q) ∧
        (∀ c ∈ out, c.full = true → (∀ q, InCellEq c.depth c.hash q → adist q (1, 1 / 5) ≤ 1 / 20) ∨
          (c.depth = 6 ∧ ∃ vs, Hash.vertices (α := ℝ) cfg c.depth c.hash = some vs ∧
            ∀ v ∈ vs, adist v (1, 1 / 5) ≤ 1 / 20)) ∧
        (InCellEq 3 root (1, 1 / 5) → ∃ c ∈ out, InCellEq c.depth c.hash (1, 1 / 5)) := by
  obtain ⟨h1, h2, h3⟩ := ex_hyps
  refine ⟨dists_exists_gen 3 6 (by decide) (by decide) _ _ _, ex_centre_in_cell, ?_⟩
  intro cfg pa dists hdists fuel root out h
  exact ⟨fun q hq hin => econe_circular_no_miss_equatorial cfg 1 (1 / 5) (1 / 20) pa h1 h2 h3 3 6 (by decide) (by decide)
      dists hdists fuel root out h q hq hin,
    fun c hc hf => econe_circular_full_inside_equatorial cfg 1 (1 / 5) (1 / 20) pa h1 h2 3 6 (by decide) (by decide)
      dists hdists fuel root out h c hc hf,
    fun hq => econe_centre_cell_kept_equatorial cfg 1 (1 / 5) (1 / 20) (1 / 20) pa h1 le_rfl h2 h3 3 6 (by decide)
      (by decide) dists hdists fuel root out h hq⟩

/-- a genuinely elliptical example for the centre cell: `a = 0.05`, `b = 0.01`, position angle `0.3` -/
example (cfg : Cfg) (dists : List ℝ)
    (hdists : largestC2VsWithRadius false 3 (6 + 1) (1 : ℝ) (1 / 5) (1 / 20) = some dists) (fuel : ℕ) (out : List Cell)
    (h : coverRec 6 (ellClassifier (α := ℝ) cfg 6 (ECone.new 1 (1 / 5) (1 / 20) (1 / 100) (3 / 10)) dists) fuel 3 4 0
      = some out) : ∃ c ∈ out, InCellEq c.depth c.hash ((1 : ℝ), (1 / 5 : ℝ)) := by
  obtain ⟨h1, h2, _⟩ := ex_hyps
  have hpi := Real.pi_gt_three
  exact econe_centre_cell_kept_equatorial cfg 1 (1 / 5) (1 / 20) (1 / 100) (3 / 10) (by norm_num) (by norm_num) h2
    (tiny_lt_sin _ (by norm_num) (by linarith)) 3 6 (by decide) (by decide) dists hdists fuel 4 out h ex_centre_in_cell

end Hpx.EConeEq

#print axioms Hpx.EConeEq.H1_equatorial_meet
#print axioms Hpx.EConeEq.econe_circular_no_miss_equatorial
#print axioms Hpx.EConeEq.econe_circular_full_inside_equatorial
#print axioms Hpx.EConeEq.econe_centre_cell_kept_equatorial
#print axioms Hpx.EConeEq.ex_centre_in_cell
